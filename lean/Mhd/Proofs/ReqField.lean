/-
  Proofs about the header-section scanner (`Mhd.Model.ReqField`: `get_req_header`,
  `get_req_headers` incl. the shift-back block):
  * `HSP.Inv` — representation invariant (positions inside the received data; every
    field-line element ends, with its terminating NUL, before `read_buffer`; the version
    string ends before `read_buffer`),
  * `hsStep_ok` — no fault, invariant kept, progress;  `hsStep_ext` — locality;
  * `hsLaws` — the generic scanner laws hold for every combination of flags.
  The shift-back block is fault-free *because* the tail element it uses is a field line
  (`lastEnd_le`); with the pre-fix code (tail of any kind) this lemma is false.
-/
import Mhd.Model.ReqField
import Mhd.Proofs.ReqLine
set_option linter.unusedSimpArgs false
namespace Mhd.Req
namespace HSP
open Mhd.Gen

def ext (e : Bytes) : Step HS HDone → Step HS HDone
  | .advance s => .advance (hsExtend s e)
  | .done r => .done (hsExtendR r e)
  | .needMore => .needMore
  | .fault f => .fault f

@[simp] theorem ext_advance (e : Bytes) (s : HS) : ext e (.advance s) = .advance (hsExtend s e) := rfl
@[simp] theorem ext_done (e : Bytes) (r : HDone) : ext e (.done r) = .done (hsExtendR r e) := rfl

/-- representation invariant of the header-section parser -/
structure Inv (s : HS) : Prop where
  hp : s.rb + s.p ≤ s.buf.size
  hrb : 1 ≤ s.rb
  hws : s.wsStart ≤ s.p
  hname : s.nameLen ≤ s.p
  hvs : s.valueStart ≤ s.p
  hver : s.version + Discipline.httpVerLen + 1 ≤ s.rb
  helems : ∀ el ∈ s.elems, el.kind = Http.kindHeader → ∀ v, el.value = some v → v.off + v.len + 1 ≤ s.rb

theorem Inv.ext {s : HS} (h : Inv s) (e : Bytes) : Inv (hsExtend s e) := by
  refine ⟨?_, h.hrb, h.hws, h.hname, h.hvs, h.hver, h.helems⟩
  show s.rb + s.p ≤ (s.buf ++ e).size
  rw [Array.size_append]; have := h.hp; omega

structure StepOK (s : HS) (r : Step HS HDone) : Prop where
  nofault : ∀ f, r ≠ .fault f
  adv : ∀ s', r = .advance s' → Inv s' ∧ s'.buf.size = s.buf.size ∧ s.rb + s.p < s'.rb + s'.p

theorem StepOK.done (s : HS) (r : HDone) : StepOK s (.done r) :=
  ⟨fun _ h => (by cases h), fun _ h => (by cases h)⟩
theorem StepOK.needMore (s : HS) : StepOK s .needMore :=
  ⟨fun _ h => (by cases h), fun _ h => (by cases h)⟩
theorem StepOK.mk_adv (s s1 : HS) (h : Inv s1) (hs : s1.buf.size = s.buf.size) (hp : s.rb + s.p < s1.rb + s1.p) :
    StepOK s (.advance s1) :=
  ⟨fun _ h => (by cases h), fun s' h' => (by cases h'; exact ⟨h, hs, hp⟩)⟩

/-! ### whitespace / ordinary character -/
theorem onFieldWsp_ok (F : FLFlags) (s : HS) (h : Inv s) (hb : s.rb + s.p < s.buf.size) : StepOK s (onFieldWsp F s) := by
  unfold onFieldWsp
  have key : ∀ (w : Nat) (b : Bool), w ≤ s.p + 1 → Inv { s with wsStart := w, startsWithWs := b, p := s.p + 1 } := by
    intro w b hw
    exact ⟨by show s.rb + (s.p + 1) ≤ s.buf.size; omega, h.hrb, hw, by have := h.hname; show s.nameLen ≤ s.p + 1; omega,
      by have := h.hvs; show s.valueStart ≤ s.p + 1; omega, h.hver, h.helems⟩
  have hw : (if (s.wsStart == 0) = true then s.p else s.wsStart) ≤ s.p + 1 := by
    split <;> (have := h.hws; omega)
  repeat' split
  all_goals first
    | exact StepOK.done _ _
    | exact StepOK.mk_adv _ _ (key _ _ hw) rfl (by show s.rb + s.p < s.rb + (s.p + 1); omega)
    | exact StepOK.mk_adv _ _ (key _ _ (by have := h.hws; omega)) rfl (by show s.rb + s.p < s.rb + (s.p + 1); omega)

theorem onFieldWsp_ext (F : FLFlags) (s : HS) (e : Bytes) : onFieldWsp F (hsExtend s e) = ext e (onFieldWsp F s) := by
  unfold onFieldWsp
  simp only [apply_ite (ext e), ext_advance, ext_done, HS.err, hsExtend, hsExtendR]
  rfl


theorem Inv.step1 {s : HS} (h : Inv s) (hb : s.rb + s.p < s.buf.size) (buf : Bytes) (hs : buf.size = s.buf.size)
    (w n v : Nat) (b : Bool) (hw : w ≤ s.p + 1) (hn : n ≤ s.p + 1) (hv : v ≤ s.p + 1) :
    Inv { s with buf := buf, wsStart := w, nameLen := n, valueStart := v, nameEndFound := b, p := s.p + 1 } :=
  ⟨by show s.rb + (s.p + 1) ≤ buf.size; omega, h.hrb, hw, hn, hv, h.hver, h.helems⟩

theorem onFieldChar_ok (F : FLFlags) (s : HS) (chr : UInt8) (h : Inv s) (hb : s.rb + s.p < s.buf.size) :
    StepOK s (onFieldChar F s chr) := by
  unfold onFieldChar
  have hws := h.hws; have hn := h.hname; have hv := h.hvs
  split
  · split
    · -- ':'
      by_cases hw0 : (s.wsStart == 0) = true
      · simp only [hw0, ↓reduceIte]
        split
        · exact StepOK.done _ _
        · rw [wr_in (by show s.rb + s.p < s.buf.size; exact hb)]
          exact StepOK.mk_adv _ _ (h.step1 hb _ (by simp) _ _ _ _ (by omega) (by omega) (by omega)) (by simp)
            (by show s.rb + s.p < s.rb + (s.p + 1); omega)
      · simp only [hw0, ↓reduceIte, Bool.false_eq_true]
        by_cases hbc : (!F.allowWspBeforeColon) = true
        · simp only [hbc, ↓reduceIte]; exact StepOK.done _ _
        · simp only [hbc, ↓reduceIte, Bool.false_eq_true]
          split
          · exact StepOK.done _ _
          · rw [wr_in (by show s.rb + s.wsStart < s.buf.size; omega)]
            exact StepOK.mk_adv _ _ (h.step1 hb _ (by simp) _ _ _ _ (by omega) (by omega) (by omega)) (by simp)
              (by show s.rb + s.p < s.rb + (s.p + 1); omega)
    · repeat' split
      all_goals first
        | exact StepOK.done _ _
        | exact StepOK.mk_adv _ _ (h.step1 hb _ rfl _ _ _ _ (by omega) (by omega) (by omega)) rfl
            (by show s.rb + s.p < s.rb + (s.p + 1); omega)
  · have hvv : (if (s.valueStart == 0) = true then s.p else s.valueStart) ≤ s.p + 1 := by split <;> omega
    exact StepOK.mk_adv _ _ (h.step1 hb _ rfl _ _ _ _ (by omega) (by omega) hvv) rfl
      (by show s.rb + s.p < s.rb + (s.p + 1); omega)

theorem onFieldChar_ext (F : FLFlags) (s : HS) (chr : UInt8) (e : Bytes) (h : Inv s) (hb : s.rb + s.p < s.buf.size) :
    onFieldChar F (hsExtend s e) chr = ext e (onFieldChar F s chr) := by
  unfold onFieldChar
  have hws := h.hws
  have e1 : (hsExtend s e).nameEndFound = s.nameEndFound := rfl
  have e2 : (hsExtend s e).startsWithWs = s.startsWithWs := rfl
  have e3 : (hsExtend s e).wsStart = s.wsStart := rfl
  have e4 : (hsExtend s e).valueStart = s.valueStart := rfl
  rw [e1, e2, e3, e4]
  by_cases c1 : (!s.nameEndFound && !s.startsWithWs) = true
  · simp only [c1, ↓reduceIte]
    by_cases c2 : (chr == 58) = true
    · simp only [c2, ↓reduceIte]
      by_cases hw0 : (s.wsStart == 0) = true
      · simp only [hw0, ↓reduceIte]
        by_cases c3 : (({ s with nameLen := s.p } : HS).nameLen == 0 && !F.allowEmptyName) = true
        · have c3' : (({ hsExtend s e with nameLen := (hsExtend s e).p } : HS).nameLen == 0 && !F.allowEmptyName) = true := c3
          simp only [c3, c3', ↓reduceIte]; rfl
        · have c3' : ¬ (({ hsExtend s e with nameLen := (hsExtend s e).p } : HS).nameLen == 0 && !F.allowEmptyName) = true := c3
          simp only [c3, c3', ↓reduceIte, Bool.false_eq_true]
          have hi : s.rb + s.p < s.buf.size := hb
          show wr (s.buf ++ e) (s.rb + s.p) 0 72 Step.fault _ = ext e (wr s.buf (s.rb + s.p) 0 72 Step.fault _)
          rw [wr_in hi, wr_ext hi]; rfl
      · simp only [hw0, ↓reduceIte, Bool.false_eq_true]
        by_cases hbc : (!F.allowWspBeforeColon) = true
        · simp only [hbc, ↓reduceIte]; rfl
        · simp only [hbc, ↓reduceIte, Bool.false_eq_true]
          by_cases c3 : (({ s with nameLen := s.wsStart, wsStart := 0 } : HS).nameLen == 0 && !F.allowEmptyName) = true
          · have c3' : (({ hsExtend s e with nameLen := (hsExtend s e).wsStart, wsStart := 0 } : HS).nameLen == 0 && !F.allowEmptyName) = true := c3
            simp only [c3, c3', ↓reduceIte]; rfl
          · have c3' : ¬ (({ hsExtend s e with nameLen := (hsExtend s e).wsStart, wsStart := 0 } : HS).nameLen == 0 && !F.allowEmptyName) = true := c3
            simp only [c3, c3', ↓reduceIte, Bool.false_eq_true]
            have hi : s.rb + s.wsStart < s.buf.size := by omega
            show wr (s.buf ++ e) (s.rb + s.wsStart) 0 72 Step.fault _ = ext e (wr s.buf (s.rb + s.wsStart) 0 72 Step.fault _)
            rw [wr_in hi, wr_ext hi]; rfl
    · simp only [c2, ↓reduceIte, Bool.false_eq_true]
      simp only [apply_ite (ext e), ext_advance, ext_done, HS.err, hsExtend, hsExtendR]
  · simp only [c1, ↓reduceIte, Bool.false_eq_true]
    rfl


/-! ### end of a line -/
theorem extract_stop_ge (buf : Bytes) (a b : Nat) (h : buf.size ≤ b) : buf.extract a b = buf.extract a buf.size := by
  apply Array.ext_getElem?
  intro i
  simp only [Array.getElem?_extract]
  have : min b buf.size = buf.size := by omega
  rw [this, Nat.min_self]

theorem shift_ext (buf e : Bytes) (k rb : Nat) (hk : k ≤ rb) (hr : rb ≤ buf.size) :
    (buf ++ e).extract 0 k ++ (buf ++ e).extract rb (buf ++ e).size
      = (buf.extract 0 k ++ buf.extract rb buf.size) ++ e := by
  rw [Array.extract_append, Array.extract_append, Array.size_append]
  have h1 : k - buf.size = 0 := by omega
  have h2 : rb - buf.size = 0 := by omega
  have h3 : buf.size + e.size - buf.size = e.size := by omega
  rw [h1, h2, h3, Nat.zero_sub, extract_stop_ge buf rb _ (by omega)]
  simp [Array.append_assoc]

theorem lastEnd_le (s : HS)
    (hver : s.version + Discipline.httpVerLen + 1 ≤ s.rb)
    (helems : ∀ el ∈ s.elems, el.kind = Http.kindHeader → ∀ v, el.value = some v → v.off + v.len + 1 ≤ s.rb) :
    lastElemEnd s + 1 ≤ s.rb := by
  unfold lastElemEnd
  split
  next el hl =>
    have hm := List.mem_of_getLast? hl
    split
    next hk =>
      simp only [beq_iff_eq] at hk
      split
      next v hv => exact helems el hm hk v hv
      next => exact hver
    next => exact hver
  next => exact hver

theorem finishHeaders_eq (s : HS) (fs : Nat) (b2 : UInt8) (h2 : 2 ≤ s.rb) (hb : s.buf[s.rb - 2]? = some b2)
    (hle : lastElemEnd s + 1 ≤ s.rb) :
    finishHeaders s fs =
      if Discipline.bufIncSize > s.rbSize then
        .done (.ok { buf := s.buf.extract 0 (s.rb - (s.rb - (lastElemEnd s + 1))) ++ s.buf.extract s.rb s.buf.size,
                     rb := s.rb - (s.rb - (lastElemEnd s + 1)), rbSize := s.rbSize + (s.rb - (lastElemEnd s + 1)),
                     elems := s.elems, headerSize := s.rb - s.method,
                     fieldLinesSize := if b2 == cCR then s.rb - fs - 1 - 1 else s.rb - fs - 1,
                     shifted := s.rb - (lastElemEnd s + 1), crSp := s.crSp, skippedBroken := s.skippedBroken })
      else
        .done (.ok { buf := s.buf, rb := s.rb, rbSize := s.rbSize, elems := s.elems, headerSize := s.rb - s.method,
                     fieldLinesSize := if b2 == cCR then s.rb - fs - 1 - 1 else s.rb - fs - 1,
                     shifted := 0, crSp := s.crSp, skippedBroken := s.skippedBroken }) := by
  unfold finishHeaders
  rw [if_neg (by omega), hb]
  dsimp only
  split
  · have : ¬ (lastElemEnd s + 1 > s.rb) := by omega
    rw [if_neg this]
  · rfl

theorem finishHeaders_ext (s : HS) (fs : Nat) (e : Bytes) (h2 : 2 ≤ s.rb) (hsz : s.rb ≤ s.buf.size)
    (hle : lastElemEnd s + 1 ≤ s.rb) :
    finishHeaders (hsExtend s e) fs = ext e (finishHeaders s fs) ∧ (∀ f, finishHeaders s fs ≠ .fault f) ∧
      (∀ s', finishHeaders s fs ≠ .advance s') ∧ finishHeaders s fs ≠ .needMore := by
  have hi : s.rb - 2 < s.buf.size := by omega
  cases hb : s.buf[s.rb - 2]? with
  | none => rw [Array.getElem?_eq_none_iff] at hb; omega
  | some b2 =>
    have hb' : (hsExtend s e).buf[(hsExtend s e).rb - 2]? = some b2 := by
      show (s.buf ++ e)[s.rb - 2]? = some b2
      rw [get_ext _ _ _ hi, hb]
    have eL : lastElemEnd (hsExtend s e) = lastElemEnd s := rfl
    have e2 : (hsExtend s e).rb = s.rb := rfl
    rw [finishHeaders_eq s fs b2 h2 hb hle, finishHeaders_eq (hsExtend s e) fs b2 h2 hb' (by rw [eL, e2]; exact hle)]
    have e1 : (hsExtend s e).rbSize = s.rbSize := rfl
    rw [e1, eL, e2]
    refine ⟨?_, ?_, ?_, ?_⟩
    · split
      · show Step.done (HDone.ok { buf := (s.buf ++ e).extract 0 _ ++ (s.buf ++ e).extract s.rb (s.buf ++ e).size, .. }) = _
        rw [shift_ext s.buf e _ s.rb (by omega) hsz]
        rfl
      · rfl
    · intro f; split <;> (intro h; cases h)
    · intro s'; split <;> (intro h; cases h)
    · split <;> (intro h; cases h)


theorem Inv.nextLine {s : HS} (h : Inv s) (s' : HS) (lineLen : Nat)
    (hbuf : s'.buf.size = s.buf.size) (hrb : s'.rb = s.rb + lineLen) (hp : s'.p = 0) (hws : s'.wsStart = 0)
    (hn : s'.nameLen = 0) (hv : s'.valueStart = 0) (hver : s'.version = s.version)
    (hl : s.rb + lineLen ≤ s.buf.size)
    (hels : ∀ el ∈ s'.elems, el.kind = Http.kindHeader → ∀ v, el.value = some v → v.off + v.len + 1 ≤ s.rb + lineLen) :
    Inv s' :=
  ⟨by rw [hrb, hp, hbuf]; omega, by rw [hrb]; have := h.hrb; omega, by rw [hws, hp]; exact Nat.le_refl _,
   by rw [hn, hp]; exact Nat.le_refl _, by rw [hv, hp]; exact Nat.le_refl _,
   by rw [hver, hrb]; have := h.hver; omega, by rw [hrb]; exact hels⟩

theorem old_elems {s : HS} (h : Inv s) (lineLen : Nat) :
    ∀ el ∈ s.elems, el.kind = Http.kindHeader → ∀ v, el.value = some v → v.off + v.len + 1 ≤ s.rb + lineLen := by
  intro el hm hk v hv
  have := h.helems el hm hk v hv
  omega

theorem new_elems {s : HS} (h : Inv s) (lineLen : Nat) (k : Nat) (key : Slice) (off len : Nat)
    (hb : off + len + 1 ≤ s.rb + lineLen) :
    ∀ el ∈ s.elems ++ [⟨k, key, some ⟨0, off, len⟩⟩], el.kind = Http.kindHeader →
      ∀ v, el.value = some v → v.off + v.len + 1 ≤ s.rb + lineLen := by
  intro el hm hk v hv
  rw [List.mem_append] at hm
  cases hm with
  | inl hm => exact old_elems h lineLen el hm hk v hv
  | inr hm =>
    simp only [List.mem_singleton] at hm
    subst hm
    simp only [Option.some.injEq] at hv
    subst hv
    exact hb

theorem onLineEnd_ok (F : FLFlags) (s : HS) (lineLen : Nat) (h : Inv s) (hpl : s.p < lineLen)
    (hl : s.rb + lineLen ≤ s.buf.size) : StepOK s (onLineEnd F s lineLen) := by
  unfold onLineEnd
  have hws := h.hws; have hvs := h.hvs
  have prog : s.rb + s.p < s.rb + lineLen + 0 := by omega
  split
  · exact StepOK.mk_adv _ _ (h.nextLine _ lineLen rfl rfl rfl rfl rfl rfl rfl hl (old_elems h lineLen)) rfl prog
  · split
    · split
      · exact StepOK.done _ _
      · exact StepOK.mk_adv _ _ (h.nextLine _ lineLen rfl rfl rfl rfl rfl rfl rfl hl (old_elems h lineLen)) rfl prog
    · dsimp only
      split
      · rw [wr_in (by show s.rb + s.p < s.buf.size; omega)]
        exact StepOK.mk_adv _ _ (h.nextLine _ lineLen (by simp [HS.consume, HS.resetLine]) rfl rfl rfl rfl rfl rfl hl
          (new_elems h lineLen _ _ _ _ (by show s.rb + s.p + 0 + 1 ≤ _; omega))) (by simp [HS.consume, HS.resetLine]) prog
      · split
        · rw [wr_in (by show s.rb + s.wsStart < s.buf.size; omega)]
          exact StepOK.mk_adv _ _ (h.nextLine _ lineLen (by simp [HS.consume, HS.resetLine]) rfl rfl rfl rfl rfl rfl hl
            (new_elems h lineLen _ _ _ _ (by show s.rb + s.valueStart + (s.wsStart - s.valueStart) + 1 ≤ _; omega)))
            (by simp [HS.consume, HS.resetLine]) prog
        · rw [wr_in (by show s.rb + s.p < s.buf.size; omega)]
          exact StepOK.mk_adv _ _ (h.nextLine _ lineLen (by simp [HS.consume, HS.resetLine]) rfl rfl rfl rfl rfl rfl hl
            (new_elems h lineLen _ _ _ _ (by show s.rb + s.valueStart + (s.p - s.valueStart) + 1 ≤ _; omega)))
            (by simp [HS.consume, HS.resetLine]) prog

theorem onLineEnd_ext (F : FLFlags) (s : HS) (lineLen : Nat) (e : Bytes) (h : Inv s) (hpl : s.p < lineLen)
    (hl : s.rb + lineLen ≤ s.buf.size) : onLineEnd F (hsExtend s e) lineLen = ext e (onLineEnd F s lineLen) := by
  unfold onLineEnd
  have hws := h.hws; have hvs := h.hvs
  have e1 : (hsExtend s e).startsWithWs = s.startsWithWs := rfl
  have e2 : (hsExtend s e).nameEndFound = s.nameEndFound := rfl
  have e3 : (hsExtend s e).valueStart = s.valueStart := rfl
  have e4 : (hsExtend s e).wsStart = s.wsStart := rfl
  have e5 : (hsExtend s e).buf = s.buf ++ e := rfl
  have e6 : (hsExtend s e).rb = s.rb := rfl
  have e7 : (hsExtend s e).p = s.p := rfl
  rw [e1, e2, e3, e4, e5, e6, e7]
  by_cases c1 : s.startsWithWs = true
  · simp only [c1, ↓reduceIte]; rfl
  · simp only [c1, ↓reduceIte, Bool.false_eq_true]
    by_cases c2 : (!s.nameEndFound) = true
    · simp only [c2, ↓reduceIte]
      by_cases c3 : (!F.allowLineWithoutColon) = true
      · simp only [c3, ↓reduceIte]; rfl
      · simp only [c3, ↓reduceIte, Bool.false_eq_true]; rfl
    · simp only [c2, ↓reduceIte, Bool.false_eq_true]
      by_cases c4 : (s.valueStart == 0) = true
      · simp only [c4, ↓reduceIte]
        have hi : s.rb + s.p < s.buf.size := by omega
        rw [wr_in hi, wr_ext hi]; rfl
      · simp only [c4, ↓reduceIte, Bool.false_eq_true]
        by_cases c5 : (s.wsStart != 0) = true
        · simp only [c5, ↓reduceIte]
          have hi : s.rb + s.wsStart < s.buf.size := by omega
          rw [wr_in hi, wr_ext hi]; rfl
        · simp only [c5, ↓reduceIte, Bool.false_eq_true]
          have hi : s.rb + s.p < s.buf.size := by omega
          rw [wr_in hi, wr_ext hi]; rfl


theorem Inv.setBuf {s : HS} (h : Inv s) (buf : Bytes) (hs : buf.size = s.buf.size) (n : Nat) :
    Inv { s with buf := buf, crSp := n } :=
  ⟨by show s.rb + s.p ≤ buf.size; rw [hs]; exact h.hp, h.hrb, h.hws, h.hname, h.hvs, h.hver, h.helems⟩

theorem StepOK.conv {s s1 : HS} {r : Step HS HDone} (h : StepOK s1 r) (e1 : s1.buf.size = s.buf.size) (e2 : s1.rb = s.rb)
    (e3 : s1.p = s.p) : StepOK s r :=
  ⟨h.nofault, fun s' hs' => by have := h.adv s' hs'; rw [e1, e2, e3] at this; exact this⟩

theorem lastElemEnd_consume (s : HS) (n : Nat) : lastElemEnd (s.consume n) = lastElemEnd s := rfl

theorem handleFieldEol_ok (F : FLFlags) (s : HS) (chr : UInt8) (fs : Nat) (h : Inv s)
    (hle : s.rb + (s.p + (if chr == cCR then 2 else 1)) ≤ s.buf.size)
    (hlt : s.p ≠ 0 → s.rb + (s.p + (if chr == cCR then 2 else 1)) < s.buf.size) :
    StepOK s (handleFieldEol F s chr fs) := by
  unfold handleFieldEol
  dsimp only
  generalize hL : s.p + (if (chr == cCR) = true then 2 else 1) = lineLen at hle hlt
  have hpl : s.p < lineLen := by rw [← hL]; split <;> omega
  by_cases hp0 : (s.p == 0) = true
  · simp only [hp0, ↓reduceIte]
    have hrb := h.hrb
    have hx := finishHeaders_ext (s.consume lineLen) fs #[] (by show 2 ≤ s.rb + lineLen; omega) hle
      (by rw [lastElemEnd_consume]; have := lastEnd_le s h.hver h.helems; show _ ≤ s.rb + lineLen; omega)
    exact ⟨hx.2.1, fun s' hs' => absurd hs' (hx.2.2.1 s')⟩
  · simp only [hp0, ↓reduceIte, Bool.false_eq_true]
    simp only [beq_iff_eq] at hp0
    have hl := hlt hp0
    cases hn : s.buf[s.rb + lineLen]? with
    | none => rw [Array.getElem?_eq_none_iff] at hn; omega
    | some nxt =>
      dsimp only
      split
      · split
        · exact StepOK.done _ _
        · have hi : s.rb + s.p < s.buf.size := by omega
          rw [wr_in hi]
          split
          next hcr =>
            have hi2 : s.rb + s.p + 1 < (s.buf.setIfInBounds (s.rb + s.p) cSP).size := by
              simp only [Array.size_setIfInBounds]; rw [← hL, if_pos hcr] at hl; omega
            rw [wr_in hi2]
            exact (onFieldWsp_ok F _ (h.setBuf _ (by simp) s.crSp) (by simp only [Array.size_setIfInBounds]; exact hi)).conv
              (by simp) rfl rfl
          next =>
            exact (onFieldWsp_ok F _ (h.setBuf _ (by simp) s.crSp) (by simp only [Array.size_setIfInBounds]; exact hi)).conv
              (by simp) rfl rfl
      · exact onLineEnd_ok F s lineLen h hpl (by omega)

theorem handleFieldEol_ext (F : FLFlags) (s : HS) (chr : UInt8) (fs : Nat) (e : Bytes) (h : Inv s)
    (hle : s.rb + (s.p + (if chr == cCR then 2 else 1)) ≤ s.buf.size)
    (hlt : s.p ≠ 0 → s.rb + (s.p + (if chr == cCR then 2 else 1)) < s.buf.size) :
    handleFieldEol F (hsExtend s e) chr fs = ext e (handleFieldEol F s chr fs) := by
  unfold handleFieldEol
  have e5 : (hsExtend s e).buf = s.buf ++ e := rfl
  have e6 : (hsExtend s e).rb = s.rb := rfl
  have e7 : (hsExtend s e).p = s.p := rfl
  rw [e5, e6, e7]
  dsimp only
  generalize hL : s.p + (if (chr == cCR) = true then 2 else 1) = lineLen at hle hlt
  have hpl : s.p < lineLen := by rw [← hL]; split <;> omega
  by_cases hp0 : (s.p == 0) = true
  · simp only [hp0, ↓reduceIte]
    have hrb := h.hrb
    exact (finishHeaders_ext (s.consume lineLen) fs e (by show 2 ≤ s.rb + lineLen; omega) hle
      (by rw [lastElemEnd_consume]; have := lastEnd_le s h.hver h.helems; show _ ≤ s.rb + lineLen; omega)).1
  · simp only [hp0, ↓reduceIte, Bool.false_eq_true]
    simp only [beq_iff_eq] at hp0
    have hl := hlt hp0
    rw [get_ext _ _ _ hl]
    cases hn : s.buf[s.rb + lineLen]? with
    | none => rw [Array.getElem?_eq_none_iff] at hn; omega
    | some nxt =>
      dsimp only
      by_cases c1 : (nxt == cSP || nxt == cHT) = true
      · simp only [c1, ↓reduceIte]
        by_cases c2 : (!F.allowFolded) = true
        · simp only [c2, ↓reduceIte]; rfl
        · simp only [c2, ↓reduceIte, Bool.false_eq_true]
          have hi : s.rb + s.p < s.buf.size := by omega
          rw [wr_in hi, wr_ext hi]
          by_cases hcr : (chr == cCR) = true
          · simp only [hcr, ↓reduceIte]
            have hi2 : s.rb + s.p + 1 < (s.buf.setIfInBounds (s.rb + s.p) cSP).size := by
              simp only [Array.size_setIfInBounds]; rw [← hL, if_pos hcr] at hl; omega
            rw [wr_in hi2, wr_ext hi2]
            exact onFieldWsp_ext F { s with buf := (s.buf.setIfInBounds (s.rb + s.p) cSP).setIfInBounds (s.rb + s.p + 1) cSP } e
          · simp only [hcr, ↓reduceIte, Bool.false_eq_true]
            exact onFieldWsp_ext F { s with buf := s.buf.setIfInBounds (s.rb + s.p) cSP } e
      · simp only [c1, ↓reduceIte, Bool.false_eq_true]
        exact onLineEnd_ext F s lineLen e h hpl (by omega)


theorem fill_gt {s : HS} {c : UInt8} (h : s.buf[s.rb + s.p]? = some c) : s.rb + s.p < s.buf.size := by
  by_cases hlt : s.rb + s.p < s.buf.size
  · exact hlt
  · rw [Array.getElem?_eq_none (by omega)] at h; cases h

theorem errOK (s : HS) (k : HErrKind) : StepOK s (HS.err k) := StepOK.done _ _

theorem hsStep_ok (F : FLFlags) (fs : Nat) (s : HS) (h : Inv s) : StepOK s (hsStep F fs s) := by
  unfold hsStep
  cases hc : s.buf[s.rb + s.p]? with
  | none => exact StepOK.needMore s
  | some chr =>
    have hb := fill_gt hc
    dsimp only
    by_cases hcr : (chr == cCR) = true
    · simp only [hcr, ↓reduceIte]
      by_cases hnm : ((s.p != 0 && decide (s.p + 2 ≥ s.fill)) || (s.p == 0 && decide (s.p + 2 > s.fill))) = true
      · simp only [hnm, ↓reduceIte]; exact StepOK.needMore s
      · simp only [hnm, ↓reduceIte, Bool.false_eq_true]
        simp only [HS.fill, Bool.or_eq_true, Bool.and_eq_true, bne_iff_ne, ne_eq, decide_eq_true_eq, beq_iff_eq, not_or,
          not_and] at hnm
        have hle : s.rb + (s.p + (if (chr == cCR) = true then 2 else 1)) ≤ s.buf.size := by
          rw [if_pos hcr]; by_cases hp : s.p = 0
          · have := hnm.2 hp; simp at this; omega
          · have := hnm.1 hp; simp at this; omega
        have hlt : s.p ≠ 0 → s.rb + (s.p + (if (chr == cCR) = true then 2 else 1)) < s.buf.size := by
          intro hp; rw [if_pos hcr]; have := hnm.1 hp; simp at this; omega
        have hi : s.rb + s.p + 1 < s.buf.size := by rw [if_pos hcr] at hle; omega
        cases hn : s.buf[s.rb + s.p + 1]? with
        | none => rw [Array.getElem?_eq_none_iff] at hn; omega
        | some nxt =>
          dsimp only
          split
          · exact handleFieldEol_ok F s chr fs h hle hlt
          · split
            · rw [wr_in hb]
              exact (onFieldWsp_ok F _ (h.setBuf _ (by simp) (s.crSp + 1))
                (by simp only [Array.size_setIfInBounds]; exact hb)).conv (by simp) rfl rfl
            · split
              · exact errOK _ _
              · exact onFieldChar_ok F s chr h hb
    · simp only [hcr, ↓reduceIte, Bool.false_eq_true]
      by_cases hlf : (chr == cLF) = true
      · simp only [hlf, ↓reduceIte]
        split
        · by_cases hnm : (s.p != 0 && decide (s.p + 1 ≥ s.fill)) = true
          · simp only [hnm, ↓reduceIte]; exact StepOK.needMore s
          · simp only [hnm, ↓reduceIte, Bool.false_eq_true]
            simp only [HS.fill, Bool.and_eq_true, bne_iff_ne, ne_eq, decide_eq_true_eq, not_and] at hnm
            exact handleFieldEol_ok F s chr fs h (by rw [if_neg hcr]; omega)
              (by intro hp; rw [if_neg hcr]; have := hnm hp; simp at this; omega)
        · exact errOK _ _
      · simp only [hlf, ↓reduceIte, Bool.false_eq_true]
        split
        · exact onFieldWsp_ok F s h hb
        · split
          · split
            · exact errOK _ _
            · rw [wr_in hb]
              exact (onFieldWsp_ok F _ (h.setBuf _ (by simp) s.crSp)
                (by simp only [Array.size_setIfInBounds]; exact hb)).conv (by simp) rfl rfl
          · exact onFieldChar_ok F s chr h hb

theorem hsStep_ext (F : FLFlags) (fs : Nat) (s : HS) (e : Bytes) (h : Inv s) (hnmore : hsStep F fs s ≠ .needMore) :
    hsStep F fs (hsExtend s e) = ext e (hsStep F fs s) := by
  unfold hsStep at hnmore ⊢
  have e5 : (hsExtend s e).buf = s.buf ++ e := rfl
  have e6 : (hsExtend s e).rb = s.rb := rfl
  have e7 : (hsExtend s e).p = s.p := rfl
  have e8 : (hsExtend s e).crSp = s.crSp := rfl
  rw [e5, e6, e7, e8]
  cases hc : s.buf[s.rb + s.p]? with
  | none => rw [hc] at hnmore; exact absurd rfl hnmore
  | some chr =>
    have hb := fill_gt hc
    rw [hc] at hnmore
    rw [get_ext _ _ _ hb, hc]
    dsimp only at hnmore ⊢
    by_cases hcr : (chr == cCR) = true
    · simp only [hcr, ↓reduceIte] at hnmore ⊢
      by_cases hnm : ((s.p != 0 && decide (s.p + 2 ≥ s.fill)) || (s.p == 0 && decide (s.p + 2 > s.fill))) = true
      · simp only [hnm, ↓reduceIte] at hnmore; exact absurd rfl hnmore
      · simp only [hnm, ↓reduceIte, Bool.false_eq_true] at hnmore ⊢
        have hnm2 : ¬ ((s.p != 0 && decide (s.p + 2 ≥ (hsExtend s e).fill)) || (s.p == 0 && decide (s.p + 2 > (hsExtend s e).fill))) = true := by
          simp only [HS.fill, e5, e6, Array.size_append, Bool.or_eq_true, Bool.and_eq_true, bne_iff_ne, ne_eq,
            decide_eq_true_eq, beq_iff_eq, not_or, not_and] at hnm ⊢
          constructor
          · intro hp; have := hnm.1 hp; simp at this; omega
          · intro hp; have := hnm.2 hp; simp at this; omega
        simp only [hnm2, ↓reduceIte, Bool.false_eq_true]
        simp only [HS.fill, Bool.or_eq_true, Bool.and_eq_true, bne_iff_ne, ne_eq, decide_eq_true_eq, beq_iff_eq, not_or,
          not_and] at hnm
        have hle : s.rb + (s.p + (if (chr == cCR) = true then 2 else 1)) ≤ s.buf.size := by
          rw [if_pos hcr]; by_cases hp : s.p = 0
          · have := hnm.2 hp; simp at this; omega
          · have := hnm.1 hp; simp at this; omega
        have hlt : s.p ≠ 0 → s.rb + (s.p + (if (chr == cCR) = true then 2 else 1)) < s.buf.size := by
          intro hp; rw [if_pos hcr]; have := hnm.1 hp; simp at this; omega
        have hi : s.rb + s.p + 1 < s.buf.size := by rw [if_pos hcr] at hle; omega
        rw [get_ext _ _ _ hi]
        cases hn : s.buf[s.rb + s.p + 1]? with
        | none => rw [Array.getElem?_eq_none_iff] at hn; omega
        | some nxt =>
          dsimp only
          by_cases c1 : (nxt == cLF) = true
          · simp only [c1, ↓reduceIte]; exact handleFieldEol_ext F s chr fs e h hle hlt
          · simp only [c1, ↓reduceIte, Bool.false_eq_true]
            by_cases c2 : F.bareCrAsSp = true
            · simp only [c2, ↓reduceIte]
              rw [wr_in hb, wr_ext hb]
              exact onFieldWsp_ext F { s with buf := s.buf.setIfInBounds (s.rb + s.p) cSP, crSp := s.crSp + 1 } e
            · simp only [c2, ↓reduceIte, Bool.false_eq_true]
              by_cases c3 : (!F.bareCrKeep) = true
              · simp only [c3, ↓reduceIte]; rfl
              · simp only [c3, ↓reduceIte, Bool.false_eq_true]; exact onFieldChar_ext F s chr e h hb
    · simp only [hcr, ↓reduceIte, Bool.false_eq_true] at hnmore ⊢
      by_cases hlf : (chr == cLF) = true
      · simp only [hlf, ↓reduceIte] at hnmore ⊢
        by_cases c1 : F.bareLfAsCrlf = true
        · simp only [c1, ↓reduceIte] at hnmore ⊢
          by_cases hnm : (s.p != 0 && decide (s.p + 1 ≥ s.fill)) = true
          · simp only [hnm, ↓reduceIte] at hnmore; exact absurd rfl hnmore
          · simp only [hnm, ↓reduceIte, Bool.false_eq_true] at hnmore ⊢
            have hnm2 : ¬ (s.p != 0 && decide (s.p + 1 ≥ (hsExtend s e).fill)) = true := by
              simp only [HS.fill, e5, e6, Array.size_append, Bool.and_eq_true, bne_iff_ne, ne_eq, decide_eq_true_eq,
                not_and] at hnm ⊢
              intro hp; have := hnm hp; simp at this; omega
            simp only [hnm2, ↓reduceIte, Bool.false_eq_true]
            simp only [HS.fill, Bool.and_eq_true, bne_iff_ne, ne_eq, decide_eq_true_eq, not_and] at hnm
            exact handleFieldEol_ext F s chr fs e h (by rw [if_neg hcr]; omega)
              (by intro hp; rw [if_neg hcr]; have := hnm hp; simp at this; omega)
        · simp only [c1, ↓reduceIte, Bool.false_eq_true]; rfl
      · simp only [hlf, ↓reduceIte, Bool.false_eq_true]
        by_cases c1 : (chr == cSP || chr == cHT) = true
        · simp only [c1, ↓reduceIte]; exact onFieldWsp_ext F s e
        · simp only [c1, ↓reduceIte, Bool.false_eq_true]
          by_cases c2 : (chr == 0) = true
          · simp only [c2, ↓reduceIte]
            by_cases c3 : (!F.nulAsSp) = true
            · simp only [c3, ↓reduceIte]; rfl
            · simp only [c3, ↓reduceIte, Bool.false_eq_true]
              rw [wr_in hb, wr_ext hb]
              exact onFieldWsp_ext F { s with buf := s.buf.setIfInBounds (s.rb + s.p) cSP } e
          · simp only [c2, ↓reduceIte, Bool.false_eq_true]; exact onFieldChar_ext F s chr e h hb

/-- `get_req_headers` satisfies the scanner laws, for every combination of flags -/
theorem hsLaws (F : FLFlags) (fs : Nat) : Scanner.Laws (hsScanner F fs) Inv where
  decr := by
    intro s s' hi hs
    have := (hsStep_ok F fs s hi).adv s' hs
    have h2 := this.1.hp
    show s'.buf.size - (s'.rb + s'.p) < s.buf.size - (s.rb + s.p)
    omega
  inv_step := fun s s' hi hs => ((hsStep_ok F fs s hi).adv s' hs).1
  inv_ext := fun s e hi => hi.ext e
  no_fault := fun s f hi => (hsStep_ok F fs s hi).nofault f
  adv_ext := by
    intro s s' e hi hs
    have := hsStep_ext F fs s e hi (by show hsStep F fs s ≠ _; rw [show hsStep F fs s = _ from hs]; intro h; cases h)
    show hsStep F fs (hsExtend s e) = _
    rw [this, show hsStep F fs s = _ from hs]; rfl
  done_ext := by
    intro s r e hi hs
    have := hsStep_ext F fs s e hi (by show hsStep F fs s ≠ _; rw [show hsStep F fs s = _ from hs]; intro h; cases h)
    show hsStep F fs (hsExtend s e) = _
    rw [this, show hsStep F fs s = _ from hs]; rfl
  ext_nil := by intro s; show { s with buf := s.buf ++ #[] } = s; simp
  ext_ext := by intro s a b; show ({ s with buf := s.buf ++ a ++ b } : HS) = { s with buf := s.buf ++ (a ++ b) }; rw [Array.append_assoc]
  extR_extR := by
    intro r a b
    cases r with
    | err x => rfl
    | ok l => show HDone.ok { l with buf := l.buf ++ a ++ b } = HDone.ok { l with buf := l.buf ++ (a ++ b) }; rw [Array.append_assoc]

end HSP
end Mhd.Req
