/-
  C14 helper lemmas, part 1: caseless comparison, recognition of the parameter
  names independently of letter case (uses the regenerated table `paramNames`).
-/
import Mhd.Model.AuthGrammar
namespace Mhd.Auth

theorem u8_eq_iff (a b : UInt8) : a = b ↔ a.toNat = b.toNat :=
  ⟨fun h => by rw [h], fun h => UInt8.toNat_inj.mp h⟩

theorem toLowerB_toNat (c : UInt8) :
    (toLowerB c).toNat = if 65 ≤ c.toNat ∧ c.toNat ≤ 90 then c.toNat + 32 else c.toNat := by
  unfold toLowerB
  split
  · rename_i h
    have : c.toNat + 32 < 256 := by omega
    simp [Nat.mod_eq_of_lt this]
  · rfl

theorem toUpperB_toNat (c : UInt8) :
    (toUpperB c).toNat = if 97 ≤ c.toNat ∧ c.toNat ≤ 122 then c.toNat - 32 else c.toNat := by
  unfold toUpperB
  split
  · rename_i h
    have : c.toNat - 32 < 256 := by omega
    simp [Nat.mod_eq_of_lt this]
  · rfl

theorem eqCl_iff (a b : UInt8) : eqCl a b = true ↔ toLowerB a = toLowerB b := by
  have ha := UInt8.toNat_lt a
  have hb := UInt8.toNat_lt b
  rw [u8_eq_iff, toLowerB_toNat, toLowerB_toNat]
  unfold eqCl isUpper
  simp only [Bool.or_eq_true, beq_iff_eq, u8_eq_iff a b]
  by_cases h1 : 65 ≤ a.toNat ∧ a.toNat ≤ 90 <;> by_cases h2 : 65 ≤ b.toNat ∧ b.toNat ≤ 90 <;>
    simp [h1, h2] <;> omega

theorem eqCl_eq (a b : UInt8) : eqCl a b = decide (toLowerB a = toLowerB b) := by
  rw [Bool.eq_iff_iff]; simp [eqCl_iff]

theorem toLowerB_toUpperB (c : UInt8) : toLowerB (toUpperB c) = toLowerB c := by
  have hc := UInt8.toNat_lt c
  rw [u8_eq_iff, toLowerB_toNat, toLowerB_toNat, toUpperB_toNat]
  repeat' split
  all_goals omega

theorem eqCl_comm (a b : UInt8) : eqCl a b = eqCl b a := by
  rw [eqCl_eq, eqCl_eq]; exact decide_eq_decide.mpr eq_comm

theorem eqCl_refl (a : UInt8) : eqCl a a = true := by rw [eqCl_eq]; simp

/-- caseless prefix test only sees the lower-cased input -/
theorem prefixCl_lower (inp nm : Bytes) : prefixCl (inp.map toLowerB) nm = prefixCl inp nm := by
  induction nm generalizing inp with
  | nil => cases inp <;> simp [prefixCl]
  | cons b bs ih =>
    cases inp with
    | nil => simp [prefixCl]
    | cons a as =>
      simp only [List.map_cons, prefixCl, ih]
      congr 1
      rw [eqCl_eq, eqCl_eq]
      have : toLowerB (toLowerB a) = toLowerB a := by
        have ha := UInt8.toNat_lt a
        rw [u8_eq_iff, toLowerB_toNat, toLowerB_toNat]
        by_cases h : 65 ≤ a.toNat ∧ a.toNat ≤ 90 <;> simp [h] <;> omega
      rw [this]

theorem caseRender_length (m : List Bool) (nm : Bytes) : (caseRender m nm).length = nm.length := by
  induction nm generalizing m with
  | nil => cases m <;> simp [caseRender]
  | cons c r ih => cases m <;> simp [caseRender, ih]

theorem caseRender_lower (m : List Bool) (nm : Bytes) : (caseRender m nm).map toLowerB = nm.map toLowerB := by
  induction nm generalizing m with
  | nil => cases m <;> simp [caseRender]
  | cons c r ih =>
    cases m with
    | nil => simp [caseRender, ih]
    | cons b bs =>
      simp only [caseRender, List.map_cons, ih]
      cases b <;> simp [toLowerB_toUpperB]


theorem isDelim_lower (c : UInt8) : isDelim (toLowerB c) = isDelim c := by
  have hc := UInt8.toNat_lt c
  unfold isDelim
  have h : ∀ k : Nat, k < 65 → (toLowerB c = UInt8.ofNat k ↔ c = UInt8.ofNat k) := by
    intro k hk
    rw [u8_eq_iff, u8_eq_iff, toLowerB_toNat]
    have : (UInt8.ofNat k).toNat = k := by simp; omega
    rw [this]
    split <;> omega
  have h61 := h 61 (by omega); have h32 := h 32 (by omega); have h9 := h 9 (by omega)
  have h44 := h 44 (by omega); have h59 := h 59 (by omega)
  simp only [show (UInt8.ofNat 61) = (61 : UInt8) from rfl, show (UInt8.ofNat 32) = (32 : UInt8) from rfl,
    show (UInt8.ofNat 9) = (9 : UInt8) from rfl, show (UInt8.ofNat 44) = (44 : UInt8) from rfl,
    show (UInt8.ofNat 59) = (59 : UInt8) from rfl] at h61 h32 h9 h44 h59
  simp only [h61, h32, h9, h44, h59]

theorem nameMatches_lower (nm inp : Bytes) : nameMatches nm (inp.map toLowerB) = nameMatches nm inp := by
  unfold nameMatches
  rw [prefixCl_lower, ← List.map_drop]
  cases inp.drop nm.length with
  | nil => rfl
  | cons c r => simp [isDelim_lower]

theorem findName_lower (names : List Bytes) (k : Nat) (inp : Bytes) :
    findName names k (inp.map toLowerB) = findName names k inp := by
  induction names generalizing k with
  | nil => rfl
  | cons nm t ih => simp only [findName, nameMatches_lower, ih]

theorem findName_concrete (q : Nat) (hq : q < 12) (d : UInt8) (hd : d = 32 ∨ d = 9 ∨ d = 61) (rest : Bytes) :
    findName Mhd.Gen.Auth.paramNames 0 (nameOf q ++ d :: rest) = some (q, (nameOf q).length) := by
  have hcases : q = 0 ∨ q = 1 ∨ q = 2 ∨ q = 3 ∨ q = 4 ∨ q = 5 ∨ q = 6 ∨ q = 7 ∨ q = 8 ∨ q = 9 ∨ q = 10 ∨ q = 11 := by omega
  rcases hcases with h | h | h | h | h | h | h | h | h | h | h | h <;> subst h <;>
    rcases hd with h | h | h <;> subst h <;>
    simp [findName, nameMatches, prefixCl, nameOf, Mhd.Gen.Auth.paramNames, isDelim, eqCl, isUpper]

/-- the parameter names are written in lower case in the table -/
theorem names_lower (q : Nat) : (nameOf q).map toLowerB = nameOf q := by
  by_cases hq : q < 12
  · have hcases : q = 0 ∨ q = 1 ∨ q = 2 ∨ q = 3 ∨ q = 4 ∨ q = 5 ∨ q = 6 ∨ q = 7 ∨ q = 8 ∨ q = 9 ∨ q = 10 ∨ q = 11 := by omega
    rcases hcases with h | h | h | h | h | h | h | h | h | h | h | h <;> subst h <;> decide
  · have : nameOf q = [] := by
      unfold nameOf
      have : Mhd.Gen.Auth.paramNames.length = 12 := by decide
      simp [List.getD, List.getElem?_eq_none (by omega : Mhd.Gen.Auth.paramNames.length ≤ q)]
    rw [this]; rfl

theorem paramNames_length : Mhd.Gen.Auth.paramNames.length = 12 := by decide

theorem toLowerB_delim (d : UInt8) (hd : d = 32 ∨ d = 9 ∨ d = 61) : toLowerB d = d := by
  rcases hd with h | h | h <;> subst h <;> decide

/-- name recognition is independent of the letter case chosen by the sender -/
theorem findName_rendered (q : Nat) (hq : q < 12) (m : List Bool) (d : UInt8) (hd : d = 32 ∨ d = 9 ∨ d = 61)
    (rest : Bytes) :
    findName Mhd.Gen.Auth.paramNames 0 (caseRender m (nameOf q) ++ d :: rest) = some (q, (nameOf q).length) := by
  rw [← findName_lower]
  simp only [List.map_append, List.map_cons, caseRender_lower, names_lower, toLowerB_delim d hd]
  exact findName_concrete q hq d hd _

end Mhd.Auth
