/-
  C12 proofs: T3 — the result does not depend on the rendering of the credential
  (composition with C14's parse ∘ render theorem).
-/
import Mhd.Proofs.DauthValid
import Mhd.Proofs.AuthSem
namespace Mhd.Dauth
open Mhd.Auth Mhd.Gen.Auth Mhd.Gen.Dauth

/-- the size limits, for whichever algorithm the credential names -/
def RawOk (call : Call) (c : Cred) (lv : LenView) : Prop := ∀ a, baseAlgo c.algo3 = some a → WithinLimits a call c lv

theorem lv_cases {c : Cred} {lv lv' : LenView} (h : LenSem c lv) (h' : LenSem c lv') (k : Nat) :
    (lv k = none ∧ lv' k = none) ∨ (∃ l l', lv k = some l ∧ lv' k = some l' ∧ (l = 0 ↔ l' = 0)) := by
  cases hv : c.val k with
  | none => exact Or.inl ⟨(h.none_iff k).mpr hv, (h'.none_iff k).mpr hv⟩
  | some v =>
    obtain ⟨l, hl, hz⟩ := lv_of_val h hv
    obtain ⟨l', hl', hz'⟩ := lv_of_val h' hv
    exact Or.inr ⟨l, l', hl, hl', by rw [hz, hz']⟩

theorem presenceV_congr (a : Algo) (call : Call) (c : Cred) (lv lv' : LenView) (h : LenSem c lv) (h' : LenSem c lv')
    (hl : WithinLimits a call c lv) (hl' : WithinLimits a call c lv') :
    presenceV a call lv c.qop c.userhash = presenceV a call lv' c.qop c.userhash := by
  have e1 : presUsername a.size lv c.userhash = presUsername a.size lv' c.userhash := by
    unfold presUsername
    have hext : lv kUsernameExt = lv' kUsernameExt := by rw [h.ext, h'.ext]
    rw [← hext]
    rcases lv_cases h h' kUsername with ⟨e, e'⟩ | ⟨l, l', e, e', _⟩
    · rw [e, e']
    · rw [e, e']
      cases lv kUsernameExt with
      | some _ => rfl
      | none =>
        simp only
        cases huh : c.userhash
        · simp
        · have b := hl.userhash huh l e
          have b' := hl'.userhash huh l' e'
          have n1 : ¬ a.size * 2 > l := by omega
          have n2 : ¬ a.size * 4 < l := by omega
          have n1' : ¬ a.size * 2 > l' := by omega
          have n2' : ¬ a.size * 4 < l' := by omega
          simp [n1, n2, n1', n2']
  have e2 : presRealm call lv c.userhash = presRealm call lv' c.userhash := by
    unfold presRealm
    rcases lv_cases h h' kRealm with ⟨e, e'⟩ | ⟨l, l', e, e', _⟩
    · rw [e, e']
    · rw [e, e']
      simp only
      by_cases hc : isPassword call.secret = true ∨ c.userhash = true
      · have b := hl.realm hc l e
        have b' := hl'.realm hc l' e'
        have n : ¬ maxParam < l := by omega
        have n' : ¬ maxParam < l' := by omega
        simp [n, n']
      · simp [hc]
  have e3 : presNcCnonce lv c.qop = presNcCnonce lv' c.qop := by
    unfold presNcCnonce
    by_cases hq : c.qop ≠ qopNone
    · rw [if_pos hq, if_pos hq]
      rcases lv_cases h h' kNc with ⟨e, e'⟩ | ⟨l, l', e, e', z⟩
      · rw [e, e']
      · rw [e, e']
        simp only
        have b := hl.nc hq l e
        have b' := hl'.nc hq l' e'
        by_cases h0 : l = 0
        · have : l' = 0 := z.mp h0
          simp [h0, this]
        · have h0' : ¬ l' = 0 := fun x => h0 (z.mpr x)
          have n : ¬ ncMaxRaw < l := by omega
          have n' : ¬ ncMaxRaw < l' := by omega
          simp only [h0, h0', n, n', if_false]
          rcases lv_cases h h' kCnonce with ⟨e, e'⟩ | ⟨m, m', e, e', z⟩
          · rw [e, e']
          · rw [e, e']
            simp only
            have b := hl.cnonce hq m e
            have b' := hl'.cnonce hq m' e'
            by_cases m0 : m = 0
            · have : m' = 0 := z.mp m0
              simp [m0, this]
            · have m0' : ¬ m' = 0 := fun x => m0 (z.mpr x)
              have n : ¬ maxParam < m := by omega
              have n' : ¬ maxParam < m' := by omega
              simp [m0, m0', n, n']
    · rw [if_neg hq, if_neg hq]
  have e4 : presUri lv = presUri lv' := by
    unfold presUri
    rcases lv_cases h h' kUri with ⟨e, e'⟩ | ⟨l, l', e, e', z⟩
    · rw [e, e']
    · rw [e, e']
      simp only
      have b := hl.uri l e
      have b' := hl'.uri l' e'
      by_cases h0 : l = 0
      · have : l' = 0 := z.mp h0
        simp [h0, this]
      · have h0' : ¬ l' = 0 := fun x => h0 (z.mpr x)
        have n : ¬ maxParam < l := by omega
        have n' : ¬ maxParam < l' := by omega
        simp [h0, h0', n, n']
  have e5 : presNonce a lv = presNonce a lv' := by
    unfold presNonce
    rcases lv_cases h h' kNonce with ⟨e, e'⟩ | ⟨l, l', e, e', z⟩
    · rw [e, e']
    · rw [e, e']
      simp only
      have b := hl.nonce l e
      have b' := hl'.nonce l' e'
      by_cases h0 : l = 0
      · have : l' = 0 := z.mp h0
        simp [h0, this]
      · have h0' : ¬ l' = 0 := fun x => h0 (z.mpr x)
        have n : ¬ a.stdLen * 2 < l := by omega
        have n' : ¬ a.stdLen * 2 < l' := by omega
        simp [h0, h0', n, n']
  have e6 : presResponse a.size lv = presResponse a.size lv' := by
    unfold presResponse
    rcases lv_cases h h' kResponse with ⟨e, e'⟩ | ⟨l, l', e, e', z⟩
    · rw [e, e']
    · rw [e, e']
      simp only
      have b := hl.response l e
      have b' := hl'.response l' e'
      by_cases h0 : l = 0
      · have : l' = 0 := z.mp h0
        simp [h0, this]
      · have h0' : ¬ l' = 0 := fun x => h0 (z.mpr x)
        have n : ¬ a.size * 4 < l := by omega
        have n' : ¬ a.size * 4 < l' := by omega
        simp [h0, h0', n, n']
  unfold presenceV
  rw [e1, e2, e3, e4, e5, e6]

theorem specUri_congr (cfg : Cfg) (r : Req) (c : Cred) (lv lv' : LenView) (a : Algo) (call : Call)
    (hl : WithinLimits a call c lv) (hl' : WithinLimits a call c lv') (hp : lv kUri ≠ none) (hp' : lv' kUri ≠ none) :
    specUri cfg r c lv = specUri cfg r c lv' := by
  unfold specUri
  cases e : lv kUri with
  | none => exact absurd e hp
  | some l =>
    cases e' : lv' kUri with
    | none => exact absurd e' hp'
    | some l' =>
      simp only [Option.getD_some, (noBuffer_false_iff _).mpr (hl.uri l e), (noBuffer_false_iff _).mpr (hl'.uri l' e')]

/-- T3 at the level of meanings: the lengths as sent do not matter as long as they are within the limits -/
theorem expectedClass_congr (cfg : Cfg) (tbl : Mhd.Nonce.Table) (now : Nat) (r : Req) (call : Call) (timeout maxNc : Nat)
    (c : Cred) (lv lv' : LenView) (h : LenSem c lv) (h' : LenSem c lv') (hl : RawOk call c lv) (hl' : RawOk call c lv') :
    expectedClass cfg tbl now r call timeout maxNc c lv = expectedClass cfg tbl now r call timeout maxNc c lv' := by
  have hpre : specPre now timeout maxNc call c lv = specPre now timeout maxNc call c lv' := by
    unfold specPre
    cases hA : stageAlgoN call c.algo3 with
    | error e => rfl
    | ok a =>
      have hb := ((stageAlgoN_iff _ _ _).mp hA).2.2.2
      simp only [bind, Except.bind, presenceV_congr a call c lv lv' h h' (hl a hb) (hl' a hb)]
  unfold expectedClass
  rw [← hpre]
  cases hS : specPre now timeout maxNc call c lv with
  | error e => rfl
  | ok x =>
    obtain ⟨a, nci, n, t⟩ := x
    have hS' := hS
    rw [specPre_ok_iff] at hS'
    obtain ⟨hA, _, hP, _⟩ := hS'
    have hb := ((stageAlgoN_iff _ _ _).mp hA).2.2.2
    have hP' : presenceV a call lv' c.qop c.userhash = .ok () := by
      rw [← presenceV_congr a call c lv lv' h h' (hl a hb) (hl' a hb)]; exact hP
    have hu : lv kUri ≠ none := by
      rw [presenceV_ok] at hP
      obtain ⟨l, e, _⟩ := (presUri_ok lv).mp hP.2.2.2.1
      rw [e]; simp
    have hu' : lv' kUri ≠ none := by
      rw [presenceV_ok] at hP'
      obtain ⟨l, e, _⟩ := (presUri_ok lv').mp hP'.2.2.2.1
      rw [e]; simp
    have : specPost cfg r call c lv a t = specPost cfg r call c lv' a t := by
      unfold specPost
      rw [specUri_congr cfg r c lv lv' a call (hl a hb) (hl' a hb) hu hu']
    simp only [this]


/-! ### composition with C14 -/

/-- the semantic credential of a parameter list (C14's `view`: last occurrence wins; independent of rendering) -/
def Cred.ofView (v : Nat → Option Bytes) : Cred :=
  { algo3 := algoSem (v kAlgorithm), qop := qopSem (v kQop), userhash := userhashSem (v kUserhash),
    val := v, ext := v kUsernameExt }

/-- `username*` is written as RFC 7616 requires: an ext-value token (or a quoted-string without quoted-pairs) -/
def ExtPlain (es : List Elem) : Prop := ∀ x, rawView es none kUsernameExt = some x → x.2 = false

theorem qopSem_range (v : Option Bytes) :
    qopSem v = qopInvalid ∨ qopSem v = qopNone ∨ qopSem v = qopAuth ∨ qopSem v = qopAuthInt := by
  unfold qopSem
  cases v with
  | none => right; left; rfl
  | some x =>
    simp only
    split
    · right; right; left; rfl
    · split
      · right; right; right; rfl
      · left; rfl

/-- the length of every parameter as sent in the rendering `es` (last occurrence; without the DQUOTEs) -/
def rawLenView (es : List Elem) : LenView := fun k => (rawView es none k).map fun x => x.1.length

/-- what `parse_dauth_params` delivers for a well-formed rendering: parameters that unquote, the qop constant of
    the stored qop parameter, and the meaning `Cred.ofView (view es)` -/
theorem parsed_rendered (lead : Bytes) (es : List Elem) (t : UInt8) (ht : t ≠ 59) (hwf : WF lead es = true)
    (hext : ExtPlain es) :
    ∃ d, parseDigest (render lead es) (some t) = .ok d ∧ WQ d ∧ QopParsed d ∧ QopRange (semOf d) ∧
      semOf d = Cred.ofView (view es) ∧ lenView d = rawLenView es := by
  obtain ⟨d, hp, hraw, ha, hq, hu⟩ := parseDigest_render_raw lead es t ht hwf
  have hag : ∀ k, Agree ((d.slots k).map pr) (view es k) := by
    intro k; rw [hraw k]; exact agree_view es k
  have hsem := fun k => slot_sem _ _ (hag k)
  refine ⟨d, hp, ?_, hq, ?_, ?_, ?_⟩
  · intro k p hk hqd
    have := hag k
    rw [hk] at this
    cases hv : view es k with
    | none => rw [hv] at this; simp [Agree] at this
    | some v =>
      rw [hv] at this
      simp only [Option.map_some, Agree, pr, Denotes, hqd, if_true] at this
      rw [this]; rfl
  · unfold QopRange semOf
    simp only
    rw [hq, (hsem kQop).2.2.1]
    exact qopSem_range _
  · unfold semOf Cred.ofView
    have h1 : d.algo3 = algoSem (view es kAlgorithm) := by rw [ha]; exact (hsem kAlgorithm).2.1
    have h2 : d.qop = qopSem (view es kQop) := by rw [hq]; exact (hsem kQop).2.2.1
    have h3 : d.userhash = userhashSem (view es kUserhash) := by rw [hu]; exact (hsem kUserhash).2.2.2
    have h4 : (fun k => (d.slots k).map paramUnq) = view es := funext fun k => (hsem k).1
    have h5 : (d.slots kUsernameExt).map (fun p => p.raw) = view es kUsernameExt := by
      have hg := hag kUsernameExt
      cases hs : d.slots kUsernameExt with
      | none =>
        rw [hs] at hg
        cases hv : view es kUsernameExt with
        | none => rfl
        | some v => rw [hv] at hg; simp [Agree] at hg
      | some p =>
        rw [hs] at hg
        cases hv : view es kUsernameExt with
        | none => rw [hv] at hg; simp [Agree] at hg
        | some v =>
          rw [hv] at hg
          have hx := hext (p.raw, p.quoted) (by rw [← hraw kUsernameExt, hs]; rfl)
          simp only [Option.map_some, Agree, pr, Denotes] at hg
          simp only at hx
          rw [hx] at hg
          simp at hg
          simp [hg]
    rw [h1, h2, h3, h4, h5]
  · funext k
    simp only [lenView, rawLenView, ← hraw k, Option.map_map]
    rfl

end Mhd.Dauth
