import Mhd.Model.ReqCookie
namespace Mhd.Req

/-- the name test of `MHD_lookup_connection_value_n`: one of the requested kinds, the same
    length, equal ignoring ASCII case -/
def NameMatches (buf : Bytes) (kind : Nat) (key : List UInt8) (e : Elem) : Prop :=
  e.kind &&& kind ≠ 0 ∧ e.key.len = key.length ∧ (sliceBytes buf e.key).map toLowerAscii = key.map toLowerAscii

theorem lookupPred_iff (buf : Bytes) (kind : Nat) (key : List UInt8) (e : Elem) :
    ((e.kind &&& kind != 0) && e.key.len == key.length &&
      ((sliceBytes buf e.key).map toLowerAscii == key.map toLowerAscii)) = true ↔ NameMatches buf kind key e := by
  unfold NameMatches
  simp only [Bool.and_eq_true, bne_iff_ne, ne_eq, beq_iff_eq, and_assoc]

theorem lookupElem_some (buf : Bytes) (elems : List Elem) (kind : Nat) (key : List UInt8) (e : Elem) :
    lookupElem buf elems kind key = some e ↔
      NameMatches buf kind key e ∧ ∃ pre post, elems = pre ++ e :: post ∧ ∀ x ∈ pre, ¬ NameMatches buf kind key x := by
  unfold lookupElem
  rw [List.find?_eq_some_iff_append]
  simp only [lookupPred_iff]
  constructor
  · rintro ⟨h, pre, post, he, hp⟩
    exact ⟨h, pre, post, he, fun x hx hm => by
      have := hp x hx
      rw [Bool.not_eq_true', ← Bool.not_eq_true, lookupPred_iff] at this
      exact this hm⟩
  · rintro ⟨h, pre, post, he, hp⟩
    exact ⟨h, pre, post, he, fun x hx => by
      rw [Bool.not_eq_true', ← Bool.not_eq_true, lookupPred_iff]
      exact hp x hx⟩

theorem lookupElem_none (buf : Bytes) (elems : List Elem) (kind : Nat) (key : List UInt8) :
    lookupElem buf elems kind key = none ↔ ∀ x ∈ elems, ¬ NameMatches buf kind key x := by
  unfold lookupElem
  rw [List.find?_eq_none]
  constructor
  · intro h x hx hm
    exact h x hx ((lookupPred_iff buf kind key x).mpr hm)
  · intro h x hx hp
    exact h x hx ((lookupPred_iff buf kind key x).mp hp)

end Mhd.Req
