/-
  C14 helper lemmas, part 5: which indices parse_dauth_params reads (fault characterisation),
  suffix-length lemmas, sufficiency of the fuel.
-/
import Mhd.Proofs.AuthSem
namespace Mhd.Auth
open Mhd.Gen.Auth

/-! ### no fault with a terminating byte; fault sites without; the byte only matters when it is ';' -/

/-- a fault other than a read of `str[str_len]` in a situation where no byte is there -/
def Res.isFault {α : Type} (term : Option UInt8) : Res α → Bool
  | .fault s => term.isSome || s == .fuel
  | _ => false

@[simp] theorem Res.isFault_ok {α : Type} (tm : Option UInt8) (a : α) : (Res.ok a).isFault tm = false := rfl
@[simp] theorem Res.isFault_reject {α : Type} (tm : Option UInt8) : (Res.reject : Res α).isFault tm = false := rfl
@[simp] theorem Res.isFault_fault {α : Type} (tm : Option UInt8) (s : Site) :
    (Res.fault s : Res α).isFault tm = (tm.isSome || s == .fuel) := rfl
@[simp] theorem Res.isFault_map {α β : Type} (tm : Option UInt8) (f : α → β) (r : Res α) :
    (r.map f).isFault tm = r.isFault tm := by
  cases r <;> rfl
theorem Res.isFault_bind {α β : Type} (tm : Option UInt8) (f : α → Res β) (r : Res α) (h1 : r.isFault tm = false)
    (h2 : ∀ a, r = .ok a → (f a).isFault tm = false) : (r.bind f).isFault tm = false := by
  cases r with
  | ok a => exact h2 a rfl
  | reject => rfl
  | fault s => exact h1

theorem scanQ_some_noFault (t : Option UInt8) (s : Bytes) : (scanQ t s).isFault t = false := by
  fun_induction scanQ t s <;> simp_all

theorem scanTok_some_noFault (t : Option UInt8) (s : Bytes) : (scanTok t s).isFault t = false := by
  fun_induction scanTok t s <;> simp_all

theorem skipU_noFault (tm : Option UInt8) (b : Bool) (s : Bytes) : (skipU b s).isFault tm = false := by
  fun_induction skipU b s <;> simp_all

theorem valueAt_some_noFault (t : Option UInt8) (s : Bytes) : (valueAt t s).isFault t = false := by
  unfold valueAt
  cases s with
  | nil => simp [scanTok_some_noFault]
  | cons c r => simp only; split <;> simp [scanTok_some_noFault, scanQ_some_noFault]

theorem knownValue_some_noFault (t : Option UInt8) (s : Bytes) : (knownValue t s).isFault t = false := by
  unfold knownValue
  split
  · rfl
  · split
    · rfl
    · apply Res.isFault_bind _ _ _ (valueAt_some_noFault _ _)
      intro a _
      split <;> rfl

/-! suffix lengths: every sub-scanner returns a rest that is not longer than its input -/

theorem skipWs_length (s : Bytes) : (skipWs s).length ≤ s.length := by
  induction s with
  | nil => simp [skipWs_nil]
  | cons c r ih => rw [skipWs_cons]; split <;> simp <;> omega

theorem Res.map_eq_ok {α β : Type} (f : α → β) (r : Res α) (b : β) :
    r.map f = .ok b ↔ ∃ a, r = .ok a ∧ f a = b := by
  cases r <;> simp [Res.map]

theorem Res.bind_eq_ok {α β : Type} (f : α → Res β) (r : Res α) (b : β) :
    r.bind f = .ok b ↔ ∃ a, r = .ok a ∧ f a = .ok b := by
  cases r <;> simp [Res.bind]

theorem scanQ_length (t : Option UInt8) (s : Bytes) (x : Bytes × Bool × Bytes) (h : scanQ t s = .ok x) :
    x.2.2.length < s.length := by
  fun_induction scanQ t s generalizing x
  all_goals first
    | (simp at h; done)
    | (rw [Res.map_eq_ok] at h; obtain ⟨a, ha, rfl⟩ := h; rename_i ih; have := ih a ha; simp; omega)
    | (simp at h; subst h; simp)

theorem scanTok_length (t : Option UInt8) (s : Bytes) (x : Bytes × Bytes) (h : scanTok t s = .ok x) :
    x.2.length ≤ s.length := by
  fun_induction scanTok t s generalizing x
  all_goals first
    | (simp at h; done)
    | (rw [Res.map_eq_ok] at h; obtain ⟨a, ha, rfl⟩ := h; rename_i ih; have := ih a ha; simp; omega)
    | (simp at h; subst h; simp)
    | (split at h <;> simp at h; subst h; simp)

theorem skipU_length (b : Bool) (s r : Bytes) (h : skipU b s = .ok r) : r.length ≤ s.length := by
  fun_induction skipU b s generalizing r
  all_goals first
    | (simp at h; done)
    | (rename_i ih; have := ih r h; simp; omega)
    | (simp at h; subst h; simp)

theorem valueAt_length (t : Option UInt8) (s : Bytes) (x : Nat × Bytes × Bool × Bytes) (h : valueAt t s = .ok x) :
    x.2.2.2.length ≤ s.length := by
  unfold valueAt at h
  have htok : ∀ y, (scanTok t s).map (fun x => (s.length, x.1, false, x.2)) = .ok y → y.2.2.2.length ≤ s.length := by
    intro y hy
    rw [Res.map_eq_ok] at hy
    obtain ⟨a, ha, rfl⟩ := hy
    exact scanTok_length t s a ha
  cases s with
  | nil => exact htok x h
  | cons c r =>
    simp only at h
    split at h
    · rw [Res.map_eq_ok] at h
      obtain ⟨a, ha, rfl⟩ := h
      have := scanQ_length t r a ha
      simp; omega
    · exact htok x h

theorem afterValue_length (r5 r6 : Bytes) (h : afterValue r5 = some r6) : r6.length ≤ r5.length := by
  unfold afterValue at h
  have := skipWs_length r5
  split at h
  · simp at h; subst h; simp
  · rename_i c r heq
    split at h
    · simp at h
    · simp at h; subst h; rw [heq] at this; exact this

theorem knownValue_length (t : Option UInt8) (s : Bytes) (x : Nat × Bytes × Bool × Bytes) (h : knownValue t s = .ok x) :
    x.2.2.2.length ≤ s.length := by
  unfold knownValue at h
  have hs := skipWs_length s
  split at h
  · simp at h
  · rename_i c r2 heq
    split at h
    · simp at h
    · rw [Res.bind_eq_ok] at h
      obtain ⟨a, ha, hb⟩ := h
      have h1 := valueAt_length t _ a ha
      have h2 := skipWs_length r2
      split at hb
      · rename_i r6 h6
        simp at hb; subst hb
        have h3 := afterValue_length _ _ h6
        rw [heq] at hs
        simp at hs ⊢; omega
      · simp at hb

theorem nextParam_length (r : Bytes) : (nextParam r).length ≤ r.length - 1 := by
  cases r with
  | nil => simp [nextParam]
  | cons c r => simp only [nextParam]; have := skipWs_length r; simp; omega

theorem prefixCl_length (inp nm : Bytes) (h : prefixCl inp nm = true) : nm.length ≤ inp.length := by
  induction nm generalizing inp with
  | nil => simp
  | cons b bs ih =>
    cases inp with
    | nil => simp [prefixCl] at h
    | cons a as => simp only [prefixCl, Bool.and_eq_true] at h; have := ih as h.2; simp; omega

theorem findName_length (names : List Bytes) (k : Nat) (inp : Bytes) (p nmLen : Nat)
    (hne : ∀ nm ∈ names, nm ≠ []) (h : findName names k inp = some (p, nmLen)) : 0 < nmLen ∧ nmLen ≤ inp.length := by
  induction names generalizing k with
  | nil => simp [findName] at h
  | cons nm t ih =>
    simp only [findName] at h
    split at h
    · rename_i hm
      simp at h
      obtain ⟨_, rfl⟩ := h
      simp only [nameMatches, Bool.and_eq_true] at hm
      have h1 := prefixCl_length _ _ hm.1
      have h2 : nm ≠ [] := hne nm (by simp)
      exact ⟨List.length_pos_iff.mpr h2, h1⟩
    · exact ih (k + 1) (fun nm hnm => hne nm (by simp [hnm])) h

theorem paramNames_nonempty : ∀ nm ∈ paramNames, nm ≠ [] := by decide

/-- with a byte behind the string the main loop never faults: the two `str[str_len]` reads find
    that byte, and the fuel `str_len + 1` always suffices -/
theorem paramLoop_some_noFault (t : Option UInt8) (n fuel : Nat) :
    ∀ (st : Slots) (inp : Bytes), inp.length < fuel → (paramLoop t n fuel st inp).isFault t = false := by
  induction fuel with
  | zero => intro st inp h; omega
  | succ f ih =>
    intro st inp h
    cases inp with
    | nil => simp [paramLoop.eq_2]
    | cons c r =>
      rw [paramLoop.eq_3]
      split
      · rfl
      · split
        · rename_i p nmLen hfind
          obtain ⟨hpos, hle⟩ := findName_length _ _ _ _ _ paramNames_nonempty hfind
          apply Res.isFault_bind _ _ _ (knownValue_some_noFault _ _)
          intro a ha
          apply ih
          have h1 := knownValue_length _ _ a ha
          have h2 := nextParam_length a.2.2.2
          simp only [List.length_drop, List.length_cons] at h1 h hle
          omega
        · apply Res.isFault_bind _ _ _ (skipU_noFault _ _ _)
          intro r6 hr6
          apply ih
          have h1 := skipU_length _ _ _ hr6
          have h2 := nextParam_length r6
          simp only [List.length_cons] at h1 h
          omega

theorem parseDigest_isFault (s : Bytes) (t : Option UInt8) : (parseDigest s t).isFault t = false := by
  unfold parseDigest
  rw [Res.isFault_map]
  apply paramLoop_some_noFault
  have := skipWs_length s
  omega

/-- with any byte stored behind the string, `parse_dauth_params` stays inside `str[0 .. str_len]` -/
theorem parseDigest_some_noFault (s : Bytes) (t : UInt8) (e : Site) : parseDigest s (some t) ≠ .fault e := by
  intro h
  have := parseDigest_isFault s (some t)
  rw [h] at this
  simp at this

/-- without such a byte the only possible faults are the two reads of `str[str_len]` -/
theorem parseDigest_none_sites (s : Bytes) (e : Site) (h : parseDigest s none = .fault e) :
    e = .quotedBackslashEnd ∨ e = .tokenEnd := by
  have := parseDigest_isFault s none
  rw [h] at this
  cases e <;> simp at this ⊢

end Mhd.Auth
