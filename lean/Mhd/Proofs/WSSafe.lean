/-
  C19 helper lemmas, part 4: no fault / invariant / progress for one loop trip, the loop,
  one decode call and the application's receive loop (theorem (iv) of C19).
-/
import Mhd.Proofs.WSPayload
namespace Mhd.WS

theorem iter_ok {ws : WS} (h : Inv ws) (hv : ws.validity ≠ 0) (rest : List UInt8) (hn : 1 ≤ rest.length) :
    R.OK ws rest.length (iter false ws rest) := by
  unfold iter
  match rest, hn with
  | b :: r, hn =>
    simp only []
    have hst : ws.step = 0 ∨ ws.step = 1 ∨ ws.step = 2 ∨ ws.step = 3 ∨ ws.step = 4 ∨ ws.step = 5 ∨ ws.step = 6 ∨
        ws.step = 7 ∨ ws.step = 8 ∨ ws.step = 9 ∨ ws.step = 10 ∨ ws.step = 11 ∨ ws.step = 12 ∨ ws.step = 13 ∨
        ws.step = 14 ∨ ws.step = 15 ∨ ws.step = 16 ∨ ws.step = 17 ∨ ws.step = 18 ∨ ws.step = 99 := by
      have := h.stepOk; omega
    rcases hst with hs | hs | hs | hs | hs | hs | hs | hs | hs | hs | hs | hs | hs | hs | hs | hs | hs | hs | hs | hs
    all_goals simp only [hs]
    · exact stepStart_ok h hv hs b hn
    · exact stepLen1_ok h hv hs b hn
    · exact stepStore_ok h hv (by omega) b hn
    · exact stepLen2of2_ok h hv hs b hn
    · exact stepStore_ok h hv (by omega) b hn
    · exact stepStore_ok h hv (by omega) b hn
    · exact stepStore_ok h hv (by omega) b hn
    · exact stepStore_ok h hv (by omega) b hn
    · exact stepStore_ok h hv (by omega) b hn
    · exact stepStore_ok h hv (by omega) b hn
    · exact stepStore_ok h hv (by omega) b hn
    · exact stepLen8of8_ok h hv hs b hn
    · exact stepStore_ok h hv (by omega) b hn
    · exact stepStore_ok h hv (by omega) b hn
    · exact stepStore_ok h hv (by omega) b hn
    · exact stepMask4_ok h hv hs b hn
    · have := headerComplete_ok h hv hs
      revert this
      cases headerComplete false ws with
      | cont ws' k =>
        intro hc
        obtain ⟨hi, hv', hst⟩ := hc
        refine ⟨hi, hv', Nat.zero_le _, ?_⟩
        have h1 : sil ws' ≤ 1 := by
          unfold sil
          rcases hst with h | h
          · rw [show ws'.step = 17 from h]; simp; split <;> omega
          · rw [show ws'.step = 18 from h]; simp; split <;> omega
        have h2 : sil ws = 2 := by unfold sil; rw [hs]; simp
        omega
      | ret ws' st k pl plen =>
        intro hc
        refine ⟨hc.1, by have := hc.2.1; omega, hc.2.2.1, fun h0 => ?_⟩
        obtain ⟨hst, hv'⟩ := hc.2.2.2 h0
        refine ⟨?_, hv', fun hq => ?_⟩
        · unfold sil; rw [hst]; simp
        · have h2 : sil ws = 2 := by unfold sil; rw [hs]; simp
          omega
      | fault s => intro hc; exact hc
    · exact stepPayload_ok h hv (Or.inl hs) (b :: r) hn
    · exact stepPayload_ok h hv (Or.inr hs) (b :: r) hn
    · exact ⟨fun _ => h, Nat.zero_le _, rfl, fun h0 => by omega⟩

end Mhd.WS
namespace Mhd.WS

/-- what one decode call promises to its caller -/
structure CallOK (n : Nat) (ws' : WS) (st : Int) (rd : Nat) (pl : Option (List UInt8)) (plen : Nat) : Prop where
  inv : ws'.validity ≠ 0 → Inv ws'
  rd : rd ≤ n
  pl : PlOK pl plen
  quiet : 0 ≤ st → sil ws' = 0 ∧ ws'.validity ≠ 0

theorem tailAfter_ok {ws : WS} (h : Inv ws) (hv : ws.validity ≠ 0) (h16 : ws.step ≠ 16) (cur : Nat) :
    ∃ ws' st pl plen, tailAfter false ws cur = .ret ws' st cur pl plen ∧ CallOK cur ws' st cur pl plen := by
  unfold tailAfter
  split
  · rename_i hc
    have := payloadComplete_ok h hv hc.1 hc.2
    revert this
    cases payloadComplete false ws with
    | cont ws' k =>
      intro hc
      obtain ⟨hi, hv', hst⟩ := hc
      exact ⟨ws', 0, none, 0, rfl, fun _ => hi, Nat.le_refl _, rfl,
        fun _ => ⟨by unfold sil; rw [show ws'.step = 0 from hst]; simp, hv'⟩⟩
    | ret ws' st k pl plen =>
      intro hc
      refine ⟨ws', st, pl, plen, rfl, hc.1, Nat.le_refl _, hc.2.2.1, fun h0 => ?_⟩
      obtain ⟨hst, hv'⟩ := hc.2.2.2 h0
      exact ⟨by unfold sil; rw [hst]; simp, hv'⟩
    | fault s => intro hc; exact absurd hc id
  · rename_i hc
    refine ⟨ws, 0, none, 0, rfl, fun _ => h, Nat.le_refl _, rfl, fun _ => ⟨?_, hv⟩⟩
    unfold sil; rw [if_neg h16, if_neg hc]

theorem tail_ok {ws : WS} (h : Inv ws) (hv : ws.validity ≠ 0) (cur : Nat) :
    ∃ ws' st pl plen, tail false ws cur = .ret ws' st cur pl plen ∧ CallOK cur ws' st cur pl plen := by
  unfold tail
  split
  · rename_i h16
    have := headerComplete_ok h hv h16
    revert this
    cases headerComplete false ws with
    | cont ws' k =>
      intro hc
      obtain ⟨hi, hv', hst⟩ := hc
      exact tailAfter_ok hi hv' (by have : ws'.step = 17 ∨ ws'.step = 18 := hst; omega) cur
    | ret ws' st k pl plen =>
      intro hc
      refine ⟨ws', st, pl, plen, rfl, hc.1, Nat.le_refl _, hc.2.2.1, fun h0 => ?_⟩
      obtain ⟨hst, hv'⟩ := hc.2.2.2 h0
      exact ⟨by unfold sil; rw [hst]; simp, hv'⟩
    | fault s => intro hc; exact absurd hc id
  · rename_i h16
    exact tailAfter_ok h hv h16 cur

theorem loop_ok (fuel : Nat) {ws : WS} (h : Inv ws) (hv : ws.validity ≠ 0) (rest : List UInt8) (cur : Nat)
    (hf : 3 * rest.length + sil ws < fuel) :
    ∃ ws' st rd pl plen, loop false fuel ws rest cur = .ret ws' st rd pl plen ∧
      CallOK (cur + rest.length) ws' st rd pl plen ∧ cur ≤ rd ∧
      (0 ≤ st → sil ws = 0 → rest ≠ [] → cur + 1 ≤ rd) := by
  induction fuel generalizing ws rest cur with
  | zero => omega
  | succ f ih =>
    unfold loop
    split
    · rename_i hnil
      subst hnil
      obtain ⟨ws', st, pl, plen, he, hc⟩ := tail_ok h hv cur
      exact ⟨ws', st, cur, pl, plen, he, ⟨hc.inv, by simp, hc.pl, hc.quiet⟩, Nat.le_refl _, fun _ _ hne => absurd rfl hne⟩
    · rename_i hne
      have hn : 1 ≤ rest.length := by
        cases rest with
        | nil => exact absurd rfl hne
        | cons _ _ => simp
      have := iter_ok h hv rest hn
      revert this
      cases iter false ws rest with
      | cont ws' k =>
        intro hc
        obtain ⟨hi, hv', hk, hm⟩ := hc
        obtain ⟨ws2, st, rd, pl, plen, he, hc2, hmono, _⟩ := ih hi hv' (rest.drop k) (cur + k)
          (by simp only [List.length_drop]; omega)
        refine ⟨ws2, st, rd, pl, plen, he, ⟨hc2.inv, ?_, hc2.pl, hc2.quiet⟩, by omega, fun _ hq _ => by omega⟩
        have := hc2.rd
        simp only [List.length_drop] at this
        omega
      | ret ws' st k pl plen =>
        intro hc
        refine ⟨ws', st, cur + k, pl, plen, rfl, ⟨hc.1, by have := hc.2.1; omega, hc.2.2.1, ?_⟩, by omega, ?_⟩
        · intro h0; exact ⟨(hc.2.2.2 h0).1, (hc.2.2.2 h0).2.1⟩
        · intro h0 hq _; have := (hc.2.2.2 h0).2.2 hq; omega
      | fault s => intro hc; exact absurd hc id

/-- (iv) at the level of one call: for every state satisfying the invariant and every input
    buffer, `MHD_websocket_decode` returns (no fault: every access was inside its buffer), the
    invariant holds afterwards, no more is reported consumed than was offered, the returned
    payload is `NULL`/0 or an allocation containing payload and terminator; a successful
    call on a non-empty buffer from a state between calls consumes at least one byte -/
theorem decode_ok {ws : WS} (h : ws.validity ≠ 0 → Inv ws) (buf : List UInt8) :
    ∃ ws' st rd pl plen, decode false ws buf = .ret ws' st rd pl plen ∧ CallOK buf.length ws' st rd pl plen ∧
      (0 ≤ st → sil ws = 0 → buf ≠ [] → 1 ≤ rd) := by
  unfold decode
  split
  · rename_i hv0
    exact ⟨ws, -2, 0, none, 0, rfl, ⟨h, Nat.zero_le _, rfl, fun h0 => by omega⟩, fun h0 => by omega⟩
  · rename_i hv
    obtain ⟨ws', st, rd, pl, plen, he, hc, _, hp⟩ := loop_ok (3 * buf.length + 4) (h hv) hv buf 0
      (by have := sil_le ws; omega)
    exact ⟨ws', st, rd, pl, plen, he, ⟨hc.inv, by have := hc.rd; omega, hc.pl, hc.quiet⟩,
      fun h0 hq hne => by have := hp h0 hq hne; omega⟩

end Mhd.WS
namespace Mhd.WS

/-- a state between two decode calls of a live session: invariant + nothing pending that
    does not need input -/
def Ready (ws : WS) : Prop := ws.validity ≠ 0 → (Inv ws ∧ sil ws = 0)

/-- (iv) for the application's receive loop: it never faults, never gets stuck, ends with
    everything consumed or with an error status, and leaves a state that is `Ready` again -/
theorem feedLoop_ok (budget : Nat) {ws : WS} (h : Ready ws) (rest : List UInt8) (acc : List Call)
    (hb : rest.length < budget) :
    ∃ ws' calls e, feedLoop false budget ws rest acc = (ws', calls, e) ∧ (e = .consumed ∨ e = .error) ∧
      (ws'.validity ≠ 0 → Inv ws') ∧ (e = .consumed → Ready ws') := by
  induction budget generalizing ws rest acc with
  | zero => omega
  | succ b ih =>
    unfold feedLoop
    split
    · exact ⟨ws, acc.reverse, .consumed, rfl, Or.inl rfl, fun hv => (h hv).1, fun _ => h⟩
    · rename_i hne
      obtain ⟨ws', st, rd, pl, plen, he, hc, hp⟩ := decode_ok (fun hv => (h hv).1) rest
      simp only [he]
      split
      · rename_i hneg
        exact ⟨ws', _, .error, rfl, Or.inr rfl, hc.inv, fun he => by cases he⟩
      · rename_i hpos
        have h0 : 0 ≤ st := by omega
        obtain ⟨hq', hv'⟩ := hc.quiet h0
        have hv : ws.validity ≠ 0 := by
          intro hv0
          unfold decode at he
          rw [if_pos hv0] at he
          injection he with _ hst
          omega
        have hrd := hp h0 (h hv).2 hne
        have hlen : 1 ≤ rest.length := by
          cases rest with
          | nil => exact absurd rfl hne
          | cons _ _ => simp
        exact ih (fun _ => ⟨hc.inv hv', hq'⟩) (rest.drop rd) _ (by simp only [List.length_drop]; omega)

end Mhd.WS
namespace Mhd.WS

theorem init_inv (flags maxPayload allocLimit : Nat) (ws : WS) (ha : allocLimit < 2 ^ 63)
    (h : WS.init flags maxPayload allocLimit = some ws) : Inv ws ∧ sil ws = 0 ∧ ws.validity = 1 := by
  unfold WS.init at h
  split at h
  · exact absurd h (by simp)
  · injection h with h
    subst h
    refine ⟨?_, rfl, rfl⟩
    exact {
      allocLt := ha
      hdrLen := by simp
      stepOk := by simp
      hsU := by simp
      hsS := by simp
      hsL := by intro h1; simp only [] at h1; omega
      hs1 := by intro h1; simp only [] at h1; omega
      h0 := by intro h1; simp only [] at h1; omega
      h0c := by intro h1; simp only [] at h1; omega
      h0n := by intro h1; simp only [] at h1; omega
      psz := by simp
      idx := by simp
      idx0 := fun _ => rfl
      dsz := by simp
      dbuf := rfl
      dst := by intro h1; simp only [] at h1; omega
      cbuf := by intro h1; simp only [] at h1; omega
      u8a := fun _ => rfl
      u8b := by simp
      carry := by intro h1; simp only [] at h1; omega }

end Mhd.WS
