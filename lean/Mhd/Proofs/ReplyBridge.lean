import Mhd.Proofs.ReplyParse
import Mhd.Proofs.ReplyStr
import Mhd.Proofs.RespInv
set_option linter.unusedSimpArgs false
set_option linter.unusedVariables false
namespace Mhd.Bridge
open Mhd.ReplyStr
open Mhd.Http (lower ciEq)

theorem lower_toNat (b : UInt8) : (lower b).toNat = if 65 ≤ b.toNat ∧ b.toNat ≤ 90 then b.toNat + 32 else b.toNat := by
  unfold lower
  by_cases h : 65 ≤ b.toNat ∧ b.toNat ≤ 90
  · simp only [h.1, h.2, decide_true, Bool.and_self, if_true, and_self]
    rw [UInt8.toNat_add]
    have : (32 : UInt8).toNat = 32 := rfl
    rw [this]; omega
  · have : (decide (65 ≤ b.toNat) && decide (b.toNat ≤ 90)) = false := by
      simp; omega
    simp only [this, Bool.false_eq_true, if_false, h]

theorem charsEq_iff (c1 c2 : UInt8) : charsEqCaseless c1 c2 = true ↔ lower c1 = lower c2 := by
  rw [← UInt8.toNat_inj, lower_toNat, lower_toNat]
  unfold charsEqCaseless isUpper
  have e : (c1 == c2) = true ↔ c1.toNat = c2.toNat := by
    rw [beq_iff_eq, ← UInt8.toNat_inj]
  have h1 := c1.toNat_lt
  have h2 := c2.toNat_lt
  constructor
  · intro h
    simp only [Bool.or_eq_true, e] at h
    rcases h with h | h
    · rw [h]
    · split at h
      · rename_i hu
        simp at hu h
        split <;> split <;> omega
      · rename_i hu
        simp at hu h
        split <;> split <;> omega
  · intro h
    simp only [Bool.or_eq_true, e]
    by_cases heq : c1.toNat = c2.toNat
    · left; exact heq
    · right
      split
      · rename_i hu
        simp at hu ⊢
        split at h <;> split at h <;> omega
      · rename_i hu
        simp at hu ⊢
        split at h <;> split at h <;> omega

theorem strEq_iff : ∀ (a b : Bytes), strEqCaseless a b = true ↔ a.map lower = b.map lower
  | [], b => by cases b <;> simp [strEqCaseless]
  | _ :: _, [] => by simp [strEqCaseless]
  | c1 :: r1, c2 :: r2 => by
    simp only [strEqCaseless, List.map_cons, List.cons.injEq]
    by_cases hc : charsEqCaseless c1 c2 = true
    · simp only [hc, if_true, (charsEq_iff c1 c2).1 hc, true_and]
      exact strEq_iff r1 r2
    · have : ¬ lower c1 = lower c2 := fun h => hc ((charsEq_iff c1 c2).2 h)
      simp [hc, this]

/-- the model's name test agrees with the specification's case-insensitive comparison -/
theorem nameIs_iff (n key lit : Bytes) (hk : key.map lower = lit) : Mhd.Resp.nameIs n key = ciEq n lit := by
  unfold Mhd.Resp.nameIs eqCaselessBin ciEq
  rw [← hk]
  by_cases h : strEqCaseless n key = true
  · have := (strEq_iff n key).1 h
    simp [h, this, strEqCaseless_length n key h]
  · have h' : strEqCaseless n key = false := by simpa using h
    have : ¬ n.map lower = key.map lower := fun hh => h ((strEq_iff n key).2 hh)
    simp [h', this]
end Mhd.Bridge
