/-
  C06 — proofs, part 2: one call of call_handlers at daemon level, and the
  connection traversals of the three loops in closed form (`TravSpec`).
-/
import Mhd.Proofs.LoopCH
namespace Mhd.Loop
open Mhd.Gen.Loop
variable {W : Type}

/-! ### epoll bits are untouched when the daemon does not use epoll -/
structure SameEp (a b : Conn W) : Prop where
  inEready : a.inEready = b.inEready
  inEpollSet : a.inEpollSet = b.inEpollSet
  epSusp : a.epSusp = b.epSusp

theorem SameEp.refl (a : Conn W) : SameEp a a := ⟨rfl, rfl, rfl⟩
theorem SameEp.trans {a b c : Conn W} (h1 : SameEp a b) (h2 : SameEp b c) : SameEp a c :=
  ⟨h1.inEready.trans h2.inEready, h1.inEpollSet.trans h2.inEpollSet, h1.epSusp.trans h2.epSusp⟩

theorem doIdle_sameEp (ops : Ops W) (s : CS W) : SameEp (doIdle ops false s).c s.c := by
  unfold doIdle; simp only [Bool.false_and, Bool.false_eq_true, if_false]; exact ⟨rfl, rfl, rfl⟩

theorem chain_sameEp {ops : Ops W} {s0 u : CS W} (h : Chain ops false s0 u) : SameEp u.c s0.c := by
  induction h with
  | refl => exact SameEp.refl _
  | @read f t _ ih => exact (show SameEp (doRead ops f t).c t.c from ⟨rfl, rfl, rfl⟩).trans ih
  | @write t _ ih => exact (show SameEp (doWrite ops t).c t.c from ⟨rfl, rfl, rfl⟩).trans ih
  | @close t _ ih => exact (show SameEp (doClose ops t).c t.c from ⟨rfl, rfl, rfl⟩).trans ih
  | idle _ ih => exact (doIdle_sameEp ops _).trans ih

theorem chLocal_sameEp (ops : Ops W) (c0 : Conn W) (wh0 : Wh) (rr wr fc : Bool) :
    SameEp (chLocal ops false c0 wh0 rr wr fc).c c0 := by
  obtain ⟨⟨u, hu, hc, _, _⟩, _⟩ := chLocal_endsIdle ops false c0 wh0 rr wr fc
  rw [hc]
  exact (doIdle_sameEp ops u).trans (chain_sameEp hu)

/-! ### one visit -/

theorem lookup_active {d : Daemon W} {A B : List (Conn W)} {c : Conn W}
    (hc : d.conns = A ++ c :: B) (hA : c.id ∉ ids A) : d.lookup c.id = some (c, .active) := by
  unfold Daemon.lookup
  rw [hc, findConn_mid hA]

theorem prevOf_active {d : Daemon W} {A B : List (Conn W)} {c : Conn W}
    (hc : d.conns = A ++ c :: B) (hA : c.id ∉ ids A) : d.prevOf c.id = some (tailId A) := by
  unfold Daemon.prevOf
  rw [hc, prevIn_mid hA]

/-- the daemon-level part of call_handlers once the handlers have run -/
def finishCH (d : Daemon W) (c : Conn W) (r : ChRes W) : Daemon W :=
  let d1 := d.place r.c .active r.wh
  let d2 := syncEready d1 c.id c.inEready r.c.inEready
  let d3 := if r.dapCheck && !d2.dap && r.c.loc.eli.hasProcess then { d2 with dap := true } else d2
  { d3 with log := r.evs ++ d3.log }

theorem callHandlers_active (ops : Ops W) {d : Daemon W} {A B : List (Conn W)} {c : Conn W}
    (hc : d.conns = A ++ c :: B) (hA : c.id ∉ ids A) (rr wr fc : Bool) :
    callHandlers ops d c.id rr wr fc = finishCH d c (chLocal ops d.epoll c .active rr wr fc) := by
  unfold callHandlers
  rw [lookup_active hc hA]
  rfl

structure CHFields (d d' : Daemon W) (A B : List (Conn W)) (c : Conn W) (r : ChRes W) : Prop where
  conns : d'.conns = if r.wh = .active then A ++ r.c :: B else A ++ B
  susp : d'.susp = if r.wh = .susp then r.c :: d.susp else d.susp
  cleanup : d'.cleanup = if r.wh = .cleanup then r.c :: d.cleanup else d.cleanup
  newc : d'.newc = d.newc
  resuming : d'.resuming = d.resuming
  haveNew : d'.haveNew = d.haveNew
  shutdown : d'.shutdown = d.shutdown
  epoll : d'.epoll = d.epoll
  allowSuspend : d'.allowSuspend = d.allowSuspend
  fault : d'.fault = d.fault
  dap : d'.dap = (d.dap || (r.dapCheck && r.c.loc.eli.hasProcess))
  log : d'.log = r.evs ++ d.log
  eready : d'.eready = if r.c.inEready && !c.inEready then c.id :: d.eready
                       else if !r.c.inEready && c.inEready then d.eready.erase c.id else d.eready

theorem finishCH_fields {d : Daemon W} {A B : List (Conn W)} {c : Conn W} (r : ChRes W)
    (hc : d.conns = A ++ c :: B) (hA : c.id ∉ ids A) (hid : r.c.id = c.id) :
    CHFields d (finishCH d c r) A B c r := by
  have e1 : eraseConn (A ++ c :: B) r.c.id = A ++ B := by rw [hid]; exact eraseConn_mid hA
  have e2 : setConn (A ++ c :: B) r.c = A ++ r.c :: B := setConn_mid hA hid
  cases hw : r.wh <;> cases hd : d.dap <;> cases hk : r.dapCheck <;> cases hp : r.c.loc.eli.hasProcess <;>
    cases h1 : r.c.inEready <;> cases h2 : c.inEready <;>
    constructor <;>
    simp [finishCH, Daemon.place, Daemon.setList, Daemon.listOf, syncEready, hc, hw, hd, hk, hp, h1, h2, e1, e2]

/-! ### the traversal in closed form -/

def visitRes (ops : Ops W) (ep : Bool) (rdy : Ready) (y : Conn W) : ChRes W :=
  chLocal ops ep y .active (rdyR rdy y.id) (rdyW rdy y.id) (rdyE rdy y.id)

def keepIf (wh : Wh) (r : ChRes W) : Option (Conn W) := if r.wh = wh then some r.c else none

/-- what a traversal that calls the handlers on every connection of `V` does to the
    daemon; `P` = the part of the active list before `V` (towards the head, not visited),
    `B` = the part behind it -/
structure TravSpec (ops : Ops W) (rdy : Ready) (d d' : Daemon W) (P V B : List (Conn W)) : Prop where
  conns : d'.conns = P ++ V.filterMap (fun y => keepIf .active (visitRes ops d.epoll rdy y)) ++ B
  susp : d'.susp = V.filterMap (fun y => keepIf .susp (visitRes ops d.epoll rdy y)) ++ d.susp
  cleanup : d'.cleanup = V.filterMap (fun y => keepIf .cleanup (visitRes ops d.epoll rdy y)) ++ d.cleanup
  newc : d'.newc = d.newc
  resuming : d'.resuming = d.resuming
  haveNew : d'.haveNew = d.haveNew
  shutdown : d'.shutdown = d.shutdown
  epoll : d'.epoll = d.epoll
  allowSuspend : d'.allowSuspend = d.allowSuspend
  fault : d'.fault = d.fault
  dap : d'.dap = (d.dap || V.any (fun y => (visitRes ops d.epoll rdy y).dapCheck && (visitRes ops d.epoll rdy y).c.loc.eli.hasProcess))
  log : d'.log = V.flatMap (fun y => (visitRes ops d.epoll rdy y).evs) ++ d.log
  eready : d.epoll = false → d'.eready = d.eready
  perm : (ids d'.conns ++ ids d'.susp ++ ids d'.cleanup).Perm (ids d.conns ++ ids d.susp ++ ids d.cleanup)

theorem nodup_mid_notin {A B : List (Conn W)} {c : Conn W} (h : (ids (A ++ c :: B)).Nodup) : c.id ∉ ids A := by
  simp only [ids_append, ids_cons] at h
  have := (List.nodup_append.mp h).2.2
  intro hm
  exact this _ hm _ List.mem_cons_self rfl

/-- one call of call_handlers on an active connection -/
theorem visit_step (ops : Ops W) (rdy : Ready) {d : Daemon W} {A B : List (Conn W)} {c : Conn W}
    (hc : d.conns = A ++ c :: B) (hA : c.id ∉ ids A) :
    TravSpec ops rdy d (callHandlers ops d c.id (rdyR rdy c.id) (rdyW rdy c.id) (rdyE rdy c.id)) A [c] B := by
  rw [callHandlers_active ops hc hA]
  have F := finishCH_fields (d := d) (visitRes ops d.epoll rdy c) hc hA (chLocal_static _ _ _ _ _ _ _).id
  have hep : d.epoll = false → (visitRes ops d.epoll rdy c).c.inEready = c.inEready := by
    intro h; unfold visitRes; rw [h]; exact (chLocal_sameEp ops c .active _ _ _).inEready
  constructor
  · rw [show (chLocal ops d.epoll c .active (rdyR rdy c.id) (rdyW rdy c.id) (rdyE rdy c.id)) = visitRes ops d.epoll rdy c from rfl, F.conns]
    cases hw : (visitRes ops d.epoll rdy c).wh <;> simp [keepIf, hw]
  · rw [show (chLocal ops d.epoll c .active (rdyR rdy c.id) (rdyW rdy c.id) (rdyE rdy c.id)) = visitRes ops d.epoll rdy c from rfl, F.susp]
    cases hw : (visitRes ops d.epoll rdy c).wh <;> simp [keepIf, hw]
  · rw [show (chLocal ops d.epoll c .active (rdyR rdy c.id) (rdyW rdy c.id) (rdyE rdy c.id)) = visitRes ops d.epoll rdy c from rfl, F.cleanup]
    cases hw : (visitRes ops d.epoll rdy c).wh <;> simp [keepIf, hw]
  · exact F.newc
  · exact F.resuming
  · exact F.haveNew
  · exact F.shutdown
  · exact F.epoll
  · exact F.allowSuspend
  · exact F.fault
  · rw [show (chLocal ops d.epoll c .active (rdyR rdy c.id) (rdyW rdy c.id) (rdyE rdy c.id)) = visitRes ops d.epoll rdy c from rfl, F.dap]
    simp
  · rw [show (chLocal ops d.epoll c .active (rdyR rdy c.id) (rdyW rdy c.id) (rdyE rdy c.id)) = visitRes ops d.epoll rdy c from rfl, F.log]
    simp
  · intro h
    rw [show (chLocal ops d.epoll c .active (rdyR rdy c.id) (rdyW rdy c.id) (rdyE rdy c.id)) = visitRes ops d.epoll rdy c from rfl, F.eready, hep h]
    cases c.inEready <;> simp
  · show (ids (finishCH d c (visitRes ops d.epoll rdy c)).conns ++ ids (finishCH d c (visitRes ops d.epoll rdy c)).susp ++
        ids (finishCH d c (visitRes ops d.epoll rdy c)).cleanup).Perm (ids d.conns ++ ids d.susp ++ ids d.cleanup)
    rw [F.conns, F.susp, F.cleanup, hc]
    have hid : (visitRes ops d.epoll rdy c).c.id = c.id := (chLocal_static _ _ _ _ _ _ _).id
    rw [List.perm_iff_count]
    intro y
    cases hw : (visitRes ops d.epoll rdy c).wh <;>
      simp only [if_true, if_false, reduceCtorEq, ids_append, ids_cons, List.count_append, List.count_cons, hid] <;> omega

theorem TravSpec.comp {ops : Ops W} {rdy : Ready} {d d1 d2 : Daemon W} {P V1 V2 B : List (Conn W)}
    (h1 : TravSpec ops rdy d d1 (P ++ V2) V1 B)
    (h2 : TravSpec ops rdy d1 d2 P V2 (V1.filterMap (fun y => keepIf .active (visitRes ops d.epoll rdy y)) ++ B)) :
    TravSpec ops rdy d d2 P (V2 ++ V1) B := by
  have e := h1.epoll
  constructor
  · rw [h2.conns, e]; simp [List.filterMap_append, List.append_assoc]
  · rw [h2.susp, h1.susp, e]; simp [List.filterMap_append, List.append_assoc]
  · rw [h2.cleanup, h1.cleanup, e]; simp [List.filterMap_append, List.append_assoc]
  · rw [h2.newc, h1.newc]
  · rw [h2.resuming, h1.resuming]
  · rw [h2.haveNew, h1.haveNew]
  · rw [h2.shutdown, h1.shutdown]
  · rw [h2.epoll, h1.epoll]
  · rw [h2.allowSuspend, h1.allowSuspend]
  · rw [h2.fault, h1.fault]
  · rw [h2.dap, h1.dap, e]; simp [List.any_append, Bool.or_assoc, Bool.or_comm]
  · rw [h2.log, h1.log, e]; simp [List.flatMap_append, List.append_assoc]
  · intro h; rw [h2.eready (by rw [e]; exact h), h1.eready h]
  · exact h2.perm.trans h1.perm


theorem keepIf_ids (ops : Ops W) (ep : Bool) (rdy : Ready) (wh : Wh) (c : Conn W) :
    (ids ([c].filterMap (fun y => keepIf wh (visitRes ops ep rdy y)))).Sublist [c.id] := by
  simp only [List.filterMap_cons, List.filterMap_nil, keepIf]
  split
  · exact List.nil_sublist _
  · rename_i b h
    split at h
    · cases h
      simp only [ids_cons, ids_nil]
      rw [show (visitRes ops ep rdy c).c.id = c.id from (chLocal_static _ _ _ _ _ _ _).id]
      exact List.Sublist.refl _
    · cases h

theorem selectTrav_step (ops : Ops W) (rdy : Ready) {d : Daemon W} {A B : List (Conn W)} {c : Conn W} (f : Nat)
    (hc : d.conns = A ++ c :: B) (hA : c.id ∉ ids A) (hv : c.sockValid = true) :
    selectTrav ops true rdy (f + 1) (some c.id) d =
      selectTrav ops true rdy f (tailId A) (callHandlers ops d c.id (rdyR rdy c.id) (rdyW rdy c.id) (rdyE rdy c.id)) := by
  rw [selectTrav]
  rw [lookup_active hc hA, prevOf_active hc hA]
  simp only [hv, if_true]

theorem selectTrav_closed (ops : Ops W) (rdy : Ready) :
    ∀ (n : Nat) (A : List (Conn W)), A.length = n → ∀ (c : Conn W) (B : List (Conn W)) (d : Daemon W) (fuel : Nat),
      d.conns = A ++ c :: B → (ids d.conns).Nodup → n + 1 ≤ fuel →
      (∀ x ∈ A ++ [c], x.sockValid = true) →
      TravSpec ops rdy d (selectTrav ops true rdy fuel (some c.id) d) [] (A ++ [c]) B := by
  intro n
  induction n with
  | zero =>
    intro A hA c B d fuel hc hnd hf hsv
    have hA0 : A = [] := List.eq_nil_of_length_eq_zero hA
    subst hA0
    obtain ⟨f, rfl⟩ : ∃ f, fuel = f + 1 := ⟨fuel - 1, by omega⟩
    have hnotin : c.id ∉ ids ([] : List (Conn W)) := by simp
    rw [selectTrav_step ops rdy f hc hnotin (hsv c (by simp))]
    rw [tailId_nil, selectTrav]
    exact visit_step ops rdy hc hnotin
  | succ n ih =>
    intro A hA c B d fuel hc hnd hf hsv
    obtain ⟨f, rfl⟩ : ∃ f, fuel = f + 1 := ⟨fuel - 1, by omega⟩
    rcases List.eq_nil_or_concat A with h0 | ⟨A', a, hA'⟩
    · subst h0; simp at hA
    · rw [List.concat_eq_append] at hA'
      subst hA'
      have hnotin : c.id ∉ ids (A' ++ [a]) := by rw [hc] at hnd; exact nodup_mid_notin hnd
      rw [selectTrav_step ops rdy f hc hnotin (hsv c (by simp))]
      rw [tailId_concat]
      have S := visit_step ops rdy hc hnotin
      have hc1 := S.conns
      rw [List.append_assoc, List.append_assoc, List.singleton_append] at hc1
      have hnd1 : (ids (callHandlers ops d c.id (rdyR rdy c.id) (rdyW rdy c.id) (rdyE rdy c.id)).conns).Nodup := by
        rw [hc1]
        rw [hc] at hnd
        refine List.Nodup.sublist ?_ hnd
        have hk := keepIf_ids ops d.epoll rdy .active c
        have h2 : (ids (A' ++ a :: (List.filterMap (fun y => keepIf Wh.active (visitRes ops d.epoll rdy y)) [c] ++ B))).Sublist
            (ids A' ++ ([a.id] ++ ([c.id] ++ ids B))) := by
          simp only [ids_append, ids_cons]
          exact List.Sublist.append (List.Sublist.refl _)
            (List.Sublist.append (List.Sublist.refl [a.id]) (List.Sublist.append hk (List.Sublist.refl _)))
        simpa [ids_append, ids_cons, List.append_assoc] using h2
      have hlen : A'.length = n := by simpa using hA
      have IH := ih A' hlen a _ _ f hc1 hnd1 (by omega) (fun x hx => hsv x (by
        simp only [List.mem_append, List.mem_singleton] at hx ⊢
        rcases hx with h | h
        · exact Or.inl (Or.inl h)
        · exact Or.inl (Or.inr h)))
      have := TravSpec.comp (P := []) (by simpa using S) IH
      simpa using this

end Mhd.Loop

namespace Mhd.Loop
open Mhd.Gen.Loop
variable {W : Type}

theorem pollTrav_step (ops : Ops W) (rdy : Ready) (parr : List CId) {d : Daemon W} {A B : List (Conn W)} {c : Conn W} (f i : Nat)
    (hc : d.conns = A ++ c :: B) (hA : c.id ∉ ids A) (hi : parr[i]? = some c.id) :
    pollTrav ops true parr rdy (f + 1) i (some c.id) d =
      pollTrav ops true parr rdy f (i + 1) (tailId A) (callHandlers ops d c.id (rdyR rdy c.id) (rdyW rdy c.id) (rdyE rdy c.id)) := by
  rw [pollTrav]
  rw [prevOf_active hc hA]
  have hlt : i < parr.length := by
    rcases Nat.lt_or_ge i parr.length with h | h
    · exact h
    · rw [List.getElem?_eq_none h] at hi; cases hi
  simp only [ge_iff_le, Nat.not_le.mpr hlt, if_false, hi, ne_eq, not_true_eq_false, if_true]

theorem pollTrav_break (ops : Ops W) (rdy : Ready) (parr : List CId) {d : Daemon W} {A B : List (Conn W)} {c : Conn W} (f i : Nat)
    (hc : d.conns = A ++ c :: B) (hA : c.id ∉ ids A) (hi : parr.length ≤ i) :
    pollTrav ops true parr rdy (f + 1) i (some c.id) d = d := by
  rw [pollTrav]
  rw [prevOf_active hc hA]
  simp only [ge_iff_le, hi, if_true]

end Mhd.Loop

namespace Mhd.Loop
open Mhd.Gen.Loop
variable {W : Type}

theorem drop_cons_inv {α : Type} {l : List α} {i : Nat} {x : α} {r : List α} (h : l.drop i = x :: r) :
    l[i]? = some x ∧ l.drop (i + 1) = r := by
  constructor
  · have := List.getElem?_drop (xs := l) (i := i) (j := 0)
    rw [h] at this
    simpa using this.symm
  · have : (l.drop i).tail = l.drop (i + 1) := by simp [List.tail_drop]
    rw [← this, h]; rfl

theorem drop_nil_len {α : Type} {l : List α} {i : Nat} (h : l.drop i = []) : l.length ≤ i := by
  simpa using h

theorem ids_reverse_concat (A : List (Conn W)) (c : Conn W) : (ids (A ++ [c])).reverse = c.id :: (ids A).reverse := by
  simp [ids]

theorem visit_nodup (ops : Ops W) (rdy : Ready) {d : Daemon W} {A B : List (Conn W)} {c : Conn W}
    (hc : d.conns = A ++ c :: B) (hnd : (ids d.conns).Nodup) :
    (ids (callHandlers ops d c.id (rdyR rdy c.id) (rdyW rdy c.id) (rdyE rdy c.id)).conns).Nodup := by
  have hA : c.id ∉ ids A := by rw [hc] at hnd; exact nodup_mid_notin hnd
  rw [(visit_step ops rdy hc hA).conns]
  rw [hc] at hnd
  refine List.Nodup.sublist ?_ hnd
  have hk := keepIf_ids ops d.epoll rdy .active c
  have h2 : (ids (A ++ List.filterMap (fun y => keepIf Wh.active (visitRes ops d.epoll rdy y)) [c] ++ B)).Sublist
      (ids A ++ ([c.id] ++ ids B)) := by
    simp only [ids_append, List.append_assoc]
    exact List.Sublist.append (List.Sublist.refl _) (List.Sublist.append hk (List.Sublist.refl _))
  simpa [ids_append, ids_cons, List.append_assoc] using h2

theorem pollTrav_closed (ops : Ops W) (rdy : Ready) (parr : List CId) :
    ∀ (n : Nat) (A : List (Conn W)), A.length = n → ∀ (c : Conn W) (B P : List (Conn W)) (d : Daemon W) (fuel i : Nat),
      d.conns = P ++ A ++ c :: B → (ids d.conns).Nodup → n + 2 ≤ fuel →
      parr.drop i = (ids (A ++ [c])).reverse →
      TravSpec ops rdy d (pollTrav ops true parr rdy fuel i (some c.id) d) P (A ++ [c]) B := by
  intro n
  induction n with
  | zero =>
    intro A hA c B P d fuel i hc hnd hf hdrop
    have hA0 : A = [] := List.eq_nil_of_length_eq_zero hA
    subst hA0
    obtain ⟨f, rfl⟩ : ∃ f, fuel = f + 2 := ⟨fuel - 2, by omega⟩
    simp only [List.append_nil] at hc
    have hnotin : c.id ∉ ids P := by rw [hc] at hnd; exact nodup_mid_notin hnd
    rw [List.nil_append, ids_cons, ids_nil, List.reverse_singleton] at hdrop
    obtain ⟨hi, hrest⟩ := drop_cons_inv hdrop
    rw [pollTrav_step ops rdy parr (f + 1) i hc hnotin hi]
    have S := visit_step ops rdy hc hnotin
    have hnd1 := visit_nodup ops rdy hc hnd
    rcases List.eq_nil_or_concat P with h0 | ⟨P', p, hP⟩
    · subst h0
      rw [tailId_nil, pollTrav]
      simpa using S
    · rw [List.concat_eq_append] at hP
      subst hP
      rw [tailId_concat]
      have hc1 := S.conns
      rw [List.append_assoc, List.append_assoc, List.singleton_append] at hc1
      have hp : p.id ∉ ids P' := by rw [hc1] at hnd1; exact nodup_mid_notin hnd1
      rw [pollTrav_break ops rdy parr f (i + 1) hc1 hp (drop_nil_len hrest)]
      simpa using S
  | succ n ih =>
    intro A hA c B P d fuel i hc hnd hf hdrop
    obtain ⟨f, rfl⟩ : ∃ f, fuel = f + 1 := ⟨fuel - 1, by omega⟩
    rcases List.eq_nil_or_concat A with h0 | ⟨A', a, hA'⟩
    · subst h0; simp at hA
    · rw [List.concat_eq_append] at hA'
      subst hA'
      have hnotin : c.id ∉ ids (P ++ (A' ++ [a])) := by rw [hc] at hnd; exact nodup_mid_notin hnd
      rw [ids_reverse_concat] at hdrop
      obtain ⟨hi, hrest⟩ := drop_cons_inv hdrop
      rw [pollTrav_step ops rdy parr f i hc hnotin hi]
      have S := visit_step ops rdy hc hnotin
      have hnd1 := visit_nodup ops rdy hc hnd
      have ht : tailId (P ++ (A' ++ [a])) = some a.id := by rw [← List.append_assoc]; exact tailId_concat _ _
      rw [ht]
      have hc1 := S.conns
      have hc1' : (callHandlers ops d c.id (rdyR rdy c.id) (rdyW rdy c.id) (rdyE rdy c.id)).conns =
          P ++ A' ++ a :: (List.filterMap (fun y => keepIf Wh.active (visitRes ops d.epoll rdy y)) [c] ++ B) := by
        rw [hc1]; simp [List.append_assoc]
      have hlen : A'.length = n := by simpa using hA
      have IH := ih A' hlen a _ P _ f (i + 1) hc1' hnd1 (by omega) (by rw [hrest])
      have := TravSpec.comp (P := P) (V2 := A' ++ [a]) (by simpa [List.append_assoc] using S) IH
      simpa using this

end Mhd.Loop
