/-
  C09 helper lemmas, part 1: the counting measure `mu`, the generalised
  invariant `InvG` (with connections that are momentarily in no list because a
  loop has detached them) and its preservation by the primitives of
  `Mhd.Model.Limits`.
-/
import Mhd.Model.Limits

namespace Mhd.Limits

/-- number of members of `l` whose address satisfies `p` (`p = fun _ => true`: the length) -/
def mu (p : Nat → Bool) (l : List Conn) : Nat := l.countP (fun c => p c.addr)

@[simp] theorem mu_nil (p) : mu p [] = 0 := rfl
@[simp] theorem mu_cons (p) (c : Conn) (l) : mu p (c :: l) = mu p l + if p c.addr = true then 1 else 0 := by
  simp [mu, List.countP_cons]
@[simp] theorem mu_append (p) (l₁ l₂ : List Conn) : mu p (l₁ ++ l₂) = mu p l₁ + mu p l₂ := by
  simp [mu, List.countP_append]
@[simp] theorem mu_reverse (p) (l : List Conn) : mu p l.reverse = mu p l := by
  simp [mu, List.countP_reverse]
theorem mu_true (l : List Conn) : mu (fun _ => true) l = l.length := by
  induction l with
  | nil => rfl
  | cons c l ih => simp [ih]

theorem mu_map (p) (f : Conn → Conn) (hf : ∀ c, (f c).addr = c.addr) (l : List Conn) :
    mu p (l.map f) = mu p l := by
  induction l with
  | nil => rfl
  | cons c l ih => simp [ih, hf]

theorem mu_filter_split (p) (q : Conn → Bool) (l : List Conn) :
    mu p (l.filter q) + mu p (l.filter (fun c => !q c)) = mu p l := by
  induction l with
  | nil => rfl
  | cons c l ih =>
    by_cases h : q c = true
    · simp [h]; omega
    · simp [h]; omega

theorem mu_updConn (p) (id : Nat) (f : Conn → Conn) (hf : ∀ c, (f c).addr = c.addr) (l : List Conn) :
    mu p (updConn id f l) = mu p l := by
  unfold updConn
  apply mu_map
  intro c
  by_cases h : c.id = id <;> simp [h, hf]

theorem mu_tail_cons (p) (c : Conn) (l : List Conn) : mu p (c :: l).tail = mu p l := rfl

/-- the counted total of an address predicate over the four lists -/
def tot (p : Nat → Bool) (s : St) : Nat := mu p s.newL + mu p s.active + mu p s.susp + mu p s.cleanup

def isA (a : Nat) : Nat → Bool := fun x => x == a
def allA : Nat → Bool := fun _ => true

theorem mu_all (l : List Conn) : mu allA l = l.length := mu_true l

/-- faults that the counting invariant excludes -/
def CountFaultFree (f : Option Fault) : Prop := f ≠ some .ipDelZero ∧ f ≠ some .connUnderflow

/-- The accounting invariant.  `pc`: connections detached from every list that
    are still counted in `connections` and per address (the local list of
    `MHD_cleanup_connections`); `pi`: detached connections counted per address
    only (prepared but not yet processed). -/
structure InvG (s : St) (pc pi : List Conn) : Prop where
  conns : s.connections = mu allA s.active + mu allA s.susp + mu allA s.cleanup + mu allA pc
  le : s.connections ≤ s.cfg.limit
  ip : ∀ a, s.ipCount a = if s.cfg.perIp = 0 ∨ a = 0 then 0 else tot (isA a) s + mu (isA a) pc + mu (isA a) pi
  ipLe : ∀ a, s.ipCount a ≤ s.cfg.perIp
  cf : CountFaultFree s.fault

abbrev Inv (s : St) : Prop := InvG s [] []

theorem isA_self (a : Nat) : isA a a = true := by simp [isA]
theorem isA_ne {a b : Nat} (h : b ≠ a) : isA a b = false := by simp [isA, h]

theorem keyed_false {a : Nat} : (!keyed a) = true ↔ a = 0 := by
  simp [keyed]

/-! ### MHD_ip_limit_add / MHD_ip_limit_del -/

theorem ipAdd_fields (s : St) (a : Nat) :
    (ipAdd s a).1.cfg = s.cfg ∧ (ipAdd s a).1.connections = s.connections ∧ (ipAdd s a).1.newL = s.newL ∧
    (ipAdd s a).1.active = s.active ∧ (ipAdd s a).1.susp = s.susp ∧ (ipAdd s a).1.cleanup = s.cleanup ∧
    (ipAdd s a).1.fault = s.fault ∧ (ipAdd s a).1.resps = s.resps ∧ (ipAdd s a).1.nextId = s.nextId ∧
    (ipAdd s a).1.resuming = s.resuming ∧ (ipAdd s a).1.shutdown = s.shutdown := by
  unfold ipAdd
  split
  · simp
  · split
    · simp
    · split
      · simp
      · split <;> simp

/-- accepted: the new connection (any record with that address) is now counted per address -/
theorem ipAdd_ok (s : St) (a : Nat) (pc pi : List Conn) (h : InvG s pc pi) (hok : (ipAdd s a).2.1 = true)
    (c : Conn) (hc : c.addr = a) : InvG (ipAdd s a).1 pc (c :: pi) := by
  have hf := ipAdd_fields s a
  obtain ⟨h1, h2, h3, h4, h5, h6, h7, _⟩ := hf
  unfold ipAdd at hok ⊢
  by_cases hp : s.cfg.perIp = 0
  · simp only [hp, if_true] at hok ⊢
    refine ⟨h.conns, h.le, ?_, h.ipLe, h.cf⟩
    intro x; have := h.ip x; simp [hp] at this ⊢; exact this
  · simp only [hp, if_false] at hok ⊢
    by_cases harm : s.armed = some .ipnode
    · simp [harm] at hok
    · simp only [harm, if_false] at hok ⊢
      by_cases hk : (!keyed a) = true
      · simp only [hk, if_true] at hok ⊢
        have ha0 : a = 0 := keyed_false.mp hk
        refine ⟨h.conns, h.le, ?_, h.ipLe, h.cf⟩
        intro x
        have := h.ip x
        by_cases hx : x = 0
        · simp [hx] at this ⊢; exact this
        · have hne : isA x c.addr = false := by rw [hc, ha0]; exact isA_ne (Ne.symm hx)
          simp [hp, hx, hne] at this ⊢; exact this
      · simp only [hk] at hok ⊢
        have ha0 : a ≠ 0 := fun e => hk (keyed_false.mpr e)
        by_cases hlt : s.ipCount a < s.cfg.perIp
        · simp only [hlt, if_true] at hok ⊢
          refine ⟨h.conns, h.le, ?_, ?_, h.cf⟩
          · intro x
            have := h.ip x
            by_cases hx : x = a
            · subst hx
              simp [setFn, hp, ha0, hc, isA_self, tot] at this ⊢; omega
            · have hne : isA x c.addr = false := by rw [hc]; exact isA_ne (Ne.symm hx)
              simp [setFn, hx, hne, tot] at this ⊢; exact this
          · intro x
            have := h.ipLe x
            by_cases hx : x = a
            · subst hx; simp [setFn]; omega
            · simp [setFn, hx]; exact this
        · simp [hlt] at hok

/-- refused (limit reached or the key allocation failed): nothing is counted -/
theorem ipAdd_refused (s : St) (a : Nat) (pc pi : List Conn) (h : InvG s pc pi) (hok : (ipAdd s a).2.1 = false) :
    InvG (ipAdd s a).1 pc pi := by
  unfold ipAdd at hok ⊢
  by_cases hp : s.cfg.perIp = 0
  · simp [hp] at hok
  · simp only [hp, if_false] at hok ⊢
    by_cases harm : s.armed = some .ipnode
    · simp only [harm, if_true]
      exact ⟨h.conns, h.le, h.ip, h.ipLe, h.cf⟩
    · simp only [harm, if_false] at hok ⊢
      by_cases hk : (!keyed a) = true
      · simp [hk] at hok
      · simp only [hk] at hok ⊢
        by_cases hlt : s.ipCount a < s.cfg.perIp
        · simp [hlt] at hok
        · simp only [hlt, if_false]; exact h

/-- a connection that is counted per address (pending, `pi`) is given back -/
theorem ipDel_pi (s : St) (c : Conn) (pc pi : List Conn) (h : InvG s pc (c :: pi)) :
    InvG (ipDel s c.addr) pc pi := by
  unfold ipDel
  by_cases hp : s.cfg.perIp = 0
  · simp only [hp, if_true]
    refine ⟨h.conns, h.le, ?_, h.ipLe, h.cf⟩
    intro x; have := h.ip x; simp [hp] at this ⊢; exact this
  · simp only [hp, if_false]
    by_cases hk : (!keyed c.addr) = true
    · simp only [hk, if_true]
      have ha0 : c.addr = 0 := keyed_false.mp hk
      refine ⟨h.conns, h.le, ?_, h.ipLe, h.cf⟩
      intro x
      have := h.ip x
      by_cases hx : x = 0
      · simp [hx] at this ⊢; exact this
      · have hne : isA x c.addr = false := by rw [ha0]; exact isA_ne (Ne.symm hx)
        simp [hp, hx, hne] at this ⊢; exact this
    · simp only [hk]
      have ha0 : c.addr ≠ 0 := fun e => hk (keyed_false.mpr e)
      have hca := h.ip c.addr
      simp [hp, ha0, isA_self, tot] at hca
      have hz : s.ipCount c.addr ≠ 0 := by omega
      simp only [hz, if_false]
      refine ⟨h.conns, h.le, ?_, ?_, h.cf⟩
      · intro x
        have := h.ip x
        by_cases hx : x = c.addr
        · subst hx; simp [setFn, hp, ha0, isA_self, tot] at this ⊢; omega
        · have hne : isA x c.addr = false := isA_ne (Ne.symm hx)
          simp [setFn, hx, hne, tot] at this ⊢; exact this
      · intro x
        have := h.ipLe x
        by_cases hx : x = c.addr
        · subst hx; simp [setFn]; omega
        · simp [setFn, hx]; exact this

theorem ipDel_fields (s : St) (a : Nat) :
    (ipDel s a).cfg = s.cfg ∧ (ipDel s a).connections = s.connections ∧ (ipDel s a).newL = s.newL ∧
    (ipDel s a).active = s.active ∧ (ipDel s a).susp = s.susp ∧ (ipDel s a).cleanup = s.cleanup ∧
    (ipDel s a).resps = s.resps ∧ (ipDel s a).nextId = s.nextId ∧ (ipDel s a).armed = s.armed ∧
    (ipDel s a).resuming = s.resuming ∧ (ipDel s a).shutdown = s.shutdown := by
  unfold ipDel
  split
  · simp
  · split
    · simp
    · split <;> simp

end Mhd.Limits
