/-
  C12 proofs: hexadecimal round trip of `MHD_bin_to_hex` / `MHD_hex_to_bin`, digest length.
-/
import Mhd.Proofs.DauthApi
namespace Mhd.Dauth
open Mhd.Auth Mhd.Gen.Auth Mhd.Gen.Dauth

theorem md5_len (m : Bytes) : (Algo.md5.hash m).length = Algo.md5.size := by
  simp [Algo.hash, Algo.size, Mhd.Hash.Spec.Md5.hash, Mhd.Hash.Spec.Hash.hash, Mhd.Hash.Spec.Md5.spec,
    Mhd.Hash.Spec.Md5.out, Mhd.Hash.bytesLE32]
  rfl

theorem hexVal_hexDigitL (n : Nat) (h : n < 16) : hexVal (hexDigitL n) = some n := by
  have : ∀ k : Fin 16, hexVal (hexDigitL k.val) = some k.val := by decide
  exact this ⟨n, h⟩

theorem hexPairs_binToHex (b : Bytes) : hexPairs (binToHex b) = some b := by
  induction b with
  | nil => rfl
  | cons x t ih =>
    have h1 : x.toNat / 16 < 16 := by have := x.toNat_lt; omega
    have h2 : x.toNat % 16 < 16 := by omega
    simp only [binToHex, hexPairs, hexVal_hexDigitL _ h1, hexVal_hexDigitL _ h2, ih]
    congr 2
    have : x.toNat / 16 * 16 + x.toNat % 16 = x.toNat := by omega
    rw [this]; simp

theorem binToHex_length (b : Bytes) : (binToHex b).length = 2 * b.length := by
  induction b with
  | nil => rfl
  | cons x t ih => simp [binToHex, ih]; omega

theorem hexToBin_binToHex (b : Bytes) (h : b ≠ []) : hexToBin (binToHex b) = some b := by
  cases b with
  | nil => exact absurd rfl h
  | cons x t =>
    have hl := binToHex_length (x :: t)
    unfold hexToBin
    have : ¬ (binToHex (x :: t)).length % 2 = 1 := by rw [hl]; omega
    simp only [binToHex] at this ⊢
    simp only [this, if_false]
    exact hexPairs_binToHex (x :: t)

end Mhd.Dauth
