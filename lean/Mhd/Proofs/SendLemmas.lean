/-
  C07 — helper lemmas: list facts and the specification every sender meets
  (what one call that was offered `req` does to the wire).
-/
import Mhd.Model.SendConn
namespace Mhd.Send
open Mhd.Gen.Send

theorem take_append_drop_add (l : List α) (a n : Nat) :
    (l.drop a).take n ++ l.drop (a + n) = l.drop a := by
  rw [← List.drop_drop]; exact List.take_append_drop n (l.drop a)

theorem take_take_drop (k : List α) (n m : Nat) :
    (k.take n).take m ++ (k.drop m).take (n - m) = k.take n := by
  rw [← List.drop_take]
  exact List.take_append_drop m (k.take n)

theorem slice_split (l : List α) (a n m : Nat) :
    ((l.drop a).take n).take m ++ (l.drop (a + m)).take (n - m) = (l.drop a).take n := by
  rw [← List.drop_drop]; exact take_take_drop _ _ _

theorem prefix_take_app (a b : List α) (n : Nat) (h : a.length ≤ n) :
    (a ++ b).take n ++ b.drop (n - a.length) = a ++ b := by
  rw [List.take_append, List.take_of_length_le h, List.append_assoc, List.take_append_drop]

/-- what one call of a sender that was offered `req` guarantees -/
structure SendSpec (o : SendOut) (req : Bytes) : Prop where
  ok : ∀ n, o.ret = .ok n → n ≤ req.length ∧ o.wire = req.take n
  again : o.ret = .error .again → o.wire = []
  err : ∀ e, o.ret = .error e → o.wire <+: req

theorem SendSpec.prefix {o : SendOut} {req : Bytes} (h : SendSpec o req) : o.wire <+: req := by
  cases hr : o.ret with
  | ok n => rw [(h.ok n hr).2]; exact List.take_prefix _ _
  | error e => exact h.err e hr

theorem sysSend_spec (req : Bytes) (s : SockRes) : SendSpec (sysSend req s) req := by
  cases s with
  | full =>
    refine ⟨?_, ?_, ?_⟩ <;> simp [sysSend]
  | short k =>
    refine ⟨?_, ?_, ?_⟩ <;> simp [sysSend]
    · omega
  | err e =>
    refine ⟨?_, ?_, ?_⟩ <;> simp [sysSend, SendOut.fail]

/-- a data answer moves at least one byte of a non-empty request -/
theorem sysSend_data (req : Bytes) (s : SockRes) (hs : s.isData = true) (hne : req ≠ []) :
    ∃ n, (sysSend req s).ret = .ok n ∧ 1 ≤ n := by
  have hl : 1 ≤ req.length := by
    cases req with
    | nil => exact absurd rfl hne
    | cons a t => simp
  cases s with
  | full => exact ⟨req.length, rfl, hl⟩
  | short k =>
    simp [SockRes.isData] at hs
    exact ⟨min k req.length, rfl, by omega⟩
  | err e => simp [SockRes.isData] at hs

theorem sysSend_legal_pos (req : Bytes) (s : SockRes) (hs : s.Legal) (hne : req ≠ []) (n : Nat)
    (h : (sysSend req s).ret = .ok n) : 1 ≤ n := by
  have hl : 1 ≤ req.length := by
    cases req with
    | nil => exact absurd rfl hne
    | cons a t => simp
  cases s with
  | full => simp [sysSend] at h; omega
  | short k => simp [sysSend] at h; simp [SockRes.Legal] at hs; omega
  | err e => simp [sysSend, SendOut.fail] at h

theorem spec_of_take {o : SendOut} {req : Bytes} (m : Nat) (h : SendSpec o (req.take m)) : SendSpec o req := by
  refine ⟨?_, h.again, ?_⟩
  · intro n hn
    obtain ⟨h1, h2⟩ := h.ok n hn
    refine ⟨Nat.le_trans h1 (by simp; omega), ?_⟩
    rw [h2, List.take_take]
    congr 1
    simp at h1; omega
  · intro e he
    exact List.IsPrefix.trans (h.err e he) (List.take_prefix _ _)

theorem sendData_spec (buf : Bytes) (s : SockRes) : SendSpec (sendData false buf s) buf := by
  simp only [sendData, Bool.false_eq_true, if_false]
  exact spec_of_take _ (sysSend_spec _ s)

theorem ssizeMax_pos : 1 ≤ ssizeMax := by decide
theorem sendMax_pos : 1 ≤ sendMax := by decide

theorem sendData_data (buf : Bytes) (s : SockRes) (hs : s.isData = true) (hne : buf ≠ []) :
    ∃ n, (sendData false buf s).ret = .ok n ∧ 1 ≤ n := by
  simp only [sendData, Bool.false_eq_true, if_false]
  apply sysSend_data _ _ hs
  intro h
  have := congrArg List.length h
  have hl : 1 ≤ buf.length := by
    cases buf with
    | nil => exact absurd rfl hne
    | cons a t => simp
  have h1 := ssizeMax_pos
  have h2 := sendMax_pos
  simp at this
  rcases this with h | h | h | h
  · exact hne h
  · omega
  · omega
  · exact hne h

theorem ne_nil_of_length_pos {l : List α} (h : 1 ≤ l.length) : l ≠ [] := by
  intro e; rw [e] at h; simp at h

theorem length_pos_of_ne_nil {l : List α} (h : l ≠ []) : 1 ≤ l.length := by
  cases l with
  | nil => exact absurd rfl h
  | cons a t => simp

theorem sendData_legal_pos (buf : Bytes) (s : SockRes) (hs : s.Legal) (hne : buf ≠ []) (n : Nat)
    (h : (sendData false buf s).ret = .ok n) : 1 ≤ n := by
  simp only [sendData, Bool.false_eq_true, if_false] at h
  refine sysSend_legal_pos _ s hs ?_ n h
  apply ne_nil_of_length_pos
  have hl := length_pos_of_ne_nil hne
  have p1 := ssizeMax_pos
  have p2 := sendMax_pos
  simp only [List.length_take]
  omega

theorem take_length_add (a b : List α) (k : Nat) : (a ++ b).take (a.length + k) = a ++ b.take k := by
  rw [List.take_append, List.take_of_length_le (by omega)]
  congr 2; omega

/-- the header-then-body fall-back, given what the two `MHD_send_data_` calls did -/
theorem hdrThenBody_spec (hdr body : Bytes) (o1 o2 : SendOut) (bsz ret : Nat)
    (h1 : SendSpec o1 hdr) (h2 : SendSpec o2 (body.take bsz)) (hr : o1.ret = .ok ret) (hfull : hdr.length = ret)
    (hpos : ∀ m, o2.ret = .ok m → 1 ≤ m) :
    SendSpec (match o2.ret with
        | .ok ret2 => if 0 < ret2 then ⟨.ok (ret + ret2), o1.wire ++ o2.wire⟩ else ⟨.ok ret2, o1.wire ++ o2.wire⟩
        | .error .again => ⟨.ok ret, o1.wire⟩
        | .error e => ⟨.error e, o1.wire⟩) (hdr ++ body) := by
  have hw1 : o1.wire = hdr := by
    rw [(h1.ok ret hr).2, ← hfull]; exact List.take_length
  cases hr2 : o2.ret with
  | ok ret2 =>
    have hp := hpos ret2 hr2
    obtain ⟨hle2, hw2⟩ := h2.ok ret2 hr2
    simp only [List.length_take] at hle2
    have h0 : 0 < ret2 := by omega
    simp only [h0, if_true]
    refine ⟨?_, ?_, ?_⟩
    · intro n hn
      simp only [Except.ok.injEq] at hn
      subst hn
      subst hfull
      refine ⟨by simp only [List.length_append]; omega, ?_⟩
      simp only []
      rw [hw1, hw2, List.take_take, take_length_add]
      have e2 : min ret2 bsz = ret2 := by omega
      rw [e2]
    · intro ha; cases ha
    · intro e he; cases he
  | error e =>
    have hpre : hdr <+: hdr ++ body := List.prefix_append _ _
    have hok : SendSpec (⟨.ok ret, o1.wire⟩ : SendOut) (hdr ++ body) := by
      refine ⟨?_, ?_, ?_⟩
      · intro n hn
        simp only [Except.ok.injEq] at hn
        subst hn
        subst hfull
        refine ⟨by simp only [List.length_append]; omega, ?_⟩
        simp only []
        rw [hw1]
        have := take_length_add hdr body 0
        simp
      · intro ha; cases ha
      · intro e he; cases he
    have herr : ∀ e', e' ≠ Err.again → SendSpec (⟨.error e', o1.wire⟩ : SendOut) (hdr ++ body) := by
      intro e' hne
      refine ⟨?_, ?_, ?_⟩
      · intro n hn; cases hn
      · intro ha; simp only [Except.error.injEq] at ha; exact absurd ha hne
      · intro e'' _; simp only []; rw [hw1]; exact hpre
    cases e
    · exact hok
    all_goals exact herr _ (by decide)

theorem sendHdrAndBody_spec (noVec nonblk : Bool) (hdr body : Bytes) (s1 s2 : SockRes) (h2 : s2.Legal) :
    SendSpec (sendHdrAndBody false noVec nonblk hdr body s1 s2) (hdr ++ body) := by
  unfold sendHdrAndBody
  simp only [Bool.false_eq_true, if_false]
  split
  · -- header first
    have hs1 := sendData_spec hdr s1
    have hlift : SendSpec (sendData false hdr s1) (hdr ++ body) := by
      refine ⟨?_, hs1.again, ?_⟩
      · intro n hn
        obtain ⟨a, b⟩ := hs1.ok n hn
        refine ⟨by simp only [List.length_append]; omega, ?_⟩
        rw [b, List.take_append]
        have : n - hdr.length = 0 := by omega
        rw [this]; simp
      · intro e he; exact List.IsPrefix.trans (hs1.err e he) (List.prefix_append _ _)
    cases hr : (sendData false hdr s1).ret with
    | error e => exact hlift
    | ok ret =>
      simp only []
      split
      · rename_i hc
        obtain ⟨hc1, hc2, hc3, hc4⟩ := hc
        generalize hbs : (if ssizeMax - ret < body.length then ssizeMax - ret else body.length) = bsz
        have hbpos : 1 ≤ bsz := by
          have : 1 ≤ body.length := Nat.pos_of_ne_zero hc3
          rw [← hbs]; split <;> omega
        have hne : body.take bsz ≠ [] := by
          apply ne_nil_of_length_pos
          have : 1 ≤ body.length := Nat.pos_of_ne_zero hc3
          simp only [List.length_take]; omega
        exact hdrThenBody_spec hdr body _ _ bsz ret hs1 (sendData_spec _ s2) hr hc1
          (fun m hm => sendData_legal_pos _ s2 h2 hne m hm)
      · exact hlift
  · -- one vectored call
    generalize hb : (if ssizeMax ≤ body.length ∨ ssizeMax < hdr.length + body.length then ssizeMax - hdr.length
                      else body.length) = b1
    generalize hb2 : (if (ssizeMax ≠ sendMax ∨ sendMax = 0) ∧ (sendMax ≤ b1 ∨ sendMax < hdr.length + b1)
                      then sendMax - hdr.length else b1) = b2
    have hs := sysSend_spec (hdr ++ body.take b2) s1
    have : hdr ++ body.take b2 = (hdr ++ body).take (hdr.length + b2) := (take_length_add hdr body b2).symm
    rw [this] at hs ⊢
    exact spec_of_take _ hs


theorem ne_nil_of_length_pos' {l : List α} (h : 1 ≤ l.length) : l ≠ [] := by
  intro e; rw [e] at h; simp at h

theorem iovAdvance_spec : ∀ (l : List Bytes) (t : Nat), t ≤ l.flatten.length →
    ∃ k l', iovAdvance l t = some (k, l') ∧ l'.flatten = l.flatten.drop t ∧ k + l'.length = l.length ∧
      ((∀ e ∈ l, e ≠ []) → ∀ e ∈ l', e ≠ [])
  | [], t, h => by
    have : t = 0 := by simpa using h
    subst this
    exact ⟨0, [], rfl, rfl, rfl, fun x => x⟩
  | e :: rest, t, h => by
    simp only [List.flatten_cons, List.length_append] at h
    by_cases hc : t ≠ 0 ∧ e.length ≤ t
    · obtain ⟨k, l', h1, h2, h3, h4⟩ := iovAdvance_spec rest (t - e.length) (by omega)
      refine ⟨k + 1, l', ?_, ?_, ?_, fun hne => h4 (fun x hx => hne x (List.mem_cons_of_mem _ hx))⟩
      · rw [iovAdvance, if_pos hc, h1]
      · rw [h2, List.flatten_cons, List.drop_append]
        have : List.drop t e = [] := List.drop_eq_nil_of_le hc.2
        rw [this, List.nil_append]
      · simp only [List.length_cons]; omega
    · by_cases h0 : t ≠ 0
      · have hlt : t < e.length := by
          by_cases hh : e.length ≤ t
          · exact absurd ⟨h0, hh⟩ hc
          · omega
        refine ⟨0, e.drop t :: rest, ?_, ?_, ?_, ?_⟩
        · rw [iovAdvance, if_neg hc, if_pos h0]
        · rw [List.flatten_cons, List.flatten_cons, List.drop_append]
          have : t - e.length = 0 := by omega
          rw [this, List.drop_zero]
        · simp
        · intro hne x hx
          rcases List.mem_cons.mp hx with hx | hx
          · rw [hx]; apply ne_nil_of_length_pos'; simp only [List.length_drop]; omega
          · exact hne x (List.mem_cons_of_mem _ hx)
      · have : t = 0 := by omega
        subst this
        refine ⟨0, e :: rest, ?_, ?_, ?_, fun x => x⟩
        · simp [iovAdvance]
        · simp
        · simp

theorem flatten_take_prefix (l : List Bytes) (n : Nat) : (l.take n).flatten <+: l.flatten := by
  have : l = l.take n ++ l.drop n := (List.take_append_drop n l).symm
  conv => rhs; rw [this, List.flatten_append]
  exact List.prefix_append _ _

end Mhd.Send
