/-
  C19 helper lemmas, part 10: two partial payload copies merge into one (data and control
  frames) — the core of split independence.
-/
import Mhd.Proofs.WSStable
namespace Mhd.WS

/-- two loop-trip results the application cannot tell apart: equal, except that after a
    negative status (the session is over) only status and payload are compared -/
def RSim : R → R → Prop
  | .ret _ st _ pl plen, .ret _ st' _ pl' plen' => st < 0 ∧ st' = st ∧ pl' = pl ∧ plen' = plen
  | _, _ => False

def RSimEq (r r' : R) : Prop := r = r' ∨ RSim r r'

theorem errRet_sim (w w' : WS) (code : Nat) (st : Int) (k k' : Nat) (hst : st < 0) (hf : w.flags = w'.flags)
    (hr : w.rng = w'.rng) (hl : w.allocLimit = w'.allocLimit) : RSim (errRet w code st k) (errRet w' code st k') := by
  unfold errRet
  have := genClose_congr { w with validity := 0 } { w' with validity := 0 } code hf hr hl
  refine ⟨hst, rfl, ?_, ?_⟩
  · rw [this]
  · rw [this]

theorem merge_data {ws : WS} (h : Inv ws) (hv : ws.validity ≠ 0) (hs : ws.step = 17) (a b : List UInt8)
    (ha : a ≠ []) (hb : b ≠ []) (hlt : a.length < ws.payloadSize - ws.payloadIndex) :
    RSim (iter false ws a) (iter false ws (a ++ b)) ∨
    (∃ ws1, iter false ws a = .cont ws1 a.length ∧ Inv ws1 ∧ ws1.validity ≠ 0 ∧ sil ws1 = 0 ∧
      RSimEq (iter false ws (a ++ b)) (shiftR a.length (iter false ws1 b))) := by
  have hal : 1 ≤ a.length := by cases a with | nil => exact absurd rfl ha | cons _ _ => simp
  have hbl : 1 ≤ b.length := by cases b with | nil => exact absurd rfl hb | cons _ _ => simp
  have hab : a ++ b ≠ [] := by simp [ha]
  -- the trip on `a`
  have hka : a.length = min (ws.payloadSize - ws.payloadIndex) a.length := by omega
  obtain ⟨buf, bufA, hbuf, hwA, heA⟩ := (stepPayload_data_eq h hs a a.length hka).2 (by omega)
  rw [List.take_length] at hwA heA
  -- the trip on `a ++ b`
  generalize hkb : min (ws.payloadSize - ws.payloadIndex - a.length) b.length = kb
  have hkb1 : 1 ≤ kb := by omega
  have hkab : a.length + kb = min (ws.payloadSize - ws.payloadIndex) (a ++ b).length := by
    simp only [List.length_append]; omega
  obtain ⟨buf', bufAB, hbuf', hwAB, heAB⟩ := (stepPayload_data_eq h hs (a ++ b) (a.length + kb) hkab).2 (by omega)
  rw [hbuf] at hbuf'; injection hbuf' with hbuf'; subst hbuf'
  have htk : (a ++ b).take (a.length + kb) = a ++ b.take kb := by
    rw [List.take_append, List.take_of_length_le (by omega)]; congr 2; omega
  rw [htk, copyPayload_append] at hwAB heAB
  rw [iter_payload _ _ ha (Or.inl hs), iter_payload _ _ hab (Or.inl hs), heA, heAB]
  generalize hbA : copyPayload a ws.maskKey (ws.payloadIndex % 4) = bytesA at *
  generalize hbB : copyPayload (b.take kb) ws.maskKey ((ws.payloadIndex + a.length) % 4) = bytesB at *
  have hlA : bytesA.length = a.length := by rw [← hbA, copyPayload_length]
  have hfinA : ∀ w : WS, w.payloadSize = ws.payloadSize → w.payloadIndex = ws.payloadIndex + a.length →
      payloadFinish false a.length w = .cont w a.length := by
    intro w h1 h2; unfold payloadFinish; rw [if_neg (by omega)]
  have hsil : ∀ w : WS, w.step = ws.step → w.payloadSize = ws.payloadSize → w.payloadIndex = ws.payloadIndex + a.length →
      sil w = 0 := by
    intro w h0 h1 h2; unfold sil
    rw [if_neg (by omega), if_neg (by intro hh; have := hh.2; omega)]
  have hokA := iter_ok h hv a hal
  rw [iter_payload _ _ ha (Or.inl hs), heA] at hokA
  -- the buffer after both parts, written in two steps
  have hw2 := writeAt_append buf (ws.dataStart + ws.payloadIndex) bytesA bytesB bufA hwA
  rw [hwAB, hlA] at hw2
  by_cases hd : ws.dataType = 1
  · simp only [if_pos hd] at hokA ⊢
    rw [checkUtf8_append]
    cases hcA : checkUtf8 bytesA ws.dataUtf8 0 with
    | invalid o =>
      left
      simp only []
      exact errRet_sim _ _ _ _ _ _ (by omega) rfl rfl rfl
    | ok s =>
      right
      simp only [hcA] at hokA ⊢
      have hfA := hfinA ({ ws with dataBuf := some bufA, payloadIndex := ws.payloadIndex + a.length, dataUtf8 := s } : WS)
        rfl rfl
      rw [hfA] at hokA ⊢
      obtain ⟨hi1, hv1, _, _⟩ := hokA
      refine ⟨_, rfl, hi1, hv1, hsil _ rfl rfl rfl, ?_⟩
      obtain ⟨buf1, bufB, hbuf1, hwB, heB⟩ := (stepPayload_data_eq hi1 hs b kb
        (by show kb = min (ws.payloadSize - (ws.payloadIndex + a.length)) b.length; omega)).2 (by omega)
      injection hbuf1 with hbuf1; subst hbuf1
      simp only [hbB] at hwB heB
      have hbe : bufB = bufAB := by
        have : ws.dataStart + (ws.payloadIndex + a.length) = ws.dataStart + ws.payloadIndex + a.length := by omega
        rw [this, ← hw2] at hwB
        injection hwB with hwB; exact hwB.symm
      subst hbe
      have hs1 : ({ ws with dataBuf := some bufA, payloadIndex := ws.payloadIndex + a.length, dataUtf8 := s } : WS).step = 17 := hs
      rw [iter_payload _ b hb (Or.inl hs1), heB]
      simp only [if_pos hd, hlA]
      rw [checkUtf8_shift bytesB s (0 + a.length)]
      cases checkUtf8 bytesB s 0 with
      | invalid o2 =>
        right
        simp only []
        unfold errRet shiftR
        have := genClose_congr
          { ({ ws with dataBuf := some bufB, payloadIndex := ws.payloadIndex + (a.length + kb) } : WS) with validity := 0 }
          { ({ ws with dataUtf8 := s, dataBuf := some bufB, payloadIndex := ws.payloadIndex + a.length + kb } : WS) with validity := 0 }
          1007 rfl rfl rfl
        exact ⟨by omega, rfl, by rw [this], by rw [this]⟩
      | ok s2 =>
        left
        simp only []
        rw [← payloadFinish_shift, Nat.add_assoc]
  · right
    simp only [if_neg hd] at hokA ⊢
    have hfA := hfinA ({ ws with dataBuf := some bufA, payloadIndex := ws.payloadIndex + a.length } : WS) rfl rfl
    rw [hfA] at hokA ⊢
    obtain ⟨hi1, hv1, _, _⟩ := hokA
    refine ⟨_, rfl, hi1, hv1, hsil _ rfl rfl rfl, ?_⟩
    obtain ⟨buf1, bufB, hbuf1, hwB, heB⟩ := (stepPayload_data_eq hi1 hs b kb
      (by show kb = min (ws.payloadSize - (ws.payloadIndex + a.length)) b.length; omega)).2 (by omega)
    injection hbuf1 with hbuf1; subst hbuf1
    simp only [hbB] at hwB heB
    have hbe : bufB = bufAB := by
      have : ws.dataStart + (ws.payloadIndex + a.length) = ws.dataStart + ws.payloadIndex + a.length := by omega
      rw [this, ← hw2] at hwB
      injection hwB with hwB; exact hwB.symm
    subst hbe
    have hs1 : ({ ws with dataBuf := some bufA, payloadIndex := ws.payloadIndex + a.length } : WS).step = 17 := hs
    rw [iter_payload _ b hb (Or.inl hs1), heB]
    simp only [if_neg hd]
    left
    rw [← payloadFinish_shift, Nat.add_assoc]
end Mhd.WS
namespace Mhd.WS

theorem merge_ctrl {ws : WS} (h : Inv ws) (hv : ws.validity ≠ 0) (hs : ws.step = 18) (a b : List UInt8)
    (ha : a ≠ []) (hb : b ≠ []) (hlt : a.length < ws.payloadSize - ws.payloadIndex) :
    RSim (iter false ws a) (iter false ws (a ++ b)) ∨
    (∃ ws1, iter false ws a = .cont ws1 a.length ∧ Inv ws1 ∧ ws1.validity ≠ 0 ∧ sil ws1 = 0 ∧
      RSimEq (iter false ws (a ++ b)) (shiftR a.length (iter false ws1 b))) := by
  have hal : 1 ≤ a.length := by cases a with | nil => exact absurd rfl ha | cons _ _ => simp
  have hbl : 1 ≤ b.length := by cases b with | nil => exact absurd rfl hb | cons _ _ => simp
  have hab : a ++ b ≠ [] := by simp [ha]
  have hka : a.length = min (ws.payloadSize - ws.payloadIndex) a.length := by omega
  obtain ⟨h0, buf, bufA, hh0, hbuf, hwA, heA⟩ := (stepPayload_ctrl_eq h hs a a.length hka).2 (by omega)
  rw [List.take_length] at hwA heA
  generalize hkb : min (ws.payloadSize - ws.payloadIndex - a.length) b.length = kb
  have hkb1 : 1 ≤ kb := by omega
  have hkab : a.length + kb = min (ws.payloadSize - ws.payloadIndex) (a ++ b).length := by
    simp only [List.length_append]; omega
  obtain ⟨h0', buf', bufAB, hh0', hbuf', hwAB, heAB⟩ :=
    (stepPayload_ctrl_eq h hs (a ++ b) (a.length + kb) hkab).2 (by omega)
  rw [hh0] at hh0'; injection hh0' with hh0'; subst hh0'
  rw [hbuf] at hbuf'; injection hbuf' with hbuf'; subst hbuf'
  have htk : (a ++ b).take (a.length + kb) = a ++ b.take kb := by
    rw [List.take_append, List.take_of_length_le (by omega)]; congr 2; omega
  rw [htk, copyPayload_append] at hwAB heAB
  rw [iter_payload _ _ ha (Or.inr hs), iter_payload _ _ hab (Or.inr hs), heA, heAB]
  generalize hbA : copyPayload a ws.maskKey (ws.payloadIndex % 4) = bytesA at *
  generalize hbB : copyPayload (b.take kb) ws.maskKey ((ws.payloadIndex + a.length) % 4) = bytesB at *
  have hlA : bytesA.length = a.length := by rw [← hbA, copyPayload_length]
  have hfinA : ∀ w : WS, w.payloadSize = ws.payloadSize → w.payloadIndex = ws.payloadIndex + a.length →
      payloadFinish false a.length w = .cont w a.length := by
    intro w h1 h2; unfold payloadFinish; rw [if_neg (by omega)]
  have hsil : ∀ w : WS, w.step = ws.step → w.payloadSize = ws.payloadSize → w.payloadIndex = ws.payloadIndex + a.length →
      sil w = 0 := by
    intro w h0 h1 h2; unfold sil
    rw [if_neg (by omega), if_neg (by intro hh; have := hh.2; omega)]
  have hokA := iter_ok h hv a hal
  rw [iter_payload _ _ ha (Or.inr hs), heA] at hokA
  have hw2 := writeAt_append buf ws.payloadIndex bytesA bytesB bufA hwA
  rw [hwAB, hlA] at hw2
  -- the second trip, from the state after `a`, in closed form for any value of the register
  have second : ∀ (cu : Nat),
      Inv ({ ws with ctrlBuf := some bufA, payloadIndex := ws.payloadIndex + a.length, ctrlUtf8 := cu } : WS) →
      iter false ({ ws with ctrlBuf := some bufA, payloadIndex := ws.payloadIndex + a.length, ctrlUtf8 := cu } : WS) b =
        (if opcodeOf h0 = 8 ∧ 2 < ws.payloadIndex + a.length + kb then
          match checkUtf8 (bytesB.drop (2 - (ws.payloadIndex + a.length))) cu 0 with
          | .invalid o => errRet ({ ws with ctrlBuf := some bufAB, payloadIndex := ws.payloadIndex + a.length + kb, ctrlUtf8 := cu } : WS)
                            1007 (-6) (o + (2 - (ws.payloadIndex + a.length)))
          | .ok s => payloadFinish false kb ({ ws with ctrlBuf := some bufAB, payloadIndex := ws.payloadIndex + a.length + kb, ctrlUtf8 := s } : WS)
        else payloadFinish false kb ({ ws with ctrlBuf := some bufAB, payloadIndex := ws.payloadIndex + a.length + kb, ctrlUtf8 := cu } : WS)) := by
    intro cu hi1
    have hs1 : ({ ws with ctrlBuf := some bufA, payloadIndex := ws.payloadIndex + a.length, ctrlUtf8 := cu } : WS).step = 18 := hs
    obtain ⟨h0', buf1, bufB, hh0', hbuf1, hwB, heB⟩ := (stepPayload_ctrl_eq hi1 hs1 b kb
      (by show kb = min (ws.payloadSize - (ws.payloadIndex + a.length)) b.length; omega)).2 (by omega)
    have : ws.hdr[0]? = some h0' := hh0'
    rw [hh0] at this; injection this with this; subst this
    injection hbuf1 with hbuf1; subst hbuf1
    simp only [hbB] at hwB heB
    have hbe : bufB = bufAB := by
      rw [← hw2] at hwB
      injection hwB with hwB; exact hwB.symm
    subst hbe
    rw [iter_payload _ b hb (Or.inr hs1), heB]
    rfl
  have hassoc : ws.payloadIndex + (a.length + kb) = ws.payloadIndex + a.length + kb := by omega
  rw [hassoc]
  have simErr : ∀ (w w' : WS) (k k' n : Nat), w.flags = w'.flags → w.rng = w'.rng → w.allocLimit = w'.allocLimit →
      RSimEq (errRet w 1007 (-6) k) (shiftR n (errRet w' 1007 (-6) k')) := by
    intro w w' k k' n hf hr hl
    right
    unfold errRet shiftR
    have := genClose_congr { w with validity := 0 } { w' with validity := 0 } 1007 hf hr hl
    exact ⟨by omega, rfl, by rw [this], by rw [this]⟩
  by_cases hcA : opcodeOf h0 = 8 ∧ 2 < ws.payloadIndex + a.length
  · -- the first part already reaches into the reason text
    have hcAB : opcodeOf h0 = 8 ∧ 2 < ws.payloadIndex + a.length + kb := ⟨hcA.1, by omega⟩
    have hdrop : (bytesA ++ bytesB).drop (2 - ws.payloadIndex) = bytesA.drop (2 - ws.payloadIndex) ++ bytesB := by
      rw [List.drop_append_of_le_length (by omega)]
    simp only [if_pos hcA, if_pos hcAB, hdrop] at hokA ⊢
    rw [checkUtf8_append]
    cases hck : checkUtf8 (bytesA.drop (2 - ws.payloadIndex)) ws.ctrlUtf8 0 with
    | invalid o =>
      left
      simp only []
      exact errRet_sim _ _ _ _ _ _ (by omega) rfl rfl rfl
    | ok s =>
      right
      simp only [hck] at hokA ⊢
      have hfA := hfinA ({ ws with ctrlBuf := some bufA, payloadIndex := ws.payloadIndex + a.length, ctrlUtf8 := s } : WS)
        rfl rfl
      rw [hfA] at hokA ⊢
      obtain ⟨hi1, hv1, _, _⟩ := hokA
      refine ⟨_, rfl, hi1, hv1, hsil _ rfl rfl rfl, ?_⟩
      rw [second s hi1, if_pos hcAB]
      have h20 : 2 - (ws.payloadIndex + a.length) = 0 := by omega
      rw [h20, List.drop_zero, checkUtf8_shift bytesB s (0 + _)]
      cases checkUtf8 bytesB s 0 with
      | invalid o2 => simp only []; exact simErr _ _ _ _ _ rfl rfl rfl
      | ok s2 => left; simp only []; rw [← payloadFinish_shift]
  · -- the first part ends inside (or before the end of) the status code, or this is a ping/pong
    right
    simp only [if_neg hcA] at hokA ⊢
    have hfA := hfinA ({ ws with ctrlBuf := some bufA, payloadIndex := ws.payloadIndex + a.length } : WS) rfl rfl
    rw [hfA] at hokA ⊢
    obtain ⟨hi1, hv1, _, _⟩ := hokA
    refine ⟨_, rfl, hi1, hv1, hsil _ rfl rfl rfl, ?_⟩
    have hsec := second ws.ctrlUtf8 hi1
    rw [hsec]
    by_cases hcAB : opcodeOf h0 = 8 ∧ 2 < ws.payloadIndex + a.length + kb
    · have hle : ws.payloadIndex + a.length ≤ 2 := by
        have := hcAB.1; omega
      have hdrop : (bytesA ++ bytesB).drop (2 - ws.payloadIndex) = bytesB.drop (2 - (ws.payloadIndex + a.length)) := by
        rw [List.drop_append, List.drop_of_length_le (by omega), List.nil_append, hlA]
        congr 1; omega
      simp only [if_pos hcAB, hdrop]
      cases checkUtf8 (bytesB.drop (2 - (ws.payloadIndex + a.length))) ws.ctrlUtf8 0 with
      | invalid o2 => simp only []; exact simErr _ _ _ _ _ rfl rfl rfl
      | ok s2 => left; simp only []; rw [← payloadFinish_shift]
    · simp only [if_neg hcAB]
      left; rw [← payloadFinish_shift]
end Mhd.WS