/-
  C17 proofs: `MHD_str_remove_tokens_caseless_` = "filter the element list of the
  normalised string by the token list", for every normalised input and every token list.
-/
import Mhd.Proofs.StrRtTok

namespace Mhd.Str

/-! ### reference -/

/-- the tokens named by a token list: its trimmed, non-empty elements -/
def tokListOf (tokens : Bytes) : List Bytes := (tokensOf tokens).filter (fun t => !t.isEmpty)

/-- `e` survives: it equals none of the tokens (caselessly) -/
def keepAll (ts : List Bytes) (e : Bytes) : Bool := !ts.any (fun t => ceqBytes e t)

/-- the elements of a ", "-separated list (`[]` for the empty string) -/
def csElems (s : Bytes) : List Bytes :=
  if s = [] then [] else
  match splitComma s with
  | [] => []
  | p :: ps => p :: ps.map (List.drop 1)

/-- the documented precondition of `MHD_str_remove_tokens_caseless_`, as far as the function
    relies on it: the string is the ", "-join of non-empty, comma-free elements (decidable) -/
def isCsList (s : Bytes) : Bool := (csElems s).all elemOk && s == joinWith sepCS (csElems s)

def removeTokensOut (s tokens : Bytes) : Bytes := joinWith sepCS ((csElems s).filter (keepAll (tokListOf tokens)))
def removeTokensFlag (s tokens : Bytes) : Bool := (csElems s).any (fun e => !keepAll (tokListOf tokens) e)

theorem tokListOf_eq (r : Bytes) :
    tokListOf r = (if !(trimWs (headElem r)).isEmpty then [trimWs (headElem r)] else []) ++
      (match restElems r with
       | [] => []
       | _ :: r' => tokListOf r') := by
  unfold tokListOf tokensOf
  rw [splitComma_eq]
  cases restElems r <;> (simp only [List.map_cons, List.filter_cons]; split <;> simp)

theorem tokListOf_nil : tokListOf [] = [] := by
  rw [tokListOf_eq]; simp [headElem, restElems, trimWs, trimR]

theorem tokListOf_comma (r' : Bytes) : tokListOf (0x2c :: r') = tokListOf r' := by
  rw [tokListOf_eq]; simp [headElem, restElems, notComma, trimWs, trimR]

theorem tokListOf_rest (r : Bytes) :
    tokListOf r = (if !(trimWs (headElem r)).isEmpty then [trimWs (headElem r)] else []) ++ tokListOf (restElems r) := by
  rw [tokListOf_eq]
  rcases restElems_eq r with h0 | ⟨r', h1⟩
  · rw [h0, tokListOf_nil]
  · rw [h1, tokListOf_comma]

theorem tokListOf_skip (r : Bytes) : tokListOf r = tokListOf (r.dropWhile isWsComma) := by
  induction r with
  | nil => rfl
  | cons x t ih =>
    by_cases hx : isWsComma x = true
    · simp only [List.dropWhile, hx]
      rw [← ih]
      by_cases hc : x = 0x2c
      · subst hc; exact tokListOf_comma t
      · have hws : isWs x = true := by
          simp only [isWsComma, Bool.or_eq_true, beq_iff_eq] at hx
          simp only [isWs, Bool.or_eq_true, beq_iff_eq]
          rcases hx with (h1 | h1) | h1
          · exact Or.inl h1
          · exact Or.inr h1
          · exact absurd h1 hc
        rw [tokListOf_eq (x :: t), tokListOf_eq t, headElem_cons x t hc, restElems_cons x t hc,
          trimWs_cons_ws x _ hws]
    · simp only [Bool.not_eq_true] at hx
      simp [List.dropWhile, hx]

theorem keepAll_nil (e : Bytes) : keepAll [] e = true := rfl

theorem keepAll_cons (T : Bytes) (ts : List Bytes) (e : Bytes) :
    keepAll (T :: ts) e = (!ceqBytes e T && keepAll ts e) := by
  simp [keepAll, List.any_cons, Bool.not_or]

theorem filter_keepAll_cons (T : Bytes) (ts : List Bytes) (l : List Bytes) :
    l.filter (keepAll (T :: ts)) = (l.filter (fun x => !ceqBytes x T)).filter (keepAll ts) := by
  rw [List.filter_filter]
  congr 1; funext e; rw [keepAll_cons, Bool.and_comm]

theorem any_notKeep_cons (T : Bytes) (ts : List Bytes) (l : List Bytes) :
    l.any (fun e => !keepAll (T :: ts) e) =
      (l.any (fun x => ceqBytes x T) || (l.filter (fun x => !ceqBytes x T)).any (fun e => !keepAll ts e)) := by
  induction l with
  | nil => rfl
  | cons a t ih =>
    rw [List.any_cons, ih, List.any_cons, List.filter_cons, keepAll_cons]
    cases hc : ceqBytes a T <;> cases hk : keepAll ts a <;> simp [hk]

/-! ### list facts about joined elements -/

theorem mem_join_cases (l : List Bytes) (hne : ∀ x ∈ l, x ≠ []) (x : Bytes) (hx : x ∈ l) :
    l = [x] ∨ x.length + 3 ≤ (joinWith sepCS l).length := by
  cases l with
  | nil => simp at hx
  | cons a t =>
    cases t with
    | nil => left; simp at hx; rw [hx]
    | cons b t' =>
      right
      rw [joinWith_cons_cons]
      have hb : 0 < (joinWith sepCS (b :: t')).length :=
        List.length_pos_iff.mpr (joinWith_ne_nil _ _ _ (hne b (by simp)))
      have ha : 0 < a.length := List.length_pos_iff.mpr (hne a (by simp))
      simp only [List.length_append, List.length_cons, List.length_nil]
      rcases List.mem_cons.mp hx with h | h
      · rw [h]; omega
      · have := joinWith_length_mem sepCS (b :: t') x h; omega

theorem join_eq_nil (l : List Bytes) (hne : ∀ x ∈ l, x ≠ []) (h : joinWith sepCS l = []) : l = [] := by
  cases l with
  | nil => rfl
  | cons a t => exact absurd h (joinWith_ne_nil _ _ _ (hne a (by simp)))

theorem elems_length_le (l : List Bytes) (hne : ∀ x ∈ l, x ≠ []) : l.length ≤ (joinWith sepCS l).length := by
  induction l with
  | nil => simp
  | cons a t ih =>
    rw [joinWith_cons]
    have ha : 0 < a.length := List.length_pos_iff.mpr (hne a (by simp))
    have := ih (fun x hx => hne x (List.mem_cons_of_mem _ hx))
    by_cases ht : t = []
    · simp [ht]; omega
    · simp only [ht, if_false, List.length_append, List.length_cons]; omega

/-- no element of `l` matches a token whose length the list excludes -/
theorem no_match_of_len (l : List Bytes) (hne : ∀ x ∈ l, x ≠ []) (T : Bytes)
    (h1 : (joinWith sepCS l).length ≠ T.length) (h2 : (joinWith sepCS l).length ≤ T.length + 2) :
    l.filter (fun x => !ceqBytes x T) = l ∧ l.any (fun x => ceqBytes x T) = false := by
  have hall : ∀ x ∈ l, ceqBytes x T = false := by
    intro x hx
    cases hc : ceqBytes x T with
    | false => rfl
    | true =>
      exfalso
      have hl := listEq_length hc
      rcases mem_join_cases l hne x hx with h | h
      · rw [h] at h1; simp [joinWith] at h1; omega
      · omega
  constructor
  · apply List.filter_eq_self.mpr
    intro x hx; simp [hall x hx]
  · rw [List.any_eq_false]
    intro x hx; simp [hall x hx]

/-- the whole string against a token of the same length -/
theorem whole_match (l : List Bytes) (hok : ∀ x ∈ l, elemOk x = true) (T : Bytes) (hT : T ≠ []) (hTc : ∀ y ∈ T, y ≠ 0x2c)
    (hlen : (joinWith sepCS l).length = T.length) :
    l.filter (fun x => !ceqBytes x T) = (if ceqBytes (joinWith sepCS l) T then [] else l) ∧
    l.any (fun x => ceqBytes x T) = ceqBytes (joinWith sepCS l) T := by
  have hne : ∀ x ∈ l, x ≠ [] := fun x hx => ((elemOk_iff x).mp (hok x hx)).1
  cases l with
  | nil => simp [joinWith] at hlen; exact absurd (List.eq_nil_of_length_eq_zero hlen.symm) hT
  | cons a t =>
    cases t with
    | nil =>
      simp only [joinWith, List.filter_cons, List.any_cons]
      by_cases hc : ceqBytes a T = true
      · simp [hc]
      · simp only [Bool.not_eq_true] at hc; simp [hc]
    | cons b t' =>
      have hf : ceqBytes (joinWith sepCS (a :: b :: t')) T = false := by
        cases hc : ceqBytes (joinWith sepCS (a :: b :: t')) T with
        | false => rfl
        | true =>
          exfalso
          refine ceqBytes_commafree _ _ hc hTc 0x2c ?_ rfl
          rw [joinWith_cons_cons]; simp
      rw [hf]
      simp only [Bool.false_eq_true, if_false]
      have hall : ∀ x ∈ a :: b :: t', ceqBytes x T = false := by
        intro x hx
        cases hc : ceqBytes x T with
        | false => rfl
        | true =>
          exfalso
          have hl := listEq_length hc
          rcases mem_join_cases _ hne x hx with h | h
          · simp at h
          · omega
      constructor
      · apply List.filter_eq_self.mpr
        intro x hx; simp [hall x hx]
      · rw [List.any_eq_false]
        intro x hx; simp [hall x hx]


/-! ### the loop over the token list -/

def OInv (es : List Bytes) (tokens : Bytes) (N : Nat) (st : RtSt) : Prop :=
  ∃ cur : List Bytes, (∀ x ∈ cur, elemOk x = true) ∧ st.buf.take st.len = joinWith sepCS cur ∧
    st.len ≤ N ∧ st.buf.length = N ∧ st.pt ≤ tokens.length ∧
    es.filter (keepAll (tokListOf tokens)) = cur.filter (keepAll (tokListOf (tokens.drop st.pt))) ∧
    es.any (fun e => !keepAll (tokListOf tokens) e) =
      (st.removed || cur.any (fun e => !keepAll (tokListOf (tokens.drop st.pt)) e))

def OPost (es : List Bytes) (tokens : Bytes) (N : Nat) (r : Bool × Nat × Bytes) : Prop :=
  r.2.2.length = N ∧ r.2.1 ≤ N ∧ r.2.2.take r.2.1 = joinWith sepCS (es.filter (keepAll (tokListOf tokens))) ∧
  r.1 = es.any (fun e => !keepAll (tokListOf tokens) e)

theorem opost_of_done (es : List Bytes) (tokens : Bytes) (N : Nat) (st : RtSt) (hi : OInv es tokens N st)
    (h : tokListOf (tokens.drop st.pt) = [] ∨ st.len = 0) : OPost es tokens N (st.removed, st.len, st.buf) := by
  obtain ⟨cur, hcur, hbuf, hlen, hN, hpt, hf, ha⟩ := hi
  have hne : ∀ x ∈ cur, x ≠ [] := fun x hx => ((elemOk_iff x).mp (hcur x hx)).1
  refine ⟨hN, hlen, ?_, ?_⟩
  · simp only []
    rcases h with h | h
    · rw [hf, h, hbuf]; congr 1
      exact (List.filter_eq_self.mpr (fun x _ => rfl)).symm
    · have : cur = [] := join_eq_nil cur hne (by rw [← hbuf, h]; rfl)
      rw [hf, this, hbuf, this]; rfl
  · simp only []
    rcases h with h | h
    · rw [ha, h]; simp [keepAll]
    · have : cur = [] := join_eq_nil cur hne (by rw [← hbuf, h]; rfl)
      rw [ha, this]; simp

theorem oinv_next (es : List Bytes) (tokens : Bytes) (N : Nat) (st st' : RtSt) (cur : List Bytes) (T : Bytes) (ptE : Nat)
    (hcur : ∀ x ∈ cur, elemOk x = true)
    (hf : es.filter (keepAll (tokListOf tokens)) = cur.filter (keepAll (T :: tokListOf (tokens.drop ptE))))
    (ha : es.any (fun e => !keepAll (tokListOf tokens) e) =
      (st.removed || cur.any (fun e => !keepAll (T :: tokListOf (tokens.drop ptE)) e)))
    (hpt : st'.pt = ptE) (hptle : ptE ≤ tokens.length)
    (hbuf : st'.buf.take st'.len = joinWith sepCS (cur.filter (fun x => !ceqBytes x T)))
    (hlen : st'.len ≤ N) (hN : st'.buf.length = N)
    (hrem : st'.removed = (st.removed || cur.any (fun x => ceqBytes x T))) : OInv es tokens N st' := by
  refine ⟨cur.filter (fun x => !ceqBytes x T), fun x hx => hcur x (List.mem_filter.mp hx).1, hbuf, hlen, hN,
    by rw [hpt]; exact hptle, ?_, ?_⟩
  · rw [hpt, hf, filter_keepAll_cons]
  · rw [hpt, ha, any_notKeep_cons, hrem, Bool.or_assoc]

theorem rtOuter_step (es : List Bytes) (tokens : Bytes) (N : Nat) (st : RtSt) (hi : OInv es tokens N st) :
    (∃ s', rtOuterStep tokens st = .ok (.inl s') ∧ OInv es tokens N s' ∧ tokens.length - s'.pt < tokens.length - st.pt) ∨
    (∃ r, rtOuterStep tokens st = .ok (.inr r) ∧ OPost es tokens N r) := by
  have hi0 := hi
  obtain ⟨cur, hcur, hbuf, hlen, hN, hpt, hf, ha⟩ := hi
  have hne : ∀ x ∈ cur, x ≠ [] := fun x hx => ((elemOk_iff x).mp (hcur x hx)).1
  have hjl : (joinWith sepCS cur).length = st.len := by rw [← hbuf]; exact take_len _ _ (by omega)
  have hdrop0 : st.buf.drop 0 = joinWith sepCS cur ++ st.buf.drop st.len := by
    rw [← hbuf]; simp
  unfold rtOuterStep
  by_cases hgo : st.pt < tokens.length ∧ st.len ≠ 0
  · simp only [hgo, ne_eq, not_false_eq_true, and_self, if_true]
    obtain ⟨hs1, hs2, hs3⟩ := skipN_exact tokens isWsComma st.pt hpt
    have hskip : tokListOf (tokens.drop st.pt) = tokListOf (tokens.drop (st.pt + ((tokens.drop st.pt).takeWhile isWsComma).length)) := by
      rw [hs2]; exact tokListOf_skip _
    have hhead0 := dropWhile_head_not isWsComma (tokens.drop st.pt)
    rw [← hs2] at hhead0
    rw [hskip] at hf ha
    have hge : st.pt ≤ st.pt + ((tokens.drop st.pt).takeWhile isWsComma).length := by omega
    generalize st.pt + ((tokens.drop st.pt).takeWhile isWsComma).length = pt1 at *
    simp only [hs1, bind_ok']
    by_cases hend : pt1 ≥ tokens.length
    · right
      simp only [hend, if_true, pure_eq_ok]
      refine ⟨_, rfl, opost_of_done es tokens N st hi0 (Or.inl ?_)⟩
      rw [hskip, List.drop_eq_nil_of_le hend, tokListOf_nil]
    · left
      simp only [hend, if_false]
      obtain ⟨x, R', hd, hx⟩ : ∃ x R', tokens.drop pt1 = x :: R' ∧ isWsComma x = false := by
        rcases hhead0 with h | ⟨z, b', h, hz⟩
        · exfalso; have := congrArg List.length h; simp at this; omega
        · exact ⟨z, b', h, hz⟩
      obtain ⟨ptE, tl, jt, hit, hTd, hTl, hTne, hTc, hrest, hlt, hle⟩ := rtTokenEnd_spec tokens pt1 x R' hd hx
      have htl : tokListOf (tokens.drop pt1) = trimWs (headElem (tokens.drop pt1)) :: tokListOf (tokens.drop ptE) := by
        rw [tokListOf_rest, hrest]
        have : (trimWs (headElem (tokens.drop pt1))).isEmpty = false := by
          cases h : trimWs (headElem (tokens.drop pt1)) with
          | nil => exact absurd h hTne
          | cons _ _ => rfl
        simp [this]
      rw [htl] at hf ha
      generalize trimWs (headElem (tokens.drop pt1)) = T at *
      simp only [hit, bind_ok']
      by_cases h1 : st.len = tl
      · subst h1
        have hE := equalCaselessBinAt_spec st.buf 0 tokens pt1 st.len (joinWith sepCS cur) T _ jt hdrop0 hTd (by omega) hTl
        obtain ⟨w1, w2⟩ := whole_match cur hcur T hTne hTc (by omega)
        simp only [↓reduceIte, hE, bind_ok']
        by_cases hc : ceqBytes (joinWith sepCS cur) T = true
        · simp only [hc, if_true, pure_eq_ok]
          refine ⟨_, rfl, oinv_next es tokens N st _ cur T ptE hcur hf ha rfl hle ?_ (by simp) hN ?_, by simp only []; omega⟩
          · simp only []; rw [w1, hc]; simp [joinWith]
          · simp only []; rw [w2, hc]; simp
        · simp only [Bool.not_eq_true] at hc
          simp only [hc, Bool.false_eq_true, if_false, pure_eq_ok]
          refine ⟨_, rfl, oinv_next es tokens N st _ cur T ptE hcur hf ha rfl hle ?_ hlen hN ?_, by simp only []; omega⟩
          · simp only []; rw [w1, hc]; simpa using hbuf
          · simp only []; rw [w2, hc]; simp
      · simp only [h1, if_false]
        by_cases h2 : st.len > tl + 2
        · simp only [h2, if_true]
          obtain ⟨e, rest, hcr⟩ : ∃ e rest, cur = e :: rest := by
            cases cur with
            | nil => simp [joinWith] at hjl; omega
            | cons e rest => exact ⟨e, rest, rfl⟩
          have hfuel := elems_length_le cur hne
          subst hcr
          obtain ⟨len', buf', hr, r1, r2, r3⟩ := rtInner_go tokens pt1 tl st.len N T jt (st.buf.drop st.len) hTd hTl hTc
            rest e [] ⟨0, 0, st.buf, st.removed⟩ (st.len + 1) hcur hdrop0 (by simp only []; omega) (by simp only []; omega) hN
            (by simp [joinWith]) (by simp) (by simp) (by simp) (by simp) (by simp at hfuel; omega)
          simp only [] at hr
          simp only [hr, bind_ok', pure_eq_ok]
          refine ⟨_, rfl, oinv_next es tokens N st _ (e :: rest) T ptE hcur hf ha rfl hle ?_ (by simp only []; omega) r1 rfl,
            by simp only []; omega⟩
          simpa using r3
        · simp only [h2, if_false, pure_eq_ok]
          obtain ⟨w1, w2⟩ := no_match_of_len cur hne T (by omega) (by omega)
          refine ⟨_, rfl, oinv_next es tokens N st _ cur T ptE hcur hf ha rfl hle ?_ hlen hN ?_, by simp only []; omega⟩
          · simp only []; rw [w1]; exact hbuf
          · simp only []; rw [w2]; simp
  · right
    simp only [hgo, if_false, pure_eq_ok]
    refine ⟨_, rfl, opost_of_done es tokens N st hi0 ?_⟩
    by_cases h : st.len = 0
    · exact Or.inr h
    · left
      have : ¬ st.pt < tokens.length := fun h' => hgo ⟨h', h⟩
      rw [List.drop_eq_nil_of_le (by omega), tokListOf_nil]

/-- `MHD_str_remove_tokens_caseless_ (str, &str_len, tokens, tokens_len)` on a normalised string:
    the elements that equal none of the tokens, in order, joined with ", "; the flag says whether
    an element was removed; the string does not grow; no fault. -/
theorem removeTokensCaseless_spec (str tokens : Bytes) (hn : isCsList str = true) :
    ∃ buf, removeTokensCaseless str tokens =
        .ok (removeTokensFlag str tokens, (removeTokensOut str tokens).length, buf) ∧
      buf.length = str.length ∧ (removeTokensOut str tokens).length ≤ str.length ∧
      buf.take (removeTokensOut str tokens).length = removeTokensOut str tokens := by
  unfold isCsList at hn
  simp only [Bool.and_eq_true, List.all_eq_true, beq_iff_eq] at hn
  obtain ⟨hok, hjoin⟩ := hn
  unfold removeTokensCaseless
  obtain ⟨⟨fl, len, buf⟩, hr, q1, q2, q3, q4⟩ := iter_spec (rtOuterStep tokens) (OInv (csElems str) tokens str.length)
    (fun st => tokens.length - st.pt) (OPost (csElems str) tokens str.length) (rtOuter_step (csElems str) tokens str.length)
    (tokens.length + 1) ⟨0, str.length, str, false⟩
    ⟨csElems str, hok, by simpa using hjoin, by simp, rfl, by simp, by simp, by simp⟩ (by simp)
  simp only [] at q1 q2 q3 q4
  have hl : (removeTokensOut str tokens).length = len := by
    unfold removeTokensOut; rw [← q3]; exact take_len _ _ (by omega)
  refine ⟨buf, ?_, q1, by omega, ?_⟩
  · rw [hr, hl, q4]; rfl
  · rw [hl, q3]; rfl

end Mhd.Str
