/-
  C06 — proofs, part 8: the wait class computed by the C05 connection state-machine model (Mhd.Model.ConnSM, imported
  read-only) agrees with the state → wait-class table regenerated for C06.
-/
import Mhd.Model.ConnSM
import Mhd.Gen.Loop
namespace Mhd.Loop
open Mhd.Gen.Loop

/-- the numeric code of the C05 model's wait class -/
def connsmEliCode : Mhd.ConnSM.ELI → Nat
  | .read => eliRead | .write => eliWrite | .process => eliProcess | .processRead => eliProcessRead | .cleanup => eliCleanup

/-- The wait class the C05 state-machine model (Mhd.Model.ConnSM.eventLoopInfo, written by hand from
    MHD_connection_update_event_loop_info) computes agrees with the state → wait-class table C06 regenerates from the
    source text, for every connection state and every value of the other fields. -/
theorem connsm_eli_in_table {σ : Type} (c : Mhd.ConnSM.Conn σ) :
    (c.state.toNat ∈ writeStates → connsmEliCode (Mhd.ConnSM.eventLoopInfo c) = eliWrite) ∧
    (c.state.toNat ∈ processStates → connsmEliCode (Mhd.ConnSM.eventLoopInfo c) = eliProcess) ∧
    (c.state.toNat ∈ readStates → connsmEliCode (Mhd.ConnSM.eventLoopInfo c) = eliRead) ∧
    (c.state.toNat = stClosed → connsmEliCode (Mhd.ConnSM.eventLoopInfo c) = eliCleanup) := by
  unfold Mhd.ConnSM.eventLoopInfo
  cases h : c.state <;> refine ⟨?_, ?_, ?_, ?_⟩ <;> intro hm <;> simp only [] <;>
    first | rfl | (exfalso; revert hm; simp only [Mhd.Gen.ConnState.CState.toNat]; decide)

end Mhd.Loop
