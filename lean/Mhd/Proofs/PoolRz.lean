/-
  Helper lemmas for the red-zone-parameterised pool model `Mhd.Model.PoolRz`:
  length of the poison list, the rounding `roundRz`, the wrap test `tooBig`,
  and the pool-level agreement with the old model (`Mhd.Model.Pool`) at `rz = 0`.
-/
import Mhd.Model.PoolRzOps
import Mhd.Proofs.PoolInv

set_option linter.unusedSimpArgs false
namespace Mhd.PoolRz
open Mhd.Pool (W A roundUp zeroRange writeAt readAt Blk Op Disjoint W_eq)

/-! ### lengths (unconditional: the list operations clip at the end of the list) -/

@[simp] theorem setPsn_length (m : List Bool) (off n : Nat) (b : Bool) :
    (setPsn m off n b).length = m.length := by
  simp [setPsn]; omega

theorem zeroRange_length' (m : List UInt8) (off n : Nat) : (zeroRange m off n).length = m.length := by
  simp [zeroRange]; omega

theorem writeAt_length' (m : List UInt8) (off : Nat) (bs : List UInt8) :
    (writeAt m off bs).length = m.length := by
  simp [writeAt]; omega

/-! ### rounding with red zone -/

/-- under a sound wrap test a size that passes the test is rounded without wrapping -/
theorem roundRz_facts (v : Var) (hv : v.rz = 0 ∨ v.rz = A) (hs : v.chk = true ∨ v.rz = 0)
    (n : Nat) (hn : n < W) (ht : tooBig v n (roundRz v n) = false) :
    n ≤ roundUp n ∧ roundUp n + v.rz < W ∧ roundRz v n = roundUp n + v.rz ∧ roundUp n % A = 0 := by
  have ht' : (v.chk = true → ¬ roundRz v n < n) ∧ (v.chk = false → ¬ (roundRz v n = 0 ∧ n ≠ 0)) := by
    unfold tooBig at ht
    cases hc : v.chk <;> simp only [hc, Bool.false_eq_true, if_false, if_true, decide_eq_false_iff_not] at ht
    · exact ⟨fun h => Bool.noConfusion h, fun _ => ht⟩
    · exact ⟨fun _ => ht, fun h => Bool.noConfusion h⟩
  have hs' : v.chk = false → v.rz = 0 := by
    intro hc; rcases hs with hs | hs
    · rw [hc] at hs; cases hs
    · exact hs
  clear ht
  cases hc : v.chk
  · have h0 := hs' hc
    have h1 := ht'.2 hc
    simp only [roundRz, roundUp, W_eq, A, Mhd.Gen.Pool.alignSize, h0] at *
    omega
  · have h1 := ht'.1 hc
    simp only [roundRz, roundUp, W_eq, A, Mhd.Gen.Pool.alignSize] at *
    omega

/-- small arguments (everything inside an arena is `< 2^62`) never wrap -/
theorem roundRz_small (v : Var) (hv : v.rz = 0 ∨ v.rz = A) (x : Nat) (hx : x < 2 ^ 63) :
    roundRz v (x % W) = roundUp x + v.rz ∧ x ≤ roundUp x ∧ roundUp x < x + A ∧ roundUp x % A = 0 ∧
    roundRz v x = roundUp x + v.rz := by
  simp only [roundRz, roundUp, W_eq, A, Mhd.Gen.Pool.alignSize] at *
  omega

/-- for `size_t` arguments the two forms of the wrap test agree in the ordinary build -/
theorem tooBig_rz0 (chk : Bool) (n : Nat) (hn : n < W) :
    tooBig ⟨0, chk⟩ n (roundRz ⟨0, chk⟩ n) = decide (roundUp n = 0 ∧ n ≠ 0) := by
  have key : (roundUp n + 0) % W < n ↔ (roundUp n = 0 ∧ n ≠ 0) := by
    simp only [roundUp, W_eq, A, Mhd.Gen.Pool.alignSize] at *
    omega
  have key2 : ((roundUp n + 0) % W = 0 ∧ n ≠ 0) ↔ (roundUp n = 0 ∧ n ≠ 0) := by
    simp only [roundUp, W_eq, A, Mhd.Gen.Pool.alignSize] at *
    omega
  unfold tooBig roundRz
  cases chk
  · simp only [Bool.false_eq_true, if_false]; exact decide_eq_decide.mpr key2
  · simp only [if_true]; exact decide_eq_decide.mpr key

theorem roundRz_rz0 (chk : Bool) (n : Nat) : roundRz ⟨0, chk⟩ n = roundUp n := by
  simp only [roundRz, roundUp, W_eq, A, Mhd.Gen.Pool.alignSize] at *
  omega

theorem tooBig_rz0' (chk : Bool) (n : Nat) (hn : n < W) :
    tooBig ⟨0, chk⟩ n (roundUp n) = decide (roundUp n = 0 ∧ n ≠ 0) := by
  have h := tooBig_rz0 chk n hn
  rw [roundRz_rz0] at h; exact h

/-! ### agreement with the old model (`Mhd.Model.Pool`) in the ordinary build, pool level -/

/-- forget the poison list -/
def erase (p : Pool) : Mhd.Pool.Pool := ⟨p.size, p.pos, p.end_, p.mem⟩

theorem erase_create (n : Nat) : erase (create n) = Mhd.Pool.create n := rfl

theorem erase_getFree (chk : Bool) (p : Pool) : getFree ⟨0, chk⟩ p = Mhd.Pool.getFree (erase p) := by
  simp [getFree, Mhd.Pool.getFree, erase]

theorem erase_isResizableInplace (chk : Bool) (p : Pool) (b : Option Nat) (n : Nat) :
    isResizableInplace ⟨0, chk⟩ p b n = Mhd.Pool.isResizableInplace (erase p) b n := by
  cases b <;> simp [isResizableInplace, Mhd.Pool.isResizableInplace, erase, roundRz_rz0]

theorem erase_allocate (chk : Bool) (p : Pool) (n : Nat) (fe : Bool) (hn : n < W) :
    (erase (allocate ⟨0, chk⟩ p n fe).1, (allocate ⟨0, chk⟩ p n fe).2) = Mhd.Pool.allocate (erase p) n fe := by
  unfold allocate Mhd.Pool.allocate
  simp only [roundRz_rz0, tooBig_rz0' _ _ hn]
  by_cases h1 : roundUp n = 0 ∧ n ≠ 0
  · simp [h1, erase]
  · by_cases h2 : roundUp n > p.end_ - p.pos
    · simp [h1, h2, erase]
    · cases fe <;> simp [h1, h2, erase]

theorem erase_tryAlloc (chk : Bool) (p : Pool) (n : Nat) (hn : n < W) :
    (erase (tryAlloc ⟨0, chk⟩ p n).1, (tryAlloc ⟨0, chk⟩ p n).2) = Mhd.Pool.tryAlloc (erase p) n := by
  unfold tryAlloc Mhd.Pool.tryAlloc
  simp only [roundRz_rz0, tooBig_rz0' _ _ hn]
  by_cases h1 : roundUp n = 0 ∧ n ≠ 0
  · simp [h1, erase]
  · by_cases h2 : roundUp n > p.end_ - p.pos
    · by_cases h3 : roundUp n ≤ p.end_ <;> simp [h1, h2, h3, erase]
    · simp [h1, h2, erase]

theorem erase_reallocate (chk : Bool) (p : Pool) (old : Option Nat) (os n : Nat) (hn : n < W) :
    (erase (reallocate ⟨0, chk⟩ p old os n).1, (reallocate ⟨0, chk⟩ p old os n).2)
      = Mhd.Pool.reallocate (erase p) old os n := by
  unfold reallocate Mhd.Pool.reallocate reallocFresh shrinkHead
  simp only [roundRz_rz0, tooBig_rz0' _ _ hn]
  cases old with
  | none =>
    by_cases hf : (roundUp n = 0 ∧ n ≠ 0) ∨ roundUp n > p.end_ - p.pos <;> simp [hf, erase]
  | some o =>
    by_cases hs : os > n
    · by_cases hl : p.pos = roundUp ((o + os) % W)
      · simp [hs, hl, erase]
      · simp [hs, hl, erase]
    · have hs' : os ≤ n := by omega
      by_cases hl : p.pos = roundUp ((o + os) % W)
      · by_cases hg : (roundUp ((o + n) % W) > p.end_ ∨ roundUp ((o + n) % W) < p.pos ∨ n > (p.end_ + W - o) % W)
        · have hg' := hg; rw [hl] at hg'
          simp [hs, hl, hs', erase, hg']
        · have hg' := hg; rw [hl] at hg'
          simp [hs, hl, hs', erase, hg']
      · by_cases hf : (roundUp n = 0 ∧ n ≠ 0) ∨ roundUp n > p.end_ - p.pos
        · simp [hs, hl, hf, hs', erase]
        · by_cases ho : os = 0
          · subst ho; simp only [Nat.add_zero] at hl; simp [hl, hf, erase]
          · simp [hs, hl, hf, hs', ho, erase]

theorem erase_deallocate (chk : Bool) (p : Pool) (b : Option Nat) (n : Nat) :
    erase (deallocate ⟨0, chk⟩ p b n) = Mhd.Pool.deallocate (erase p) b n := by
  unfold deallocate Mhd.Pool.deallocate deallocFront
  simp only [roundRz_rz0]
  cases b with
  | none => rfl
  | some off =>
    by_cases hz : n = 0
    · simp [hz, erase]
    · by_cases hle : off ≤ p.pos
      · by_cases hlast : roundUp ((off + n) % W) = p.pos <;> simp [hz, hle, hlast, erase]
      · by_cases hlast : off = p.end_
        · subst hlast; simp [hz, hle, erase]
        · simp [hz, hle, hlast, erase]

theorem erase_resetMove (p : Pool) (keep : Option Nat) (copy : Nat) :
    resetMove p.mem keep copy = Mhd.Pool.resetMove (erase p) keep copy := by
  cases keep <;> rfl

theorem erase_reset (chk : Bool) (p : Pool) (keep : Option Nat) (copy n : Nat) :
    erase (reset ⟨0, chk⟩ p keep copy n) = Mhd.Pool.reset (erase p) keep copy n := by
  unfold reset Mhd.Pool.reset
  rw [roundRz_rz0, erase_resetMove]
  rfl

end Mhd.PoolRz
