/-
  C19 helper lemmas, part 3: decode_payload_complete and the payload case of the decoder
  keep the invariant, never fault, and make progress.
-/
import Mhd.Proofs.WSInv
namespace Mhd.WS

theorem givenUtf8_bounds (s : Nat) (h1 : s ≠ 0) (h2 : s ≤ 10) : 1 ≤ givenUtf8 s ∧ givenUtf8 s ≤ 3 := by
  have : s = 1 ∨ s = 2 ∨ s = 3 ∨ s = 4 ∨ s = 5 ∨ s = 6 ∨ s = 7 ∨ s = 8 ∨ s = 9 ∨ s = 10 := by omega
  rcases this with h | h | h | h | h | h | h | h | h | h <;> subst h <;> simp [givenUtf8]

/-- a state at a frame boundary built from `ws` -/
theorem Inv.toStart {ws : WS} (h : Inv ws) (hs : ws.step = 17 ∨ ws.step = 18)
    (dbuf : Option (List UInt8)) (cbuf : Option (List UInt8)) (dstart dsize dtype : Nat)
    (hb : match dbuf with
          | none => dsize = 0
          | some b => b.length = dsize + 1)
    (hds : dsize < 2 ^ 63)
    (hu : dtype ≠ 1 → ws.dataUtf8 = 0) (hc : dtype = 1 → givenUtf8 ws.dataUtf8 ≤ dsize) :
    Inv { ws with dataBuf := dbuf, ctrlBuf := cbuf, dataStart := dstart, dataSize := dsize, dataType := dtype,
                  step := 0, payloadIndex := 0, hdrSize := 0 } := by
  exact { h with
    stepOk := by simp
    hsU := by simp
    hsS := by intro _; simp
    hsL := by intro h1 h2; simp only [] at h1 h2; omega
    hs1 := by intro h1 h2; simp only [] at h1 h2; omega
    h0 := by intro h1 h2; simp only [] at h1 h2; omega
    h0c := by intro h1; simp only [] at h1; omega
    h0n := by intro h1 h2; simp only [] at h1 h2; omega
    idx := by simp
    idx0 := fun _ => rfl
    dsz := hds
    dbuf := hb
    dst := by intro h1; simp only [] at h1; omega
    cbuf := by intro h1; simp only [] at h1; omega
    u8a := hu
    carry := by intro hd; have := hc hd; simpa using this }

theorem payloadComplete_ok {ws : WS} (h : Inv ws) (hv : ws.validity ≠ 0) (hs : ws.step = 17 ∨ ws.step = 18)
    (he : ws.payloadSize = ws.payloadIndex) :
    R.HC (fun ws' => ws'.step = 0) (payloadComplete false ws) := by
  unfold payloadComplete
  obtain ⟨h0, hh0, hok⟩ := h.h0 (by omega) (by omega)
  have hdb := h.dbuf
  have hcarry := h.carry
  simp only [hh0, Bool.false_eq_true, not_false_eq_true, true_and]
  split
  · -- fin
    split
    · rename_i hfin h17
      split
      · exact HC_err _ _ _ _
      · rename_i hnu
        refine ⟨fun _ => h.toStart hs none ws.ctrlBuf 0 0 0 rfl (by omega) ?_ (by omega), rfl, ?_⟩
        · intro _
          by_cases hd : ws.dataType = 1
          · simp only [hd, true_and, ne_eq, Decidable.not_not] at hnu; exact hnu
          · exact h.u8a hd
        · show PlOK ws.dataBuf ws.dataSize
          unfold PlOK; split <;> simp_all
    · rename_i hfin h17
      have h18 : ws.step = 18 := by omega
      have hcb := h.cbuf h18
      split
      · exact HC_err _ _ _ _
      · refine ⟨fun _ => ?_, rfl, ?_⟩
        · have := h.toStart hs ws.dataBuf none ws.dataStart ws.dataSize ws.dataType hdb h.dsz h.u8a
            (by intro hd; have := hcarry hd; rw [if_neg (by omega)] at this; exact this)
          exact this
        · show PlOK ws.ctrlBuf ws.payloadSize
          unfold PlOK; split <;> simp_all
  · -- not fin: a data frame (control frames are never fragmented)
    rename_i hfin
    have h17 : ws.step = 17 := by
      rcases hs with h17 | h18
      · exact h17
      · have := h.h0c h18 h0 hh0
        have := hok.2 this
        simp_all
    have hdst := h.dst h17
    have hcar : ws.dataType = 1 → givenUtf8 ws.dataUtf8 ≤ ws.dataSize := by
      intro hd; have := hcarry hd; rw [if_pos h17] at this; omega
    split
    · -- the application wants fragments
      split
      · rename_i htxt
        obtain ⟨hd1, hu⟩ := htxt
        obtain ⟨hg1, hg3⟩ := givenUtf8_bounds ws.dataUtf8 hu h.u8b
        have hgd := hcar hd1
        have hdsz := h.dsz
        have hnl : (ws.dataSize + W - givenUtf8 ws.dataUtf8) % W = ws.dataSize - givenUtf8 ws.dataUtf8 := by
          rw [W_eq]; omega
        simp only [hnl]
        split
        · rename_i hne
          split
          · exact ⟨fun _ => h, rfl, rfl⟩
          · rename_i nx hnx
            obtain ⟨hnxl, _⟩ := alloc_length _ _ _ hnx
            split
            · rename_i hnone
              rw [hnone] at hdb; simp only [] at hdb; omega
            · rename_i buf hbuf
              rw [hbuf] at hdb; simp only [] at hdb
              rw [if_neg (by omega)]
              have hsl : ((buf.drop (ws.dataStart + ws.payloadIndex - givenUtf8 ws.dataUtf8)).take (givenUtf8 ws.dataUtf8)).length
                  = givenUtf8 ws.dataUtf8 := by
                simp only [List.length_take, List.length_drop]; omega
              obtain ⟨nx', hnx'⟩ := writeAt_some nx 0 _ (by rw [hsl]; omega)
              obtain ⟨buf', hbuf'⟩ := termAt_some buf (ws.dataSize - givenUtf8 ws.dataUtf8) (by omega)
              have hl1 := writeAt_length _ _ _ _ hnx'
              have hl2 := termAt_length _ _ _ hbuf'
              simp only [hnx', hbuf']
              refine ⟨fun _ => ?_, rfl, ?_⟩
              · exact h.toStart hs (some nx') ws.ctrlBuf ws.dataStart (givenUtf8 ws.dataUtf8) ws.dataType
                  (by simp only []; omega) (by omega) h.u8a (fun _ => Nat.le_refl _)
              · show _ < _; omega
        · refine ⟨fun _ => ?_, rfl, rfl⟩
          exact h.toStart hs ws.dataBuf ws.ctrlBuf ws.dataStart ws.dataSize ws.dataType hdb h.dsz h.u8a hcar
      · rename_i hntxt
        refine ⟨fun _ => ?_, rfl, ?_⟩
        · refine h.toStart hs none ws.ctrlBuf 0 0 ws.dataType rfl (by omega) h.u8a ?_
          intro hd
          have : ws.dataUtf8 = 0 := by
            simp only [hd, true_and, ne_eq, Decidable.not_not] at hntxt; exact hntxt
          simp [this, givenUtf8]
        · show PlOK ws.dataBuf ws.dataSize
          unfold PlOK; split <;> simp_all
    · refine ⟨?_, hv, rfl⟩
      exact h.toStart hs ws.dataBuf ws.ctrlBuf ws.dataStart ws.dataSize ws.dataType hdb h.dsz h.u8a hcar
end Mhd.WS