/-
  C19 helper lemmas, part 3: decode_payload_complete and the payload case of the decoder
  keep the invariant, never fault, and make progress.
-/
import Mhd.Proofs.WSInv
namespace Mhd.WS

theorem givenUtf8_bounds (s : Nat) (h1 : s ≠ 0) (h2 : s ≤ 10) : 1 ≤ givenUtf8 s ∧ givenUtf8 s ≤ 3 := by
  have : s = 1 ∨ s = 2 ∨ s = 3 ∨ s = 4 ∨ s = 5 ∨ s = 6 ∨ s = 7 ∨ s = 8 ∨ s = 9 ∨ s = 10 := by omega
  rcases this with h | h | h | h | h | h | h | h | h | h <;> subst h <;> simp [givenUtf8]

/-- a state at a frame boundary built from `ws` -/
theorem Inv.toStart {ws : WS} (h : Inv ws) (_hs : ws.step = 17 ∨ ws.step = 18)
    (dbuf : Option (List UInt8)) (cbuf : Option (List UInt8)) (dstart dsize dtype : Nat)
    (hb : match dbuf with
          | none => dsize = 0
          | some b => b.length = dsize + 1)
    (hds : dsize < 2 ^ 63)
    (hu : dtype ≠ 1 → ws.dataUtf8 = 0) (hc : dtype = 1 → givenUtf8 ws.dataUtf8 ≤ dsize) :
    Inv { ws with dataBuf := dbuf, ctrlBuf := cbuf, dataStart := dstart, dataSize := dsize, dataType := dtype,
                  step := 0, payloadIndex := 0, hdrSize := 0 } := by
  exact { h with
    stepOk := by simp
    hsU := by simp
    hsS := by intro _; simp
    hsL := by intro h1 h2; simp only [] at h1 h2; omega
    hs1 := by intro h1 h2; simp only [] at h1 h2; omega
    h0 := by intro h1 h2; simp only [] at h1 h2; omega
    h0c := by intro h1; simp only [] at h1; omega
    h0n := by intro h1 h2; simp only [] at h1 h2; omega
    idx := by simp
    idx0 := fun _ => rfl
    dsz := hds
    dbuf := hb
    dst := by intro h1; simp only [] at h1; omega
    cbuf := by intro h1; simp only [] at h1; omega
    u8a := hu
    carry := by intro hd; have := hc hd; simpa using this }

theorem payloadComplete_ok {ws : WS} (h : Inv ws) (hv : ws.validity ≠ 0) (hs : ws.step = 17 ∨ ws.step = 18)
    (he : ws.payloadSize = ws.payloadIndex) :
    R.HC (fun ws' => ws'.step = 0) (payloadComplete false ws) := by
  unfold payloadComplete
  obtain ⟨h0, hh0, hok⟩ := h.h0 (by omega) (by omega)
  have hdb := h.dbuf
  have hcarry := h.carry
  simp only [hh0, Bool.false_eq_true, not_false_eq_true, true_and]
  split
  · -- fin
    split
    · rename_i hfin h17
      split
      · exact HC_err _ _ _ _
      · rename_i hnu
        refine ⟨fun _ => h.toStart hs none ws.ctrlBuf 0 0 0 rfl (by omega) ?_ (by omega), rfl, ?_, fun _ => ⟨rfl, hv⟩⟩
        · intro _
          by_cases hd : ws.dataType = 1
          · simp only [hd, true_and, ne_eq, Decidable.not_not] at hnu; exact hnu
          · exact h.u8a hd
        · show PlOK ws.dataBuf ws.dataSize
          unfold PlOK; split <;> simp_all
    · rename_i hfin h17
      have h18 : ws.step = 18 := by omega
      have hcb := h.cbuf h18
      split
      · exact HC_err _ _ _ _
      · refine ⟨fun _ => ?_, rfl, ?_, fun _ => ⟨rfl, hv⟩⟩
        · have := h.toStart hs ws.dataBuf none ws.dataStart ws.dataSize ws.dataType hdb h.dsz h.u8a
            (by intro hd; have := hcarry hd; rw [if_neg (by omega)] at this; exact this)
          exact this
        · show PlOK ws.ctrlBuf ws.payloadSize
          unfold PlOK; split <;> simp_all
  · -- not fin: a data frame (control frames are never fragmented)
    rename_i hfin
    have h17 : ws.step = 17 := by
      rcases hs with h17 | h18
      · exact h17
      · have := h.h0c h18 h0 hh0
        have := hok.2 this
        simp_all
    have hdst := h.dst h17
    have hcar : ws.dataType = 1 → givenUtf8 ws.dataUtf8 ≤ ws.dataSize := by
      intro hd; have := hcarry hd; rw [if_pos h17] at this; omega
    split
    · -- the application wants fragments
      split
      · rename_i htxt
        obtain ⟨hd1, hu⟩ := htxt
        obtain ⟨hg1, hg3⟩ := givenUtf8_bounds ws.dataUtf8 hu h.u8b
        have hgd := hcar hd1
        have hdsz := h.dsz
        have hnl : (ws.dataSize + W - givenUtf8 ws.dataUtf8) % W = ws.dataSize - givenUtf8 ws.dataUtf8 := by
          rw [W_eq]; omega
        simp only [hnl]
        split
        · rename_i hne
          split
          · exact ⟨fun _ => h, rfl, rfl, fun h => by omega⟩
          · rename_i nx hnx
            obtain ⟨hnxl, _⟩ := alloc_length _ _ _ hnx
            split
            · rename_i hnone
              rw [hnone] at hdb; simp only [] at hdb; omega
            · rename_i buf hbuf
              rw [hbuf] at hdb; simp only [] at hdb
              rw [if_neg (by omega)]
              have hsl : ((buf.drop (ws.dataStart + ws.payloadIndex - givenUtf8 ws.dataUtf8)).take (givenUtf8 ws.dataUtf8)).length
                  = givenUtf8 ws.dataUtf8 := by
                simp only [List.length_take, List.length_drop]; omega
              obtain ⟨nx', hnx'⟩ := writeAt_some nx 0 _ (by rw [hsl]; omega)
              obtain ⟨buf', hbuf'⟩ := termAt_some buf (ws.dataSize - givenUtf8 ws.dataUtf8) (by omega)
              have hl1 := writeAt_length _ _ _ _ hnx'
              have hl2 := termAt_length _ _ _ hbuf'
              simp only [hnx', hbuf']
              refine ⟨fun _ => ?_, rfl, ?_, fun _ => ⟨rfl, hv⟩⟩
              · exact h.toStart hs (some nx') ws.ctrlBuf ws.dataStart (givenUtf8 ws.dataUtf8) ws.dataType
                  (by simp only []; omega) (by omega) h.u8a (fun _ => Nat.le_refl _)
              · show _ < _; omega
        · refine ⟨fun _ => ?_, rfl, rfl, fun _ => ⟨rfl, hv⟩⟩
          exact h.toStart hs ws.dataBuf ws.ctrlBuf ws.dataStart ws.dataSize ws.dataType hdb h.dsz h.u8a hcar
      · rename_i hntxt
        refine ⟨fun _ => ?_, rfl, ?_, fun _ => ⟨rfl, hv⟩⟩
        · refine h.toStart hs none ws.ctrlBuf 0 0 ws.dataType rfl (by omega) h.u8a ?_
          intro hd
          have : ws.dataUtf8 = 0 := by
            simp only [hd, true_and, ne_eq, Decidable.not_not] at hntxt; exact hntxt
          simp [this, givenUtf8]
        · show PlOK ws.dataBuf ws.dataSize
          unfold PlOK; split <;> simp_all
    · refine ⟨?_, hv, rfl⟩
      exact h.toStart hs ws.dataBuf ws.ctrlBuf ws.dataStart ws.dataSize ws.dataType hdb h.dsz h.u8a hcar
end Mhd.WS
namespace Mhd.WS
theorem Inv.advData {ws : WS} (h : Inv ws) (hs : ws.step = 17) (buf' : List UInt8)
    (hl : buf'.length = ws.dataSize + 1) (k : Nat) (hk : ws.payloadIndex + k ≤ ws.payloadSize) (s : Nat)
    (hs10 : s ≤ 10) (hu : ws.dataType ≠ 1 → s = 0)
    (hc : ws.dataType = 1 → givenUtf8 s ≤ ws.dataStart + (ws.payloadIndex + k)) :
    Inv { ws with dataBuf := some buf', payloadIndex := ws.payloadIndex + k, dataUtf8 := s } := by
  exact { h with
    idx := hk
    idx0 := by intro h1; simp only [] at h1; omega
    dbuf := hl
    u8a := hu
    u8b := hs10
    carry := by intro hd; have := hc hd; simp only [hs, if_true]; exact this }

theorem Inv.advCtrl {ws : WS} (h : Inv ws) (hs : ws.step = 18) (buf' : List UInt8)
    (hl : buf'.length = ws.payloadSize + 1) (k : Nat) (hk : ws.payloadIndex + k ≤ ws.payloadSize) (cu : Nat) :
    Inv { ws with ctrlBuf := some buf', payloadIndex := ws.payloadIndex + k, ctrlUtf8 := cu } := by
  have hc := h.carry
  have h17 : ¬ ws.step = 17 := by omega
  simp only [h17, if_false] at hc
  exact { h with
    idx := hk
    idx0 := by intro h1; simp only [] at h1; omega
    cbuf := fun _ => hl
    carry := by intro hd; have := hc hd; simp only [h17, if_false]; exact this }

theorem payloadFinish_ok {ws0 ws : WS} {n take : Nat} (h : Inv ws) (hv : ws.validity ≠ 0)
    (hs : ws.step = 17 ∨ ws.step = 18) (ht : take ≤ n)
    (hprog : 1 ≤ take ∨ (sil ws0 = 1 ∧ ws.payloadSize = ws.payloadIndex)) :
    R.OK ws0 n (payloadFinish false take ws) := by
  unfold payloadFinish
  split
  · rename_i he
    have := payloadComplete_ok h hv hs he
    revert this
    cases payloadComplete false ws with
    | cont ws' k =>
      intro hc
      obtain ⟨hi, hv', hst⟩ := hc
      refine ⟨hi, hv', ht, ?_⟩
      have : sil ws' = 0 := by unfold sil; rw [show ws'.step = 0 from hst]; simp
      rcases hprog with h1 | ⟨h1, _⟩ <;> omega
    | ret ws' st k pl plen =>
      intro hc
      refine ⟨hc.1, ht, hc.2.2.1, fun h0 => ?_⟩
      obtain ⟨hst, hv'⟩ := hc.2.2.2 h0
      refine ⟨?_, hv', fun hq => ?_⟩
      · unfold sil; rw [hst]; simp
      · rcases hprog with h1 | ⟨h1, _⟩ <;> omega
    | fault s => intro hc; exact hc
  · rename_i hne
    refine ⟨h, hv, ht, ?_⟩
    have : sil ws = 0 := by
      unfold sil; rw [if_neg (by omega), if_neg (by intro hh; exact hne hh.2)]
    rcases hprog with h1 | ⟨_, h2⟩
    · omega
    · exact absurd h2 hne

end Mhd.WS
namespace Mhd.WS

theorem checkUtf8Buf_in (buf : List UInt8) (start n step : Nat) (h : start + n ≤ buf.length) :
    checkUtf8Buf buf start n step = .res (checkUtf8 ((buf.drop start).take n) step 0) := by
  unfold checkUtf8Buf; rw [if_pos h]

theorem stepPayload_ok {ws : WS} (h : Inv ws) (hv : ws.validity ≠ 0) (hs : ws.step = 17 ∨ ws.step = 18)
    (rest : List UInt8) (hn : 1 ≤ rest.length) : R.OK ws rest.length (stepPayload false ws rest) := by
  unfold stepPayload
  have hidx := h.idx
  have hpsz := h.psz
  have hneed : (ws.payloadSize + W - ws.payloadIndex) % W = ws.payloadSize - ws.payloadIndex := by
    rw [W_eq]; omega
  simp only [hneed]
  by_cases ht : min (ws.payloadSize - ws.payloadIndex) rest.length = 0
  · simp only [ht, ne_eq, not_true_eq_false, if_false]
    have he : ws.payloadSize = ws.payloadIndex := by omega
    refine payloadFinish_ok h hv hs (Nat.zero_le _) (Or.inr ⟨?_, he⟩)
    unfold sil
    rw [if_neg (by omega), if_pos ⟨hs, he⟩]
  · generalize htk : min (ws.payloadSize - ws.payloadIndex) rest.length = take at ht
    have htn : take ≤ rest.length := by omega
    have hti : ws.payloadIndex + take ≤ ws.payloadSize := by omega
    have ht1 : 1 ≤ take := by omega
    simp only [ne_eq, ht, not_false_eq_true, if_true]
    obtain ⟨h0, hh0, hok⟩ := h.h0 (by omega) (by omega)
    simp only [hh0]
    have hcl : (copyPayload (rest.take take) ws.maskKey (ws.payloadIndex % 4)).length = take := by
      rw [copyPayload_length, List.length_take]; omega
    rcases hs with h17 | h18
    · -- data frame
      have hdst := h.dst h17
      have hdb := h.dbuf
      simp only [if_pos h17]
      split
      · rename_i hnone
        rw [hnone] at hdb; simp only [] at hdb; omega
      · rename_i buf hbuf
        rw [hbuf] at hdb; simp only [] at hdb
        obtain ⟨buf', hw⟩ := writeAt_some buf (ws.dataStart + ws.payloadIndex)
          (copyPayload (rest.take take) ws.maskKey (ws.payloadIndex % 4)) (by rw [hcl]; omega)
        have hl' := writeAt_length _ _ _ _ hw
        simp only [hw, payloadAdvance, if_pos h17]
        have hinv1 : Inv { ws with dataBuf := some buf', payloadIndex := ws.payloadIndex + take } := by
          have hcar := h.carry
          simp only [h17, if_true] at hcar
          exact h.advData h17 buf' (by omega) take hti ws.dataUtf8 h.u8b h.u8a
            (by intro hd; have := hcar hd; omega)
        split
        · rename_i hcond
          have hd1 : ws.dataType = 1 := by
            rcases hcond with ⟨_, hd⟩ | ⟨h18', _⟩
            · exact hd
            · exact absurd h18' (by show ¬ ws.step = 18; omega)
          unfold utf8OfPayload
          simp only [if_pos h17]
          rw [checkUtf8Buf_in _ _ _ _ (by omega)]
          cases hx : checkUtf8 ((buf'.drop (ws.dataStart + ws.payloadIndex)).take take) ws.dataUtf8 0 with
          | invalid o =>
            simp only []
            have := checkUtf8_invalid_lt _ _ _ _ hx
            simp only [List.length_take, List.length_drop] at this
            exact OK_err _ _ _ _ (by omega)
          | ok s =>
            simp only []
            have hs10 := checkUtf8_le _ _ _ _ h.u8b hx
            have hg := checkUtf8_given _ _ _ _ hx
            simp only [List.length_take, List.length_drop] at hg
            have hcar := h.carry hd1
            simp only [if_pos h17] at hcar
            refine payloadFinish_ok (ws := { ws with dataBuf := some buf', payloadIndex := ws.payloadIndex + take, dataUtf8 := s })
              ?_ hv (Or.inl h17) htn (Or.inl ht1)
            exact h.advData h17 buf' (by omega) take hti s hs10 (fun hne => absurd hd1 hne) (fun _ => by omega)
        · exact payloadFinish_ok hinv1 hv (Or.inl h17) htn (Or.inl ht1)
    · -- control frame
      have h17 : ¬ ws.step = 17 := by omega
      have hcb := h.cbuf h18
      simp only [if_neg h17]
      split
      · rename_i hnone
        rw [hnone] at hcb; simp only [] at hcb; omega
      · rename_i buf hbuf
        rw [hbuf] at hcb; simp only [] at hcb
        obtain ⟨buf', hw⟩ := writeAt_some buf (0 + ws.payloadIndex)
          (copyPayload (rest.take take) ws.maskKey (ws.payloadIndex % 4)) (by rw [hcl]; omega)
        have hl' := writeAt_length _ _ _ _ hw
        simp only [hw, payloadAdvance, if_neg h17]
        have hinv1 : Inv { ws with ctrlBuf := some buf', payloadIndex := ws.payloadIndex + take } :=
          h.advCtrl h18 buf' (by omega) take hti ws.ctrlUtf8
        split
        · rename_i hcond
          have h2 : 2 < ws.payloadIndex + take := by
            rcases hcond with ⟨h17', _⟩ | ⟨_, _, h2⟩
            · exact absurd h17' h17
            · exact h2
          unfold utf8OfPayload
          simp only [if_neg h17, Bool.false_eq_true, if_false]
          rw [checkUtf8Buf_in _ _ _ _ (by split <;> omega)]
          cases hx : checkUtf8 ((buf'.drop (0 + if ws.payloadIndex < 2 then 2 else ws.payloadIndex)).take
              (ws.payloadIndex + take - if ws.payloadIndex < 2 then 2 else ws.payloadIndex)) ws.ctrlUtf8 0 with
          | invalid o =>
            simp only []
            have := checkUtf8_invalid_lt _ _ _ _ hx
            simp only [List.length_take, List.length_drop] at this
            refine OK_err _ _ _ _ ?_
            split at this <;> split <;> omega
          | ok s =>
            simp only []
            exact payloadFinish_ok (ws := { ws with ctrlBuf := some buf', payloadIndex := ws.payloadIndex + take, ctrlUtf8 := s })
              (h.advCtrl h18 buf' (by omega) take hti s) hv (Or.inr h18) htn (Or.inl ht1)
        · exact payloadFinish_ok hinv1 hv (Or.inr h18) htn (Or.inl ht1)
end Mhd.WS