/-
  C14 helper lemmas: the information API's single block (sizes, offsets), the user-name type, and the
  header lookup with several request headers.
-/
import Mhd.Proofs.AuthApi
namespace Mhd.Auth
open Mhd.Gen.Auth

/-! ### lengths of the copies -/

theorem unquoteLoop_length : ∀ (n : Nat) (q v : Bytes), q.length ≤ n → unquoteLoop q = some v → v.length ≤ q.length := by
  intro n
  induction n with
  | zero =>
    intro q v hl h
    have : q = [] := List.length_eq_zero_iff.mp (by omega)
    subst this
    rw [unquoteLoop_nil] at h; simp at h; subst h; simp
  | succ n ih =>
    intro q v hl h
    cases q with
    | nil => rw [unquoteLoop_nil] at h; simp at h; subst h; simp
    | cons c r =>
      by_cases h92 : c = 92
      · subst h92
        cases r with
        | nil => rw [unquoteLoop_bs] at h; simp at h
        | cons c2 r2 =>
          rw [unquoteLoop_esc, Option.map_eq_some_iff] at h
          obtain ⟨w, hw, hv⟩ := h
          have := ih r2 w (by simp at hl; omega) hw
          subst hv; simp; omega
      · rw [unquoteLoop_plain c r h92, Option.map_eq_some_iff] at h
        obtain ⟨w, hw, hv⟩ := h
        have := ih r w (by simp at hl; omega) hw
        subst hv; simp; omega

theorem unquote_length_le (q : Bytes) : (unquote q).length ≤ q.length := by
  unfold unquote
  cases h : unquoteLoop q with
  | none => simp
  | some v => simpa using unquoteLoop_length _ q v (Nat.le_refl _) h

theorem paramUnq_length_le (p : Param) : (paramUnq p).length ≤ p.raw.length := by
  unfold paramUnq
  split
  · exact unquote_length_le _
  · exact Nat.le_refl _

theorem pctStrict_length (next : Option UInt8) : ∀ (n : Nat) (enc out : Bytes), enc.length ≤ n →
    pctStrict next enc = .ok out → out.length ≤ enc.length := by
  intro n
  induction n with
  | zero =>
    intro enc out hl h
    have : enc = [] := List.length_eq_zero_iff.mp (by omega)
    subst this
    rw [pctStrict.eq_def] at h; simp at h; subst h; simp
  | succ n ih =>
    intro enc out hl h
    cases enc with
    | nil => rw [pctStrict.eq_def] at h; simp at h; subst h; simp
    | cons c r =>
      rw [pctStrict.eq_def] at h
      simp only at h
      by_cases h37 : c = 37
      · simp only [h37, if_true] at h
        match r, h with
        | [], h => simp at h
        | [c1], h =>
          simp only at h
          cases next with
          | none => simp at h
          | some c2 =>
            simp only at h
            cases h1 : hexVal c1 <;> cases h2 : hexVal c2 <;> simp only [h1, h2] at h <;> cases h <;> simp
        | c1 :: c2 :: r', h =>
          simp only at h
          cases h1 : hexVal c1 <;> cases h2 : hexVal c2 <;> simp only [h1, h2] at h <;> try (cases h; done)
          cases h3 : pctStrict next r' with
          | ok t =>
            simp only [h3, PctRes.ok.injEq] at h
            have := ih r' t (by simp at hl; omega) h3
            subst h; simp; omega
          | broken => simp [h3] at h
          | overread => simp [h3] at h
      · simp only [h37, if_false] at h
        cases h3 : pctStrict next r with
        | ok t =>
          simp only [h3, PctRes.ok.injEq] at h
          have := ih r t (by simp at hl; omega) h3
          subst h; simp; omega
        | broken => simp [h3] at h
        | overread => simp [h3] at h

theorem skipLang_length (l r : Bytes) (h : skipLang l = some r) : r.length + 1 ≤ l.length := by
  induction l with
  | nil => simp [skipLang] at h
  | cons c t ih =>
    simp only [skipLang] at h
    by_cases h39 : c = 39
    · simp only [h39, if_true, Option.some.injEq] at h
      subst h; simp
    · simp only [h39, if_false] at h
      split at h
      · simp at h
      · have := ih h
        simp; omega

theorem extUname_length (ext : Bytes) (next : Option UInt8) (name : Bytes) (h : extUname ext next = .ok name) :
    name.length + (extPrefix.length + 1) ≤ ext.length := by
  unfold extUname at h
  split at h
  · simp at h
  · rename_i hlen
    split at h
    · simp at h
    · cases hs : skipLang (ext.drop extPrefix.length) with
      | none => simp [hs] at h
      | some enc =>
        have hl := skipLang_length _ _ hs
        simp only [List.length_drop] at hl
        simp only [hs] at h
        cases hp : pctStrict next enc with
        | ok out =>
          have := pctStrict_length next _ enc out (Nat.le_refl _) hp
          simp only [hp] at h
          split at h
          · simp at h
          · simp only [ExtRes.ok.injEq] at h
            subst h; omega
        | broken =>
          simp only [hp] at h
          split at h
          · simp at h
          · simp only [ExtRes.ok.injEq] at h
            subst h; simp; omega
        | overread => simp [hp] at h

/-! ### the block -/

/-- regions of the buffer the returned pointers refer to, in buffer order: (offset, extent in bytes —
    strings with their terminating NUL) -/
def Lay.regions (L : Lay) : List (Nat × Nat) :=
  [L.user.map (fun x => (x.1, x.2 + 1)), L.uhh.map (fun x => (x.1, x.2 + 1)), L.uhb,
   L.opaq.map (fun x => (x.1, x.2 + 1)), L.realm.map (fun x => (x.1, x.2 + 1))].filterMap id

/-- the regions follow one another from `pos` on without overlap and end at or before `size` -/
def chain : Nat → List (Nat × Nat) → Nat → Prop
  | pos, [], size => pos ≤ size
  | pos, (o, e) :: t, size => pos ≤ o ∧ chain (o + e) t size

theorem consts_distinct : unStandard ≠ unUserhash ∧ unStandard ≠ unExtended ∧ unUserhash ≠ unExtended ∧
    unMissing ≠ unStandard ∧ unMissing ≠ unUserhash ∧ unMissing ≠ unExtended ∧
    unInvalid ≠ unStandard ∧ unInvalid ≠ unUserhash ∧ unInvalid ≠ unExtended ∧ unMissing ≠ unInvalid := by decide

/-- `get_rq_uname`: what it writes and returns fits the size computed by `get_rq_unames_size` -/
theorem unameLay_fits (s : Bytes) (term : Option UInt8) (d : DAuth) (ut : Nat) (u : UnameInfo)
    (h : rqUname s term d ut = .ok u) :
    chain 0 ([(unameLay ut u).1.map (fun x => (x.1, x.2 + 1)), (unameLay ut u).2.1.map (fun x => (x.1, x.2 + 1)),
        (unameLay ut u).2.2.1].filterMap id) (unameLay ut u).2.2.2.2 ∧
      (unameLay ut u).2.2.2.2 ≤ unamesSize d ut ∧ (unameLay ut u).2.2.2.1 ≤ unamesSize d ut := by
  obtain ⟨c1, c2, c3, _⟩ := consts_distinct
  unfold rqUname at h
  by_cases hs : ut = unStandard
  · subst hs
    simp only [if_true] at h
    cases hu : d.slots kUsername with
    | none => simp only [hu, IRes.ok.injEq] at h; subst h; simp [unameLay, chain]
    | some p =>
      simp only [hu, IRes.ok.injEq] at h; subst h
      have := paramUnq_length_le p
      simp [unameLay, chain, unamesSize, rawLen, hu, c1]
      omega
  by_cases hh : ut = unUserhash
  · subst hh
    simp only [hs, if_false, if_true] at h
    cases hu : d.slots kUsername with
    | none => rw [hu] at h; simp only [IRes.ok.injEq] at h; subst h; simp [unameLay, chain]
    | some p =>
      have hle := paramUnq_length_le p
      rw [hu] at h
      simp only at h
      cases hb : hexToBin (paramUnq p) with
      | none =>
        simp only [hb] at h
        by_cases hz : 0 * 2 ≠ (paramUnq p).length
        · rw [if_pos hz] at h; simp only [IRes.ok.injEq] at h; subst h
          simp [unameLay, chain, unamesSize, rawLen, hu, hs, c3]
          omega
        · rw [if_neg hz] at h; simp only [IRes.ok.injEq] at h; subst h
          simp [unameLay, chain, unamesSize, rawLen, hu, hs, c3]
          omega
      | some b =>
        simp only [hb] at h
        by_cases hz : b.length * 2 ≠ (paramUnq p).length
        · rw [if_pos hz] at h; simp only [IRes.ok.injEq] at h; subst h
          simp [unameLay, chain, unamesSize, rawLen, hu, hs, c3]
          omega
        · rw [if_neg hz] at h; simp only [IRes.ok.injEq] at h; subst h
          simp only [ne_eq, Decidable.not_not] at hz
          by_cases hn : b.length = 0
          · simp [unameLay, chain, unamesSize, rawLen, hu, hs, c3, hn]
            omega
          · simp [unameLay, chain, unamesSize, rawLen, hu, hs, c3, hn]
            omega
  by_cases he : ut = unExtended
  · subst he
    simp only [hs, hh, if_false, if_true] at h
    cases hu : d.slots kUsernameExt with
    | none => simp only [hu, IRes.ok.injEq] at h; subst h; simp [unameLay, chain]
    | some p =>
      simp only [hu] at h
      cases hx : extUname p.raw (byteAt s term (p.off + p.raw.length)) with
      | ok name =>
        have := extUname_length _ _ _ hx
        simp only [hx, IRes.ok.injEq] at h; subst h
        simp [unameLay, chain, unamesSize, rawLen, hu, c2.symm, c3.symm]
        omega
      | invalid => simp only [hx, IRes.ok.injEq] at h; subst h; simp [unameLay, chain]
      | overread => simp [hx] at h
  · simp only [hs, hh, he, if_false, IRes.ok.injEq] at h
    subst h
    simp [unameLay, chain, hs, hh, he]

theorem chain_mono_start (a m : Nat) (l : List (Nat × Nat)) (size : Nat) (h : a ≤ m) (hc : chain m l size) : chain a l size := by
  cases l with
  | nil => simp only [chain] at hc ⊢; omega
  | cons x t => obtain ⟨o, e⟩ := x; simp only [chain] at hc ⊢; exact ⟨by omega, hc.2⟩

theorem chain_append (a m : Nat) (l1 l2 : List (Nat × Nat)) (size : Nat) (h1 : chain a l1 m) (h2 : chain m l2 size) :
    chain a (l1 ++ l2) size := by
  induction l1 generalizing a with
  | nil => simp only [chain] at h1; exact chain_mono_start a m l2 size h1 h2
  | cons x t ih => obtain ⟨o, e⟩ := x; simp only [chain, List.cons_append] at h1 ⊢; exact ⟨h1.1, ih _ h1.2⟩

/-- the part of the block behind the user name: opaque, then realm -/
theorem tail_fits (d : DAuth) (pos szU : Nat) (hpos : pos ≤ szU) :
    chain pos ([((d.slots kOpaque).map fun p => (pos, (paramUnq p).length)).map (fun x => (x.1, x.2 + 1)),
        ((d.slots kRealm).map fun p => (pos + (match d.slots kOpaque with | some p => (paramUnq p).length + 1 | none => 0),
          (paramUnq p).length)).map (fun x => (x.1, x.2 + 1))].filterMap id)
      (szU + (match d.slots kOpaque with | some p => p.raw.length + 1 | none => 0) +
        (match d.slots kRealm with | some p => p.raw.length + 1 | none => 0)) ∧
    pos + (match d.slots kOpaque with | some p => (paramUnq p).length + 1 | none => 0) +
        (match d.slots kRealm with | some p => (paramUnq p).length + 1 | none => 0) ≤
      szU + (match d.slots kOpaque with | some p => p.raw.length + 1 | none => 0) +
        (match d.slots kRealm with | some p => p.raw.length + 1 | none => 0) := by
  cases ho : d.slots kOpaque with
  | none =>
    cases hr : d.slots kRealm with
    | none => simp [chain]; omega
    | some r => have := paramUnq_length_le r; simp [chain]; omega
  | some o =>
    have h1 := paramUnq_length_le o
    cases hr : d.slots kRealm with
    | none => simp [chain]; omega
    | some r => have := paramUnq_length_le r; simp [chain]; omega

theorem fm5 {α : Type} (a b c d e : Option α) :
    [a, b, c, d, e].filterMap id = [a, b, c].filterMap id ++ [d, e].filterMap id := by
  rw [← List.filterMap_append]; rfl

theorem fm3nn {α : Type} (a b c : Option α) : [a, b, c, none, none].filterMap id = [a, b, c].filterMap id := by
  rw [fm5]; simp

theorem chain_mono_end (a m size : Nat) (l : List (Nat × Nat)) (h1 : chain a l m) (h2 : m ≤ size) : chain a l size := by
  have := chain_append a m l [] size h1 (by simpa [chain] using h2)
  simpa using this

/-- the block of `MHD_digest_auth_get_request_info3` from the user-name part `ul` and its size `szU` -/
def asm (d : DAuth) (szU : Nat) (ul : Option (Nat × Nat) × Option (Nat × Nat) × Option (Nat × Nat) × Nat × Nat) : Lay :=
  let osz := match d.slots kOpaque with | some p => p.raw.length + 1 | none => 0
  let rsz := match d.slots kRealm with | some p => p.raw.length + 1 | none => 0
  let oused := match d.slots kOpaque with | some p => (paramUnq p).length + 1 | none => 0
  { size := szU + osz + rsz,
    user := ul.1, uhh := ul.2.1, uhb := ul.2.2.1,
    opaq := (d.slots kOpaque).map fun p => (ul.2.2.2.2, (paramUnq p).length),
    realm := (d.slots kRealm).map fun p => (ul.2.2.2.2 + oused, (paramUnq p).length),
    touched := ul.2.2.2.1,
    used := ul.2.2.2.2 + oused + (match d.slots kRealm with | some p => (paramUnq p).length + 1 | none => 0) }

theorem asm_fits (d : DAuth) (szU : Nat) (ul : Option (Nat × Nat) × Option (Nat × Nat) × Option (Nat × Nat) × Nat × Nat)
    (hused : ul.2.2.2.2 ≤ szU) (htouched : ul.2.2.2.1 ≤ szU)
    (hch : chain 0 ([ul.1.map (fun x => (x.1, x.2 + 1)), ul.2.1.map (fun x => (x.1, x.2 + 1)), ul.2.2.1].filterMap id) ul.2.2.2.2) :
    chain 0 (asm d szU ul).regions (asm d szU ul).size ∧ (asm d szU ul).touched ≤ (asm d szU ul).size ∧
      (asm d szU ul).used ≤ (asm d szU ul).size := by
  obtain ⟨t1, t2⟩ := tail_fits d _ _ hused
  refine ⟨?_, by simp only [asm]; omega, t2⟩
  have := chain_append 0 _ _ _ _ hch t1
  rw [← fm5] at this
  simpa [Lay.regions, asm] using this

/-- `MHD_digest_auth_get_request_info3`: every returned pointer refers to a region inside the one allocated
    block, the regions (strings with their NUL) do not overlap, and nothing is written outside -/
theorem requestInfoLay_fits (s : Bytes) (term : Option UInt8) (d : DAuth) (L : Lay) (h : requestInfoLay s term d = .ok L) :
    chain 0 L.regions L.size ∧ L.touched ≤ L.size ∧ L.used ≤ L.size := by
  obtain ⟨_, _, _, m1, m2, m3, i1, i2, i3, _⟩ := consts_distinct
  unfold requestInfoLay at h
  simp only at h
  by_cases hut : unameType d ≠ unMissing ∧ unameType d ≠ unInvalid
  · rw [if_pos hut] at h
    cases hr : rqUname s term d (unameType d) with
    | ok u =>
      simp only [hr, IRes.ok.injEq] at h
      obtain ⟨a, b, c⟩ := unameLay_fits s term d _ u hr
      have hL : L = asm d (unamesSize d (unameType d)) (unameLay (unameType d) u) := h.symm
      rw [hL]; exact asm_fits d _ _ b c a
    | null => simp [hr] at h
    | overread => simp [hr] at h
  · rw [if_neg hut] at h
    simp only [IRes.ok.injEq] at h
    have hcase : unameType d = unMissing ∨ unameType d = unInvalid := by
      by_cases h1 : unameType d = unMissing
      · exact Or.inl h1
      · by_cases h2 : unameType d = unInvalid
        · exact Or.inr h2
        · exact absurd ⟨h1, h2⟩ hut
    have hnone : ∀ u, unameLay (unameType d) u = (none, none, none, 0, 0) := by
      intro u
      rcases hcase with hc | hc <;> rw [hc] <;> simp [unameLay, m1, m2, m3, i1, i2, i3]
    have hL : L = asm d (unamesSize d (unameType d))
        (unameLay (unameType d) ⟨unameType d, none, none, none⟩) := h.symm
    rw [hL]
    apply asm_fits <;> simp [hnone, chain]

/-- `MHD_digest_auth_get_username3`: the same for its block -/
theorem usernameLay_fits (s : Bytes) (term : Option UInt8) (d : DAuth) (L : Lay) (h : usernameLay s term d = .ok L) :
    chain 0 L.regions L.size ∧ L.touched ≤ L.size ∧ L.used ≤ L.size := by
  unfold usernameLay at h
  simp only at h
  split at h
  · simp at h
  · cases hr : rqUname s term d (unameType d) with
    | ok u =>
      simp only [hr] at h
      split at h
      · simp at h
      · simp only [IRes.ok.injEq] at h
        obtain ⟨a, b, c⟩ := unameLay_fits s term d _ u hr
        subst h
        refine ⟨?_, c, b⟩
        have := chain_mono_end 0 _ _ _ a b
        rw [← fm3nn] at this
        simpa [Lay.regions] using this
    | null => simp [hr] at h
    | overread => simp [hr] at h

/-! ### the user-name type -/

/-- `get_rq_uname_type` is total and decided by *presence* (not emptiness) of the two parameters -/
theorem unameType_exact (d : DAuth) :
    (unameType d = unMissing ↔ d.slots kUsername = none ∧ d.slots kUsernameExt = none) ∧
    (unameType d = unStandard ↔ (d.slots kUsername).isSome ∧ d.slots kUsernameExt = none ∧ d.userhash = false) ∧
    (unameType d = unUserhash ↔ (d.slots kUsername).isSome ∧ d.slots kUsernameExt = none ∧ d.userhash = true) ∧
    (unameType d = unExtended ↔ d.slots kUsername = none ∧
      ∃ e, d.slots kUsernameExt = some e ∧ e.quoted = false ∧ d.userhash = false ∧ extPrefix.length + 1 ≤ e.raw.length) ∧
    (unameType d = unInvalid ↔ ((d.slots kUsername).isSome ∧ (d.slots kUsernameExt).isSome) ∨
      (d.slots kUsername = none ∧ ∃ e, d.slots kUsernameExt = some e ∧
        ¬ (e.quoted = false ∧ d.userhash = false ∧ extPrefix.length + 1 ≤ e.raw.length))) ∧
    (unameType d = unMissing ∨ unameType d = unStandard ∨ unameType d = unUserhash ∨ unameType d = unExtended ∨
      unameType d = unInvalid) := by
  obtain ⟨c1, c2, c3, m1, m2, m3, i1, i2, i3, mi⟩ := consts_distinct
  unfold unameType
  cases hu : d.slots kUsername <;> cases he : d.slots kUsernameExt
  · simp [m1, m2, m3, mi]
  · rename_i e
    by_cases hc : (!e.quoted && !d.userhash && decide (extPrefix.length + 1 ≤ e.raw.length)) = true
    · have hc' := hc
      simp only [Bool.and_eq_true, Bool.not_eq_true', decide_eq_true_eq] at hc'
      simp [m3.symm, c2.symm, c3.symm, i3.symm, hc'.1.1, hc'.1.2, hc'.2]
    · have hc' := hc
      simp only [Bool.and_eq_true, Bool.not_eq_true', decide_eq_true_eq] at hc'
      simp only [hc]
      simp [mi.symm, i1, i2, i3]
      intro a b; exact Nat.lt_of_not_le fun c => hc' ⟨⟨a, b⟩, c⟩
  · cases hh : d.userhash <;> simp [m1.symm, m2.symm, c1, c1.symm, c2, c3, i1.symm, i2.symm]
  · simp [mi.symm, i1, i2, i3]

/-! ### several request headers -/

theorem dauthParams_first (pre : List Hdr) (h : Hdr) (post : List Hdr) (off : Nat) (av : Bytes)
    (hpre : ∀ x ∈ pre, hdrMatch digestBase x = none) (hm : hdrMatch digestBase h = some (off, av)) :
    dauthParams (pre ++ h :: post) = dauthParams [h] := by
  have h1 := findHdrLoop_first digestBase pre h post 0 off av hpre hm
  have h2 := findHdrLoop_first digestBase [] h [] 0 off av (by simp) hm
  simp only [List.nil_append] at h2
  simp only [dauthParams, findAuthHeader, Bool.not_true, Bool.false_eq_true, if_false, h1, h2]

theorem dauthParams_none (hs : List Hdr) (h : ∀ x ∈ hs, hdrMatch digestBase x = none) : dauthParams hs = .ok none := by
  have := findHdrLoop_none digestBase hs 0 h
  simp [dauthParams, findAuthHeader, this]

theorem basicApiH_first (pre : List Hdr) (h : Hdr) (post : List Hdr) (off : Nat) (av : Bytes)
    (hpre : ∀ x ∈ pre, hdrMatch basicBase x = none) (hm : hdrMatch basicBase h = some (off, av)) :
    basicApiH (pre ++ h :: post) = basicInfo av := by
  have h1 := findHdrLoop_first basicBase pre h post 0 off av hpre hm
  simp only [basicApiH, findAuthHeader, Bool.not_true, Bool.false_eq_true, if_false, h1]

theorem basicApiH_none (hs : List Hdr) (h : ∀ x ∈ hs, hdrMatch basicBase x = none) : basicApiH hs = none := by
  have := findHdrLoop_none basicBase hs 0 h
  simp [basicApiH, findAuthHeader, this]

theorem digestApiH_single (value : Bytes) : digestApiH [⟨headerKind, authHeader, value⟩] = digestApi value := by
  unfold digestApiH digestApi dauthParams
  cases findAuthHeader true digestBase [⟨headerKind, authHeader, value⟩] with
  | none => rfl
  | some x =>
    obtain ⟨a, b, av⟩ := x
    simp only
    cases parseDigest av (some 0) <;> rfl

end Mhd.Auth
