/-
  C06 — proofs, part 1: list bookkeeping, handler chains of `call_handlers`,
  the law record of the abstract per-connection step.
-/
import Mhd.Model.LoopRounds
namespace Mhd.Loop
variable {W : Type}

def ids (l : List (Conn W)) : List CId := l.map (·.id)

@[simp] theorem ids_nil : ids ([] : List (Conn W)) = [] := rfl
@[simp] theorem ids_cons (c : Conn W) (l) : ids (c :: l) = c.id :: ids l := rfl
@[simp] theorem ids_append (a b : List (Conn W)) : ids (a ++ b) = ids a ++ ids b := by simp [ids]

theorem findConn_none {l : List (Conn W)} {id : CId} (h : id ∉ ids l) : findConn l id = none := by
  induction l with
  | nil => rfl
  | cons c rest ih =>
    simp only [ids_cons, List.mem_cons, not_or] at h
    simp only [findConn]
    rw [if_neg (fun e => h.1 e.symm)]
    exact ih h.2

theorem findConn_mem {l : List (Conn W)} {id : CId} {c : Conn W} (h : findConn l id = some c) : c ∈ l ∧ c.id = id := by
  induction l with
  | nil => simp [findConn] at h
  | cons x rest ih =>
    simp only [findConn] at h
    by_cases hx : x.id = id
    · rw [if_pos hx] at h
      cases h
      exact ⟨List.mem_cons_self, hx⟩
    · rw [if_neg hx] at h
      exact ⟨List.mem_cons_of_mem _ (ih h).1, (ih h).2⟩

theorem findConn_mid {A B : List (Conn W)} {c : Conn W} (h : c.id ∉ ids A) :
    findConn (A ++ c :: B) c.id = some c := by
  induction A with
  | nil => simp [findConn]
  | cons x rest ih =>
    simp only [ids_cons, List.mem_cons, not_or] at h
    simp only [List.cons_append, findConn]
    rw [if_neg (fun e => h.1 e.symm)]
    exact ih h.2

theorem findConn_mid_ne {A B : List (Conn W)} {c : Conn W} {q : CId} (h : q ≠ c.id) :
    findConn (A ++ c :: B) q = findConn (A ++ B) q := by
  induction A with
  | nil => simp only [List.nil_append, findConn]; rw [if_neg (fun e => h e.symm)]
  | cons x rest ih =>
    simp only [List.cons_append, findConn]
    by_cases hx : x.id = q
    · rw [if_pos hx, if_pos hx]
    · rw [if_neg hx, if_neg hx]; exact ih

theorem setConn_mid {A B : List (Conn W)} {c c' : Conn W} (h : c.id ∉ ids A) (he : c'.id = c.id) :
    setConn (A ++ c :: B) c' = A ++ c' :: B := by
  induction A with
  | nil => simp [setConn, he]
  | cons x rest ih =>
    simp only [ids_cons, List.mem_cons, not_or] at h
    simp only [List.cons_append, setConn]
    rw [if_neg (fun e => h.1 (by rw [he] at e; exact e.symm))]
    rw [ih h.2]

theorem eraseConn_mid {A B : List (Conn W)} {c : Conn W} (h : c.id ∉ ids A) :
    eraseConn (A ++ c :: B) c.id = A ++ B := by
  induction A with
  | nil => simp [eraseConn]
  | cons x rest ih =>
    simp only [ids_cons, List.mem_cons, not_or] at h
    simp only [List.cons_append, eraseConn]
    rw [if_neg (fun e => h.1 e.symm)]
    rw [ih h.2]

theorem tailId_nil : tailId ([] : List (Conn W)) = none := rfl
theorem tailId_concat (A : List (Conn W)) (a : Conn W) : tailId (A ++ [a]) = some a.id := by
  simp [tailId]

theorem prevGo_mid {A B : List (Conn W)} {c : Conn W} (p : CId) (h : c.id ∉ ids A) :
    prevGo p (A ++ c :: B) c.id = some (some ((tailId A).getD p)) := by
  induction A generalizing p with
  | nil => simp [prevGo, tailId]
  | cons x rest ih =>
    simp only [ids_cons, List.mem_cons, not_or] at h
    simp only [List.cons_append, prevGo]
    rw [if_neg (fun e => h.1 e.symm)]
    rw [ih x.id h.2]
    cases rest with
    | nil => simp [tailId]
    | cons y ys =>
      cases hl : (y :: ys).getLast? with
      | none => simp at hl
      | some z => simp [tailId, List.getLast?_cons_cons, hl]

theorem prevIn_mid {A B : List (Conn W)} {c : Conn W} (h : c.id ∉ ids A) :
    prevIn (A ++ c :: B) c.id = some (tailId A) := by
  cases A with
  | nil => simp [prevIn, tailId]
  | cons x rest =>
    simp only [ids_cons, List.mem_cons, not_or] at h
    simp only [List.cons_append, prevIn]
    rw [if_neg (fun e => h.1 e.symm)]
    rw [prevGo_mid x.id h.2]
    cases rest with
    | nil => simp [tailId]
    | cons y ys =>
      cases hl : (y :: ys).getLast? with
      | none => simp at hl
      | some z => simp [tailId, List.getLast?_cons_cons, hl]

end Mhd.Loop

namespace Mhd.Loop
open Mhd.Gen.Loop
variable {W : Type}

/-! field preservation of the epoll helpers -/
theorem epollUpdate_loc (c : Conn W) : (epollUpdate c).loc = c.loc := by
  unfold epollUpdate; simp only []; split <;> split <;> rfl
theorem epollUpdate_id (c : Conn W) : (epollUpdate c).id = c.id := by
  unfold epollUpdate; simp only []; split <;> split <;> rfl
theorem epollUpdate_k (c : Conn W) : (epollUpdate c).k = c.k := by
  unfold epollUpdate; simp only []; split <;> split <;> rfl
theorem epollUpdate_nonblock (c : Conn W) : (epollUpdate c).nonblock = c.nonblock := by
  unfold epollUpdate; simp only []; split <;> split <;> rfl

/-- the fields the loop never changes during handler calls -/
structure SameStatic (a b : Conn W) : Prop where
  id : a.id = b.id
  nonblock : a.nonblock = b.nonblock
  resuming : a.resuming = b.resuming
  sockValid : a.sockValid = b.sockValid
  tmo : a.tmo = b.tmo
  epError : a.epError = b.epError

theorem SameStatic.refl (a : Conn W) : SameStatic a a := ⟨rfl, rfl, rfl, rfl, rfl, rfl⟩
theorem SameStatic.trans {a b c : Conn W} (h1 : SameStatic a b) (h2 : SameStatic b c) : SameStatic a c :=
  ⟨h1.id.trans h2.id, h1.nonblock.trans h2.nonblock, h1.resuming.trans h2.resuming,
   h1.sockValid.trans h2.sockValid, h1.tmo.trans h2.tmo, h1.epError.trans h2.epError⟩

theorem epollUpdate_static (c : Conn W) : SameStatic (epollUpdate c) c := by
  unfold epollUpdate; simp only []; split <;> split <;> exact ⟨rfl, rfl, rfl, rfl, rfl, rfl⟩

theorem doRead_static (ops : Ops W) (f : Bool) (s : CS W) : SameStatic (doRead ops f s).c s.c := ⟨rfl, rfl, rfl, rfl, rfl, rfl⟩
theorem doWrite_static (ops : Ops W) (s : CS W) : SameStatic (doWrite ops s).c s.c := ⟨rfl, rfl, rfl, rfl, rfl, rfl⟩
theorem doClose_static (ops : Ops W) (s : CS W) : SameStatic (doClose ops s).c s.c := ⟨rfl, rfl, rfl, rfl, rfl, rfl⟩
theorem doRead_wh (ops : Ops W) (f : Bool) (s : CS W) : (doRead ops f s).wh = s.wh := rfl
theorem doWrite_wh (ops : Ops W) (s : CS W) : (doWrite ops s).wh = s.wh := rfl
theorem doClose_wh (ops : Ops W) (s : CS W) : (doClose ops s).wh = s.wh := rfl

theorem doIdle_wh (ops : Ops W) (ep : Bool) (s : CS W) :
    (doIdle ops ep s).wh = (ops.idle s.c.id s.c.k s.wh s.c.loc).2 := rfl

theorem doIdle_loc (ops : Ops W) (ep : Bool) (s : CS W) :
    (doIdle ops ep s).c.loc = (ops.idle s.c.id s.c.k s.wh s.c.loc).1 := by
  unfold doIdle; simp only []
  split <;> split <;> simp [epollUpdate_loc, epollSuspend]

theorem doIdle_static (ops : Ops W) (ep : Bool) (s : CS W) : SameStatic (doIdle ops ep s).c s.c := by
  unfold doIdle; simp only []
  split <;> split
  all_goals first
    | exact ⟨rfl, rfl, rfl, rfl, rfl, rfl⟩
    | exact (epollUpdate_static _).trans ⟨rfl, rfl, rfl, rfl, rfl, rfl⟩

theorem doIdle_evs (ops : Ops W) (ep : Bool) (s : CS W) : (doIdle ops ep s).evs = Ev.idle s.c.id :: s.evs := rfl

end Mhd.Loop

namespace Mhd.Loop
open Mhd.Gen.Loop
variable {W : Type}

inductive Chain (ops : Ops W) (ep : Bool) (s0 : CS W) : CS W → Prop where
  | refl : Chain ops ep s0 s0
  | read (f : Bool) {t : CS W} : Chain ops ep s0 t → Chain ops ep s0 (doRead ops f t)
  | write {t : CS W} : Chain ops ep s0 t → Chain ops ep s0 (doWrite ops t)
  | close {t : CS W} : Chain ops ep s0 t → Chain ops ep s0 (doClose ops t)
  | idle {t : CS W} : Chain ops ep s0 t → Chain ops ep s0 (doIdle ops ep t)

/-- result of a handler sequence that ends with handle_idle -/
def EndsIdle (ops : Ops W) (ep : Bool) (s0 : CS W) (c : Conn W) (wh : Wh) (evs : List Ev) : Prop :=
  ∃ u, Chain ops ep s0 u ∧ c = (doIdle ops ep u).c ∧ wh = (doIdle ops ep u).wh ∧ evs = (doIdle ops ep u).evs

theorem endsIdle_of (ops : Ops W) (ep : Bool) (s0 u : CS W) (h : Chain ops ep s0 u) :
    EndsIdle ops ep s0 (doIdle ops ep u).c (doIdle ops ep u).wh (doIdle ops ep u).evs := ⟨u, h, rfl, rfl, rfl⟩

theorem chTail_endsIdle (ops : Ops W) (ep onFast wr : Bool) (s0 s : CS W) (processed : Bool)
    (hs : Chain ops ep s0 s) (hp : processed = true → ∃ u, Chain ops ep s0 u ∧ s = doIdle ops ep u) :
    let r := chTail ops ep onFast wr s processed
    EndsIdle ops ep s0 r.c r.wh r.evs ∧ r.dapCheck = true := by
  intro r
  refine ⟨?_, rfl⟩
  show EndsIdle ops ep s0 (chTail ops ep onFast wr s processed).c (chTail ops ep onFast wr s processed).wh (chTail ops ep onFast wr s processed).evs
  unfold chTail
  simp only []
  by_cases hw : (s.c.loc.eli.isWrite && wr) = true
  · -- wrote
    simp only [hw, if_true, Bool.or_true, Bool.not_true, Bool.false_eq_true, if_false]
    have h1 : Chain ops ep s0 (doWrite ops s) := Chain.write hs
    by_cases hf : (onFast && (doIdle ops ep (doWrite ops s)).c.nonblock) = true
    · simp only [hf, if_true]
      by_cases hh : (doIdle ops ep (doWrite ops s)).c.loc.st = stHeadersSending
      · simp only [hh, if_true]
        have h2 : Chain ops ep s0 (doWrite ops (doIdle ops ep (doWrite ops s))) := Chain.write (Chain.idle h1)
        split
        · exact endsIdle_of _ _ _ _ (Chain.write (Chain.idle h2))
        · exact endsIdle_of _ _ _ _ h2
      · simp only [hh, if_false]
        split
        · exact endsIdle_of _ _ _ _ (Chain.write (Chain.idle h1))
        · exact endsIdle_of _ _ _ _ h1
    · simp only [hf]
      exact endsIdle_of _ _ _ _ h1
  · simp only [hw, Bool.or_false]
    have hw' : (s.c.loc.eli.isWrite && wr) = false := by simpa using hw
    simp only [hw', Bool.false_eq_true, if_false, Bool.or_false]
    cases processed with
    | false =>
      simp only [Bool.not_false, if_true]
      exact endsIdle_of _ _ _ _ hs
    | true =>
      simp only [Bool.not_true, Bool.false_eq_true, if_false]
      obtain ⟨u, hu, rfl⟩ := hp rfl
      by_cases hf : (onFast && (doIdle ops ep u).c.nonblock) = true
      · simp only [hf, if_true]
        by_cases hh : (doIdle ops ep u).c.loc.st = stHeadersSending
        · simp only [hh, if_true]
          have h2 : Chain ops ep s0 (doWrite ops (doIdle ops ep u)) := Chain.write hs
          split
          · exact endsIdle_of _ _ _ _ (Chain.write (Chain.idle h2))
          · exact endsIdle_of _ _ _ _ h2
        · simp only [hh, if_false]
          split
          · exact endsIdle_of _ _ _ _ (Chain.write hs)
          · exact endsIdle_of _ _ _ _ hu
      · simp only [hf]
        exact endsIdle_of _ _ _ _ hu

end Mhd.Loop

namespace Mhd.Loop
open Mhd.Gen.Loop
variable {W : Type}

/-- call_handlers always finishes with MHD_connection_handle_idle; on the
    paths that skip the data_already_pending block the connection was closed
    (force_close) before that last idle call. -/
theorem chLocal_endsIdle (ops : Ops W) (ep : Bool) (c0 : Conn W) (wh0 : Wh) (rr wr fc : Bool) :
    EndsIdle ops ep ⟨c0, wh0, []⟩ (chLocal ops ep c0 wh0 rr wr fc).c (chLocal ops ep c0 wh0 rr wr fc).wh
      (chLocal ops ep c0 wh0 rr wr fc).evs ∧
    ((chLocal ops ep c0 wh0 rr wr fc).dapCheck = false →
      ((chLocal ops ep c0 wh0 rr wr fc).wh = (doIdle ops ep (doRead ops true ⟨c0, wh0, []⟩)).wh) ∨
      ((chLocal ops ep c0 wh0 rr wr fc).wh = (doIdle ops ep (doClose ops ⟨c0, wh0, []⟩)).wh)) := by
  unfold chLocal
  simp only []
  generalize (⟨c0, wh0, []⟩ : CS W) = s0
  by_cases h1 : (c0.loc.eli.hasRead && (rr || (fc && c0.nonblock))) = true
  · simp only [h1, if_true]
    cases fc with
    | true =>
      simp only [if_true]
      refine ⟨endsIdle_of _ _ _ _ (Chain.read true Chain.refl), fun _ => Or.inl trivial⟩
    | false =>
      simp only [Bool.false_eq_true, if_false]
      have := chTail_endsIdle ops ep (decide (c0.loc.st = stInit)) wr s0 (doIdle ops ep (doRead ops false s0)) true
        (Chain.idle (Chain.read false Chain.refl)) (fun _ => ⟨_, Chain.read false Chain.refl, rfl⟩)
      exact ⟨this.1, fun h => by rw [this.2] at h; cases h⟩
  · have h1' : (c0.loc.eli.hasRead && (rr || (fc && c0.nonblock))) = false := by simpa using h1
    simp only [h1', Bool.false_eq_true, if_false]
    cases fc with
    | true =>
      simp only [if_true]
      refine ⟨endsIdle_of _ _ _ _ (Chain.close Chain.refl), fun _ => Or.inr trivial⟩
    | false =>
      simp only [Bool.false_eq_true, if_false]
      have := chTail_endsIdle ops ep (decide (c0.loc.st = stInit)) wr s0 s0 false Chain.refl (fun h => by cases h)
      exact ⟨this.1, fun h => by rw [this.2] at h; cases h⟩

end Mhd.Loop

namespace Mhd.Loop
open Mhd.Gen.Loop
variable {W : Type}

theorem chain_static {ops : Ops W} {ep : Bool} {s0 u : CS W} (h : Chain ops ep s0 u) : SameStatic u.c s0.c := by
  induction h with
  | refl => exact SameStatic.refl _
  | read f _ ih => exact (doRead_static ops f _).trans ih
  | write _ ih => exact (doWrite_static ops _).trans ih
  | close _ ih => exact (doClose_static ops _).trans ih
  | idle _ ih => exact (doIdle_static ops ep _).trans ih

/-- the laws the theorems assume of the abstract per-connection step -/
structure Laws (ops : Ops W) (needs : Local W → Bool) : Prop where
  /-- handle_idle ends with MHD_connection_update_event_loop_info: a connection that stays
      active and has work that can proceed without network input is in a PROCESS state -/
  idle_sync : ∀ id k wh l, (ops.idle id k wh l).2 = .active → needs (ops.idle id k wh l).1 = true →
      (ops.idle id k wh l).1.eli.hasProcess = true
  /-- handle_idle on a closed connection moves it to the cleanup list -/
  idle_closed : ∀ id k l, l.st = stClosed → (ops.idle id k .active l).2 = .cleanup
  /-- `mhd_assert (! force_close || MHD_CONNECTION_CLOSED == con->state)` in call_handlers -/
  read_force : ∀ id k l, (ops.read id k true l).st = stClosed
  /-- a handler never puts a connection back into the active list -/
  idle_where : ∀ id k wh l, wh ≠ .active → (ops.idle id k wh l).2 ≠ .active

def Sync (needs : Local W → Bool) (c : Conn W) : Prop := needs c.loc = true → c.loc.eli.hasProcess = true

theorem chLocal_static (ops : Ops W) (ep : Bool) (c0 : Conn W) (wh0 : Wh) (rr wr fc : Bool) :
    SameStatic (chLocal ops ep c0 wh0 rr wr fc).c c0 := by
  obtain ⟨⟨u, hu, hc, _, _⟩, _⟩ := chLocal_endsIdle ops ep c0 wh0 rr wr fc
  rw [hc]
  exact (doIdle_static ops ep u).trans (chain_static hu)

theorem chLocal_idled (ops : Ops W) (ep : Bool) (c0 : Conn W) (wh0 : Wh) (rr wr fc : Bool) :
    Ev.idle c0.id ∈ (chLocal ops ep c0 wh0 rr wr fc).evs := by
  obtain ⟨⟨u, hu, _, _, he⟩, _⟩ := chLocal_endsIdle ops ep c0 wh0 rr wr fc
  rw [he, doIdle_evs, (chain_static hu).id]
  exact List.mem_cons_self

theorem chLocal_sync {ops : Ops W} {needs : Local W → Bool} (L : Laws ops needs) (ep : Bool) (c0 : Conn W) (wh0 : Wh)
    (rr wr fc : Bool) (h : (chLocal ops ep c0 wh0 rr wr fc).wh = .active) :
    Sync needs (chLocal ops ep c0 wh0 rr wr fc).c := by
  obtain ⟨⟨u, hu, hc, hw, _⟩, _⟩ := chLocal_endsIdle ops ep c0 wh0 rr wr fc
  intro hn
  rw [hc, doIdle_loc] at hn ⊢
  rw [hw, doIdle_wh] at h
  exact L.idle_sync _ _ _ _ h hn

theorem chLocal_dapCheck {ops : Ops W} {needs : Local W → Bool} (L : Laws ops needs) (ep : Bool) (c0 : Conn W)
    (rr wr fc : Bool) (h : (chLocal ops ep c0 .active rr wr fc).wh = .active) :
    (chLocal ops ep c0 .active rr wr fc).dapCheck = true := by
  cases hd : (chLocal ops ep c0 .active rr wr fc).dapCheck with
  | true => rfl
  | false =>
    exfalso
    obtain ⟨_, h2⟩ := chLocal_endsIdle ops ep c0 .active rr wr fc
    rcases h2 hd with hw | hw
    · rw [hw, doIdle_wh] at h
      have := L.idle_closed (doRead ops true ⟨c0, .active, []⟩).c.id (doRead ops true ⟨c0, .active, []⟩).c.k
        (doRead ops true ⟨c0, .active, []⟩).c.loc (L.read_force _ _ _)
      rw [doRead_wh] at h
      rw [this] at h; cases h
    · rw [hw, doIdle_wh] at h
      have := L.idle_closed (doClose ops ⟨c0, .active, []⟩).c.id (doClose ops ⟨c0, .active, []⟩).c.k
        (doClose ops ⟨c0, .active, []⟩).c.loc rfl
      rw [doClose_wh] at h
      rw [this] at h; cases h

end Mhd.Loop
