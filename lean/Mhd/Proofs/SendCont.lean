/-
  C07 — the interim "100 Continue" send phase: delivered prefix, transient faults never close and
  never change what is delivered, composition with the final reply.
-/
import Mhd.Model.SendCont
import Mhd.Proofs.SendClose
namespace Mhd.Send
open Mhd.Gen.Send

theorem take_add_take_drop (l : List α) (a n : Nat) : l.take a ++ (l.drop a).take n = l.take (a + n) := by
  rw [List.take_add]

/-- `out` is exactly the part of the message before the accumulated offset -/
structure CB (c : Cont) : Prop where
  nofault : c.fault = false
  le : c.off ≤ http100Continue.length
  out : c.st ≠ .closed → c.out = http100Continue.take c.off
  pfx : c.out <+: http100Continue
  recv : c.st = .bodyReceiving → c.off = http100Continue.length

/-- … and at the end of a turn a connection still in CONTINUE_SENDING has something left to send -/
structure CInv (c : Cont) : Prop extends CB c where
  sending : c.st = .continueSending → c.off < http100Continue.length

theorem contInit_inv : CInv contInit :=
  ⟨⟨rfl, Nat.zero_le _, fun _ => rfl, List.nil_prefix, fun h => by cases h⟩, fun _ => by decide⟩

theorem contWrite_inv {c : Cont} (h : CB c) (s : SockRes) : CB (contWrite c s) := by
  unfold contWrite
  cases hst : c.st with
  | bodyReceiving => simp only []; exact h
  | closed => simp only []; exact h
  | continueSending =>
    simp only []
    rw [if_neg (by have := h.le; omega)]
    have hout := h.out (by rw [hst]; decide)
    have spec := sendData_spec (http100Continue.drop c.off) s
    have hsplit : http100Continue.take c.off ++ http100Continue.drop c.off = http100Continue := List.take_append_drop _ _
    cases hr : (sendData false (http100Continue.drop c.off) s).ret with
    | error e =>
      have hw := spec.err e hr
      have hp : c.out ++ (sendData false (http100Continue.drop c.off) s).wire <+: http100Continue := by
        rw [hout]; exact prefix_append_of_prefix hsplit hw
      cases e
      case again =>
        have hw0 := spec.again hr
        simp only [hw0, List.append_nil]
        exact ⟨h.nofault, h.le, fun _ => hout, h.pfx, fun hb => by cases hb⟩
      all_goals
        exact ⟨h.nofault, h.le, fun hne => absurd rfl hne, hp, fun hb => by cases hb⟩
    | ok n =>
      obtain ⟨hn, hw⟩ := spec.ok n hr
      have hlen : (http100Continue.drop c.off).length = http100Continue.length - c.off := List.length_drop
      have ho : c.out ++ (sendData false (http100Continue.drop c.off) s).wire = http100Continue.take (c.off + n) := by
        rw [hout, hw]; exact take_add_take_drop _ _ _
      refine ⟨h.nofault, ?_, fun _ => ho, ?_, fun hb => ?_⟩
      · show c.off + n ≤ http100Continue.length
        have := h.le; omega
      · show c.out ++ _ <+: http100Continue
        rw [ho]; exact List.take_prefix _ _
      · cases hb

theorem contIdle_inv {c : Cont} (h : CB c) : CInv (contIdle c) := by
  unfold contIdle
  cases hst : c.st with
  | bodyReceiving => simp only []; exact ⟨h, fun x => by rw [hst] at x; cases x⟩
  | closed => simp only []; exact ⟨h, fun x => by rw [hst] at x; cases x⟩
  | continueSending =>
    simp only []
    by_cases he : c.off = http100Continue.length
    · rw [if_pos he]
      exact ⟨⟨h.nofault, h.le, fun _ => h.out (by rw [hst]; decide), h.pfx, fun _ => he⟩, fun x => by cases x⟩
    · rw [if_neg he]
      exact ⟨h, fun _ => by have := h.le; omega⟩

theorem contRound_inv {c : Cont} (h : CInv c) (x : CRound) : CInv (contRound c x) := by
  unfold contRound
  split
  · exact contIdle_inv (contWrite_inv h.toCB x.s)
  · exact contIdle_inv h.toCB

theorem contRun_inv : ∀ (xs : List CRound) (c : Cont), CInv c → CInv (contRun c xs)
  | [], _, h => h
  | x :: xs, c, h => by
    have : contRun c (x :: xs) = contRun (contRound c x) xs := by simp [contRun]
    rw [this]; exact contRun_inv xs _ (contRound_inv h x)

/-! ### Progress under transient faults -/

def CRound.transient (x : CRound) : Prop := x.s.isTransient = true
def CRound.good (x : CRound) : Prop := x.wr = true ∧ x.s.isData = true

instance : DecidablePred CRound.transient := fun x => by unfold CRound.transient; exact inferInstance
instance : DecidablePred CRound.good := fun x => by unfold CRound.good; exact inferInstance

def countGoodC (xs : List CRound) : Nat := xs.countP (fun x => decide x.good)

/-- what is still owed: the bytes not yet taken, plus one for the switch to BODY_RECEIVING -/
def cmu (c : Cont) : Nat := (http100Continue.length - c.off) + (if c.st = .continueSending then 1 else 0)

theorem contIdle_st (c : Cont) : (contIdle c).st = c.st ∨ ((contIdle c).st = .bodyReceiving ∧ c.st = .continueSending) := by
  unfold contIdle
  cases hst : c.st with
  | continueSending => simp only []; split
                       · right; simp
                       · left; exact hst
  | bodyReceiving => left; simp only [hst]
  | closed => left; simp only [hst]

theorem contIdle_off (c : Cont) : (contIdle c).off = c.off := by
  unfold contIdle; repeat' split
  all_goals rfl

theorem cmu_idle (c : Cont) : cmu (contIdle c) ≤ cmu c := by
  unfold cmu
  rw [contIdle_off]
  rcases contIdle_st c with e | ⟨e1, e2⟩
  · rw [e]; exact Nat.le_refl _
  · rw [e1, e2]; simp

/-- a transient answer never closes; the offset never goes back -/
theorem contWrite_transient {c : Cont} (h : CB c) (hne : c.st ≠ .closed) (s : SockRes) (ht : s.isTransient = true) :
    (contWrite c s).st = c.st ∧ c.off ≤ (contWrite c s).off := by
  unfold contWrite
  cases hst : c.st with
  | bodyReceiving => simp only []; exact ⟨hst, Nat.le_refl _⟩
  | closed => exact absurd hst hne
  | continueSending =>
    simp only []
    rw [if_neg (by have := h.le; omega)]
    have ha := sendData_transient (http100Continue.drop c.off) s ht
    cases hr : (sendData false (http100Continue.drop c.off) s).ret with
    | error e =>
      have := ha e hr
      subst this
      exact ⟨rfl, Nat.le_refl _⟩
    | ok n => exact ⟨rfl, Nat.le_add_right _ _⟩

/-- a data answer to a connection that still has something to send moves the offset forward -/
theorem contWrite_good {c : Cont} (h : CInv c) (hs : c.st = .continueSending) (s : SockRes) (hd : s.isData = true) :
    c.off < (contWrite c s).off := by
  unfold contWrite
  rw [hs]
  simp only []
  rw [if_neg (by have := h.le; omega)]
  have hlt := h.sending hs
  have hne : http100Continue.drop c.off ≠ [] := by
    apply ne_nil_of_length_pos
    rw [List.length_drop]; omega
  obtain ⟨n, hr, hn⟩ := sendData_data (http100Continue.drop c.off) s hd hne
  simp only [hr]
  show c.off < c.off + n
  omega

theorem contRound_eff {c : Cont} (h : CInv c) (hne : c.st ≠ .closed) (x : CRound) (hx : x.transient) :
    (contRound c x).st ≠ .closed ∧ cmu (contRound c x) ≤ cmu c ∧
    (x.good → c.st = .continueSending → cmu (contRound c x) < cmu c) := by
  have hmono : ∀ d : Cont, d.st = c.st → c.off ≤ d.off → cmu d ≤ cmu c := by
    intro d h1 h2; unfold cmu; rw [h1]; omega
  have hstrict : ∀ d : Cont, d.st = c.st → c.off < d.off → d.off ≤ http100Continue.length → cmu d < cmu c := by
    intro d h1 h2 h3; unfold cmu; rw [h1]; omega
  unfold contRound
  by_cases hwr : x.wr = true
  · rw [if_pos hwr]
    obtain ⟨w1, w2⟩ := contWrite_transient h.toCB hne x.s hx
    have hb := contWrite_inv h.toCB x.s
    refine ⟨?_, Nat.le_trans (cmu_idle _) (hmono _ w1 w2), fun hg hs => ?_⟩
    · rcases contIdle_st (contWrite c x.s) with e | ⟨e, _⟩
      · rw [e, w1]; exact hne
      · rw [e]; decide
    · exact Nat.lt_of_le_of_lt (cmu_idle _) (hstrict _ w1 (contWrite_good h hs x.s hg.2) hb.le)
  · rw [if_neg hwr]
    refine ⟨?_, cmu_idle _, fun hg _ => absurd hg.1 hwr⟩
    rcases contIdle_st c with e | ⟨e, _⟩
    · rw [e]; exact hne
    · rw [e]; decide

theorem contRun_progress : ∀ (xs : List CRound) (c : Cont), CInv c → c.st ≠ .closed → (∀ x ∈ xs, x.transient) →
    (contRun c xs).st ≠ .closed ∧ ((contRun c xs).st = .bodyReceiving ∨ cmu (contRun c xs) + countGoodC xs ≤ cmu c)
  | [], c, _, hne, _ => ⟨hne, Or.inr (by simp [contRun, countGoodC])⟩
  | x :: xs, c, h, hne, hx => by
    have hxt := hx x List.mem_cons_self
    obtain ⟨e1, e2, e3⟩ := contRound_eff h hne x hxt
    have ih := contRun_progress xs (contRound c x) (contRound_inv h x) e1 (fun y hy => hx y (List.mem_cons_of_mem _ hy))
    have hrun : contRun c (x :: xs) = contRun (contRound c x) xs := by simp [contRun]
    rw [hrun]
    refine ⟨ih.1, ?_⟩
    rcases ih.2 with hd | hm
    · exact Or.inl hd
    · by_cases hs : c.st = .continueSending
      · right
        unfold countGoodC at hm ⊢
        rw [List.countP_cons]
        by_cases hg : x.good
        · have := e3 hg hs
          simp only [hg, decide_true, if_true]; omega
        · simp only [hg, decide_false, Bool.false_eq_true, if_false]; omega
      · -- already BODY_RECEIVING: nothing changes any more
        left
        have hb : c.st = .bodyReceiving := by
          cases hc : c.st with
          | continueSending => exact absurd hc hs
          | bodyReceiving => rfl
          | closed => exact absurd hc hne
        have hfix : ∀ (ys : List CRound) (d : Cont), d.st = .bodyReceiving → (contRun d ys).st = .bodyReceiving := by
          intro ys
          induction ys with
          | nil => intro d hd; exact hd
          | cons y ys ihy =>
            intro d hd
            have : contRun d (y :: ys) = contRun (contRound d y) ys := by simp [contRun]
            rw [this]
            apply ihy
            simp [contRound, contWrite, contIdle, hd]
        apply hfix
        simp [contRound, contWrite, contIdle, hb]

theorem cmu_init : cmu contInit = http100Continue.length + 1 := by decide

/-- the interim phase is over: exactly the message went out -/
theorem CInv.complete {c : Cont} (h : CInv c) (hb : c.st = .bodyReceiving) : c.out = http100Continue := by
  have := h.out (by rw [hb]; decide)
  rw [this, h.recv hb]; exact List.take_length

theorem countGoodC_append (xs ys : List CRound) : countGoodC (xs ++ ys) = countGoodC xs + countGoodC ys := by
  unfold countGoodC; exact List.countP_append

theorem countGoodC_mono (f : Nat → CRound) : ∀ (n m : Nat), n ≤ m →
    countGoodC ((List.range n).map f) ≤ countGoodC ((List.range m).map f) := by
  intro n m h
  induction m with
  | zero => have : n = 0 := by omega
            rw [this]; exact Nat.le_refl _
  | succ k ih =>
    by_cases hk : n ≤ k
    · rw [List.range_succ, List.map_append, countGoodC_append]; have := ih hk; omega
    · have : n = k + 1 := by omega
      rw [this]; exact Nat.le_refl _

theorem fair_reaches_c (f : Nat → CRound) (fair : ∀ n, ∃ m, n ≤ m ∧ (f m).good) :
    ∀ k, ∃ N, k ≤ countGoodC ((List.range N).map f) := by
  intro k
  induction k with
  | zero => exact ⟨0, Nat.zero_le _⟩
  | succ k ih =>
    obtain ⟨N, hN⟩ := ih
    obtain ⟨m, hm, hg⟩ := fair N
    refine ⟨m + 1, ?_⟩
    rw [List.range_succ, List.map_append, countGoodC_append]
    have h1 := countGoodC_mono f N m hm
    have h2 : countGoodC ([m].map f) = 1 := by simp [countGoodC, hg]
    omega

end Mhd.Send
