/-
  C14 helper lemmas, part 9: the unknown-parameter skipper, extension parameters and empty list elements;
  parse ∘ render for the full list grammar.
-/
import Mhd.Proofs.AuthSem
import Mhd.Proofs.AuthSafe
namespace Mhd.Auth
open Mhd.Gen.Auth

/-! ### extension parameters and empty list elements -/

theorem skipU_false_nil : skipU false [] = .ok [] := by rw [skipU.eq_def]
theorem skipU_false_cons (c : UInt8) (r : Bytes) :
    skipU false (c :: r) = if c = 44 then .ok (c :: r) else if c = 0 ∨ c = 59 then .reject
      else if c = 34 then skipU true r else skipU false r := by rw [skipU.eq_def]
theorem skipU_true_quote (r : Bytes) : skipU true (34 :: r) = skipU false r := by rw [skipU.eq_def]; simp
theorem skipU_true_esc (c2 : UInt8) (r2 : Bytes) : skipU true (92 :: c2 :: r2) = skipU true r2 := by
  rw [skipU.eq_def]; simp
theorem skipU_true_plain (c : UInt8) (r : Bytes) (h34 : c ≠ 34) (h0 : c ≠ 0) (h92 : c ≠ 92) :
    skipU true (c :: r) = skipU true r := by rw [skipU.eq_def]; simp [h34, h0, h92]

/-- bytes the unknown-parameter skipper passes over outside quotation marks -/
def plainByte (c : UInt8) : Bool := c ≠ 44 && c ≠ 0 && c ≠ 59 && c ≠ 34

theorem skipU_plain (v rest : Bytes) (hv : v.all plainByte = true) : skipU false (v ++ rest) = skipU false rest := by
  induction v with
  | nil => rfl
  | cons c r ih =>
    simp only [List.all_cons, Bool.and_eq_true, plainByte, bne_iff_ne, ne_eq, decide_eq_true_eq] at hv
    obtain ⟨⟨⟨⟨h44, h0⟩, h59⟩, h34⟩, hr⟩ := hv
    simp only [List.cons_append, skipU_false_cons, h44, h0, h59, h34, or_self, if_false]
    exact ih (by simpa [plainByte] using hr)

theorem skipU_quoted (esc : List Bool) (v rest : Bytes) (hv : ∀ c ∈ v, c ≠ 0) :
    skipU true (escRender esc v ++ 34 :: rest) = skipU false rest := by
  induction v generalizing esc with
  | nil => cases esc <;> simp [escRender, skipU_true_quote]
  | cons c r ih =>
    have hc : c ≠ 0 := hv c (by simp)
    have hr : ∀ c ∈ r, c ≠ 0 := fun x hx => hv x (by simp [hx])
    cases esc with
    | nil =>
      simp only [escRender]
      by_cases h : c = 34 ∨ c = 92
      · simp [h, skipU_true_esc, ih [] hr]
      · have h34 : c ≠ 34 := fun h' => h (Or.inl h')
        have h92 : c ≠ 92 := fun h' => h (Or.inr h')
        simp [h, skipU_true_plain _ _ h34 hc h92, ih [] hr]
    | cons b bs =>
      simp only [escRender]
      by_cases h : c = 34 ∨ c = 92 ∨ b = true
      · simp [h, skipU_true_esc, ih bs hr]
      · have h34 : c ≠ 34 := fun h' => h (Or.inl h')
        have h92 : c ≠ 92 := fun h' => h (Or.inr (Or.inl h'))
        simp [h, skipU_true_plain _ _ h34 hc h92, ih bs hr]

/-- a name that is not in the table is not recognised, whatever follows -/
theorem nameMatches_unknown (kn nm : Bytes) (d : UInt8) (rest : Bytes)
    (hnm : ∀ c ∈ nm, isDelim c = false) (hkn : ∀ c ∈ kn, toLowerB c ≠ toLowerB d)
    (hne : nm.map toLowerB ≠ kn.map toLowerB) : nameMatches kn (nm ++ d :: rest) = false := by
  induction nm generalizing kn with
  | nil =>
    cases kn with
    | nil => simp at hne
    | cons y ys =>
      have : eqCl d y = false := by
        rw [eqCl_eq]; simp only [decide_eq_false_iff_not]
        exact fun h => hkn y (by simp) h.symm
      simp [nameMatches, prefixCl, this]
  | cons x xs ih =>
    cases kn with
    | nil =>
      have := hnm x (by simp)
      simp [nameMatches, prefixCl, this]
    | cons y ys =>
      have hstep : nameMatches (y :: ys) ((x :: xs) ++ d :: rest) = (eqCl x y && nameMatches ys (xs ++ d :: rest)) := by
        simp [nameMatches, prefixCl, Bool.and_assoc]
      rw [hstep]
      cases hxy : eqCl x y
      · rfl
      · have hl : toLowerB x = toLowerB y := (eqCl_iff x y).mp hxy
        have := ih ys (fun c hc => hnm c (by simp [hc])) (fun c hc => hkn c (by simp [hc]))
          (by intro h; apply hne; simp [hl, h])
        simp [this]

theorem findName_unknown (names : List Bytes) (k : Nat) (nm : Bytes) (d : UInt8) (rest : Bytes)
    (hnm : ∀ c ∈ nm, isDelim c = false) (hkn : ∀ kn ∈ names, ∀ c ∈ kn, toLowerB c ≠ toLowerB d)
    (hne : ∀ kn ∈ names, nm.map toLowerB ≠ kn.map toLowerB) : findName names k (nm ++ d :: rest) = none := by
  induction names generalizing k with
  | nil => rfl
  | cons kn t ih =>
    simp only [findName, nameMatches_unknown kn nm d rest hnm (hkn kn (by simp)) (hne kn (by simp)),
      Bool.false_eq_true, if_false]
    exact ih (k + 1) (fun x hx => hkn x (by simp [hx])) (fun x hx => hne x (by simp [hx]))

/-- no table name contains SP, HT, '=' or ',' (in either letter case) -/
theorem paramNames_chars : ∀ kn ∈ paramNames, ∀ c ∈ kn, ∀ d : UInt8, (d = 32 ∨ d = 9 ∨ d = 61 ∨ d = 44) →
    toLowerB c ≠ toLowerB d := by
  have : ∀ kn ∈ paramNames, ∀ c ∈ kn, toLowerB c ≠ 32 ∧ toLowerB c ≠ 9 ∧ toLowerB c ≠ 61 ∧ toLowerB c ≠ 44 := by decide
  intro kn hkn c hc d hd
  obtain ⟨h1, h2, h3, h4⟩ := this kn hkn c hc
  rcases hd with h | h | h | h <;> subst h
  · exact h1
  · exact h2
  · exact h3
  · exact h4

def rawViewG (gs : List GElem) (init : Option (Bytes × Bool)) (k : Nat) : Option (Bytes × Bool) :=
  gs.foldl (fun acc g => match g with
    | .known e => if e.item.slot = k then some (rawOf e, quotedOf e) else acc
    | _ => acc) init

theorem ws_plain (w : Bytes) (h : allWs w = true) : w.all plainByte = true := by
  induction w with
  | nil => rfl
  | cons c r ih =>
    simp only [allWs, List.all_cons, Bool.and_eq_true, isWs_iff] at h
    simp only [List.all_cons, Bool.and_eq_true]
    refine ⟨?_, ih (by simpa [allWs] using h.2)⟩
    rcases h.1 with h | h <;> subst h <;> decide

theorem skipU_tail (tail : Bytes) (h : TailOK tail) : skipU false tail = .ok tail := by
  rcases h with h | ⟨m, h⟩ <;> subst h
  · exact skipU_false_nil
  · simp [skipU_false_cons]

/-- an extension parameter is skipped, whatever its name, form and value -/
theorem paramLoop_ext (t : UInt8) (n fuel : Nat) (st : Slots) (nm : Bytes) (r : ItemR) (v : Bytes) (tail : Bytes)
    (hwf : (GElem.ext nm r v).wf = true) (htl : TailOK tail) :
    paramLoop (some t) n (fuel + 1) st ((GElem.ext nm r v).render ++ tail) =
      paramLoop (some t) n fuel st (nextParam tail) := by
  simp only [GElem.wf, Bool.and_eq_true, Bool.not_eq_true', List.isEmpty_eq_false_iff] at hwf
  obtain ⟨⟨⟨⟨⟨⟨⟨hne, hnb⟩, hunk⟩, hw1⟩, hw2⟩, hw3⟩, _⟩, hform⟩ := hwf
  obtain ⟨c, nr, rfl⟩ := List.exists_cons_of_ne_nil hne
  have hnb' : ∀ x ∈ c :: nr, isDelim x = false ∧ x ≠ 0 ∧ x ≠ 34 := by
    intro x hx
    have := List.all_eq_true.mp hnb x hx
    simp only [nameByte, Bool.and_eq_true, Bool.not_eq_true', bne_iff_ne, ne_eq, decide_eq_true_eq] at this
    exact ⟨this.1.1, this.1.2, this.2⟩
  have hc61 : c ≠ 61 := by
    intro h; have := (hnb' c (by simp)).1; rw [h] at this; simp [isDelim] at this
  obtain ⟨d, rest, hd, hdd⟩ := ws_eq_head r.ws1 (r.ws2 ++ (renderValue v r.form ++ (r.ws3 ++ tail))) hw1
  have hshape : (GElem.ext (c :: nr) r v).render ++ tail =
      (c :: nr) ++ (r.ws1 ++ 61 :: (r.ws2 ++ (renderValue v r.form ++ (r.ws3 ++ tail)))) := by
    simp [GElem.render, List.append_assoc]
  have hfind : findName paramNames 0 ((GElem.ext (c :: nr) r v).render ++ tail) = none := by
    rw [hshape, hd]
    apply findName_unknown
    · exact fun x hx => (hnb' x hx).1
    · intro kn hkn x hx
      exact paramNames_chars kn hkn x hx d (by rcases hdd with h | h | h <;> simp [h])
    · intro kn hkn
      have := List.all_eq_true.mp hunk kn hkn
      simpa using this
  have hname : (c :: nr).all plainByte = true := by
    apply List.all_eq_true.mpr
    intro x hx
    obtain ⟨h1, h2, h3⟩ := hnb' x hx
    simp only [isDelim, Bool.or_eq_false_iff, decide_eq_false_iff_not] at h1
    simp [plainByte, h1.1.2, h1.2, h2, h3]
  have hval : skipU false (renderValue v r.form ++ (r.ws3 ++ tail)) = .ok tail := by
    cases hf : r.form with
    | token =>
      rw [hf] at hform
      simp only [Bool.and_eq_true, Bool.not_eq_true', List.isEmpty_eq_false_iff] at hform
      have hv : v.all plainByte = true := by
        apply List.all_eq_true.mpr
        intro x hx
        have := List.all_eq_true.mp hform.2 x hx
        simp only [tokByte, Bool.and_eq_true, bne_iff_ne, ne_eq, decide_eq_true_eq] at this
        simp [plainByte, this.1.1.2, this.1.1.1.1.1.2, this.1.2, this.2]
      simp only [renderValue]
      rw [skipU_plain _ _ hv, skipU_plain _ _ (ws_plain _ hw3), skipU_tail _ htl]
    | quoted esc =>
      rw [hf] at hform
      have hv : ∀ x ∈ v, x ≠ 0 := by
        intro x hx
        have := List.all_eq_true.mp hform x hx
        simpa using this
      simp only [renderValue, List.cons_append, List.append_assoc, List.singleton_append, List.nil_append]
      rw [skipU_false_cons]
      simp only [show (34 : UInt8) ≠ 44 by decide, show ¬ ((34 : UInt8) = 0 ∨ (34 : UInt8) = 59) by decide, if_false, if_true]
      rw [skipU_quoted esc v _ hv, skipU_plain _ _ (ws_plain _ hw3), skipU_tail _ htl]
  have hskip : skipU false ((GElem.ext (c :: nr) r v).render ++ tail) = .ok tail := by
    rw [hshape, skipU_plain _ _ hname, skipU_plain _ _ (ws_plain _ hw1), skipU_false_cons]
    simp only [show (61 : UInt8) ≠ 44 by decide, show ¬ ((61 : UInt8) = 0 ∨ (61 : UInt8) = 59) by decide,
      show (61 : UInt8) ≠ 34 by decide, if_false]
    rw [skipU_plain _ _ (ws_plain _ hw2), hval]
  have hcons : (GElem.ext (c :: nr) r v).render ++ tail =
      c :: (nr ++ (r.ws1 ++ 61 :: (r.ws2 ++ (renderValue v r.form ++ (r.ws3 ++ tail))))) := by
    rw [hshape]; rfl
  rw [hcons, paramLoop.eq_3, ← hcons]
  simp only [hc61, if_false, hfind, hskip, Res.bind_ok]

/-- an empty list element (a comma right where a parameter could start) is stepped over -/
theorem paramLoop_comma (t : UInt8) (n fuel : Nat) (st : Slots) (more : Bytes) :
    paramLoop (some t) n (fuel + 1) st (44 :: more) = paramLoop (some t) n fuel st (skipWs more) := by
  have hfind : findName paramNames 0 (44 :: more) = none := by
    have := findName_unknown paramNames 0 [] 44 more (by simp)
      (fun kn hkn x hx => paramNames_chars kn hkn x hx 44 (by simp))
      (fun kn hkn => by
        have : ∀ kn ∈ paramNames, ([] : Bytes).map toLowerB ≠ kn.map toLowerB := by decide
        exact this kn hkn)
    simpa using this
  rw [paramLoop.eq_3]
  simp only [show (44 : UInt8) ≠ 61 by decide, if_false, hfind, skipU_false_cons, if_true, Res.bind_ok, nextParam]

theorem GElem.render_nonempty (g : GElem) (h : g.wf = true) (hne : ∀ w, g ≠ .empty w) : 0 < g.render.length := by
  cases g with
  | known e => simp [GElem.render, renderElem]; omega
  | ext n r v => simp [GElem.render]; omega
  | empty w => exact absurd rfl (hne w)

/-- first byte of a rendered list: nothing, a comma, or a name byte; never SP/HT -/
theorem renderGList_head (gs : List GElem) (hwf : gs.all GElem.wf = true) :
    renderGList gs = [] ∨ ∃ c r, renderGList gs = c :: r ∧ isWs c = false := by
  cases gs with
  | nil => left; rfl
  | cons g gs' =>
    simp only [List.all_cons, Bool.and_eq_true] at hwf
    have hg : g.render = [] ∨ ∃ c r, g.render = c :: r ∧ isWs c = false := by
      cases g with
      | known e =>
        obtain ⟨c, r, h1, h2⟩ := renderList_head e [] hwf.1
        exact Or.inr ⟨c, r, by simpa [renderList, GElem.render] using h1, h2⟩
      | ext nm r v =>
        have hw := hwf.1
        simp only [GElem.wf, Bool.and_eq_true, Bool.not_eq_true', List.isEmpty_eq_false_iff] at hw
        obtain ⟨⟨⟨⟨⟨⟨⟨hne, hnb⟩, _⟩, _⟩, _⟩, _⟩, _⟩, _⟩ := hw
        obtain ⟨c, nr, rfl⟩ := List.exists_cons_of_ne_nil hne
        have := List.all_eq_true.mp hnb c (by simp)
        simp only [nameByte, Bool.and_eq_true, Bool.not_eq_true', bne_iff_ne, ne_eq, decide_eq_true_eq, isDelim,
          Bool.or_eq_false_iff, decide_eq_false_iff_not] at this
        exact Or.inr ⟨c, nr ++ r.ws1 ++ 61 :: (r.ws2 ++ renderValue v r.form ++ r.ws3), by simp [GElem.render], by simp [isWs, this.1.1.1.1.1.2, this.1.1.1.1.2]⟩
      | empty w => left; rfl
    cases gs' with
    | nil => simpa [renderGList] using hg
    | cons g' gs'' =>
      rcases hg with h | ⟨c, r, h1, h2⟩
      · exact Or.inr ⟨44, g.ws4 ++ renderGList (g' :: gs''), by simp [renderGList, h], by decide⟩
      · exact Or.inr ⟨c, r ++ 44 :: (g.ws4 ++ renderGList (g' :: gs'')), by simp [renderGList, h1], h2⟩

theorem GElem.wf_ws4 (g : GElem) (h : g.wf = true) : allWs g.ws4 = true := by
  cases g with
  | known e => exact (e.wf_ws h).2.2.2.2
  | ext n r v =>
    simp only [GElem.wf, Bool.and_eq_true] at h
    exact h.1.2
  | empty w => exact h

theorem paramLoop_renderGList (t : UInt8) (ht : t ≠ 59) (n : Nat) (gs : List GElem) :
    ∀ (fuel : Nat) (st : Slots), gs.all GElem.wf = true → (renderGList gs).length < fuel →
      ∃ st', paramLoop (some t) n fuel st (renderGList gs) = .ok st' ∧
        ∀ k, (st' k).map pr = rawViewG gs ((st k).map pr) k := by
  induction gs with
  | nil =>
    intro fuel st _ hf
    cases fuel with
    | zero => omega
    | succ f => exact ⟨st, by simp [renderGList, paramLoop.eq_2], fun k => rfl⟩
  | cons g gs ih =>
    intro fuel st hwf hf
    simp only [List.all_cons, Bool.and_eq_true] at hwf
    cases fuel with
    | zero => omega
    | succ f =>
      -- the rest of the list, as the loop sees it after this element
      have hrest : ∀ (st1 : Slots) (tail : Bytes), TailOK tail →
          (tail = [] ∧ gs = [] ∨ ∃ g' gs', gs = g' :: gs' ∧ tail = 44 :: (g.ws4 ++ renderGList gs)) →
          (nextParam tail).length < f →
          ∃ st', paramLoop (some t) n f st1 (nextParam tail) = .ok st' ∧
            ∀ k, (st' k).map pr = rawViewG gs ((st1 k).map pr) k := by
        intro st1 tail _ hcase hlen
        rcases hcase with ⟨h1, h2⟩ | ⟨g', gs', h2, h1⟩
        · subst h1; subst h2
          cases f with
          | zero => simp [nextParam] at hlen
          | succ f' => exact ⟨st1, by simp [nextParam, paramLoop.eq_2], fun k => rfl⟩
        · have hnext : nextParam tail = renderGList gs := by
            rw [h1]
            simp only [nextParam]
            rw [skipWs_append _ _ (g.wf_ws4 hwf.1)]
            exact skipWs_stop _ (renderGList_head gs hwf.2)
          rw [hnext] at hlen ⊢
          exact ih f st1 hwf.2 hlen
      cases gs with
      | nil =>
        -- last element: tail = []
        cases g with
        | known e =>
          obtain ⟨off, hit⟩ := paramLoop_elem t ht n f st e [] hwf.1 (Or.inl rfl)
          simp only [List.append_nil] at hit
          have hlen : (nextParam ([] : Bytes)).length < f := by
            have := GElem.render_nonempty (.known e) hwf.1 (by simp)
            simp [renderGList, nextParam] at hf ⊢; omega
          obtain ⟨st', h1, h2⟩ := hrest (st.set e.item.slot ⟨off, rawOf e, quotedOf e⟩) [] (Or.inl rfl) (Or.inl ⟨rfl, rfl⟩) hlen
          refine ⟨st', by simpa [renderGList, GElem.render, hit] using h1, ?_⟩
          intro k
          rw [h2 k]
          unfold Slots.set
          by_cases hk : k = e.item.slot
          · simp [rawViewG, hk, pr]
          · have : ¬ e.item.slot = k := fun h => hk h.symm
            simp [rawViewG, hk, this]
        | ext nm r v =>
          have hit := paramLoop_ext t n f st nm r v [] hwf.1 (Or.inl rfl)
          simp only [List.append_nil] at hit
          have hlen : (nextParam ([] : Bytes)).length < f := by
            have := GElem.render_nonempty (.ext nm r v) hwf.1 (by simp)
            simp [renderGList, nextParam] at hf ⊢; omega
          obtain ⟨st', h1, h2⟩ := hrest st [] (Or.inl rfl) (Or.inl ⟨rfl, rfl⟩) hlen
          exact ⟨st', by simpa [renderGList, hit] using h1, fun k => by rw [h2 k]; simp [rawViewG]⟩
        | empty w =>
          exact ⟨st, by simp [renderGList, GElem.render, paramLoop.eq_2], fun k => by simp [rawViewG]⟩
      | cons g' gs' =>
        have htl : TailOK (44 :: (g.ws4 ++ renderGList (g' :: gs'))) := Or.inr ⟨_, rfl⟩
        have hnl : (nextParam (44 :: (g.ws4 ++ renderGList (g' :: gs')))).length ≤ (g.ws4 ++ renderGList (g' :: gs')).length := by
          simp only [nextParam]; exact skipWs_length _
        cases g with
        | known e =>
          obtain ⟨off, hit⟩ := paramLoop_elem t ht n f st e _ hwf.1 htl
          have hlen : (nextParam (44 :: ((GElem.known e).ws4 ++ renderGList (g' :: gs')))).length < f := by
            have := GElem.render_nonempty (.known e) hwf.1 (by simp)
            simp only [renderGList, List.length_append, List.length_cons] at hf hnl ⊢; omega
          obtain ⟨st', h1, h2⟩ := hrest (st.set e.item.slot ⟨off, rawOf e, quotedOf e⟩) _ htl (Or.inr ⟨g', gs', rfl, rfl⟩) hlen
          refine ⟨st', by rw [renderGList]; simp only [GElem.render, GElem.ws4] at hit h1 ⊢; rw [hit]; exact h1, ?_⟩
          intro k
          rw [h2 k]
          unfold Slots.set
          by_cases hk : k = e.item.slot
          · simp [rawViewG, hk, pr]
          · have : ¬ e.item.slot = k := fun h => hk h.symm
            simp [rawViewG, hk, this]
        | ext nm r v =>
          have hit := paramLoop_ext t n f st nm r v _ hwf.1 htl
          have hlen : (nextParam (44 :: ((GElem.ext nm r v).ws4 ++ renderGList (g' :: gs')))).length < f := by
            have := GElem.render_nonempty (.ext nm r v) hwf.1 (by simp)
            simp only [renderGList, List.length_append, List.length_cons] at hf hnl ⊢; omega
          obtain ⟨st', h1, h2⟩ := hrest st _ htl (Or.inr ⟨g', gs', rfl, rfl⟩) hlen
          exact ⟨st', by rw [renderGList, hit]; exact h1, fun k => by rw [h2 k]; simp [rawViewG]⟩
        | empty w =>
          have hit := paramLoop_comma t n f st (w ++ renderGList (g' :: gs'))
          have hlen : (nextParam (44 :: ((GElem.empty w).ws4 ++ renderGList (g' :: gs')))).length < f := by
            simp only [renderGList, GElem.render, List.nil_append, List.length_cons, List.length_append] at hf hnl ⊢; omega
          obtain ⟨st', h1, h2⟩ := hrest st _ htl (Or.inr ⟨g', gs', rfl, rfl⟩) hlen
          refine ⟨st', ?_, fun k => by rw [h2 k]; simp [rawViewG]⟩
          simp only [renderGList, GElem.render, List.nil_append, GElem.ws4, nextParam] at h1 hit ⊢
          rw [hit]; exact h1

theorem agree_foldG (gs : List GElem) (k : Nat) :
    ∀ (init : Option (Bytes × Bool)) (initv : Option Bytes), Agree init initv →
      Agree (rawViewG gs init k) (gs.foldl (fun acc g => match g with
        | .known e => if e.item.slot = k then some e.item.value else acc
        | _ => acc) initv) := by
  induction gs with
  | nil => intro init initv h; exact h
  | cons g gs ih =>
    intro init initv h
    simp only [rawViewG, List.foldl_cons]
    apply ih
    cases g with
    | known e =>
      by_cases hk : e.item.slot = k
      · simp only [hk, if_true]; exact denotes_elem e
      · simp only [hk, if_false]; exact h
    | ext _ _ _ => exact h
    | empty _ => exact h

/-- parse ∘ render for the full list grammar: known parameters in any rendering, interleaved with any
    extension parameters (token or quoted-string values) and empty list elements -/
theorem parseDigest_renderG (lead : Bytes) (gs : List GElem) (t : UInt8) (ht : t ≠ 59) (hwf : WFG lead gs = true) :
    ∃ d, parseDigest (renderG lead gs) (some t) = .ok d ∧
      (∀ k, (d.slots k).map paramUnq = viewG gs k) ∧
      d.algo3 = algoSem (viewG gs kAlgorithm) ∧ d.qop = qopSem (viewG gs kQop) ∧
      d.userhash = userhashSem (viewG gs kUserhash) := by
  simp only [WFG, Bool.and_eq_true] at hwf
  obtain ⟨hlead, hgs⟩ := hwf
  have hskip : skipWs (renderG lead gs) = renderGList gs := by
    unfold renderG
    rw [skipWs_append _ _ hlead]
    exact skipWs_stop _ (renderGList_head gs hgs)
  have hfuel : (renderGList gs).length < (renderG lead gs).length + 1 := by
    simp only [renderG, List.length_append]; omega
  obtain ⟨st', hrun, hview⟩ := paramLoop_renderGList t ht (renderG lead gs).length gs _ Slots.empty hgs hfuel
  refine ⟨_, by unfold parseDigest; rw [hskip, hrun]; rfl, ?_⟩
  have hag : ∀ k, Agree ((st' k).map pr) (viewG gs k) := by
    intro k
    rw [hview k]
    exact agree_foldG gs k none none trivial
  exact ⟨fun k => (slot_sem _ _ (hag k)).1, (slot_sem _ _ (hag kAlgorithm)).2.1,
    (slot_sem _ _ (hag kQop)).2.2.1, (slot_sem _ _ (hag kUserhash)).2.2.2⟩

end Mhd.Auth
