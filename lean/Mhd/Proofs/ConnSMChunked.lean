/-
  C05 — upload accounting for chunked framing (ghost field `chunkTotal`): definitions and the
  process_request_body level lemma.  The lifting to every event sequence (`CInv` preserved by `step`) is NOT finished.
-/
import Mhd.Proofs.ConnSMUpload
namespace Mhd.ConnSM
open Mhd.Gen.ConnState Mhd.Protocol

/-- upload accounting for chunked framing (ghost `chunkTotal` = sum of the chunk sizes declared so far) -/
def CInv {σ} (c : Conn σ) : Prop :=
  (c.state.toNat ≤ 4 → c.upOff = 0 ∧ c.chunkLeft = 0 ∧ c.chunkTotal = 0 ∧ c.haveChunked = false) ∧
  (5 ≤ c.state.toNat → c.state.toNat ≤ 21 → c.haveChunked = true → c.discard = false →
     c.upOff + c.chunkLeft = c.chunkTotal ∧ (c.inChunk = false → c.chunkLeft = 0)) ∧
  (5 ≤ c.state.toNat → c.state.toNat ≤ 7 → c.haveChunked = true → c.discard = false → c.remaining = 0 →
     c.state.toNat = 5 ∧ c.chunkLeft = 0) ∧
  (8 ≤ c.state.toNat → c.state.toNat ≤ 21 → c.haveChunked = true → c.discard = false → c.chunkLeft = 0)

theorem Safe.cinv {σ} {c : Conn σ} (h : Safe c) : CInv c := by
  unfold CInv
  rcases h with h | ⟨h1, h2⟩
  · refine ⟨fun _ => ?_, fun _ _ => ?_, fun _ _ => ?_, fun _ _ => ?_⟩ <;> omega
  · refine ⟨fun _ => ?_, fun _ _ _ hd => ?_, fun _ _ _ hd => ?_, fun _ _ _ hd => ?_⟩
    · omega
    all_goals (rw [h1] at hd; cases hd)

theorem CInv.congr {σ} {c c2 : Conn σ} (h : CInv c) (e1 : c2.state = c.state) (e2 : c2.upOff = c.upOff)
    (e3 : c2.remaining = c.remaining) (e4 : c2.chunkLeft = c.chunkLeft) (e5 : c2.haveChunked = c.haveChunked)
    (e6 : c2.discard = c.discard) (e7 : c2.chunkTotal = c.chunkTotal) (e8 : c2.inChunk = c.inChunk) : CInv c2 := by
  unfold CInv at h ⊢
  rw [e1, e2, e3, e4, e5, e6, e7, e8]; exact h

theorem dropResp_frame2 {σ} (c : Conn σ) : (dropResp c).1.chunkLeft = c.chunkLeft ∧
    (dropResp c).1.chunkTotal = c.chunkTotal ∧ (dropResp c).1.inChunk = c.inChunk := by
  unfold dropResp; split <;> simp

theorem suspendConn_frame2 {σ} (cfg : Cfg) (c : Conn σ) : (suspendConn cfg c).chunkLeft = c.chunkLeft ∧
    (suspendConn cfg c).chunkTotal = c.chunkTotal ∧ (suspendConn cfg c).inChunk = c.inChunk := by
  unfold suspendConn; split <;> simp

theorem notify_frame2 {σ} (c : Conn σ) (code : Nat) : (notify c code).1.chunkLeft = c.chunkLeft ∧
    (notify c code).1.chunkTotal = c.chunkTotal ∧ (notify c code).1.inChunk = c.inChunk := by
  unfold notify; split <;> simp

theorem queueResponse_cinv {σ} (env : IdleEnv) (c : Conn σ) (r : Resp) (h : CInv c) : CInv (queueResponse env c r).1 := by
  unfold queueResponse
  split
  · exact h
  · split
    · exact h
    · split
      · exact h
      · split
        · exact h
        · by_cases h5 : c.state = .headersProcessed
          · apply Safe.cinv; right; simp [h5]
          · simp only [h5, if_false]
            exact h.congr rfl rfl rfl rfl rfl rfl rfl rfl

theorem callApp_cinv0 {σ} (cfg : Cfg) (app : App σ) (env : IdleEnv) (c : Conn σ) (site : Site) (h : CInv c) :
    CInv (callApp cfg app env c site 0).1 := by
  unfold callApp
  simp only [Nat.min_zero, Nat.add_zero]
  split
  · exact h.congr rfl rfl rfl rfl rfl rfl rfl rfl
  · exact h.congr rfl rfl rfl rfl rfl rfl rfl rfl
  · refine h.congr ?_ ?_ ?_ ?_ ?_ ?_ ?_ ?_ <;> simp [suspendConn_frame, suspendConn_frame2]
  · exact queueResponse_cinv env _ _ (h.congr rfl rfl rfl rfl rfl rfl rfl rfl)

theorem callConnectionHandler_cinv {σ} (cfg : Cfg) (app : App σ) (env : IdleEnv) (c : Conn σ) (site : Site) (h : CInv c) :
    CInv (callConnectionHandler cfg app env c site).1 := by
  unfold callConnectionHandler
  split
  · exact h
  · have := callApp_cinv0 cfg app env c site h
    generalize callApp cfg app env c site 0 = r at this
    obtain ⟨c1, l, ret, tk⟩ := r
    simp only at this ⊢
    split
    · exact (closeError_safe _).cinv
    · exact this

theorem callApp_upload_frame2 {σ} (cfg : Cfg) (app : App σ) (env : IdleEnv) (c : Conn σ) (off : Nat)
    (hst : c.state = .bodyReceiving) :
    (callApp cfg app env c .upload off).1.chunkLeft = c.chunkLeft ∧
    (callApp cfg app env c .upload off).1.chunkTotal = c.chunkTotal ∧
    (callApp cfg app env c .upload off).1.inChunk = c.inChunk := by
  unfold callApp
  simp only
  split
  · exact ⟨rfl, rfl, rfl⟩
  · exact ⟨rfl, rfl, rfl⟩
  · exact ⟨by simp [suspendConn_frame2], by simp [suspendConn_frame2], by simp [suspendConn_frame2]⟩
  · have hq : ∀ (c0 : Conn σ) (r : Resp), c0.state = .bodyReceiving → (queueResponse env c0 r).1 = c0 := by
      intro c0 r h0
      unfold queueResponse
      split
      · rfl
      · simp [h0]
    rw [hq _ _ (by simpa using hst)]
    exact ⟨rfl, rfl, rfl⟩

/-- what process_request_body keeps (state BODY_RECEIVING, chunked, upload not discarded) -/
def BInv {σ} (c : Conn σ) : Prop :=
  c.haveChunked = true → c.discard = false →
    c.upOff + c.chunkLeft = c.chunkTotal ∧ (c.inChunk = false → c.chunkLeft = 0) ∧ (c.remaining = 0 → c.chunkLeft = 0)

theorem processBody_binv {σ} (cfg : Cfg) (app : App σ) (env : IdleEnv) :
    ∀ (n : Nat) (buf : List Tok) (c : Conn σ), c.state = .bodyReceiving → BInv c →
      (c.haveChunked = true → c.discard = false → c.remaining ≠ 0) →
      Safe (processBody cfg app env n buf c).1 ∨
      ((processBody cfg app env n buf c).1.state = .bodyReceiving ∧ BInv (processBody cfg app env n buf c).1) := by
  intro n
  induction n with
  | zero => intro buf c hst h _; simp only [processBody]; right; exact ⟨hst, h⟩
  | succ n ih =>
    intro buf c hst h hrem
    have hte : ∀ (b : List Tok), Safe (transmitError cfg env { c with buf := b }).1 ∨
        ((transmitError cfg env { c with buf := b }).1.state = .bodyReceiving ∧ BInv (transmitError cfg env { c with buf := b }).1) :=
      fun b => Or.inl (transmitError_safe _ _ _)
    cases buf with
    | nil => simp only [processBody]; right; exact ⟨hst, h⟩
    | cons tok t =>
      cases tok with
      | junk =>
        simp only [processBody]
        split
        · right; exact ⟨hst, h⟩
        · exact ih _ c hst h hrem
      | data k =>
        simp only [processBody]
        split
        · exact ih _ c hst h hrem
        · split
          · exact hte _
          · split
            · split
              · exact hte _
              · right; exact ⟨hst, h⟩
            · rename_i hk hnc hoffne
              obtain ⟨f1, f2, f3, f4, f5, f6, f7⟩ := callApp_upload_frame cfg app env c (bodyOffer c k) hst
              obtain ⟨g1, g2, g3⟩ := callApp_upload_frame2 cfg app env c (bodyOffer c k) hst
              have hau : BInv (afterUpload (callApp cfg app env c .upload (bodyOffer c k)).1
                    (callApp cfg app env c .upload (bodyOffer c k)).2.2.2) ∧
                  ((afterUpload (callApp cfg app env c .upload (bodyOffer c k)).1
                    (callApp cfg app env c .upload (bodyOffer c k)).2.2.2).haveChunked = true →
                   (afterUpload (callApp cfg app env c .upload (bodyOffer c k)).1
                    (callApp cfg app env c .upload (bodyOffer c k)).2.2.2).discard = false →
                   (afterUpload (callApp cfg app env c .upload (bodyOffer c k)).1
                    (callApp cfg app env c .upload (bodyOffer c k)).2.2.2).remaining ≠ 0) := by
                unfold BInv at h ⊢
                unfold afterUpload
                by_cases hch : c.haveChunked = true
                · rw [if_pos (by rw [f6]; exact hch)]
                  simp only [f2, f4, f6, f7, g1, g2, g3]
                  have hoff : bodyOffer c k ≤ c.chunkLeft := by unfold bodyOffer; simp [hch]; exact Nat.min_le_left _ _
                  have hin : c.inChunk = true := by
                    cases hh : c.inChunk
                    · exact absurd ⟨hch, by simp [hh]⟩ hnc
                    · rfl
                  refine ⟨fun _ hd => ?_, fun _ hd => hrem hch hd⟩
                  obtain ⟨a1, a2, a3⟩ := h hch hd
                  refine ⟨by omega, fun hi => ?_, fun hr => absurd hr (hrem hch hd)⟩
                  rw [hin] at hi; cases hi
                · have hch' : c.haveChunked = false := by cases hh : c.haveChunked <;> simp_all
                  rw [if_neg (by rw [f6]; exact hch)]
                  simp only [f6, hch']
                  exact ⟨fun hx => (by cases hx), fun hx => (by cases hx)⟩
              split
              · left; exact closeError_safe _
              · split
                · exact ih _ _ (by rw [(afterUpload_frame _ _).1]; exact f1) hau.1 hau.2
                · right
                  refine ⟨by show (afterUpload _ _).state = _; rw [(afterUpload_frame _ _).1]; exact f1, ?_⟩
                  exact hau.1
      | chunkEnd =>
        simp only [processBody]
        split
        · rename_i hc
          have h' : BInv { c with inChunk := false } := by
            unfold BInv at h ⊢
            intro a b
            obtain ⟨a1, a2, a3⟩ := h a b
            exact ⟨a1, fun _ => hc.2.2, a3⟩
          split
          · right; exact ⟨hst, by unfold BInv at h' ⊢; exact h'⟩
          · exact ih _ _ hst h' hrem
        · exact hte _
      | chunkHdr k =>
        simp only [processBody]
        split
        · rename_i hc
          have hnin : c.inChunk = false := by cases hh : c.inChunk <;> simp_all
          split
          · right
            refine ⟨hst, ?_⟩
            unfold BInv at h ⊢
            intro a b
            obtain ⟨a1, a2, a3⟩ := h a b
            exact ⟨a1, a2, fun _ => a2 hnin⟩
          · have h' : BInv { c with inChunk := true, chunkLeft := k, chunkTotal := c.chunkTotal + k } := by
              unfold BInv at h ⊢
              intro a b
              obtain ⟨a1, a2, a3⟩ := h a b
              have := a2 hnin
              refine ⟨by simp only; omega, fun hx => (by cases hx), fun hr => absurd hr (hrem a b)⟩
            split
            · right; exact ⟨hst, by unfold BInv at h' ⊢; exact h'⟩
            · exact ih _ _ hst h' hrem
        · exact hte _
      | line k => simp only [processBody]; exact hte _
      | headers f ka e => simp only [processBody]; exact hte _
      | hdrBad => simp only [processBody]; exact hte _
      | chunkBad => simp only [processBody]; exact hte _
      | footers ok => simp only [processBody]; exact hte _
end Mhd.ConnSM
