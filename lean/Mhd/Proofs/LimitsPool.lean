/-
  C09 helper lemmas, part 7: the split of the connection limit among the
  workers of a thread pool loses nothing and adds nothing.
-/
import Mhd.Proofs.LimitsStep

namespace Mhd.Limits

theorem sum_range_split (c m : Nat) : ∀ n, ((List.range n).map (fun i => c + if i < m then 1 else 0)).sum = n * c + min m n := by
  intro n
  induction n with
  | zero => simp
  | succ n ih =>
    rw [List.range_succ, List.map_append, List.sum_append, ih, Nat.succ_mul]
    simp only [List.map_cons, List.map_nil, List.sum_cons, List.sum_nil, Nat.add_zero]
    by_cases h : n < m
    · simp only [h, if_true]; omega
    · simp only [h, if_false]; omega

/-- the workers' limits sum to the configured limit -/
theorem workerLimits_sum (limit n : Nat) (hn : 0 < n) : (workerLimits limit n).sum = limit := by
  unfold workerLimits
  have h := sum_range_split (limit / n) (limit % n) n
  have hm : limit % n < n := Nat.mod_lt _ hn
  have hd := Nat.div_add_mod limit n
  have e : (fun i => splitLimit limit n i) = (fun i => limit / n + if i < limit % n then 1 else 0) := by
    funext i; rfl
  rw [show (List.map (splitLimit limit n) (List.range n)) = (List.range n).map (fun i => limit / n + if i < limit % n then 1 else 0) from by rw [← e]]
  rw [h, Nat.min_eq_left (Nat.le_of_lt hm)]
  exact hd

theorem sum_range_le (f g : Nat → Nat) : ∀ n, (∀ i, i < n → f i ≤ g i) →
    ((List.range n).map f).sum ≤ ((List.range n).map g).sum := by
  intro n
  induction n with
  | zero => intro _; simp
  | succ n ih =>
    intro h
    rw [List.range_succ, List.map_append, List.map_append, List.sum_append, List.sum_append]
    have := ih (fun i hi => h i (Nat.lt_succ_of_lt hi))
    have := h n (Nat.lt_succ_self n)
    simp only [List.map_cons, List.map_nil, List.sum_cons, List.sum_nil, Nat.add_zero]
    omega

theorem sum_range_eq (f g : Nat → Nat) : ∀ n, (∀ i, i < n → f i = g i) →
    ((List.range n).map f).sum = ((List.range n).map g).sum := by
  intro n
  induction n with
  | zero => intro _; simp
  | succ n ih =>
    intro h
    rw [List.range_succ, List.map_append, List.map_append, List.sum_append, List.sum_append,
        ih (fun i hi => h i (Nat.lt_succ_of_lt hi))]
    simp [h n (Nat.lt_succ_self n)]

/-- a worker chosen by MHD_add_connection has room -/
theorem pickWorker_room (conns limits : Nat → Nat) (n off j : Nat) (h : pickWorker conns limits n off = some j) :
    conns j < limits j := by
  unfold pickWorker at h
  obtain ⟨k, _, hk⟩ := List.exists_of_findSome?_eq_some h
  split at hk
  · rename_i hc; simp at hk; subst hk; exact hc
  · simp at hk

end Mhd.Limits
