/-
  Completeness of a whole epoll round: every live connection that is expired when the round begins is
  closed with the timeout code by that round.
-/
import Mhd.Proofs.TmoComplete
namespace Mhd.Tmo
open Mhd.Gen.Tmo

/-- the part of a connection record the timeout logic reads or reports -/
def Core (c c' : Conn) : Prop :=
  c'.la = c.la ∧ c'.tmo = c.tmo ∧ c'.suspended = c.suspended ∧ c'.closed = c.closed ∧ c'.aware = c.aware ∧
  c'.replying = c.replying

/-- connection `i` is still live and its core record is untouched -/
def Keep (i : Id) (d d' : Daemon) : Prop :=
  d'.now = d.now ∧ d'.back = d.back ∧ d'.cfg = d.cfg ∧ (i ∈ d.conns → i ∈ d'.conns) ∧ Core (d.c i) (d'.c i)

theorem Core.refl (c : Conn) : Core c c := ⟨rfl, rfl, rfl, rfl, rfl, rfl⟩

theorem Keep.refl (i : Id) (d : Daemon) : Keep i d d := ⟨rfl, rfl, rfl, fun h => h, Core.refl _⟩

theorem Keep.trans {i : Id} {a b c : Daemon} (h1 : Keep i a b) (h2 : Keep i b c) : Keep i a c := by
  obtain ⟨a1, a0, a2, a3, a4⟩ := h1
  obtain ⟨b1, b0, b2, b3, b4⟩ := h2
  refine ⟨by rw [b1, a1], by rw [b0, a0], by rw [b2, a2], fun h => b3 (a3 h), ?_⟩
  unfold Core at *
  grind

theorem keep_of_others {i j : Id} {d d' : Daemon} (o : Others j d d') (hij : i ≠ j) : Keep i d d' := by
  have x := o.2.2.2.2 i hij
  refine ⟨o.2.2.2.1.1, o.2.2.2.1.2, o.2.2.1, fun h => x.1.2 h, ?_⟩
  rw [x.2.2.2]; exact Core.refl _

theorem keep_epollEvent (i j : Id) (d : Daemon) : Keep i d (epollEvent d j) := by
  have same := epollEvent_same d j
  refine ⟨?_, ?_, same.2.2, fun h => by rw [same.1]; exact h, ?_⟩
  · unfold epollEvent; dsimp only; repeat' split
    all_goals rfl
  · unfold epollEvent; dsimp only; repeat' split
    all_goals rfl
  · unfold epollEvent Core
    dsimp only
    repeat' split
    all_goals (by_cases e : i = j <;> simp [e])

theorem foldl_keep {i : Id} {f : Daemon → Id → Daemon} {P : Daemon → Id → Prop}
    (hf : ∀ d j, P d j → Keep i d (f d j)) (hp : ∀ d j k, P d j → P d k → P (f d j) k) :
    ∀ (l : List Id) (d : Daemon), (∀ j, j ∈ l → P d j) → Keep i d (l.foldl f d)
  | [], d, _ => Keep.refl i d
  | j :: rest, d, h => by
    rw [List.foldl_cons]
    have hj := h j (List.mem_cons_self ..)
    refine Keep.trans (hf d j hj) (foldl_keep hf hp rest (f d j) ?_)
    intro k hk
    exact hp d j k hj (h k (List.mem_cons_of_mem _ hk))

theorem keep_flags (i : Id) (d d' : Daemon) (h1 : d'.now = d.now) (h0 : d'.back = d.back) (h2 : d'.cfg = d.cfg)
    (h3 : d'.conns = d.conns) (h4 : d'.c = d.c) : Keep i d d' :=
  ⟨h1, h0, h2, fun h => by rw [h3]; exact h, by rw [h4]; exact Core.refl _⟩

theorem keep_resume (v : Variant) {d : Daemon} (h : Inv d) (i : Id) (hi : i ∈ d.conns) :
    Keep i d (if d.cfg.allowSuspend then resumeSuspended v d else d) := by
  have hns : i ∉ d.susp := fun x => by have a := h.suspS i x; have b := h.connsS i hi; rw [a] at b; cases b
  split
  · unfold resumeSuspended
    dsimp only
    refine Keep.trans (keep_flags i d { d with resuming := false } rfl rfl rfl rfl rfl) ?_
    refine foldl_keep (P := fun _ j => j ≠ i) (fun d' j hj => keep_of_others (others_resumeOne v d' j) (Ne.symm hj))
      (fun _ _ _ _ hk => hk) _ _ ?_
    intro j hj
    split at hj
    · intro e; subst e; exact hns (List.mem_reverse.1 hj)
    · simp at hj
  · exact Keep.refl i d

theorem keep_epollWait (i : Id) (d : Daemon) : Keep i d (epollWait d) := by
  unfold epollWait
  refine Keep.trans (keep_flags i d _ rfl rfl rfl rfl rfl) ?_
  exact foldl_keep (P := fun _ _ => True) (fun d'' j _ => keep_epollEvent i j d'') (fun _ _ _ _ _ => trivial) _ _
    (fun _ _ => trivial)

theorem keep_processNew (v : Variant) {d : Daemon} (h : Inv d) (i : Id) (hi : i ∈ d.conns) :
    Keep i d (processNew v d).1 := by
  have hnn : i ∉ d.newL := fun x => (h.disjNew i x).1 hi
  unfold processNew
  split
  · dsimp only
    refine Keep.trans (keep_flags i d { d with newL := [], haveNew := false } rfl rfl rfl rfl rfl) ?_
    refine foldl_keep (P := fun _ j => j ≠ i) (fun d'' j hj => keep_of_others (others_processOneNew v d'' j) (Ne.symm hj))
      (fun _ _ _ _ hk => hk) _ _ ?_
    intro j hj e; subst e
    exact hnn (List.mem_reverse.1 hj)
  · exact Keep.refl i d

/-- the manual-list scan does not touch connections outside the scanned list -/
theorem keep_scanManual (i : Id) : ∀ (l : List Id) (d : Daemon), i ∉ l → Keep i d (scanManual l d).1
  | [], d, _ => Keep.refl i d
  | j :: rest, d, hi => by
    unfold scanManual seq2
    dsimp only
    have hij : i ≠ j := fun e => hi (e ▸ List.mem_cons_self ..)
    exact Keep.trans (keep_of_others (others_handleIdleP d j) hij)
      (keep_scanManual i rest _ (fun x => hi (List.mem_cons_of_mem _ x)))

/-- **Completeness of an epoll round.**  In a state satisfying the invariant, every live connection
    that is expired when the round begins is closed for timeout by that round (with the termination
    code TIMEOUT_REACHED reported iff the application knows the request). -/
theorem roundEpoll_complete {v : Variant} (hv : Fixed v) {d : Daemon} (h : Inv d) (hnow : d.now < 2 ^ 62)
    (hback : d.back ≤ jumpBackLimit) (i : Id) (hi : i ∈ d.conns) (hc : (d.c i).closed = false) (ht : checkTimedOut d.now (d.c i) = true) :
    Event.tmoClose i (d.c i).aware ∈ (roundEpoll v d).2 := by
  -- states along the round
  let d1 := if d.cfg.allowSuspend then resumeSuspended v d else d
  let d2 := epollWait { d1 with dataPending := false }
  let d3 := (processNew v d2).1
  have h1 : Inv d1 := by
    show Inv (if d.cfg.allowSuspend then resumeSuspended v d else d); split; exact inv_resumeSuspended hv.2.2.2.2 h; exact h
  have h2 : Inv d2 := inv_epollWait (inv_flag h1 false)
  have h3 : Inv d3 := inv_processNew hv h2
  have k1 : Keep i d d1 := keep_resume v h i hi
  have k2 : Keep i d d2 := Keep.trans (Keep.trans k1 (keep_flags i d1 { d1 with dataPending := false } rfl rfl rfl rfl rfl))
    (keep_epollWait i _)
  have k3 : Keep i d d3 := Keep.trans k2 (keep_processNew v h2 i (k2.2.2.2.1 hi))
  obtain ⟨n1, n0, n2, n3, n4⟩ := k3
  have hc3 : (d3.c i).closed = false := by rw [n4.2.2.2.1]; exact hc
  have haw : (d3.c i).aware = (d.c i).aware := n4.2.2.2.2.1
  have ht3 : checkTimedOut d3.now (d3.c i) = true := by
    rw [n1]; unfold checkTimedOut at ht ⊢; rw [n4.1, n4.2.1, n4.2.2.1]; exact ht
  have hi3 : i ∈ d3.conns := n3 hi
  -- the events of the round contain those of the two scans
  have hev : ∀ e, (e ∈ (scanManual d3.manual.reverse d3).2 ∨
      e ∈ (scanNormal (scanManual d3.manual.reverse d3).1.normal.reverse (scanManual d3.manual.reverse d3).1).2) →
      e ∈ (roundEpoll v d).2 := by
    intro e he
    unfold roundEpoll
    simp only [seq2_events]
    rcases he with x | x
    · simp only [List.mem_append]; left; left; left; right; exact x
    · simp only [List.mem_append]; left; left; right; exact x
  by_cases hm : (d3.c i).tmo = d3.cfg.dtmo
  · -- on the normal list: scanned after the manual list, which leaves it alone
    have him : i ∉ d3.manual.reverse := fun x => h3.manualT i (List.mem_reverse.1 x) hm
    have k4 := keep_scanManual i d3.manual.reverse d3 him
    have h4 : Inv (scanManual d3.manual.reverse d3).1 := inv_scanManual _ _ h3 (nodup_reverse' h3.ndManual)
      (fun j hj => (h3.connsIff j).2 (Or.inr (List.mem_reverse.1 hj)))
    obtain ⟨m1, m0, m2, m3, m4⟩ := k4
    have hin : i ∈ (scanManual d3.manual.reverse d3).1.normal :=
      mem_normal_of_conns h4 (m3 hi3) (by rw [m4.2.1, m2]; exact hm)
    have := scanNormal_complete h4 (by rw [m1, n1]; exact hnow) (by rw [m0, n0]; exact hback) i hin (by rw [m4.2.2.2.1]; exact hc3)
      (by rw [m1]; unfold checkTimedOut at ht3 ⊢; rw [m4.1, m4.2.1, m4.2.2.1]; exact ht3)
    rw [m4.2.2.2.2.1, haw] at this
    exact hev _ (Or.inr this)
  · have him : i ∈ d3.manual := mem_manual_of_conns h3 hi3 hm
    have := scanManual_complete d3.manual.reverse d3 i (nodup_reverse' h3.ndManual) (List.mem_reverse.2 him) hc3 ht3
    rw [haw] at this
    exact hev _ (Or.inl this)

end Mhd.Tmo
