/-
  C19 helper lemmas, part 20: what one data frame does to a message under assembly — last
  frame, non-final frame in assembling mode, non-final frame in fragment mode.
-/
import Mhd.Proofs.WSFragFrame
namespace Mhd.WS

theorem Cfg.want {a b : WS} (h : Cfg a b) : b.wantFragments = a.wantFragments := by
  unfold WS.wantFragments; rw [h.1]

theorem Cfg.client {a b : WS} (h : Cfg a b) : b.isClient = a.isClient := by
  unfold WS.isClient; rw [h.1]

theorem Cfg.trans {a b c : WS} (h1 : Cfg a b) (h2 : Cfg b c) : Cfg a c :=
  ⟨h2.1.trans h1.1, h2.2.1.trans h1.2.1, h2.2.2.trans h1.2.2⟩

/-- status of a data frame handed out with FIN -/
def finStatus (want : Bool) (cont : Bool) (t' : Nat) : Int :=
  Int.ofNat (if want ∧ cont then t' ||| 0x40 else t')

theorem evOf_pos {st : Int} (h : st ≠ 0) (pl : Option (List UInt8)) (plen : Nat) : evOf st pl plen = [(st, pl, plen)] := by
  unfold evOf; rw [if_neg h]

theorem ofNat_or_ne_zero (t' m : Nat) (h : t' ≠ 0) : Int.ofNat (t' ||| m) ≠ 0 := by
  intro h0
  have h1 : t' ||| m = 0 := by simpa using h0
  have : t' = 0 := by
    have := Nat.or_eq_zero_iff.mp h1
    exact this.1
  exact h this

/-- the common hypotheses of the three frame theorems give: the new type is 1 or 2-ish (non-zero),
    and a non-text message has no validator state -/
theorem frame_types {ws : WS} {t : Nat} {acc : List UInt8} {u : Nat} (hb : Bnd ws t acc u 1) (b0 : UInt8) (t' : Nat)
    (hop : (opcodeOf b0 = 0 ∧ t ≠ 0 ∧ t' = t) ∨
           ((opcodeOf b0 = 1 ∨ opcodeOf b0 = 2) ∧ t = 0 ∧ acc = [] ∧ t' = opcodeOf b0)) :
    t' ≠ 0 ∧ (t' ≠ 1 → u = 0) ∧ (t = 0 → u = 0) := by
  have hu8 := hb.inv.u8a
  rw [hb.dtype, hb.u8] at hu8
  refine ⟨?_, ?_, fun h0 => hu8 (by omega)⟩
  · rcases hop with ⟨_, a, b⟩ | ⟨a | a, _, _, b⟩ <;> omega
  · intro h1
    rcases hop with ⟨_, _, b⟩ | ⟨_, a, _, _⟩
    · exact hu8 (by omega)
    · exact hu8 (by omega)

/-- **a data frame with FIN** ends the message: it is handed out whole (assembling mode), or
    as the last fragment together with what was kept back (fragment mode) -/
theorem data_frame_fin {ws : WS} {t : Nat} {acc : List UInt8} {u : Nat} (hb : Bnd ws t acc u 1)
    (b0 : UInt8) (hr : rsvBits b0 = 0) (hfin : finBit b0 = true) (t' : Nat)
    (hop : (opcodeOf b0 = 0 ∧ t ≠ 0 ∧ t' = t) ∨
           ((opcodeOf b0 = 1 ∨ opcodeOf b0 = 2) ∧ t = 0 ∧ acc = [] ∧ t' = opcodeOf b0))
    (p : List UInt8) (m1 m2 m3 m4 : UInt8) (masked : Bool) (hm : masked = !ws.isClient) (key : List UInt8)
    (hkey : key = if masked then [m1, m2, m3, m4] else [0, 0, 0, 0])
    (hn : acc.length + p.length < 2 ^ 63) (hmax : ws.maxPayload = 0 ∨ acc.length + p.length ≤ ws.maxPayload)
    (hal : acc.length + p.length + 1 ≤ ws.allocLimit)
    (hck : t' = 1 → checkUtf8 p u 0 = .ok 0) :
    ∃ ws', Run ws (frameBytes masked b0 p.length key (copyPayload p key 0))
        [(finStatus ws.wantFragments (opcodeOf b0 = 0) t', bufOf (acc ++ p), acc.length + p.length)] (.more ws') ∧
      Bnd ws' 0 [] 0 1 ∧ Cfg ws ws' := by
  obtain ⟨ht0, hu0, _⟩ := frame_types hb b0 t' hop
  obtain ⟨W, w1, w2, w3, w4, w5, w6, w7, w8, w9, w10, hrun⟩ :=
    data_frame_complete hb b0 hr t' hop p m1 m2 m3 m4 masked hm key hkey hn hmax hal 0 hck (fun h => (hu0 h).symm)
  have hpc := pc_fin W b0 w1 w2 hfin (fun _ => w4)
  have hst : Int.ofNat (if W.wantFragments ∧ opcodeOf b0 = 0 then W.dataType ||| 0x40 else W.dataType) =
      finStatus ws.wantFragments (opcodeOf b0 = 0) t' := by
    unfold finStatus; rw [w9.want, w3]; simp
  have hne : finStatus ws.wantFragments (opcodeOf b0 = 0) t' ≠ 0 := by
    unfold finStatus
    split
    · exact ofNat_or_ne_zero _ _ ht0
    · intro h0; have : t' = 0 := by simpa using h0
      exact ht0 this
  have hnn : ¬ finStatus ws.wantFragments (opcodeOf b0 = 0) t' < 0 := by
    unfold finStatus; exact Int.not_lt.mpr (Int.natCast_nonneg _)
  rw [hst, w5, w6] at hpc
  have hR := hrun _ _ hpc (by simp only [pcNext]; rw [if_neg hnn]) rfl
  simp only [pcEvents] at hR
  rw [evOf_pos hne] at hR
  refine ⟨_, hR, ?_, ?_⟩
  · obtain ⟨hi', _, _⟩ := hR.more_quiet hb.inv (by rw [hb.val]; decide) rfl
    exact ⟨hi', rfl, w10, rfl, by simp [bufOf], rfl, w4⟩
  · exact ⟨w9.1, w9.2.1, w9.2.2⟩

end Mhd.WS
namespace Mhd.WS

/-- **a data frame without FIN, assembling mode**: nothing is handed out, the payload is
    appended to the message under assembly, the validator state moves on -/
theorem data_frame_assemble {ws : WS} {t : Nat} {acc : List UInt8} {u : Nat} (hb : Bnd ws t acc u 1)
    (hw : ws.wantFragments = false)
    (b0 : UInt8) (hr : rsvBits b0 = 0) (hfin : finBit b0 = false) (t' : Nat)
    (hop : (opcodeOf b0 = 0 ∧ t ≠ 0 ∧ t' = t) ∨
           ((opcodeOf b0 = 1 ∨ opcodeOf b0 = 2) ∧ t = 0 ∧ acc = [] ∧ t' = opcodeOf b0))
    (p : List UInt8) (m1 m2 m3 m4 : UInt8) (masked : Bool) (hm : masked = !ws.isClient) (key : List UInt8)
    (hkey : key = if masked then [m1, m2, m3, m4] else [0, 0, 0, 0])
    (hn : acc.length + p.length < 2 ^ 63) (hmax : ws.maxPayload = 0 ∨ acc.length + p.length ≤ ws.maxPayload)
    (hal : acc.length + p.length + 1 ≤ ws.allocLimit)
    (u' : Nat) (hck : t' = 1 → checkUtf8 p u 0 = .ok u') (hnt : t' ≠ 1 → u' = u) :
    ∃ ws', Run ws (frameBytes masked b0 p.length key (copyPayload p key 0)) [] (.more ws') ∧
      Bnd ws' t' (acc ++ p) u' 1 ∧ Cfg ws ws' := by
  obtain ⟨W, w1, w2, w3, w4, w5, w6, w7, w8, w9, w10, hrun⟩ :=
    data_frame_complete hb b0 hr t' hop p m1 m2 m3 m4 masked hm key hkey hn hmax hal u' hck hnt
  have hpc := pc_assemble W b0 w1 hfin (by rw [w9.want]; exact hw)
  have hR := hrun _ _ hpc rfl rfl
  simp only [pcEvents] at hR
  refine ⟨_, hR, ?_, ?_⟩
  · obtain ⟨hi', _, _⟩ := hR.more_quiet hb.inv (by rw [hb.val]; decide) rfl
    exact ⟨hi', rfl, w10, w3, w5, by show W.dataSize = _; rw [w6, List.length_append], w4⟩
  · exact ⟨w9.1, w9.2.1, w9.2.2⟩

/-- how many bytes of the assembled data `d` go out with a non-final fragment: all but the
    bytes of an unfinished character (text only) -/
def cutLen (t' u' : Nat) (d : List UInt8) : Nat := d.length - (if t' = 1 then givenUtf8 u' else 0)

/-- the allocation handed out for the first `k` bytes of `d` -/
def cutPl (d : List UInt8) (k : Nat) : Option (List UInt8) := if k = 0 then none else some ((d ++ [0]).set k 0)

/-- **a data frame without FIN, fragment mode**: the complete characters are handed out at once
    (FIRST / NEXT fragment status), the bytes of an unfinished character are kept -/
theorem data_frame_fragment {ws : WS} {t : Nat} {acc : List UInt8} {u : Nat} (hb : Bnd ws t acc u 1)
    (hw : ws.wantFragments = true)
    (b0 : UInt8) (hr : rsvBits b0 = 0) (hfin : finBit b0 = false) (t' : Nat)
    (hop : (opcodeOf b0 = 0 ∧ t ≠ 0 ∧ t' = t) ∨
           ((opcodeOf b0 = 1 ∨ opcodeOf b0 = 2) ∧ t = 0 ∧ acc = [] ∧ t' = opcodeOf b0))
    (p : List UInt8) (m1 m2 m3 m4 : UInt8) (masked : Bool) (hm : masked = !ws.isClient) (key : List UInt8)
    (hkey : key = if masked then [m1, m2, m3, m4] else [0, 0, 0, 0])
    (hn : acc.length + p.length < 2 ^ 63) (hmax : ws.maxPayload = 0 ∨ acc.length + p.length ≤ ws.maxPayload)
    (hal : acc.length + p.length + 1 ≤ ws.allocLimit) (hal4 : 4 ≤ ws.allocLimit)
    (u' : Nat) (hck : t' = 1 → checkUtf8 p u 0 = .ok u') (hnt : t' ≠ 1 → u' = u) :
    ∃ ws', Run ws (frameBytes masked b0 p.length key (copyPayload p key 0))
        [(fragMark t' (if opcodeOf b0 = 0 then 0x20 else 0x10), cutPl (acc ++ p) (cutLen t' u' (acc ++ p)),
          cutLen t' u' (acc ++ p))] (.more ws') ∧
      Bnd ws' t' ((acc ++ p).drop (cutLen t' u' (acc ++ p))) u' 1 ∧ Cfg ws ws' := by
  obtain ⟨ht0, hu0, _⟩ := frame_types hb b0 t' hop
  obtain ⟨W, w1, w2, w3, w4, w5, w6, w7, w8, w9, w10, hrun⟩ :=
    data_frame_complete hb b0 hr t' hop p m1 m2 m3 m4 masked hm key hkey hn hmax hal u' hck hnt
  have hwW : W.wantFragments = true := by rw [w9.want]; exact hw
  have hvalid : ws.validity ≠ 0 := by rw [hb.val]; decide
  have hmark : ∀ m, fragMark t' m ≠ 0 := fun m => ofNat_or_ne_zero _ _ ht0
  have hmnn : ∀ m, ¬ fragMark t' m < 0 := fun m => Int.not_lt.mpr (Int.natCast_nonneg _)
  have hdl : (acc ++ p).length = acc.length + p.length := List.length_append
  by_cases hc : t' = 1 ∧ u' ≠ 0
  · -- an unfinished character at the end
    obtain ⟨h1, hune⟩ := hc
    have hu10 : u' ≤ 10 := checkUtf8_le _ _ _ _ (by have := hb.inv.u8b; rw [hb.u8] at this; exact this) (hck h1)
    have hgiv := checkUtf8_given _ _ _ _ (hck h1)
    have hcar : givenUtf8 u ≤ acc.length := by
      by_cases ht1 : t = 1
      · have := hb.inv.carry (by rw [hb.dtype]; exact ht1)
        rw [if_neg (by rw [hb.step]; decide), hb.size, hb.u8] at this
        exact this
      · have : u = 0 := by
          have := hb.inv.u8a (by rw [hb.dtype]; exact ht1)
          rw [hb.u8] at this; exact this
        rw [this]; simp [givenUtf8]
    have hnb : acc ++ p ≠ [] := by
      intro hh
      have hz : (acc ++ p).length = 0 := by rw [hh]; rfl
      have hp0 : p = [] := List.length_eq_zero_iff.mp (by omega)
      have ha0 : acc.length = 0 := by omega
      obtain ⟨g1, _⟩ := givenUtf8_bounds u' hune hu10
      rw [hp0] at hgiv; simp at hgiv; omega
    have hbufW : W.dataBuf = some ((acc ++ p) ++ [0]) := by rw [w5]; unfold bufOf; rw [if_neg hnb]
    have hpc := pc_frag_carry W b0 (acc ++ p) w1 hfin hwW (by rw [w3]; exact h1) (by rw [w4]; exact hune)
      (by rw [w4]; exact hu10) hbufW (by rw [w6, hdl]) (by rw [w7, hdl]) (by rw [w4, hdl]; omega) (by rw [hdl]; omega)
      (by rw [w9.2.2]; exact hal4)
    rw [w4, w3] at hpc
    have hcl : cutLen t' u' (acc ++ p) = (acc ++ p).length - givenUtf8 u' := by unfold cutLen; rw [if_pos h1]
    rw [hcl, h1]
    by_cases hnl : (acc ++ p).length - givenUtf8 u' ≠ 0
    · rw [if_pos hnl] at hpc
      have hR := hrun _ _ hpc (by simp only [pcNext]; rw [if_neg (by rw [← h1]; exact hmnn _)]) rfl
      simp only [pcEvents] at hR
      rw [evOf_pos (by rw [← h1]; exact hmark _)] at hR
      have hcp : cutPl (acc ++ p) ((acc ++ p).length - givenUtf8 u') =
          some ((acc ++ p ++ [0]).set ((acc ++ p).length - givenUtf8 u') 0) := by unfold cutPl; rw [if_neg hnl]
      rw [hcp]
      refine ⟨_, hR, ?_, ⟨w9.1, w9.2.1, w9.2.2⟩⟩
      obtain ⟨hi', _, _⟩ := hR.more_quiet hb.inv hvalid rfl
      obtain ⟨g1, _⟩ := givenUtf8_bounds u' hune hu10
      have hdne : (acc ++ p).drop ((acc ++ p).length - givenUtf8 u') ≠ [] := by
        intro hh
        have := congrArg List.length hh
        simp only [List.length_drop, List.length_nil] at this
        omega
      refine ⟨hi', rfl, w10, h1, ?_, ?_, rfl⟩
      · show some _ = bufOf _
        unfold bufOf
        rw [if_neg hdne]
      · show givenUtf8 u' = _
        simp only [List.length_drop]; omega
    · rw [if_neg hnl] at hpc
      have hR := hrun _ _ hpc (by simp only [pcNext]; rw [if_neg (by rw [← h1]; exact hmnn _)]) rfl
      simp only [pcEvents] at hR
      rw [evOf_pos (by rw [← h1]; exact hmark _)] at hR
      have hz : (acc ++ p).length - givenUtf8 u' = 0 := by omega
      have hcp : cutPl (acc ++ p) ((acc ++ p).length - givenUtf8 u') = none := by unfold cutPl; rw [if_pos hz]
      rw [hcp, hz] at *
      refine ⟨_, hR, ?_, ⟨w9.1, w9.2.1, w9.2.2⟩⟩
      obtain ⟨hi', _, _⟩ := hR.more_quiet hb.inv hvalid rfl
      exact ⟨hi', rfl, w10, h1, by rw [List.drop_zero]; exact w5,
        by rw [List.drop_zero]; show W.dataSize = _; rw [w6, hdl], rfl⟩
  · -- the fragment ends with a complete character (or is binary)
    have hu'0 : t' = 1 → u' = 0 := by
      intro h1; by_cases hh : u' = 0
      · exact hh
      · exact absurd ⟨h1, hh⟩ hc
    have hpc := pc_frag_whole W b0 w1 hfin hwW (by rw [w3, w4]; exact hu'0)
    rw [w3, w5, w6] at hpc
    have hR := hrun _ _ hpc (by simp only [pcNext]; rw [if_neg (hmnn _)]) rfl
    simp only [pcEvents] at hR
    rw [evOf_pos (hmark _)] at hR
    have hcl : cutLen t' u' (acc ++ p) = (acc ++ p).length := by
      unfold cutLen
      by_cases h1 : t' = 1
      · rw [if_pos h1, hu'0 h1]; simp [givenUtf8]
      · rw [if_neg h1]; simp
    have hcp : cutPl (acc ++ p) (acc ++ p).length = bufOf (acc ++ p) := by
      unfold cutPl bufOf
      by_cases hnb : acc ++ p = []
      · rw [hnb]; simp
      · have : (acc ++ p).length ≠ 0 := fun hh => hnb (List.length_eq_zero_iff.mp hh)
        rw [if_neg this, if_neg hnb]
        congr 1
        apply set_same
        rw [List.getElem?_append_right (Nat.le_refl _)]
        simp
    rw [hcl, hcp, hdl, List.drop_of_length_le (by rw [hdl]; exact Nat.le_refl _)]
    refine ⟨_, hR, ?_, ⟨w9.1, w9.2.1, w9.2.2⟩⟩
    obtain ⟨hi', _, _⟩ := hR.more_quiet hb.inv hvalid rfl
    exact ⟨hi', rfl, w10, rfl, by simp [bufOf], rfl, w4⟩

end Mhd.WS
