/-
  Table / history level of the nonce-nc map (helper lemmas for `Mhd.Props.C13`):
  syntactic case lemmas for `checkNonceNc`, `addNonce`, `present`, `step`;
  the abstract view of a history (`lastAdd`, `usedSince`, `okCount`, `addCount`);
  the refinement relation `TblRel` and its preservation; the counting invariant.
-/
import Mhd.Proofs.Nonce
namespace Mhd.Nonce
open Mhd.Gen.Nonce

/-! ### history functions (history is most-recent-first) -/

def Op.nonce : Op → Bytes
  | .add _ n => n
  | .check n _ _ => n
  | .present _ _ _ _ n _ => n

def Op.count : Op → Nat
  | .add _ _ => 0
  | .check _ _ c => c
  | .present _ _ _ _ _ c => c

def Op.isAdd : Op → Bool
  | .add _ _ => true
  | _ => false

/-- the event registered a nonce -/
def Ev.isAdded (e : Ev) : Bool := e.op.isAdd && e.out == .added
/-- the event accepted a (nonce, count) presentation -/
def Ev.isOk (e : Ev) : Bool := !e.op.isAdd && e.out == .ok

/-- the nonce registered last in slot `i` -/
def lastAdd (size : Nat) : List Ev → Nat → Option Bytes
  | [], _ => none
  | e :: h, i => if e.isAdded = true ∧ slotIdx size e.op.nonce = i then some e.op.nonce else lastAdd size h i

/-- the counts accepted in slot `i` since the last registration there -/
def usedSince (size : Nat) : List Ev → Nat → List Nat
  | [], _ => []
  | e :: h, i =>
    if slotIdx size e.op.nonce = i then
      if e.isAdded then []
      else if e.isOk then e.op.count :: usedSince size h i
      else usedSince size h i
    else usedSince size h i

/-- how often `(n, c)` was accepted -/
def okCount (h : List Ev) (n : Bytes) (c : Nat) : Nat :=
  (h.filter fun e => e.isOk && decide (e.op.nonce = n) && decide (e.op.count = c)).length

/-- how often `n` was registered -/
def addCount (h : List Ev) (n : Bytes) : Nat :=
  (h.filter fun e => e.isAdded && decide (e.op.nonce = n)).length

/-! ### syntactic case lemmas -/

theorem set_self {α} (l : List α) (i : Nat) (a : α) (h : l[i]? = some a) : l.set i a = l := by
  apply List.ext_getElem?
  intro j
  rw [List.getElem?_set]
  split
  · rename_i hij; subst hij
    split
    · exact h.symm
    · rename_i hlt; rw [List.getElem?_eq_none (by omega)] at h; cases h
  · rfl

/-- `check_nonce_nc`: either nothing is accepted and the table is unchanged, or the
    nonce's slot matches, the window accepts and only the window of that slot changes -/
theorem check_spec (tbl : Table) (n : Bytes) (t c : Nat) :
    ((checkNonceNc tbl n t c).2 ≠ .ok ∧ (checkNonceNc tbl n t c).1 = tbl) ∨
    (∃ nn, tbl[slotIdx tbl.length n]? = some nn ∧ slotMatches nn n = some true ∧ c < ncGuard ∧
       n.length ≤ maxNonceLen ∧
       (windowStep ⟨nn.nc, nn.nmask⟩ c).2 = true ∧
       (checkNonceNc tbl n t c).2 = .ok ∧
       (checkNonceNc tbl n t c).1 = tbl.set (slotIdx tbl.length n)
          { nn with nc := (windowStep ⟨nn.nc, nn.nmask⟩ c).1.nc, nmask := (windowStep ⟨nn.nc, nn.nmask⟩ c).1.nmask }) := by
  unfold checkNonceNc
  by_cases h1 : maxNonceLen < n.length
  · left; rw [if_pos h1]; exact ⟨(by simp), rfl⟩
  rw [if_neg h1]
  by_cases h2 : tbl.length = 0
  · left; rw [if_pos h2]; exact ⟨(by simp), rfl⟩
  rw [if_neg h2]
  by_cases h3 : c ≥ ncGuard
  · left; rw [if_pos h3]; exact ⟨(by simp), rfl⟩
  rw [if_neg h3]
  simp only []
  cases hs : tbl[slotIdx tbl.length n]? with
  | none => left; exact ⟨(by simp), rfl⟩
  | some nn =>
    simp only []
    cases hm : slotMatches nn n with
    | none => left; exact ⟨(by simp), rfl⟩
    | some b =>
      cases b with
      | false =>
        left
        refine ⟨?_, rfl⟩
        simp only []
        unfold classifyMismatch
        split
        · split
          · intro h; cases h
          · split
            · intro h; cases h
            · split
              · intro h; cases h
              · intro h; cases h
              · simp only []
                split
                · intro h; cases h
                · split <;> (intro h; cases h)
        · intro h; cases h
      | true =>
        simp only []
        cases hw : (windowStep ⟨nn.nc, nn.nmask⟩ c).2 with
        | false =>
          left
          have := windowStep_refused ⟨nn.nc, nn.nmask⟩ c hw
          simp only [this]
          refine ⟨by simp, ?_⟩
          exact set_self tbl _ nn hs
        | true =>
          right
          exact ⟨nn, rfl, hm, by omega, by omega, hw, by simp, by simp⟩


/-- the table part of `calculate_add_nonce`: refused (table unchanged) or the slot of the
    nonce is available and is overwritten with a fresh window -/
theorem add_spec (tbl : Table) (ts : Nat) (n : Bytes) :
    ((addNonce tbl ts n).2 ≠ .added ∧ (addNonce tbl ts n).1 = tbl) ∨
    (∃ nn, tbl[slotIdx tbl.length n]? = some nn ∧ isSlotAvailable nn ts n = some true ∧
       n.length + 1 ≤ nn.nonce.length ∧ (addNonce tbl ts n).2 = .added ∧
       (addNonce tbl ts n).1 = tbl.set (slotIdx tbl.length n) ⟨writeNonce nn.nonce n, 0, 0⟩) := by
  unfold addNonce
  by_cases h1 : tbl.length = 0
  · left; rw [if_pos h1]; exact ⟨(by simp), rfl⟩
  rw [if_neg h1]
  simp only []
  cases hs : tbl[slotIdx tbl.length n]? with
  | none => left; exact ⟨(by simp), rfl⟩
  | some nn =>
    simp only []
    cases ha : isSlotAvailable nn ts n with
    | none => left; exact ⟨(by simp), rfl⟩
    | some b =>
      cases b with
      | false => left; exact ⟨(by simp), rfl⟩
      | true =>
        simp only []
        by_cases h2 : nn.nonce.length < n.length + 1
        · left; rw [if_pos h2]; exact ⟨(by simp), rfl⟩
        · right; rw [if_neg h2]; exact ⟨nn, rfl, ha, by omega, rfl, rfl⟩

/-- the vetting sequence either answers early (never `ok`, table unchanged) or is
    `check_nonce_nc` with the time stamp read from the nonce -/
theorem present_spec (tbl : Table) (now tmo mx sl : Nat) (n : Bytes) (c : Nat) :
    ((present tbl now tmo mx sl n c).2 ≠ .ok ∧ (present tbl now tmo mx sl n c).1 = tbl) ∨
    (∃ t, getNonceTimestamp n n.length = .ts t ∧ c ≠ 0 ∧ sl = n.length ∧
       present tbl now tmo mx sl n c = ((checkNonceNc tbl n t c).1, Out.ofNc (checkNonceNc tbl n t c).2)) := by
  unfold present
  simp only []
  generalize (if mx = 0 then defMaxNc else mx) = mx'
  generalize (if tmo = 0 then defTimeout else tmo) = tmo'
  by_cases h1 : c = 0
  · left; rw [if_pos h1]; exact ⟨(by simp), rfl⟩
  rw [if_neg h1]
  by_cases h2 : mx' ≠ 0 ∧ mx' < c
  · left; rw [if_pos h2]; exact ⟨(by simp), rfl⟩
  rw [if_neg h2]
  by_cases h3 : sl ≠ n.length
  · left; rw [if_pos h3]; exact ⟨(by simp), rfl⟩
  rw [if_neg h3]
  cases ht : getNonceTimestamp n n.length with
  | fault => left; exact ⟨(by simp), rfl⟩
  | invalid => left; exact ⟨(by simp), rfl⟩
  | ts t =>
    simp only []
    by_cases h4 : trim (sub64 now t) > (tmo' * 1000) % 2 ^ timeoutBits
    · left; rw [if_pos h4]; exact ⟨(by simp), rfl⟩
    · right; rw [if_neg h4]; exact ⟨t, rfl, h1, by omega, rfl⟩

theorem ofNc_eq_ok (r : NcRes) : Out.ofNc r = .ok ↔ r = .ok := by cases r <;> simp [Out.ofNc]
theorem ofNc_ne_added (r : NcRes) : Out.ofNc r ≠ .added := by cases r <;> simp [Out.ofNc]
theorem ofAdd_ne_ok (r : AddRes) : Out.ofAdd r ≠ .ok := by cases r <;> simp [Out.ofAdd]
theorem ofAdd_eq_added (r : AddRes) : Out.ofAdd r = .added ↔ r = .added := by cases r <;> simp [Out.ofAdd]

/-- the three kinds of step -/
theorem step_spec (tbl : Table) (o : Op) :
    ((step tbl o).1 = tbl ∧ (Ev.mk o (step tbl o).2).isAdded = false ∧ (Ev.mk o (step tbl o).2).isOk = false) ∨
    (∃ nn, o.isAdd = true ∧ tbl[slotIdx tbl.length o.nonce]? = some nn ∧
       (∃ ts, isSlotAvailable nn ts o.nonce = some true) ∧
       o.nonce.length + 1 ≤ nn.nonce.length ∧ (step tbl o).2 = .added ∧
       (step tbl o).1 = tbl.set (slotIdx tbl.length o.nonce) ⟨writeNonce nn.nonce o.nonce, 0, 0⟩) ∨
    (∃ nn, o.isAdd = false ∧ tbl[slotIdx tbl.length o.nonce]? = some nn ∧
       slotMatches nn o.nonce = some true ∧ o.count < ncGuard ∧ o.nonce.length ≤ maxNonceLen ∧
       (windowStep ⟨nn.nc, nn.nmask⟩ o.count).2 = true ∧ (step tbl o).2 = .ok ∧
       (step tbl o).1 = tbl.set (slotIdx tbl.length o.nonce)
          { nn with nc := (windowStep ⟨nn.nc, nn.nmask⟩ o.count).1.nc,
                    nmask := (windowStep ⟨nn.nc, nn.nmask⟩ o.count).1.nmask }) := by
  cases o with
  | add ts n =>
    rcases add_spec tbl ts n with ⟨h1, h2⟩ | ⟨nn, h1, h2, h3, h4, h5⟩
    · left
      refine ⟨h2, ?_, ?_⟩
      · simp only [Ev.isAdded, step, Op.isAdd, Bool.true_and, beq_eq_false_iff_ne, ne_eq, ofAdd_eq_added]; exact h1
      · simp [Ev.isOk, Op.isAdd]
    · right; left
      exact ⟨nn, rfl, h1, ⟨ts, h2⟩, h3, by simp [step, h4, Out.ofAdd], h5⟩
  | check n t c =>
    rcases check_spec tbl n t c with ⟨h1, h2⟩ | ⟨nn, h1, h2, h3, h4, h5, h6, h7⟩
    · left
      refine ⟨h2, by simp [Ev.isAdded, Op.isAdd], ?_⟩
      simp only [Ev.isOk, step, Op.isAdd, Bool.not_false, Bool.true_and, beq_eq_false_iff_ne, ne_eq, ofNc_eq_ok]; exact h1
    · right; right
      exact ⟨nn, rfl, h1, h2, h3, h4, h5, by simp [step, h6, Out.ofNc], h7⟩
  | present now tmo mx sl n c =>
    rcases present_spec tbl now tmo mx sl n c with ⟨h1, h2⟩ | ⟨t, _, _, _, he⟩
    · left
      refine ⟨h2, by simp [Ev.isAdded, Op.isAdd], ?_⟩
      simp only [Ev.isOk, step, Op.isAdd, Bool.not_false, Bool.true_and, beq_eq_false_iff_ne, ne_eq]; exact h1
    · rcases check_spec tbl n t c with ⟨h1, h2⟩ | ⟨nn, h1, h2, h3, h4, h5, h6, h7⟩
      · left
        refine ⟨by simp [step, he, h2], by simp [Ev.isAdded, Op.isAdd], ?_⟩
        simp only [Ev.isOk, step, he, Op.isAdd, Bool.not_false, Bool.true_and, beq_eq_false_iff_ne, ne_eq, ofNc_eq_ok]; exact h1
      · right; right
        exact ⟨nn, rfl, h1, h2, h3, h4, h5, by simp [step, he, h6, Out.ofNc], by simp only [step, he]; exact h7⟩


/-! ### the refinement relation between the table and the history -/

/-- no NUL byte -/
def NoNul (n : Bytes) : Prop := ∀ b ∈ n, b ≠ 0

/-- the slot buffer holds `m` followed by the terminating NUL -/
def Holds (nn : Slot) (m : Bytes) : Prop := ∃ rest, nn.nonce = m ++ 0 :: rest

theorem slotMatches_true (nn : Slot) (n : Bytes) (h : slotMatches nn n = some true) :
    nn.nonce[n.length]? = some 0 ∧ nn.nonce.take n.length = n := by
  unfold slotMatches at h
  split at h
  · cases h
  · rename_i z hz
    simp only [Option.some.injEq, decide_eq_true_eq] at h
    exact ⟨by rw [hz, h.2], h.1⟩

theorem matches_of_holds (nn : Slot) (n : Bytes) (h : Holds nn n) : slotMatches nn n = some true := by
  obtain ⟨rest, hr⟩ := h
  unfold slotMatches
  have h1 : nn.nonce[n.length]? = some 0 := by
    rw [hr]; simp
  rw [h1]
  simp only [Option.some.injEq, decide_eq_true_eq, and_true]
  rw [hr]; simp

theorem matches_unique (nn : Slot) (m n : Bytes) (hh : Holds nn m) (hm : NoNul m) (hn : NoNul n)
    (h : slotMatches nn n = some true) : n = m := by
  obtain ⟨rest, hr⟩ := hh
  obtain ⟨hz, ht⟩ := slotMatches_true nn n h
  rw [hr] at hz ht
  rcases Nat.lt_trichotomy n.length m.length with hlt | heq | hgt
  · exfalso
    rw [List.getElem?_append_left hlt] at hz
    have : m[n.length]'hlt = 0 := by
      rw [List.getElem?_eq_getElem hlt] at hz; exact Option.some.inj hz
    exact hm _ (List.getElem_mem hlt) this
  · rw [← ht, heq]; simp
  · exfalso
    have hlen : m.length < n.length := hgt
    have h0 : n[m.length]? = some 0 := by
      rw [← ht, List.getElem?_take, if_pos hlen]; simp
    rw [List.getElem?_eq_getElem hlen] at h0
    exact hn _ (List.getElem_mem hlen) (Option.some.inj h0)

theorem not_matches_empty (nn : Slot) (n : Bytes) (h0 : nn.nonce[0]? = some 0) (hn : NoNul n) (hne : n ≠ [])
    (h : slotMatches nn n = some true) : False := by
  obtain ⟨hz, ht⟩ := slotMatches_true nn n h
  cases n with
  | nil => exact hne rfl
  | cons a as =>
    have : (a :: as)[0]? = some 0 := by
      rw [← ht, List.getElem?_take, if_pos (by simp)]; exact h0
    simp at this
    exact hn a (by simp) this

/-- one slot against the abstract view of its history: the nonce registered last
    (`none`: never) and the counts accepted since -/
def SlotRel (nn : Slot) (la : Option Bytes) (us : List Nat) : Prop :=
  nn.nonce[nonceBufSize - 1]? = some 0 ∧ (∀ u ∈ us, u ≠ 0) ∧
  nn.nonce.length = nonceBufSize ∧ nn.nc < W32 ∧
  (la = none → nn.nonce[0]? = some 0) ∧
  (∀ m, la = some m → Holds nn m ∧ NoNul m ∧ m ≠ []) ∧
  WInv ⟨nn.nc, nn.nmask⟩ (fun c => c = 0 ∨ c ∈ us)

def TblRel (size : Nat) (tbl : Table) (h : List Ev) : Prop :=
  tbl.length = size ∧
  (∀ i m, lastAdd size h i = some m → i < size) ∧
  ∀ i nn, tbl[i]? = some nn → SlotRel nn (lastAdd size h i) (usedSince size h i)

/-- what the property assumes about the operations: registered nonces are the
    daemon's own (non-empty, no NUL byte); `stdLen` is one of the two standard lengths -/
def Op.Wf : Op → Prop
  | .add _ n => NoNul n ∧ n ≠ [] ∧ n.length ≤ maxNonceLen
  | .check _ _ _ => True
  | .present _ _ _ sl _ _ => sl = stdLenMd5 ∨ sl = stdLenSha

theorem hist_neutral (size : Nat) (e : Ev) (h : List Ev) (i : Nat) (h1 : e.isAdded = false) (h2 : e.isOk = false) :
    lastAdd size (e :: h) i = lastAdd size h i ∧ usedSince size (e :: h) i = usedSince size h i := by
  simp [lastAdd, usedSince, h1, h2]

theorem hist_added (size : Nat) (e : Ev) (h : List Ev) (i : Nat) (h1 : e.isAdded = true) :
    lastAdd size (e :: h) i = (if slotIdx size e.op.nonce = i then some e.op.nonce else lastAdd size h i) ∧
    usedSince size (e :: h) i = (if slotIdx size e.op.nonce = i then [] else usedSince size h i) := by
  simp [lastAdd, usedSince, h1]

theorem hist_ok (size : Nat) (e : Ev) (h : List Ev) (i : Nat) (h1 : e.isAdded = false) (h2 : e.isOk = true) :
    lastAdd size (e :: h) i = lastAdd size h i ∧
    usedSince size (e :: h) i = (if slotIdx size e.op.nonce = i then e.op.count :: usedSince size h i else usedSince size h i) := by
  simp [lastAdd, usedSince, h1, h2]

theorem tblRel_init (size : Nat) : TblRel size (Table.init size) [] := by
  refine ⟨by simp [Table.init], ?_, ?_⟩
  · intro i m h; simp [lastAdd] at h
  · intro i nn h
    have : nn = Slot.empty := by
      simp only [Table.init, List.getElem?_replicate] at h
      split at h
      · cases h; rfl
      · cases h
    subst this
    refine ⟨by simp [Slot.empty, nonceBufSize], (by intro u hu; simp [usedSince] at hu),
      by simp [Slot.empty], by simp [Slot.empty, W32_eq], ?_, ?_, ?_⟩
    · intro _; simp [Slot.empty, nonceBufSize]
    · intro m hm; simp [lastAdd] at hm
    · refine ⟨Or.inl rfl, Or.inl rfl, ?_, ?_⟩
      · intro n hn; rcases hn with hn | hn
        · simp [Slot.empty, hn]
        · simp [usedSince] at hn
      · intro i hi; simp [Slot.empty]


theorem ncGuard_eq : ncGuard = 4294967231 := by rfl

theorem writeNonce_length (buf n : Bytes) (h : n.length + 1 ≤ buf.length) :
    (writeNonce buf n).length = buf.length := by
  simp only [writeNonce, List.length_append, List.length_cons, List.length_drop]; omega

theorem writeNonce_last (buf n : Bytes) (hl : buf.length = nonceBufSize)
    (h0 : buf[nonceBufSize - 1]? = some 0) (hn : n.length + 1 ≤ buf.length) :
    (writeNonce buf n)[nonceBufSize - 1]? = some 0 := by
  simp only [nonceBufSize] at *
  unfold writeNonce
  rw [List.getElem?_append_right (by omega)]
  by_cases h : n.length = 76
  · rw [h]; simp
  · have : 77 - 1 - n.length = (77 - 1 - n.length - 1) + 1 := by omega
    rw [this, List.getElem?_cons_succ, List.getElem?_drop]
    have e : n.length + 1 + (77 - 1 - n.length - 1) = 77 - 1 := by omega
    rw [e]; exact h0

theorem WInv_fresh (us : List Nat) (h : us = []) : WInv ⟨0, 0#64⟩ (fun c => c = 0 ∨ c ∈ us) := by
  subst h
  refine ⟨Or.inl rfl, Or.inl rfl, ?_, ?_⟩
  · intro n hn; rcases hn with hn | hn
    · simp [hn]
    · simp at hn
  · intro i hi; simp

/-- the refinement relation is preserved by every step -/
theorem tblRel_step (size : Nat) (tbl : Table) (h : List Ev) (o : Op) (hr : TblRel size tbl h) (ho : o.Wf) :
    TblRel size (step tbl o).1 (⟨o, (step tbl o).2⟩ :: h) := by
  obtain ⟨hlen, hbound, hslots⟩ := hr
  rcases step_spec tbl o with ⟨h1, h2, h3⟩ | ⟨nn, h1, h2, _, h4, h5, h6⟩ | ⟨nn, h1, h2, h3, h4, h5, h6, h7, h8⟩
  · -- neutral
    rw [h1]
    refine ⟨hlen, ?_, ?_⟩
    · intro i m hm; rw [(hist_neutral size _ h i h2 h3).1] at hm; exact hbound i m hm
    · intro i nn hnn
      rw [(hist_neutral size _ h i h2 h3).1, (hist_neutral size _ h i h2 h3).2]
      exact hslots i nn hnn
  · -- registered
    have hadd : (Ev.mk o (step tbl o).2).isAdded = true := by simp [Ev.isAdded, h1, h5]
    have hi0 : slotIdx tbl.length o.nonce < tbl.length := by
      rcases Nat.lt_or_ge (slotIdx tbl.length o.nonce) tbl.length with hlt | hge
      · exact hlt
      · rw [List.getElem?_eq_none hge] at h2; cases h2
    have hwf : NoNul o.nonce ∧ o.nonce ≠ [] := by
      cases o with
      | add ts n => exact ⟨ho.1, ho.2.1⟩
      | check n t c => simp [Op.isAdd] at h1
      | present a b c d e f => simp [Op.isAdd] at h1
    rw [h6]
    refine ⟨by rw [List.length_set]; exact hlen, ?_, ?_⟩
    · intro i m hm
      rw [(hist_added size _ h i hadd).1] at hm
      split at hm
      · rename_i he; simp only at he; rw [← he, ← hlen]; exact hi0
      · exact hbound i m hm
    · intro i nn' hnn'
      rw [(hist_added size _ h i hadd).1, (hist_added size _ h i hadd).2]
      simp only
      rw [List.getElem?_set] at hnn'
      by_cases he : slotIdx tbl.length o.nonce = i
      · rw [if_pos he, if_pos (by omega)] at hnn'
        cases hnn'
        have he' : slotIdx size o.nonce = i := by rw [← hlen]; exact he
        rw [if_pos he', if_pos he']
        have hold := hslots _ nn h2
        refine ⟨writeNonce_last _ _ hold.2.2.1 hold.1 h4, (by intro u hu; cases hu), ?_, (by simp [W32_eq]),
          (by intro hh; cases hh), ?_, WInv_fresh [] rfl⟩
        · show (writeNonce nn.nonce o.nonce).length = nonceBufSize
          rw [writeNonce_length _ _ h4]; exact hold.2.2.1
        · intro m hm; cases hm
          exact ⟨⟨nn.nonce.drop (o.nonce.length + 1), rfl⟩, hwf.1, hwf.2⟩
      · rw [if_neg he] at hnn'
        have he' : ¬ slotIdx size o.nonce = i := by rw [← hlen]; exact he
        rw [if_neg he', if_neg he']
        exact hslots i nn' hnn'
  · -- accepted
    have hnadd : (Ev.mk o (step tbl o).2).isAdded = false := by simp [Ev.isAdded, h1]
    have hok : (Ev.mk o (step tbl o).2).isOk = true := by simp [Ev.isOk, h1, h7]
    rw [h8]
    refine ⟨by rw [List.length_set]; exact hlen, ?_, ?_⟩
    · intro i m hm; rw [(hist_ok size _ h i hnadd hok).1] at hm; exact hbound i m hm
    · intro i nn' hnn'
      rw [(hist_ok size _ h i hnadd hok).1, (hist_ok size _ h i hnadd hok).2]
      simp only
      rw [List.getElem?_set] at hnn'
      by_cases he : slotIdx tbl.length o.nonce = i
      · have hi0 : slotIdx tbl.length o.nonce < tbl.length := by
          rcases Nat.lt_or_ge (slotIdx tbl.length o.nonce) tbl.length with hlt | hge
          · exact hlt
          · rw [List.getElem?_eq_none hge] at h2; cases h2
        rw [if_pos he, if_pos hi0] at hnn'
        cases hnn'
        have he' : slotIdx size o.nonce = i := by rw [← hlen]; exact he
        rw [if_pos he']
        obtain ⟨g6, g7, g1, g2, g3, g4, g5⟩ := hslots _ nn h2
        rw [hlen, he'] at g3 g4 g5 g7
        have hc : o.count < W32 := by rw [W32_eq]; rw [ncGuard_eq] at h4; omega
        have hc0 : o.count ≠ 0 := by
          have := (window_ok_iff ⟨nn.nc, nn.nmask⟩ _ o.count g5 hc g2).mp h6
          intro h0; exact this.1 (Or.inl h0)
        refine ⟨g6, ?_, g1, windowStep_nc_lt ⟨nn.nc, nn.nmask⟩ o.count g2, g3, g4, ?_⟩
        · intro u hu
          rcases List.mem_cons.mp hu with rfl | hu
          · exact hc0
          · exact g7 u hu
        have := window_refines ⟨nn.nc, nn.nmask⟩ _ o.count g5 hc g2
        refine WInv_congr _ _ _ ?_ this
        intro n
        simp only [h6, true_and, List.mem_cons]
        constructor
        · rintro ((a | a) | a)
          · exact Or.inl a
          · exact Or.inr (Or.inr a)
          · exact Or.inr (Or.inl a)
        · rintro (a | a | a)
          · exact Or.inl (Or.inl a)
          · exact Or.inr a
          · exact Or.inl (Or.inr a)
      · rw [if_neg he] at hnn'
        have he' : ¬ slotIdx size o.nonce = i := by rw [← hlen]; exact he
        rw [if_neg he']
        exact hslots i nn' hnn'


/-- what an accepted presentation tells about the history: the count is non-zero, below
    the guard, not accepted since the registration, at most 64 behind every accepted
    count, and (for a NUL-free nonce) the nonce is the one registered last in its slot -/
theorem ok_facts (size : Nat) (tbl : Table) (h : List Ev) (o : Op) (hr : TblRel size tbl h)
    (hadd : o.isAdd = false) (hok : (step tbl o).2 = .ok) :
    o.count ≠ 0 ∧ o.count < ncGuard ∧ o.count ∉ usedSince size h (slotIdx size o.nonce) ∧
    (∀ u ∈ usedSince size h (slotIdx size o.nonce), u ≤ o.count + 64) ∧
    (NoNul o.nonce → o.nonce ≠ [] → lastAdd size h (slotIdx size o.nonce) = some o.nonce) := by
  obtain ⟨hlen, hbound, hslots⟩ := hr
  rcases step_spec tbl o with ⟨h1, h2, h3⟩ | ⟨nn, h1, _⟩ | ⟨nn, h1, h2, h3, h4, h5, h6, h7, h8⟩
  · simp [Ev.isOk, hadd, hok] at h3
  · rw [hadd] at h1; cases h1
  · obtain ⟨_, _, g1, g2, g3, g4, g5⟩ := hslots _ nn h2
    rw [hlen] at g3 g4 g5
    have hc : o.count < W32 := by rw [W32_eq]; rw [ncGuard_eq] at h4; omega
    have hw := (window_ok_iff ⟨nn.nc, nn.nmask⟩ _ o.count g5 hc g2).mp h6
    simp only [not_or] at hw
    refine ⟨hw.1.1, h4, hw.1.2, ?_, ?_⟩
    · intro u hu
      have := g5.2.2.1 u (Or.inr hu)
      have h64 := hw.2
      simp only at this h64
      omega
    · intro hnn hne
      cases hla : lastAdd size h (slotIdx size o.nonce) with
      | none => exact (not_matches_empty nn o.nonce (g3 hla) hnn hne h3).elim
      | some m =>
        obtain ⟨k1, k2, _⟩ := g4 m hla
        rw [matches_unique nn m o.nonce k1 k2 hnn h3]

/-- window completeness at the level of histories -/
theorem complete_of_rel (size : Nat) (tbl : Table) (h : List Ev) (n : Bytes) (t c : Nat)
    (hr : TblRel size tbl h) (hla : lastAdd size h (slotIdx size n) = some n)
    (hc0 : c ≠ 0) (hcg : c < ncGuard) (hnew : c ∉ usedSince size h (slotIdx size n))
    (hwin : ∀ u ∈ usedSince size h (slotIdx size n), u ≤ c + 64) :
    (checkNonceNc tbl n t c).2 = .ok := by
  obtain ⟨hlen, hbound, hslots⟩ := hr
  have hi := hbound _ _ hla
  have hex : ∃ nn, tbl[slotIdx tbl.length n]? = some nn := by
    rw [hlen]
    exact ⟨tbl[slotIdx size n]'(by omega), List.getElem?_eq_getElem (by omega)⟩
  obtain ⟨nn, hnn⟩ := hex
  obtain ⟨_, _, g1, g2, g3, g4, g5⟩ := hslots _ nn hnn
  rw [hlen] at g3 g4 g5
  obtain ⟨k1, k2, k3⟩ := g4 n hla
  have hm := matches_of_holds nn n k1
  have hlenn : n.length ≤ maxNonceLen := by
    obtain ⟨rest, hrest⟩ := k1
    have := g1
    rw [hrest] at this
    simp only [List.length_append, List.length_cons, nonceBufSize, maxNonceLen] at this ⊢
    omega
  have hc : c < W32 := by rw [W32_eq]; rw [ncGuard_eq] at hcg; omega
  have hw : (windowStep ⟨nn.nc, nn.nmask⟩ c).2 = true := by
    apply (window_ok_iff ⟨nn.nc, nn.nmask⟩ _ c g5 hc g2).mpr
    refine ⟨by simp only [not_or]; exact ⟨hc0, hnew⟩, ?_⟩
    have := g5.2.1
    simp only at this ⊢
    rcases this with h0 | hmem
    · omega
    · exact hwin _ hmem
  unfold checkNonceNc
  rw [if_neg (by omega), if_neg (by omega), if_neg (by omega)]
  simp only [hnn, hm, hw, if_true]

/-! ### runs -/

theorem runH_rel (size : Nat) (ops : List Op) : ∀ (tbl : Table) (h : List Ev), TblRel size tbl h →
    (∀ o ∈ ops, o.Wf) → TblRel size (runH tbl h ops).1 (runH tbl h ops).2 := by
  induction ops with
  | nil => intro tbl h hr _; exact hr
  | cons o os ih =>
    intro tbl h hr hwf
    simp only [runH]
    exact ih _ _ (tblRel_step size tbl h o hr (hwf o (by simp))) (fun o' ho' => hwf o' (by simp [ho']))


/-! ### counting acceptances against registrations -/

/-- every NUL-free nonce: accepted at most as often as registered, and strictly less
    often while it is registered and the count is still unused -/
def CntInv (size : Nat) (h : List Ev) : Prop :=
  ∀ n, NoNul n → n ≠ [] → ∀ c,
    okCount h n c ≤ addCount h n ∧
    (lastAdd size h (slotIdx size n) = some n → c ≠ 0 → c ∉ usedSince size h (slotIdx size n) →
      okCount h n c < addCount h n)

theorem okCount_cons (e : Ev) (h : List Ev) (n : Bytes) (c : Nat) :
    okCount (e :: h) n c = okCount h n c + (if e.isOk = true ∧ e.op.nonce = n ∧ e.op.count = c then 1 else 0) := by
  simp only [okCount, List.filter_cons]
  by_cases h1 : e.isOk = true <;> by_cases h2 : e.op.nonce = n <;> by_cases h3 : e.op.count = c <;> simp [h1, h2, h3]

theorem addCount_cons (e : Ev) (h : List Ev) (n : Bytes) :
    addCount (e :: h) n = addCount h n + (if e.isAdded = true ∧ e.op.nonce = n then 1 else 0) := by
  simp only [addCount, List.filter_cons]
  by_cases h1 : e.isAdded = true <;> by_cases h2 : e.op.nonce = n <;> simp [h1, h2]

theorem isOk_not_isAdded (e : Ev) (h : e.isOk = true) : e.isAdded = false := by
  simp only [Ev.isOk, Ev.isAdded, Bool.and_eq_true, Bool.not_eq_true', beq_iff_eq] at *
  simp [h.1]

theorem cnt_step (size : Nat) (tbl : Table) (h : List Ev) (o : Op) (hr : TblRel size tbl h)
    (hc : CntInv size h) : CntInv size (⟨o, (step tbl o).2⟩ :: h) := by
  intro n hn hne c
  obtain ⟨c1, c2⟩ := hc n hn hne c
  rw [okCount_cons, addCount_cons]
  cases hok : (Ev.mk o (step tbl o).2).isOk
  · cases hadd : (Ev.mk o (step tbl o).2).isAdded
    · -- neutral
      rw [(hist_neutral size _ h _ hadd hok).1, (hist_neutral size _ h _ hadd hok).2]
      simp only [Bool.false_eq_true, false_and, if_false, Nat.add_zero]
      exact ⟨c1, c2⟩
    · -- registered
      rw [(hist_added size _ h _ hadd).1, (hist_added size _ h _ hadd).2]
      simp only [Bool.false_eq_true, false_and, if_false, Nat.add_zero, true_and]
      by_cases he : o.nonce = n
      · rw [if_pos he]
        exact ⟨by omega, fun _ _ _ => by omega⟩
      · rw [if_neg he]
        refine ⟨c1, ?_⟩
        by_cases hs : slotIdx size o.nonce = slotIdx size n
        · rw [if_pos hs]
          intro hh; exact absurd (Option.some.inj hh) he
        · rw [if_neg hs, if_neg hs]; exact c2
  · -- accepted
    have hadd := isOk_not_isAdded _ hok
    have hisadd : o.isAdd = false := by
      simp only [Ev.isOk, Bool.and_eq_true, Bool.not_eq_true'] at hok; exact hok.1
    have hout : (step tbl o).2 = .ok := by
      simp only [Ev.isOk, Bool.and_eq_true, beq_iff_eq] at hok; exact hok.2
    obtain ⟨f1, f2, f3, f4, f5⟩ := ok_facts size tbl h o hr hisadd hout
    rw [(hist_ok size _ h _ hadd hok).1, (hist_ok size _ h _ hadd hok).2, hadd]
    simp only [Bool.false_eq_true, false_and, if_false, Nat.add_zero, true_and]
    by_cases he : o.nonce = n ∧ o.count = c
    · rw [if_pos he]
      obtain ⟨e1, e2⟩ := he
      subst e1; subst e2
      have := c2 (f5 hn hne) f1 f3
      refine ⟨by omega, ?_⟩
      rw [if_pos rfl]
      intro _ _ hmem; exact absurd (List.mem_cons_self) hmem
    · rw [if_neg he]
      refine ⟨c1, ?_⟩
      intro hla hc0 hmem
      refine c2 hla hc0 ?_
      by_cases hs : slotIdx size o.nonce = slotIdx size n
      · rw [if_pos hs] at hmem
        intro hin; exact hmem (List.mem_cons_of_mem _ hin)
      · rw [if_neg hs] at hmem; exact hmem

theorem cnt_init (size : Nat) : CntInv size [] := by
  intro n _ _ c
  simp [okCount, addCount, lastAdd]

theorem runH_cnt (size : Nat) (ops : List Op) : ∀ (tbl : Table) (h : List Ev), TblRel size tbl h → CntInv size h →
    (∀ o ∈ ops, o.Wf) → CntInv size (runH tbl h ops).2 := by
  induction ops with
  | nil => intro tbl h _ hc _; exact hc
  | cons o os ih =>
    intro tbl h hr hc hwf
    simp only [runH]
    exact ih _ _ (tblRel_step size tbl h o hr (hwf o (by simp))) (cnt_step size tbl h o hr hc)
      (fun o' ho' => hwf o' (by simp [ho']))

/-! ### runs from the empty table; the vetting sequence -/

theorem lastAdd_addCount (size : Nat) (h : List Ev) (i : Nat) (n : Bytes) (hl : lastAdd size h i = some n) :
    0 < addCount h n := by
  induction h with
  | nil => simp [lastAdd] at hl
  | cons e h ih =>
    rw [addCount_cons]
    simp only [lastAdd] at hl
    split at hl
    · rename_i hc
      have : e.op.nonce = n := Option.some.inj hl
      rw [if_pos ⟨hc.1, this⟩]; omega
    · have := ih hl; omega

theorem run_rel (size : Nat) (ops : List Op) (hwf : ∀ o ∈ ops, o.Wf) :
    TblRel size (run size ops).1 (run size ops).2 :=
  runH_rel size ops _ _ (tblRel_init size) hwf

theorem run_cnt (size : Nat) (ops : List Op) (hwf : ∀ o ∈ ops, o.Wf) : CntInv size (run size ops).2 :=
  runH_cnt size ops _ _ (tblRel_init size) (cnt_init size) hwf

/-- expiry: a well-formed nonce older than the timeout is reported stale -/
theorem present_expired (tbl : Table) (now tmo mx : Nat) (n : Bytes) (c t : Nat)
    (hc : c ≠ 0) (hmx : ¬ ((if mx = 0 then defMaxNc else mx) ≠ 0 ∧ (if mx = 0 then defMaxNc else mx) < c))
    (ht : getNonceTimestamp n n.length = .ts t)
    (hexp : trim (sub64 now t) > ((if tmo = 0 then defTimeout else tmo) * 1000) % 2 ^ timeoutBits) :
    present tbl now tmo mx n.length n c = (tbl, .stale) := by
  unfold present
  simp only []
  rw [if_neg hc, if_neg hmx, if_neg (by simp), ht]
  simp only []
  rw [if_pos hexp]

theorem present_above_max (tbl : Table) (now tmo mx sl : Nat) (n : Bytes) (c : Nat)
    (hc : c ≠ 0) (hmx : (if mx = 0 then defMaxNc else mx) < c) :
    present tbl now tmo mx sl n c = (tbl, .stale) := by
  unfold present
  simp only []
  have h0 : (if mx = 0 then defMaxNc else mx) ≠ 0 := by
    split
    · simp [defMaxNc]
    · assumption
  rw [if_neg hc, if_pos ⟨h0, hmx⟩]

theorem present_live (tbl : Table) (now tmo mx : Nat) (n : Bytes) (c t : Nat)
    (hc : c ≠ 0) (hmx : c ≤ (if mx = 0 then defMaxNc else mx))
    (ht : getNonceTimestamp n n.length = .ts t)
    (hexp : trim (sub64 now t) ≤ ((if tmo = 0 then defTimeout else tmo) * 1000) % 2 ^ timeoutBits) :
    present tbl now tmo mx n.length n c = ((checkNonceNc tbl n t c).1, Out.ofNc (checkNonceNc tbl n t c).2) := by
  unfold present
  simp only []
  rw [if_neg hc, if_neg (by omega), if_neg (by simp), ht]
  simp only []
  rw [if_neg (by omega)]

end Mhd.Nonce
