/-
  C16, MD5: `md5_transform` as modelled from the recorded step tables (aligned and misaligned
  input paths) equals the block processing of RFC 1321 §3.4 on every 64-byte block and chaining
  value; hence the model `Refines` the specification.
  Obligations tying the proof to the C source: `steps_closed`, `stepsMis_closed` (the recorded
  tables are the RFC's k, s, T with cycling register names; F/G/H/I per round), `iv_eq`.
-/
import Mhd.Model.Hash.Md5
import Mhd.Model.Hash.SpecMd5
import Mhd.Proofs.Hash.Lists
import Mhd.Proofs.Hash.MD
namespace Mhd.Hash.Md5
open Mhd.Hash

theorem F_eq (x y z : UInt32) : F_FUNC x y z = Spec.Md5.F x y z := by
  unfold F_FUNC Spec.Md5.F
  apply UInt32.eq_of_toBitVec_eq
  simp only [UInt32.toBitVec_xor, UInt32.toBitVec_and, UInt32.toBitVec_not, UInt32.toBitVec_or]
  ext i hi
  simp only [BitVec.getElem_xor, BitVec.getElem_and, BitVec.getElem_not, BitVec.getElem_or]
  cases x.toBitVec[i] <;> cases y.toBitVec[i] <;> cases z.toBitVec[i] <;> rfl

theorem I_eq (x y z : UInt32) : I_FUNC x y z = Spec.Md5.I x y z := by
  unfold I_FUNC Spec.Md5.I
  apply UInt32.eq_of_toBitVec_eq
  simp only [UInt32.toBitVec_xor, UInt32.toBitVec_not, UInt32.toBitVec_or]
  ext i hi
  simp only [BitVec.getElem_xor, BitVec.getElem_not, BitVec.getElem_or]
  cases x.toBitVec[i] <;> cases y.toBitVec[i] <;> cases z.toBitVec[i] <;> rfl

theorem G_eq (x y z : UInt32) : G_FUNC_1 x y z + G_FUNC_2 x y z = Spec.Md5.G x y z := by
  unfold G_FUNC_1 G_FUNC_2 Spec.Md5.G
  apply UInt32.eq_of_toBitVec_eq
  simp only [UInt32.toBitVec_add, UInt32.toBitVec_and, UInt32.toBitVec_not, UInt32.toBitVec_or]
  rw [BitVec.add_eq_or_of_and_eq_zero]
  · ext i hi
    simp only [BitVec.getElem_and, BitVec.getElem_not, BitVec.getElem_or]
    cases x.toBitVec[i] <;> cases y.toBitVec[i] <;> cases z.toBitVec[i] <;> rfl
  · ext i hi
    simp only [BitVec.getElem_and, BitVec.getElem_not, BitVec.getElem_zero]
    cases x.toBitVec[i] <;> cases y.toBitVec[i] <;> cases z.toBitVec[i] <;> rfl

theorem rotl32_eq (x : UInt32) (n : Nat) (h0 : 0 < n) (h : n < 32) : rotl32 x n = Spec.Md5.rotl n x := by
  unfold rotl32 Spec.Md5.rotl
  simp only [Nat.mod_eq_of_lt h]
  rw [if_neg (by omega)]

/-- register names of step `t`: (A,B,C,D), (D,A,B,C), (C,D,A,B), (B,C,D,A) -/
def rot4 : Nat → List Nat
  | 0 => [0, 1, 2, 3]
  | 1 => [3, 0, 1, 2]
  | 2 => [2, 3, 0, 1]
  | _ => [1, 2, 3, 0]

/-- the step table in closed form (aligned input): the standard's k, s, T; the first sixteen
    steps load their word from the block -/
def closedRow (mis : Bool) (t : Nat) : Row :=
  (rot4 (t % 4), t / 16 + 1, Spec.Md5.S.getD t 0, (Spec.Md5.T.getD t 0).toNat, Spec.Md5.K.getD t 0,
   if t < 16 ∧ !mis then 0 else 2, Spec.Md5.K.getD t 0)

set_option synthInstance.maxSize 512 in
theorem steps_closed : Mhd.Gen.Hash.md5Steps = (List.range 64).map (closedRow false) := by decide
set_option synthInstance.maxSize 512 in
theorem stepsMis_closed : Mhd.Gen.Hash.md5StepsMis = (List.range 64).map (closedRow true) := by decide
theorem iv_eq : ivOf Mhd.Gen.Hash.md5IV = Spec.Md5.IV := by decide

theorem S_range : ∀ t, t < 64 → 0 < Spec.Md5.S.getD t 0 ∧ Spec.Md5.S.getD t 0 < 32 := by decide
theorem K_range : ∀ t, t < 64 → Spec.Md5.K.getD t 0 < 16 := by decide
theorem K_lo : ∀ t, t < 16 → Spec.Md5.K.getD t 0 = t := by decide

/-- the in-place register update of one step of round `round`, names of rotation `r` -/
def stepRegs (r round sh : Nat) (t vX : UInt32) (v : R4 UInt32) : R4 UInt32 :=
  match rot4 r with
  | [ia, ib, ic, id] =>
    let v := v.set ia (v.get ia + (vX + t))
    let v :=
      if round = 1 then v.set ia (v.get ia + F_FUNC (v.get ib) (v.get ic) (v.get id))
      else if round = 2 then
        let v := v.set ia (v.get ia + G_FUNC_1 (v.get ib) (v.get ic) (v.get id))
        v.set ia (v.get ia + G_FUNC_2 (v.get ib) (v.get ic) (v.get id))
      else if round = 3 then v.set ia (v.get ia + H_FUNC (v.get ib) (v.get ic) (v.get id))
      else v.set ia (v.get ia + I_FUNC (v.get ib) (v.get ic) (v.get id))
    v.set ia (rotl32 (v.get ia) sh + v.get ib)
  | _ => v

def view (r : Nat) (v : R4 UInt32) : R4 UInt32 :=
  match rot4 r with
  | [ia, ib, ic, id] => ⟨v.get ia, v.get ib, v.get ic, v.get id⟩
  | _ => v

/-- one operation of RFC 1321 §3.4 with everything looked up -/
def specOp (f : UInt32 → UInt32 → UInt32 → UInt32) (s : Nat) (xk ti : UInt32) (r : R4 UInt32) : R4 UInt32 :=
  ⟨r.d, r.b + Spec.Md5.rotl s (r.a + f r.b r.c r.d + xk + ti), r.b, r.c⟩

def fOf (round : Nat) : UInt32 → UInt32 → UInt32 → UInt32 :=
  if round = 1 then Spec.Md5.F else if round = 2 then Spec.Md5.G else if round = 3 then Spec.Md5.H else Spec.Md5.I

theorem add_g (a x g1 g2 : UInt32) : a + x + g1 + g2 = a + (g1 + g2) + x := by ac_rfl
theorem add_f (a x t f : UInt32) : a + (x + t) + f = a + f + x + t := by ac_rfl
theorem add_g2 (a x t g1 g2 : UInt32) : a + g1 + x + t + g2 = a + (g1 + g2) + x + t := by ac_rfl
theorem add_g' (a x t g1 g2 : UInt32) : a + (x + t) + g1 + g2 = a + (g1 + g2) + x + t := by ac_rfl

theorem stepRegs_view (r : Nat) (hr : r < 4) (round : Nat) (hround : 1 ≤ round ∧ round ≤ 4)
    (sh : Nat) (hs0 : 0 < sh) (hs : sh < 32) (t vX : UInt32) (v : R4 UInt32) :
    view ((r + 1) % 4) (stepRegs r round sh t vX v) = specOp (fOf round) sh vX t (view r v) := by
  obtain ⟨a, b, c, d⟩ := v
  have hrd : round = 1 ∨ round = 2 ∨ round = 3 ∨ round = 4 := by omega
  match r, hr with
  | 0, _ | 1, _ | 2, _ | 3, _ =>
    rcases hrd with rfl | rfl | rfl | rfl <;>
    simp only [view, stepRegs, rot4, R4.get, R4.set, specOp, fOf, rotl32_eq _ _ hs0 hs,
      Nat.reduceEqDiff, ↓reduceIte, Nat.succ_ne_self, Nat.reduceAdd, Nat.reduceMod] <;>
    (try simp only [add_g']) <;>
    simp only [add_f, add_g2, F_eq, G_eq, I_eq, H_FUNC, Spec.Md5.H] <;>
    rw [UInt32.add_comm]

/-- the operand of step `t` and the new X[] -/
def loads (mis : Bool) (t : Nat) : Bool := decide (t < 16) && !mis

def xOf (mis : Bool) (blk : List UInt8) (x : Array UInt32) (t : Nat) : UInt32 :=
  if loads mis t then getLE32 blk (Spec.Md5.K.getD t 0) else x.getD (Spec.Md5.K.getD t 0) 0

theorem step_closed (mis : Bool) (blk : List UInt8) (s : TS) (t : Nat) (ht : t < 64) :
    step blk s (closedRow mis t) =
      { v := stepRegs (t % 4) (t / 16 + 1) (Spec.Md5.S.getD t 0) (Spec.Md5.T.getD t 0) (xOf mis blk s.x t) s.v,
        x := if loads mis t then s.x.setIfInBounds (Spec.Md5.K.getD t 0) (getLE32 blk (Spec.Md5.K.getD t 0)) else s.x,
        ok := s.ok } := by
  have hr : t % 4 < 4 := Nat.mod_lt _ (by decide)
  have hk := K_range t ht
  have hrd : 1 ≤ t / 16 + 1 ∧ t / 16 + 1 ≤ 4 := by omega
  unfold closedRow
  generalize t % 4 = r at hr
  generalize t / 16 + 1 = round at hrd
  have hT : ((Spec.Md5.T.getD t 0).toNat).toUInt32 = Spec.Md5.T.getD t 0 := by simp
  unfold xOf
  generalize Spec.Md5.K.getD t 0 = k at hk ⊢
  generalize Spec.Md5.T.getD t 0 = tt at hT ⊢
  generalize Spec.Md5.S.getD t 0 = sh
  match r, hr with
  | 0, _ | 1, _ | 2, _ | 3, _ =>
    by_cases h : t < 16 <;> cases mis <;>
    simp [step, rowOK, rot4, stepRegs, loads, h, hk, hrd.1, hrd.2, hT]

/-! ### the 64 steps -/

def x0 (mis : Bool) (blk : List UInt8) : Array UInt32 := if mis then loadX blk else Array.replicate 16 0

def runSteps (mis : Bool) (blk : List UInt8) (H : R4 UInt32) (n : Nat) : TS :=
  (List.range n).foldl (fun s t => step blk s (closedRow mis t)) { v := H, x := x0 mis blk, ok := true }

def specOps (blk : List UInt8) (H : R4 UInt32) (n : Nat) : R4 UInt32 :=
  (List.range n).foldl (Spec.Md5.op (wordsLE32 blk)) H

theorem aux_eq (t : Nat) (ht : t < 64) : Spec.Md5.aux t = fOf (t / 16 + 1) := by
  unfold Spec.Md5.aux fOf
  by_cases h1 : t < 16
  · have : t / 16 + 1 = 1 := by omega
    simp [h1, this]
  · by_cases h2 : t < 32
    · have : t / 16 + 1 = 2 := by omega
      simp [h1, h2, this]
    · by_cases h3 : t < 48
      · have : t / 16 + 1 = 3 := by omega
        simp [h1, h2, h3, this]
      · have : t / 16 + 1 = 4 := by omega
        simp [h1, h2, h3, this]

theorem loadX_getD (blk : List UInt8) (j : Nat) (hj : j < 16) : (loadX blk).getD j 0 = getLE32 blk j := by
  unfold loadX
  simp only [Array.getD_eq_getD_getElem?, List.getElem?_toArray, List.getElem?_map]
  rw [List.getElem?_range hj]
  rfl

theorem loop_inv (mis : Bool) (blk : List UInt8) (hblk : blk.length = 64) (H : R4 UInt32) (n : Nat) (hn : n ≤ 64) :
    (runSteps mis blk H n).ok = true ∧ (runSteps mis blk H n).x.size = 16 ∧
    (∀ j, j < 16 → (j < n ∨ mis = true) → (runSteps mis blk H n).x.getD j 0 = getLE32 blk j) ∧
    view (n % 4) (runSteps mis blk H n).v = specOps blk H n := by
  induction n with
  | zero =>
    refine ⟨rfl, ?_, ?_, ?_⟩
    · cases mis <;> simp [runSteps, x0, loadX]
    · intro j hj h
      rcases h with h | h
      · omega
      · subst h
        simp only [runSteps, List.range_zero, List.foldl_nil, x0, if_true]
        exact loadX_getD blk j hj
    · obtain ⟨a, b, c, d⟩ := H
      rfl
  | succ n ih =>
    obtain ⟨hok, hsz, hx, hv⟩ := ih (by omega)
    have hn' : n < 64 := by omega
    have hk := K_range n hn'
    have hrun : runSteps mis blk H (n + 1) = step blk (runSteps mis blk H n) (closedRow mis n) := by
      simp [runSteps, List.range_succ, List.foldl_append]
    have hspec : specOps blk H (n + 1) = Spec.Md5.op (wordsLE32 blk) (specOps blk H n) n := by
      simp [specOps, List.range_succ, List.foldl_append]
    have hop : Spec.Md5.op (wordsLE32 blk) (specOps blk H n) n =
        specOp (fOf (n / 16 + 1)) (Spec.Md5.S.getD n 0) (getLE32 blk (Spec.Md5.K.getD n 0))
          (Spec.Md5.T.getD n 0) (specOps blk H n) := by
      unfold Spec.Md5.op specOp
      rw [aux_eq n hn', wordsLE32_getD _ _ (by omega)]
    have hxk : xOf mis blk (runSteps mis blk H n).x n = getLE32 blk (Spec.Md5.K.getD n 0) := by
      unfold xOf
      by_cases hl : loads mis n = true
      · rw [if_pos hl]
      · rw [if_neg hl]
        apply hx _ hk
        unfold loads at hl
        cases mis
        · left
          have : ¬ n < 16 := by simpa using hl
          omega
        · right; rfl
    rw [hrun, step_closed mis blk _ n hn', hxk]
    refine ⟨hok, ?_, ?_, ?_⟩
    · simp only
      split
      · rw [Array.size_setIfInBounds]; exact hsz
      · exact hsz
    · intro j hj h
      simp only
      by_cases hl : loads mis n = true
      · rw [if_pos hl]
        have hn16 : n < 16 := by
          unfold loads at hl
          simp at hl
          exact hl.1
        rw [K_lo n hn16, array_getD_set _ _ _ _ (by omega)]
        by_cases hjn : n = j
        · rw [if_pos hjn, hjn]
        · rw [if_neg hjn]
          apply hx j hj
          rcases h with h | h
          · left; omega
          · right; exact h
      · rw [if_neg hl]
        apply hx j hj
        rcases h with h | h
        · by_cases hjn : j = n
          · subst hjn
            unfold loads at hl
            cases mis
            · simp at hl; omega
            · right; rfl
          · left; omega
        · right; exact h
    · simp only
      rw [show (n + 1) % 4 = (n % 4 + 1) % 4 by omega]
      have hs := S_range n hn'
      rw [stepRegs_view _ (Nat.mod_lt _ (by decide)) _ (by omega) _ hs.1 hs.2, hv, hspec, hop]

theorem transform_eq (mis : Bool) (H : R4 UInt32) (blk : List UInt8) (hblk : blk.length = 64) :
    transform mis H blk = .ok (Spec.Md5.compress H blk) := by
  have htbl : (if mis then Mhd.Gen.Hash.md5StepsMis else Mhd.Gen.Hash.md5Steps)
      = (List.range 64).map (closedRow mis) := by
    cases mis
    · exact steps_closed
    · exact stepsMis_closed
  obtain ⟨hok, _, _, hv⟩ := loop_inv mis blk hblk H 64 (Nat.le_refl _)
  unfold transform
  simp only [htbl, List.foldl_map]
  have hfold : List.foldl (fun x y => step blk x (closedRow mis y))
      { v := H, x := if mis = true then loadX blk else Array.replicate 16 0, ok := true } (List.range 64)
      = runSteps mis blk H 64 := rfl
  rw [hfold, if_pos hok]
  have hview : view (64 % 4) (runSteps mis blk H 64).v = (runSteps mis blk H 64).v := by
    generalize (runSteps mis blk H 64).v = v
    obtain ⟨a, b, c, d⟩ := v
    rfl
  rw [hview] at hv
  unfold Spec.Md5.compress
  rw [hv]
  rfl

theorem cnt64_putLen (n : Nat) :
    bytesLE64 (UInt64.ofNat (n % 2 ^ 64 * 8 % 2 ^ 64)) = bytesLE64 (UInt64.ofNat (8 * n)) := by
  have e : ∀ x, UInt64.ofNat (x % 2 ^ 64) = UInt64.ofNat x := by
    intro x; apply UInt64.toNat_inj.mp; simp
  rw [e, Nat.mul_comm, ← e (8 * n), ← e (8 * (n % 2 ^ 64))]
  congr 2
  omega

theorem refines : Refines alg Spec.Md5.spec (fun _ => True) (fun n => (n % 2 ^ 64, 0)) where
  B_eq := by decide
  L_eq := by decide
  L_pos := by decide
  L_lt := by decide
  B_lt := by decide
  iv_eq := iv_eq
  transform_eq := fun mis H blk h => transform_eq mis H blk h
  cnt_zero := rfl
  bump_eq := by
    intro n len _
    simp only [alg, bump64, Nat.mod_add_mod]
  cnt_mod := by
    intro n
    have : alg.B = 64 := by decide
    rw [this]; simp only; omega
  putLen_eq := fun n => cnt64_putLen n
  lenField_len := fun _ => rfl
  digest_eq := fun _ => rfl

end Mhd.Hash.Md5
