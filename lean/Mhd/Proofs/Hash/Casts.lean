/-
  C16: the widths of the integers in the control flow of the update/finish functions.
  `CExpr.eval_lt_ub`: the syntactic bound is a bound for every value of the variables;
  `casts_harmless`: every conversion to a narrower type that clang finds in the ten functions (Mhd.Gen.HashCasts,
  regenerated each run) gets an operand that fits into the target type, hence is the identity.
-/
import Mhd.Gen.HashCasts
namespace Mhd.Hash

theorem CExpr.eval_lt_ub (env : String → Nat) : ∀ (e : CExpr) (b : Nat), e.ub = some b → e.eval env < b := by
  intro e
  induction e with
  | other t bits =>
    intro b h; simp only [CExpr.ub, Option.some.injEq] at h; subst h
    exact Nat.mod_lt _ (Nat.two_pow_pos bits)
  | lit n => intro b h; simp only [CExpr.ub, Option.some.injEq] at h; subst h; exact Nat.lt_succ_self n
  | band a b iha ihb =>
    intro bd h
    simp only [CExpr.ub] at h
    have hl : (a.eval env &&& b.eval env) ≤ a.eval env := Nat.and_le_left
    have hr : (a.eval env &&& b.eval env) ≤ b.eval env := Nat.and_le_right
    cases ha : a.ub <;> cases hb : b.ub <;> simp only [ha, hb, Option.some.injEq, reduceCtorEq] at h
    · subst h; exact Nat.lt_of_le_of_lt hr (ihb _ hb)
    · subst h; exact Nat.lt_of_le_of_lt hl (iha _ ha)
    · subst h
      have := iha _ ha; have := ihb _ hb
      simp only [CExpr.eval]; omega
  | mod a b iha _ =>
    intro bd h
    simp only [CExpr.ub] at h
    have hle : a.eval env % b.eval env ≤ a.eval env := Nat.mod_le _ _
    cases hc : b.const? with
    | none => simp only [hc] at h; exact Nat.lt_of_le_of_lt hle (iha _ h)
    | some n =>
      simp only [hc] at h
      have hb : b.eval env = n := by
        cases b <;> simp only [CExpr.const?, Option.some.injEq, reduceCtorEq] at hc
        subst hc; rfl
      by_cases hn : n = 0
      · simp only [hn, if_true] at h; exact Nat.lt_of_le_of_lt hle (iha _ h)
      · simp only [hn, if_false, Option.some.injEq] at h; subst h
        simp only [CExpr.eval, hb]; exact Nat.mod_lt _ (Nat.pos_of_ne_zero hn)
  | shr a b iha _ =>
    intro bd h
    simp only [CExpr.ub] at h
    cases ha : a.ub with
    | none => simp only [ha, reduceCtorEq] at h
    | some x =>
      have hx := iha _ ha
      cases hc : b.const? with
      | none =>
        simp only [ha, hc, Option.some.injEq] at h; subst h
        simp only [CExpr.eval, Nat.shiftRight_eq_div_pow]
        exact Nat.lt_of_le_of_lt (Nat.div_le_self _ _) hx
      | some s =>
        simp only [ha, hc, Option.some.injEq] at h; subst h
        have hb : b.eval env = s := by
          cases b <;> simp only [CExpr.const?, Option.some.injEq, reduceCtorEq] at hc
          subst hc; rfl
        simp only [CExpr.eval, hb, Nat.shiftRight_eq_div_pow]
        have : a.eval env / 2 ^ s ≤ (x - 1) / 2 ^ s := Nat.div_le_div_right (by omega)
        omega

/-- a harmless conversion is the identity on every value its operand can take -/
theorem NarrowCast.harmless_keeps_value (c : NarrowCast) (h : c.harmless = true) (env : String → Nat) :
    c.operand.eval env % 2 ^ c.dstBits = c.operand.eval env := by
  unfold NarrowCast.harmless at h
  cases hu : c.operand.ub with
  | none => simp [hu] at h
  | some b =>
    simp only [hu, decide_eq_true_eq] at h
    exact Nat.mod_eq_of_lt (Nat.lt_of_lt_of_le (CExpr.eval_lt_ub env _ _ hu) h)

/-- checked on the whole regenerated list -/
theorem casts_harmless : ∀ c ∈ Mhd.Gen.Hash.narrowingCasts, c.dataPath = false → c.harmless = true := by decide

theorem length_params_64 : ∀ u ∈ Mhd.Gen.Hash.updateLengthBits, u.2.2 = 64 := by decide

/-- `bytes_have = (unsigned int) (ctx->count & (BLOCK_SIZE - 1))` is the model's `count % B` -/
theorem bytes_have_64 (count : Nat) : (count &&& 63) % 2 ^ 32 = count % 64 := by
  have h : count &&& 63 = count % 64 := Nat.and_two_pow_sub_one_eq_mod count 6
  rw [h]; exact Nat.mod_eq_of_lt (Nat.lt_of_lt_of_le (Nat.mod_lt _ (by decide)) (by decide))

theorem bytes_have_128 (count : Nat) : (count &&& 127) % 2 ^ 32 = count % 128 := by
  have h : count &&& 127 = count % 128 := Nat.and_two_pow_sub_one_eq_mod count 7
  rw [h]; exact Nat.mod_eq_of_lt (Nat.lt_of_lt_of_le (Nat.mod_lt _ (by decide)) (by decide))

end Mhd.Hash
