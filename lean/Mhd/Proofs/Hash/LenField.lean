/-
  C16: the length field that `*_finish` stores into the last block is the full-width bit length
  of everything fed since `init` — the part of the `…_chunks` invariant that a message of
  2^29 bytes and more (bit length beyond 32 bits) depends on.
-/
import Mhd.Proofs.Hash.Sha256
import Mhd.Proofs.Hash.Md5
import Mhd.Proofs.Hash.Sha512
import Mhd.Proofs.Hash.Sha1

namespace Mhd.Hash

/-- value of a byte string read as a big-endian number -/
def beVal (bs : List UInt8) : Nat := bs.foldl (fun a b => a * 256 + b.toNat) 0
/-- value of a byte string read as a little-endian number -/
def leVal (bs : List UInt8) : Nat := bs.foldr (fun b a => b.toNat + 256 * a) 0

/-- the bytes `*_finish` stores at offset `BLOCK_SIZE - SIZE_OF_LEN_ADD` of the last block
    (`_MHD_PUT_64BIT_xx (…, num_bits)`, for SHA-512/256 preceded by `count_bits_hi`) -/
def lengthField (A : Alg S) (c : Ctx S) : List UInt8 := A.putLen c.countHi ((c.count * 8) % 2 ^ 64)

theorem finish_uses_lengthField (A : Alg S) (c : Ctx S) :
    finish A c = finishCore A c.H c.buffer (c.count % A.B) (lengthField A c) := rfl

theorem byte_of_shift (w : UInt64) (k : UInt64) (hk : k.toNat < 64) :
    (w >>> k).toUInt8.toNat = w.toNat / 2 ^ k.toNat % 256 := by
  rw [UInt64.toNat_toUInt8, UInt64.toNat_shiftRight, Nat.mod_eq_of_lt hk, Nat.shiftRight_eq_div_pow]

theorem beVal_bytesBE64 (w : UInt64) : beVal (bytesBE64 w) = w.toNat := by
  have h := w.toNat_lt
  simp only [bytesBE64, beVal, List.foldl_cons, List.foldl_nil]
  rw [byte_of_shift w 56 (by decide), byte_of_shift w 48 (by decide), byte_of_shift w 40 (by decide),
    byte_of_shift w 32 (by decide), byte_of_shift w 24 (by decide), byte_of_shift w 16 (by decide),
    byte_of_shift w 8 (by decide), UInt64.toNat_toUInt8]
  simp only [show (56 : UInt64).toNat = 56 from rfl, show (48 : UInt64).toNat = 48 from rfl,
    show (40 : UInt64).toNat = 40 from rfl, show (32 : UInt64).toNat = 32 from rfl,
    show (24 : UInt64).toNat = 24 from rfl, show (16 : UInt64).toNat = 16 from rfl,
    show (8 : UInt64).toNat = 8 from rfl]
  omega

theorem leVal_bytesLE64 (w : UInt64) : leVal (bytesLE64 w) = w.toNat := by
  have h := w.toNat_lt
  simp only [bytesLE64, leVal, List.foldr_cons, List.foldr_nil]
  rw [byte_of_shift w 56 (by decide), byte_of_shift w 48 (by decide), byte_of_shift w 40 (by decide),
    byte_of_shift w 32 (by decide), byte_of_shift w 24 (by decide), byte_of_shift w 16 (by decide),
    byte_of_shift w 8 (by decide), UInt64.toNat_toUInt8]
  simp only [show (56 : UInt64).toNat = 56 from rfl, show (48 : UInt64).toNat = 48 from rfl,
    show (40 : UInt64).toNat = 40 from rfl, show (32 : UInt64).toNat = 32 from rfl,
    show (24 : UInt64).toNat = 24 from rfl, show (16 : UInt64).toNat = 16 from rfl,
    show (8 : UInt64).toNat = 8 from rfl]
  omega

theorem beVal_append8 (xs ys : List UInt8) (h : ys.length = 8) :
    beVal (xs ++ ys) = beVal xs * 2 ^ 64 + beVal ys := by
  match ys, h with
  | [a, b, c, d, e, f, g, i], _ =>
    simp only [beVal, List.foldl_append, List.foldl_cons, List.foldl_nil]
    omega

variable {S : Type} {A : Alg S} {Sp : Spec.Hash S} {lenOK : Nat → Prop} {cnt : Nat → Nat × Nat}

/-- the generic fact: after `init` and any chunks, `finish` stores the specification's length
    field of the total number of bytes fed -/
theorem lengthField_eq (R : Refines A Sp lenOK cnt) (c : Ctx S) (hc : c.buffer.length = A.B)
    (chunks : List (Nat × List UInt8)) (hl : ∀ ch ∈ chunks, lenOK ch.2.length) :
    ∃ c', feed A (init A c) chunks = .ok c' ∧
      lengthField A c' = Sp.lenField ((chunks.map (·.2)).flatten).length := by
  obtain ⟨c', hf, hI⟩ := feed_inv R chunks (init A c) [] (inv_init R c hc) hl
  refine ⟨c', hf, ?_⟩
  obtain ⟨_, hcnt, _, _⟩ := hI
  simp only [List.nil_append] at hcnt
  have hc1 : c'.count = (cnt ((chunks.map (·.2)).flatten).length).1 := by rw [← hcnt]
  have hc2 : c'.countHi = (cnt ((chunks.map (·.2)).flatten).length).2 := by rw [← hcnt]
  unfold lengthField
  rw [hc1, hc2]; exact R.putLen_eq _

theorem sha256_lenField_val (n : Nat) : beVal (Spec.Sha256.spec.lenField n) = (8 * n) % 2 ^ 64 := by
  show beVal (bytesBE64 (UInt64.ofNat (8 * n))) = _
  rw [beVal_bytesBE64, UInt64.toNat_ofNat']
theorem sha1_lenField_val (n : Nat) : beVal (Spec.Sha1.spec.lenField n) = (8 * n) % 2 ^ 64 := by
  show beVal (bytesBE64 (UInt64.ofNat (8 * n))) = _
  rw [beVal_bytesBE64, UInt64.toNat_ofNat']
theorem md5_lenField_val (n : Nat) : leVal (Spec.Md5.spec.lenField n) = (8 * n) % 2 ^ 64 := by
  show leVal (bytesLE64 (UInt64.ofNat (8 * n))) = _
  rw [leVal_bytesLE64, UInt64.toNat_ofNat']
theorem sha512_lenField_val (n : Nat) : beVal (Spec.Sha512.spec.lenField n) = (8 * n) % 2 ^ 128 := by
  show beVal (bytesBE64 (UInt64.ofNat (8 * n / 2 ^ 64)) ++ bytesBE64 (UInt64.ofNat (8 * n))) = _
  rw [beVal_append8 _ _ (by simp [bytesBE64]), beVal_bytesBE64, beVal_bytesBE64, UInt64.toNat_ofNat', UInt64.toNat_ofNat']
  omega

end Mhd.Hash
