/-
  C16: list / word-parsing facts shared by the four compression-function proofs.
-/
import Mhd.Model.Hash.Common
namespace Mhd.Hash

/-! generic list facts used by all four compression proofs -/

theorem foldl_eq_range {α β : Type} (l : List α) (d : α) (f : β → α → β) (H : β) :
    l.foldl f H = (List.range l.length).foldl (fun s i => f s (l.getD i d)) H := by
  induction l generalizing H with
  | nil => rfl
  | cons x xs ih =>
    rw [List.length_cons, List.range_succ_eq_map, List.foldl_cons, List.foldl_cons, List.foldl_map, ih]
    rfl

theorem zip_getD {α β : Type} (K : List α) (W : List β) (h : K.length = W.length) (i : Nat) (a : α) (b : β) :
    (K.zip W).getD i (a, b) = (K.getD i a, W.getD i b) := by
  induction K generalizing W i with
  | nil =>
    cases W with
    | nil => rfl
    | cons _ _ => simp at h
  | cons k ks ih =>
    cases W with
    | nil => simp at h
    | cons w ws =>
      cases i with
      | zero => rfl
      | succ i => simpa using ih ws (by simpa using h) i

theorem foldl_zip_range {α β γ : Type} (K : List α) (W : List β) (hl : K.length = W.length)
    (f : γ → α × β → γ) (H : γ) (a : α) (b : β) :
    (K.zip W).foldl f H = (List.range K.length).foldl (fun s t => f s (K.getD t a, W.getD t b)) H := by
  rw [foldl_eq_range _ (a, b)]
  have hzl : (K.zip W).length = K.length := by rw [List.length_zip, ← hl, Nat.min_self]
  rw [hzl]
  congr 1
  funext s t
  rw [zip_getD K W hl]

theorem foldl_range_congr {β : Type} (n : Nat) (f g : β → Nat → β) (H : β)
    (h : ∀ s t, t < n → f s t = g s t) :
    (List.range n).foldl f H = (List.range n).foldl g H := by
  induction n with
  | zero => rfl
  | succ n ih =>
    rw [List.range_succ, List.foldl_append, List.foldl_append, ih (fun s t ht => h s t (by omega))]
    simp only [List.foldl_cons, List.foldl_nil]
    exact h _ n (by omega)

theorem wordsBE32_length : ∀ (l : List UInt8), (wordsBE32 l).length = l.length / 4
  | b0 :: b1 :: b2 :: b3 :: rest => by
    simp only [wordsBE32, List.length_cons, wordsBE32_length rest]; omega
  | [] => by simp [wordsBE32]
  | [_] => by simp [wordsBE32]
  | [_, _] => by simp [wordsBE32]
  | [_, _, _] => by simp [wordsBE32]

theorem wordsBE32_getD : ∀ (l : List UInt8) (t : Nat), 4 * t + 3 < l.length →
    (wordsBE32 l).getD t 0 = getBE32 l t
  | b0 :: b1 :: b2 :: b3 :: rest, 0, _ => by simp [wordsBE32, getBE32]
  | b0 :: b1 :: b2 :: b3 :: rest, t + 1, h => by
    have ih := wordsBE32_getD rest t (by simp at h; omega)
    have e0 : 4 * (t + 1) = 4 * t + 1 + 1 + 1 + 1 := by omega
    simp only [wordsBE32, List.getD_cons_succ, ih, getBE32, e0]
  | [], t, h => by simp at h
  | [_], t, h => by simp at h
  | [_, _], t, h => by simp at h; omega
  | [_, _, _], t, h => by simp at h; omega

theorem wordsLE32_length : ∀ (l : List UInt8), (wordsLE32 l).length = l.length / 4
  | b0 :: b1 :: b2 :: b3 :: rest => by
    simp only [wordsLE32, List.length_cons, wordsLE32_length rest]; omega
  | [] => by simp [wordsLE32]
  | [_] => by simp [wordsLE32]
  | [_, _] => by simp [wordsLE32]
  | [_, _, _] => by simp [wordsLE32]

theorem wordsLE32_getD : ∀ (l : List UInt8) (t : Nat), 4 * t + 3 < l.length →
    (wordsLE32 l).getD t 0 = getLE32 l t
  | b0 :: b1 :: b2 :: b3 :: rest, 0, _ => by simp [wordsLE32, getLE32]
  | b0 :: b1 :: b2 :: b3 :: rest, t + 1, h => by
    have ih := wordsLE32_getD rest t (by simp at h; omega)
    have e0 : 4 * (t + 1) = 4 * t + 1 + 1 + 1 + 1 := by omega
    simp only [wordsLE32, List.getD_cons_succ, ih, getLE32, e0]
  | [], t, h => by simp at h
  | [_], t, h => by simp at h
  | [_, _], t, h => by simp at h; omega
  | [_, _, _], t, h => by simp at h; omega

theorem wordsBE64_length : ∀ (l : List UInt8), (wordsBE64 l).length = l.length / 8
  | b0 :: b1 :: b2 :: b3 :: b4 :: b5 :: b6 :: b7 :: rest => by
    simp only [wordsBE64, List.length_cons, wordsBE64_length rest]; omega
  | [] => by simp [wordsBE64]
  | [_] => by simp [wordsBE64]
  | [_, _] => by simp [wordsBE64]
  | [_, _, _] => by simp [wordsBE64]
  | [_, _, _, _] => by simp [wordsBE64]
  | [_, _, _, _, _] => by simp [wordsBE64]
  | [_, _, _, _, _, _] => by simp [wordsBE64]
  | [_, _, _, _, _, _, _] => by simp [wordsBE64]

theorem wordsBE64_getD : ∀ (l : List UInt8) (t : Nat), 8 * t + 7 < l.length →
    (wordsBE64 l).getD t 0 = getBE64 l t
  | b0 :: b1 :: b2 :: b3 :: b4 :: b5 :: b6 :: b7 :: rest, 0, _ => by simp [wordsBE64, getBE64]
  | b0 :: b1 :: b2 :: b3 :: b4 :: b5 :: b6 :: b7 :: rest, t + 1, h => by
    have ih := wordsBE64_getD rest t (by simp at h; omega)
    have e0 : 8 * (t + 1) = 8 * t + 1 + 1 + 1 + 1 + 1 + 1 + 1 + 1 := by omega
    simp only [wordsBE64, List.getD_cons_succ, ih, getBE64, e0]
  | [], t, h => by simp at h
  | [_], t, h => by simp at h
  | [_, _], t, h => by simp at h; omega
  | [_, _, _], t, h => by simp at h; omega
  | [_, _, _, _], t, h => by simp at h; omega
  | [_, _, _, _, _], t, h => by simp at h; omega
  | [_, _, _, _, _, _], t, h => by simp at h; omega
  | [_, _, _, _, _, _, _], t, h => by simp at h; omega

theorem array_getD_set (w : Array UInt32) (i j : Nat) (x : UInt32) (hi : i < w.size) :
    (w.setIfInBounds i x).getD j 0 = if i = j then x else w.getD j 0 := by
  simp only [Array.getD_eq_getD_getElem?, Array.getElem?_setIfInBounds, hi, if_true]
  split <;> rfl

theorem array_getD_set64 (w : Array UInt64) (i j : Nat) (x : UInt64) (hi : i < w.size) :
    (w.setIfInBounds i x).getD j 0 = if i = j then x else w.getD j 0 := by
  simp only [Array.getD_eq_getD_getElem?, Array.getElem?_setIfInBounds, hi, if_true]
  split <;> rfl

end Mhd.Hash
