/-
  C16, SHA-1: `sha1_transform` (both copies: src/microhttpd/sha1.c and src/microhttpd_ws/sha1.c)
  as modelled from the recorded step tables equals the computation of FIPS 180-4 §6.1.2 on every
  64-byte block and chaining value; hence both models `Refine` the specification.
  Obligations tying the proof to the C sources: `steps_closed`, `stepsMis_closed`,
  `wsSteps_closed`, `wsStepsMis_closed`, `iv_eq`, `wsIv_eq`.
-/
import Mhd.Model.Hash.Sha1
import Mhd.Model.Hash.SpecSha1
import Mhd.Proofs.Hash.Lists
import Mhd.Proofs.Hash.MD
namespace Mhd.Hash.Sha1
open Mhd.Hash

theorem Ch_eq (x y z : UInt32) : Ch x y z = Spec.Sha1.ch x y z := by
  unfold Ch Spec.Sha1.ch
  apply UInt32.eq_of_toBitVec_eq
  simp only [UInt32.toBitVec_xor, UInt32.toBitVec_and, UInt32.toBitVec_not]
  ext i hi
  simp only [BitVec.getElem_xor, BitVec.getElem_and, BitVec.getElem_not]
  cases x.toBitVec[i] <;> cases y.toBitVec[i] <;> cases z.toBitVec[i] <;> rfl

theorem Maj_eq (x y z : UInt32) : Maj x y z = Spec.Sha1.maj x y z := by
  unfold Maj Spec.Sha1.maj
  apply UInt32.eq_of_toBitVec_eq
  simp only [UInt32.toBitVec_xor, UInt32.toBitVec_and]
  ext i hi
  simp only [BitVec.getElem_xor, BitVec.getElem_and]
  cases x.toBitVec[i] <;> cases y.toBitVec[i] <;> cases z.toBitVec[i] <;> rfl

theorem rotl32_eq (x : UInt32) (n : Nat) (h0 : 0 < n) (h : n < 32) : rotl32 x n = Spec.Sha1.rotl n x := by
  unfold rotl32 Spec.Sha1.rotl
  simp only [Nat.mod_eq_of_lt h]
  rw [if_neg (by omega)]

/-- register names of step `t`: (a,b,c,d,e), (e,a,b,c,d), (d,e,a,b,c), … -/
def rot5 : Nat → List Nat
  | 0 => [0, 1, 2, 3, 4]
  | 1 => [4, 0, 1, 2, 3]
  | 2 => [3, 4, 0, 1, 2]
  | 3 => [2, 3, 4, 0, 1]
  | _ => [1, 2, 3, 4, 0]

/-- which `ft` the source passes at step `t` (0 = Ch, 1 = Par, 2 = Maj) -/
def fkOf (t : Nat) : Nat := if t < 20 then 0 else if t < 40 then 1 else if t < 60 then 2 else 1

/-- the step table in closed form -/
def closedRow (t : Nat) : Row :=
  (rot5 (t % 5), fkOf t, (Spec.Sha1.K t).toNat, t % 16, if t < 16 then 0 else 1, t)

theorem steps_closed : Mhd.Gen.Hash.sha1Steps = (List.range 80).map closedRow := by decide
theorem stepsMis_closed : Mhd.Gen.Hash.sha1StepsMis = (List.range 80).map closedRow := by decide
theorem wsSteps_closed : Mhd.Gen.Hash.wsSha1Steps = (List.range 80).map closedRow := by decide
theorem wsStepsMis_closed : Mhd.Gen.Hash.wsSha1StepsMis = (List.range 80).map closedRow := by decide
theorem iv_eq : ivOf Mhd.Gen.Hash.sha1IV = Spec.Sha1.H0 := by decide
theorem wsIv_eq : ivOf Mhd.Gen.Hash.wsSha1IV = Spec.Sha1.H0 := by decide

def stepRegs (r fk : Nat) (k wt : UInt32) (v : R5 UInt32) : R5 UInt32 :=
  match rot5 r with
  | [iA, iB, iC, iD, iE] =>
    let v := v.set iE (v.get iE + (rotl32 (v.get iA) 5 + ftOf fk (v.get iB) (v.get iC) (v.get iD) + k + wt))
    v.set iB (rotl32 (v.get iB) 30)
  | _ => v

def view (r : Nat) (v : R5 UInt32) : R5 UInt32 :=
  match rot5 r with
  | [iA, iB, iC, iD, iE] => ⟨v.get iA, v.get iB, v.get iC, v.get iD, v.get iE⟩
  | _ => v

def fSpec (fk : Nat) : UInt32 → UInt32 → UInt32 → UInt32 :=
  if fk = 0 then Spec.Sha1.ch else if fk = 1 then Spec.Sha1.parity else Spec.Sha1.maj

def specRound (fk : Nat) (k w : UInt32) (s : R5 UInt32) : R5 UInt32 :=
  ⟨Spec.Sha1.rotl 5 s.a + fSpec fk s.b s.c s.d + s.e + k + w, s.a, Spec.Sha1.rotl 30 s.b, s.c, s.d⟩

theorem add5 (e r f k w : UInt32) : e + (r + f + k + w) = r + f + e + k + w := by ac_rfl

set_option linter.unusedSimpArgs false in
theorem stepRegs_view (r : Nat) (hr : r < 5) (fk : Nat) (hfk : fk < 3) (k wt : UInt32) (v : R5 UInt32) :
    view ((r + 1) % 5) (stepRegs r fk k wt v) = specRound fk k wt (view r v) := by
  obtain ⟨a, b, c, d, e⟩ := v
  have hf : fk = 0 ∨ fk = 1 ∨ fk = 2 := by omega
  match r, hr with
  | 0, _ | 1, _ | 2, _ | 3, _ | 4, _ =>
    rcases hf with rfl | rfl | rfl <;>
    simp only [view, stepRegs, rot5, R5.get, R5.set, specRound, fSpec, ftOf, rotl32_eq _ 5 (by decide) (by decide),
      rotl32_eq _ 30 (by decide) (by decide), Nat.reduceEqDiff, ↓reduceIte, Nat.succ_ne_self, Nat.reduceAdd,
      Nat.reduceMod, add5, Ch_eq, Maj_eq, Par, Spec.Sha1.parity, Nat.one_ne_zero, Nat.succ_ne_zero]

def wOf (blk : List UInt8) (w : Array UInt32) (t : Nat) : UInt32 :=
  if t < 16 then getBE32 blk t else wgen w t

theorem fkOf_lt (t : Nat) : fkOf t < 3 := by
  unfold fkOf; split <;> (try split) <;> (try split) <;> omega

theorem step_closed (blk : List UInt8) (s : TS) (t : Nat) :
    step blk s (closedRow t) =
      { v := stepRegs (t % 5) (fkOf t) (Spec.Sha1.K t) (wOf blk s.w t) s.v,
        w := s.w.setIfInBounds (t % 16) (wOf blk s.w t), ok := s.ok } := by
  have hr : t % 5 < 5 := Nat.mod_lt _ (by decide)
  have h16 : t % 16 < 16 := Nat.mod_lt _ (by decide)
  have hfk := fkOf_lt t
  unfold closedRow
  generalize t % 5 = r at hr
  have hk : ((Spec.Sha1.K t).toNat).toUInt32 = Spec.Sha1.K t := by simp
  generalize Spec.Sha1.K t = kk at hk ⊢
  generalize fkOf t = fk at hfk ⊢
  match r, hr with
  | 0, _ | 1, _ | 2, _ | 3, _ | 4, _ =>
    by_cases h : t < 16
    · simp [step, rowOK, rot5, stepRegs, wOf, h, h16, hfk, hk]
    · have : 16 ≤ t := by omega
      simp [step, rowOK, rot5, stepRegs, wOf, h, h16, this, hfk, hk]

/-! ### the message schedule -/

def sched (n : Nat) (M : List UInt32) : List UInt32 :=
  (List.range n).foldl (fun W _ => W ++ [Spec.Sha1.nextW W]) M

theorem sched_succ (n : Nat) (M : List UInt32) :
    sched (n + 1) M = sched n M ++ [Spec.Sha1.nextW (sched n M)] := by
  simp [sched, List.range_succ, List.foldl_append]

theorem sched_length (n : Nat) (M : List UInt32) : (sched n M).length = M.length + n := by
  induction n with
  | zero => simp [sched]
  | succ n ih => rw [sched_succ, List.length_append, ih]; simp; omega

theorem sched_stable (M : List UInt32) (n k i : Nat) (hi : i < M.length + n) :
    (sched (n + k) M).getD i 0 = (sched n M).getD i 0 := by
  induction k with
  | zero => rfl
  | succ k ih =>
    rw [← Nat.add_assoc, sched_succ, List.getD_eq_getElem?_getD,
      List.getElem?_append_left (by rw [sched_length]; omega), ← List.getD_eq_getElem?_getD, ih]

theorem schedule_lo (M : List UInt32) (t : Nat) (ht : t < M.length) :
    (Spec.Sha1.schedule M).getD t 0 = M.getD t 0 := by
  have := sched_stable M 0 64 t (by omega)
  simpa [sched, Spec.Sha1.schedule] using this

theorem schedule_rec (M : List UInt32) (hM : M.length = 16) (t : Nat) (h16 : 16 ≤ t) (h80 : t < 80) :
    (Spec.Sha1.schedule M).getD t 0 =
      Spec.Sha1.rotl 1 ((Spec.Sha1.schedule M).getD (t - 3) 0 ^^^ (Spec.Sha1.schedule M).getD (t - 8) 0
        ^^^ (Spec.Sha1.schedule M).getD (t - 14) 0 ^^^ (Spec.Sha1.schedule M).getD (t - 16) 0) := by
  have hs : Spec.Sha1.schedule M = sched 64 M := rfl
  have e : ∀ i, i < t → (sched 64 M).getD i 0 = (sched (t - 16) M).getD i 0 := by
    intro i hi
    have := sched_stable M (t - 16) (64 - (t - 16)) i (by omega)
    rwa [show t - 16 + (64 - (t - 16)) = 64 by omega] at this
  have e1 : (sched 64 M).getD t 0 = (sched (t - 16 + 1) M).getD t 0 := by
    have := sched_stable M (t - 16 + 1) (64 - (t - 16 + 1)) t (by omega)
    rwa [show t - 16 + 1 + (64 - (t - 16 + 1)) = 64 by omega] at this
  rw [hs, e1, sched_succ, List.getD_eq_getElem?_getD,
    List.getElem?_append_right (by rw [sched_length]; omega)]
  have hl : (sched (t - 16) M).length = t := by rw [sched_length]; omega
  simp only [hl, Nat.sub_self, List.getElem?_cons_zero, Option.getD_some, Spec.Sha1.nextW]
  rw [e _ (by omega), e _ (by omega), e _ (by omega), e _ (by omega)]

/-! ### the 80 steps -/

def runSteps (blk : List UInt8) (H : R5 UInt32) (n : Nat) : TS :=
  (List.range n).foldl (fun s t => step blk s (closedRow t)) { v := H, w := Array.replicate 16 0, ok := true }

def specRounds (blk : List UInt8) (H : R5 UInt32) (n : Nat) : R5 UInt32 :=
  (List.range n).foldl (fun r t => Spec.Sha1.round r (t, (Spec.Sha1.schedule (wordsBE32 blk)).getD t 0)) H

theorem f_eq (t : Nat) : Spec.Sha1.f t = fSpec (fkOf t) := by
  unfold Spec.Sha1.f fSpec fkOf
  split
  · rfl
  · split
    · rfl
    · split <;> rfl

theorem loop_inv (blk : List UInt8) (hblk : blk.length = 64) (H : R5 UInt32) (n : Nat) (hn : n ≤ 80) :
    (runSteps blk H n).ok = true ∧ (runSteps blk H n).w.size = 16 ∧
    (∀ j, j < n → n ≤ j + 16 →
      (runSteps blk H n).w.getD (j % 16) 0 = (Spec.Sha1.schedule (wordsBE32 blk)).getD j 0) ∧
    view (n % 5) (runSteps blk H n).v = specRounds blk H n := by
  induction n with
  | zero =>
    refine ⟨rfl, by simp [runSteps], by intro j hj; omega, ?_⟩
    obtain ⟨a, b, c, d, e⟩ := H
    rfl
  | succ n ih =>
    obtain ⟨hok, hsz, hw, hv⟩ := ih (by omega)
    have hM : (wordsBE32 blk).length = 16 := by rw [wordsBE32_length, hblk]
    have hrun : runSteps blk H (n + 1) = step blk (runSteps blk H n) (closedRow n) := by
      simp [runSteps, List.range_succ, List.foldl_append]
    have hspec : specRounds blk H (n + 1) = Spec.Sha1.round (specRounds blk H n)
        (n, (Spec.Sha1.schedule (wordsBE32 blk)).getD n 0) := by
      simp [specRounds, List.range_succ, List.foldl_append]
    have hwt : wOf blk (runSteps blk H n).w n = (Spec.Sha1.schedule (wordsBE32 blk)).getD n 0 := by
      unfold wOf
      by_cases h16 : n < 16
      · rw [if_pos h16, schedule_lo _ _ (by omega), wordsBE32_getD _ _ (by omega)]
      · rw [if_neg h16, schedule_rec _ hM n (by omega) (by omega)]
        unfold wgen
        rw [show (n + 13) % 16 = (n - 3) % 16 by omega, show (n + 8) % 16 = (n - 8) % 16 by omega,
          show (n + 2) % 16 = (n - 14) % 16 by omega, show n % 16 = (n - 16) % 16 by omega]
        rw [hw (n - 16) (by omega) (by omega), hw (n - 3) (by omega) (by omega),
          hw (n - 8) (by omega) (by omega), hw (n - 14) (by omega) (by omega),
          rotl32_eq _ 1 (by decide) (by decide)]
    rw [hrun, step_closed, hwt]
    refine ⟨hok, by rw [Array.size_setIfInBounds]; exact hsz, ?_, ?_⟩
    · intro j hj1 hj2
      simp only
      rw [array_getD_set _ _ _ _ (by rw [hsz]; exact Nat.mod_lt _ (by decide))]
      by_cases hjn : j = n
      · subst hjn; simp
      · have : n % 16 ≠ j % 16 := by omega
        rw [if_neg this]
        exact hw j (by omega) (by omega)
    · simp only
      rw [show (n + 1) % 5 = (n % 5 + 1) % 5 by omega]
      rw [stepRegs_view _ (Nat.mod_lt _ (by decide)) _ (fkOf_lt n), hv, hspec]
      unfold Spec.Sha1.round specRound
      rw [f_eq]

theorem range_getD (n t : Nat) (h : t < n) : (List.range n).getD t 0 = t := by
  rw [List.getD_eq_getElem?_getD, List.getElem?_range h]; rfl

theorem transformWith_eq (tbl tblMis : List Row) (h1 : tbl = (List.range 80).map closedRow)
    (h2 : tblMis = (List.range 80).map closedRow)
    (mis : Bool) (H : R5 UInt32) (blk : List UInt8) (hblk : blk.length = 64) :
    transformWith tbl tblMis mis H blk = .ok (Spec.Sha1.compress H blk) := by
  have htbl : (if mis then tblMis else tbl) = (List.range 80).map closedRow := by
    cases mis
    · exact h1
    · exact h2
  obtain ⟨hok, _, _, hv⟩ := loop_inv blk hblk H 80 (Nat.le_refl _)
  unfold transformWith
  simp only [htbl, List.foldl_map]
  have hfold : List.foldl (fun x y => step blk x (closedRow y))
      { v := H, w := Array.replicate 16 0, ok := true } (List.range 80) = runSteps blk H 80 := rfl
  rw [hfold, if_pos hok]
  have hview : view (80 % 5) (runSteps blk H 80).v = (runSteps blk H 80).v := by
    generalize (runSteps blk H 80).v = v
    obtain ⟨a, b, c, d, e⟩ := v
    rfl
  rw [hview] at hv
  have hM : (wordsBE32 blk).length = 16 := by rw [wordsBE32_length, hblk]
  have hsl : (Spec.Sha1.schedule (wordsBE32 blk)).length = 80 := by
    have := sched_length 64 (wordsBE32 blk)
    rw [hM] at this
    exact this
  have hspec : ((List.range 80).zip (Spec.Sha1.schedule (wordsBE32 blk))).foldl Spec.Sha1.round H
      = specRounds blk H 80 := by
    rw [foldl_zip_range (List.range 80) _ (by rw [hsl, List.length_range]) _ _ 0 0, List.length_range]
    unfold specRounds
    apply foldl_range_congr
    intro s t ht
    rw [range_getD 80 t ht]
  unfold Spec.Sha1.compress
  simp only [hspec, ← hv]
  generalize (runSteps blk H 80).v = v
  simp only [UInt32.add_comm]

theorem cnt64_putLen (n : Nat) :
    bytesBE64 (UInt64.ofNat (n % 2 ^ 64 * 8 % 2 ^ 64)) = bytesBE64 (UInt64.ofNat (8 * n)) := by
  have e : ∀ x, UInt64.ofNat (x % 2 ^ 64) = UInt64.ofNat x := by
    intro x; apply UInt64.toNat_inj.mp; simp
  rw [e, Nat.mul_comm, ← e (8 * n), ← e (8 * (n % 2 ^ 64))]
  congr 2
  omega

theorem refines : Refines alg Spec.Sha1.spec (fun _ => True) (fun n => (n % 2 ^ 64, 0)) where
  B_eq := by decide
  L_eq := by decide
  L_pos := by decide
  L_lt := by decide
  B_lt := by decide
  iv_eq := iv_eq
  transform_eq := fun mis H blk h => transformWith_eq _ _ steps_closed stepsMis_closed mis H blk h
  cnt_zero := rfl
  bump_eq := by
    intro n len _
    simp only [alg, mkAlg, bump64, Nat.mod_add_mod]
  cnt_mod := by
    intro n
    have : alg.B = 64 := by decide
    rw [this]; simp only; omega
  putLen_eq := fun n => cnt64_putLen n
  lenField_len := fun _ => rfl
  digest_eq := fun _ => rfl

theorem wsRefines : Refines wsAlg Spec.Sha1.spec (fun _ => True) (fun n => (n % 2 ^ 64, 0)) where
  B_eq := by decide
  L_eq := by decide
  L_pos := by decide
  L_lt := by decide
  B_lt := by decide
  iv_eq := wsIv_eq
  transform_eq := fun mis H blk h => transformWith_eq _ _ wsSteps_closed wsStepsMis_closed mis H blk h
  cnt_zero := rfl
  bump_eq := by
    intro n len _
    simp only [wsAlg, mkAlg, bump64, Nat.mod_add_mod]
  cnt_mod := by
    intro n
    have : wsAlg.B = 64 := by decide
    rw [this]; simp only; omega
  putLen_eq := fun n => cnt64_putLen n
  lenField_len := fun _ => rfl
  digest_eq := fun _ => rfl

end Mhd.Hash.Sha1
