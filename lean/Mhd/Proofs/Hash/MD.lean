/-
  C16, generic part: the incremental update/finish shape of `Mhd.Hash` (MD.lean) computes
  `Spec.Hash.hash` of the concatenation of the chunks, for any algorithm that `Refines` its
  specification.  Invariant: H = fold of the compression function over the full blocks of
  the prefix ∧ buffer = the incomplete tail of the prefix ∧ counters = |prefix|.
-/
import Mhd.Model.Hash.MD
namespace Mhd.Hash
variable {S : Type}

/-- pure reference absorption: all full `B`-byte blocks of `xs` folded into `H`, and the rest -/
def absorb (B : Nat) (f : S → List UInt8 → S) (H : S) (xs : List UInt8) : S × List UInt8 :=
  if _h : 0 < B ∧ B ≤ xs.length then absorb B f (f H (xs.take B)) (xs.drop B) else (H, xs)
termination_by xs.length
decreasing_by simp only [List.length_drop]; omega

theorem absorb_lt {B : Nat} (f : S → List UInt8 → S) (H : S) (xs : List UInt8) (h : xs.length < B) :
    absorb B f H xs = (H, xs) := by
  rw [absorb, dif_neg]; omega

theorem absorb_ge {B : Nat} (f : S → List UInt8 → S) (H : S) (xs : List UInt8) (hB : 0 < B)
    (h : B ≤ xs.length) :
    absorb B f H xs = absorb B f (f H (xs.take B)) (xs.drop B) := by
  rw [absorb, dif_pos ⟨hB, h⟩]

theorem absorb_rem {B : Nat} (f : S → List UInt8 → S) (hB : 0 < B) (H : S) (xs : List UInt8) :
    (absorb B f H xs).2.length = xs.length % B := by
  fun_induction absorb B f H xs with
  | case1 H xs h ih =>
    rw [ih, List.length_drop]
    have := h.2
    rw [← Nat.sub_add_cancel this, Nat.add_mod_right]
    simp
  | case2 H xs h =>
    have : xs.length < B := by omega
    simp [Nat.mod_eq_of_lt this]

theorem absorb_append {B : Nat} (f : S → List UInt8 → S) (hB : 0 < B) (H : S) (xs ys : List UInt8) :
    absorb B f H (xs ++ ys) = absorb B f (absorb B f H xs).1 ((absorb B f H xs).2 ++ ys) := by
  fun_induction absorb B f H xs with
  | case1 H xs h ih =>
    rw [absorb_ge f H (xs ++ ys) hB (by simp; omega)]
    rw [List.take_append_of_le_length h.2, List.drop_append_of_le_length h.2]
    exact ih
  | case2 H xs h => rfl

theorem absorb_blocks {B : Nat} (f : S → List UInt8 → S) (H : S) (xs : List UInt8)
    (hd : xs.length % B = 0) :
    absorb B f H xs = ((blocks B xs).foldl f H, []) := by
  fun_induction absorb B f H xs with
  | case1 H xs h ih =>
    rw [blocks]
    have ht : (xs.take B).length = B := by simp; omega
    simp only [ht, h.1, and_self, ↓reduceDIte, List.foldl_cons]
    apply ih
    rw [List.length_drop]
    have := h.2
    have h2 : xs.length = (xs.length - B) + B := by omega
    rw [h2, Nat.add_mod_right] at hd
    exact hd
  | case2 H xs h =>
    rw [blocks]
    by_cases hB : 0 < B
    · have hl : xs.length < B := by omega
      have : xs.length = 0 := by rw [Nat.mod_eq_of_lt hl] at hd; exact hd
      have hx : xs = [] := List.eq_nil_of_length_eq_zero this
      subst hx
      have : ¬ (0 < B ∧ 0 = B) := by omega
      simp [this]
    · simp [hB]
      have : B = 0 := by omega
      subst this
      simp at hd
      exact hd


/-! ### padding arithmetic, checked primitives -/

theorem padZeros_fit (B L n : Nat) (h : n % B + 1 + L ≤ B) :
    Spec.padZeros B L n = B - L - 1 - n % B := by
  unfold Spec.padZeros
  have e : (n + 1 + L) % B = (n % B + 1 + L) % B := by
    rw [Nat.add_assoc, Nat.add_assoc, Nat.mod_add_mod]
  rw [e]
  by_cases heq : n % B + 1 + L = B
  · rw [heq, Nat.mod_self, Nat.sub_zero, Nat.mod_self]; omega
  · rw [Nat.mod_eq_of_lt (show n % B + 1 + L < B by omega)]
    rw [Nat.mod_eq_of_lt (by omega)]; omega

theorem padZeros_spill (B L n : Nat) (hL : L < B) (h : B < n % B + 1 + L) :
    Spec.padZeros B L n = 2 * B - L - 1 - n % B := by
  unfold Spec.padZeros
  have hlt := Nat.mod_lt n (by omega : 0 < B)
  have e : (n + 1 + L) % B = n % B + 1 + L - B := by
    rw [Nat.add_assoc, Nat.add_assoc, ← Nat.mod_add_mod, ← Nat.add_assoc]
    rw [Nat.mod_eq_sub_mod (by omega), Nat.mod_eq_of_lt (by omega)]
  rw [e, Nat.mod_eq_of_lt (by omega)]; omega

theorem bufWrite_prefix (buf : List UInt8) (off : Nat) (src : List UInt8)
    (h : off + src.length ≤ buf.length) :
    ∃ buf', bufWrite buf off src = some buf' ∧ buf'.length = buf.length ∧
      buf'.take (off + src.length) = buf.take off ++ src := by
  refine ⟨buf.take off ++ src ++ buf.drop (off + src.length), by simp [bufWrite, h], ?_, ?_⟩
  · simp; omega
  · have : (buf.take off ++ src).length = off + src.length := by simp; omega
    rw [← this]; exact List.take_left



theorem readBlock_ok (src : List UInt8) (n : Nat) (h : n ≤ src.length) :
    readBlock src n = some (src.take n) := by
  simp [readBlock, List.length_take, Nat.min_eq_left h]

theorem bufWrite_ok (buf : List UInt8) (off : Nat) (src : List UInt8) (h : off + src.length ≤ buf.length) :
    bufWrite buf off src = some (buf.take off ++ src ++ buf.drop (off + src.length)) := by
  simp [bufWrite, h]

theorem usub_eq (x y : Nat) (hy : y ≤ x) (_hx : x < 2 ^ 32) : usub x y = x - y := by
  unfold usub; rw [if_pos hy]

/-- what has to be shown about one algorithm to plug it into the frame -/
structure Refines (A : Alg S) (Sp : Spec.Hash S) (lenOK : Nat → Prop) (cnt : Nat → Nat × Nat) : Prop where
  B_eq : A.B = Sp.B
  L_eq : A.L = Sp.L
  L_pos : 0 < A.L
  L_lt : A.L < A.B
  B_lt : A.B < 2 ^ 32
  iv_eq : A.iv = Sp.iv
  transform_eq : ∀ mis H blk, blk.length = A.B → A.transform mis H blk = .ok (Sp.compress H blk)
  cnt_zero : cnt 0 = (0, 0)
  bump_eq : ∀ n len, lenOK len → A.bump (cnt n).1 (cnt n).2 len = cnt (n + len)
  cnt_mod : ∀ n, (cnt n).1 % A.B = n % A.B
  putLen_eq : ∀ n, A.putLen (cnt n).2 (((cnt n).1 * 8) % 2 ^ 64) = Sp.lenField n
  lenField_len : ∀ n, (Sp.lenField n).length = Sp.L
  digest_eq : ∀ H, A.digest H = Sp.out H

section
variable {A : Alg S} {Sp : Spec.Hash S} {lenOK : Nat → Prop} {cnt : Nat → Nat × Nat}

theorem Refines.B_pos (R : Refines A Sp lenOK cnt) : 0 < A.B := by
  have := R.L_pos; have := R.L_lt; omega

theorem callTransform_eq (R : Refines A Sp lenOK cnt) (mis : Bool) (H : S) (src : List UInt8)
    (h : A.B ≤ src.length) :
    callTransform A mis H src = .ok (Sp.compress H (src.take A.B)) := by
  unfold callTransform
  rw [readBlock_ok src A.B h]
  exact R.transform_eq mis H _ (by simp [List.length_take, Nat.min_eq_left h])

theorem blocksLoop_eq (R : Refines A Sp lenOK cnt) (H : S) (data : List UInt8) :
    ∀ addr, blocksLoop A addr H data data.length =
      .ok ((absorb A.B Sp.compress H data).1, (absorb A.B Sp.compress H data).2,
           (absorb A.B Sp.compress H data).2.length) := by
  fun_induction absorb A.B Sp.compress H data with
  | case1 H xs h ih =>
    intro addr
    rw [blocksLoop, dif_pos h, callTransform_eq R _ _ _ h.2]
    simp only
    have := ih (addr + A.B)
    rw [List.length_drop] at this
    exact this
  | case2 H xs h =>
    intro addr
    rw [blocksLoop, dif_neg h]

/-- representation invariant: the context after absorbing the byte string `pre` -/
def Inv (A : Alg S) (Sp : Spec.Hash S) (cnt : Nat → Nat × Nat) (c : Ctx S) (pre : List UInt8) : Prop :=
  c.buffer.length = A.B ∧ (c.count, c.countHi) = cnt pre.length ∧
  c.H = (absorb A.B Sp.compress Sp.iv pre).1 ∧
  c.buffer.take (pre.length % A.B) = (absorb A.B Sp.compress Sp.iv pre).2

theorem inv_init (R : Refines A Sp lenOK cnt) (c : Ctx S) (h : c.buffer.length = A.B) :
    Inv A Sp cnt (init A c) [] := by
  refine ⟨h, ?_, ?_, ?_⟩
  · simp [init, R.cnt_zero]
  · simp [init, absorb_lt _ _ [] R.B_pos, R.iv_eq]
  · simp [absorb_lt _ _ [] R.B_pos]

/-- second and third phase of update from a state whose buffer holds `t` -/
theorem phase23 (R : Refines A Sp lenOK cnt) (H : S) (buf t data : List UInt8)
    (hbuf : buf.length = A.B) (ht : buf.take t.length = t)
    (hcase : t = [] ∨ t.length + data.length < A.B) :
    ∃ buf3, phase3 buf t.length (absorb A.B Sp.compress H data).2 (absorb A.B Sp.compress H data).2.length
        = .ok buf3 ∧ buf3.length = A.B ∧
      (absorb A.B Sp.compress H data).1 = (absorb A.B Sp.compress H (t ++ data)).1 ∧
      buf3.take ((absorb A.B Sp.compress H (t ++ data)).2.length) = (absorb A.B Sp.compress H (t ++ data)).2 := by
  have hB := R.B_pos
  rcases hcase with rfl | hlt
  · -- buffer empty: everything comes from `data`
    simp only [List.nil_append, List.length_nil]
    generalize hr : absorb A.B Sp.compress H data = r
    have hrl : r.2.length = data.length % A.B := by rw [← hr]; exact absorb_rem _ hB _ _
    have hrl' : r.2.length < A.B := by rw [hrl]; exact Nat.mod_lt _ hB
    by_cases hz : r.2.length = 0
    · refine ⟨buf, ?_, hbuf, trivial, ?_⟩
      · simp [phase3, hz]
      · simp [List.eq_nil_of_length_eq_zero hz]
    · refine ⟨buf.take 0 ++ r.2 ++ buf.drop (0 + r.2.length), ?_, ?_, trivial, ?_⟩
      · simp only [phase3, hz, ne_eq, not_false_eq_true, ↓reduceIte]
        rw [readBlock_ok _ _ (Nat.le_refl _)]
        simp only [List.take_length]
        rw [bufWrite_ok _ _ _ (by omega)]
        rfl
      · simp; omega
      · simp
  · -- not enough for a block: append to the buffer
    have hd : data.length < A.B := by omega
    rw [absorb_lt _ _ data hd, absorb_lt _ _ (t ++ data) (by simp; omega)]
    simp only
    by_cases hz : data.length = 0
    · have : data = [] := List.eq_nil_of_length_eq_zero hz
      subst this
      refine ⟨buf, by simp [phase3], hbuf, trivial, by simpa using ht⟩
    · refine ⟨buf.take t.length ++ data ++ buf.drop (t.length + data.length), ?_, ?_, trivial, ?_⟩
      · simp only [phase3, hz, ne_eq, not_false_eq_true, ↓reduceIte]
        rw [readBlock_ok _ _ (Nat.le_refl _)]
        simp only [List.take_length]
        rw [bufWrite_ok _ _ _ (by omega)]
        rfl
      · simp; omega
      · rw [ht]; exact List.take_left

theorem update_inv (R : Refines A Sp lenOK cnt) (c : Ctx S) (pre data : List UInt8) (addr : Nat)
    (hI : Inv A Sp cnt c pre) (hl : lenOK data.length) :
    ∃ c', update A c addr data = .ok c' ∧ Inv A Sp cnt c' (pre ++ data) := by
  have hB := R.B_pos
  obtain ⟨hbuf, hcnt, hH, htail⟩ := hI
  unfold update
  by_cases hz : data.length = 0
  · have : data = [] := List.eq_nil_of_length_eq_zero hz
    subst this
    exact ⟨c, by simp, by simpa using ⟨hbuf, hcnt, hH, htail⟩⟩
  simp only [hz, ↓reduceIte]
  have hc1 : c.count = (cnt pre.length).1 := by rw [← hcnt]
  have hc2 : c.countHi = (cnt pre.length).2 := by rw [← hcnt]
  have hbh : c.count % A.B = pre.length % A.B := by rw [hc1]; exact R.cnt_mod _
  have hbump : A.bump c.count c.countHi data.length = cnt (pre ++ data).length := by
    rw [hc1, hc2, R.bump_eq _ _ hl, List.length_append]
  generalize hr : absorb A.B Sp.compress Sp.iv pre = r at hH htail
  have hrl : r.2.length = pre.length % A.B := by rw [← hr]; exact absorb_rem _ hB _ _
  have hrl' : r.2.length < A.B := by rw [hrl]; exact Nat.mod_lt _ hB
  have happ : absorb A.B Sp.compress Sp.iv (pre ++ data) = absorb A.B Sp.compress c.H (r.2 ++ data) := by
    rw [absorb_append _ hB, hr, hH]
  rw [hbh, ← hrl]
  rw [← hrl] at htail
  -- the three shapes of phase 1
  by_cases h0 : r.2.length = 0
  · -- nothing buffered
    have hnil : r.2 = [] := List.eq_nil_of_length_eq_zero h0
    obtain ⟨buf3, hp3, hlen3, hH2, htk⟩ := phase23 R c.H c.buffer r.2 data hbuf htail (Or.inl hnil)
    simp only [phase1, h0, ne_eq, not_true_eq_false, ↓reduceIte, blocksLoop_eq R]
    rw [h0] at hp3
    simp only [hp3]
    refine ⟨_, rfl, hlen3, ?_, ?_, ?_⟩
    · simp only [hbump]
    · simp only [happ, hH2]
    · rw [happ, ← htk, absorb_rem _ hB]
      simp only [List.length_append, hrl, Nat.mod_add_mod]
  · by_cases hge : data.length ≥ A.B - r.2.length
    · -- top up the buffer, process it, continue with the rest
      have hus : usub A.B r.2.length = A.B - r.2.length := usub_eq _ _ (by omega) R.B_lt
      simp only [phase1, h0, ne_eq, not_false_eq_true, ↓reduceIte, hus, hge]
      rw [readBlock_ok _ _ hge]
      simp only []
      have hpl : (List.take (A.B - r.2.length) data).length = A.B - r.2.length := by
        simp [List.length_take]; omega
      rw [bufWrite_ok _ _ _ (by rw [hpl]; omega)]
      simp only [hpl]
      have hdrop : List.drop (r.2.length + (A.B - r.2.length)) c.buffer = [] := by
        apply List.drop_eq_nil_of_le; omega
      rw [htail, hdrop, List.append_nil]
      have hfull : (r.2 ++ List.take (A.B - r.2.length) data).length = A.B := by
        rw [List.length_append, hpl]; omega
      rw [callTransform_eq R _ _ _ (by omega)]
      simp only
      rw [List.take_of_length_le (Nat.le_of_eq hfull)]
      -- the rest
      have hstep : absorb A.B Sp.compress c.H (r.2 ++ data) =
          absorb A.B Sp.compress (Sp.compress c.H (r.2 ++ List.take (A.B - r.2.length) data))
            (List.drop (A.B - r.2.length) data) := by
        rw [absorb_ge _ _ _ hB (by simp; omega)]
        have e1 : List.take A.B (r.2 ++ data) = r.2 ++ List.take (A.B - r.2.length) data := by
          rw [List.take_append, List.take_of_length_le (Nat.le_of_lt hrl')]
        have e2 : List.drop A.B (r.2 ++ data) = List.drop (A.B - r.2.length) data := by
          rw [List.drop_append, List.drop_eq_nil_of_le (Nat.le_of_lt hrl'), List.nil_append]
        rw [e1, e2]
      obtain ⟨buf3, hp3, hlen3, hH2, htk⟩ := phase23 R
        (Sp.compress c.H (r.2 ++ List.take (A.B - r.2.length) data))
        (r.2 ++ List.take (A.B - r.2.length) data) [] (List.drop (A.B - r.2.length) data)
        hfull (by simp) (Or.inl rfl)
      have hdl : (List.drop (A.B - r.2.length) data).length = data.length - (A.B - r.2.length) := by simp
      rw [← hdl, blocksLoop_eq R]
      simp only [List.length_nil, List.nil_append] at hp3 hH2 htk
      simp only [hp3]
      refine ⟨_, rfl, hlen3, ?_, ?_, ?_⟩
      · simp only [hbump]
      · simp only [happ, hstep]
      · rw [happ, hstep, ← htk, absorb_rem _ hB]
        simp only [List.length_append, List.length_drop]
        congr 1
        have h1 : pre.length + data.length = (data.length - (A.B - r.2.length)) + (pre.length - r.2.length + A.B) := by
          have := Nat.mod_le pre.length A.B
          omega
        rw [h1]
        have h2 : (pre.length - r.2.length) % A.B = 0 := by
          rw [hrl]; exact Nat.sub_mod_eq_zero_of_mod_eq (by simp)
        rw [Nat.add_mod, Nat.add_mod (pre.length - r.2.length), h2]
        simp
    · -- not enough to fill the buffer
      have hus : usub A.B r.2.length = A.B - r.2.length := usub_eq _ _ (by omega) R.B_lt
      simp only [phase1, h0, ne_eq, not_false_eq_true, ↓reduceIte, hus, hge]
      obtain ⟨buf3, hp3, hlen3, hH2, htk⟩ := phase23 R c.H c.buffer r.2 data hbuf htail (Or.inr (by omega))
      rw [blocksLoop_eq R]
      simp only [hp3]
      refine ⟨_, rfl, hlen3, ?_, ?_, ?_⟩
      · simp only [hbump]
      · simp only [happ, hH2]
      · rw [happ, ← htk, absorb_rem _ hB]
        simp only [List.length_append, hrl, Nat.mod_add_mod]

theorem bufFill_prefix (buf : List UInt8) (off n : Nat) (h : off + n ≤ buf.length) :
    ∃ buf', bufFill buf off n = some buf' ∧ buf'.length = buf.length ∧
      buf'.take (off + n) = buf.take off ++ List.replicate n 0 := by
  have := bufWrite_prefix buf off (List.replicate n 0) (by simpa using h)
  simpa [bufFill] using this

theorem eq_of_take_length {l t : List UInt8} {k : Nat} (h : l.take k = t) (hk : l.length = k) : l = t := by
  rw [← h, ← hk, List.take_length]

/-- `finish`, case "the length field fits behind the 0x80 byte" -/
theorem finishCore_fit (R : Refines A Sp lenOK cnt) (H : S) (buffer t lenF : List UInt8)
    (hbuf : buffer.length = A.B) (ht : buffer.take t.length = t) (hll : lenF.length = A.L)
    (hf : t.length + 1 + A.L ≤ A.B) :
    finishCore A H buffer t.length lenF =
      .ok (Sp.out (Sp.compress H (t ++ ([0x80] ++ List.replicate (A.B - A.L - 1 - t.length) 0 ++ lenF))), wiped A) := by
  have hB32 := R.B_lt
  unfold finishCore
  obtain ⟨buf1, hw1, hl1, ht1⟩ := bufWrite_prefix buffer t.length [0x80] (by simp; omega)
  simp only [List.length_cons, List.length_nil, Nat.zero_add] at ht1
  rw [ht] at ht1
  have hus : usub A.B (t.length + 1) = A.B - (t.length + 1) := usub_eq _ _ (by omega) hB32
  have hns : ¬ (A.B - (t.length + 1) < A.L) := by omega
  simp only [hw1, finishSpill, hus, hns, ↓reduceIte]
  have hus2 : usub (A.B - A.L) (t.length + 1) = A.B - A.L - (t.length + 1) :=
    usub_eq _ _ (by omega) (by omega)
  obtain ⟨buf3, hw3, hl3, ht3⟩ := bufFill_prefix buf1 (t.length + 1) (A.B - A.L - (t.length + 1)) (by omega)
  have e3 : t.length + 1 + (A.B - A.L - (t.length + 1)) = A.B - A.L := by omega
  rw [e3, ht1] at ht3
  obtain ⟨buf4, hw4, hl4, ht4⟩ := bufWrite_prefix buf3 (A.B - A.L) lenF (by omega)
  have e4 : A.B - A.L + lenF.length = A.B := by omega
  rw [ht3, e4] at ht4
  have hb4 := eq_of_take_length ht4 (by omega)
  have e5 : A.B - A.L - 1 - t.length = A.B - A.L - (t.length + 1) := by omega
  simp only [hus2, hw3, hw4]
  rw [callTransform_eq R _ _ _ (by omega), List.take_of_length_le (by omega)]
  simp only [R.digest_eq, hb4, e5, List.append_assoc]

/-- `finish`, case "no room for the length field: two blocks" -/
theorem finishCore_spill (R : Refines A Sp lenOK cnt) (H : S) (buffer t lenF : List UInt8)
    (hbuf : buffer.length = A.B) (ht : buffer.take t.length = t) (hll : lenF.length = A.L)
    (htl : t.length < A.B) (hf : A.B < t.length + 1 + A.L) :
    finishCore A H buffer t.length lenF =
      .ok (Sp.out (Sp.compress (Sp.compress H (t ++ [0x80] ++ List.replicate (A.B - (t.length + 1)) 0))
            (List.replicate (A.B - A.L) 0 ++ lenF)), wiped A) := by
  have hB32 := R.B_lt
  have hLB := R.L_lt
  unfold finishCore
  obtain ⟨buf1, hw1, hl1, ht1⟩ := bufWrite_prefix buffer t.length [0x80] (by simp; omega)
  simp only [List.length_cons, List.length_nil, Nat.zero_add] at ht1
  rw [ht] at ht1
  have hus : usub A.B (t.length + 1) = A.B - (t.length + 1) := usub_eq _ _ (by omega) hB32
  have hs : A.B - (t.length + 1) < A.L := by omega
  simp only [hw1, finishSpill, hus, hs, ↓reduceIte]
  have hfill : ∃ buf2, (if t.length + 1 < A.B then
        bufFill buf1 (t.length + 1) (A.B - (t.length + 1)) else some buf1) = some buf2 ∧
      buf2 = t ++ [0x80] ++ List.replicate (A.B - (t.length + 1)) 0 := by
    by_cases hlt1 : t.length + 1 < A.B
    · obtain ⟨buf2, hw2, hl2, ht2⟩ := bufFill_prefix buf1 (t.length + 1) (A.B - (t.length + 1)) (by omega)
      refine ⟨buf2, by simp [hlt1, hw2], ?_⟩
      rw [ht1] at ht2
      exact eq_of_take_length ht2 (by omega)
    · refine ⟨buf1, by simp [hlt1], ?_⟩
      have : A.B - (t.length + 1) = 0 := by omega
      rw [this]
      simp only [List.replicate_zero, List.append_nil]
      exact eq_of_take_length ht1 (by omega)
  obtain ⟨buf2, hw2, hb2⟩ := hfill
  have hl2 : buf2.length = A.B := by rw [hb2]; simp; omega
  simp only [hw2]
  rw [callTransform_eq R _ _ _ (by omega), List.take_of_length_le (by omega)]
  have hus2 : usub (A.B - A.L) 0 = A.B - A.L := usub_eq _ _ (by omega) (by omega)
  obtain ⟨buf3, hw3, hl3, ht3⟩ := bufFill_prefix buf2 0 (A.B - A.L) (by omega)
  simp only [Nat.zero_add, List.take_zero, List.nil_append] at ht3
  obtain ⟨buf4, hw4, hl4, ht4⟩ := bufWrite_prefix buf3 (A.B - A.L) lenF (by omega)
  have e4 : A.B - A.L + lenF.length = A.B := by omega
  rw [ht3, e4] at ht4
  have hb4 := eq_of_take_length ht4 (by omega)
  simp only [hus2, hw3, hw4]
  rw [callTransform_eq R _ _ _ (by omega), List.take_of_length_le (by omega)]
  simp only [R.digest_eq, hb4, hb2]

theorem pad_length_mod (R : Refines A Sp lenOK cnt) (msg : List UInt8) :
    (Sp.pad msg).length % A.B = 0 := by
  have hB := R.B_pos
  have hL := R.L_lt
  have hlt := Nat.mod_lt msg.length hB
  have hdiv := Nat.div_add_mod msg.length A.B
  simp only [Spec.Hash.pad, List.length_append, List.length_cons, List.length_nil, List.length_replicate,
    R.lenField_len, ← R.B_eq, ← R.L_eq]
  by_cases hf : msg.length % A.B + 1 + A.L ≤ A.B
  · rw [padZeros_fit _ _ _ hf]
    have : msg.length + (0 + 1) + (A.B - A.L - 1 - msg.length % A.B) + A.L = A.B * (msg.length / A.B) + A.B := by
      omega
    rw [this]; simp
  · rw [padZeros_spill _ _ _ hL (by omega)]
    have : msg.length + (0 + 1) + (2 * A.B - A.L - 1 - msg.length % A.B) + A.L
        = A.B * (msg.length / A.B) + (A.B + A.B) := by
      omega
    rw [this, ← Nat.add_assoc]; simp

/-- the specification's value in terms of the absorbed prefix -/
theorem hash_eq_absorb (R : Refines A Sp lenOK cnt) (msg : List UInt8) :
    Sp.hash msg = Sp.out (absorb A.B Sp.compress (absorb A.B Sp.compress Sp.iv msg).1
      ((absorb A.B Sp.compress Sp.iv msg).2 ++
        ([0x80] ++ List.replicate (Spec.padZeros A.B A.L msg.length) 0 ++ Sp.lenField msg.length))).1 := by
  have hB := R.B_pos
  have := absorb_blocks Sp.compress Sp.iv (Sp.pad msg) (pad_length_mod R msg)
  have h1 : List.foldl Sp.compress Sp.iv (blocks A.B (Sp.pad msg)) =
      (absorb A.B Sp.compress Sp.iv (Sp.pad msg)).1 := by rw [this]
  unfold Spec.Hash.hash
  rw [← R.B_eq, h1]
  simp only [Spec.Hash.pad, List.append_assoc, ← R.B_eq, ← R.L_eq]
  rw [absorb_append _ hB]

theorem finish_correct (R : Refines A Sp lenOK cnt) (c : Ctx S) (msg : List UInt8)
    (hI : Inv A Sp cnt c msg) :
    finish A c = .ok (Sp.hash msg, wiped A) := by
  have hB := R.B_pos
  have hLB := R.L_lt
  obtain ⟨hbuf, hcnt, hH, htail⟩ := hI
  have hc1 : c.count = (cnt msg.length).1 := by rw [← hcnt]
  have hc2 : c.countHi = (cnt msg.length).2 := by rw [← hcnt]
  have hbh : c.count % A.B = msg.length % A.B := by rw [hc1]; exact R.cnt_mod _
  have hlen : A.putLen c.countHi (c.count * 8 % 2 ^ 64) = Sp.lenField msg.length := by
    rw [hc1, hc2]; exact R.putLen_eq _
  have hll : (Sp.lenField msg.length).length = A.L := by rw [R.lenField_len, R.L_eq]
  rw [hash_eq_absorb R msg]
  generalize hr : absorb A.B Sp.compress Sp.iv msg = r at hH htail
  have hrl : r.2.length = msg.length % A.B := by rw [← hr]; exact absorb_rem _ hB _ _
  have hlt : r.2.length < A.B := by rw [hrl]; exact Nat.mod_lt _ hB
  unfold finish
  simp only [hbh, hlen]
  rw [← hrl] at htail ⊢
  rw [hH]
  by_cases hf : r.2.length + 1 + A.L ≤ A.B
  · rw [finishCore_fit R _ _ _ _ hbuf htail hll hf, padZeros_fit _ _ _ (by rw [← hrl]; exact hf), ← hrl]
    rw [absorb_ge _ _ _ hB (by simp [hll]; omega), List.take_of_length_le (by simp [hll]; omega),
      List.drop_eq_nil_of_le (by simp [hll]; omega), absorb_lt _ _ [] hB]
  · rw [finishCore_spill R _ _ _ _ hbuf htail hll hlt (by omega),
      padZeros_spill _ _ _ hLB (by rw [← hrl]; omega), ← hrl]
    have hsplit : r.2 ++ ([0x80] ++ List.replicate (2 * A.B - A.L - 1 - r.2.length) 0 ++ Sp.lenField msg.length)
        = (r.2 ++ [0x80] ++ List.replicate (A.B - (r.2.length + 1)) 0) ++
          (List.replicate (A.B - A.L) 0 ++ Sp.lenField msg.length) := by
      have : 2 * A.B - A.L - 1 - r.2.length = (A.B - (r.2.length + 1)) + (A.B - A.L) := by omega
      rw [this, ← List.replicate_append_replicate]
      simp only [List.append_assoc]
    have hl2 : (r.2 ++ [0x80] ++ List.replicate (A.B - (r.2.length + 1)) 0).length = A.B := by
      simp; omega
    have hl4 : (List.replicate (A.B - A.L) 0 ++ Sp.lenField msg.length).length = A.B := by
      simp [hll]; omega
    rw [hsplit, absorb_ge _ _ _ hB (by rw [List.length_append, hl2]; omega),
      List.take_append_of_le_length (by omega),
      List.take_of_length_le (by omega), List.drop_append_of_le_length (by omega),
      List.drop_eq_nil_of_le (by omega), List.nil_append,
      absorb_ge _ _ _ hB (by omega), List.take_of_length_le (by omega), List.drop_eq_nil_of_le (by omega),
      absorb_lt _ _ [] hB]

theorem feed_inv (R : Refines A Sp lenOK cnt) (chunks : List (Nat × List UInt8)) :
    ∀ (c : Ctx S) (pre : List UInt8), Inv A Sp cnt c pre → (∀ ch ∈ chunks, lenOK ch.2.length) →
    ∃ c', feed A c chunks = .ok c' ∧ Inv A Sp cnt c' (pre ++ (chunks.map (·.2)).flatten) := by
  induction chunks with
  | nil => intro c pre hI _; exact ⟨c, rfl, by simpa using hI⟩
  | cons ch rest ih =>
    intro c pre hI hl
    obtain ⟨addr, d⟩ := ch
    obtain ⟨c1, hu, hI1⟩ := update_inv R c pre d addr hI (hl (addr, d) (by simp))
    obtain ⟨c2, hf, hI2⟩ := ih c1 (pre ++ d) hI1 (fun ch h => hl ch (by simp [h]))
    refine ⟨c2, ?_, ?_⟩
    · simp only [feed, hu, hf]
    · simpa [List.append_assoc] using hI2

/-- **Generic C16 statement.**  Whatever context is passed in (fresh from `malloc`, wiped by an
    earlier `finish`, or abandoned in mid-message) — after `init`, feeding any list of chunks at
    any addresses and `finish` yields the specification's hash of the concatenation, never
    faults, and leaves the wiped context. -/
theorem run_correct (R : Refines A Sp lenOK cnt) (c : Ctx S) (hc : c.buffer.length = A.B)
    (chunks : List (Nat × List UInt8)) (hl : ∀ ch ∈ chunks, lenOK ch.2.length) :
    run A c chunks = .ok (Sp.hash (chunks.map (·.2)).flatten, wiped A) := by
  obtain ⟨c', hf, hI⟩ := feed_inv R chunks (init A c) [] (inv_init R c hc) hl
  simp only [run, hf]
  simpa using finish_correct R c' _ hI


end
end Mhd.Hash
