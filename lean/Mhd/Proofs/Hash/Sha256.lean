/-
  C16, SHA-256: `sha256_transform` as modelled from the recorded step table
  (`Mhd.Hash.Sha256.transform`) equals the compression function of FIPS 180-4 §6.2.2
  (`Spec.Sha256.compress`) on every 64-byte block and chaining value; hence the model
  `Refines` the specification in the sense of `Proofs/Hash/MD.lean`.
  The obligations that tie the proof to the C source: `steps_closed`, `stepsMis_closed`
  (the recorded table is the standard's K with rotating register names), `iv_eq`.
-/
import Mhd.Model.Hash.Sha256
import Mhd.Model.Hash.SpecSha256
import Mhd.Proofs.Hash.Lists
import Mhd.Proofs.Hash.MD
namespace Mhd.Hash.Sha256
open Mhd.Hash

theorem Ch_eq (x y z : UInt32) : Ch x y z = Spec.Sha256.ch x y z := by
  unfold Ch Spec.Sha256.ch
  apply UInt32.eq_of_toBitVec_eq
  simp only [UInt32.toBitVec_xor, UInt32.toBitVec_and, UInt32.toBitVec_not]
  ext i hi
  simp only [BitVec.getElem_xor, BitVec.getElem_and, BitVec.getElem_not]
  cases x.toBitVec[i] <;> cases y.toBitVec[i] <;> cases z.toBitVec[i] <;> rfl

theorem Maj_eq (x y z : UInt32) : Maj x y z = Spec.Sha256.maj x y z := by
  unfold Maj Spec.Sha256.maj
  apply UInt32.eq_of_toBitVec_eq
  simp only [UInt32.toBitVec_xor, UInt32.toBitVec_and]
  ext i hi
  simp only [BitVec.getElem_xor, BitVec.getElem_and]
  cases x.toBitVec[i] <;> cases y.toBitVec[i] <;> cases z.toBitVec[i] <;> rfl

theorem rotr32_eq (x : UInt32) (n : Nat) (h0 : 0 < n) (h : n < 32) : rotr32 x n = Spec.Sha256.rotr n x := by
  unfold rotr32 Spec.Sha256.rotr
  simp only [Nat.mod_eq_of_lt h]
  rw [if_neg (by omega)]

theorem SIG0_eq (x : UInt32) : SIG0 x = Spec.Sha256.bsig0 x := by
  unfold SIG0 Spec.Sha256.bsig0
  rw [rotr32_eq x 2 (by decide) (by decide), rotr32_eq x 13 (by decide) (by decide),
    rotr32_eq x 22 (by decide) (by decide)]
theorem SIG1_eq (x : UInt32) : SIG1 x = Spec.Sha256.bsig1 x := by
  unfold SIG1 Spec.Sha256.bsig1
  rw [rotr32_eq x 6 (by decide) (by decide), rotr32_eq x 11 (by decide) (by decide),
    rotr32_eq x 25 (by decide) (by decide)]
theorem sig0_eq (x : UInt32) : sig0 x = Spec.Sha256.ssig0 x := by
  unfold sig0 Spec.Sha256.ssig0
  rw [rotr32_eq x 7 (by decide) (by decide), rotr32_eq x 18 (by decide) (by decide)]
  rfl
theorem sig1_eq (x : UInt32) : sig1 x = Spec.Sha256.ssig1 x := by
  unfold sig1 Spec.Sha256.ssig1
  rw [rotr32_eq x 17 (by decide) (by decide), rotr32_eq x 19 (by decide) (by decide)]
  rfl

/-- register names of step `t`: `SHA2STEP32 (a,b,…,h)`, `(h,a,…,g)`, `(g,h,a,…,f)`, … -/
def rot8 : Nat → List Nat
  | 0 => [0, 1, 2, 3, 4, 5, 6, 7]
  | 1 => [7, 0, 1, 2, 3, 4, 5, 6]
  | 2 => [6, 7, 0, 1, 2, 3, 4, 5]
  | 3 => [5, 6, 7, 0, 1, 2, 3, 4]
  | 4 => [4, 5, 6, 7, 0, 1, 2, 3]
  | 5 => [3, 4, 5, 6, 7, 0, 1, 2]
  | 6 => [2, 3, 4, 5, 6, 7, 0, 1]
  | _ => [1, 2, 3, 4, 5, 6, 7, 0]

/-- the step table in closed form: register names rotate, K is the standard's table,
    words 0–15 are loaded from the block, words 16–63 come from the schedule recurrence -/
def closedRow (t : Nat) : Row :=
  (rot8 (t % 8), (Spec.Sha256.K.getD t 0).toNat, t % 16, if t < 16 then 0 else 1, t)

theorem steps_closed : Mhd.Gen.Hash.sha256Steps = (List.range 64).map closedRow := by decide
theorem stepsMis_closed : Mhd.Gen.Hash.sha256StepsMis = (List.range 64).map closedRow := by decide
theorem iv_eq : ivOf Mhd.Gen.Hash.sha256IV = Spec.Sha256.H0 := by decide

/-- the in-place register update of one step, with the names of rotation `r` -/
def stepRegs (r : Nat) (k wt : UInt32) (v : R8 UInt32) : R8 UInt32 :=
  match rot8 r with
  | [iA, iB, iC, iD, iE, iF, iG, iH] =>
    let h1 := v.get iH + (SIG1 (v.get iE) + Ch (v.get iE) (v.get iF) (v.get iG) + k + wt)
    let v := v.set iH h1
    let v := v.set iD (v.get iD + h1)
    v.set iH (v.get iH + (SIG0 (v.get iA) + Maj (v.get iA) (v.get iB) (v.get iC)))
  | _ => v

/-- the working variables (a,…,h) of FIPS 180-4 as found in the C variables after `r` rotations -/
def view (r : Nat) (v : R8 UInt32) : R8 UInt32 :=
  match rot8 r with
  | [iA, iB, iC, iD, iE, iF, iG, iH] =>
    ⟨v.get iA, v.get iB, v.get iC, v.get iD, v.get iE, v.get iF, v.get iG, v.get iH⟩
  | _ => v

theorem stepRegs_view (r : Nat) (hr : r < 8) (k wt : UInt32) (v : R8 UInt32) :
    view ((r + 1) % 8) (stepRegs r k wt v) = Spec.Sha256.round (view r v) (k, wt) := by
  obtain ⟨a, b, c, d, e, f, g, h⟩ := v
  match r, hr with
  | 0, _ | 1, _ | 2, _ | 3, _ | 4, _ | 5, _ | 6, _ | 7, _ =>
    simp only [view, stepRegs, rot8, R8.get, R8.set, Spec.Sha256.round, SIG0_eq, SIG1_eq, Ch_eq, Maj_eq]
    simp only [R8.mk.injEq, true_and, and_true]
    constructor <;> ac_rfl

/-- the operand of step `t` -/
def wOf (blk : List UInt8) (w : Array UInt32) (t : Nat) : UInt32 :=
  if t < 16 then getBE32 blk t else wgen w t

theorem step_closed (blk : List UInt8) (s : TS) (t : Nat) :
    step blk s (closedRow t) =
      { v := stepRegs (t % 8) (Spec.Sha256.K.getD t 0) (wOf blk s.w t) s.v,
        w := s.w.setIfInBounds (t % 16) (wOf blk s.w t), ok := s.ok } := by
  have hr : t % 8 < 8 := Nat.mod_lt _ (by decide)
  have h16 : t % 16 < 16 := Nat.mod_lt _ (by decide)
  unfold closedRow
  generalize t % 8 = r at hr
  have hk : ((Spec.Sha256.K.getD t 0).toNat).toUInt32 = Spec.Sha256.K.getD t 0 := by simp
  match r, hr with
  | 0, _ | 1, _ | 2, _ | 3, _ | 4, _ | 5, _ | 6, _ | 7, _ =>
    by_cases h : t < 16
    · simp [step, rowOK, rot8, stepRegs, wOf, h, h16]
    · have : 16 ≤ t := by omega
      simp [step, rowOK, rot8, stepRegs, wOf, h, h16, this]

/-! ### the message schedule -/
open Spec.Sha256 in
/-- the schedule after `n` extension steps -/
def sched (n : Nat) (M : List UInt32) : List UInt32 :=
  (List.range n).foldl (fun W _ => W ++ [Spec.Sha256.nextW W]) M

theorem sched_succ (n : Nat) (M : List UInt32) :
    sched (n + 1) M = sched n M ++ [Spec.Sha256.nextW (sched n M)] := by
  simp [sched, List.range_succ, List.foldl_append]

theorem sched_length (n : Nat) (M : List UInt32) : (sched n M).length = M.length + n := by
  induction n with
  | zero => simp [sched]
  | succ n ih => rw [sched_succ, List.length_append, ih]; simp; omega

theorem sched_stable (M : List UInt32) (n k i : Nat) (hi : i < M.length + n) :
    (sched (n + k) M).getD i 0 = (sched n M).getD i 0 := by
  induction k with
  | zero => rfl
  | succ k ih =>
    rw [← Nat.add_assoc, sched_succ, List.getD_eq_getElem?_getD,
      List.getElem?_append_left (by rw [sched_length]; omega), ← List.getD_eq_getElem?_getD, ih]

theorem schedule_lo (M : List UInt32) (t : Nat) (ht : t < M.length) :
    (Spec.Sha256.schedule M).getD t 0 = M.getD t 0 := by
  have := sched_stable M 0 48 t (by omega)
  simpa [sched, Spec.Sha256.schedule] using this

theorem schedule_rec (M : List UInt32) (hM : M.length = 16) (t : Nat) (h16 : 16 ≤ t) (h64 : t < 64) :
    (Spec.Sha256.schedule M).getD t 0 =
      Spec.Sha256.ssig1 ((Spec.Sha256.schedule M).getD (t - 2) 0) + (Spec.Sha256.schedule M).getD (t - 7) 0
        + Spec.Sha256.ssig0 ((Spec.Sha256.schedule M).getD (t - 15) 0) + (Spec.Sha256.schedule M).getD (t - 16) 0 := by
  have hs : Spec.Sha256.schedule M = sched 48 M := rfl
  have e : ∀ i, i < t → (sched 48 M).getD i 0 = (sched (t - 16) M).getD i 0 := by
    intro i hi
    have := sched_stable M (t - 16) (48 - (t - 16)) i (by omega)
    rwa [show t - 16 + (48 - (t - 16)) = 48 by omega] at this
  have e1 : (sched 48 M).getD t 0 = (sched (t - 16 + 1) M).getD t 0 := by
    have := sched_stable M (t - 16 + 1) (48 - (t - 16 + 1)) t (by omega)
    rwa [show t - 16 + 1 + (48 - (t - 16 + 1)) = 48 by omega] at this
  rw [hs, e1, sched_succ, List.getD_eq_getElem?_getD,
    List.getElem?_append_right (by rw [sched_length]; omega)]
  have hl : (sched (t - 16) M).length = t := by rw [sched_length]; omega
  simp only [hl, Nat.sub_self, List.getElem?_cons_zero, Option.getD_some, Spec.Sha256.nextW]
  rw [e _ (by omega), e _ (by omega), e _ (by omega), e _ (by omega)]

/-! ### the 64 steps -/

/-- state after the first `n` steps of the (closed-form) table -/
def runSteps (blk : List UInt8) (H : R8 UInt32) (n : Nat) : TS :=
  (List.range n).foldl (fun s t => step blk s (closedRow t)) { v := H, w := Array.replicate 16 0, ok := true }

/-- the standard's working variables after `n` rounds -/
def specRounds (blk : List UInt8) (H : R8 UInt32) (n : Nat) : R8 UInt32 :=
  (List.range n).foldl (fun r t => Spec.Sha256.round r
    (Spec.Sha256.K.getD t 0, (Spec.Sha256.schedule (wordsBE32 blk)).getD t 0)) H

theorem add4 (a b c d : UInt32) : a + b + c + d = b + c + d + a := by ac_rfl

theorem K_length : Spec.Sha256.K.length = 64 := by decide

theorem loop_inv (blk : List UInt8) (hblk : blk.length = 64) (H : R8 UInt32) (n : Nat) (hn : n ≤ 64) :
    (runSteps blk H n).ok = true ∧ (runSteps blk H n).w.size = 16 ∧
    (∀ j, j < n → n ≤ j + 16 →
      (runSteps blk H n).w.getD (j % 16) 0 = (Spec.Sha256.schedule (wordsBE32 blk)).getD j 0) ∧
    view (n % 8) (runSteps blk H n).v = specRounds blk H n := by
  induction n with
  | zero =>
    refine ⟨rfl, by simp [runSteps], by intro j hj; omega, ?_⟩
    obtain ⟨a, b, c, d, e, f, g, h⟩ := H
    rfl
  | succ n ih =>
    obtain ⟨hok, hsz, hw, hv⟩ := ih (by omega)
    have hM : (wordsBE32 blk).length = 16 := by rw [wordsBE32_length, hblk]
    have hrun : runSteps blk H (n + 1) = step blk (runSteps blk H n) (closedRow n) := by
      simp [runSteps, List.range_succ, List.foldl_append]
    have hspec : specRounds blk H (n + 1) = Spec.Sha256.round (specRounds blk H n)
        (Spec.Sha256.K.getD n 0, (Spec.Sha256.schedule (wordsBE32 blk)).getD n 0) := by
      simp [specRounds, List.range_succ, List.foldl_append]
    -- the operand is the standard's W_n
    have hwt : wOf blk (runSteps blk H n).w n = (Spec.Sha256.schedule (wordsBE32 blk)).getD n 0 := by
      unfold wOf
      by_cases h16 : n < 16
      · rw [if_pos h16, schedule_lo _ _ (by omega), wordsBE32_getD _ _ (by omega)]
      · rw [if_neg h16, schedule_rec _ hM n (by omega) (by omega)]
        unfold wgen
        rw [hw (n - 16) (by omega) (by omega), hw (n - 2) (by omega) (by omega),
          hw (n - 7) (by omega) (by omega), hw (n - 15) (by omega) (by omega), sig0_eq, sig1_eq]
        exact add4 _ _ _ _
    rw [hrun, step_closed, hwt]
    refine ⟨hok, by rw [Array.size_setIfInBounds]; exact hsz, ?_, ?_⟩
    · intro j hj1 hj2
      simp only
      rw [array_getD_set _ _ _ _ (by rw [hsz]; exact Nat.mod_lt _ (by decide))]
      by_cases hjn : j = n
      · subst hjn; simp
      · have : n % 16 ≠ j % 16 := by omega
        rw [if_neg this]
        exact hw j (by omega) (by omega)
    · simp only
      rw [show (n + 1) % 8 = (n % 8 + 1) % 8 by omega]
      rw [stepRegs_view _ (Nat.mod_lt _ (by decide)), hv, hspec]

theorem transform_eq (mis : Bool) (H : R8 UInt32) (blk : List UInt8) (hblk : blk.length = 64) :
    transform mis H blk = .ok (Spec.Sha256.compress H blk) := by
  have htbl : (if mis then Mhd.Gen.Hash.sha256StepsMis else Mhd.Gen.Hash.sha256Steps)
      = (List.range 64).map closedRow := by
    cases mis
    · exact steps_closed
    · exact stepsMis_closed
  obtain ⟨hok, _, _, hv⟩ := loop_inv blk hblk H 64 (Nat.le_refl _)
  unfold transform
  simp only [htbl, List.foldl_map]
  have hfold : List.foldl (fun x y => step blk x (closedRow y))
      { v := H, w := Array.replicate 16 0, ok := true } (List.range 64) = runSteps blk H 64 := rfl
  rw [hfold, if_pos hok]
  have hview : view (64 % 8) (runSteps blk H 64).v = (runSteps blk H 64).v := by
    generalize (runSteps blk H 64).v = v
    obtain ⟨a, b, c, d, e, f, g, h⟩ := v
    rfl
  rw [hview] at hv
  have hM : (wordsBE32 blk).length = 16 := by rw [wordsBE32_length, hblk]
  have hsl : (Spec.Sha256.schedule (wordsBE32 blk)).length = 64 := by
    have := sched_length 48 (wordsBE32 blk)
    rw [hM] at this
    exact this
  have hspec : (Spec.Sha256.K.zip (Spec.Sha256.schedule (wordsBE32 blk))).foldl Spec.Sha256.round H
      = specRounds blk H 64 := by
    rw [foldl_zip_range Spec.Sha256.K _ (by rw [hsl, K_length]) _ _ 0 0, K_length]
    rfl
  unfold Spec.Sha256.compress
  simp only [hspec, ← hv]
  generalize (runSteps blk H 64).v = v
  simp only [UInt32.add_comm]

/-- the abstract byte counter of md5.c / sha1.c / sha256.c: `count` is the length mod 2^64 -/
def cnt64 (n : Nat) : Nat × Nat := (n % 2 ^ 64, 0)

theorem ofNat_mod64 (x : Nat) : UInt64.ofNat (x % 2 ^ 64) = UInt64.ofNat x := by
  apply UInt64.toNat_inj.mp
  simp

theorem refines : Refines alg Spec.Sha256.spec (fun _ => True) cnt64 where
  B_eq := by decide
  L_eq := by decide
  L_pos := by decide
  L_lt := by decide
  B_lt := by decide
  iv_eq := iv_eq
  transform_eq := fun mis H blk h => transform_eq mis H blk h
  cnt_zero := rfl
  bump_eq := by
    intro n len _
    simp only [alg, bump64, cnt64, Nat.mod_add_mod]
  cnt_mod := by
    intro n
    have : alg.B = 64 := by decide
    rw [this]; simp only [cnt64]; omega
  putLen_eq := by
    intro n
    simp only [alg, cnt64, Spec.Sha256.spec, Spec.Sha256.lenField]
    rw [ofNat_mod64, Nat.mul_comm, ← ofNat_mod64 (8 * n), ← ofNat_mod64 (8 * (n % 2 ^ 64))]
    congr 2
    omega
  lenField_len := fun _ => rfl
  digest_eq := fun _ => rfl

end Mhd.Hash.Sha256
