/-
  `process_value_to_boundary` on a well-formed stream: where the scan for `"\r\n--" ++ boundary` stops
  (`scanCR`, `scanBoundary`) when the window is a prefix of `w ++ "\r\n--" ++ B ++ tl` and the delimiter
  does not occur earlier.
-/
import Mhd.Proofs.PPMulti
namespace Mhd.PP

theorem findByte_none {c : UInt8} : ∀ {l : Bytes}, findByte c l = none → ∀ i : Nat, l[i]? ≠ some c
  | [], _, i => by simp
  | x :: t, h, i => by
    simp only [findByte] at h
    by_cases hx : x = c
    · simp [hx] at h
    · simp only [hx, if_false, Option.map_eq_none_iff] at h
      cases i with
      | zero => simpa using hx
      | succ i => simpa using findByte_none h i

theorem findByte_some {c : UInt8} : ∀ {l : Bytes} {k : Nat}, findByte c l = some k →
    l[k]? = some c ∧ ∀ i, i < k → l[i]? ≠ some c
  | [], k, h => by simp [findByte] at h
  | x :: t, k, h => by
    simp only [findByte] at h
    by_cases hx : x = c
    · simp [hx] at h; subst h; simp [hx]
    · simp only [hx, if_false, Option.map_eq_some_iff] at h
      obtain ⟨k', hk', rfl⟩ := h
      obtain ⟨h1, h2⟩ := findByte_some hk'
      refine ⟨by simpa using h1, ?_⟩
      intro i hi
      cases i with
      | zero => simpa using hx
      | succ i => simpa using h2 i (by omega)

theorem slice_app (a b : Bytes) (s e : Nat) (h : e ≤ a.length) : slice (a ++ b) s e = slice a s e := by
  unfold slice
  by_cases hs : s ≤ a.length
  · rw [List.drop_append_of_le_length hs, List.take_append_of_le_length (by simp; omega)]
  · have : e - s = 0 := by omega
    simp [this]

theorem slice_get (l : Bytes) (a b i : Nat) : (slice l a b)[i]? = if i < b - a then l[a + i]? else none := by
  simp [slice, List.getElem?_take, List.getElem?_drop]

theorem slice_at (w x t : Bytes) (k : Nat) (hk : k = x.length) :
    slice (w ++ x ++ t) w.length (w.length + k) = x := by
  subst hk
  simp [slice]

theorem slice_len_le (l : Bytes) (a b : Nat) : (slice l a b).length ≤ b - a := by
  simp [slice]; omega

/-- candidate positions: properties of the inner `while` of `process_value_to_boundary` -/
theorem scanCR_cases (buf : Bytes) (n0 : Nat) :
    (¬ n0 + 4 < buf.length → scanCR buf n0 = n0) ∧
    (n0 + 4 < buf.length → scanCR buf n0 = buf.length - 4 ∨
      (scanCR buf n0 + 4 < buf.length ∧ slice buf (scanCR buf n0) (scanCR buf n0 + 4) = sCRLFDashDash)) := by
  induction n0 using scanCR.induct (buf := buf) with
  | case1 n h hf => rw [scanCR]; simp [h, hf]
  | case2 n h k hf hs =>
    rw [scanCR]; simp only [h, hf, dite_true]; rw [if_pos hs]
    refine ⟨fun hh => absurd trivial hh, fun _ => Or.inr ⟨?_, hs⟩⟩
    have := findByte_lt _ _ _ hf
    have := slice_len_le buf n (buf.length - 4)
    omega
  | case3 n h k hf hs ih =>
    rw [scanCR]; simp only [h, hf, hs, dite_true, if_false]
    refine ⟨fun hh => absurd trivial hh, fun _ => ?_⟩
    by_cases h2 : n + k + 1 + 4 < buf.length
    · exact ih.2 h2
    · left
      rw [ih.1 h2]
      have := findByte_lt _ _ _ hf
      have := slice_len_le buf n (buf.length - 4)
      omega
  | case4 n h => rw [scanCR]; simp [h]

theorem scanCR_upto (buf : Bytes) (v : Nat) (hv : v + 4 < buf.length) (hcr : buf[v]? = some cCR)
    (hm : slice buf v (v + 4) = sCRLFDashDash) (n0 : Nat) (hn : n0 ≤ v) : scanCR buf n0 ≤ v := by
  induction n0 using scanCR.induct (buf := buf) with
  | case1 n h hf =>
    exfalso
    have := findByte_none hf (v - n)
    rw [slice_get] at this
    have e : n + (v - n) = v := by omega
    rw [if_pos (by omega), e] at this
    exact this hcr
  | case2 n h k hf hs =>
    rw [scanCR]; simp only [h, hf, hs, dite_true, if_true]
    obtain ⟨_, h2⟩ := findByte_some hf
    by_cases hk : k ≤ v - n
    · omega
    · exfalso
      have := h2 (v - n) (by omega)
      rw [slice_get] at this
      have e : n + (v - n) = v := by omega
      rw [if_pos (by omega), e] at this
      exact this hcr
  | case3 n h k hf hs ih =>
    rw [scanCR]; simp only [h, hf, hs, dite_true, if_false]
    apply ih
    obtain ⟨_, h2⟩ := findByte_some hf
    by_cases hk : k < v - n
    · omega
    · by_cases hk2 : k = v - n
      · exfalso; apply hs; rw [hk2]
        have e : n + (v - n) = v := by omega
        rw [e]; exact hm
      · exfalso
        have := h2 (v - n) (by omega)
        rw [slice_get] at this
        have e : n + (v - n) = v := by omega
        rw [if_pos (by omega), e] at this
        exact this hcr
  | case4 n h => omega

theorem crlfdd_get (j : Nat) (h1 : 1 ≤ j) : sCRLFDashDash[j]? ≠ some cCR := by
  match j, h1 with
  | 1, _ => decide
  | 2, _ => decide
  | 3, _ => decide
  | j + 4, _ => simp [sCRLFDashDash]

/-- the outer loop of `process_value_to_boundary` on a window `buf` of a stream that continues with
    `pend`, where the stream is `w ++ "\r\n--" ++ B ++ tl` and `"\r\n--" ++ B` does not occur earlier:
    the boundary is found exactly at `|w|` as soon as it is completely inside the window, and before
    that only bytes of `w` are released. -/
theorem scanBoundary_fresh (B w tl buf pend : Bytes) (size : Nat) (hB : 1 ≤ B.length)
    (hS : buf ++ pend = w ++ sCRLFDashDash ++ (B ++ tl))
    (hfresh : ∀ k, k < w.length → slice (buf ++ pend) k (k + 4 + B.length) ≠ sCRLFDashDash ++ B)
    (hsz : B.length + 4 ≤ size) (n0 : Nat) (hn : n0 ≤ w.length)
    (hn2 : n0 ≤ buf.length) :
    (w.length + 4 + B.length ≤ buf.length → scanBoundary buf B size n0 = .found w.length) ∧
    (¬ w.length + 4 + B.length ≤ buf.length →
      ∃ nl, scanBoundary buf B size n0 = .partialAt nl ∧ n0 ≤ nl ∧ nl ≤ w.length ∧ nl ≤ buf.length) := by
  have hS4 : slice (buf ++ pend) w.length (w.length + 4) = sCRLFDashDash := by
    rw [hS]; exact slice_at w sCRLFDashDash (B ++ tl) 4 rfl
  have hSB : slice (buf ++ pend) (w.length + 4) (w.length + 4 + B.length) = B := by
    rw [hS]
    have : w ++ sCRLFDashDash ++ (B ++ tl) = (w ++ sCRLFDashDash) ++ B ++ tl := by simp
    rw [this]
    have := slice_at (w ++ sCRLFDashDash) B tl B.length rfl
    simpa [sCRLFDashDash] using this
  have hScr : (buf ++ pend)[w.length]? = some cCR := by
    rw [hS]; simp [sCRLFDashDash]
  -- facts about r = scanCR buf n0
  have rfacts : ∀ n0, n0 ≤ w.length → n0 ≤ buf.length → scanCR buf n0 ≤ w.length ∧ scanCR buf n0 ≤ buf.length := by
    intro n0 hn hn2
    obtain ⟨c1, c2⟩ := scanCR_cases buf n0
    by_cases h4 : n0 + 4 < buf.length
    · by_cases hv : w.length + 4 < buf.length
      · have hcr : buf[w.length]? = some cCR := by
          rw [← hScr, List.getElem?_append_left (by omega)]
        have hm : slice buf w.length (w.length + 4) = sCRLFDashDash := by
          rw [← slice_app buf pend _ _ (by omega)]; exact hS4
        have := scanCR_upto buf w.length hv hcr hm n0 hn
        omega
      · rcases c2 h4 with h | ⟨h, _⟩ <;> omega
    · rw [c1 h4]; exact ⟨hn, hn2⟩
  have cand : ∀ n0, scanCR buf n0 + B.length + 4 ≤ buf.length →
      slice buf (scanCR buf n0) (scanCR buf n0 + 4) = sCRLFDashDash := by
    intro n0 hchk
    obtain ⟨c1, c2⟩ := scanCR_cases buf n0
    by_cases h4 : n0 + 4 < buf.length
    · rcases c2 h4 with h | ⟨_, h⟩
      · omega
      · exact h
    · have := c1 h4; omega
  induction n0 using scanBoundary.induct (buf := buf) (boundary := B) (bufferSize := size) with
  | case1 n0 nl h hne ih =>
    have h' : scanCR buf n0 + B.length + 4 ≤ buf.length := h
    have hne' : slice buf (scanCR buf n0 + 4) (scanCR buf n0 + 4 + B.length) ≠ B := hne
    obtain ⟨r1, r2⟩ := rfacts n0 hn hn2
    have hge := scanCR_ge buf n0
    have hc := cand n0 h'
    have hrv : scanCR buf n0 ≠ w.length := by
      intro he
      apply hne'
      rw [he, ← slice_app buf pend _ _ (by omega)]
      exact hSB
    have h4v : scanCR buf n0 + 4 ≤ w.length := by
      by_cases hh : scanCR buf n0 + 4 ≤ w.length
      · exact hh
      · exfalso
        have e1 : (slice buf (scanCR buf n0) (scanCR buf n0 + 4))[w.length - scanCR buf n0]? = some cCR := by
          rw [slice_get, if_pos (by omega)]
          have : scanCR buf n0 + (w.length - scanCR buf n0) = w.length := by omega
          rw [this, ← hScr, List.getElem?_append_left (by omega)]
        rw [hc] at e1
        exact crlfdd_get _ (by omega) e1
    rw [scanBoundary]
    simp only [h', dite_true, hne', ne_eq, not_false_eq_true, if_true]
    obtain ⟨i1, i2⟩ := ih h4v (by omega)
    refine ⟨i1, fun hh => ?_⟩
    obtain ⟨nl', e1, e2, e3, e4⟩ := i2 hh
    exact ⟨nl', e1, by omega, e3, e4⟩
  | case2 n0 nl h hne =>
    have h' : scanCR buf n0 + B.length + 4 ≤ buf.length := h
    have hne' : ¬ slice buf (scanCR buf n0 + 4) (scanCR buf n0 + 4 + B.length) ≠ B := hne
    have hm : slice buf (scanCR buf n0 + 4) (scanCR buf n0 + 4 + B.length) = B := by
      by_cases hh : slice buf (scanCR buf n0 + 4) (scanCR buf n0 + 4 + B.length) = B
      · exact hh
      · exact absurd hh hne'
    obtain ⟨r1, r2⟩ := rfacts n0 hn hn2
    have hc := cand n0 h'
    have hrv : scanCR buf n0 = w.length := by
      by_cases hh : scanCR buf n0 < w.length
      · exfalso
        apply hfresh _ hh
        rw [slice_app buf pend _ _ (by omega),
          slice_split buf (scanCR buf n0) (scanCR buf n0 + 4) _ (by omega) (by omega), hc, hm]
      · omega
    rw [scanBoundary]
    simp only [h', dite_true, hne', if_false]
    rw [hrv]
    exact ⟨fun _ => rfl, fun hh => absurd (by omega) hh⟩
  | case3 n0 nl h hz =>
    have h' : ¬ scanCR buf n0 + B.length + 4 ≤ buf.length := h
    have hz' : scanCR buf n0 = 0 ∧ buf.length = size := hz
    omega
  | case4 n0 nl h hz =>
    have h' : ¬ scanCR buf n0 + B.length + 4 ≤ buf.length := h
    have hz' : ¬ (scanCR buf n0 = 0 ∧ buf.length = size) := hz
    obtain ⟨r1, r2⟩ := rfacts n0 hn hn2
    have hge := scanCR_ge buf n0
    rw [scanBoundary]
    rw [dif_neg h', if_neg hz']
    exact ⟨fun hh => by omega, fun _ => ⟨_, rfl, hge, r1, r2⟩⟩

/-- a window in which the scan releases nothing is not full (given that a boundary fits) -/
theorem scanBoundary_partial_zero (buf B : Bytes) (size n0 : Nat)
    (h : scanBoundary buf B size n0 = .partialAt 0) : ¬ (0 + B.length + 4 ≤ buf.length) := by
  induction n0 using scanBoundary.induct (buf := buf) (boundary := B) (bufferSize := size) with
  | case1 n0 nl hh hne ih =>
    have h' : scanCR buf n0 + B.length + 4 ≤ buf.length := hh
    have hne' : slice buf (scanCR buf n0 + 4) (scanCR buf n0 + 4 + B.length) ≠ B := hne
    rw [scanBoundary] at h
    simp only [h', dite_true, hne', ne_eq, not_false_eq_true, if_true] at h
    exact ih h
  | case2 n0 nl hh hne =>
    have h' : scanCR buf n0 + B.length + 4 ≤ buf.length := hh
    have hne' : ¬ slice buf (scanCR buf n0 + 4) (scanCR buf n0 + 4 + B.length) ≠ B := hne
    rw [scanBoundary] at h
    simp only [h', dite_true, hne', if_false] at h
    cases h
  | case3 n0 nl hh hz =>
    have h' : ¬ scanCR buf n0 + B.length + 4 ≤ buf.length := hh
    have hz' : scanCR buf n0 = 0 ∧ buf.length = size := hz
    rw [scanBoundary] at h
    rw [dif_neg h', if_pos hz'] at h
    cases h
  | case4 n0 nl hh hz =>
    have h' : ¬ scanCR buf n0 + B.length + 4 ≤ buf.length := hh
    have hz' : ¬ (scanCR buf n0 = 0 ∧ buf.length = size) := hz
    rw [scanBoundary] at h
    rw [dif_neg h', if_neg hz'] at h
    injection h with h
    rw [h] at h'
    exact h'

end Mhd.PP
