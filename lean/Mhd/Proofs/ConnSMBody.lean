/-
  C05 — MHD_connection_handle_idle preserves the refinement relation.
-/
import Mhd.Proofs.ConnSMHandler
namespace Mhd.ConnSM
open Mhd.Gen.ConnState Mhd.Protocol

/-- what every function running inside `MHD_connection_handle_idle` guarantees about its result -/
def Post {σ} (p : PSt) (c' : Conn σ) (l : List LEv) : Prop :=
  Rel c' (Protocol.run p l) ∧ c'.started = true ∧ c'.cleaned = false

theorem processBody_eq {σ} (cfg : Cfg) (app : App σ) (env : IdleEnv) (hok : EnvOk cfg env) :
    ∀ (n : Nat) (buf : List Tok) (c : Conn σ) (p : PSt), Rel c p → c.started = true → c.cleaned = false →
      c.state = .bodyReceiving → ∀ (c' : Conn σ) (l : List LEv), processBody cfg app env n buf c = (c', l) →
      Post p c' l ∧ (c'.state = .bodyReceiving ∨ 13 ≤ c'.state.toNat) := by
  intro n
  induction n with
  | zero =>
    intro buf c p h hs hc hst c' l heq
    simp only [processBody] at heq
    obtain ⟨rfl, rfl⟩ := Prod.mk.inj heq
    exact ⟨⟨h.congr rfl rfl rfl rfl rfl rfl rfl rfl rfl rfl, hs, hc⟩, Or.inl hst⟩
  | succ n ih =>
    intro buf c p h hs hc hst c' l heq
    have hte : ∀ (b : List Tok) (c' : Conn σ) (l : List LEv), transmitError cfg env { c with buf := b } = (c', l) →
        Post p c' l ∧ (c'.state = .bodyReceiving ∨ 13 ≤ c'.state.toNat) := by
      intro b c' l he
      have := transmitError_eq cfg env { c with buf := b } p (h.congr rfl rfl rfl rfl rfl rfl rfl rfl rfl rfl)
        hok (by simp [hst]) hs hc c' l he
      exact ⟨⟨this.1, this.2.2.1, this.2.2.2⟩, Or.inr this.2.1⟩
    cases buf with
    | nil =>
      simp only [processBody] at heq
      obtain ⟨rfl, rfl⟩ := Prod.mk.inj heq
      exact ⟨⟨h.congr rfl rfl rfl rfl rfl rfl rfl rfl rfl rfl, hs, hc⟩, Or.inl hst⟩
    | cons tok t =>
      cases tok with
      | junk =>
        simp only [processBody] at heq
        split at heq
        · obtain ⟨rfl, rfl⟩ := Prod.mk.inj heq
          exact ⟨⟨h.congr rfl rfl rfl rfl rfl rfl rfl rfl rfl rfl, hs, hc⟩, Or.inl hst⟩
        · exact ih _ c p h hs hc hst c' l heq
      | data k =>
        have hau : ∀ (c1 : Conn σ) (tk : Nat) (q : PSt), Rel c1 q → Rel (afterUpload c1 tk) q := by
          intro c1 tk q hq
          unfold afterUpload
          split <;> exact hq.congr rfl rfl rfl rfl rfl rfl rfl rfl rfl rfl
        have hau2 : ∀ (c1 : Conn σ) (tk : Nat), (afterUpload c1 tk).started = c1.started ∧
            (afterUpload c1 tk).cleaned = c1.cleaned ∧ (afterUpload c1 tk).state = c1.state := by
          intro c1 tk
          unfold afterUpload
          split <;> simp
        simp only [processBody] at heq
        split at heq
        · exact ih _ c p h hs hc hst c' l heq
        · split at heq
          · exact hte _ c' l heq
          · split at heq
            · split at heq
              · exact hte _ c' l heq
              · obtain ⟨rfl, rfl⟩ := Prod.mk.inj heq
                exact ⟨⟨h.congr rfl rfl rfl rfl rfl rfl rfl rfl rfl rfl, hs, hc⟩, Or.inl hst⟩
            · rename_i hoff
              generalize hca : callApp cfg app env c .upload _ = rr at heq
              obtain ⟨c1, l1, ret, taken⟩ := rr
              simp only at heq
              have hu := callApp_upload_eq cfg app env c p _ h hs hc hst hoff c1 l1 ret taken hca
              obtain ⟨u1, u2, u3, u4, u5, u6⟩ := hu
              cases ret with
              | false =>
                simp only [Bool.not_false, if_true] at heq
                have := closeError_rel c1 (Protocol.run p l1) u1
                obtain ⟨rfl, rfl⟩ := Prod.mk.inj heq
                obtain ⟨t1, t2, t3, t4⟩ := this
                rw [t2] at t1
                refine ⟨⟨?_, ?_, ?_⟩, Or.inr (by simp [t3])⟩
                · rw [Protocol.run_append, t2]; exact t1
                · exact t1.1
                · exact t1.2.1
              | true =>
                simp only [Bool.not_true, Bool.false_eq_true, if_false] at heq
                have hr1 := u2 rfl
                split at heq
                · have := ih (restAfter k taken t) (afterUpload c1 taken) (Protocol.run p l1) (hau _ _ _ hr1)
                    (by rw [(hau2 c1 taken).1]; exact u4) (by rw [(hau2 c1 taken).2.1]; exact u5)
                    (by rw [(hau2 c1 taken).2.2]; exact u3) _ _ rfl
                  obtain ⟨rfl, rfl⟩ := Prod.mk.inj heq
                  obtain ⟨⟨t1, t2, t3⟩, t4⟩ := this
                  refine ⟨⟨?_, t2, t3⟩, t4⟩
                  rw [Protocol.run_append]; exact t1
                · obtain ⟨rfl, rfl⟩ := Prod.mk.inj heq
                  refine ⟨⟨?_, ?_, ?_⟩, Or.inl ?_⟩
                  · exact (hau _ _ _ hr1).congr rfl rfl rfl rfl rfl rfl rfl rfl rfl rfl
                  · show (afterUpload c1 taken).started = true
                    rw [(hau2 c1 taken).1]; exact u4
                  · show (afterUpload c1 taken).cleaned = false
                    rw [(hau2 c1 taken).2.1]; exact u5
                  · show (afterUpload c1 taken).state = _
                    rw [(hau2 c1 taken).2.2]; exact u3
      | chunkEnd =>
        simp only [processBody] at heq
        split at heq
        · split at heq
          · obtain ⟨rfl, rfl⟩ := Prod.mk.inj heq
            exact ⟨⟨h.congr rfl rfl rfl rfl rfl rfl rfl rfl rfl rfl, hs, hc⟩, Or.inl hst⟩
          · refine ih _ _ p ?_ ?_ ?_ ?_ c' l heq
            · exact h.congr rfl rfl rfl rfl rfl rfl rfl rfl rfl rfl
            · exact hs
            · exact hc
            · exact hst
        · exact hte _ c' l heq
      | chunkHdr k =>
        simp only [processBody] at heq
        split at heq
        · split at heq
          · obtain ⟨rfl, rfl⟩ := Prod.mk.inj heq
            exact ⟨⟨h.congr rfl rfl rfl rfl rfl rfl rfl rfl rfl rfl, hs, hc⟩, Or.inl hst⟩
          · split at heq
            · obtain ⟨rfl, rfl⟩ := Prod.mk.inj heq
              exact ⟨⟨h.congr rfl rfl rfl rfl rfl rfl rfl rfl rfl rfl, hs, hc⟩, Or.inl hst⟩
            · refine ih _ _ p ?_ ?_ ?_ ?_ c' l heq
              · exact h.congr rfl rfl rfl rfl rfl rfl rfl rfl rfl rfl
              · exact hs
              · exact hc
              · exact hst
        · exact hte _ c' l heq
      | line k => simp only [processBody] at heq; exact hte _ c' l heq
      | headers f ka e => simp only [processBody] at heq; exact hte _ c' l heq
      | hdrBad => simp only [processBody] at heq; exact hte _ c' l heq
      | chunkBad => simp only [processBody] at heq; exact hte _ c' l heq
      | footers ok => simp only [processBody] at heq; exact hte _ c' l heq

end Mhd.ConnSM
