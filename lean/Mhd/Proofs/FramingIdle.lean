/-
  C03 helper lemmas, part 5: every step of the idle loop decreases `measure` (so the fuel
  given by `idle` suffices and `idle` ends in a state where the loop would `break`).
-/
import Mhd.Proofs.FramingChunk
namespace Mhd.Framing
open Mhd.Gen.Framing

set_option linter.unusedSectionVars false
variable [P : HeadParser] [L : LawfulHeadParser]

/-- `mhd_assert (current_chunk_offset <= current_chunk_size)` -/
def ChunkWF (s : St) : Prop := s.off ≤ s.cur

/-- what every step guarantees: the chunk counters stay ordered and the measure drops -/
def StepOK (s s' : St) : Prop := ChunkWF s' ∧ measure s' < measure s

theorem errorReply_ok (s : St) (st : Nat) (wf : ChunkWF s) (hr : 4 < rank s.state) : StepOK s (errorReply s st) := by
  have r0 : rank CState.closed = 0 := rfl
  have r4 : rank CState.fullReplySent = 4 := rfl
  unfold errorReply StepOK
  split
  · exact ⟨wf, by simp only [measure, r0, List.length_nil]; omega⟩
  · exact ⟨wf, by simp only [measure, r4, List.length_nil]; omega⟩

theorem refuseWith_ok (s : St) (x : Option Nat) (wf : ChunkWF s) (hm : 4 < measure s) : StepOK s (refuseWith s x) := by
  have r0 : rank CState.closed = 0 := rfl
  have r4 : rank CState.fullReplySent = 4 := rfl
  cases x with
  | none => exact ⟨wf, by simp only [refuseWith, measure, r0, List.length_nil] at hm ⊢; omega⟩
  | some st =>
    show StepOK s (errorReply s st)
    unfold errorReply StepOK
    by_cases he : s.stopErr = true
    · rw [if_pos he]; exact ⟨wf, by simp only [measure, r0, List.length_nil] at hm ⊢; omega⟩
    · rw [if_neg he]; exact ⟨wf, by simp only [measure, r4, List.length_nil] at hm ⊢; omega⟩

theorem bodyStep_ok (lvl : Int) (s s' : St) (h : bodyStep lvl s = some s') (wf : ChunkWF s)
    (hs : s.state = .bodyReceiving) (hrem : s.remaining ≠ 0) : StepOK s s' := by
  unfold bodyStep at h
  split at h
  · -- chunked
    cases ha : chunkAct lvl s.cur s.off s.buf with
    | needMore => simp [ha] at h
    | term n =>
      simp only [ha] at h; cases h
      have := chunkAct_term _ _ _ _ _ ha
      exact ⟨by simp [ChunkWF], by simp only [measure, hs, List.length_drop]; omega⟩
    | data n =>
      simp only [ha] at h; cases h
      obtain ⟨h1, h2, h3, h4⟩ := chunkAct_data _ _ _ _ _ ha
      have hlen : 0 < s.buf.length := by cases hb : s.buf with | nil => exact absurd hb h3 | cons _ _ => simp
      unfold ChunkWF at wf
      have hlt : s.off < s.cur := by
        by_cases e : s.off = s.cur
        · exact absurd ⟨e, h2⟩ h1
        · omega
      refine ⟨?_, ?_⟩
      · simp only [ChunkWF]; omega
      · simp only [measure, hs, List.length_drop]; omega
    | line len size =>
      simp only [ha] at h
      have := chunkAct_line _ _ _ _ _ _ ha
      split at h <;> cases h
      · exact ⟨by simp [ChunkWF], by simp only [measure, rank, hs, List.length_drop]; omega⟩
      · exact ⟨by simp [ChunkWF], by simp only [measure, rank, hs, List.length_drop]; omega⟩
    | err st =>
      simp only [ha] at h; cases h
      exact errorReply_ok s st wf (by simp [hs, rank])
  · -- identity
    cases hb : s.buf with
    | nil => simp [hb] at h
    | cons c t =>
      simp only [hb] at h
      cases h
      have hn : 0 < min s.remaining (c :: t).length := by simp only [List.length_cons]; omega
      split
      · exact ⟨wf, by simp only [measure, rank, hs, List.length_drop, hb]; omega⟩
      · exact ⟨wf, by simp only [measure, rank, hs, List.length_drop, hb]; omega⟩

theorem step_ok (lvl : Int) (app : App) (s s' : St) (h : idleStep lvl app s = some s') (wf : ChunkWF s) :
    StepOK s s' := by
  unfold idleStep at h
  split at h
  · rename_i hs
    cases hp : P.head s.buf with
    | incomplete => simp [hp] at h
    | bad => simp only [hp] at h; cases h; exact ⟨wf, by simp [measure, rank, hs]⟩
    | refuse x =>
      simp only [hp] at h; cases h
      apply refuseWith_ok s x wf
      cases hb : s.buf with
      | nil => rw [hb, L.head_nil] at hp; cases hp
      | cons c t => simp only [measure, hb, List.length_cons, hs, rank]; omega
    | ok hd rest =>
      simp only [hp] at h; cases h
      have := L.head_length _ _ _ hp
      exact ⟨wf, by simp only [measure, rank, hs]; omega⟩
  · rename_i hs
    split at h <;> cases h
    · exact errorReply_ok s _ wf (by simp [hs, rank])
    · exact ⟨wf, by simp [measure, rank, hs]⟩
    · exact ⟨wf, by simp [measure, rank, hs]⟩
    · exact ⟨wf, by simp [measure, rank, hs]⟩
  · rename_i hs
    split at h <;> cases h
    · exact ⟨wf, by simp [measure, rank, hs]⟩
    · exact ⟨wf, by simp [measure, rank, hs]⟩
    · refine ⟨wf, ?_⟩
      simp only [measure, hs]; repeat' split
      all_goals simp [rank]
  · rename_i hs; cases h; exact ⟨wf, by simp [measure, rank, hs]⟩
  · rename_i hs
    split at h
    · cases h; exact ⟨wf, by simp [measure, rank, hs]⟩
    · rename_i hrem; exact bodyStep_ok lvl s s' h wf hs hrem
  · rename_i hs
    cases h; refine ⟨wf, ?_⟩
    simp only [measure, hs]; split <;> simp [rank]
  · rename_i hs
    cases hp : P.trailers s.buf with
    | incomplete => simp [hp] at h
    | bad => simp only [hp] at h; cases h; exact ⟨wf, by simp [measure, rank, hs]⟩
    | refuse x =>
      simp only [hp] at h; cases h
      exact refuseWith_ok s x wf (by simp only [measure, hs, rank]; omega)
    | ok fs rest =>
      simp only [hp] at h; cases h
      have := L.trailers_length _ _ _ hp
      exact ⟨wf, by simp only [measure, rank, hs]; omega⟩
  · rename_i hs; cases h; exact ⟨wf, by simp [measure, rank, hs]⟩
  · rename_i hs
    split at h
    · cases h; exact ⟨wf, by simp [measure, rank, hs]⟩
    · cases h
  · rename_i hs
    split at h
    · cases h
    · cases h; exact ⟨wf, by simp [measure, rank, hs]⟩
  · rename_i hs
    cases h
    unfold connReset
    split
    · exact ⟨by simp [ChunkWF], by simp [measure, rank, hs]⟩
    · exact ⟨wf, by simp only [measure, rank, hs, List.length_nil]; omega⟩
  · cases h
  · cases h

/-! ### `idle` reaches a state in which the loop would `break` -/

theorem idleFuel_fix (lvl : Int) (app : App) (n : Nat) (s : St) (wf : ChunkWF s) (hn : measure s < n) :
    idleStep lvl app (idleFuel lvl app n s) = none ∧ ChunkWF (idleFuel lvl app n s) := by
  induction n generalizing s with
  | zero => omega
  | succ n ih =>
    unfold idleFuel
    cases hs : idleStep lvl app s with
    | none => exact ⟨hs, wf⟩
    | some s' =>
      have := step_ok lvl app s s' hs wf
      exact ih s' this.1 (by have := this.2; omega)

theorem idleFuel_stable (lvl : Int) (app : App) (n m : Nat) (s : St) (wf : ChunkWF s)
    (hn : measure s < n) (hm : measure s < m) : idleFuel lvl app n s = idleFuel lvl app m s := by
  induction n generalizing s m with
  | zero => omega
  | succ n ih =>
    cases m with
    | zero => omega
    | succ m =>
      unfold idleFuel
      cases hs : idleStep lvl app s with
      | none => rfl
      | some s' =>
        have := step_ok lvl app s s' hs wf
        exact ih m s' this.1 (by have := this.2; omega) (by have := this.2; omega)

theorem idle_fix (lvl : Int) (app : App) (s : St) (wf : ChunkWF s) :
    idleStep lvl app (idle lvl app s) = none ∧ ChunkWF (idle lvl app s) :=
  idleFuel_fix lvl app _ s wf (by omega)

theorem idle_of_none (lvl : Int) (app : App) (s : St) (h : idleStep lvl app s = none) : idle lvl app s = s := by
  unfold idle idleFuel; simp [h]

theorem idle_step (lvl : Int) (app : App) (s s' : St) (wf : ChunkWF s) (h : idleStep lvl app s = some s') :
    idle lvl app s = idle lvl app s' := by
  have ok := step_ok lvl app s s' h wf
  unfold idle
  conv => lhs; unfold idleFuel
  simp only [h]
  exact idleFuel_stable lvl app _ _ s' ok.1 (by have := ok.2; omega) (by omega)
end Mhd.Framing
