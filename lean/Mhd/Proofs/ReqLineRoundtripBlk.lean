/-
  Round trip of the request line when whitespace BLOCKS are merged (`wsp_blocks = true`,
  levels ≤ -1; there `wsp_in_uri = true` as well, so the URI end and the version start are
  resolved at the end of the line by `eolResolveWspInUri`).  Extends
  `Mhd.Proofs.ReqLineRoundtripNC` (single separator bytes, `wsp_blocks = false`): each of the
  two separators is a non-empty block `ws1`, `ws2` of whitespace delimiters.

  `step_wsp_cont` / `run_wsp` (continuation of a whitespace block), `step_targetStart_blk`,
  `step_afterBlock_lenient` (first byte after a block), `head_blk`, `tail_blk`,
  `reqline_roundtrip_blk` with the result record `LineBlk`.
-/
import Mhd.Proofs.ReqLineRoundtripNC
set_option linter.unusedSimpArgs false
namespace Mhd.Req
namespace RLP
open Mhd.Gen

/-! ### steps inside and directly after a whitespace block -/

/-- a further whitespace byte of a block: only `wsEnd` advances -/
theorem step_wsp_cont (F : RLFlags) (s : RL) (w : UInt8) (hw1 : rlIsWsp F w = true) (hc : s.buf[s.rb + s.p]? = some w)
    (hB : F.wspBlocks = true) (hpe : s.p = s.wsEnd) (hne : s.wsEnd ≠ 0) :
    rlStep F s = .advance { s with wsEnd := s.p + 1, p := s.p + 1 } := by
  have hne' := wsp_ne hw1
  rw [rlStep_eq_charStep F s w hc hne'.1 hne'.2, charStep_plain F s w hc hne'.1 hne'.2]
  unfold processChar
  have e1 : endOfWspStrict F s = s := by
    unfold endOfWspStrict; simp [hB]
  rw [e1, hw1]
  simp only [↓reduceIte]
  unfold onWsp
  have : (s.wsEnd == 0 || s.p != s.wsEnd || !F.wspBlocks) = false := by simp [hB, hpe, hne]
  simp only [this, Bool.false_eq_true, ↓reduceIte]

/-- the rest of a whitespace block -/
theorem run_wsp (F : RLFlags) (hB : F.wspBlocks = true) (ws : List UInt8) :
    ∀ (s : RL), RLInv s → BufIs s.buf (s.rb + s.p) ws → (∀ w ∈ ws, rlIsWsp F w = true) → s.p = s.wsEnd → s.wsEnd ≠ 0 →
      (rlScanner F).run s = (rlScanner F).run { s with wsEnd := s.p + ws.length, p := s.p + ws.length } ∧
        RLInv { s with wsEnd := s.p + ws.length, p := s.p + ws.length } := by
  induction ws with
  | nil =>
    intro s hi _ _ hpe _
    have : ({ s with wsEnd := s.p + ([] : List UInt8).length, p := s.p + ([] : List UInt8).length } : RL) = s := by
      show ({ s with wsEnd := s.p, p := s.p } : RL) = s
      cases s; simp only at hpe; subst hpe; rfl
    rw [this]; exact ⟨rfl, hi⟩
  | cons c ws ih =>
    intro s hi hb hw hpe hne
    have st := step_wsp_cont F s c (hw c (by simp)) hb.head hB hpe hne
    have r1 := run_step F s _ hi st
    have := ih { s with wsEnd := s.p + 1, p := s.p + 1 } r1.2 (by have := hb.tail; rwa [Nat.add_assoc] at this)
      (fun c' hc' => hw c' (by simp [hc'])) rfl (by show s.p + 1 ≠ 0; omega)
    have e : s.p + 1 + ws.length = s.p + (c :: ws).length := by simp only [List.length_cons]; omega
    have this' : (rlScanner F).run { s with wsEnd := s.p + 1, p := s.p + 1 } =
        (rlScanner F).run { s with wsEnd := s.p + 1 + ws.length, p := s.p + 1 + ws.length } ∧
        RLInv { s with wsEnd := s.p + 1 + ws.length, p := s.p + 1 + ws.length } := this
    rw [e] at this'
    exact ⟨r1.1.trans this'.1, this'.2⟩

/-- the first character of the target, directly after the whitespace block behind the method -/
theorem step_targetStart_blk (F : RLFlags) (s : RL) (c : UInt8) (hc : s.buf[s.rb + s.p]? = some c) (hp : rplain c)
    (hB : F.wspBlocks = true) (hpe : s.p = s.wsEnd) (hne : s.wsEnd ≠ 0) (ht : s.tgt = none) :
    rlStep F s = .advance { s with tgt := some s.p, wsStart := 0, wsEnd := 0,
                                   qmark := if (c == 63 && s.qmark.isNone) = true then some s.p else s.qmark,
                                   p := s.p + 1 } := by
  rw [rlStep_eq_charStep F s c hc hp.1 hp.2.1, charStep_plain F s c hc hp.1 hp.2.1]
  obtain ⟨_, _, _, _, b5, b6, b7⟩ := rplain_beq hp
  unfold processChar
  have e1 : endOfWspStrict F s = s := by
    unfold endOfWspStrict; simp [hB]
  rw [e1, notWsp F hp]
  simp only [Bool.false_eq_true, ↓reduceIte]
  unfold onOther
  have e2 : endOfWspBlock F s = { s with tgt := some s.p, wsStart := 0, wsEnd := 0 } := by
    unfold endOfWspBlock
    have : (s.p == s.wsEnd && s.wsEnd != 0 && F.wspBlocks) = true := by simp [hB, hpe, hne]
    simp only [this, ↓reduceIte, ht]
  rw [e2]
  by_cases bq : (c == 63) = true
  · simp only [bq, ↓reduceIte, Bool.true_and, Option.isSome_some, Bool.and_true]
    by_cases h2 : s.qmark.isNone = true
    · simp only [h2, ↓reduceIte]
    · simp only [h2, ↓reduceIte, Bool.false_eq_true]
  · simp only [bq, b5, b6, b7, Bool.false_eq_true, ↓reduceIte, Bool.or_self, Bool.false_and]

/-- the first character behind the whitespace block after the target (lenient regime):
    nothing is decided yet -/
theorem step_afterBlock_lenient (F : RLFlags) (s : RL) (c : UInt8) (t0 : Nat) (hc : s.buf[s.rb + s.p]? = some c)
    (hp : rplain c) (hq : c ≠ 63) (hB : F.wspBlocks = true) (hU : F.wspInUri = true) (ht : s.tgt = some t0) :
    rlStep F s = .advance { s with p := s.p + 1 } := by
  rw [rlStep_eq_charStep F s c hc hp.1 hp.2.1, charStep_plain F s c hc hp.1 hp.2.1]
  obtain ⟨_, _, _, _, b5, b6, b7⟩ := rplain_beq hp
  have bq : (c == 63) = false := by simp [hq]
  unfold processChar
  have e1 : endOfWspStrict F s = s := by
    unfold endOfWspStrict; simp [hB]
  rw [e1, notWsp F hp]
  simp only [Bool.false_eq_true, ↓reduceIte]
  unfold onOther
  have e2 : endOfWspBlock F s = s := by
    unfold endOfWspBlock
    split
    · simp only [ht, hU, Bool.not_true, Bool.false_eq_true, ↓reduceIte]
    · rfl
  rw [e2]
  simp only [bq, b5, b6, b7, Bool.false_eq_true, ↓reduceIte, Bool.or_self]

/-! ### the head `method WSP+ target` -/

/-- the state reached after method, whitespace block (`A` bytes) and target -/
structure AfterTargetBlk (s : RL) (buf0 : Bytes) (rb a A b : Nat) (m t : List UInt8) (k : Nat) : Prop where
  inv : RLInv s
  e_rb : s.rb = rb
  e_p : s.p = a + A + b
  e_buf : s.buf = buf0.setIfInBounds (rb + a) 0
  e_hm : s.hasMethod = true
  e_ml : s.methodLen = a
  e_mt : s.mthd = stdMethodOf m
  e_tgt : s.tgt = some (a + A)
  e_q : s.qmark = (firstQ t).map (a + A + ·)
  e_we : s.wsEnd = 0
  e_nw : s.numWs = 0
  e_sk : s.skipped = k

theorem head_blk (F : RLFlags) (hB : F.wspBlocks = true) (buf0 : Bytes) (rb k : Nat) (m t rest : List UInt8) (w : UInt8)
    (ws : List UInt8) (hw : rlIsWsp F w = true) (hws : ∀ w' ∈ ws, rlIsWsp F w' = true)
    (hrb : rb ≤ buf0.size) (hm0 : m ≠ []) (ht0 : t ≠ []) (hm : ∀ c ∈ m, rplain c ∧ c ≠ 63) (ht : ∀ c ∈ t, rplain c)
    (hbuf : BufIs buf0 rb (m ++ (w :: ws) ++ t ++ rest)) :
    ∃ s, (rlScanner F).run (startAt buf0 rb k) = (rlScanner F).run s ∧
      AfterTargetBlk s buf0 rb m.length (ws.length + 1) t.length m t k := by
  have hbm : BufIs buf0 rb m := hbuf.left.left.left
  have hbw : BufIs buf0 (rb + m.length) (w :: ws) := hbuf.left.left.right
  have hbs : buf0[rb + m.length]? = some w := hbw.head
  have hbws : BufIs buf0 (rb + (m.length + 1)) ws := by
    have := hbw.tail; rwa [Nat.add_assoc] at this
  have hbt : BufIs buf0 (rb + (m.length + (ws.length + 1))) t := by
    have := hbuf.left.right; simpa [Nat.add_assoc] using this
  have a1 : 1 ≤ m.length := by
    cases m with
    | nil => exact absurd rfl hm0
    | cons _ _ => simp
  -- 1. the method
  have i0 := RLInv.startAt buf0 rb k hrb
  have r1 := run_plain F m (startAt buf0 rb k) i0 (by show BufIs buf0 (rb + 0) m; rw [Nat.add_zero]; exact hbm) hm (Or.inl rfl)
  generalize hs1 : ({ startAt buf0 rb k with p := (startAt buf0 rb k).p + m.length } : RL) = s1 at r1
  have p1 : s1.p = m.length := by rw [← hs1]; show 0 + m.length = _; omega
  have rb1 : s1.rb = rb := by rw [← hs1]; rfl
  have b1 : s1.buf = buf0 := by rw [← hs1]; rfl
  -- 2. the first byte of the whitespace block
  have hsp : s1.buf[s1.rb + s1.p]? = some w := by rw [b1, rb1, p1]; exact hbs
  have st2 := step_methodEnd_w F s1 w hw hsp (by rw [← hs1]; rfl) (by rw [p1]; omega) (by rw [← hs1]; rfl)
  have r2 := run_step F s1 _ r1.2 st2
  generalize hs2 : ({ s1 with buf := s1.buf.setIfInBounds (s1.rb + s1.p) 0, hasMethod := true, methodLen := s1.p, mthd := stdMethodOf ((s1.buf.setIfInBounds (s1.rb + s1.p) 0).extract s1.rb (s1.rb + s1.p)).toList, wsStart := s1.p, wsEnd := s1.p + 1, p := s1.p + 1 } : RL) = s2 at r2
  have b2 : s2.buf = buf0.setIfInBounds (rb + m.length) 0 := by
    rw [← hs2]; show s1.buf.setIfInBounds (s1.rb + s1.p) 0 = _; rw [b1, rb1, p1]
  have p2 : s2.p = m.length + 1 := by rw [← hs2]; show s1.p + 1 = _; rw [p1]
  have rb2 : s2.rb = rb := by rw [← hs2]; exact rb1
  have we2 : s2.wsEnd = m.length + 1 := by rw [← hs2]; show s1.p + 1 = _; rw [p1]
  have mt2 : s2.mthd = stdMethodOf m := by
    rw [← hs2]
    show stdMethodOf ((s1.buf.setIfInBounds (s1.rb + s1.p) 0).extract s1.rb (s1.rb + s1.p)).toList = _
    rw [b1, rb1, p1, extract_eq _ rb m (hbm.set _ _ (Or.inr (Nat.le_refl _)))]
  have get2 : ∀ j, j ≠ rb + m.length → s2.buf[j]? = buf0[j]? := by
    intro j hj; rw [b2, Array.getElem?_setIfInBounds, if_neg (by omega)]
  -- 2'. the rest of the whitespace block
  have hbws2 : BufIs s2.buf (s2.rb + s2.p) ws := by
    intro i hi'
    rw [rb2, p2, get2 _ (by omega)]; exact hbws i hi'
  have r2' := run_wsp F hB ws s2 r2.2 hbws2 hws (by rw [p2, we2]) (by rw [we2]; omega)
  generalize hs2' : ({ s2 with wsEnd := s2.p + ws.length, p := s2.p + ws.length } : RL) = s2' at r2'
  have b2' : s2'.buf = s2.buf := by rw [← hs2']
  have p2' : s2'.p = m.length + (ws.length + 1) := by rw [← hs2']; show s2.p + ws.length = _; rw [p2]; omega
  have we2' : s2'.wsEnd = m.length + (ws.length + 1) := by rw [← hs2']; show s2.p + ws.length = _; rw [p2]; omega
  have rb2' : s2'.rb = rb := by rw [← hs2']; exact rb2
  -- 3. the first character of the target
  obtain ⟨c0, t', htt⟩ : ∃ c0 t', t = c0 :: t' := by
    cases t with
    | nil => exact absurd rfl ht0
    | cons c0 t' => exact ⟨c0, t', rfl⟩
  have hc0 : s2'.buf[s2'.rb + s2'.p]? = some c0 := by
    rw [b2', rb2', p2', get2 _ (by omega)]
    have := hbt 0 (by rw [htt]; simp); rw [htt] at this; simpa using this
  have st3 := step_targetStart_blk F s2' c0 hc0 (ht c0 (by rw [htt]; simp)) hB (by rw [p2', we2']) (by rw [we2']; omega)
    (by rw [← hs2', ← hs2, ← hs1]; rfl)
  have r3 := run_step F s2' _ r2'.2 st3
  generalize hs3 : ({ s2' with tgt := some s2'.p, wsStart := 0, wsEnd := 0, qmark := if (c0 == 63 && s2'.qmark.isNone) = true then some s2'.p else s2'.qmark, p := s2'.p + 1 } : RL) = s3 at r3
  have b3 : s3.buf = s2.buf := by rw [← hs3]; exact b2'
  have p3 : s3.p = m.length + (ws.length + 1) + 1 := by rw [← hs3]; show s2'.p + 1 = _; rw [p2']
  have rb3 : s3.rb = rb := by rw [← hs3]; exact rb2'
  have q2 : s2'.qmark = none := by rw [← hs2', ← hs2, ← hs1]; rfl
  have q3 : s3.qmark = if (c0 == 63 && (none : Option Nat).isNone) = true then some (m.length + (ws.length + 1)) else none := by
    rw [← hs3]; show (if (c0 == 63 && s2'.qmark.isNone) = true then some s2'.p else s2'.qmark) = _; rw [q2, p2']
  -- 4. the rest of the target
  have hbt' : BufIs s3.buf (s3.rb + s3.p) t' := by
    intro i hi'
    rw [b3, rb3, p3, get2 _ (by omega)]
    have := hbt (i + 1) (by rw [htt]; simp; omega)
    rw [htt] at this
    simp only [List.getElem?_cons_succ] at this
    rw [← this]; congr 1; omega
  have r4 := run_target F t' s3 r3.2 hbt' (fun c hc => ht c (by rw [htt]; simp [hc])) (by rw [← hs3]) (by rw [← hs3]; rfl)
  refine ⟨_, r1.1.trans (r2.1.trans (r2'.1.trans (r3.1.trans r4.1))), ?_⟩
  have lt : t.length = t'.length + 1 := by rw [htt]; simp
  refine ⟨r4.2, rb3, ?_, ?_, ?_, ?_, ?_, ?_, ?_, ?_, ?_, ?_⟩
  · show s3.p + t'.length = _; rw [p3, lt]; omega
  · show s3.buf = _; rw [b3, b2]
  · show s3.hasMethod = true; rw [← hs3, ← hs2', ← hs2]
  · show s3.methodLen = _; rw [← hs3, ← hs2', ← hs2]; exact p1
  · show s3.mthd = _; rw [← hs3, ← hs2']; exact mt2
  · show s3.tgt = _; rw [← hs3]; show some s2'.p = _; rw [p2']
  · show qAfter s3.qmark s3.p t' = _
    rw [q3, p3, htt]
    have := firstQ_cons c0 t' (m.length + (ws.length + 1))
    unfold qAfter
    exact this
  · show s3.wsEnd = 0; rw [← hs3]
  · show s3.numWs = 0; rw [← hs3, ← hs2', ← hs2, ← hs1]; rfl
  · show s3.skipped = k; rw [← hs3, ← hs2', ← hs2, ← hs1]; rfl

/-! ### the tail `WSP+ version EOL` -/

/-- what the finished request line looks like; separator blocks of `A` and `B` bytes, `k`
    skipped empty lines, line end of `e` bytes -/
structure LineBlkG (r : ReqLine) (buf0 : Bytes) (rb a A b B : Nat) (m t : List UInt8) (hv : Int) (k e : Nat) : Prop where
  e_rb : r.rb = rb + (a + A + b + B + 8 + e)
  e_method : r.method = rb
  e_ml : r.methodLen = a
  e_mt : r.mthd = stdMethodOf m
  e_tgt : r.tgt = rb + (a + A)
  e_tl : r.tgtLen = b
  e_q : r.qmark = (firstQ t).map (rb + (a + A) + ·)
  e_ver : r.version = rb + (a + A + b + B)
  e_hv : r.httpVer = hv
  e_nw : r.numWs = 0
  e_sk : r.skipped = k
  e_buf : r.buf = ((buf0.setIfInBounds (rb + a) 0).setIfInBounds (rb + (a + A + b)) 0).setIfInBounds (rb + (a + A + b + B + 8)) 0

/-- the tail `w ws version EOL` in the original buffer; `chr` is the first byte of the line end -/
structure TailBytesBlk (F : RLFlags) (buf0 : Bytes) (rb n : Nat) (v : List UInt8) (w : UInt8) (ws : List UInt8) (chr : UInt8) : Prop where
  sp : BufIs buf0 (rb + n) (w :: ws)
  wsp : rlIsWsp F w = true
  wsps : ∀ w' ∈ ws, rlIsWsp F w' = true
  ver : BufIs buf0 (rb + (n + (ws.length + 1))) v
  eol : buf0[rb + (n + (ws.length + 1) + 8)]? = some chr
  eolc : (chr = cCR ∧ buf0[rb + (n + (ws.length + 1) + 9)]? = some cLF) ∨ (chr = cLF ∧ F.bareLfAsCrlf = true)
  len : v.length = 8
  chars : ∀ c ∈ v, rplain c ∧ c ≠ 63

theorem tail_blk (F : RLFlags) (hB : F.wspBlocks = true) (hU : F.wspInUri = true) (s : RL) (buf0 : Bytes)
    (rb a A b : Nat) (m t v : List UInt8) (w : UInt8) (ws : List UInt8) (chr : UInt8) (hv : Int) (k : Nat)
    (hA : 1 ≤ A) (h : AfterTargetBlk s buf0 rb a A b m t k)
    (tb : TailBytesBlk F buf0 rb (a + A + b) v w ws chr) (hpv : parseHttpVersion v = .ok hv) :
    ∃ r, (rlScanner F).run s = .done (.ok r) ∧ LineBlkG r buf0 rb a A b (ws.length + 1) m t hv k (eolLen chr) := by
  have get_s : ∀ j, j ≠ rb + a → s.buf[j]? = buf0[j]? := by
    intro j hj; rw [h.e_buf, Array.getElem?_setIfInBounds, if_neg (by omega)]
  -- the first byte of the whitespace block after the target
  have hsp : s.buf[s.rb + s.p]? = some w := by rw [h.e_rb, h.e_p, get_s _ (by omega)]; exact tb.sp.head
  have st5 := step_targetEnd_lenient_w F s w tb.wsp hsp hU h.e_hm h.e_we
  have r5 := run_step F s _ h.inv st5
  generalize hs5 : ({ s with wsStart := s.p, wsEnd := s.p + 1, p := s.p + 1 } : RL) = s5 at r5
  have b5 : s5.buf = s.buf := by rw [← hs5]
  have p5 : s5.p = a + A + b + 1 := by rw [← hs5]; show s.p + 1 = _; rw [h.e_p]
  have rb5 : s5.rb = rb := by rw [← hs5]; exact h.e_rb
  have we5 : s5.wsEnd = a + A + b + 1 := by rw [← hs5]; show s.p + 1 = _; rw [h.e_p]
  have ws5 : s5.wsStart = a + A + b := by rw [← hs5]; exact h.e_p
  have tg5 : s5.tgt = some (a + A) := by rw [← hs5]; exact h.e_tgt
  -- the rest of the block
  have hbws5 : BufIs s5.buf (s5.rb + s5.p) ws := by
    intro i hi'
    rw [b5, rb5, p5, get_s _ (by omega)]
    have := tb.sp.tail i hi'
    rw [← this]; congr 1 <;> omega
  have r5' := run_wsp F hB ws s5 r5.2 hbws5 tb.wsps (by rw [p5, we5]) (by rw [we5]; omega)
  generalize hs5' : ({ s5 with wsEnd := s5.p + ws.length, p := s5.p + ws.length } : RL) = s5' at r5'
  have b5' : s5'.buf = s.buf := by rw [← hs5']; exact b5
  have p5' : s5'.p = a + A + b + (ws.length + 1) := by rw [← hs5']; show s5.p + ws.length = _; rw [p5]; omega
  have we5' : s5'.wsEnd = a + A + b + (ws.length + 1) := by rw [← hs5']; show s5.p + ws.length = _; rw [p5]; omega
  have rb5' : s5'.rb = rb := by rw [← hs5']; exact rb5
  have ws5' : s5'.wsStart = a + A + b := by rw [← hs5']; exact ws5
  have tg5' : s5'.tgt = some (a + A) := by rw [← hs5']; exact tg5
  -- the version
  obtain ⟨h0, v', hvv⟩ : ∃ h0 v', v = h0 :: v' := by
    cases v with
    | nil => have := tb.len; simp at this
    | cons h0 v' => exact ⟨h0, v', rfl⟩
  have hh0 := tb.chars h0 (by rw [hvv]; simp)
  have hver0 : s5'.buf[s5'.rb + s5'.p]? = some h0 := by
    rw [b5', rb5', p5', get_s _ (by omega)]
    have := tb.ver 0 (by rw [hvv]; simp); rw [hvv] at this; simpa using this
  have st6 := step_afterBlock_lenient F s5' h0 (a + A) hver0 hh0.1 hh0.2 hB hU tg5'
  have r6 := run_step F s5' _ r5'.2 st6
  generalize hs6 : ({ s5' with p := s5'.p + 1 } : RL) = s6 at r6
  have b6 : s6.buf = s.buf := by rw [← hs6]; exact b5'
  have p6 : s6.p = a + A + b + (ws.length + 1) + 1 := by rw [← hs6]; show s5'.p + 1 = _; rw [p5']
  have rb6 : s6.rb = rb := by rw [← hs6]; exact rb5'
  have we6 : s6.wsEnd = a + A + b + (ws.length + 1) := by rw [← hs6]; exact we5'
  have hv' : BufIs s6.buf (s6.rb + s6.p) v' := by
    intro i hi'
    rw [b6, rb6, p6, get_s _ (by omega)]
    have := tb.ver (i + 1) (by rw [hvv]; simp; omega)
    rw [hvv] at this
    simp only [List.getElem?_cons_succ] at this
    rw [← this]; congr 1; omega
  have r7 := run_plain F v' s6 r6.2 hv' (fun c hc => tb.chars c (by rw [hvv]; simp [hc])) (Or.inr (by rw [we6, p6]; omega))
  generalize hs7 : ({ s6 with p := s6.p + v'.length } : RL) = s7 at r7
  have lv' : v'.length = 7 := by have := tb.len; rw [hvv] at this; simpa using this
  have b7 : s7.buf = s.buf := by rw [← hs7]; exact b6
  have p7 : s7.p = a + A + b + (ws.length + 1) + 8 := by rw [← hs7]; show s6.p + v'.length = _; rw [p6, lv']
  have rb7 : s7.rb = rb := by rw [← hs7]; exact rb6
  have we7 : s7.wsEnd = a + A + b + (ws.length + 1) := by rw [← hs7]; exact we6
  have ws7 : s7.wsStart = a + A + b := by rw [← hs7, ← hs6]; exact ws5'
  have hm7 : s7.hasMethod = true := by rw [← hs7, ← hs6, ← hs5', ← hs5]; exact h.e_hm
  have tg7 : s7.tgt = some (a + A) := by rw [← hs7, ← hs6]; exact tg5'
  have hcr : s7.buf[s7.rb + s7.p]? = some chr := by rw [b7, rb7, p7, get_s _ (by omega)]; exact tb.eol
  have heol : EolAt F s7 chr := by
    refine ⟨hcr, ?_⟩
    rcases tb.eolc with ⟨hc, hl⟩ | hl
    · left; refine ⟨hc, ?_⟩
      rw [b7, rb7, p7, get_s _ (by omega)]
      rwa [show rb + (a + A + b + (ws.length + 1) + 9) = rb + (a + A + b + (ws.length + 1) + 8) + 1 by omega] at hl
    · right; exact hl
  have hsz := fill_gt hcr
  have st8 := step_eol_lenient_g F s7 chr (a + A) heol (by rw [p7]; omega) hU hm7 tg7 (by rw [we7]; omega)
    (by rw [rb7, ws7]; rw [rb7, p7] at hsz; omega)
  generalize hs8 : ({ s7 with buf := s7.buf.setIfInBounds (s7.rb + s7.wsStart) 0, tgtLen := s7.wsStart - (a + A), version := some s7.wsEnd } : RL) = s8 at st8
  have b8 : s8.buf = (buf0.setIfInBounds (rb + a) 0).setIfInBounds (rb + (a + A + b)) 0 := by
    rw [← hs8]; show s7.buf.setIfInBounds (s7.rb + s7.wsStart) 0 = _; rw [b7, h.e_buf, rb7, ws7]
  have get8 : ∀ j, j ≠ rb + a → j ≠ rb + (a + A + b) → s8.buf[j]? = buf0[j]? := by
    intro j h1 h2
    rw [b8, Array.getElem?_setIfInBounds, if_neg (by omega), Array.getElem?_setIfInBounds, if_neg (by omega)]
  have p8 : s8.p = a + A + b + (ws.length + 1) + 8 := by rw [← hs8]; exact p7
  have rb8 : s8.rb = rb := by rw [← hs8]; exact rb7
  have hsz8 : s8.rb + s8.p < s8.buf.size := by rw [b8, rb8, p8]; simp only [Array.size_setIfInBounds]; rw [b7, h.e_buf, rb7, p7] at hsz; simpa using hsz
  have hrd : rdRange s8.buf (s8.rb + s7.wsEnd) (s8.p - s7.wsEnd) = some v := by
    have e8 : s8.p - s7.wsEnd = v.length := by rw [p8, we7, tb.len]; omega
    rw [e8, we7]
    apply rdRange_eq
    · intro i hi'
      rw [rb8, get8 _ (by rw [tb.len] at hi'; omega) (by rw [tb.len] at hi'; omega)]; exact tb.ver i hi'
    · rw [rb8, p8] at hsz8; rw [rb8, tb.len]; omega
  have fin := finishLine_ok_g s8 chr (a + A) s7.wsEnd v hv hrd hpv hsz8
  refine ⟨_, r5.1.trans (r5'.1.trans (r6.1.trans (r7.1.trans (Scanner.run_done s7 _ (by show rlStep F s7 = _; rw [st8, fin]))))), ?_⟩
  refine ⟨?_, ?_, ?_, ?_, ?_, ?_, ?_, ?_, rfl, ?_, ?_, ?_⟩
  · show s8.rb + (s8.p + eolLen chr) = _; rw [rb8, p8]
  · exact rb8
  · show s8.methodLen = a; rw [← hs8, ← hs7, ← hs6, ← hs5', ← hs5]; exact h.e_ml
  · show s8.mthd = _; rw [← hs8, ← hs7, ← hs6, ← hs5', ← hs5]; exact h.e_mt
  · show s8.rb + (a + A) = _; rw [rb8]
  · show s8.tgtLen = b; rw [← hs8]; show s7.wsStart - (a + A) = b; rw [ws7]; omega
  · show s8.qmark.map (s8.rb + ·) = _
    have : s8.qmark = (firstQ t).map (a + A + ·) := by rw [← hs8, ← hs7, ← hs6, ← hs5', ← hs5]; exact h.e_q
    rw [this, rb8, qmap_shift]
  · show s8.rb + s7.wsEnd = _; rw [rb8, we7]
  · show s8.numWs = 0; rw [← hs8, ← hs7, ← hs6, ← hs5', ← hs5]; exact h.e_nw
  · show s8.skipped = k; rw [← hs8, ← hs7, ← hs6, ← hs5', ← hs5]; exact h.e_sk
  · show s8.buf.setIfInBounds (s8.rb + s8.p) 0 = _; rw [b8, rb8, p8]

/-! ### the result -/

/-- the finished request line of a rendering with whitespace blocks: `rb'` is where the method
    starts (behind the `k` skipped empty lines), `a` / `b` the lengths of the two separator
    blocks, `e` the length of the line end -/
structure LineBlk (r : ReqLine) (buf0 : Bytes) (rb' : Nat) (m t v : List UInt8) (hv : Int) (k a b e : Nat) : Prop where
  method : r.method = rb'
  methodLen : r.methodLen = m.length
  mthd : r.mthd = stdMethodOf m
  tgt : r.tgt = rb' + m.length + a
  tgtLen : r.tgtLen = t.length
  qmark : r.qmark = (firstQ t).map (r.tgt + ·)
  version : r.version = rb' + m.length + a + t.length + b
  httpVer : r.httpVer = hv
  numWs : r.numWs = 0
  skipped : r.skipped = k
  rb : r.rb = rb' + m.length + a + t.length + b + 8 + e
  vMethod : BufIs r.buf r.method (m ++ [0])
  vTgt : BufIs r.buf r.tgt (t ++ [0])
  vVersion : BufIs r.buf r.version (v ++ [0])
  size : r.buf.size = buf0.size

theorem LineBlkG.toBlk {r : ReqLine} {buf0 : Bytes} {rb a A b B : Nat} {m t v : List UInt8} {hv : Int} {k e : Nat}
    (h : LineBlkG r buf0 rb a A b B m t hv k e) (ha : m.length = a) (hb : t.length = b) (hvl : v.length = 8)
    (hA : 1 ≤ A) (hB : 1 ≤ B)
    (hbm : BufIs buf0 rb m) (hbt : BufIs buf0 (rb + (a + A)) t) (hbv : BufIs buf0 (rb + (a + A + b + B)) v)
    (hsz : rb + (a + A + b + B + 8) < buf0.size) : LineBlk r buf0 rb m t v hv k A B e := by
  have hsz1 : rb + a < buf0.size := by omega
  have hsz2 : rb + (a + A + b) < buf0.size := by omega
  have getO : ∀ j, j ≠ rb + a → j ≠ rb + (a + A + b) → j ≠ rb + (a + A + b + B + 8) → r.buf[j]? = buf0[j]? := by
    intro j h1 h2 h3
    rw [h.e_buf]
    simp only [Array.getElem?_setIfInBounds]
    rw [if_neg (by omega), if_neg (by omega), if_neg (by omega)]
  have get1 : r.buf[rb + a]? = some 0 := by
    rw [h.e_buf]
    simp only [Array.getElem?_setIfInBounds, Array.size_setIfInBounds]
    rw [if_neg (by omega), if_neg (by omega)]; simp [hsz1]
  have get2 : r.buf[rb + (a + A + b)]? = some 0 := by
    rw [h.e_buf]
    simp only [Array.getElem?_setIfInBounds, Array.size_setIfInBounds]
    rw [if_neg (by omega)]; simp [hsz2]
  have get3 : r.buf[rb + (a + A + b + B + 8)]? = some 0 := by
    rw [h.e_buf]
    simp only [Array.getElem?_setIfInBounds, Array.size_setIfInBounds]
    simp [hsz]
  refine ⟨h.e_method, by rw [h.e_ml, ha], h.e_mt, by rw [h.e_tgt, ha]; omega, by rw [h.e_tl, hb], by rw [h.e_q, h.e_tgt],
    by rw [h.e_ver, ha, hb]; omega, h.e_hv, h.e_nw, h.e_sk, by rw [h.e_rb, ha, hb]; omega, ?_, ?_, ?_, ?_⟩
  · rw [h.e_method]
    intro i hi'
    simp only [List.length_append, List.length_cons, List.length_nil, ha] at hi'
    by_cases hia : i = a
    · subst hia
      rw [get1, List.getElem?_append_right (by omega)]
      simp [ha]
    · rw [getO _ (by omega) (by omega) (by omega), List.getElem?_append_left (by omega)]
      exact hbm i (by omega)
  · rw [h.e_tgt]
    intro i hi'
    simp only [List.length_append, List.length_cons, List.length_nil, hb] at hi'
    by_cases hib : i = b
    · subst hib
      rw [show rb + (a + A) + i = rb + (a + A + i) by omega, get2, List.getElem?_append_right (by omega)]
      simp [hb]
    · rw [getO _ (by omega) (by omega) (by omega), List.getElem?_append_left (by omega)]
      exact hbt i (by omega)
  · rw [h.e_ver]
    intro i hi'
    simp only [List.length_append, List.length_cons, List.length_nil, hvl] at hi'
    by_cases hi8 : i = 8
    · subst hi8
      rw [show rb + (a + A + b + B) + 8 = rb + (a + A + b + B + 8) by omega, get3, List.getElem?_append_right (by omega)]
      simp [hvl]
    · rw [getO _ (by omega) (by omega) (by omega), List.getElem?_append_left (by omega)]
      exact hbv i (by omega)
  · rw [h.e_buf]; simp only [Array.size_setIfInBounds]

/-- **Round trip of the request line with whitespace blocks** (`wsp_blocks`, levels ≤ -1, where
    whitespace in the URI is resolved at the end of the line): `k` empty lines in front (each
    `CR LF`, or a bare `LF` where that ends a line; accepted up to the per-level limit), each of
    the two separators a non-empty BLOCK of bytes that are whitespace delimiters at this
    strictness, the line ended by `CR LF` or — where allowed — a bare `LF`.  The parser hands
    out exactly the three tokens (each NUL-terminated in the buffer), remembers the first '?'
    of the target, recognises method and version, counts no whitespace inside the URI, counts
    the skipped lines and consumes exactly the empty lines and the line. -/
theorem reqline_roundtrip_blk (F : RLFlags) (hB : F.wspBlocks = true) (hU : F.wspInUri = true) (buf0 : Bytes) (rb : Nat)
    (els : List (List UInt8)) (m t v eol ws1 ws2 : List UInt8) (hv : Int)
    (hrb : rb ≤ buf0.size) (hels : ∀ e ∈ els, LineEnd F e) (hk : SkipOK F els.length)
    (hws1 : ws1 ≠ [] ∧ ∀ w ∈ ws1, rlIsWsp F w = true) (hws2 : ws2 ≠ [] ∧ ∀ w ∈ ws2, rlIsWsp F w = true)
    (heol : LineEnd F eol) (hm0 : m ≠ []) (ht0 : t ≠ []) (hm : ∀ c ∈ m, rplain c ∧ c ≠ 63)
    (ht : ∀ c ∈ t, rplain c) (hvl : v.length = 8) (hvc : ∀ c ∈ v, rplain c ∧ c ≠ 63)
    (hpv : parseHttpVersion v = .ok hv)
    (hbuf : BufIs buf0 rb (els.flatten ++ (m ++ ws1 ++ t ++ (ws2 ++ v ++ eol)))) :
    ∃ r, (rlScanner F).run (RL.init buf0 rb) = .done (.ok r) ∧
      LineBlk r buf0 (rb + els.flatten.length) m t v hv els.length ws1.length ws2.length eol.length := by
  obtain ⟨r0, hrb'⟩ := run_skip_init F buf0 rb els hrb hels hk hbuf.left
  generalize hrbq : rb + els.flatten.length = rb' at r0 hrb'
  obtain ⟨w1, ws1', rfl⟩ : ∃ w1 ws1', ws1 = w1 :: ws1' := by
    cases ws1 with
    | nil => exact absurd rfl hws1.1
    | cons w1 ws1' => exact ⟨w1, ws1', rfl⟩
  obtain ⟨w2, ws2', rfl⟩ : ∃ w2 ws2', ws2 = w2 :: ws2' := by
    cases ws2 with
    | nil => exact absurd rfl hws2.1
    | cons w2 ws2' => exact ⟨w2, ws2', rfl⟩
  have hbuf' : BufIs buf0 rb' (m ++ (w1 :: ws1') ++ t ++ ((w2 :: ws2') ++ v ++ eol)) := by rw [← hrbq]; exact hbuf.right
  obtain ⟨s, r1, at1⟩ := head_blk F hB buf0 rb' els.length m t _ w1 ws1' (hws1.2 w1 (by simp))
    (fun w' h' => hws1.2 w' (by simp [h'])) hrb' hm0 ht0 hm ht hbuf'
  have hrest : BufIs buf0 (rb' + (m.length + (ws1'.length + 1) + t.length)) ((w2 :: ws2') ++ v ++ eol) := by
    intro i hi'
    have := hbuf'.right i hi'
    rw [← this]; congr 1; simp; omega
  have hbm : BufIs buf0 rb' m := hbuf'.left.left.left
  have hbt : BufIs buf0 (rb' + (m.length + (ws1'.length + 1))) t := by
    have := hbuf'.left.right; simpa [Nat.add_assoc] using this
  have hbv : BufIs buf0 (rb' + (m.length + (ws1'.length + 1) + t.length + (ws2'.length + 1))) v := by
    have := hrest.left.right
    intro i hi'
    have h2 := this i hi'
    rw [← h2]; congr 1; simp; omega
  have he : BufIs buf0 (rb' + (m.length + (ws1'.length + 1) + t.length + (ws2'.length + 1) + 8)) eol := by
    have := hrest.right
    intro i hi'
    have h2 := this i hi'
    rw [← h2]; congr 1; simp [hvl]; omega
  obtain ⟨chr, htb, hlen⟩ : ∃ chr, TailBytesBlk F buf0 rb' (m.length + (ws1'.length + 1) + t.length) v w2 ws2' chr ∧
      eolLen chr = eol.length := by
    rcases heol with h | ⟨h, hL⟩
    · subst h
      refine ⟨cCR, ⟨hrest.left.left, hws2.2 w2 (by simp), fun w' h' => hws2.2 w' (by simp [h']), hbv, ?_,
        Or.inl ⟨rfl, ?_⟩, hvl, hvc⟩, rfl⟩
      · have := he 0 (by simp); simpa using this
      · have := he 1 (by simp)
        rw [show rb' + (m.length + (ws1'.length + 1) + t.length + (ws2'.length + 1) + 9)
          = rb' + (m.length + (ws1'.length + 1) + t.length + (ws2'.length + 1) + 8) + 1 by omega]
        simpa using this
    · subst h
      refine ⟨cLF, ⟨hrest.left.left, hws2.2 w2 (by simp), fun w' h' => hws2.2 w' (by simp [h']), hbv, ?_,
        Or.inr ⟨rfl, hL⟩, hvl, hvc⟩, rfl⟩
      have := he 0 (by simp); simpa using this
  have hsz : rb' + (m.length + (ws1'.length + 1) + t.length + (ws2'.length + 1) + 8) < buf0.size := by
    have := htb.eol
    by_cases hlt : rb' + (m.length + (ws1'.length + 1) + t.length + (ws2'.length + 1) + 8) < buf0.size
    · exact hlt
    · rw [Array.getElem?_eq_none (by omega)] at this; cases this
  rw [← hlen]
  obtain ⟨r, r2, ok⟩ := tail_blk F hB hU s buf0 rb' m.length (ws1'.length + 1) t.length m t v w2 ws2' chr hv els.length
    (by omega) at1 htb hpv
  exact ⟨r, r0.trans (r1.trans r2), ok.toBlk rfl rfl hvl (by omega) (by omega) hbm hbt hbv hsz⟩

/-! ### non-vacuity -/

/-- levels ≤ -1 are in the regime of the theorem; `HT` is a delimiter there, `VT`/`FF` only at -3 -/
example : (RLFlags.ofLevel (-1)).wspBlocks = true ∧ (RLFlags.ofLevel (-1)).wspInUri = true ∧
    (RLFlags.ofLevel (-3)).wspBlocks = true ∧ (RLFlags.ofLevel (-3)).wspInUri = true ∧
    (RLFlags.ofLevel 0).wspBlocks = false ∧
    rlIsWsp (RLFlags.ofLevel (-1)) cHT = true ∧ rlIsWsp (RLFlags.ofLevel (-3)) cVT = true := by decide

/-- `GET SP SP HT /a?x SP HT SP HTTP/1.1 CR LF` at level -1: the hypotheses of
    `reqline_roundtrip_blk` hold -/
example : ∃ r, (rlScanner (RLFlags.ofLevel (-1))).run
      (RL.init #[71, 69, 84, 32, 32, 9, 47, 97, 63, 120, 32, 9, 32, 72, 84, 84, 80, 47, 49, 46, 49, 13, 10] 0) = .done (.ok r) ∧
    r.method = 0 ∧ r.tgt = 6 ∧ r.tgtLen = 4 ∧ r.qmark = some 8 ∧ r.version = 13 ∧ r.rb = 23 ∧ r.skipped = 0 ∧
    r.numWs = 0 ∧ r.httpVer = Http.ver11 := by
  obtain ⟨r, h, ok⟩ := reqline_roundtrip_blk (RLFlags.ofLevel (-1)) rfl rfl
    #[71, 69, 84, 32, 32, 9, 47, 97, 63, 120, 32, 9, 32, 72, 84, 84, 80, 47, 49, 46, 49, 13, 10] 0
    [] [71, 69, 84] [47, 97, 63, 120] [72, 84, 84, 80, 47, 49, 46, 49] [13, 10] [32, 32, 9] [32, 9, 32] Http.ver11
    (by decide) (by decide) (by decide) (by decide) (by decide) (by decide) (by decide) (by decide)
    (by intro c hc; simp at hc; rcases hc with rfl | rfl | rfl <;> (unfold rplain; decide))
    (by intro c hc; simp at hc; rcases hc with rfl | rfl | rfl | rfl <;> (unfold rplain; decide))
    rfl
    (by intro c hc; simp at hc; rcases hc with rfl | rfl | rfl | rfl | rfl | rfl | rfl <;> (unfold rplain; decide))
    rfl
    (BufIs.ofList _ [])
  refine ⟨r, h, ok.method, ok.tgt, ok.tgtLen, ?_, ok.version, ok.rb, ok.skipped, ok.numWs, ok.httpVer⟩
  rw [ok.qmark, ok.tgt]; rfl

/-- the line "GET  \t/a?x \t HTTP/1.1\r\n" evaluated by the kernel at level -1 (`decide +kernel`: a
    test of the model on this input, not a proof step of any theorem): blocks of three
    separator bytes each; the NULs are written at the first byte of each block and at the CR -/
example :
    (match (rlScanner (RLFlags.ofLevel (-1))).run
        (RL.init #[71, 69, 84, 32, 32, 9, 47, 97, 63, 120, 32, 9, 32, 72, 84, 84, 80, 47, 49, 46, 49, 13, 10] 0) with
     | .done (.ok r) =>
        (r.method, r.methodLen, r.tgt, r.tgtLen, r.qmark, r.version) == (0, 3, 6, 4, some 8, 13) &&
        (r.rb, r.skipped, r.numWs, r.httpVer) == (23, 0, 0, Http.ver11) &&
        r.buf.toList == [71, 69, 84, 0, 32, 9, 47, 97, 63, 120, 0, 9, 32, 72, 84, 84, 80, 47, 49, 46, 49, 0, 10]
     | _ => false) = true := by decide +kernel

/-- one empty line in front, blocks `HT VT` and `FF SP`, bare `LF` line end, at level -3 -/
example :
    (match (rlScanner (RLFlags.ofLevel (-3))).run
        (RL.init #[13, 10, 71, 69, 84, 9, 11, 47, 97, 12, 32, 72, 84, 84, 80, 47, 49, 46, 48, 10, 72] 0) with
     | .done (.ok r) =>
        (r.method, r.methodLen, r.tgt, r.tgtLen, r.qmark, r.version) == (2, 3, 7, 2, none, 11) &&
        (r.rb, r.skipped, r.numWs, r.httpVer) == (20, 1, 0, Http.ver10)
     | _ => false) = true := by decide +kernel

end RLP
end Mhd.Req
