/-
  C17 proofs: number parsing — `MHD_str_to_uint64_`, `MHD_str_to_uint64_n_`,
  `MHD_strx_to_uint32_`, `…32_n_`, `MHD_strx_to_uint64_`, `…64_n_`.

  Each equals "take the maximal run of digits; fail (0) iff the run is empty or
  its value exceeds the type's maximum; otherwise (length of the run, value)".
  The accumulation never wraps.
-/
import Mhd.Proofs.StrBase

namespace Mhd.Str

/-! ### reference -/

/-- value of a digit string in base `b`, digit values given by `f` -/
def valB (b : Nat) (f : UInt8 → Nat) (ds : Bytes) : Nat := ds.foldl (fun a d => a * b + f d) 0

def decDigitVal (d : UInt8) : Nat := d.toNat - 0x30
def hexDigitVal (d : UInt8) : Nat := (xval d).getD 0

def decVal : Bytes → Nat := valB 10 decDigitVal
def hexVal : Bytes → Nat := valB 16 hexDigitVal

def isXDigit (c : UInt8) : Bool := (xval c).isSome

def digitRun (s : Bytes) : Bytes := s.takeWhile isDigit
def xdigitRun (s : Bytes) : Bytes := s.takeWhile isXDigit

/-- result of every parsing function: `(characters consumed, value)`, `(0, 0)` on failure -/
def parseResult (run : Bytes) (v max : Nat) : Nat × Nat :=
  if run = [] ∨ v > max then (0, 0) else (run.length, v)

def parseDec (s : Bytes) : Nat × Nat := parseResult (digitRun s) (decVal (digitRun s)) u64Max
def parseHex (max : Nat) (s : Bytes) : Nat × Nat := parseResult (xdigitRun s) (hexVal (xdigitRun s)) max

theorem foldl_ge (b : Nat) (f : UInt8 → Nat) (hb : 1 ≤ b) (es : Bytes) (acc : Nat) :
    acc ≤ es.foldl (fun a d => a * b + f d) acc := by
  induction es generalizing acc with
  | nil => simp
  | cons e t ih =>
    simp only [List.foldl_cons]
    have h1 : acc ≤ acc * b + f e := by
      have : acc * 1 ≤ acc * b := Nat.mul_le_mul_left _ hb
      omega
    exact Nat.le_trans h1 (ih _)

theorem valB_snoc (b f) (ds : Bytes) (d : UInt8) : valB b f (ds ++ [d]) = valB b f ds * b + f d := by
  simp [valB, List.foldl_append]

theorem valB_append_ge (b f) (hb : 1 ≤ b) (ds es : Bytes) : valB b f ds ≤ valB b f (ds ++ es) := by
  simp only [valB, List.foldl_append]
  exact foldl_ge b f hb es _

theorem takeWhile_cons_pos (p : UInt8 → Bool) (c : UInt8) (t : Bytes) (h : p c = true) :
    (c :: t).takeWhile p = c :: t.takeWhile p := by simp [List.takeWhile, h]

theorem takeWhile_cons_neg (p : UInt8 → Bool) (c : UInt8) (t : Bytes) (h : p c = false) :
    (c :: t).takeWhile p = [] := by simp [List.takeWhile, h]

theorem take_succ_eq (s : Bytes) (i : Nat) (h : i < s.length) : s.take (i + 1) = s.take i ++ [s[i]] := by
  rw [List.take_add_one]; simp [List.getElem?_eq_getElem h]

theorem isDigit_val (c : UInt8) (h : isDigit c = true) : decDigitVal c ≤ 9 := by
  simp only [isDigit, Bool.and_eq_true, decide_eq_true_eq] at h
  have h1 : c.toNat ≤ 0x39 := by simpa [UInt8.le_iff_toNat_le] using h.2
  simp [decDigitVal]; omega

/-- generic invariant of all parsing loops: the first `i` characters are digits
    (so the run is them plus the run of the rest) and `res` is their value -/
def ParseInv (p : UInt8 → Bool) (b : Nat) (f : UInt8 → Nat) (max : Nat) (s : Bytes) (st : NumSt) : Prop :=
  st.i ≤ s.length ∧ s.takeWhile p = s.take st.i ++ (s.drop st.i).takeWhile p ∧
  st.res = valB b f (s.take st.i) ∧ st.res ≤ max

theorem parse_overflow (p b f max s) (hb : 1 ≤ b) (st : NumSt) (hi : ParseInv p b f max s st)
    (hlt : st.i < s.length) (hp : p s[st.i] = true) (hov : st.res * b + f s[st.i] > max) :
    parseResult (s.takeWhile p) (valB b f (s.takeWhile p)) max = (0, 0) := by
  obtain ⟨_, hrun, hres, _⟩ := hi
  have hdrop : s.drop st.i = s[st.i] :: s.drop (st.i + 1) := List.drop_eq_getElem_cons hlt
  have : s.takeWhile p = (s.take st.i ++ [s[st.i]]) ++ (s.drop (st.i + 1)).takeWhile p := by
    rw [hrun, hdrop, takeWhile_cons_pos _ _ _ hp, List.append_assoc]; rfl
  have hge := valB_append_ge b f hb (s.take st.i ++ [s[st.i]]) ((s.drop (st.i + 1)).takeWhile p)
  rw [← this, valB_snoc, ← hres] at hge
  unfold parseResult
  have : valB b f (s.takeWhile p) > max := by omega
  simp [this]

theorem parse_advance (p b f max s) (st : NumSt) (hi : ParseInv p b f max s st)
    (hlt : st.i < s.length) (hp : p s[st.i] = true) (hov : st.res * b + f s[st.i] ≤ max) :
    ParseInv p b f max s ⟨st.i + 1, st.res * b + f s[st.i]⟩ := by
  obtain ⟨_, hrun, hres, _⟩ := hi
  have hdrop : s.drop st.i = s[st.i] :: s.drop (st.i + 1) := List.drop_eq_getElem_cons hlt
  refine ⟨by simp; omega, ?_, ?_, hov⟩
  · simp only []; rw [hrun, hdrop, takeWhile_cons_pos _ _ _ hp, take_succ_eq _ _ hlt, List.append_assoc]; rfl
  · simp only []; rw [take_succ_eq _ _ hlt, valB_snoc, ← hres]

theorem parse_stop (p b f max s) (st : NumSt) (hi : ParseInv p b f max s st)
    (hstop : (s.drop st.i).takeWhile p = []) :
    parseResult (s.takeWhile p) (valB b f (s.takeWhile p)) max = if st.i = 0 then (0, 0) else (st.i, st.res) := by
  obtain ⟨hle, hrun, hres, hmax⟩ := hi
  rw [hstop, List.append_nil] at hrun
  rw [hrun, ← hres]
  unfold parseResult
  have hl : (s.take st.i).length = st.i := by simp; omega
  by_cases h0 : st.i = 0
  · simp [h0]
  · have hne : s.take st.i ≠ [] := by
      intro h; rw [h] at hl; simp at hl; omega
    have : ¬ st.res > max := by omega
    simp [h0, hne, this, hl]

/-! ### MHD_str_to_uint64_n_ -/

theorem dec_guard (res digit : Nat) (hd : digit ≤ 9) :
    (res > u64Max / 10 ∨ (res = u64Max / 10 ∧ digit > u64Max % 10)) ↔ res * 10 + digit > u64Max := by
  simp only [u64Max, Mhd.Gen.Str.uint64Max]; omega

theorem strToUint64N_step (s : Bytes) (st : NumSt) (hi : ParseInv isDigit 10 decDigitVal u64Max s st)
    (hlt : st.i < s.length) (hp : isDigit s[st.i] = true) :
    (∃ s', strToUint64NStep s st = .ok (.inl s') ∧
      (ParseInv isDigit 10 decDigitVal u64Max s s' ∧ s'.i < s.length ∧ isDigit s[s'.i]! = true ∧ s'.i = st.i + 1)) ∨
    (∃ r, strToUint64NStep s st = .ok (.inr r) ∧ r = parseDec s) := by
  unfold strToUint64NStep
  have hd := isDigit_val _ hp
  have hdv : s[st.i].toNat - 0x30 = decDigitVal s[st.i] := rfl
  simp only [rd_lt hlt, bind_ok', hdv]
  by_cases hov : st.res * 10 + decDigitVal s[st.i] > u64Max
  · right
    have := (dec_guard st.res _ hd).mpr hov
    simp only [this, if_true, pure_eq_ok]
    exact ⟨_, rfl, (parse_overflow isDigit 10 decDigitVal u64Max s (by omega) st hi hlt hp hov).symm⟩
  · have hng : ¬ (st.res > u64Max / 10 ∨ (st.res = u64Max / 10 ∧ decDigitVal s[st.i] > u64Max % 10)) :=
      fun h => hov ((dec_guard st.res _ hd).mp h)
    have hmod : (st.res * 10 + decDigitVal s[st.i]) % (u64Max + 1) = st.res * 10 + decDigitVal s[st.i] :=
      Nat.mod_eq_of_lt (by omega)
    simp only [hng, if_false, hmod]
    have hadv := parse_advance isDigit 10 decDigitVal u64Max s st hi hlt hp (by omega)
    have hfin : (s.drop (st.i + 1)).takeWhile isDigit = [] →
        ((st.i + 1, st.res * 10 + decDigitVal s[st.i]) : Nat × Nat) = parseDec s := by
      intro hstop
      have := parse_stop isDigit 10 decDigitVal u64Max s _ hadv hstop
      simp only [Nat.add_one_ne_zero, if_false] at this
      exact this.symm
    by_cases h1 : st.i + 1 < s.length
    · simp only [h1, if_true, rd_lt h1, bind_ok']
      by_cases hp1 : isDigit s[st.i + 1] = true
      · left
        simp only [hp1, if_true, pure_eq_ok]
        refine ⟨_, rfl, hadv, h1, ?_, rfl⟩
        simp only []; rw [getElem!_pos s (st.i + 1) h1]; exact hp1
      · right
        simp only [hp1, if_false, pure_eq_ok, Bool.false_eq_true]
        refine ⟨_, rfl, hfin ?_⟩
        rw [List.drop_eq_getElem_cons h1]
        exact takeWhile_cons_neg _ _ _ (by simpa using hp1)
    · right
      simp only [h1, if_false, pure_eq_ok]
      refine ⟨_, rfl, hfin ?_⟩
      rw [List.drop_eq_nil_of_le (by omega)]; rfl

def DecLoopInv (s : Bytes) (st : NumSt) : Prop :=
  ParseInv isDigit 10 decDigitVal u64Max s st ∧ st.i < s.length ∧ isDigit s[st.i]! = true

theorem parseDec_first_nondigit (s : Bytes) (h : s = [] ∨ ∃ h0 : 0 < s.length, isDigit s[0] = false) :
    parseDec s = (0, 0) := by
  have : digitRun s = [] := by
    rcases h with h | ⟨h0, h⟩
    · subst h; rfl
    · unfold digitRun
      rw [← List.drop_zero (l := s), List.drop_eq_getElem_cons h0]
      exact takeWhile_cons_neg _ _ _ h
  simp [parseDec, this, parseResult]

theorem parseInv_init (p b f max) (s : Bytes) : ParseInv p b f max s ⟨0, 0⟩ := by
  refine ⟨by simp, by simp, by simp [valB], by simp⟩

/-- `MHD_str_to_uint64_n_ (s, len)` = the reference decimal parser: never reads
    beyond `len`, detects overflow exactly, the accumulation never wraps. -/
theorem strToUint64N_spec (s : Bytes) : strToUint64N s = .ok (parseDec s) := by
  unfold strToUint64N
  by_cases h0 : s.length = 0
  · have : s = [] := List.eq_nil_of_length_eq_zero h0
    simp only [h0, if_true, pure_eq_ok, parseDec_first_nondigit s (Or.inl this)]
  · have hpos : 0 < s.length := by omega
    simp only [h0, if_false, rd_lt hpos, bind_ok']
    by_cases hd : isDigit s[0] = true
    · simp only [hd, Bool.not_true, Bool.false_eq_true, if_false]
      obtain ⟨r, hr, hp⟩ := iter_spec (strToUint64NStep s) (DecLoopInv s) (fun st => s.length - st.i) (fun r => r = parseDec s)
        (by
          intro st ⟨hinv, hlt, hdig⟩
          rw [getElem!_pos s st.i hlt] at hdig
          rcases strToUint64N_step s st hinv hlt hdig with ⟨s', hs, hi', hl', hd', hii⟩ | ⟨r, hs, hp⟩
          · exact Or.inl ⟨s', hs, ⟨hi', hl', hd'⟩, by omega⟩
          · exact Or.inr ⟨r, hs, hp⟩)
        (s.length + 1) ⟨0, 0⟩ ⟨parseInv_init _ _ _ _ s, hpos, by rw [getElem!_pos s 0 hpos]; exact hd⟩ (by simp)
      rw [hr, hp]
    · simp only [hd, Bool.not_false, if_true, pure_eq_ok]
      rw [parseDec_first_nondigit s (Or.inr ⟨hpos, by simpa using hd⟩)]

/-! ### MHD_str_to_uint64_ (z-terminated) -/

theorem isDigit_zero : isDigit 0 = false := by decide

theorem mem_drop_succ_of_digit (s : Bytes) (i : Nat) (hlt : i < s.length) (hz : 0 ∈ s.drop i)
    (hd : isDigit s[i] = true) : 0 ∈ s.drop (i + 1) ∧ i + 1 < s.length := by
  rw [List.drop_eq_getElem_cons hlt] at hz
  have hne : (0 : UInt8) ≠ s[i] := by
    intro h; rw [← h, isDigit_zero] at hd; exact absurd hd (by simp)
  have hm : 0 ∈ s.drop (i + 1) := by
    rcases List.mem_cons.mp hz with h | h
    · exact absurd h hne
    · exact h
  refine ⟨hm, ?_⟩
  by_cases h : i + 1 < s.length
  · exact h
  · rw [List.drop_eq_nil_of_le (by omega)] at hm; simp at hm

theorem strToUint64Step_eq (s : Bytes) (st : NumSt) (h1 : st.i + 1 < s.length) :
    strToUint64Step s st = strToUint64NStep s st := by
  unfold strToUint64Step strToUint64NStep
  simp only [h1, if_true]

/-- `MHD_str_to_uint64_ (s)` on a buffer containing a NUL = the same reference
    parser (the run of digits ends at the latest at the NUL); never reads past it. -/
theorem strToUint64_spec (s : Bytes) (hz : 0 ∈ s) : strToUint64 s = .ok (parseDec s) := by
  unfold strToUint64
  have hpos : 0 < s.length := List.length_pos_of_mem hz
  simp only [rd_lt hpos, bind_ok']
  by_cases hd : isDigit s[0] = true
  · simp only [hd, Bool.not_true, Bool.false_eq_true, if_false]
    obtain ⟨r, hr, hp⟩ := iter_spec (strToUint64Step s) (fun st => DecLoopInv s st ∧ 0 ∈ s.drop st.i)
      (fun st => s.length - st.i) (fun r => r = parseDec s)
      (by
        intro st ⟨⟨hinv, hlt, hdig⟩, hz'⟩
        rw [getElem!_pos s st.i hlt] at hdig
        obtain ⟨hz1, h1⟩ := mem_drop_succ_of_digit s st.i hlt hz' hdig
        rw [strToUint64Step_eq s st h1]
        rcases strToUint64N_step s st hinv hlt hdig with ⟨s', hs, hi', hl', hd', hii⟩ | ⟨r, hs, hp⟩
        · exact Or.inl ⟨s', hs, ⟨⟨hi', hl', hd'⟩, by rw [hii]; exact hz1⟩, by omega⟩
        · exact Or.inr ⟨r, hs, hp⟩)
      (s.length + 1) ⟨0, 0⟩ ⟨⟨parseInv_init _ _ _ _ s, hpos, by rw [getElem!_pos s 0 hpos]; exact hd⟩, by simpa using hz⟩ (by simp)
    rw [hr, hp]
  · simp only [hd, Bool.not_false, if_true, pure_eq_ok]
    rw [parseDec_first_nondigit s (Or.inr ⟨hpos, by simpa using hd⟩)]

/-! ### MHD_strx_to_uint32_n_ / MHD_strx_to_uint64_n_ -/

theorem hex_guard_n (max res d : Nat) (hd : d < 16) :
    (res > max / 16 ∨ (res = max / 16 ∧ d > max % 16)) ↔ res * 16 + d > max := by omega

theorem hex_guard_z (max res d : Nat) (hd : d < 16) :
    (res < max / 16 ∨ (res = max / 16 ∧ d ≤ max % 16)) ↔ res * 16 + d ≤ max := by omega

theorem isXDigit_of_xval {c : UInt8} {v : Nat} (h : xval c = some v) : isXDigit c = true ∧ hexDigitVal c = v := by
  simp [isXDigit, hexDigitVal, h]

theorem strxToUintN_step (max : Nat) (s : Bytes) (st : NumSt) (hi : ParseInv isXDigit 16 hexDigitVal max s st) :
    (∃ s', strxToUintNStep max s st = .ok (.inl s') ∧ ParseInv isXDigit 16 hexDigitVal max s s' ∧ s'.i = st.i + 1 ∧ st.i < s.length) ∨
    (∃ r, strxToUintNStep max s st = .ok (.inr r) ∧ r = parseHex max s) := by
  unfold strxToUintNStep
  have hstopres : (s.drop st.i).takeWhile isXDigit = [] → ((st.i, st.res) : Nat × Nat) = parseHex max s := by
    intro hstop
    have := parse_stop isXDigit 16 hexDigitVal max s st hi hstop
    show (st.i, st.res) = parseResult (s.takeWhile isXDigit) (valB 16 hexDigitVal (s.takeWhile isXDigit)) max
    rw [this]
    by_cases h0 : st.i = 0
    · have hr : st.res = 0 := by rw [hi.2.2.1, h0]; simp [valB]
      rw [if_pos h0, h0, hr]
    · rw [if_neg h0]
  by_cases hlt : st.i < s.length
  · simp only [hlt, if_true, rd_lt hlt, bind_ok']
    rcases toxdigit_cases s[st.i] with ⟨v, hx, hv, ht⟩ | ⟨hx, ht⟩
    · obtain ⟨hp, hdv⟩ := isXDigit_of_xval hx
      have hge : ((v : Int) ≥ 0) := by omega
      simp only [ht, hge, if_true, Int.toNat_natCast]
      by_cases hov : st.res * 16 + v > max
      · right
        simp only [(hex_guard_n max st.res v hv).mpr hov, if_true, pure_eq_ok]
        exact ⟨_, rfl, (parse_overflow isXDigit 16 hexDigitVal max s (by omega) st hi hlt hp (by rw [hdv]; exact hov)).symm⟩
      · left
        have hng : ¬ (st.res > max / 16 ∨ (st.res = max / 16 ∧ v > max % 16)) :=
          fun h => hov ((hex_guard_n max st.res v hv).mp h)
        have hmod : (st.res * 16 + v) % (max + 1) = st.res * 16 + v := Nat.mod_eq_of_lt (by omega)
        simp only [hng, if_false, pure_eq_ok, hmod]
        have := parse_advance isXDigit 16 hexDigitVal max s st hi hlt hp (by rw [hdv]; omega)
        rw [hdv] at this
        exact ⟨_, rfl, this, rfl, trivial⟩
    · right
      have hng : ¬ ((-1 : Int) ≥ 0) := by omega
      simp only [ht, hng, if_false, pure_eq_ok]
      refine ⟨_, rfl, hstopres ?_⟩
      rw [List.drop_eq_getElem_cons hlt]
      exact takeWhile_cons_neg _ _ _ (by simp [isXDigit, hx])
  · right
    simp only [hlt, if_false, pure_eq_ok]
    refine ⟨_, rfl, hstopres ?_⟩
    rw [List.drop_eq_nil_of_le (by omega)]; rfl

/-- `MHD_strx_to_uint32_n_` / `MHD_strx_to_uint64_n_` = the reference hexadecimal parser -/
theorem strxToUintN_spec (max : Nat) (s : Bytes) : strxToUintN max s = .ok (parseHex max s) := by
  unfold strxToUintN
  obtain ⟨r, hr, hp⟩ := iter_spec (strxToUintNStep max s) (ParseInv isXDigit 16 hexDigitVal max s)
    (fun st => s.length - st.i) (fun r => r = parseHex max s)
    (by
      intro st hi
      rcases strxToUintN_step max s st hi with ⟨s', hs, hi', hii, hlt⟩ | ⟨r, hs, hp⟩
      · exact Or.inl ⟨s', hs, hi', by omega⟩
      · exact Or.inr ⟨r, hs, hp⟩)
    (s.length + 1) ⟨0, 0⟩ (parseInv_init _ _ _ _ s) (by simp)
  rw [hr, hp]

/-! ### MHD_strx_to_uint32_ / MHD_strx_to_uint64_ (z-terminated) -/

theorem strxToUintStep_eq (max : Nat) (s : Bytes) (st : NumSt) (hlt : st.i < s.length)
    (hres : st.res ≤ max) : strxToUintStep max s st = strxToUintNStep max s st := by
  unfold strxToUintStep strxToUintNStep
  simp only [hlt, if_true, rd_lt hlt, bind_ok']
  rcases toxdigit_cases s[st.i] with ⟨v, hx, hv, ht⟩ | ⟨hx, ht⟩
  · have hge : ((v : Int) ≥ 0) := by omega
    simp only [ht, hge, if_true, Int.toNat_natCast]
    by_cases hov : st.res * 16 + v ≤ max
    · have h1 := (hex_guard_z max st.res v hv).mpr hov
      have h2 : ¬ (st.res > max / 16 ∨ (st.res = max / 16 ∧ v > max % 16)) :=
        fun h => absurd ((hex_guard_n max st.res v hv).mp h) (by omega)
      simp only [h1, h2, if_true, if_false]
    · have h1 : ¬ (st.res < max / 16 ∨ (st.res = max / 16 ∧ v ≤ max % 16)) :=
        fun h => hov ((hex_guard_z max st.res v hv).mp h)
      have h2 := (hex_guard_n max st.res v hv).mpr (by omega)
      simp only [h1, h2, if_true, if_false]
  · have hng : ¬ ((-1 : Int) ≥ 0) := by omega
    simp only [ht, hng, if_false]

theorem xval_zero : xval 0 = none := by decide

/-- `MHD_strx_to_uint32_` / `MHD_strx_to_uint64_` on a buffer containing a NUL -/
theorem strxToUint_spec (max : Nat) (s : Bytes) (hz : 0 ∈ s) : strxToUint max s = .ok (parseHex max s) := by
  unfold strxToUint
  obtain ⟨r, hr, hp⟩ := iter_spec (strxToUintStep max s) (fun st => ParseInv isXDigit 16 hexDigitVal max s st ∧ 0 ∈ s.drop st.i)
    (fun st => s.length - st.i) (fun r => r = parseHex max s)
    (by
      intro st ⟨hi, hz'⟩
      have hlt : st.i < s.length := by
        by_cases h : st.i < s.length
        · exact h
        · rw [List.drop_eq_nil_of_le (by omega)] at hz'; simp at hz'
      rw [strxToUintStep_eq max s st hlt hi.2.2.2]
      rcases strxToUintN_step max s st hi with ⟨s', hs, hi', hii, _⟩ | ⟨r, hs, hp⟩
      · refine Or.inl ⟨s', hs, ⟨hi', ?_⟩, by omega⟩
        -- the character just consumed is a hex digit, hence not the NUL
        rw [hii]
        rw [List.drop_eq_getElem_cons hlt] at hz'
        rcases List.mem_cons.mp hz' with h | h
        · exfalso
          -- s[st.i] = 0 would have stopped the loop
          unfold strxToUintNStep at hs
          simp only [hlt, if_true, rd_lt hlt, bind_ok'] at hs
          rcases toxdigit_cases s[st.i] with ⟨v, hx, hv, ht⟩ | ⟨hx, ht⟩
          · rw [← h, xval_zero] at hx; simp at hx
          · have hng : ¬ ((-1 : Int) ≥ 0) := by omega
            simp only [ht, hng, if_false, pure_eq_ok] at hs
            injection hs with hs; simp at hs
        · exact h
      · exact Or.inr ⟨r, hs, hp⟩)
    (s.length + 1) ⟨0, 0⟩ ⟨parseInv_init _ _ _ _ s, by simpa using hz⟩ (by simp)
  rw [hr, hp]

end Mhd.Str
