/-
  The ghost field `back` of the model is the distance of the clock from the highest value it has shown
  so far: clock reading and displacement after a history are a function of the clock operations of the
  history alone (no other operation touches them), and `now + back` is the running maximum of `now`.
-/
import Mhd.Proofs.TmoCompleteSel
namespace Mhd.Tmo
open Mhd.Gen.Tmo

/-- effect of one script operation on (clock reading, displacement from the high-water mark);
    a backward step beyond 0 is not legal and skipped, as in `step` -/
def clockStep (p : Nat × Nat) : Op → Nat × Nat
  | .tick ms => (p.1 + ms, p.2 - ms)
  | .tickback ms => if ms ≤ p.1 then (p.1 - ms, p.2 + ms) else p
  | _ => p

/-- `now + back` is the running maximum of the clock -/
theorem clockStep_highWater (p : Nat × Nat) (o : Op) :
    (clockStep p o).1 + (clockStep p o).2 = max (p.1 + p.2) (clockStep p o).1 := by
  cases o <;> simp only [clockStep]
  case tickback ms => split <;> omega
  all_goals omega

theorem clientData_clock (d : Daemon) (i : Id) (k : Kind) (n : Nat) :
    (clientData d i k n).now = d.now ∧ (clientData d i k n).back = d.back := by
  unfold clientData
  dsimp only
  repeat' split
  all_goals exact ⟨rfl, rfl⟩

theorem clientClose_clock (d : Daemon) (i : Id) :
    (clientClose d i).now = d.now ∧ (clientClose d i).back = d.back := by
  unfold clientClose
  dsimp only
  repeat' split
  all_goals exact ⟨rfl, rfl⟩

theorem round_clock (v : Variant) (d : Daemon) : (round v d).1.now = d.now ∧ (round v d).1.back = d.back := by
  unfold round
  split
  · have := (sound_roundEpoll v d).1; exact ⟨this.1, this.2.1⟩
  · have := (sound_roundSelect v d).1; exact ⟨this.1, this.2.1⟩

theorem step_clock (v : Variant) (d : Daemon) (o : Op) (r : Daemon × List Event) (hr : step v d o = some r) :
    (r.1.now, r.1.back) = clockStep (d.now, d.back) o := by
  cases o with
  | arrive i => simp only [step] at hr; split at hr <;> cases hr; rfl
  | send i =>
    simp only [step] at hr; split at hr <;> cases hr
    have := clientData_clock d i Kind.post 1; simp only [clockStep]; rw [this.1, this.2]
  | sendn i k =>
    simp only [step] at hr; split at hr <;> cases hr
    have := clientData_clock d i Kind.post k; simp only [clockStep]; rw [this.1, this.2]
  | slow i => simp only [step] at hr; split at hr <;> cases hr; rfl
  | sendp i =>
    simp only [step] at hr; split at hr <;> cases hr
    have := clientData_clock d i Kind.frag 1; simp only [clockStep]; rw [this.1, this.2]
  | cclose i =>
    simp only [step] at hr; split at hr <;> cases hr
    have := clientClose_clock d i; simp only [clockStep]; rw [this.1, this.2]
  | tick ms => simp only [step] at hr; cases hr; rfl
  | tickback ms =>
    simp only [step] at hr
    split at hr
    · rename_i hc; cases hr; simp only [clockStep, hc, if_true]
    · cases hr
  | setTimeout i s =>
    simp only [step] at hr; split at hr <;> cases hr
    have := (others_setTimeout v d i s).2.2.2.1; simp only [clockStep]; rw [this.1, this.2]
  | susp i => simp only [step] at hr; split at hr <;> cases hr; rfl
  | resume i => simp only [step] at hr; split at hr <;> cases hr; rfl
  | round =>
    simp only [step] at hr; cases hr
    have := round_clock v { d with wset := [], fset := [] }; simp only [clockStep]; rw [this.1, this.2]
  | roundw ws fs =>
    simp only [step] at hr; cases hr
    have := round_clock v { d with wset := ws, fset := fs }; simp only [clockStep]; rw [this.1, this.2]
  | allow i => simp only [step] at hr; split at hr <;> cases hr; rfl
  | get i e =>
    simp only [step] at hr; split at hr <;> cases hr
    have := clientData_clock (d.set i { (d.c i) with limited := true }) i (if e then Kind.expect else Kind.get) 1
    simp only [clockStep]; rw [this.1, this.2]; rfl

/-- an operation that is not legal in the state leaves the clock alone in `clockStep` too -/
theorem step_none_clock (v : Variant) (d : Daemon) (o : Op) (hr : step v d o = none) :
    clockStep (d.now, d.back) o = (d.now, d.back) := by
  cases o with
  | tick ms => simp [step] at hr
  | tickback ms =>
    simp only [step] at hr
    split at hr
    · cases hr
    · rename_i hc; simp only [clockStep, hc, if_false]
  | round => simp [step] at hr
  | roundw ws fs => simp [step] at hr
  | _ => rfl

/-- clock reading and displacement after a history: determined by the clock operations alone -/
theorem run_clock (v : Variant) : ∀ (ops : List Op) (d : Daemon),
    ((run v d ops).now, (run v d ops).back) = ops.foldl clockStep (d.now, d.back)
  | [], d => rfl
  | o :: os, d => by
    unfold run
    rw [List.foldl_cons]
    split
    · rename_i r hr
      rw [run_clock v os r.1, step_clock v d o r hr]
    · rename_i hr
      rw [run_clock v os d, step_none_clock v d o hr]

end Mhd.Tmo
