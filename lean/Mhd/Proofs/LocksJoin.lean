/-
  C18 — proofs about the join loop of thread-per-connection mode (`Mhd.StopJoin`).
-/
import Mhd.Model.LocksJoin

namespace Mhd.StopJoin
open Mhd.Gen.Locks

/-! ## one thread exit -/

theorem exitThread_joined (s : JS) (c : Nat) : (exitThread s c).joined = s.joined := by
  unfold exitThread; split <;> rfl

theorem mem_exitThread_conn (s : JS) (c x : Nat) :
    x ∈ (exitThread s c).conn ↔ x ∈ s.conn ∧ x ≠ c := by
  unfold exitThread
  by_cases h : c ∈ s.conn
  · rw [if_pos h]; simp [List.mem_filter]
  · rw [if_neg h]
    constructor
    · intro hx; exact ⟨hx, fun e => h (e ▸ hx)⟩
    · exact fun hx => hx.1

theorem mem_exitThread_cleanup (s : JS) (c x : Nat) :
    x ∈ (exitThread s c).cleanup ↔ x ∈ s.cleanup ∨ (x = c ∧ c ∈ s.conn) := by
  unfold exitThread
  by_cases h : c ∈ s.conn
  · rw [if_pos h]; simp [h]
  · rw [if_neg h]; simp [h]

theorem exitThread_conn_length (s : JS) (c : Nat) : (exitThread s c).conn.length ≤ s.conn.length := by
  unfold exitThread
  by_cases h : c ∈ s.conn
  · rw [if_pos h]; exact List.length_filter_le _ _
  · rw [if_neg h]; exact Nat.le_refl _

theorem exitThread_conn_length_lt (s : JS) (c : Nat) (h : c ∈ s.conn) :
    (exitThread s c).conn.length < s.conn.length := by
  unfold exitThread
  rw [if_pos h]
  exact List.length_filter_lt_length_iff_exists.mpr ⟨c, h, by simp⟩

/-- well-formed state: the two DLLs are duplicate-free and disjoint; a connection in the `connections`
    list has not been joined; a joined connection is in the cleanup list (its thread has ended) -/
structure WF (s : JS) : Prop where
  connNd : s.conn.Nodup
  cleanNd : s.cleanup.Nodup
  disj : ∀ c ∈ s.conn, c ∉ s.cleanup
  connUnj : ∀ c ∈ s.conn, c ∉ s.joined
  joinedNd : s.joined.Nodup
  joinedClean : ∀ c ∈ s.joined, c ∈ s.cleanup

theorem wf_exitThread {s : JS} (h : WF s) (c : Nat) : WF (exitThread s c) := by
  by_cases hc : c ∈ s.conn
  · have e : exitThread s c = { s with conn := s.conn.filter (· != c), cleanup := s.cleanup ++ [c] } := by
      unfold exitThread; rw [if_pos hc]
    rw [e]
    refine ⟨h.connNd.filter _, ?_, ?_, ?_, h.joinedNd, ?_⟩
    · refine List.nodup_append.mpr ⟨h.cleanNd, by simp, ?_⟩
      intro a ha b hb
      simp only [List.mem_singleton] at hb
      subst hb
      intro e2; subst e2
      exact h.disj _ hc ha
    · intro x hx
      simp only [List.mem_filter, bne_iff_ne, ne_eq] at hx
      simp only [List.mem_append, List.mem_singleton, not_or]
      exact ⟨h.disj x hx.1, hx.2⟩
    · intro x hx
      simp only [List.mem_filter] at hx
      exact h.connUnj x hx.1
    · intro x hx
      simp only [List.mem_append]
      exact Or.inl (h.joinedClean x hx)
  · have e : exitThread s c = s := by unfold exitThread; rw [if_neg hc]
    rw [e]; exact h

/-! ## a window -/

theorem foldl_exit_joined (evs : List Nat) : ∀ s : JS, (evs.foldl exitThread s).joined = s.joined := by
  induction evs with
  | nil => intro s; rfl
  | cons e es ih => intro s; simp only [List.foldl_cons]; rw [ih, exitThread_joined]

theorem wf_foldl_exit (evs : List Nat) : ∀ s : JS, WF s → WF (evs.foldl exitThread s) := by
  induction evs with
  | nil => intro s h; exact h
  | cons e es ih => intro s h; exact ih _ (wf_exitThread h e)

theorem foldl_exit_conn_sub (evs : List Nat) : ∀ (s : JS) (x : Nat), x ∈ (evs.foldl exitThread s).conn → x ∈ s.conn := by
  induction evs with
  | nil => intro s x h; exact h
  | cons e es ih => intro s x h; exact ((mem_exitThread_conn s e x).mp (ih _ x h)).1

theorem foldl_exit_conn_length (evs : List Nat) : ∀ s : JS, (evs.foldl exitThread s).conn.length ≤ s.conn.length := by
  induction evs with
  | nil => intro s; exact Nat.le_refl _
  | cons e es ih => intro s; exact Nat.le_trans (ih _) (exitThread_conn_length s e)

/-- nothing gets lost: a connection is always in one of the two lists -/
theorem foldl_exit_union (evs : List Nat) : ∀ (s : JS) (x : Nat),
    (x ∈ (evs.foldl exitThread s).conn ∨ x ∈ (evs.foldl exitThread s).cleanup) ↔ (x ∈ s.conn ∨ x ∈ s.cleanup) := by
  induction evs with
  | nil => intro s x; exact Iff.rfl
  | cons e es ih =>
    intro s x
    simp only [List.foldl_cons]
    rw [ih, mem_exitThread_conn, mem_exitThread_cleanup]
    constructor
    · rintro (⟨h, _⟩ | h | ⟨rfl, h⟩)
      · exact Or.inl h
      · exact Or.inr h
      · exact Or.inl h
    · rintro (h | h)
      · by_cases hx : x = e
        · subst hx; exact Or.inr (Or.inr ⟨rfl, h⟩)
        · exact Or.inl ⟨h, hx⟩
      · exact Or.inr (Or.inl h)

theorem window_joined (s : JS) (p : Nat) (evs : List Nat) : (window s p evs).joined = s.joined := by
  unfold window; rw [exitThread_joined, foldl_exit_joined]

theorem wf_window {s : JS} (h : WF s) (p : Nat) (evs : List Nat) : WF (window s p evs) :=
  wf_exitThread (wf_foldl_exit evs s h) p

theorem window_conn_sub (s : JS) (p : Nat) (evs : List Nat) (x : Nat) :
    x ∈ (window s p evs).conn → x ∈ s.conn ∧ x ≠ p := by
  unfold window
  intro h
  have := (mem_exitThread_conn _ p x).mp h
  exact ⟨foldl_exit_conn_sub evs s x this.1, this.2⟩

theorem window_union (s : JS) (p : Nat) (evs : List Nat) (x : Nat) :
    (x ∈ (window s p evs).conn ∨ x ∈ (window s p evs).cleanup) ↔ (x ∈ s.conn ∨ x ∈ s.cleanup) := by
  unfold window
  have := foldl_exit_union [p] (evs.foldl exitThread s) x
  simp only [List.foldl_cons, List.foldl_nil] at this
  rw [this, foldl_exit_union]

/-- the joined thread has ended: its connection is in the cleanup list after the window -/
theorem window_p_cleanup (s : JS) (p : Nat) (evs : List Nat) (hp : p ∈ s.conn ∨ p ∈ s.cleanup) :
    p ∈ (window s p evs).cleanup := by
  have h := (window_union s p evs p).mpr hp
  rcases h with h | h
  · exact absurd rfl (window_conn_sub s p evs p h).2
  · exact h

theorem window_conn_length_lt (s : JS) (p : Nat) (evs : List Nat) (hp : p ∈ s.conn) :
    (window s p evs).conn.length < s.conn.length := by
  unfold window
  by_cases h : p ∈ (evs.foldl exitThread s).conn
  · exact Nat.lt_of_lt_of_le (exitThread_conn_length_lt _ p h) (foldl_exit_conn_length evs s)
  · -- p left the list during the fold: the fold removed at least p
    have hle := exitThread_conn_length (evs.foldl exitThread s) p
    have : (evs.foldl exitThread s).conn.length < s.conn.length := by
      clear hle
      induction evs generalizing s with
      | nil => exact absurd hp h
      | cons e es ih =>
        simp only [List.foldl_cons] at h ⊢
        by_cases hpe : p ∈ (exitThread s e).conn
        · exact Nat.lt_of_lt_of_le (ih _ hpe h) (exitThread_conn_length s e)
        · have he : e = p := by
            by_cases hep : p = e
            · exact hep.symm
            · exact absurd ((mem_exitThread_conn s e p).mpr ⟨hp, hep⟩) hpe
          subst he
          exact Nat.lt_of_le_of_lt (foldl_exit_conn_length es _) (exitThread_conn_length_lt s e hp)
    omega

/-! ## the loop with the cursor re-read from the tail -/

/-- **the discipline of the unchanged code joins everybody**, whatever the other threads do meanwhile -/
theorem joinLoop_reread : ∀ (fuel : Nat) (s : JS) (sched : List (List Nat)),
    s.conn.length < fuel → WF s →
    ∃ s', joinLoop .rereadHead fuel s s.conn.head? sched = some s' ∧ s'.conn = [] ∧ WF s' ∧
      (∀ x, x ∈ s'.cleanup ↔ (x ∈ s.conn ∨ x ∈ s.cleanup)) ∧
      (∀ x ∈ s'.joined, x ∈ s.joined ∨ x ∈ s.conn) := by
  intro fuel
  induction fuel with
  | zero => intro s _ h; omega
  | succ n ih =>
    intro s sched hlen hwf
    cases hc : s.conn with
    | nil =>
      refine ⟨s, ?_, hc, hwf, ?_, ?_⟩
      · simp [joinLoop]
      · intro x; simp
      · intro x hx; exact Or.inl hx
    | cons p rest =>
      have hp : p ∈ s.conn := by rw [hc]; exact List.mem_cons_self
      have hpj : p ∉ s.joined := hwf.connUnj p hp
      simp only [List.head?_cons, joinLoop, if_neg hpj]
      -- the state after the window and the flag
      let s2 : JS := { window s p (sched.headD []) with joined := p :: (window s p (sched.headD [])).joined }
      have hw := wf_window hwf p (sched.headD [])
      have hpc : p ∈ (window s p (sched.headD [])).cleanup := window_p_cleanup s p _ (Or.inl hp)
      have hwf2 : WF s2 := by
        refine ⟨hw.connNd, hw.cleanNd, hw.disj, ?_, ?_, ?_⟩
        · intro c hcm
          have := window_conn_sub s p _ c hcm
          simp only [s2, List.mem_cons, not_or]
          refine ⟨this.2, ?_⟩
          rw [window_joined]; exact hwf.connUnj c this.1
        · simp only [s2]
          refine List.nodup_cons.mpr ⟨?_, hw.joinedNd⟩
          rw [window_joined]; exact hpj
        · intro c hcm
          simp only [s2, List.mem_cons] at hcm
          rcases hcm with rfl | hcm
          · exact hpc
          · exact hw.joinedClean c hcm
      have hlen2 : s2.conn.length < n := by
        have := window_conn_length_lt s p (sched.headD []) hp
        simp only [s2]; omega
      obtain ⟨s', hrun, hemp, hwf', hcl, hj⟩ := ih s2 sched.tail hlen2 hwf2
      refine ⟨s', hrun, hemp, hwf', ?_, ?_⟩
      · intro x
        rw [hcl x]
        have := window_union s p (sched.headD []) x
        simp only [s2]
        rw [this, hc]
      · intro x hx
        rcases hj x hx with h | h
        · simp only [s2, List.mem_cons] at h
          rcases h with rfl | h
          · exact Or.inr (hc ▸ hp)
          · rw [window_joined] at h; exact Or.inl h
        · exact Or.inr (hc ▸ (window_conn_sub s p _ x h).1)

theorem count_one_of_nodup {l : List Nat} (hnd : l.Nodup) {x : Nat} (hx : x ∈ l) : l.count x = 1 := by
  induction l with
  | nil => simp at hx
  | cons a t ih =>
    have ⟨hat, hnt⟩ := List.nodup_cons.mp hnd
    by_cases hax : a = x
    · subst hax; rw [List.count_cons_self, List.count_eq_zero_of_not_mem hat]
    · have hxt : x ∈ t := by
        rcases List.mem_cons.mp hx with h | h
        · exact absurd h.symm hax
        · exact h
      rw [List.count_cons_of_ne hax, ih hnt hxt]

/-- a connection is joined exactly once: in the loop (flag set) or by MHD_cleanup_connections() -/
theorem joined_once {s : JS} (h : WF s) (x : Nat) (hx : x ∈ s.cleanup) :
    (s.joined ++ joinedInCleanup s).count x = 1 := by
  rw [List.count_append]
  unfold joinedInCleanup
  by_cases hj : x ∈ s.joined
  · have h1 : s.joined.count x = 1 := count_one_of_nodup h.joinedNd hj
    have h2 : (s.cleanup.filter (fun c => !s.joined.contains c)).count x = 0 := by
      apply List.count_eq_zero_of_not_mem
      simp [List.mem_filter, hj]
    omega
  · have h1 : s.joined.count x = 0 := List.count_eq_zero_of_not_mem hj
    have h2 : (s.cleanup.filter (fun c => !s.joined.contains c)).count x = 1 := by
      apply count_one_of_nodup (h.cleanNd.filter _)
      simp [List.mem_filter, hj, hx]
    omega

/-- **the stop procedure joins every connection thread** when the loop re-reads its position from the
    list tail after every join: for every number of connections and every interleaving of thread
    exits, no panic, the `connections` list ends empty, every connection is in the cleanup list and
    its thread is joined exactly once. -/
theorem closeAll_reread (conns : List Nat) (hnd : conns.Nodup) (sched : List (List Nat)) :
    ∃ s, closeAllTpc .rereadHead conns sched = .ok s ∧ s.conn = [] ∧
      (∀ x, x ∈ s.cleanup ↔ x ∈ conns) ∧
      (∀ x ∈ conns, (s.joined ++ joinedInCleanup s).count x = 1) ∧
      (∀ x ∈ s.joined ++ joinedInCleanup s, x ∈ conns) := by
  have hwf : WF ⟨conns, [], []⟩ :=
    ⟨hnd, List.nodup_nil, fun _ _ h => by simp at h, fun _ _ h => by simp at h, List.nodup_nil, fun _ h => by simp at h⟩
  obtain ⟨s, hrun, hemp, hwf', hcl, hj⟩ :=
    joinLoop_reread (2 * conns.length + 2) ⟨conns, [], []⟩ sched (by simp only []; omega) hwf
  have hcl' : ∀ x, x ∈ s.cleanup ↔ x ∈ conns := by intro x; rw [hcl x]; simp
  refine ⟨s, ?_, hemp, hcl', ?_, ?_⟩
  · unfold closeAllTpc
    simp only [] at hrun
    rw [hrun]
    simp [hemp]
  · intro x hx
    exact joined_once hwf' x ((hcl' x).mpr hx)
  · intro x hx
    rcases List.mem_append.mp hx with h | h
    · rcases hj x h with h | h
      · simp at h
      · exact h
    · unfold joinedInCleanup at h
      exact (hcl' x).mp (List.mem_filter.mp h).1

/-- the rule over the regenerated loops decides the discipline of the join loop -/
theorem cursor_of_rule (loops : List Loop) (h : cursorRuleOk loops = true)
    (hex : (cursorOf loops "close_all_connections" Field.conn_list).isSome = true) :
    joinLoopCursor loops = CursorKind.rereadHead := by
  unfold joinLoopCursor cursorOf at *
  cases hf : loops.find? (fun x => x.1 == "close_all_connections" && x.2.2.2.1 == Field.conn_list) with
  | none => rw [hf] at hex; simp at hex
  | some x =>
    simp only [Option.map_some, Option.getD_some]
    have hm := List.mem_of_find?_eq_some hf
    have hp := List.find?_some hf
    unfold cursorRuleOk at h
    have hx := List.all_eq_true.mp h x hm
    simp only [Bool.and_eq_true, beq_iff_eq] at hp
    simp only [Bool.or_eq_true, Bool.and_eq_true, beq_iff_eq] at hx
    rcases hx with hx | ⟨_, hx⟩
    · exact hx
    · unfold pinnedNodeLoop at hx
      simp only [Bool.and_eq_true, beq_iff_eq] at hx
      rw [hp.2] at hx
      exact absurd hx.2 (by decide)

end Mhd.StopJoin
