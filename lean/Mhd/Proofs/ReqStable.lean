/-
  Stability of the strings handed to the application (C02 clause d).

  Second layer of the header-section invariant (`Inv2`): all strings handed out so far end
  at or before `lastElemEnd` (the position the shift-back block re-uses the buffer from);
  every step only writes at or above `read_buffer` and only appends to the element list
  (`Mono`); the final block leaves every string strictly below the new `read_buffer` and
  copies nothing over them (`finishHeaders_below`).  `run_stable` is the run-level theorem.
-/
import Mhd.Proofs.ReqField
set_option linter.unusedSimpArgs false
namespace Mhd.Req
namespace HSP
open Mhd.Gen

/-- the two strings of an element -/
def Elem.slices (el : Elem) : List Slice := el.key :: el.value.toList

/-- second layer of the invariant: where the strings handed out so far end -/
structure Inv2 (s : HS) : Prop where
  hn0 : s.nameEndFound = false → s.nameLen = 0
  hv0 : s.nameEndFound = false → s.startsWithWs = false → s.valueStart = 0
  hvs2 : s.valueStart ≠ 0 → s.nameLen ≤ s.valueStart
  hLver : s.version + Discipline.httpVerLen ≤ lastElemEnd s
  hmax : ∀ el ∈ s.elems, ∀ sl ∈ Elem.slices el, sl.region = 0 → sl.off + sl.len ≤ lastElemEnd s

theorem Inv2.ext {s : HS} (h : Inv2 s) (e : Bytes) : Inv2 (hsExtend s e) :=
  ⟨h.hn0, h.hv0, h.hvs2, h.hLver, h.hmax⟩

/-- a step that only moves within the line: elements, version untouched -/
theorem Inv2.sameLine {s : HS} (h : Inv2 s) (s' : HS) (he : s'.elems = s.elems) (hv : s'.version = s.version)
    (h1 : s'.nameEndFound = false → s'.nameLen = 0)
    (h2 : s'.nameEndFound = false → s'.startsWithWs = false → s'.valueStart = 0)
    (h3 : s'.valueStart ≠ 0 → s'.nameLen ≤ s'.valueStart) : Inv2 s' := by
  have hl : lastElemEnd s' = lastElemEnd s := by unfold lastElemEnd; rw [he, hv]
  exact ⟨h1, h2, h3, by rw [hl, hv]; exact h.hLver, by rw [hl, he]; exact h.hmax⟩

theorem onFieldWsp_inv2 (F : FLFlags) (s : HS) (h : Inv2 s) :
    ∀ s', onFieldWsp F s = .advance s' → Inv2 s' := by
  intro s' hs
  unfold onFieldWsp at hs
  repeat' split at hs
  all_goals first
    | (cases hs; done)
    | (simp only [HS.err] at hs; cases hs; done)
    | (simp only [Step.advance.injEq] at hs; subst hs
       refine h.sameLine _ rfl rfl h.hn0 ?_ h.hvs2
       first
         | exact h.hv0
         | (intro _ hw; simp at hw))


theorem onFieldChar_inv2 (F : FLFlags) (s : HS) (chr : UInt8) (hi : Inv s) (h : Inv2 s) (hb : s.rb + s.p < s.buf.size) :
    ∀ s', onFieldChar F s chr = .advance s' → Inv2 s' := by
  intro s' hs
  unfold onFieldChar at hs
  have hws := hi.hws; have hname := hi.hname
  by_cases c1 : (!s.nameEndFound && !s.startsWithWs) = true
  · simp only [c1, ↓reduceIte] at hs
    have c1' := c1
    simp only [Bool.and_eq_true, Bool.not_eq_true'] at c1'
    have hvz := h.hv0 c1'.1 c1'.2
    by_cases c2 : (chr == 58) = true
    · simp only [c2, ↓reduceIte] at hs
      by_cases hw0 : (s.wsStart == 0) = true
      · simp only [hw0, ↓reduceIte] at hs
        split at hs
        · simp only [HS.err] at hs; cases hs
        · rw [wr_in (by show s.rb + s.p < s.buf.size; exact hb)] at hs
          simp only [Step.advance.injEq] at hs; subst hs
          exact h.sameLine _ rfl rfl (by intro hf; simp at hf) (by intro hf; simp at hf)
            (by intro hv; exact absurd hvz hv)
      · simp only [hw0, ↓reduceIte, Bool.false_eq_true] at hs
        by_cases hbc : (!F.allowWspBeforeColon) = true
        · simp only [hbc, ↓reduceIte, HS.err] at hs; cases hs
        · simp only [hbc, ↓reduceIte, Bool.false_eq_true] at hs
          split at hs
          · simp only [HS.err] at hs; cases hs
          · rw [wr_in (by show s.rb + s.wsStart < s.buf.size; omega)] at hs
            simp only [Step.advance.injEq] at hs; subst hs
            exact h.sameLine _ rfl rfl (by intro hf; simp at hf) (by intro hf; simp at hf)
              (by intro hv; exact absurd hvz hv)
    · simp only [c2, ↓reduceIte, Bool.false_eq_true] at hs
      repeat' split at hs
      all_goals first
        | (simp only [HS.err] at hs; cases hs; done)
        | (simp only [Step.advance.injEq] at hs; subst hs
           exact h.sameLine _ rfl rfl h.hn0 h.hv0 h.hvs2)
  · simp only [c1, ↓reduceIte, Bool.false_eq_true] at hs
    simp only [Step.advance.injEq] at hs; subst hs
    refine h.sameLine _ rfl rfl h.hn0 ?_ ?_
    · intro h1 h2
      exfalso; apply c1
      simp only [Bool.and_eq_true, Bool.not_eq_true']; exact ⟨h1, h2⟩
    · intro _
      show s.nameLen ≤ (if (s.valueStart == 0) = true then s.p else s.valueStart)
      split
      · exact hname
      next hz => exact h.hvs2 (by simpa using hz)

theorem lastElemEnd_of (s' : HS) (els : List Elem) (key v : Slice)
    (he : s'.elems = els ++ [⟨Http.kindHeader, key, some v⟩]) : lastElemEnd s' = v.off + v.len := by
  unfold lastElemEnd
  rw [he, List.getLast?_concat]
  simp

theorem Inv2.append {s : HS} (hi : Inv s) (h : Inv2 s) (s' : HS) (vstart vlen : Nat)
    (he : s'.elems = s.elems ++ [⟨Http.kindHeader, ⟨0, s.rb, s.nameLen⟩, some ⟨0, s.rb + vstart, vlen⟩⟩])
    (hv : s'.version = s.version) (h1 : s'.nameLen = 0) (h2 : s'.valueStart = 0)
    (hn : s.nameLen ≤ vstart) : Inv2 s' := by
  have hL := lastElemEnd_of s' s.elems ⟨0, s.rb, s.nameLen⟩ ⟨0, s.rb + vstart, vlen⟩ he
  have hold := lastEnd_le s hi.hver hi.helems
  have hver := hi.hver
  refine ⟨fun _ => h1, fun _ _ => h2, fun hvz => absurd h2 hvz, ?_, ?_⟩
  · rw [hL, hv]; show _ ≤ s.rb + vstart + vlen; omega
  · intro el hm sl hsl hr
    rw [hL]
    show sl.off + sl.len ≤ s.rb + vstart + vlen
    rw [he, List.mem_append] at hm
    cases hm with
    | inl hm' => have := h.hmax el hm' sl hsl hr; omega
    | inr hm' =>
      simp only [List.mem_singleton] at hm'
      subst hm'
      simp only [Elem.slices, Option.toList, List.mem_cons, List.mem_singleton, List.not_mem_nil, or_false] at hsl
      cases hsl with
      | inl hk => subst hk; show s.rb + s.nameLen ≤ _; omega
      | inr hk => subst hk; show s.rb + vstart + vlen ≤ _; omega

theorem onLineEnd_inv2 (F : FLFlags) (s : HS) (lineLen : Nat) (hi : Inv s) (h : Inv2 s) (hpl : s.p < lineLen)
    (hl : s.rb + lineLen ≤ s.buf.size) : ∀ s', onLineEnd F s lineLen = .advance s' → Inv2 s' := by
  intro s' hs
  unfold onLineEnd at hs
  have hws := hi.hws; have hvs := hi.hvs; have hname := hi.hname
  have skip : ∀ n, Inv2 ({ s with skippedBroken := n }.consume lineLen).resetLine := by
    intro n
    exact h.sameLine _ rfl rfl (fun _ => rfl) (fun _ _ => rfl) (fun hv => absurd rfl hv)
  split at hs
  · simp only [Step.advance.injEq] at hs; subst hs; exact skip s.skippedBroken
  · split at hs
    · split at hs
      · simp only [HS.err] at hs; cases hs
      · simp only [Step.advance.injEq] at hs; subst hs; exact skip _
    · dsimp only at hs
      split at hs
      · rw [wr_in (by show s.rb + s.p < s.buf.size; omega)] at hs
        simp only [Step.advance.injEq] at hs; subst hs
        exact Inv2.append hi h _ s.p 0 rfl rfl rfl rfl hname
      · split at hs
        · rw [wr_in (by show s.rb + s.wsStart < s.buf.size; omega)] at hs
          simp only [Step.advance.injEq] at hs; subst hs
          rename_i hvz _
          exact Inv2.append hi h _ s.valueStart (s.wsStart - s.valueStart) rfl rfl rfl rfl (h.hvs2 (by simpa using hvz))
        · rw [wr_in (by show s.rb + s.p < s.buf.size; omega)] at hs
          simp only [Step.advance.injEq] at hs; subst hs
          rename_i hvz _
          exact Inv2.append hi h _ s.valueStart (s.p - s.valueStart) rfl rfl rfl rfl (h.hvs2 (by simpa using hvz))


/-- every string handed out lies, with its terminating NUL, below `read_buffer` -/
def Below (h : Headers) (version : Nat) : Prop :=
  version + Discipline.httpVerLen + 1 ≤ h.rb ∧
  ∀ el ∈ h.elems, ∀ sl ∈ Elem.slices el, sl.region = 0 → sl.off + sl.len + 1 ≤ h.rb

theorem finishHeaders_below (s : HS) (fs : Nat) (h2 : 2 ≤ s.rb) (hsz : s.rb ≤ s.buf.size)
    (hle : lastElemEnd s + 1 ≤ s.rb) (hLver : s.version + Discipline.httpVerLen ≤ lastElemEnd s)
    (hmax : ∀ el ∈ s.elems, ∀ sl ∈ Elem.slices el, sl.region = 0 → sl.off + sl.len ≤ lastElemEnd s) :
    ∀ h, finishHeaders s fs = .done (.ok h) →
      Below h s.version ∧ (∀ i, i < h.rb → h.buf[i]? = s.buf[i]?) ∧ h.elems = s.elems ∧ h.rb ≤ s.rb := by
  intro h hd
  have hi : s.rb - 2 < s.buf.size := by omega
  cases hb : s.buf[s.rb - 2]? with
  | none => rw [Array.getElem?_eq_none_iff] at hb; omega
  | some b2 =>
    rw [finishHeaders_eq s fs b2 h2 hb hle] at hd
    split at hd
    · simp only [Step.done.injEq, HDone.ok.injEq] at hd
      subst hd
      have hrb : s.rb - (s.rb - (lastElemEnd s + 1)) = lastElemEnd s + 1 := by omega
      refine ⟨⟨?_, ?_⟩, ?_, rfl, by show s.rb - _ ≤ s.rb; omega⟩
      · show _ ≤ s.rb - (s.rb - (lastElemEnd s + 1)); rw [hrb]; omega
      · intro el hm sl hsl hr
        show _ ≤ s.rb - (s.rb - (lastElemEnd s + 1)); rw [hrb]
        have := hmax el hm sl hsl hr; omega
      · intro i hlt
        have hlt' : i < s.rb - (s.rb - (lastElemEnd s + 1)) := hlt
        show (s.buf.extract 0 (s.rb - (s.rb - (lastElemEnd s + 1))) ++ s.buf.extract s.rb s.buf.size)[i]? = _
        rw [Array.getElem?_append_left (by simp only [Array.size_extract]; omega)]
        simp only [Array.getElem?_extract]
        rw [if_pos (by omega)]; simp
    · simp only [Step.done.injEq, HDone.ok.injEq] at hd
      subst hd
      refine ⟨⟨?_, ?_⟩, fun _ _ => rfl, rfl, Nat.le_refl _⟩
      · show _ ≤ s.rb; omega
      · intro el hm sl hsl hr
        show _ ≤ s.rb
        have := hmax el hm sl hsl hr; omega

/-- the combined statement carried along a run -/
structure Good (s : HS) : Prop where
  i1 : Inv s
  i2 : Inv2 s

theorem handleFieldEol_inv2 (F : FLFlags) (s : HS) (chr : UInt8) (fs : Nat) (hi : Inv s) (h : Inv2 s)
    (hle : s.rb + (s.p + (if chr == cCR then 2 else 1)) ≤ s.buf.size)
    (hlt : s.p ≠ 0 → s.rb + (s.p + (if chr == cCR then 2 else 1)) < s.buf.size) :
    (∀ s', handleFieldEol F s chr fs = .advance s' → Inv2 s') ∧
    (∀ hd, handleFieldEol F s chr fs = .done (.ok hd) →
      Below hd s.version ∧ (∀ i, i < hd.rb → hd.buf[i]? = s.buf[i]?) ∧ hd.elems = s.elems) := by
  unfold handleFieldEol
  dsimp only
  generalize hL : s.p + (if (chr == cCR) = true then 2 else 1) = lineLen at hle hlt
  have hpl : s.p < lineLen := by rw [← hL]; split <;> omega
  by_cases hp0 : (s.p == 0) = true
  · simp only [hp0, ↓reduceIte]
    have hrb := hi.hrb
    have hx := finishHeaders_ext (s.consume lineLen) fs #[] (by show 2 ≤ s.rb + lineLen; omega) hle
      (by rw [lastElemEnd_consume]; have := lastEnd_le s hi.hver hi.helems; show _ ≤ s.rb + lineLen; omega)
    constructor
    · intro s' hs'; exact absurd hs' (hx.2.2.1 s')
    · intro hd hdd
      have := finishHeaders_below (s.consume lineLen) fs (by show 2 ≤ s.rb + lineLen; omega) hle
        (by rw [lastElemEnd_consume]; have := lastEnd_le s hi.hver hi.helems; show _ ≤ s.rb + lineLen; omega)
        h.hLver h.hmax hd hdd
      exact ⟨this.1, this.2.1, this.2.2.1⟩
  · simp only [hp0, ↓reduceIte, Bool.false_eq_true]
    simp only [beq_iff_eq] at hp0
    have hl := hlt hp0
    cases hn : s.buf[s.rb + lineLen]? with
    | none => rw [Array.getElem?_eq_none_iff] at hn; omega
    | some nxt =>
      dsimp only
      split
      · split
        · constructor
          · intro s' hs'; simp only [HS.err] at hs'; cases hs'
          · intro hd hdd; simp only [HS.err] at hdd; cases hdd
        · have hib : s.rb + s.p < s.buf.size := by omega
          rw [wr_in hib]
          have nd : ∀ (b : Bytes) (hd : Headers), onFieldWsp F { s with buf := b } ≠ .done (.ok hd) := by
            intro b hd hc
            unfold onFieldWsp at hc
            repeat' split at hc
            all_goals first | (cases hc; done) | (simp only [HS.err] at hc; cases hc; done)
          split
          next hcr =>
            have hi2 : s.rb + s.p + 1 < (s.buf.setIfInBounds (s.rb + s.p) cSP).size := by
              simp only [Array.size_setIfInBounds]; rw [← hL, if_pos hcr] at hl; omega
            rw [wr_in hi2]
            exact ⟨onFieldWsp_inv2 F _ (h.sameLine _ rfl rfl h.hn0 h.hv0 h.hvs2), fun hd hdd => absurd hdd (nd _ hd)⟩
          next =>
            exact ⟨onFieldWsp_inv2 F _ (h.sameLine _ rfl rfl h.hn0 h.hv0 h.hvs2), fun hd hdd => absurd hdd (nd _ hd)⟩
      · constructor
        · exact onLineEnd_inv2 F s lineLen hi h hpl (by omega)
        · intro hd hdd
          exfalso
          unfold onLineEnd at hdd
          have hws := hi.hws
          repeat' split at hdd
          all_goals first
            | (cases hdd; done)
            | (simp only [HS.err] at hdd; cases hdd; done)
            | (unfold wr at hdd; split at hdd <;> cases hdd)


theorem onFieldWsp_notdone (F : FLFlags) (s : HS) (hd : Headers) : onFieldWsp F s ≠ .done (.ok hd) := by
  intro hc
  unfold onFieldWsp at hc
  repeat' split at hc
  all_goals first | (cases hc; done) | (simp only [HS.err] at hc; cases hc; done)

theorem onFieldChar_notdone (F : FLFlags) (s : HS) (chr : UInt8) (hd : Headers) : onFieldChar F s chr ≠ .done (.ok hd) := by
  intro hs
  unfold onFieldChar at hs
  by_cases c1 : (!s.nameEndFound && !s.startsWithWs) = true
  · simp only [c1, ↓reduceIte] at hs
    by_cases c2 : (chr == 58) = true
    · simp only [c2, ↓reduceIte] at hs
      by_cases hw0 : (s.wsStart == 0) = true
      · simp only [hw0, ↓reduceIte] at hs
        split at hs
        · simp only [HS.err] at hs; cases hs
        · unfold wr at hs; split at hs <;> cases hs
      · simp only [hw0, ↓reduceIte, Bool.false_eq_true] at hs
        by_cases hbc : (!F.allowWspBeforeColon) = true
        · simp only [hbc, ↓reduceIte, HS.err] at hs; cases hs
        · simp only [hbc, ↓reduceIte, Bool.false_eq_true] at hs
          split at hs
          · simp only [HS.err] at hs; cases hs
          · unfold wr at hs; split at hs <;> cases hs
    · simp only [c2, ↓reduceIte, Bool.false_eq_true] at hs
      repeat' split at hs
      all_goals first
        | (simp only [HS.err] at hs; cases hs; done)
        | (cases hs; done)
  · simp only [c1, ↓reduceIte, Bool.false_eq_true] at hs
    cases hs

theorem hsStep_inv2 (F : FLFlags) (fs : Nat) (s : HS) (hi : Inv s) (h : Inv2 s) :
    (∀ s', hsStep F fs s = .advance s' → Inv2 s') ∧
    (∀ hd, hsStep F fs s = .done (.ok hd) →
      Below hd s.version ∧ (∀ i, i < hd.rb → hd.buf[i]? = s.buf[i]?) ∧ hd.elems = s.elems) := by
  unfold hsStep
  have none_ok : ∀ (k : HErrKind), (∀ s', HS.err k = .advance s' → Inv2 s') ∧
      (∀ hd, HS.err k = .done (.ok hd) → Below hd s.version ∧ (∀ i, i < hd.rb → hd.buf[i]? = s.buf[i]?) ∧ hd.elems = s.elems) := by
    intro k; constructor
    · intro s' hs'; simp only [HS.err] at hs'; cases hs'
    · intro hd hdd; simp only [HS.err] at hdd; cases hdd
  cases hc : s.buf[s.rb + s.p]? with
  | none => exact ⟨fun _ hs' => (by cases hs'), fun _ hd => (by cases hd)⟩
  | some chr =>
    have hb := fill_gt hc
    dsimp only
    have wsp : ∀ (b : Bytes) (n : Nat),
        (∀ s', onFieldWsp F { s with buf := b, crSp := n } = .advance s' → Inv2 s') ∧
        (∀ hd, onFieldWsp F { s with buf := b, crSp := n } = .done (.ok hd) →
          Below hd s.version ∧ (∀ i, i < hd.rb → hd.buf[i]? = s.buf[i]?) ∧ hd.elems = s.elems) := by
      intro b n
      exact ⟨onFieldWsp_inv2 F _ (h.sameLine _ rfl rfl h.hn0 h.hv0 h.hvs2), fun hd hdd => absurd hdd (onFieldWsp_notdone F _ hd)⟩
    have chrc : (∀ s', onFieldChar F s chr = .advance s' → Inv2 s') ∧
        (∀ hd, onFieldChar F s chr = .done (.ok hd) →
          Below hd s.version ∧ (∀ i, i < hd.rb → hd.buf[i]? = s.buf[i]?) ∧ hd.elems = s.elems) :=
      ⟨onFieldChar_inv2 F s chr hi h hb, fun hd hdd => absurd hdd (onFieldChar_notdone F s chr hd)⟩
    by_cases hcr : (chr == cCR) = true
    · simp only [hcr, ↓reduceIte]
      by_cases hnm : ((s.p != 0 && decide (s.p + 2 ≥ s.fill)) || (s.p == 0 && decide (s.p + 2 > s.fill))) = true
      · simp only [hnm, ↓reduceIte]; exact ⟨fun _ hs' => (by cases hs'), fun _ hd => (by cases hd)⟩
      · simp only [hnm, ↓reduceIte, Bool.false_eq_true]
        simp only [HS.fill, Bool.or_eq_true, Bool.and_eq_true, bne_iff_ne, ne_eq, decide_eq_true_eq, beq_iff_eq, not_or,
          not_and] at hnm
        have hle : s.rb + (s.p + (if (chr == cCR) = true then 2 else 1)) ≤ s.buf.size := by
          rw [if_pos hcr]; by_cases hp : s.p = 0
          · have := hnm.2 hp; simp at this; omega
          · have := hnm.1 hp; simp at this; omega
        have hlt : s.p ≠ 0 → s.rb + (s.p + (if (chr == cCR) = true then 2 else 1)) < s.buf.size := by
          intro hp; rw [if_pos hcr]; have := hnm.1 hp; simp at this; omega
        have hi1 : s.rb + s.p + 1 < s.buf.size := by rw [if_pos hcr] at hle; omega
        cases hn : s.buf[s.rb + s.p + 1]? with
        | none => rw [Array.getElem?_eq_none_iff] at hn; omega
        | some nxt =>
          dsimp only
          split
          · exact handleFieldEol_inv2 F s chr fs hi h hle hlt
          · split
            · rw [wr_in hb]; exact wsp _ _
            · split
              · exact none_ok _
              · exact chrc
    · simp only [hcr, ↓reduceIte, Bool.false_eq_true]
      by_cases hlf : (chr == cLF) = true
      · simp only [hlf, ↓reduceIte]
        split
        · by_cases hnm : (s.p != 0 && decide (s.p + 1 ≥ s.fill)) = true
          · simp only [hnm, ↓reduceIte]; exact ⟨fun _ hs' => (by cases hs'), fun _ hd => (by cases hd)⟩
          · simp only [hnm, ↓reduceIte, Bool.false_eq_true]
            simp only [HS.fill, Bool.and_eq_true, bne_iff_ne, ne_eq, decide_eq_true_eq, not_and] at hnm
            exact handleFieldEol_inv2 F s chr fs hi h (by rw [if_neg hcr]; omega)
              (by intro hp; rw [if_neg hcr]; have := hnm hp; simp at this; omega)
        · exact none_ok _
      · simp only [hlf, ↓reduceIte, Bool.false_eq_true]
        split
        · have := wsp s.buf s.crSp; exact this
        · split
          · split
            · exact none_ok _
            · rw [wr_in hb]; have := wsp (s.buf.setIfInBounds (s.rb + s.p) cSP) s.crSp; exact this
          · exact chrc


/-! ### the parser writes only at or above `read_buffer` -/
def WritesAbove (rb : Nat) (b b' : Bytes) : Prop := ∀ i, i < rb → b'[i]? = b[i]?

theorem WritesAbove.refl (rb : Nat) (b : Bytes) : WritesAbove rb b b := fun _ _ => rfl

theorem WritesAbove.set {rb : Nat} {b b' : Bytes} (h : WritesAbove rb b b') (j : Nat) (v : UInt8) (hj : rb ≤ j) :
    WritesAbove rb b (b'.setIfInBounds j v) := by
  intro i hi
  rw [Array.getElem?_setIfInBounds, if_neg (by omega)]
  exact h i hi

/-- what a step may change: `read_buffer` only moves forward, bytes below it stay, the element
    list only grows at its end, the version pointer stays -/
structure Mono (s s' : HS) : Prop where
  rb : s.rb ≤ s'.rb
  wa : WritesAbove s.rb s.buf s'.buf
  el : ∃ t, s'.elems = s.elems ++ t
  ver : s'.version = s.version

theorem Mono.same (s s' : HS) (h1 : s'.rb = s.rb) (h2 : WritesAbove s.rb s.buf s'.buf) (h3 : s'.elems = s.elems)
    (h4 : s'.version = s.version) : Mono s s' :=
  ⟨by omega, h2, ⟨[], by simp [h3]⟩, h4⟩

theorem onFieldWsp_same (F : FLFlags) (s : HS) : ∀ s', onFieldWsp F s = .advance s' →
    s'.buf = s.buf ∧ s'.rb = s.rb ∧ s'.elems = s.elems ∧ s'.version = s.version := by
  intro s' hs
  unfold onFieldWsp at hs
  repeat' split at hs
  all_goals first
    | (cases hs; done)
    | (simp only [HS.err] at hs; cases hs; done)
    | (simp only [Step.advance.injEq] at hs; subst hs; exact ⟨rfl, rfl, rfl, rfl⟩)

theorem onFieldWsp_mono (F : FLFlags) (s0 s s' : HS) (hs : onFieldWsp F s = .advance s') (h0 : s.rb = s0.rb)
    (h1 : WritesAbove s0.rb s0.buf s.buf) (h2 : s.elems = s0.elems) (h3 : s.version = s0.version) : Mono s0 s' := by
  have := onFieldWsp_same F s s' hs
  exact Mono.same _ _ (by rw [this.2.1, h0]) (by rw [this.1]; exact h1) (by rw [this.2.2.1, h2]) (by rw [this.2.2.2, h3])

theorem onFieldChar_mono (F : FLFlags) (s : HS) (chr : UInt8) :
    ∀ s', onFieldChar F s chr = .advance s' → Mono s s' := by
  intro s' hs
  unfold onFieldChar at hs
  by_cases c1 : (!s.nameEndFound && !s.startsWithWs) = true
  · simp only [c1, ↓reduceIte] at hs
    by_cases c2 : (chr == 58) = true
    · simp only [c2, ↓reduceIte] at hs
      by_cases hw0 : (s.wsStart == 0) = true
      · simp only [hw0, ↓reduceIte] at hs
        split at hs
        · simp only [HS.err] at hs; cases hs
        · unfold wr at hs; split at hs
          · simp only [Step.advance.injEq] at hs; subst hs
            exact Mono.same _ _ rfl ((WritesAbove.refl _ _).set _ _ (by show s.rb ≤ s.rb + s.p; omega)) rfl rfl
          · cases hs
      · simp only [hw0, ↓reduceIte, Bool.false_eq_true] at hs
        by_cases hbc : (!F.allowWspBeforeColon) = true
        · simp only [hbc, ↓reduceIte, HS.err] at hs; cases hs
        · simp only [hbc, ↓reduceIte, Bool.false_eq_true] at hs
          split at hs
          · simp only [HS.err] at hs; cases hs
          · unfold wr at hs; split at hs
            · simp only [Step.advance.injEq] at hs; subst hs
              exact Mono.same _ _ rfl ((WritesAbove.refl _ _).set _ _ (by show s.rb ≤ s.rb + s.wsStart; omega)) rfl rfl
            · cases hs
    · simp only [c2, ↓reduceIte, Bool.false_eq_true] at hs
      repeat' split at hs
      all_goals first
        | (simp only [HS.err] at hs; cases hs; done)
        | (simp only [Step.advance.injEq] at hs; subst hs; exact Mono.same _ _ rfl (WritesAbove.refl _ _) rfl rfl)
  · simp only [c1, ↓reduceIte, Bool.false_eq_true] at hs
    simp only [Step.advance.injEq] at hs; subst hs; exact Mono.same _ _ rfl (WritesAbove.refl _ _) rfl rfl

theorem onLineEnd_mono (F : FLFlags) (s : HS) (lineLen : Nat) :
    ∀ s', onLineEnd F s lineLen = .advance s' → Mono s s' := by
  intro s' hs
  unfold onLineEnd at hs
  have skip : ∀ n, Mono s ({ s with skippedBroken := n }.consume lineLen).resetLine := by
    intro n; exact ⟨by show s.rb ≤ s.rb + lineLen; omega, WritesAbove.refl _ _, ⟨[], by simp [HS.consume, HS.resetLine]⟩, rfl⟩
  split at hs
  · simp only [Step.advance.injEq] at hs; subst hs; exact skip s.skippedBroken
  · split at hs
    · split at hs
      · simp only [HS.err] at hs; cases hs
      · simp only [Step.advance.injEq] at hs; subst hs; exact skip _
    · dsimp only at hs
      unfold wr at hs
      repeat' split at hs
      all_goals first
        | (cases hs; done)
        | (simp only [Step.advance.injEq] at hs; subst hs
           exact ⟨by show s.rb ≤ s.rb + lineLen; omega,
             (WritesAbove.refl _ _).set _ _ (by first | (show s.rb ≤ s.rb + s.p; omega) | (show s.rb ≤ s.rb + s.wsStart; omega)),
             ⟨_, rfl⟩, rfl⟩)

theorem finishHeaders_notadv (s : HS) (fs : Nat) (s' : HS) : finishHeaders s fs ≠ .advance s' := by
  unfold finishHeaders
  split
  · intro h; cases h
  · split
    · intro h; cases h
    · dsimp only
      split
      · by_cases hc : lastElemEnd s + 1 > s.rb
        · simp only [hc, ↓reduceIte]; intro h; cases h
        · simp only [hc, ↓reduceIte]; intro h; cases h
      · intro h; cases h

theorem handleFieldEol_mono (F : FLFlags) (s : HS) (chr : UInt8) (fs : Nat) :
    ∀ s', handleFieldEol F s chr fs = .advance s' → Mono s s' := by
  intro s' hs
  unfold handleFieldEol at hs
  dsimp only at hs
  split at hs
  · exact absurd hs (finishHeaders_notadv _ _ _)
  · split at hs
    · cases hs
    · split at hs
      · split at hs
        · simp only [HS.err] at hs; cases hs
        · unfold wr at hs
          split at hs
          · dsimp only at hs
            split at hs
            · split at hs
              · exact onFieldWsp_mono F s _ s' hs rfl (((WritesAbove.refl _ _).set _ _ (by show s.rb ≤ s.rb + s.p; omega)).set _ _
                    (by show s.rb ≤ s.rb + s.p + 1; omega)) rfl rfl
              · cases hs
            · exact onFieldWsp_mono F s _ s' hs rfl ((WritesAbove.refl _ _).set _ _ (by show s.rb ≤ s.rb + s.p; omega)) rfl rfl
          · cases hs
      · exact onLineEnd_mono F s _ s' hs

theorem hsStep_mono (F : FLFlags) (fs : Nat) (s : HS) :
    ∀ s', hsStep F fs s = .advance s' → Mono s s' := by
  intro s' hs
  unfold hsStep at hs
  cases hc : s.buf[s.rb + s.p]? with
  | none => rw [hc] at hs; cases hs
  | some chr =>
    rw [hc] at hs
    dsimp only at hs
    by_cases hcr : (chr == cCR) = true
    · simp only [hcr, ↓reduceIte] at hs
      split at hs
      · cases hs
      · cases hn : s.buf[s.rb + s.p + 1]? with
        | none => rw [hn] at hs; cases hs
        | some nxt =>
          rw [hn] at hs
          dsimp only at hs
          split at hs
          · exact handleFieldEol_mono F s _ fs s' hs
          · split at hs
            · unfold wr at hs
              split at hs
              · dsimp only at hs
                exact onFieldWsp_mono F s _ s' hs rfl ((WritesAbove.refl _ _).set _ _ (by show s.rb ≤ s.rb + s.p; omega)) rfl rfl
              · cases hs
            · split at hs
              · simp only [HS.err] at hs; cases hs
              · exact onFieldChar_mono F s _ s' hs
    · simp only [hcr, ↓reduceIte, Bool.false_eq_true] at hs
      by_cases hlf : (chr == cLF) = true
      · simp only [hlf, ↓reduceIte] at hs
        split at hs
        · split at hs
          · cases hs
          · exact handleFieldEol_mono F s _ fs s' hs
        · simp only [HS.err] at hs; cases hs
      · simp only [hlf, ↓reduceIte, Bool.false_eq_true] at hs
        split at hs
        · exact onFieldWsp_mono F s s s' hs rfl (WritesAbove.refl _ _) rfl rfl
        · split at hs
          · split at hs
            · simp only [HS.err] at hs; cases hs
            · unfold wr at hs
              split at hs
              · dsimp only at hs
                exact onFieldWsp_mono F s _ s' hs rfl ((WritesAbove.refl _ _).set _ _ (by show s.rb ≤ s.rb + s.p; omega)) rfl rfl
              · cases hs
          · exact onFieldChar_mono F s _ s' hs

theorem Mono.refl (s : HS) : Mono s s := Mono.same _ _ rfl (WritesAbove.refl _ _) rfl rfl

theorem Mono.trans {a b c : HS} (h1 : Mono a b) (h2 : Mono b c) : Mono a c := by
  refine ⟨Nat.le_trans h1.rb h2.rb, ?_, ?_, by rw [h2.ver, h1.ver]⟩
  · intro i hi
    rw [h2.wa i (by have := h1.rb; omega), h1.wa i hi]
  · obtain ⟨t1, e1⟩ := h1.el
    obtain ⟨t2, e2⟩ := h2.el
    exact ⟨t1 ++ t2, by rw [e2, e1, List.append_assoc]⟩


/-! ### the run-level statement -/

/-- **Stability of the strings handed to the application** (what the shift-back defect
    violated).  Start header parsing in any state `s0` satisfying the invariants, let the
    rest of the header section arrive in any segmentation, and let parsing finish with the
    header set `h`.  Then
    * every string of every element of the final list (name, value — including its
      terminating NUL) and the version string lie strictly below `read_buffer`
      (`Below`): bytes received later (body, pipelined requests) are written at or above
      `read_buffer`, so they cannot touch them — also after the header tail was re-used;
    * the elements that were in the list at the start (the query arguments) are still the
      first elements of the final list, and
    * every byte below the old `read_buffer` that is still below the new one — in particular
      every byte of the strings of those elements — is unchanged. -/
theorem run_stable (F : FLFlags) (fs : Nat) (s0 : HS) (hi : Inv s0) (h2 : Inv2 s0) (h : Headers)
    (hr : (hsScanner F fs).run s0 = .done (.ok h)) :
    Below h s0.version ∧ (∃ t, h.elems = s0.elems ++ t) ∧
      (∀ i, i < s0.rb → i < h.rb → h.buf[i]? = s0.buf[i]?) := by
  have L := hsLaws F fs
  have ind := (Scanner.run_induct L (fun s => Inv2 s ∧ Mono s0 s)
    (fun s s' hi' hp hs => ⟨(hsStep_inv2 F fs s hi' hp.1).1 s' hs, hp.2.trans (hsStep_mono F fs s s' hs)⟩)
    s0 hi ⟨h2, Mono.refl s0⟩).2 (.ok h) hr
  obtain ⟨s1, hi1, ⟨h21, hm⟩, hst⟩ := ind
  have fin := (hsStep_inv2 F fs s1 hi1 h21).2 h hst
  refine ⟨by rw [← hm.ver]; exact fin.1, ?_, ?_⟩
  · obtain ⟨t, ht⟩ := hm.el
    exact ⟨t, by rw [fin.2.2, ht]⟩
  · intro i h0 hh
    rw [fin.2.1 i hh, hm.wa i h0]

end HSP
end Mhd.Req
