/-
  `process_request_target` / `MHD_parse_arguments_`, continued:
  * fault freedom for *every* buffer in which the target is followed by a NUL (interior NULs,
    any recorded '?' position inside the target): `parseArgs_no_fault`,
    `processRequestTarget_no_fault` — built on the functional specifications of
    `Mhd.Proofs.ReqTarget` applied to the C string that ends at the first NUL;
  * the encoder side of the round trip: renderings of a semantic (path, arguments) pair as
    token lists (which bytes are escaped, hex-digit case, space as '+', optional trailing '&'),
    the decidable admissibility predicates, and `decode (render x) = x`
    (`argView_render`, `decView_render`, `specArgs_render`, `target_decode_render`);
  * the composition with the canonical request line: `reqline_target_roundtrip`.
-/
import Mhd.Proofs.ReqTarget
set_option linter.unusedSimpArgs false
namespace Mhd.Req
namespace TGT
open RLP (BufIs)

/-! ## fault freedom for every NUL-terminated region -/

theorem BufIs_cons {buf : Bytes} {a : Nat} {c : UInt8} {w : List UInt8} (h0 : buf[a]? = some c)
    (h : BufIs buf (a + 1) w) : BufIs buf a (c :: w) := by
  intro i hi
  cases i with
  | zero => simpa using h0
  | succ k =>
    have := h k (by simp at hi; omega)
    rw [show a + (k + 1) = a + 1 + k by omega, this]; simp

/-- the C string that starts at `a` when there is a NUL at `a + n` -/
theorem cstr_exists (buf : Bytes) : ∀ (n a : Nat), a + n < buf.size → buf[a + n]? = some 0 →
    ∃ w, BufIs buf a (w ++ [0]) ∧ NoNul w ∧ w.length ≤ n := by
  intro n
  induction n with
  | zero =>
    intro a _ h0
    exact ⟨[], by intro i hi; simp at hi; subst hi; simpa using h0, by intro x hx; simp at hx, by simp⟩
  | succ n ih =>
    intro a hs h0
    have ha : a < buf.size := by omega
    by_cases hz : buf[a] = 0
    · refine ⟨[], ?_, by intro x hx; simp at hx, by simp⟩
      intro i hi; simp at hi; subst hi
      rw [Nat.add_zero, Array.getElem?_eq_getElem ha, hz]; rfl
    · obtain ⟨w, hb, hn, hl⟩ := ih (a + 1) (by omega) (by rw [show a + 1 + n = a + (n + 1) by omega]; exact h0)
      refine ⟨buf[a] :: w, ?_, ?_, by simp; omega⟩
      · exact BufIs_cons (Array.getElem?_eq_getElem ha) hb
      · intro x hx
        simp only [List.mem_cons] at hx
        rcases hx with rfl | hx
        · exact hz
        · exact hn x hx

theorem ElemIn_mono {el : Elem} {lo hi lo' hi' : Nat} (h : HSP.ElemIn el lo hi) (h1 : lo' ≤ lo) (h2 : hi ≤ hi') :
    HSP.ElemIn el lo' hi' :=
  ⟨by have := h.1; omega, by have := h.2.1; omega, fun v hv => by have := h.2.2.1 v hv; exact ⟨by omega, by omega⟩,
    h.2.2.2.1, h.2.2.2.2⟩

theorem kinds_of_view {els : List Elem} {buf : Bytes} {spec : List (List UInt8 × Option (List UInt8))} {kind : Nat}
    (h : els.map (HSP.elemView buf) = spec.map (fun kv => (kind, kv.1, kv.2))) : ∀ el ∈ els, el.kind = kind := by
  intro el hel
  have h1 : HSP.elemView buf el ∈ els.map (HSP.elemView buf) := List.mem_map_of_mem hel
  rw [h] at h1
  simp only [List.mem_map] at h1
  obtain ⟨kv, _, hkv⟩ := h1
  have := congrArg (·.1) hkv
  exact this.symm

/-- **`MHD_parse_arguments_` never faults**: for every buffer that has a NUL at some index
    `hi ≥ args` (no assumption on the bytes in between), every element list so far, both
    decoders.  It writes only inside `[args, hi]`, keeps the buffer size, and all strings it
    hands out lie inside `[args, hi)`. -/
theorem parseArgs_no_fault (strict : Bool) (kind : Nat) (buf : Bytes) (args hi : Nat) (acc : List Elem)
    (h1 : args ≤ hi) (h2 : hi < buf.size) (h0 : buf[hi]? = some 0) (fuel : Nat) (hf : hi - args < fuel) :
    ∃ buf' els, parseArgs strict kind fuel buf args acc = .ok (buf', acc ++ els) ∧ buf'.size = buf.size ∧
      (∀ j, j < args ∨ hi < j → buf'[j]? = buf[j]?) ∧ ∀ el ∈ els, HSP.ElemIn el args hi ∧ el.kind = kind := by
  obtain ⟨w, hb, hn, hl⟩ := cstr_exists buf (hi - args) args (by omega) (by rw [show args + (hi - args) = hi by omega]; exact h0)
  obtain ⟨b', els, e, hs, hout, hview, hin⟩ := parseArgs_spec strict kind fuel buf args acc w hb hn (by omega)
  exact ⟨b', els, e, hs, fun j hj => hout j (by omega),
    fun el hel => ⟨ElemIn_mono (hin el hel) (Nat.le_refl _) (by omega), kinds_of_view hview el hel⟩⟩

/-- the unescape callback on any NUL-terminated region -/
theorem unescape_no_fault (strict : Bool) (buf : Bytes) (a hi : Nat) (h1 : a ≤ hi) (h2 : hi < buf.size)
    (h0 : buf[hi]? = some 0) :
    ∃ buf' n, unescape strict buf a = .ok (buf', n) ∧ buf'.size = buf.size ∧
      (∀ j, j < a ∨ hi < j → buf'[j]? = buf[j]?) ∧ n ≤ hi - a := by
  obtain ⟨w, hb, hn, hl⟩ := cstr_exists buf (hi - a) a (by omega) (by rw [show a + (hi - a) = hi by omega]; exact h0)
  obtain ⟨b', n, e, ok, hnn⟩ := unescape_spec strict buf a w hb hn
  have := decView_len strict w
  exact ⟨b', n, e, ok.size, fun j hj => ok.out j (by omega), by omega⟩

/-- **`process_request_target` never faults**: for every request line record whose target
    `[tgt, tgt + tgtLen)` is followed by a NUL inside the buffer and whose recorded '?'
    position (if any) lies inside the target — nothing is assumed about the bytes of the
    target (interior NULs, stray '%', …) nor about which '?' was recorded.  It writes only
    inside `[tgt, tgt + tgtLen]`, and the decoded path and all argument strings lie there. -/
theorem processRequestTarget_no_fault (strict : Bool) (r : ReqLine) (hlen : r.tgt + r.tgtLen < r.buf.size)
    (hnul : r.buf[r.tgt + r.tgtLen]? = some 0)
    (hq : ∀ q, r.qmark = some q → r.tgt ≤ q ∧ q < r.tgt + r.tgtLen) :
    ∃ T, processRequestTarget strict r = .ok T ∧ T.buf.size = r.buf.size ∧
      (∀ j, j < r.tgt ∨ r.tgt + r.tgtLen < j → T.buf[j]? = r.buf[j]?) ∧ T.url = r.tgt ∧ T.urlLen ≤ r.tgtLen ∧
      (∀ el ∈ T.elems, HSP.ElemIn el r.tgt (r.tgt + r.tgtLen) ∧ el.kind = Gen.Http.kindGetArgument) ∧
      T.rb = r.rb ∧ T.method = r.method ∧ T.version = r.version := by
  have hraw : ∃ l, rdRange r.buf r.tgt r.tgtLen = some l := by
    unfold rdRange; rw [if_pos (by omega)]; exact ⟨_, rfl⟩
  obtain ⟨raw, hraw⟩ := hraw
  unfold processRequestTarget
  simp only [hraw, bind, Except.bind, pure, Except.pure]
  cases hqm : r.qmark with
  | none =>
    obtain ⟨b2, n, e, hs, hout, hn⟩ := unescape_no_fault strict r.buf r.tgt (r.tgt + r.tgtLen) (by omega) hlen hnul
    simp only [e]
    exact ⟨_, rfl, hs, hout, rfl, by show n ≤ r.tgtLen; omega, by simp, rfl, rfl, rfl⟩
  | some q =>
    have hqr := hq q hqm
    have hqs : q < r.buf.size := by omega
    simp only [hqs, ↓reduceIte]
    have hnul1 : (r.buf.setIfInBounds q 0)[r.tgt + r.tgtLen]? = some 0 := by
      rw [Array.getElem?_setIfInBounds, if_neg (by omega)]; exact hnul
    obtain ⟨b1, els, e1, hs1, hout1, hin1⟩ := parseArgs_no_fault strict Gen.Http.kindGetArgument
      (r.buf.setIfInBounds q 0) (q + 1) (r.tgt + r.tgtLen) [] (by omega) (by simpa using hlen) hnul1
      (r.buf.size + 1) (by omega)
    simp only [e1, List.nil_append]
    have hq0 : b1[q]? = some 0 := by
      rw [hout1 q (Or.inl (by omega)), Array.getElem?_setIfInBounds, if_pos rfl, if_pos hqs]
    obtain ⟨b2, n, e2, hs2, hout2, hn2⟩ := unescape_no_fault strict b1 r.tgt q hqr.1 (by rw [hs1]; simpa using hqs) hq0
    simp only [e2]
    refine ⟨_, rfl, by show b2.size = _; rw [hs2, hs1]; simp, ?_, rfl, by show n ≤ r.tgtLen; omega, ?_, rfl, rfl, rfl⟩
    · intro j hj
      show b2[j]? = _
      rw [hout2 j (by omega), hout1 j (by omega), Array.getElem?_setIfInBounds, if_neg (by omega)]
    · intro el hel
      exact ⟨ElemIn_mono (hin1 el hel).1 (by omega) (Nat.le_refl _), (hin1 el hel).2⟩

/-! ## the encoder side: renderings of byte strings, arguments and targets -/

/-- hex digit of a nibble, upper or lower case -/
def hexd (n : Fin 16) (up : Bool) : UInt8 :=
  if n.val < 10 then UInt8.ofNat (48 + n.val) else if up then UInt8.ofNat (55 + n.val) else UInt8.ofNat (87 + n.val)

/-- one unit of a rendering of a byte string: the byte itself, a percent escape `%HL` (each
    hex digit in either case), or '+' standing for a space (query arguments only) -/
inductive Tok where
  | lit (c : UInt8)
  | esc (h l : Fin 16) (u1 u2 : Bool)
  | plus
  deriving DecidableEq, Repr

/-- the byte a token stands for -/
def Tok.val : Tok → UInt8
  | .lit c => c
  | .esc h l _ _ => UInt8.ofNat h.val * 16 + UInt8.ofNat l.val
  | .plus => cSP

/-- the bytes a token is sent as -/
def Tok.render : Tok → List UInt8
  | .lit c => [c]
  | .esc h l u1 u2 => [37, hexd h u1, hexd l u2]
  | .plus => [43]

def renderToks : List Tok → List UInt8
  | [] => []
  | t :: ts => t.render ++ renderToks ts

/-- the byte string a token list stands for -/
def semToks (ts : List Tok) : List UInt8 := ts.map Tok.val

/-- a byte that may stand for itself inside a request line: not CR LF SP HT VT FF NUL -/
def rplainB (c : UInt8) : Bool := c != 13 && c != 10 && c != 32 && c != 9 && c != 11 && c != 12 && c != 0

/-- admissible in the path: a literal is a request-line character other than '%' and '?';
    '+' is an ordinary character there (so `plus` is not a path token) -/
def Tok.okPath : Tok → Bool
  | .lit c => rplainB c && c != 37 && c != 63
  | .esc _ _ _ _ => true
  | .plus => false

/-- admissible in an argument name: a literal is none of '%' '+' '&' '=' -/
def Tok.okKey : Tok → Bool
  | .lit c => rplainB c && c != 37 && c != 43 && c != 38 && c != 61
  | _ => true

/-- admissible in an argument value: a literal is none of '%' '+' '&' ('=' and '?' are fine) -/
def Tok.okVal : Tok → Bool
  | .lit c => rplainB c && c != 37 && c != 43 && c != 38
  | _ => true

theorem rplainB_iff (c : UInt8) : rplainB c = true ↔ RLP.rplain c := by
  unfold rplainB RLP.rplain cCR cLF cSP cHT cVT cFF
  simp only [Bool.and_eq_true, bne_iff_ne, ne_eq]
  constructor
  · rintro ⟨⟨⟨⟨⟨⟨a, b⟩, c⟩, d⟩, e⟩, f⟩, g⟩; exact ⟨a, b, c, d, e, f, g⟩
  · rintro ⟨a, b, c, d, e, f, g⟩; exact ⟨⟨⟨⟨⟨⟨a, b⟩, c⟩, d⟩, e⟩, f⟩, g⟩

set_option maxRecDepth 4000 in
theorem xdigit_hexd : ∀ (n : Fin 16) (u : Bool), xdigit (hexd n u) = some (UInt8.ofNat n.val) := by decide

/-- a hex digit is an ordinary request-line character and none of the delimiters -/
def plainNoDelim (x : UInt8) : Bool :=
  rplainB x && x != 37 && x != 43 && x != 38 && x != 61 && x != 63

set_option maxRecDepth 4000 in
theorem hexd_plain : ∀ (n : Fin 16) (u : Bool), plainNoDelim (hexd n u) = true := by decide

/-- every byte of a rendering satisfies `P` when the literals do and '%', '+', hex digits do -/
theorem renderToks_all (P : UInt8 → Prop) (ts : List Tok) (hl : ∀ c, Tok.lit c ∈ ts → P c)
    (h37 : P 37) (h43 : Tok.plus ∈ ts → P 43) (hx : ∀ n u, P (hexd n u)) : ∀ x ∈ renderToks ts, P x := by
  induction ts with
  | nil => intro x hx'; simp [renderToks] at hx'
  | cons t ts ih =>
    intro x hx'
    simp only [renderToks, List.mem_append] at hx'
    rcases hx' with h | h
    · cases t with
      | lit c => simp [Tok.render] at h; subst h; exact hl _ (by simp)
      | esc a b u1 u2 =>
        simp [Tok.render] at h
        rcases h with rfl | rfl | rfl
        · exact h37
        · exact hx _ _
        · exact hx _ _
      | plus => simp [Tok.render] at h; subst h; exact h43 (by simp)
    · exact ih (fun c hc => hl c (by simp [hc])) (fun hp => h43 (by simp [hp])) x h

/-- `plus` replaced by a literal space: what `MHD_unescape_plus` leaves -/
def Tok.unplus : Tok → Tok
  | .plus => .lit cSP
  | t => t

theorem hexd_ne (n : Fin 16) (u : Bool) : hexd n u ≠ 37 ∧ hexd n u ≠ 43 ∧ hexd n u ≠ 0 := by
  have := hexd_plain n u
  simp only [plainNoDelim, rplainB, Bool.and_eq_true, bne_iff_ne, ne_eq] at this
  exact ⟨this.1.1.1.1.2, this.1.1.1.2, this.1.1.1.1.1.2⟩

theorem plusMap_render (ts : List Tok) (h : ∀ c, Tok.lit c ∈ ts → c ≠ 43) :
    plusMap (renderToks ts) = renderToks (ts.map Tok.unplus) := by
  induction ts with
  | nil => rfl
  | cons t ts ih =>
    have ih' := ih (fun c hc => h c (by simp [hc]))
    simp only [renderToks, List.map_cons]
    unfold plusMap at *
    rw [List.map_append, ih']
    congr 1
    cases t with
    | lit c =>
      have := h c (by simp)
      simp [Tok.render, Tok.unplus, this]
    | esc a b u1 u2 =>
      have h1 := (hexd_ne a u1).2.1
      have h2 := (hexd_ne b u2).2.1
      simp [Tok.render, Tok.unplus, h1, h2]
    | plus => simp [Tok.render, Tok.unplus]

theorem val_unplus (t : Tok) : t.unplus.val = t.val := by cases t <;> rfl

/-- no `plus` token and no literal '%' -/
def Tok.pctFree : Tok → Prop
  | .lit c => c ≠ 37
  | .esc _ _ _ _ => True
  | .plus => False

theorem decS_render (ts : List Tok) (h : ∀ t ∈ ts, t.pctFree) : decS (renderToks ts) = some (semToks ts) := by
  induction ts with
  | nil => rfl
  | cons t ts ih =>
    have ih' := ih (fun t' ht' => h t' (by simp [ht']))
    have ht := h t (by simp)
    cases t with
    | lit c =>
      have hc : (c == 37) = false := by simpa [Tok.pctFree] using ht
      show decS (c :: renderToks ts) = _
      rw [decS_cons_ne c _ hc, ih']; rfl
    | esc a b u1 u2 =>
      show decS (37 :: hexd a u1 :: hexd b u2 :: renderToks ts) = _
      simp only [decS, beq_self_eq_true, ↓reduceIte, xdigit_hexd, ih']; rfl
    | plus => exact absurd ht (by simp [Tok.pctFree])

theorem decL_render (ts : List Tok) (h : ∀ t ∈ ts, t.pctFree) : decL (renderToks ts) = semToks ts := by
  induction ts with
  | nil => exact decL_nil
  | cons t ts ih =>
    have ih' := ih (fun t' ht' => h t' (by simp [ht']))
    have ht := h t (by simp)
    cases t with
    | lit c =>
      have hc : (c == 37) = false := by simpa [Tok.pctFree] using ht
      show decL (c :: renderToks ts) = _
      rw [decL_cons_ne c _ hc, ih']; rfl
    | esc a b u1 u2 =>
      show decL (37 :: hexd a u1 :: hexd b u2 :: renderToks ts) = _
      rw [decL_pct_ok _ _ _ _ _ (xdigit_hexd a u1) (xdigit_hexd b u2), ih']; rfl
    | plus => exact absurd ht (by simp [Tok.pctFree])

/-- **decoding a rendered path gives the path back** (strict and lenient decoder) -/
theorem decView_render (strict : Bool) (ts : List Tok) (h : ∀ t ∈ ts, t.pctFree) :
    decView strict (renderToks ts) = semToks ts := by
  unfold decView
  cases strict with
  | true => simp only [↓reduceIte, resS, decS_render ts h, List.nil_append]
  | false => simpa using decL_render ts h

/-- no literal '%' or '+' (argument names and values) -/
def Tok.argFree : Tok → Prop
  | .lit c => c ≠ 37 ∧ c ≠ 43
  | _ => True

/-- **decoding a rendered argument string gives it back**: '+' → space first, then the
    percent decoder (strict and lenient) -/
theorem argView_render (strict : Bool) (ts : List Tok) (h : ∀ t ∈ ts, t.argFree) :
    argView strict (renderToks ts) = semToks ts := by
  unfold argView
  rw [plusMap_render ts (fun c hc => (h _ hc).2)]
  rw [decView_render strict _ (by
    intro t ht
    simp only [List.mem_map] at ht
    obtain ⟨t0, ht0, rfl⟩ := ht
    have := h t0 ht0
    cases t0 with
    | lit c => exact this.1
    | esc _ _ _ _ => trivial
    | plus => show cSP ≠ 37; decide)]
  unfold semToks
  rw [List.map_map]
  apply List.map_congr_left
  intro t _; exact val_unplus t

/-! ### arguments -/

/-- rendering of one argument: `key` or `key=value` -/
structure ArgR where
  key : List Tok
  value : Option (List Tok)
  deriving DecidableEq, Repr

def ArgR.render (a : ArgR) : List UInt8 :=
  renderToks a.key ++ match a.value with
    | none => []
    | some v => 61 :: renderToks v

/-- the argument it stands for: name and value, or name only (`value = NULL`) -/
def ArgR.sem (a : ArgR) : List UInt8 × Option (List UInt8) := (semToks a.key, a.value.map semToks)

def ArgR.ok (a : ArgR) : Bool :=
  a.key.all Tok.okKey && match a.value with
    | none => true
    | some v => v.all Tok.okVal

/-- segments joined by '&', optionally followed by one more '&' -/
def renderSegs : List (List UInt8) → Bool → List UInt8
  | [], _ => []
  | [s], tr => s ++ (if tr then [38] else [])
  | s :: s2 :: rest, tr => s ++ 38 :: renderSegs (s2 :: rest) tr

/-- the trailing '&' is possible only after at least one argument and necessary after an empty
    last segment (an argument with empty name and no value) -/
def segsTrailOK : List (List UInt8) → Bool → Bool
  | [], tr => !tr
  | [s], tr => !s.isEmpty || tr
  | _ :: s2 :: rest, tr => segsTrailOK (s2 :: rest) tr

theorem idxOf_append_cons (c : UInt8) (a b : List UInt8) (h : ∀ x ∈ a, x ≠ c) : idxOf c (a ++ c :: b) = some a.length := by
  induction a with
  | nil => simp [idxOf]
  | cons x xs ih =>
    have hx : (x == c) = false := by simpa using h x (by simp)
    simp only [List.cons_append, idxOf, hx, Bool.false_eq_true, ↓reduceIte, ih (fun y hy => h y (by simp [hy]))]
    simp

theorem idxOf_none (c : UInt8) (a : List UInt8) (h : ∀ x ∈ a, x ≠ c) : idxOf c a = none := by
  induction a with
  | nil => rfl
  | cons x xs ih =>
    have hx : (x == c) = false := by simpa using h x (by simp)
    simp only [idxOf, hx, Bool.false_eq_true, ↓reduceIte, ih (fun y hy => h y (by simp [hy]))]
    rfl

theorem specArgs_render (dv : List UInt8 → List UInt8) : ∀ (segs : List (List UInt8)) (tr : Bool),
    (∀ s ∈ segs, ∀ x ∈ s, x ≠ 38) → segsTrailOK segs tr = true →
    specArgs dv (renderSegs segs tr) = segs.map (argEntrySpec dv) := by
  intro segs
  induction segs with
  | nil => intro tr _ _; simp [renderSegs, specArgs_nil]
  | cons s rest ih =>
    intro tr hs hok
    have hs0 := hs s (by simp)
    cases rest with
    | nil =>
      simp only [renderSegs, List.map_cons, List.map_nil]
      cases tr with
      | true =>
        simp only [↓reduceIte]
        rw [specArgs_cons dv (s ++ [38]) s.length (by simp) (idxOf_append_cons 38 s [] hs0)]
        simp [specArgs_nil]
      | false =>
        simp only [Bool.false_eq_true, ↓reduceIte, List.append_nil]
        have hne : s ≠ [] := by
          intro h; subst h; simp [segsTrailOK] at hok
        rw [specArgs_last dv s hne (idxOf_none 38 s hs0)]
    | cons s2 rest2 =>
      simp only [renderSegs, List.map_cons]
      rw [specArgs_cons dv _ s.length (by simp) (idxOf_append_cons 38 s _ hs0)]
      have := ih tr (fun s' hs' => hs s' (by simp [hs'])) (by simpa [segsTrailOK] using hok)
      simp only [List.take_left', List.map_cons] at this ⊢
      rw [show List.drop (s.length + 1) (s ++ 38 :: renderSegs (s2 :: rest2) tr) = renderSegs (s2 :: rest2) tr by
        rw [show s ++ 38 :: renderSegs (s2 :: rest2) tr = (s ++ [38]) ++ renderSegs (s2 :: rest2) tr by simp]
        exact List.drop_left' (by simp)]
      rw [this]

/-! ### facts about the bytes of admissible renderings -/

theorem okPath_bytes (ts : List Tok) (h : ts.all Tok.okPath = true) :
    (∀ t ∈ ts, t.pctFree) ∧ ∀ x ∈ renderToks ts, RLP.rplain x ∧ x ≠ 63 := by
  rw [List.all_eq_true] at h
  constructor
  · intro t ht
    have := h t ht
    cases t with
    | lit c => simp only [Tok.okPath, Bool.and_eq_true, bne_iff_ne, ne_eq] at this; exact this.1.2
    | esc _ _ _ _ => trivial
    | plus => simp [Tok.okPath] at this
  · apply renderToks_all
    · intro c hc
      have := h _ hc
      simp only [Tok.okPath, Bool.and_eq_true, bne_iff_ne, ne_eq] at this
      exact ⟨(rplainB_iff c).mp this.1.1, this.2⟩
    · exact ⟨(rplainB_iff 37).mp (by decide), by decide⟩
    · intro hp; have := h _ hp; simp [Tok.okPath] at this
    · intro n u
      have := hexd_plain n u
      simp only [plainNoDelim, Bool.and_eq_true, bne_iff_ne, ne_eq] at this
      exact ⟨(rplainB_iff _).mp this.1.1.1.1.1, this.2⟩

theorem okKey_bytes (ts : List Tok) (h : ts.all Tok.okKey = true) :
    (∀ t ∈ ts, t.argFree) ∧ ∀ x ∈ renderToks ts, RLP.rplain x ∧ x ≠ 38 ∧ x ≠ 61 := by
  rw [List.all_eq_true] at h
  constructor
  · intro t ht
    have := h t ht
    cases t with
    | lit c => simp only [Tok.okKey, Bool.and_eq_true, bne_iff_ne, ne_eq] at this; exact ⟨this.1.1.1.2, this.1.1.2⟩
    | esc _ _ _ _ => trivial
    | plus => trivial
  · apply renderToks_all
    · intro c hc
      have := h _ hc
      simp only [Tok.okKey, Bool.and_eq_true, bne_iff_ne, ne_eq] at this
      exact ⟨(rplainB_iff c).mp this.1.1.1.1, this.1.2, this.2⟩
    · exact ⟨(rplainB_iff 37).mp (by decide), by decide, by decide⟩
    · intro _; exact ⟨(rplainB_iff 43).mp (by decide), by decide, by decide⟩
    · intro n u
      have := hexd_plain n u
      simp only [plainNoDelim, Bool.and_eq_true, bne_iff_ne, ne_eq] at this
      exact ⟨(rplainB_iff _).mp this.1.1.1.1.1, this.1.1.2, this.1.2⟩

theorem okVal_bytes (ts : List Tok) (h : ts.all Tok.okVal = true) :
    (∀ t ∈ ts, t.argFree) ∧ ∀ x ∈ renderToks ts, RLP.rplain x ∧ x ≠ 38 := by
  rw [List.all_eq_true] at h
  constructor
  · intro t ht
    have := h t ht
    cases t with
    | lit c => simp only [Tok.okVal, Bool.and_eq_true, bne_iff_ne, ne_eq] at this; exact ⟨this.1.1.2, this.1.2⟩
    | esc _ _ _ _ => trivial
    | plus => trivial
  · apply renderToks_all
    · intro c hc
      have := h _ hc
      simp only [Tok.okVal, Bool.and_eq_true, bne_iff_ne, ne_eq] at this
      exact ⟨(rplainB_iff c).mp this.1.1.1, this.2⟩
    · exact ⟨(rplainB_iff 37).mp (by decide), by decide⟩
    · intro _; exact ⟨(rplainB_iff 43).mp (by decide), by decide⟩
    · intro n u
      have := hexd_plain n u
      simp only [plainNoDelim, Bool.and_eq_true, bne_iff_ne, ne_eq] at this
      exact ⟨(rplainB_iff _).mp this.1.1.1.1.1, this.1.1.2⟩

theorem ArgR.ok_parts {a : ArgR} (h : a.ok = true) :
    a.key.all Tok.okKey = true ∧ ∀ v, a.value = some v → v.all Tok.okVal = true := by
  unfold ArgR.ok at h
  rw [Bool.and_eq_true] at h
  refine ⟨h.1, ?_⟩
  intro v hv
  rw [hv] at h
  exact h.2

theorem ArgR.render_bytes {a : ArgR} (h : a.ok = true) : ∀ x ∈ a.render, RLP.rplain x ∧ x ≠ 38 := by
  obtain ⟨hk, hv⟩ := ArgR.ok_parts h
  intro x hx
  unfold ArgR.render at hx
  rw [List.mem_append] at hx
  rcases hx with hx | hx
  · have := (okKey_bytes _ hk).2 x hx; exact ⟨this.1, this.2.1⟩
  · cases hval : a.value with
    | none => rw [hval] at hx; simp at hx
    | some v =>
      rw [hval] at hx
      simp only [List.mem_cons] at hx
      rcases hx with rfl | hx
      · exact ⟨(rplainB_iff 61).mp (by decide), by decide⟩
      · exact (okVal_bytes _ (hv v hval)).2 x hx

/-- **one rendered argument decodes to the argument**: split at the first '=', both halves
    '+'/percent-decoded; no '=' ⇒ no value -/
theorem arg_decode_render (strict : Bool) (a : ArgR) (h : a.ok = true) :
    argEntrySpec (argView strict) a.render = a.sem := by
  obtain ⟨hk, hv⟩ := ArgR.ok_parts h
  have kb := okKey_bytes _ hk
  unfold argEntrySpec ArgR.render ArgR.sem
  cases hval : a.value with
  | none =>
    simp only [List.append_nil, Option.map_none]
    rw [idxOf_none 61 _ (fun x hx => (kb.2 x hx).2.2)]
    simp only [argView_render strict _ kb.1]
  | some v =>
    simp only [Option.map_some]
    rw [idxOf_append_cons 61 _ _ (fun x hx => (kb.2 x hx).2.2)]
    simp only [List.take_left']
    rw [show List.drop ((renderToks a.key).length + 1) (renderToks a.key ++ 61 :: renderToks v) = renderToks v by
      rw [show renderToks a.key ++ 61 :: renderToks v = (renderToks a.key ++ [61]) ++ renderToks v by simp]
      exact List.drop_left' (by simp)]
    rw [argView_render strict _ kb.1, argView_render strict _ (okVal_bytes _ (hv v hval)).1]

theorem renderSegs_bytes (P : UInt8 → Prop) (h38 : P 38) : ∀ (segs : List (List UInt8)) (tr : Bool),
    (∀ s ∈ segs, ∀ x ∈ s, P x) → ∀ x ∈ renderSegs segs tr, P x := by
  intro segs
  induction segs with
  | nil => intro tr _ x hx; simp [renderSegs] at hx
  | cons s rest ih =>
    intro tr hs x hx
    cases rest with
    | nil =>
      simp only [renderSegs, List.mem_append] at hx
      rcases hx with hx | hx
      · exact hs s (by simp) x hx
      · cases tr <;> simp at hx
        subst hx; exact h38
    | cons s2 rest2 =>
      simp only [renderSegs, List.mem_append, List.mem_cons] at hx
      rcases hx with hx | rfl | hx
      · exact hs s (by simp) x hx
      · exact h38
      · exact ih tr (fun s' hs' => hs s' (by simp [hs'])) x hx

/-! ### the whole request target -/

/-- a rendering of a request target: the path, and — if there is a '?' — the arguments
    joined by '&' with an optional trailing '&' -/
structure TargetR where
  path : List Tok
  query : Option (List ArgR × Bool)
  deriving DecidableEq, Repr

def TargetR.render (R : TargetR) : List UInt8 :=
  renderToks R.path ++ match R.query with
    | none => []
    | some (as, tr) => 63 :: renderSegs (as.map ArgR.render) tr

def TargetR.semPath (R : TargetR) : List UInt8 := semToks R.path

def TargetR.semArgs (R : TargetR) : List (List UInt8 × Option (List UInt8)) :=
  match R.query with
  | none => []
  | some (as, _) => as.map ArgR.sem

/-- admissibility of a rendering (decidable): non-empty path of path tokens, every argument
    admissible, trailing '&' consistent -/
def TargetR.ok (R : TargetR) : Bool :=
  !R.path.isEmpty && R.path.all Tok.okPath && match R.query with
    | none => true
    | some (as, tr) => as.all ArgR.ok && segsTrailOK (as.map ArgR.render) tr

theorem TargetR.ok_parts {R : TargetR} (h : R.ok = true) :
    R.path ≠ [] ∧ R.path.all Tok.okPath = true ∧
      ∀ as tr, R.query = some (as, tr) → as.all ArgR.ok = true ∧ segsTrailOK (as.map ArgR.render) tr = true := by
  unfold TargetR.ok at h
  simp only [Bool.and_eq_true, Bool.not_eq_true', List.isEmpty_eq_false_iff] at h
  refine ⟨h.1.1, h.1.2, ?_⟩
  intro as tr hq
  rw [hq] at h
  simpa using h.2

theorem renderToks_ne_nil {ts : List Tok} (h : ts ≠ []) : renderToks ts ≠ [] := by
  cases ts with
  | nil => exact absurd rfl h
  | cons t ts => cases t <;> simp [renderToks, Tok.render]

/-- every byte of an admissible rendering is a request-line token character; it is not empty -/
theorem TargetR.render_bytes {R : TargetR} (h : R.ok = true) : R.render ≠ [] ∧ ∀ x ∈ R.render, RLP.rplain x := by
  obtain ⟨hp0, hp, hq⟩ := TargetR.ok_parts h
  constructor
  · unfold TargetR.render
    intro he
    exact renderToks_ne_nil hp0 (List.append_eq_nil_iff.mp he).1
  · intro x hx
    unfold TargetR.render at hx
    rw [List.mem_append] at hx
    rcases hx with hx | hx
    · exact ((okPath_bytes _ hp).2 x hx).1
    · cases hqq : R.query with
      | none => rw [hqq] at hx; simp at hx
      | some q =>
        obtain ⟨as, tr⟩ := q
        rw [hqq] at hx
        simp only [List.mem_cons] at hx
        rcases hx with rfl | hx
        · exact (rplainB_iff 63).mp (by decide)
        · have hall := (hq as tr hqq).1
          rw [List.all_eq_true] at hall
          refine renderSegs_bytes RLP.rplain ((rplainB_iff 38).mp (by decide)) _ tr ?_ x hx
          intro s hs y hy
          simp only [List.mem_map] at hs
          obtain ⟨a, ha, rfl⟩ := hs
          exact (ArgR.render_bytes (hall a ha) y hy).1

/-- **decode (render x) = x for the request target**: for every admissible rendering, the
    reference decoding (split at the first '?', the query at every '&', each segment at its
    first '=', '+' → space, percent-decoding — strict or lenient) returns the path and the
    argument list the rendering stands for: in order, with multiplicity, name-only arguments
    without value. -/
theorem target_decode_render (strict : Bool) (R : TargetR) (h : R.ok = true) :
    decView strict (pathOf R.render) = R.semPath ∧
      specArgs (argView strict) (queryOf R.render) = R.semArgs := by
  obtain ⟨_, hp, hq⟩ := TargetR.ok_parts h
  have pb := okPath_bytes _ hp
  unfold pathOf queryOf TargetR.render TargetR.semPath TargetR.semArgs
  cases hqq : R.query with
  | none =>
    simp only [List.append_nil]
    rw [idxOf_none 63 _ (fun x hx => (pb.2 x hx).2)]
    exact ⟨decView_render strict _ pb.1, specArgs_nil _⟩
  | some q =>
    obtain ⟨as, tr⟩ := q
    simp only
    rw [idxOf_append_cons 63 _ _ (fun x hx => (pb.2 x hx).2)]
    simp only [List.take_left']
    rw [show List.drop ((renderToks R.path).length + 1) (renderToks R.path ++ 63 :: renderSegs (as.map ArgR.render) tr)
        = renderSegs (as.map ArgR.render) tr by
      rw [show renderToks R.path ++ 63 :: renderSegs (as.map ArgR.render) tr
          = (renderToks R.path ++ [63]) ++ renderSegs (as.map ArgR.render) tr by simp]
      exact List.drop_left' (by simp)]
    refine ⟨decView_render strict _ pb.1, ?_⟩
    obtain ⟨hall, htr⟩ := hq as tr hqq
    rw [List.all_eq_true] at hall
    rw [specArgs_render _ _ tr ?_ htr, List.map_map]
    · apply List.map_congr_left
      intro a ha
      exact arg_decode_render strict a (hall a ha)
    · intro s hs x hx
      simp only [List.mem_map] at hs
      obtain ⟨a, ha, rfl⟩ := hs
      exact (ArgR.render_bytes (hall a ha) x hx).2

/-! ## composition with the request-line scanner -/

theorem BufIs_congr {b b' : Bytes} {off : Nat} {w : List UInt8} (h : BufIs b off w)
    (he : ∀ i, i < w.length → b'[off + i]? = b[off + i]?) : BufIs b' off w :=
  fun i hi => by rw [he i hi]; exact h i hi

theorem rplain_ne0 {c : UInt8} (h : RLP.rplain c) : c ≠ 0 := h.2.2.2.2.2.2

/-- **Request line incl. target decoding: the application is given exactly the method, the
    path, the arguments and the version the client sent.**  Whitespace blocks not merged
    (levels ≥ 0); the line is `method SP target SP version CRLF` where `target` is *any*
    admissible rendering `R` of a (path, argument list) pair.  Then `get_request_line`
    (inner scanner + whitespace check + `process_request_target`) succeeds with the record
    `T`: the decoded URL is the path, the argument elements are the arguments (in order,
    with multiplicity, name-only arguments without value), the raw target shown to the URI
    logger is the target as sent; method and version strings are intact. -/
theorem reqline_target_roundtrip (F : RLFlags) (hB : F.wspBlocks = false) (strict : Bool) (pool : Nat)
    (buf0 : Bytes) (rb : Nat) (m v : List UInt8) (R : TargetR) (hv : Int) (hrb : rb ≤ buf0.size) (hm0 : m ≠ [])
    (hm : ∀ c ∈ m, RLP.rplain c ∧ c ≠ 63) (hR : R.ok = true) (hvl : v.length = 8)
    (hvc : ∀ c ∈ v, RLP.rplain c ∧ c ≠ 63) (hpv : parseHttpVersion v = .ok hv)
    (hbuf : BufIs buf0 rb (m ++ [cSP] ++ R.render ++ ([cSP] ++ v ++ [cCR, cLF]))) :
    ∃ T, getRequestLineOuter F strict pool ((rlScanner F).run (RL.init buf0 rb)) = .ok T ∧
      T.rawTarget = R.render ∧
      sliceBytes T.buf ⟨0, T.url, T.urlLen⟩ = R.semPath ∧
      T.elems.map (HSP.elemView T.buf) = R.semArgs.map (fun kv => (Gen.Http.kindGetArgument, kv.1, kv.2)) ∧
      BufIs T.buf T.method (m ++ [0]) ∧ T.methodLen = m.length ∧ T.mthd = stdMethodOf m ∧
      BufIs T.buf T.version (v ++ [0]) ∧ T.httpVer = hv ∧
      T.rb = rb + (m.length + R.render.length + 12) := by
  obtain ⟨ht0, ht⟩ := TargetR.render_bytes hR
  obtain ⟨r, hr, ok⟩ := RLP.reqline_roundtrip F hB buf0 rb m R.render v hv hrb hm0 ht0 hm ht hvl hvc hpv hbuf
  have vw := ok.views rfl rfl hvl hbuf
  have wf : TargetWF r R.render := by
    refine ⟨vw.2.1, fun x hx => rplain_ne0 (ht x hx), ok.e_tl, ?_⟩
    rw [ok.e_q, ok.e_tgt, firstQ_eq]
  obtain ⟨T, hT, h1, h2, h3, _, h5, _, _, h8, h9, h10, h11, h12, h13, h14, _⟩ := processRequestTarget_spec strict r R.render wf
  obtain ⟨d1, d2⟩ := target_decode_render strict R hR
  refine ⟨T, ?_, h1, by rw [h3, d1], by rw [h5, d2], ?_, by rw [h13, ok.e_ml], by rw [h14, ok.e_mt], ?_,
    by rw [h12, ok.e_hv], by rw [h9, ok.e_rb]⟩
  · rw [hr]
    unfold getRequestLineOuter lineWspCheck
    simp only [ok.e_nw, ne_eq, not_true_eq_false, ↓reduceIte, hT]
  · rw [h10]
    refine BufIs_congr vw.1 (fun i hi => h8 _ (Or.inl ?_))
    rw [ok.e_method, ok.e_tgt]
    simp at hi; omega
  · rw [h11]
    refine BufIs_congr vw.2.2 (fun i hi => h8 _ (Or.inr ?_))
    rw [ok.e_ver, ok.e_tgt]
    omega

end TGT
end Mhd.Req
