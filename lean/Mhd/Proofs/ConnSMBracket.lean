/-
  C05 — the connection notifications bracket everything: the shape of every log the protocol automaton accepts.
-/
import Mhd.Model.Protocol
namespace Mhd.Protocol

/-- connection notifications -/
def isNotify : LEv → Bool
  | .connStart => true
  | .connClose => true
  | _ => false

def isFree : LEv → Bool
  | .freeCb _ => true
  | _ => false

/-- between the start and the close notification -/
def inside : PSt → Bool
  | .idle => true
  | .req _ => true
  | _ => false

theorem step_inside (p : PSt) (e : LEv) (hp : inside p = true) (he : isNotify e = false) :
    inside (step p e) = true ∨ step p e = .bad := by
  cases p <;> simp [inside] at hp <;> cases e <;> simp [isNotify] at he <;>
    simp only [step, handlerStep] <;> (repeat' split) <;> simp [inside]

theorem step_inside_start (p : PSt) (hp : inside p = true) : step p .connStart = .bad := by
  cases p <;> simp [inside] at hp <;> rfl

theorem step_inside_close (p : PSt) (hp : inside p = true) : step p .connClose = .closed ∨ step p .connClose = .bad := by
  cases p <;> simp [inside] at hp
  · left; rfl
  · right; rfl

theorem step_closed (e : LEv) : step .closed e = if isFree e = true then .closed else .bad := by
  cases e <;> rfl

theorem run_closed : ∀ (log : List LEv), run .closed log = .closed → ∀ e ∈ log, isFree e = true := by
  intro log
  induction log with
  | nil => intro _ e he; cases he
  | cons a t ih =>
    intro h e he
    simp only [run, List.foldl_cons, step_closed] at h
    by_cases ha : isFree a = true
    · simp only [ha, if_true] at h
      rcases List.mem_cons.mp he with rfl | h2
      · exact ha
      · exact ih h e h2
    · simp only [ha] at h
      have := run_bad t; simp only [run] at this
      simp [this] at h

/-- the shape of what follows an accepted start notification -/
theorem run_inside : ∀ (log : List LEv) (p : PSt), inside p = true →
    (inside (run p log) = true ∧ ∀ e ∈ log, isNotify e = false) ∨
    (run p log = .closed ∧ ∃ mid tail, log = mid ++ .connClose :: tail ∧ (∀ e ∈ mid, isNotify e = false) ∧
        ∀ e ∈ tail, isFree e = true) ∨
    run p log = .bad := by
  intro log
  induction log with
  | nil => intro p hp; left; exact ⟨hp, fun e he => (by cases he)⟩
  | cons a t ih =>
    intro p hp
    have hrun : run p (a :: t) = run (step p a) t := rfl
    rw [hrun]
    by_cases hn : isNotify a = true
    · -- a notification
      cases a <;> simp [isNotify] at hn
      · right; right; rw [step_inside_start p hp]; exact run_bad t
      · rcases step_inside_close p hp with h | h
        · rw [h]
          by_cases hc : run .closed t = .closed
          · right; left
            exact ⟨hc, [], t, rfl, fun e he => (by cases he), run_closed t hc⟩
          · right; right
            -- from `closed` the automaton stays `closed` or goes `bad`
            have : ∀ (l : List LEv), run .closed l = .closed ∨ run .closed l = .bad := by
              intro l
              induction l with
              | nil => left; rfl
              | cons b l ihl =>
                have e1 : run .closed (b :: l) = run (step .closed b) l := rfl
                rw [e1, step_closed]
                split
                · exact ihl
                · right; exact run_bad l
            rcases this t with h1 | h1
            · exact absurd h1 hc
            · exact h1
        · right; right; rw [h]; exact run_bad t
    · have hn' : isNotify a = false := by cases h : isNotify a <;> simp_all
      rcases step_inside p a hp hn' with h | h
      · rcases ih (step p a) h with ⟨h1, h2⟩ | ⟨h1, mid, tail, h2, h3, h4⟩ | h1
        · left
          refine ⟨h1, ?_⟩
          intro e he
          rcases List.mem_cons.mp he with rfl | h5
          · exact hn'
          · exact h2 e h5
        · right; left
          refine ⟨h1, a :: mid, tail, by rw [h2]; rfl, ?_, h4⟩
          intro e he
          rcases List.mem_cons.mp he with rfl | h5
          · exact hn'
          · exact h3 e h5
        · right; right; exact h1
      · right; right; rw [h]; exact run_bad t

/-- Start / close notifications are paired and bracket everything.  An accepted log is empty (the connection
    was never announced), or it begins with the start notification and then either contains no further
    notification (the connection is still open), or exactly one close notification, after which nothing but
    free callbacks of response objects follows: no second start, no second close, no handler call, URI log,
    upgrade or completion callback before the start or after the close. -/
theorem accepts_bracket (log : List LEv) (h : accepts log) :
    log = [] ∨ ∃ rest, log = .connStart :: rest ∧
      ((∀ e ∈ rest, isNotify e = false) ∨
       ∃ mid tail, rest = mid ++ .connClose :: tail ∧ (∀ e ∈ mid, isNotify e = false) ∧ ∀ e ∈ tail, isFree e = true) := by
  cases log with
  | nil => left; rfl
  | cons a t =>
    right
    unfold accepts at h
    have hrun : run .fresh (a :: t) = run (step .fresh a) t := rfl
    rw [hrun] at h
    cases a with
    | connStart =>
      refine ⟨t, rfl, ?_⟩
      have e1 : step .fresh .connStart = .idle := rfl
      rw [e1] at h
      rcases run_inside t .idle rfl with ⟨_, h2⟩ | ⟨_, h2⟩ | h1
      · left; exact h2
      · right; exact h2
      · exact absurd h1 h
    | _ => exact absurd (run_bad t) h

/-- … and a complete log has both notifications -/
theorem complete_bracket (log : List LEv) (h : complete log) :
    ∃ mid tail, log = .connStart :: (mid ++ .connClose :: tail) ∧ (∀ e ∈ mid, isNotify e = false) ∧
      ∀ e ∈ tail, isFree e = true := by
  unfold complete at h
  cases log with
  | nil => cases h
  | cons a t =>
    have hrun : run .fresh (a :: t) = run (step .fresh a) t := rfl
    rw [hrun] at h
    cases a with
    | connStart =>
      have e1 : step .fresh .connStart = .idle := rfl
      rw [e1] at h
      rcases run_inside t .idle rfl with ⟨h1, _⟩ | ⟨_, mid, tail, h2, h3, h4⟩ | h1
      · rw [h] at h1; cases h1
      · exact ⟨mid, tail, by rw [h2], h3, h4⟩
      · rw [h] at h1; cases h1
    | _ => rw [show step .fresh _ = .bad from rfl, run_bad] at h; cases h

end Mhd.Protocol
