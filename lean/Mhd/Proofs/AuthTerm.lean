/-
  C14 helper lemmas, part 6: the byte behind the string only matters when it is a semicolon.
-/
import Mhd.Proofs.AuthSafe
namespace Mhd.Auth
open Mhd.Gen.Auth

/-! ### the byte behind the string only matters when it is ';' -/

theorem scanQ_term (t t' : UInt8) : ∀ (n : Nat) (s : Bytes), s.length ≤ n → scanQ (some t) s = scanQ (some t') s := by
  intro n
  induction n with
  | zero => intro s h; cases s with
    | nil => simp [scanQ_nil]
    | cons c r => simp at h
  | succ n ih =>
    intro s h
    cases s with
    | nil => simp [scanQ_nil]
    | cons c r =>
      by_cases h34 : c = 34
      · subst h34; simp [scanQ_quote]
      · by_cases h92 : c = 92
        · subst h92
          cases r with
          | nil => simp [scanQ_bs_end_some]
          | cons c2 r2 =>
            by_cases h0 : c2 = 0
            · subst h0; simp [scanQ_esc0]
            · rw [scanQ_esc _ _ _ h0, scanQ_esc _ _ _ h0, ih r2 (by simp at h; omega)]
        · by_cases h0 : c = 0
          · subst h0; simp [scanQ_zero]
          · rw [scanQ_plain _ _ _ h34 h92 h0, scanQ_plain _ _ _ h34 h92 h0, ih r (by simp at h; omega)]

theorem scanTok_term (t : UInt8) (ht : t ≠ 59) (s : Bytes) : scanTok (some t) s = scanTok (some 0) s := by
  induction s with
  | nil => simp [scanTok_nil_some, ht]
  | cons c r ih => rw [scanTok_cons, scanTok_cons, ih]

theorem valueAt_term (t : UInt8) (ht : t ≠ 59) (s : Bytes) : valueAt (some t) s = valueAt (some 0) s := by
  unfold valueAt
  rw [scanTok_term t ht]
  cases s with
  | nil => rfl
  | cons c r => simp only [scanQ_term t 0 r.length r (Nat.le_refl _)]

theorem knownValue_term (t : UInt8) (ht : t ≠ 59) (s : Bytes) : knownValue (some t) s = knownValue (some 0) s := by
  unfold knownValue
  simp only [valueAt_term t ht]

theorem paramLoop_term (t : UInt8) (ht : t ≠ 59) (n fuel : Nat) :
    ∀ (st : Slots) (inp : Bytes), paramLoop (some t) n fuel st inp = paramLoop (some 0) n fuel st inp := by
  induction fuel with
  | zero => intro st inp; simp [paramLoop.eq_1]
  | succ f ih =>
    intro st inp
    cases inp with
    | nil => simp [paramLoop.eq_2]
    | cons c r =>
      rw [paramLoop.eq_3, paramLoop.eq_3]
      simp only [knownValue_term t ht, ih]

/-- the result does not depend on the byte stored at `str[str_len]` unless that byte is ';' -/
theorem parseDigest_term (s : Bytes) (t : UInt8) (ht : t ≠ 59) : parseDigest s (some t) = parseDigest s (some 0) := by
  unfold parseDigest
  rw [paramLoop_term t ht]

end Mhd.Auth
