/-
  The multipart machine for ARBITRARY input: frame facts about `find_boundary`,
  `process_multipart_headers`, `process_value_to_boundary`, the `skip_rn` pre-machine and the
  main switch — what they may do to the buffer window, to `ioff`, to the event log and to the
  control state (`Ctl`: no fault, only multipart states, nested states only with a nested boundary).
-/
import Mhd.Proofs.PPSpec
namespace Mhd.PP

/-- fields that the multipart helper functions never touch -/
def Frame (pp pp1 : PP) : Prop :=
  pp1.fault = pp.fault ∧ pp1.nested = pp.nested ∧ pp1.bufferSize = pp.bufferSize ∧ pp1.isUrl = pp.isUrl

theorem findByte_lt (c : UInt8) : ∀ (l : Bytes) (k : Nat), findByte c l = some k → k < l.length
  | [], k, h => by simp [findByte] at h
  | x :: t, k, h => by
    simp only [findByte] at h
    by_cases hx : x = c
    · simp [hx] at h; subst h; simp
    · simp only [hx, if_false, Option.map_eq_some_iff] at h
      obtain ⟨k', hk', rfl⟩ := h
      have := findByte_lt c t k' hk'
      simp; omega

theorem findBoundary_spec (pp : PP) (b : Bytes) (ioff : Nat) (next nd : St) :
    Frame pp (findBoundary pp b ioff next nd).1 ∧ (findBoundary pp b ioff next nd).1.buf = pp.buf ∧
    (findBoundary pp b ioff next nd).1.evs = pp.evs ∧ ioff ≤ (findBoundary pp b ioff next nd).2.1 ∧
    (findBoundary pp b ioff next nd).2.1 ≤ ioff + pp.buf.length ∧
    ((findBoundary pp b ioff next nd).1.state = pp.state ∨ (findBoundary pp b ioff next nd).1.state = .error ∨
      (findBoundary pp b ioff next nd).1.state = next) ∧
    ((findBoundary pp b ioff next nd).1.dashState = pp.dashState ∨ (findBoundary pp b ioff next nd).1.dashState = nd) ∧
    ((findBoundary pp b ioff next nd).2.2 = true → (findBoundary pp b ioff next nd).1.state = next) := by
  unfold findBoundary Frame
  by_cases h1 : pp.buf.length < 2 + b.length
  · simp only [h1, if_true]
    by_cases h2 : pp.buf.length = pp.bufferSize <;> simp only [h2, if_true, if_false] <;> simp
  · simp only [h1, if_false]
    by_cases h2 : slice pp.buf 0 2 ≠ sDashDash ∨ slice pp.buf 2 (2 + b.length) ≠ b
    · simp only [h2, if_true]
      by_cases h3 : pp.state ≠ .init
      · simp [h3]
      · simp only [h3, if_false]
        cases hf : findByte cDash pp.buf with
        | none => simp
        | some k =>
          have := findByte_lt _ _ _ hf
          cases k with
          | zero => simp; omega
          | succ k => simp; omega
    · simp only [h2, if_false]
      simp; omega



theorem lineEnd_le : ∀ (l : Bytes), lineEnd l ≤ l.length
  | [] => by simp [lineEnd]
  | c :: t => by
    simp only [lineEnd]
    split
    · simp
    · have := lineEnd_le t; simp; omega

theorem processMultipartHeaders_spec (pp : PP) (ioff : Nat) (next : St) :
    Frame pp (processMultipartHeaders pp ioff next).1 ∧ (processMultipartHeaders pp ioff next).1.evs = pp.evs ∧
    (processMultipartHeaders pp ioff next).1.dashState = pp.dashState ∧
    ((processMultipartHeaders pp ioff next).1.state = pp.state ∨ (processMultipartHeaders pp ioff next).1.state = .error ∨
      (processMultipartHeaders pp ioff next).1.state = next) ∧
    (((processMultipartHeaders pp ioff next).1.buf = pp.buf ∧ (processMultipartHeaders pp ioff next).2.1 = ioff) ∨
      ∃ nl, nl < pp.buf.length ∧ (processMultipartHeaders pp ioff next).1.buf = pp.buf.set nl 0 ∧
        (processMultipartHeaders pp ioff next).2.1 = ioff + nl + 1 ∧
        (processMultipartHeaders pp ioff next).2.2 = true) := by
  unfold processMultipartHeaders Frame
  by_cases h1 : lineEnd pp.buf = pp.bufferSize
  · simp [h1]
  · simp only [h1, if_false]
    by_cases h2 : lineEnd pp.buf = pp.buf.length
    · simp [h2]
    · simp only [h2, if_false]
      by_cases h3 : lineEnd pp.buf = 0
      · simp [h3]
      · simp only [h3, if_false]
        have hlt : lineEnd pp.buf < pp.buf.length := by have := lineEnd_le pp.buf; omega
        rw [List.getElem?_eq_getElem hlt]
        simp only
        refine ⟨?_, ?_, ?_, ?_, Or.inr ⟨lineEnd pp.buf, hlt, ?_, rfl, trivial⟩⟩
        · split <;> split <;> simp
        · split <;> split <;> simp
        · split <;> split <;> simp
        · split <;> split <;> simp
        · split <;> split <;> simp


theorem scanCR_le (buf : Bytes) (n : Nat) (hn : n ≤ buf.length) : scanCR buf n ≤ buf.length := by
  induction n using scanCR.induct (buf := buf) with
  | case1 n h hf => rw [scanCR]; simp [h, hf]
  | case2 n h k hf hs =>
    rw [scanCR]; simp [h, hf, hs]
    have := findByte_lt _ _ _ hf
    simp [slice] at this; omega
  | case3 n h k hf hs ih =>
    rw [scanCR]; simp [h, hf, hs]
    apply ih
    have := findByte_lt _ _ _ hf
    simp [slice] at this; omega
  | case4 n h => rw [scanCR]; simp [h]; exact hn

theorem scanBoundary_bound (buf b : Bytes) (sz : Nat) (n0 : Nat) (hn : n0 ≤ buf.length) :
    match scanBoundary buf b sz n0 with
    | .found nl => nl + b.length + 4 ≤ buf.length
    | .partialAt nl => nl ≤ buf.length
    | .oom => True := by
  induction n0 using scanBoundary.induct (buf := buf) (boundary := b) (bufferSize := sz) with
  | case1 n0 nl h hne ih =>
    have h' : scanCR buf n0 + b.length + 4 ≤ buf.length := h
    have hne' : slice buf (scanCR buf n0 + 4) (scanCR buf n0 + 4 + b.length) ≠ b := hne
    rw [scanBoundary]
    simp only [h', dite_true, hne', ne_eq, not_false_eq_true, if_true]
    apply ih
    show scanCR buf n0 + 4 ≤ buf.length
    omega
  | case2 n0 nl h hne =>
    have h' : scanCR buf n0 + b.length + 4 ≤ buf.length := h
    have hne' : ¬ slice buf (scanCR buf n0 + 4) (scanCR buf n0 + 4 + b.length) ≠ b := hne
    rw [scanBoundary]
    simp only [h', dite_true, hne', if_false]
  | case3 n0 nl h hz =>
    have h' : ¬ scanCR buf n0 + b.length + 4 ≤ buf.length := h
    have hz' : scanCR buf n0 = 0 ∧ buf.length = sz := hz
    rw [scanBoundary]
    rw [dif_neg h', if_pos hz']
    trivial
  | case4 n0 nl h hz =>
    have h' : ¬ scanCR buf n0 + b.length + 4 ≤ buf.length := h
    have hz' : ¬ (scanCR buf n0 = 0 ∧ buf.length = sz) := hz
    rw [scanBoundary]
    rw [dif_neg h', if_neg hz']
    exact scanCR_le buf n0 hn


theorem pvtbDeliver_spec (pp : PP) (ioff nl : Nat) (h : nl ≤ pp.buf.length) :
    Frame pp (pvtbDeliver pp ioff nl).1 ∧ (pvtbDeliver pp ioff nl).1.state = pp.state ∧
    (pvtbDeliver pp ioff nl).1.dashState = pp.dashState ∧ (pvtbDeliver pp ioff nl).1.buf = pp.buf ∧
    (pvtbDeliver pp ioff nl).2.1 = ioff + nl ∧ (pvtbDeliver pp ioff nl).2.2 = true ∧
    ((pvtbDeliver pp ioff nl).1.evs = pp.evs ∨
      ∃ e, (pvtbDeliver pp ioff nl).1.evs = pp.evs ++ [e] ∧ e.data = pp.buf.take nl) := by
  unfold pvtbDeliver Frame
  have : ¬ nl > pp.buf.length := by omega
  simp only [this, if_false]
  by_cases hc : pp.mustIkvi = true ∨ nl ≠ 0
  · simp only [hc, if_true]
    simp [emitMulti]
  · simp only [hc, if_false]
    simp

theorem processValueToBoundary_spec (pp : PP) (ioff : Nat) (b : Bytes) (next nd : St) :
    Frame pp (processValueToBoundary pp ioff b next nd).1 ∧
    ((processValueToBoundary pp ioff b next nd).1.state = pp.state ∨
      (processValueToBoundary pp ioff b next nd).1.state = .error ∨
      (processValueToBoundary pp ioff b next nd).1.state = next) ∧
    ((processValueToBoundary pp ioff b next nd).1.dashState = pp.dashState ∨
      (processValueToBoundary pp ioff b next nd).1.dashState = nd) ∧
    ioff ≤ (processValueToBoundary pp ioff b next nd).2.1 ∧
    (processValueToBoundary pp ioff b next nd).2.1 ≤ ioff + pp.buf.length ∧
    ((processValueToBoundary pp ioff b next nd).1.buf = pp.buf ∨
      ∃ nl, nl < pp.buf.length ∧ (processValueToBoundary pp ioff b next nd).1.buf = pp.buf.set nl 0 ∧
        ioff + nl < (processValueToBoundary pp ioff b next nd).2.1 ∧
        (processValueToBoundary pp ioff b next nd).2.2 = true) ∧
    ((processValueToBoundary pp ioff b next nd).1.evs = pp.evs ∨
      ∃ e nl, (processValueToBoundary pp ioff b next nd).1.evs = pp.evs ++ [e] ∧ e.data = pp.buf.take nl) := by
  unfold processValueToBoundary
  have hb := scanBoundary_bound pp.buf b pp.bufferSize 0 (Nat.zero_le _)
  cases hs : scanBoundary pp.buf b pp.bufferSize 0 with
  | oom => simp [Frame]
  | partialAt nl =>
    rw [hs] at hb
    simp only at hb ⊢
    obtain ⟨f, s1, s2, s3, s4, _, s5⟩ := pvtbDeliver_spec pp ioff nl hb
    refine ⟨f, Or.inl s1, Or.inl s2, by omega, by omega, Or.inl s3, ?_⟩
    rcases s5 with h | ⟨e, h1, h2⟩
    · exact Or.inl h
    · exact Or.inr ⟨e, nl, h1, h2⟩
  | found nl =>
    rw [hs] at hb
    simp only at hb ⊢
    have hl : nl ≤ ({ pp with skipRn := .dash, state := next, dashState := nd, buf := pp.buf.set nl 0 } : PP).buf.length := by
      simp; omega
    obtain ⟨f, s1, s2, s3, s4, s6, s5⟩ := pvtbDeliver_spec
      { pp with skipRn := .dash, state := next, dashState := nd, buf := pp.buf.set nl 0 } (ioff + b.length + 4) nl hl
    refine ⟨?_, Or.inr (Or.inr s1), Or.inr s2, by omega, by omega, Or.inr ⟨nl, by omega, s3, by omega, s6⟩, ?_⟩
    · exact f
    · rcases s5 with h | ⟨e, h1, h2⟩
      · exact Or.inl h
      · refine Or.inr ⟨e, nl, h1, ?_⟩
        rw [h2]
        simp [List.take_set_of_le]


def MpState (s : St) : Prop := s ≠ .processKey ∧ s ≠ .processValue ∧ s ≠ .callback

def NeedsNested (s : St) : Prop :=
  s = .nestedProcessValueToBoundary ∨ s = .nestedPerformCleanup ∨ s = .nestedProcessEntryHeaders ∨
  s = .nestedPerformMarking

def DashOk (s : St) : Prop := s = .error ∨ s = .done ∨ s = .nextBoundary

/-- control part of the invariant of the multipart machine -/
structure Ctl (pp : PP) : Prop where
  fault : pp.fault = none
  url : pp.isUrl = false
  st : MpState pp.state
  dst : DashOk pp.dashState
  nest : NeedsNested pp.state → pp.nested.isSome = true

/-- what one pass through the main `switch` may do to the buffer, `ioff` and the event log -/
structure Out (pp : PP) (i0 : Nat) (pp' : PP) (i1 : Nat) (fl : Flow) : Prop where
  ctl : Ctl pp'
  size : pp'.bufferSize = pp.bufferSize
  lo : i0 ≤ i1
  hi : i1 ≤ i0 + pp.buf.length
  buf : pp'.buf = pp.buf ∨ ∃ nl, nl < pp.buf.length ∧ pp'.buf = pp.buf.set nl 0 ∧ i0 + nl < i1 ∧ fl = .again
  evs : ∀ e ∈ pp'.evs, e ∈ pp.evs ∨ ∃ nl, e.data = pp.buf.take nl

theorem DashOk.mp {s : St} (h : DashOk s) : MpState s := by
  rcases h with h | h | h <;> subst h <;> simp [MpState]

theorem DashOk.not_nested {s : St} (h : DashOk s) : ¬ NeedsNested s := by
  rcases h with h | h | h <;> subst h <;> simp [NeedsNested]



theorem ctl_step {pp pp1 : PP} {next nd : St} (hC : Ctl pp) (F : Frame pp pp1)
    (hs : pp1.state = pp.state ∨ pp1.state = .error ∨ pp1.state = next)
    (hd : pp1.dashState = pp.dashState ∨ pp1.dashState = nd)
    (hnext : MpState next) (hnd : DashOk nd) (hnn : NeedsNested next → pp.nested.isSome = true) : Ctl pp1 := by
  obtain ⟨f1, f2, f3, f4⟩ := F
  refine ⟨by rw [f1]; exact hC.fault, by rw [f4]; exact hC.url, ?_, ?_, ?_⟩
  · rcases hs with h | h | h <;> rw [h]
    · exact hC.st
    · simp [MpState]
    · exact hnext
  · rcases hd with h | h <;> rw [h]
    · exact hC.dst
    · exact hnd
  · rw [f2]
    rcases hs with h | h | h <;> rw [h]
    · exact hC.nest
    · intro hn; simp [NeedsNested] at hn
    · exact hnn

theorem frame_with_state (pp : PP) (s : St) : Frame pp { pp with state := s } := ⟨rfl, rfl, rfl, rfl⟩

theorem out_flowFound (pp : PP) (l : ML) (r : PP × Nat × Bool) (hctl : Ctl r.1) (hsz : r.1.bufferSize = pp.bufferSize)
    (hlo : l.ioff ≤ r.2.1) (hhi : r.2.1 ≤ l.ioff + pp.buf.length) (hbuf : r.1.buf = pp.buf) (hevs : r.1.evs = pp.evs) :
    Out pp l.ioff (flowFound r l).1 (flowFound r l).2.1.ioff (flowFound r l).2.2 := by
  have hout : ∀ fl, Out pp l.ioff r.1 r.2.1 fl :=
    fun fl => ⟨hctl, hsz, hlo, hhi, Or.inl hbuf, fun e he => Or.inl (hevs ▸ he)⟩
  unfold flowFound
  split
  · exact hout _
  · split <;> exact hout _

theorem out_flowHeaders (pp : PP) (l : ML) (r : PP × Nat × Bool) (hctl : Ctl r.1) (hsz : r.1.bufferSize = pp.bufferSize)
    (hevs : r.1.evs = pp.evs)
    (hbuf : (r.1.buf = pp.buf ∧ r.2.1 = l.ioff) ∨
      ∃ nl, nl < pp.buf.length ∧ r.1.buf = pp.buf.set nl 0 ∧ r.2.1 = l.ioff + nl + 1 ∧ r.2.2 = true) :
    Out pp l.ioff (flowHeaders r l).1 (flowHeaders r l).2.1.ioff (flowHeaders r l).2.2 := by
  unfold flowHeaders
  rcases hbuf with ⟨c1, c2⟩ | ⟨nl, c1, c2, c3, c4⟩
  · have hout : ∀ fl, Out pp l.ioff r.1 r.2.1 fl :=
      fun fl => ⟨hctl, hsz, by omega, by omega, Or.inl c1, fun e he => Or.inl (hevs ▸ he)⟩
    split
    · exact hout _
    · split <;> exact hout _
  · rw [if_pos c4]
    exact ⟨hctl, hsz, by show l.ioff ≤ r.2.1; omega, by show r.2.1 ≤ _; omega,
      Or.inr ⟨nl, c1, c2, by show l.ioff + nl < r.2.1; omega, rfl⟩, fun e he => Or.inl (hevs ▸ he)⟩

theorem out_flowValue (pp : PP) (l : ML) (r : PP × Nat × Bool) (hctl : Ctl r.1) (hsz : r.1.bufferSize = pp.bufferSize)
    (hlo : l.ioff ≤ r.2.1) (hhi : r.2.1 ≤ l.ioff + pp.buf.length)
    (hbuf : r.1.buf = pp.buf ∨ ∃ nl, nl < pp.buf.length ∧ r.1.buf = pp.buf.set nl 0 ∧ l.ioff + nl < r.2.1 ∧ r.2.2 = true)
    (hevs : r.1.evs = pp.evs ∨ ∃ e nl, r.1.evs = pp.evs ++ [e] ∧ e.data = pp.buf.take nl) :
    Out pp l.ioff (flowValue r l).1 (flowValue r l).2.1.ioff (flowValue r l).2.2 := by
  have hev : ∀ e ∈ r.1.evs, e ∈ pp.evs ∨ ∃ nl, e.data = pp.buf.take nl := by
    intro e he
    rcases hevs with h | ⟨e', nl, h1, h2⟩
    · exact Or.inl (h ▸ he)
    · rw [h1] at he
      simp at he
      rcases he with he | he
      · exact Or.inl he
      · exact Or.inr ⟨nl, he ▸ h2⟩
  unfold flowValue
  rcases hbuf with c1 | ⟨nl, c1, c2, c3, c4⟩
  · split
    · exact ⟨hctl, hsz, hlo, hhi, Or.inl c1, hev⟩
    · exact ⟨hctl, hsz, hlo, hhi, Or.inl c1, hev⟩
  · have : ¬ (¬ r.2.2 = true ∧ r.1.state = .error) := fun h => h.1 c4
    rw [if_neg this]
    exact ⟨hctl, hsz, hlo, hhi, Or.inr ⟨nl, c1, c2, c3, rfl⟩, hev⟩



theorem out_simple (pp pp1 : PP) (i : Nat) (fl : Flow) (hctl : Ctl pp1) (hsz : pp1.bufferSize = pp.bufferSize)
    (hbuf : pp1.buf = pp.buf) (hevs : pp1.evs = pp.evs) : Out pp i pp1 i fl :=
  ⟨hctl, hsz, Nat.le_refl _, Nat.le_add_right _ _, Or.inl hbuf, fun e he => Or.inl (hevs ▸ he)⟩

theorem performCheckMultipart_spec (pp : PP) (l : ML) (hC : Ctl pp) :
    Out pp l.ioff (performCheckMultipart pp l).1 (performCheckMultipart pp l).2.1.ioff (performCheckMultipart pp l).2.2 := by
  unfold performCheckMultipart
  split
  · split
    · split
      · exact out_simple _ _ _ _ ⟨hC.fault, hC.url, by simp [MpState], hC.dst, by intro h; simp [NeedsNested] at h⟩ rfl rfl rfl
      · exact out_simple _ _ _ _ ⟨hC.fault, hC.url, by simp [MpState], hC.dst, by intro _; rfl⟩ rfl rfl rfl
    · exact out_simple _ _ _ _ ⟨hC.fault, hC.url, by simp [MpState], hC.dst, by intro h; simp [NeedsNested] at h⟩ rfl rfl rfl
  · exact out_simple _ _ _ _ ⟨hC.fault, hC.url, by simp [MpState], hC.dst, by intro h; simp [NeedsNested] at h⟩ rfl rfl rfl

theorem mainSwitch_spec (pp : PP) (l : ML) (hC : Ctl pp) :
    Out pp l.ioff (mainSwitch pp l).1 (mainSwitch pp l).2.1.ioff (mainSwitch pp l).2.2 := by
  have hst := hC.st
  unfold mainSwitch
  cases hs : pp.state with
  | error => exact out_simple _ _ _ _ hC rfl rfl rfl
  | done =>
    exact out_simple _ _ _ _ ⟨hC.fault, hC.url, by simp [MpState], hC.dst, by intro h; simp [NeedsNested] at h⟩ rfl rfl rfl
  | init =>
    obtain ⟨f, b1, b2, b3, b4, b5, b6, _⟩ := findBoundary_spec pp pp.boundary l.ioff .processEntryHeaders .done
    exact ⟨ctl_step hC f b5 b6 (by simp [MpState]) (Or.inr (Or.inl rfl)) (by intro h; simp [NeedsNested] at h), f.2.2.1,
      b3, b4, Or.inl b1, fun e he => Or.inl (b2 ▸ he)⟩
  | nextBoundary =>
    obtain ⟨f, b1, b2, b3, b4, b5, b6, _⟩ := findBoundary_spec pp pp.boundary l.ioff .performCleanup .done
    exact out_flowFound pp l _
      (ctl_step hC f b5 b6 (by simp [MpState]) (Or.inr (Or.inl rfl)) (by intro h; simp [NeedsNested] at h)) f.2.2.1 b3 b4 b1 b2
  | processKey => exact absurd hs hst.1
  | processValue => exact absurd hs hst.2.1
  | callback => exact absurd hs hst.2.2
  | processEntryHeaders =>
    have hC0 : Ctl { pp with mustIkvi := true, state := .processEntryHeaders } :=
      ⟨hC.fault, hC.url, by simp [MpState], hC.dst, by intro h; simp [NeedsNested] at h⟩
    obtain ⟨f, b1, b2, b3, b4⟩ := processMultipartHeaders_spec { pp with mustIkvi := true, state := .processEntryHeaders }
      l.ioff .performCheckMultipart
    exact out_flowHeaders pp l _
      (ctl_step (nd := .error) hC0 f b3 (Or.inl b2) (by simp [MpState]) (Or.inl rfl) (by intro h; simp [NeedsNested] at h))
      f.2.2.1 b1 b4
  | performCheckMultipart => exact performCheckMultipart_spec pp l hC
  | processValueToBoundary =>
    obtain ⟨f, b1, b2, b3, b4, b5, b6⟩ := processValueToBoundary_spec pp l.ioff pp.boundary .performCleanup .done
    exact out_flowValue pp l _
      (ctl_step hC f b1 b2 (by simp [MpState]) (Or.inr (Or.inl rfl)) (by intro h; simp [NeedsNested] at h)) f.2.2.1 b3 b4 b5 b6
  | performCleanup =>
    exact out_simple _ _ _ _ ⟨hC.fault, hC.url, by simp [MpState], hC.dst, by intro h; simp [NeedsNested] at h⟩ rfl rfl rfl
  | nestedInit =>
    cases hn : pp.nested with
    | none =>
      exact out_simple _ _ _ _ ⟨hC.fault, hC.url, by simp [MpState], hC.dst, by intro h; simp [NeedsNested] at h⟩ rfl rfl rfl
    | some nb =>
      obtain ⟨f, b1, b2, b3, b4, b5, b6, _⟩ := findBoundary_spec pp nb l.ioff .nestedPerformMarking .nextBoundary
      exact out_flowFound pp l _
        (ctl_step hC f b5 b6 (by simp [MpState]) (Or.inr (Or.inr rfl)) (by intro _; rw [hn]; rfl)) f.2.2.1 b3 b4 b1 b2
  | nestedPerformMarking =>
    have hn := hC.nest (by rw [hs]; simp [NeedsNested])
    exact out_simple _ _ _ _ ⟨hC.fault, hC.url, by simp [MpState], hC.dst, fun _ => hn⟩ rfl rfl rfl
  | nestedProcessEntryHeaders =>
    have hn := hC.nest (by rw [hs]; simp [NeedsNested])
    have hC0 : Ctl { pp with valueOffset := 0, mustIkvi := true, state := .nestedProcessEntryHeaders } :=
      ⟨hC.fault, hC.url, by simp [MpState], hC.dst, fun _ => hn⟩
    obtain ⟨f, b1, b2, b3, b4⟩ := processMultipartHeaders_spec
      { pp with valueOffset := 0, mustIkvi := true, state := .nestedProcessEntryHeaders } l.ioff .nestedProcessValueToBoundary
    exact out_flowHeaders pp l _
      (ctl_step (nd := .error) hC0 f b3 (Or.inl b2) (by simp [MpState]) (Or.inl rfl) (fun _ => hn)) f.2.2.1 b1 b4
  | nestedProcessValueToBoundary =>
    have hn := hC.nest (by rw [hs]; simp [NeedsNested])
    cases hnn : pp.nested with
    | none => rw [hnn] at hn; cases hn
    | some nb =>
      obtain ⟨f, b1, b2, b3, b4, b5, b6⟩ := processValueToBoundary_spec pp l.ioff nb .nestedPerformCleanup .nextBoundary
      exact out_flowValue pp l _
        (ctl_step hC f b1 b2 (by simp [MpState]) (Or.inr (Or.inr rfl)) (fun _ => hn)) f.2.2.1 b3 b4 b5 b6
  | nestedPerformCleanup =>
    have hn := hC.nest (by rw [hs]; simp [NeedsNested])
    exact out_simple _ _ _ _ ⟨hC.fault, hC.url, by simp [MpState], hC.dst, fun _ => hn⟩ rfl rfl rfl


/-- result of the `skip_rn` pre-machine -/
theorem rnMachine_spec (pp : PP) (l : ML) (hC : Ctl pp) (hne : 0 < pp.buf.length) :
    Ctl (rnMachine pp l).1 ∧ (rnMachine pp l).1.buf = pp.buf ∧ (rnMachine pp l).1.evs = pp.evs ∧
    (rnMachine pp l).1.bufferSize = pp.bufferSize ∧ l.ioff ≤ (rnMachine pp l).2.1.ioff ∧
    (rnMachine pp l).2.1.ioff ≤ l.ioff + pp.buf.length ∧ (rnMachine pp l).2.1.poff = l.poff := by
  obtain ⟨c, hc⟩ : ∃ c, pp.buf[0]? = some c := ⟨pp.buf[0], List.getElem?_eq_getElem hne⟩
  have hE : Ctl { pp with state := .error } :=
    ⟨hC.fault, hC.url, by simp [MpState], hC.dst, by intro h; simp [NeedsNested] at h⟩
  have hD : Ctl { pp with skipRn := .full, state := pp.dashState } :=
    ⟨hC.fault, hC.url, hC.dst.mp, hC.dst, fun h => absurd h hC.dst.not_nested⟩
  have full : ∀ (q : PP), Ctl q → q.buf = pp.buf → q.evs = pp.evs → q.bufferSize = pp.bufferSize →
      Ctl (rnFull q l).1 ∧ (rnFull q l).1.buf = pp.buf ∧ (rnFull q l).1.evs = pp.evs ∧
      (rnFull q l).1.bufferSize = pp.bufferSize ∧ l.ioff ≤ (rnFull q l).2.1.ioff ∧
      (rnFull q l).2.1.ioff ≤ l.ioff + pp.buf.length ∧ (rnFull q l).2.1.poff = l.poff := by
    intro q hq hb he hs
    have hcq : q.buf[0]? = some c := by rw [hb]; exact hc
    have hlen : q.buf.length = pp.buf.length := by rw [hb]
    unfold rnFull
    rw [hcq]
    simp only
    split
    · split
      · rename_i h1 h2
        exact ⟨⟨hq.fault, hq.url, hq.st, hq.dst, hq.nest⟩, hb, he, hs, by simp, by simp; omega, rfl⟩
      · exact ⟨⟨hq.fault, hq.url, hq.st, hq.dst, hq.nest⟩, hb, he, hs, by simp, by simp; omega, rfl⟩
    · split
      · exact ⟨⟨hq.fault, hq.url, hq.st, hq.dst, hq.nest⟩, hb, he, hs, by simp, by simp; omega, rfl⟩
      · exact ⟨⟨hq.fault, hq.url, by simp [MpState], hq.dst, by intro h; simp [NeedsNested] at h⟩, hb, he, hs,
          Nat.le_refl _, Nat.le_add_right _ _, rfl⟩
  have dash : ∀ (q : PP), Ctl q → q.buf = pp.buf → q.evs = pp.evs → q.bufferSize = pp.bufferSize →
      Ctl (rnDash q l).1 ∧ (rnDash q l).1.buf = pp.buf ∧ (rnDash q l).1.evs = pp.evs ∧
      (rnDash q l).1.bufferSize = pp.bufferSize ∧ l.ioff ≤ (rnDash q l).2.1.ioff ∧
      (rnDash q l).2.1.ioff ≤ l.ioff + pp.buf.length ∧ (rnDash q l).2.1.poff = l.poff := by
    intro q hq hb he hs
    have hcq : q.buf[0]? = some c := by rw [hb]; exact hc
    unfold rnDash
    rw [hcq]
    simp only
    split
    · exact ⟨⟨hq.fault, hq.url, hq.st, hq.dst, hq.nest⟩, hb, he, hs, by simp, by simp; omega, rfl⟩
    · exact full _ ⟨hq.fault, hq.url, hq.st, hq.dst, hq.nest⟩ hb he hs
  unfold rnMachine
  cases hr : pp.skipRn with
  | inactive => exact ⟨hC, rfl, rfl, rfl, Nat.le_refl _, Nat.le_add_right _ _, rfl⟩
  | full => exact full pp hC rfl rfl rfl
  | dash => exact dash pp hC rfl rfl rfl
  | optN =>
    simp only
    unfold rnOptN
    rw [hc]
    simp only
    split
    · exact ⟨⟨hC.fault, hC.url, hC.st, hC.dst, hC.nest⟩, rfl, rfl, rfl, by simp, by simp; omega, rfl⟩
    · exact dash pp hC rfl rfl rfl
  | dash2 =>
    simp only
    unfold rnDash2
    rw [hc]
    simp only
    split
    · exact ⟨hD, rfl, rfl, rfl, by simp, by simp; omega, rfl⟩
    · exact ⟨hE, rfl, rfl, rfl, Nat.le_refl _, Nat.le_add_right _ _, rfl⟩


theorem rnFull_some (q : PP) (l : ML) : (rnFull q l).2.2 ≠ none := by
  unfold rnFull; split <;> (try split) <;> (try split) <;> simp

theorem rnDash_some (q : PP) (l : ML) : (rnDash q l).2.2 ≠ none := by
  unfold rnDash
  split
  · simp
  · split
    · simp
    · exact rnFull_some _ _

theorem rnMachine_none (pp : PP) (l : ML) (h : (rnMachine pp l).2.2 = none) : (rnMachine pp l).2.1.ioff = l.ioff := by
  unfold rnMachine at h ⊢
  cases hr : pp.skipRn with
  | inactive => rfl
  | full => rw [hr] at h; exact absurd h (rnFull_some _ _)
  | dash => rw [hr] at h; exact absurd h (rnDash_some _ _)
  | optN =>
    rw [hr] at h
    simp only at h ⊢
    unfold rnOptN at h ⊢
    split at h
    · simp at h
    · split at h
      · simp at h
      · exact absurd h (rnDash_some _ _)
  | dash2 =>
    rw [hr] at h
    simp only at h ⊢
    unfold rnDash2 at h ⊢
    split
    · rfl
    · split
      · rename_i h1 h2
        rw [h1] at h; simp [h2] at h
      · rfl
end Mhd.PP
