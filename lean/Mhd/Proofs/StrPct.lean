/-
  C17 proofs: percent-decoding.  Each model function equals its reference
  specification, never faults, and keeps the buffer size.
-/
import Mhd.Proofs.StrSpec

namespace Mhd.Str

theorem take_len (o : Bytes) (w : Nat) (h : w ≤ o.length) : (o.take w).length = w := by
  simp; omega

/-! ### MHD_str_pct_decode_strict_n_ -/

def PctInv (s out : Bytes) (st : RW) : Prop :=
  st.r ≤ s.length ∧ st.out.length = out.length ∧ st.w ≤ st.r ∧ st.w ≤ out.length ∧
  pctStrict s = (pctStrict (s.drop st.r)).map (st.out.take st.w ++ ·)

def PctPost (s out : Bytes) (r : Nat × Bytes) : Prop :=
  r.2.length = out.length ∧
    match (pctStrict s).filter (fitsIn out.length) with
    | some d => r.1 = d.length ∧ r.2.take r.1 = d
    | none => r.1 = 0

theorem pctStrict_step (s out : Bytes) (st : RW) (hi : PctInv s out st) :
    (∃ s', pctStrictStep s (decide (out.length < s.length)) st = .ok (.inl s') ∧ PctInv s out s' ∧ s.length - s'.r < s.length - st.r) ∨
    (∃ r, pctStrictStep s (decide (out.length < s.length)) st = .ok (.inr r) ∧ PctPost s out r) := by
  obtain ⟨hr, hlen, hwr, hwo, hg⟩ := hi
  unfold pctStrictStep
  by_cases hlt : st.r < s.length
  · have hdrop : s.drop st.r = s[st.r] :: s.drop (st.r + 1) := List.drop_eq_getElem_cons hlt
    simp only [hlt, if_true, rd_lt hlt, bind_ok']
    by_cases hchk : (decide (out.length < s.length) = true ∧ st.w ≥ st.out.length)
    · right
      simp only [hchk, and_self, if_true, pure_eq_ok]
      refine ⟨_, rfl, hlen, ?_⟩
      simp only []
      cases hp : pctStrict (s.drop st.r) with
      | none => simp [hg, hp]
      | some d' =>
        have hpos : 0 < d'.length := pctStrict_cons_pos _ _ _ (hdrop ▸ hp)
        have hfull := hchk.2
        have hlt' : (st.out.take st.w).length = st.w := take_len _ _ (by omega)
        have hnf : fitsIn out.length (st.out.take st.w ++ d') = false := by
          simp [fitsIn, hlt']; omega
        simp [hg, hp, Option.filter, hnf]
    · simp only [hchk, if_false]
      have hw : st.w < st.out.length := by
        by_cases h1 : out.length < s.length
        · simp [h1] at hchk; omega
        · omega
      by_cases hpc : s[st.r] = 0x25
      · simp only [hpc, if_true]
        by_cases h3 : 3 > s.length - st.r
        · right
          simp only [h3, if_true, pure_eq_ok]
          refine ⟨_, rfl, hlen, ?_⟩
          have hp : pctStrict (s.drop st.r) = none := by
            rw [hdrop, hpc]; exact pctStrict_pct_short _ (by simp; omega)
          simp [hg, hp]
        · simp only [h3, if_false]
          have h1 : st.r + 1 < s.length := by omega
          have h2 : st.r + 2 < s.length := by omega
          have hdrop1 : s.drop (st.r + 1) = s[st.r + 1] :: s[st.r + 2] :: s.drop (st.r + 3) := by
            rw [List.drop_eq_getElem_cons h1, List.drop_eq_getElem_cons h2]
          simp only [rd_lt h1, rd_lt h2, bind_ok']
          have hps : pctStrict (s.drop st.r) =
              match xval s[st.r + 1], xval s[st.r + 2] with
              | some h, some l => (pctStrict (s.drop (st.r + 3))).map (UInt8.ofNat (h * 16 + l) :: ·)
              | _, _ => none := by
            rw [hdrop, hpc, hdrop1]; exact pctStrict_pct _ _ _
          rcases toxdigit_cases s[st.r + 1] with ⟨vh, hxh, hvh, hth⟩ | ⟨hxh, hth⟩
          · rcases toxdigit_cases s[st.r + 2] with ⟨vl, hxl, hvl, htl⟩ | ⟨hxl, htl⟩
            · left
              have hneg : ¬ ((vh : Int) < 0 ∨ (vl : Int) < 0) := by omega
              simp only [hth, htl, hneg, if_false, wr_ok _ hw, bind_ok', pure_eq_ok, hexByte_eq vh vl hvh hvl]
              refine ⟨_, rfl, ⟨by simp; omega, by simp [hlen], by simp; omega, by simp; omega, ?_⟩, by simp; omega⟩
              simp only [take_set_succ _ _ _ hw]
              rw [hg, hps, hxh, hxl]
              simp [Option.map_map, Function.comp_def]
            · right
              simp only [hth, htl, pure_eq_ok]
              refine ⟨(0, st.out), by simp, hlen, ?_⟩
              simp [hg, hps, hxh, hxl]
          · right
            simp only [hth, pure_eq_ok]
            refine ⟨(0, st.out), by simp, hlen, ?_⟩
            simp [hg, hps, hxh]
      · left
        simp only [hpc, if_false, wr_ok _ hw, bind_ok', pure_eq_ok]
        refine ⟨_, rfl, ⟨by simp; omega, by simp [hlen], by simp; omega, by simp; omega, ?_⟩, by simp; omega⟩
        simp only [take_set_succ _ _ _ hw]
        rw [hg, hdrop, pctStrict_cons_ne _ _ hpc]
        simp [Option.map_map, Function.comp_def]
  · right
    simp only [hlt, if_false, pure_eq_ok]
    refine ⟨_, rfl, hlen, ?_⟩
    have hnil : s.drop st.r = [] := List.drop_eq_nil_of_le (by omega)
    have hlt' : (st.out.take st.w).length = st.w := take_len _ _ (by omega)
    have hf : fitsIn out.length (st.out.take st.w) = true := by simp [fitsIn, hlt']; omega
    simp [hg, hnil, pctStrict_nil, Option.filter, hf, hlt']

/-- `MHD_str_pct_decode_strict_n_` = the strict reference decoder; the result is
    0 exactly when the input is broken, empty, or does not fit. -/
theorem pctDecodeStrictN_spec (s out : Bytes) :
    Wrote (pctDecodeStrictN s out) out ((pctStrict s).filter (fitsIn out.length)) := by
  have h := iter_spec (pctStrictStep s (decide (out.length < s.length))) (PctInv s out)
    (fun st => s.length - st.r) (PctPost s out) (pctStrict_step s out) (s.length + 1) ⟨0, 0, out⟩
    ⟨by simp, rfl, by simp, by simp, by simp⟩ (by simp)
  obtain ⟨⟨n, o⟩, hr, hl, hp⟩ := h
  exact ⟨n, o, hr, hl, hp⟩

/-! ### MHD_str_pct_decode_lenient_n_ -/

def PctLInv (s out : Bytes) (st : RWB) : Prop :=
  st.r ≤ s.length ∧ st.out.length = out.length ∧ st.w ≤ st.r ∧ st.w ≤ out.length ∧
  (pctLenient s).1 = st.out.take st.w ++ (pctLenient (s.drop st.r)).1 ∧
  (pctLenient s).2 = (st.broken || (pctLenient (s.drop st.r)).2)

/-- normal return of the lenient decoder: all of the reference output and the
    reference flag if it fits, 0 otherwise (flag unspecified) -/
def PctLPost (s out : Bytes) (r : Nat × Bytes × Bool) : Prop :=
  r.2.1.length = out.length ∧
  if (pctLenient s).1.length ≤ out.length then
    r.1 = (pctLenient s).1.length ∧ r.2.1.take r.1 = (pctLenient s).1 ∧ r.2.2 = (pctLenient s).2
  else r.1 = 0

theorem pctLenient_step (s out : Bytes) (st : RWB) (hi : PctLInv s out st) :
    (∃ s', pctLenientStep s (decide (out.length < s.length)) st = .ok (.inl s') ∧ PctLInv s out s' ∧ s.length - s'.r < s.length - st.r) ∨
    (∃ r, pctLenientStep s (decide (out.length < s.length)) st = .ok (.inr r) ∧ PctLPost s out r) := by
  obtain ⟨hr, hlen, hwr, hwo, hg1, hg2⟩ := hi
  unfold pctLenientStep
  by_cases hlt : st.r < s.length
  · have hdrop : s.drop st.r = s[st.r] :: s.drop (st.r + 1) := List.drop_eq_getElem_cons hlt
    simp only [hlt, if_true, rd_lt hlt, bind_ok']
    have hlt' : (st.out.take st.w).length = st.w := take_len _ _ (by omega)
    by_cases hchk : (decide (out.length < s.length) = true ∧ st.w ≥ st.out.length)
    · right
      simp only [hchk, and_self, if_true, pure_eq_ok]
      refine ⟨_, rfl, hlen, ?_⟩
      have hpos : 0 < (pctLenient (s.drop st.r)).1.length := by rw [hdrop]; exact pctLenient_cons_pos _ _
      have hfull := hchk.2
      have : ¬ ((pctLenient s).1.length ≤ out.length) := by
        rw [hg1, List.length_append, hlt']; omega
      simp [this]
    · simp only [hchk, if_false]
      have hw : st.w < st.out.length := by
        by_cases h1 : out.length < s.length
        · simp [h1] at hchk; omega
        · omega
      by_cases hpc : s[st.r] = 0x25
      · simp only [hpc, if_true]
        by_cases h3 : 3 > s.length - st.r
        · left
          simp only [h3, if_true, wr_ok _ hw, bind_ok', pure_eq_ok]
          have hp : pctLenient (s.drop st.r) = (0x25 :: (pctLenient (s.drop (st.r + 1))).1, true) := by
            rw [hdrop, hpc]; exact pctLenient_pct_short _ (by simp; omega)
          refine ⟨_, rfl, ⟨by simp; omega, by simp [hlen], by simp; omega, by simp; omega, ?_, ?_⟩, by simp; omega⟩
          · simp only [take_set_succ _ _ _ hw]; rw [hg1, hp]; simp
          · rw [hg2, hp]; simp
        · simp only [h3, if_false]
          have h1 : st.r + 1 < s.length := by omega
          have h2 : st.r + 2 < s.length := by omega
          have hdrop1 : s.drop (st.r + 1) = s[st.r + 1] :: s[st.r + 2] :: s.drop (st.r + 3) := by
            rw [List.drop_eq_getElem_cons h1, List.drop_eq_getElem_cons h2]
          simp only [rd_lt h1, rd_lt h2, bind_ok']
          have hbad : (xval s[st.r + 1] = none ∨ xval s[st.r + 2] = none) →
              pctLenient (s.drop st.r) = (0x25 :: (pctLenient (s.drop (st.r + 1))).1, true) := by
            intro hx; rw [hdrop, hpc, hdrop1]; exact pctLenient_pct_bad _ _ _ hx
          have hbadstep : (xval s[st.r + 1] = none ∨ xval s[st.r + 2] = none) →
              PctLInv s out ⟨st.r + 1, st.w + 1, st.out.set st.w 0x25, true⟩ := by
            intro hx
            have hp := hbad hx
            refine ⟨by simp; omega, by simp [hlen], by simp; omega, by simp; omega, ?_, ?_⟩
            · simp only [take_set_succ _ _ _ hw]; rw [hg1, hp]; simp
            · rw [hg2, hp]; simp
          rcases toxdigit_cases s[st.r + 1] with ⟨vh, hxh, hvh, hth⟩ | ⟨hxh, hth⟩
          · rcases toxdigit_cases s[st.r + 2] with ⟨vl, hxl, hvl, htl⟩ | ⟨hxl, htl⟩
            · left
              have hneg : ¬ ((vh : Int) < 0 ∨ (vl : Int) < 0) := by omega
              simp only [hth, htl, hneg, if_false, wr_ok _ hw, bind_ok', pure_eq_ok, hexByte_eq vh vl hvh hvl]
              have hp : pctLenient (s.drop st.r) =
                  (UInt8.ofNat (vh * 16 + vl) :: (pctLenient (s.drop (st.r + 3))).1, (pctLenient (s.drop (st.r + 3))).2) := by
                rw [hdrop, hpc, hdrop1]; exact pctLenient_pct_ok _ _ _ vh vl hxh hxl
              refine ⟨_, rfl, ⟨by simp; omega, by simp [hlen], by simp; omega, by simp; omega, ?_, ?_⟩, by simp; omega⟩
              · simp only [take_set_succ _ _ _ hw]; rw [hg1, hp]; simp
              · rw [hg2, hp]
            · left
              have hneg : ((vh : Int) < 0 ∨ (-1 : Int) < 0) := by omega
              simp only [hth, htl, hneg, if_true, wr_ok _ hw, bind_ok', pure_eq_ok]
              exact ⟨_, rfl, hbadstep (Or.inr hxl), by simp; omega⟩
          · left
            have hneg : ∀ x : Int, ((-1 : Int) < 0 ∨ x < 0) := by intro x; omega
            simp only [hth, hneg, if_true, wr_ok _ hw, bind_ok', pure_eq_ok]
            exact ⟨_, rfl, hbadstep (Or.inl hxh), by simp; omega⟩
      · left
        simp only [hpc, if_false, wr_ok _ hw, bind_ok', pure_eq_ok]
        have hp : pctLenient (s.drop st.r) = (s[st.r] :: (pctLenient (s.drop (st.r + 1))).1, (pctLenient (s.drop (st.r + 1))).2) := by
          rw [hdrop]; exact pctLenient_cons_ne _ _ hpc
        refine ⟨_, rfl, ⟨by simp; omega, by simp [hlen], by simp; omega, by simp; omega, ?_, ?_⟩, by simp; omega⟩
        · simp only [take_set_succ _ _ _ hw]; rw [hg1, hp]; simp
        · rw [hg2, hp]
  · right
    simp only [hlt, if_false, pure_eq_ok]
    refine ⟨_, rfl, hlen, ?_⟩
    have hnil : s.drop st.r = [] := List.drop_eq_nil_of_le (by omega)
    have hlt' : (st.out.take st.w).length = st.w := take_len _ _ (by omega)
    rw [hnil, pctLenient_nil] at hg1 hg2
    simp only [List.append_nil, Bool.or_false] at hg1 hg2
    have : (pctLenient s).1.length ≤ out.length := by rw [hg1, hlt']; exact hwo
    simp only [this, if_true]
    exact ⟨by rw [hg1, hlt'], hg1.symm, hg2.symm⟩

/-- `MHD_str_pct_decode_lenient_n_` = the lenient reference decoder (output and
    `broken_encoding` flag) whenever its output fits, 0 otherwise. -/
theorem pctDecodeLenientN_spec (s out : Bytes) :
    ∃ r, pctDecodeLenientN s out = .ok r ∧ PctLPost s out r := by
  exact iter_spec (pctLenientStep s (decide (out.length < s.length))) (PctLInv s out)
    (fun st => s.length - st.r) (PctLPost s out) (pctLenient_step s out) (s.length + 1) ⟨0, 0, out, false⟩
    ⟨by simp, rfl, by simp, by simp, by simp, by simp⟩ (by simp)

/-! ### in-place variants on a z-terminated buffer `c ++ 0 :: tail` -/

theorem mem_of_drop_eq_cons {c : Bytes} {r : Nat} {x : UInt8} {t : Bytes} (h : c.drop r = x :: t) : x ∈ c :=
  List.mem_of_mem_drop (h ▸ List.mem_cons_self)

def IPInv (c tail : Bytes) (st : IP) : Prop :=
  st.r ≤ c.length ∧ st.buf.length = c.length + 1 + tail.length ∧ st.w ≤ st.r ∧
  st.buf.drop st.r = c.drop st.r ++ 0 :: tail ∧
  pctStrict c = (pctStrict (c.drop st.r)).map (st.buf.take st.w ++ ·)

def IPPost (c tail : Bytes) (r : Nat × Bytes) : Prop :=
  r.2.length = c.length + 1 + tail.length ∧
  match pctStrict c with
  | some d => r.1 = d.length ∧ r.2.take r.1 = d ∧ r.2[r.1]? = some 0
  | none => r.1 = 0 ∧ r.2[0]? = some 0

theorem ipFail_post (c tail buf : Bytes) (hlen : buf.length = c.length + 1 + tail.length) (hn : pctStrict c = none) :
    ∃ r, ipFail buf = (.ok (.inr r) : M (IP ⊕ (Nat × Bytes))) ∧ IPPost c tail r := by
  have h0 : 0 < buf.length := by omega
  refine ⟨(0, buf.set 0 0), by simp [ipFail, wr_ok _ h0], by simp [hlen], ?_⟩
  simp [hn, h0]

theorem pctInPlaceStrict_step (c tail : Bytes) (hz : ∀ x ∈ c, x ≠ 0) (st : IP) (hi : IPInv c tail st) :
    (∃ s', pctInPlaceStrictStep st = .ok (.inl s') ∧ IPInv c tail s' ∧ c.length - s'.r < c.length - st.r) ∨
    (∃ r, pctInPlaceStrictStep st = .ok (.inr r) ∧ IPPost c tail r) := by
  obtain ⟨hr, hlen, hwr, hd, hg⟩ := hi
  unfold pctInPlaceStrictStep
  cases hc : c.drop st.r with
  | nil =>
    -- the terminating NUL
    right
    rw [hc] at hd hg
    rw [List.nil_append] at hd
    obtain ⟨h0, _, hlt⟩ := getElem?_of_drop_eq_cons hd
    have hw : st.w < st.buf.length := by omega
    simp only [rd_some h0, bind_ok', ne_eq, not_true_eq_false, if_false, wr_ok _ hw, pure_eq_ok]
    refine ⟨_, rfl, by simp [hlen], ?_⟩
    rw [pctStrict_nil] at hg
    simp only [Option.map_some, List.append_nil] at hg
    simp only [hg]
    have hl : (st.buf.take st.w).length = st.w := take_len _ _ (by omega)
    refine ⟨hl.symm, ?_, ?_⟩
    · exact take_set_ge _ _ _ _ (Nat.le_refl _)
    · simp [hw]
  | cons x t =>
    rw [hc] at hd hg
    rw [List.cons_append] at hd
    have hx0 : x ≠ 0 := hz x (mem_of_drop_eq_cons hc)
    obtain ⟨hrx, hd1, hlt⟩ := getElem?_of_drop_eq_cons hd
    have hrl : st.r < c.length := by
      by_cases h : st.r < c.length
      · exact h
      · rw [List.drop_eq_nil_of_le (by omega)] at hc; simp at hc
    have hc1 : c.drop (st.r + 1) = t := by
      have := List.drop_eq_getElem_cons hrl
      rw [this] at hc; injection hc
    have hw : st.w < st.buf.length := by omega
    simp only [rd_some hrx, bind_ok', ne_eq, hx0, not_false_eq_true, if_true]
    by_cases hpc : x = 0x25
    · subst hpc
      simp only [if_true]
      cases t with
      | nil =>
        right
        simp only [List.nil_append] at hd1
        obtain ⟨h1, _, _⟩ := getElem?_of_drop_eq_cons hd1
        simp only [rd_some h1, bind_ok', if_true]
        exact ipFail_post c tail st.buf hlen (by rw [hg, pctStrict_pct_short _ (by simp)]; rfl)
      | cons a t2 =>
        have ha0 : a ≠ 0 := hz a (List.mem_of_mem_drop (hc1 ▸ List.mem_cons_self))
        simp only [List.cons_append] at hd1
        obtain ⟨h1, hd2, _⟩ := getElem?_of_drop_eq_cons hd1
        simp only [rd_some h1, bind_ok', ha0, if_false]
        cases t2 with
        | nil =>
          right
          simp only [List.nil_append] at hd2
          obtain ⟨h2, _, _⟩ := getElem?_of_drop_eq_cons hd2
          simp only [rd_some h2, bind_ok', if_true]
          exact ipFail_post c tail st.buf hlen (by rw [hg, pctStrict_pct_short _ (by simp)]; rfl)
        | cons b rest =>
          have hc2 : c.drop (st.r + 2) = b :: rest := by
            have : c.drop (st.r + 1 + 1) = (c.drop (st.r + 1)).drop 1 := by rw [List.drop_drop]
            rw [this, hc1]; rfl
          have hb0 : b ≠ 0 := hz b (List.mem_of_mem_drop (hc2 ▸ List.mem_cons_self))
          have hc3 : c.drop (st.r + 3) = rest := by
            have : c.drop (st.r + 2 + 1) = (c.drop (st.r + 2)).drop 1 := by rw [List.drop_drop]
            rw [this, hc2]; rfl
          simp only [List.cons_append] at hd2
          obtain ⟨h2, hd3, hlt3⟩ := getElem?_of_drop_eq_cons hd2
          simp only [rd_some h2, bind_ok', hb0, if_false]
          rw [pctStrict_pct] at hg
          rcases toxdigit_cases a with ⟨vh, hxh, hvh, hth⟩ | ⟨hxh, hth⟩
          · rcases toxdigit_cases b with ⟨vl, hxl, hvl, htl⟩ | ⟨hxl, htl⟩
            · left
              have hneg : ¬ ((vh : Int) < 0 ∨ (vl : Int) < 0) := by omega
              simp only [hth, htl, hneg, if_false, wr_ok _ hw, bind_ok', pure_eq_ok, hexByte_eq vh vl hvh hvl]
              have hr3 : st.r + 3 ≤ c.length := by
                by_cases h : st.r + 3 ≤ c.length
                · exact h
                · have : (c.drop (st.r + 2)).length = c.length - (st.r + 2) := List.length_drop
                  rw [hc2] at this; simp at this; omega
              refine ⟨_, rfl, ⟨hr3, by simp [hlen], by simp; omega, ?_, ?_⟩, by simp; omega⟩
              · simp only []; rw [drop_set_lt _ _ _ _ (by omega), hc3]; exact hd3
              · simp only [take_set_succ _ _ _ hw, hc3]
                rw [hg, hxh, hxl]; simp [Option.map_map, Function.comp_def]
            · right
              have hneg : ((vh : Int) < 0 ∨ (-1 : Int) < 0) := by omega
              simp only [hth, htl, hneg, if_true]
              exact ipFail_post c tail st.buf hlen (by rw [hg, hxh, hxl]; rfl)
          · right
            have hneg : ∀ y : Int, ((-1 : Int) < 0 ∨ y < 0) := by intro y; omega
            simp only [hth, hneg, if_true]
            exact ipFail_post c tail st.buf hlen (by rw [hg, hxh]; rfl)
    · left
      simp only [hpc, if_false, wr_ok _ hw, bind_ok', pure_eq_ok]
      refine ⟨_, rfl, ⟨by simp; omega, by simp [hlen], by simp; omega, ?_, ?_⟩, by simp; omega⟩
      · simp only []; rw [drop_set_lt _ _ _ _ (by omega), hc1]; exact hd1
      · simp only [take_set_succ _ _ _ hw, hc1]
        rw [hg, pctStrict_cons_ne _ _ hpc]; simp [Option.map_map, Function.comp_def]

/-- `MHD_str_pct_decode_in_place_strict_` on the buffer `c ++ 0 :: tail` (`c` free of
    NUL): the strict reference decoding of `c`, z-terminated, or 0 with the string
    truncated. -/
theorem pctDecodeInPlaceStrict_spec (c tail : Bytes) (hz : ∀ x ∈ c, x ≠ 0) :
    ∃ r, pctDecodeInPlaceStrict (c ++ 0 :: tail) = .ok r ∧ IPPost c tail r := by
  have h := iter_spec pctInPlaceStrictStep (IPInv c tail) (fun st => c.length - st.r) (IPPost c tail)
    (pctInPlaceStrict_step c tail hz) ((c ++ 0 :: tail).length + 1) ⟨0, 0, c ++ 0 :: tail⟩
    ⟨by simp, by simp; omega, by simp, by simp, by simp⟩ (by simp; omega)
  exact h

/-! ### MHD_str_pct_decode_in_place_lenient_ -/

theorem pctLenient_single (a : UInt8) : (pctLenient [a]).1 = [a] := by
  by_cases h : a = 0x25
  · subst h; rw [pctLenient_pct_short [] (by simp), pctLenient_nil]
  · rw [pctLenient_cons_ne _ _ h, pctLenient_nil]

def IPLInv (c tail : Bytes) (st : IPB) : Prop :=
  st.r ≤ c.length ∧ st.buf.length = c.length + 1 + tail.length ∧ st.w ≤ st.r ∧
  st.buf.drop st.r = c.drop st.r ++ 0 :: tail ∧
  (pctLenient c).1 = st.buf.take st.w ++ (pctLenient (c.drop st.r)).1 ∧
  (pctLenient c).2 = (st.broken || (pctLenient (c.drop st.r)).2)

def IPLPost (c tail : Bytes) (r : Nat × Bytes × Bool) : Prop :=
  r.2.1.length = c.length + 1 + tail.length ∧
  r.1 = (pctLenient c).1.length ∧ r.2.1.take r.1 = (pctLenient c).1 ∧ r.2.1[r.1]? = some 0 ∧
  r.2.2 = (pctLenient c).2

theorem pctInPlaceLenient_step (c tail : Bytes) (hz : ∀ x ∈ c, x ≠ 0) (st : IPB) (hi : IPLInv c tail st) :
    (∃ s', pctInPlaceLenientStep st = .ok (.inl s') ∧ IPLInv c tail s' ∧ c.length - s'.r < c.length - st.r) ∨
    (∃ r, pctInPlaceLenientStep st = .ok (.inr r) ∧ IPLPost c tail r) := by
  obtain ⟨hr, hlen, hwr, hd, hg1, hg2⟩ := hi
  unfold pctInPlaceLenientStep
  have hl : (st.buf.take st.w).length = st.w := take_len _ _ (by omega)
  cases hc : c.drop st.r with
  | nil =>
    right
    rw [hc] at hd hg1 hg2
    rw [List.nil_append] at hd
    obtain ⟨h0, _, hlt⟩ := getElem?_of_drop_eq_cons hd
    have hw : st.w < st.buf.length := by omega
    simp only [rd_some h0, bind_ok', ne_eq, not_true_eq_false, if_false, wr_ok _ hw, pure_eq_ok]
    rw [pctLenient_nil] at hg1 hg2
    simp only [List.append_nil, Bool.or_false] at hg1 hg2
    refine ⟨_, rfl, by simp [hlen], ?_, ?_, ?_, ?_⟩
    · simp only [hg1, hl]
    · simp only [hg1]; exact take_set_ge _ _ _ _ (Nat.le_refl _)
    · simp [hw]
    · exact hg2.symm
  | cons x t =>
    rw [hc] at hd hg1 hg2
    rw [List.cons_append] at hd
    have hx0 : x ≠ 0 := hz x (mem_of_drop_eq_cons hc)
    obtain ⟨hrx, hd1, hlt⟩ := getElem?_of_drop_eq_cons hd
    have hrl : st.r < c.length := by
      by_cases h : st.r < c.length
      · exact h
      · rw [List.drop_eq_nil_of_le (by omega)] at hc; simp at hc
    have hc1 : c.drop (st.r + 1) = t := by
      have := List.drop_eq_getElem_cons hrl
      rw [this] at hc; injection hc
    have hw : st.w < st.buf.length := by omega
    simp only [rd_some hrx, bind_ok', ne_eq, hx0, not_false_eq_true, if_true]
    -- the step that copies the single character `x` (not a valid escape) and advances by one
    have hcopy : (pctLenient (x :: t)).1 = x :: (pctLenient t).1 →
        ∀ br, (pctLenient c).2 = (br || (pctLenient t).2) →
        IPLInv c tail ⟨st.r + 1, st.w + 1, st.buf.set st.w x, br⟩ := by
      intro hp br hbr
      refine ⟨by simp; omega, by simp [hlen], by simp; omega, ?_, ?_, ?_⟩
      · simp only []; rw [drop_set_lt _ _ _ _ (by omega), hc1]; exact hd1
      · simp only [take_set_succ _ _ _ hw, hc1]; rw [hg1, hp]; simp
      · simp only [hc1]; exact hbr
    by_cases hpc : x = 0x25
    · subst hpc
      simp only [if_true]
      cases t with
      | nil =>
        right
        simp only [List.nil_append] at hd1
        obtain ⟨h1, _, hlt1⟩ := getElem?_of_drop_eq_cons hd1
        have hw1 : st.w + 1 < (st.buf.set st.w 0x25).length := by simp; omega
        simp only [rd_some h1, bind_ok', if_true, wr_ok _ hw, wr_ok _ hw1, pure_eq_ok]
        rw [pctLenient_pct_short [] (by simp), pctLenient_nil] at hg1 hg2
        simp only [Bool.or_true] at hg2
        refine ⟨_, rfl, by simp [hlen], ?_, ?_, ?_, ?_⟩
        · simp only [hg1]; simp [hl]
        · simp only [hg1]
          rw [take_set_ge _ _ _ _ (Nat.le_refl _), take_set_succ _ _ _ hw]
        · exact List.getElem?_set_self hw1
        · exact hg2.symm
      | cons a t2 =>
        have ha0 : a ≠ 0 := hz a (List.mem_of_mem_drop (hc1 ▸ List.mem_cons_self))
        simp only [List.cons_append] at hd1
        obtain ⟨h1, hd2, hlt1⟩ := getElem?_of_drop_eq_cons hd1
        simp only [rd_some h1, bind_ok', ha0, if_false]
        cases t2 with
        | nil =>
          right
          simp only [List.nil_append] at hd2
          obtain ⟨h2, _, hlt2⟩ := getElem?_of_drop_eq_cons hd2
          have hw1 : st.w + 1 < (st.buf.set st.w 0x25).length := by simp; omega
          have hw2 : st.w + 2 < ((st.buf.set st.w 0x25).set (st.w + 1) a).length := by simp; omega
          simp only [rd_some h2, bind_ok', if_true, wr_ok _ hw, wr_ok _ hw1, wr_ok _ hw2, pure_eq_ok]
          rw [pctLenient_pct_short [a] (by simp), pctLenient_single] at hg1
          rw [pctLenient_pct_short [a] (by simp)] at hg2
          simp only [Bool.or_true] at hg2
          refine ⟨_, rfl, by simp [hlen], ?_, ?_, ?_, ?_⟩
          · simp only [hg1]; simp [hl]
          · simp only [hg1]
            rw [take_set_ge _ _ _ _ (Nat.le_refl _), take_set_succ _ _ _ hw1, take_set_succ _ _ _ hw]
            simp
          · exact List.getElem?_set_self hw2
          · exact hg2.symm
        | cons b rest =>
          have hc2 : c.drop (st.r + 2) = b :: rest := by
            have : c.drop (st.r + 1 + 1) = (c.drop (st.r + 1)).drop 1 := by rw [List.drop_drop]
            rw [this, hc1]; rfl
          have hb0 : b ≠ 0 := hz b (List.mem_of_mem_drop (hc2 ▸ List.mem_cons_self))
          have hc3 : c.drop (st.r + 3) = rest := by
            have : c.drop (st.r + 2 + 1) = (c.drop (st.r + 2)).drop 1 := by rw [List.drop_drop]
            rw [this, hc2]; rfl
          simp only [List.cons_append] at hd2
          obtain ⟨h2, hd3, hlt3⟩ := getElem?_of_drop_eq_cons hd2
          simp only [rd_some h2, bind_ok', hb0, if_false]
          have hbad : (xval a = none ∨ xval b = none) →
              IPLInv c tail ⟨st.r + 1, st.w + 1, st.buf.set st.w 0x25, true⟩ := by
            intro hx
            have hp := pctLenient_pct_bad a b rest hx
            exact hcopy (by rw [hp]) true (by rw [hg2, hp]; simp)
          rcases toxdigit_cases a with ⟨vh, hxh, hvh, hth⟩ | ⟨hxh, hth⟩
          · rcases toxdigit_cases b with ⟨vl, hxl, hvl, htl⟩ | ⟨hxl, htl⟩
            · left
              have hneg : ¬ ((vh : Int) < 0 ∨ (vl : Int) < 0) := by omega
              simp only [hth, htl, hneg, if_false, wr_ok _ hw, bind_ok', pure_eq_ok, hexByte_eq vh vl hvh hvl]
              have hr3 : st.r + 3 ≤ c.length := by
                by_cases h : st.r + 3 ≤ c.length
                · exact h
                · have : (c.drop (st.r + 2)).length = c.length - (st.r + 2) := List.length_drop
                  rw [hc2] at this; simp at this; omega
              have hp := pctLenient_pct_ok a b rest vh vl hxh hxl
              refine ⟨_, rfl, ⟨hr3, by simp [hlen], by simp; omega, ?_, ?_, ?_⟩, by simp; omega⟩
              · simp only []; rw [drop_set_lt _ _ _ _ (by omega), hc3]; exact hd3
              · simp only [take_set_succ _ _ _ hw, hc3]; rw [hg1, hp]; simp
              · simp only [hc3]; rw [hg2, hp]
            · left
              have hneg : ((vh : Int) < 0 ∨ (-1 : Int) < 0) := by omega
              simp only [hth, htl, hneg, if_true, wr_ok _ hw, bind_ok', pure_eq_ok]
              exact ⟨_, rfl, hbad (Or.inr hxl), by simp; omega⟩
          · left
            have hneg : ∀ y : Int, ((-1 : Int) < 0 ∨ y < 0) := by intro y; omega
            simp only [hth, hneg, if_true, wr_ok _ hw, bind_ok', pure_eq_ok]
            exact ⟨_, rfl, hbad (Or.inl hxh), by simp; omega⟩
    · left
      simp only [hpc, if_false, wr_ok _ hw, bind_ok', pure_eq_ok]
      have hp := pctLenient_cons_ne x t hpc
      exact ⟨_, rfl, hcopy (by rw [hp]) st.broken (by rw [hg2, hp]), by simp; omega⟩

/-- `MHD_str_pct_decode_in_place_lenient_` on the buffer `c ++ 0 :: tail` (`c` free of
    NUL): the lenient reference decoding of `c`, z-terminated, with the reference flag. -/
theorem pctDecodeInPlaceLenient_spec (c tail : Bytes) (hz : ∀ x ∈ c, x ≠ 0) :
    ∃ r, pctDecodeInPlaceLenient (c ++ 0 :: tail) = .ok r ∧ IPLPost c tail r := by
  exact iter_spec pctInPlaceLenientStep (IPLInv c tail) (fun st => c.length - st.r) (IPLPost c tail)
    (pctInPlaceLenient_step c tail hz) ((c ++ 0 :: tail).length + 1) ⟨0, 0, c ++ 0 :: tail, false⟩
    ⟨by simp, by simp; omega, by simp, by simp, by simp, by simp⟩ (by simp; omega)

/-- every buffer that contains a NUL has the form used above -/
theorem exists_cstr (b : Bytes) (h : 0 ∈ b) : ∃ c tail, b = c ++ 0 :: tail ∧ ∀ x ∈ c, x ≠ 0 := by
  induction b with
  | nil => simp at h
  | cons a t ih =>
    by_cases ha : a = 0
    · exact ⟨[], t, by simp [ha], by simp⟩
    · have ht : 0 ∈ t := by
        rcases List.mem_cons.mp h with h | h
        · exact absurd h.symm ha
        · exact h
      obtain ⟨c, tail, rfl, hc⟩ := ih ht
      refine ⟨a :: c, tail, by simp, ?_⟩
      intro x hx
      rcases List.mem_cons.mp hx with hx | hx
      · exact hx ▸ ha
      · exact hc x hx

end Mhd.Str
