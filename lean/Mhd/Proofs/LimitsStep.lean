/-
  C09 helper lemmas, part 3: event-loop round, shutdown, arrivals — every
  operation and hence every history preserves the accounting invariant.
-/
import Mhd.Proofs.LimitsInv

namespace Mhd.Limits


/-! ### resume_suspended_connections -/

theorem clearResuming_addr (c : Conn) : (clearResuming c).addr = c.addr := rfl

theorem resumePass_split (s : St) (p : Nat → Bool) :
    mu p (s.susp.filter (fun c => !canResume c)) +
        (mu p (((s.susp.filter canResume).filter (fun c => !c.urh)).map clearResuming) +
         mu p (((s.susp.filter canResume).filter (fun c => c.urh)).map clearResuming)) = mu p s.susp := by
  rw [mu_map p _ clearResuming_addr, mu_map p _ clearResuming_addr]
  have h1 := mu_filter_split p canResume s.susp
  have h2 := mu_filter_split p (fun c => c.urh) (s.susp.filter canResume)
  omega

theorem resumePass_inv (s : St) (h : Inv s) : Inv (resumePass s).1 := by
  unfold resumePass
  by_cases hr : (!s.resuming) = true
  · rw [if_pos hr]; exact h
  · rw [if_neg hr]
    refine ⟨?_, ?_, ?_, h.ipLe, h.cf⟩
    · have := h.conns; have k := resumePass_split s allA
      simp only [mu_append, mu_nil] at this ⊢; omega
    · have := h.le; exact this
    · intro a; have := h.ip a; have k := resumePass_split s (isA a)
      by_cases hg : s.cfg.perIp = 0 ∨ a = 0
      · simp only [hg, if_true] at this ⊢; exact this
      · simp only [hg, if_false, tot, mu_append, mu_nil] at this ⊢; omega

/-! ### the handler pass -/

/-- a handler result keeps the identity of the connection and produces no accounting fault -/
def HOk (c : Conn) (q : RespTab × Conn × Disp × List Ev) : Prop :=
  q.2.1.addr = c.addr ∧ q.2.1.id = c.id ∧ CountFaultFree q.1.fault

theorem finishReply_ok (R : RespTab) (c : Conn) (h : CountFaultFree R.fault) : HOk c (finishReply R c) := by
  unfold finishReply HOk
  exact ⟨(closeConn_addr R c).1, (closeConn_addr R c).2, closeConn_cf R c h⟩

theorem runReply_ok (R1 : RespTab) (c1 : Conn) (r : Nat) (cl : Bool) (hR1 : CountFaultFree R1.fault) :
    HOk c1 (runReply R1 c1 r cl) := by
  unfold runReply
  split
  · exact ⟨(closeConn_addr R1 _).1, (closeConn_addr R1 _).2, closeConn_cf R1 _ hR1⟩
  · split
    · exact ⟨(closeConn_addr R1 _).1, (closeConn_addr R1 _).2, closeConn_cf R1 _ hR1⟩
    · split
      · exact ⟨rfl, rfl, hR1⟩
      · exact finishReply_ok R1 _ hR1

theorem doReply_ok (cfg : Cfg) (R : RespTab) (c : Conn) (r : Nat) (cl : Bool) (h : CountFaultFree R.fault) :
    HOk c (doReply cfg R c r cl) := by
  unfold doReply
  split
  · exact ⟨rfl, rfl, h⟩
  · split
    · exact ⟨rfl, rfl, h⟩
    · split
      · exact ⟨rfl, rfl, h⟩
      · rename_i R1 hacq
        have hR1 := acquire_cf R R1 _ h hacq
        exact runReply_ok R1 _ r cl hR1

theorem interimOne_cf (R : RespTab) (c : Conn) (r : Nat) (h : CountFaultFree R.fault) :
    CountFaultFree (interimOne R c r).1.fault := by
  unfold interimOne
  split
  · exact h
  · split
    · exact h
    · rename_i R1 hacq
      exact release_cf _ _ (acquire_cf R R1 _ h hacq)

theorem interims_cf (c : Conn) (l : List Nat) : ∀ (R : RespTab), CountFaultFree R.fault →
    CountFaultFree (interims R c l).1.fault := by
  induction l with
  | nil => intro R h; exact h
  | cons r rest ih =>
    intro R h
    unfold interims
    have h1 := interimOne_cf R c r h
    generalize interimOne R c r = q at h1 ⊢
    obtain ⟨R1, ok, e⟩ := q
    cases ok with
    | false => exact h1
    | true => exact ih R1 h1

theorem replyPre_ok (cfg : Cfg) (R : RespTab) (c : Conn) (r : Nat) (cl : Bool) (pre : List Nat)
    (h : CountFaultFree R.fault) : HOk c (replyPre cfg R c r cl pre) := by
  unfold replyPre
  have h1 := interims_cf c pre R h
  generalize interims R c pre = q at h1 ⊢
  obtain ⟨R1, ok, e⟩ := q
  cases ok with
  | false => exact ⟨rfl, rfl, h1⟩
  | true => exact doReply_ok cfg R1 c r _ h1

theorem handleReq_ok (cfg : Cfg) (R : RespTab) (c : Conn) (h : CountFaultFree R.fault) :
    HOk c (handleReq cfg R c) := by
  unfold handleReq
  split
  · exact ⟨rfl, rfl, h⟩
  · split
    · exact ⟨rfl, rfl, h⟩
    · exact ⟨rfl, rfl, by simp [CountFaultFree]⟩
  · exact replyPre_ok cfg R c _ _ _ h
  · exact ⟨rfl, rfl, h⟩
  · exact replyPre_ok cfg R { c with inClose := true } _ _ _ h
  · split
    · exact runReply_ok R _ _ true h
    · exact ⟨rfl, rfl, h⟩

theorem afterReq_ok (R : RespTab) (c : Conn) (h : CountFaultFree R.fault) : HOk c (afterReq R c) := by
  unfold afterReq
  split
  · exact ⟨(closeConn_addr R c).1, (closeConn_addr R c).2, closeConn_cf R c h⟩
  · split
    · exact finishReply_ok R c h
    · exact ⟨rfl, rfl, h⟩

theorem handleConn_ok (cfg : Cfg) (R : RespTab) (c : Conn) (h : CountFaultFree R.fault) :
    HOk c (handleConn cfg R c) := by
  unfold handleConn
  have h1 := handleReq_ok cfg R c h
  generalize handleReq cfg R c = q at h1 ⊢
  obtain ⟨R1, c1, d, e⟩ := q
  obtain ⟨a1, a2, a3⟩ := h1
  simp only at a1 a2 a3 ⊢
  cases d with
  | keep =>
    simp only
    have h2 := afterReq_ok R1 c1 a3
    obtain ⟨b1, b2, b3⟩ := h2
    exact ⟨b1.trans a1, b2.trans a2, b3⟩
  | clean => exact ⟨a1, a2, a3⟩
  | susp => exact ⟨a1, a2, a3⟩

theorem handleList_spec (cfg : Cfg) (l : List Conn) : ∀ (acc : HAcc), CountFaultFree acc.R.fault →
    CountFaultFree (handleList cfg acc l).R.fault ∧
    ∀ p, mu p (handleList cfg acc l).kept + mu p (handleList cfg acc l).clean + mu p (handleList cfg acc l).susp
        = mu p acc.kept + mu p acc.clean + mu p acc.susp + mu p l := by
  induction l with
  | nil => intro acc h; exact ⟨h, fun p => by simp [handleList]⟩
  | cons c rest ih =>
    intro acc h
    unfold handleList
    have hk := handleConn_ok cfg acc.R c h
    generalize handleConn cfg acc.R c = q at hk ⊢
    obtain ⟨R1, c1, d, e⟩ := q
    obtain ⟨a1, a2, a3⟩ := hk
    simp only at a1 a2 a3
    cases d with
    | keep =>
      simp only
      have := ih { acc with R := R1, kept := c1 :: acc.kept, evs := acc.evs ++ e } a3
      refine ⟨this.1, fun p => ?_⟩
      have := this.2 p; simp only [mu_cons, a1] at this ⊢; omega
    | clean =>
      simp only
      have := ih { acc with R := R1, clean := c1 :: acc.clean, evs := acc.evs ++ e } a3
      refine ⟨this.1, fun p => ?_⟩
      have := this.2 p; simp only [mu_cons, a1] at this ⊢; omega
    | susp =>
      simp only
      have := ih { acc with R := R1, susp := c1 :: acc.susp, evs := acc.evs ++ e } a3
      refine ⟨this.1, fun p => ?_⟩
      have := this.2 p; simp only [mu_cons, a1] at this ⊢; omega

theorem handlePass_inv (s : St) (h : Inv s) : Inv (handlePass s).1 := by
  unfold handlePass
  have hs := handleList_spec s.cfg s.active.reverse
    { R := { tab := s.resps, fault := none }, kept := [], clean := [], susp := [], evs := [] } cf_none
  generalize handleList s.cfg _ s.active.reverse = acc at hs ⊢
  obtain ⟨hcf, hmu⟩ := hs
  simp only
  refine ⟨?_, ?_, ?_, h.ipLe, cf_merge h.cf hcf⟩
  · have := h.conns; have k := hmu allA
    simp only [mu_append, mu_nil, mu_reverse] at this k ⊢; omega
  · exact h.le
  · intro a; have := h.ip a; have k := hmu (isA a)
    by_cases hg : s.cfg.perIp = 0 ∨ a = 0
    · simp only [hg, if_true] at this ⊢; exact this
    · simp only [hg, if_false, tot, mu_append, mu_nil, mu_reverse] at this k ⊢; omega

theorem round_inv (s : St) (h : Inv s) : Inv (round s).1 := by
  unfold round
  have h1 : Inv (if s.cfg.allowSuspend then resumePass s else (s, [])).1 := by
    split
    · exact resumePass_inv s h
    · exact h
  exact cleanupAll_inv _ (handlePass_inv _ (processNew_inv _ h1))

/-! ### shutdown -/

theorem closeNewList_inv (l : List Conn) : ∀ (s : St) (pi : List Conn), InvG s [] (l ++ pi) →
    InvG (closeNewList s l).1 [] pi := by
  induction l with
  | nil => intro s pi h; exact h
  | cons c rest ih =>
    intro s pi h
    unfold closeNewList
    exact ih _ pi (ipDel_pi s c [] (rest ++ pi) h)

theorem closeList_spec (l : List Conn) : ∀ (acc : CAcc), CountFaultFree acc.R.fault →
    CountFaultFree (closeList acc l).R.fault ∧ ∀ p, mu p (closeList acc l).moved = mu p acc.moved + mu p l := by
  induction l with
  | nil => intro acc h; exact ⟨h, fun p => by simp [closeList]⟩
  | cons c rest ih =>
    intro acc h
    unfold closeList
    have h1 := closeConn_addr acc.R c
    have h2 := closeConn_cf acc.R c h
    generalize closeConn acc.R c = q at h1 h2 ⊢
    obtain ⟨R1, c1, e⟩ := q
    simp only at h1 h2 ⊢
    have := ih { R := R1, moved := c1 :: acc.moved, evs := acc.evs ++ e } h2
    refine ⟨this.1, fun p => ?_⟩
    have := this.2 p; simp only [mu_cons, h1.1] at this ⊢; omega

theorem markAppClosed_addr (c : Conn) : (markAppClosed c).addr = c.addr := rfl

theorem markUpgraded_inv (s : St) (h : Inv s) : Inv (markUpgraded s) := by
  unfold markUpgraded
  split
  · refine ⟨?_, h.le, ?_, h.ipLe, h.cf⟩
    · have := h.conns; simp only [mu_map _ _ markAppClosed_addr] at this ⊢; exact this
    · intro a; have := h.ip a; simp only [tot, mu_map _ _ markAppClosed_addr] at this ⊢; exact this
  · exact h

theorem forceResume_inv (flag : Bool) (s : St) (h : Inv s) : Inv (forceResume flag s).1 := by
  unfold forceResume
  split
  · exact resumePass_inv _ (h.congr rfl rfl rfl rfl rfl rfl rfl h.cf)
  · exact h

theorem closeActive_inv (s : St) (h : Inv s) : Inv (closeActive s).1 := by
  unfold closeActive
  have hs := closeList_spec s.active.reverse { R := { tab := s.resps, fault := none }, moved := [], evs := [] } cf_none
  generalize closeList _ s.active.reverse = acc at hs ⊢
  obtain ⟨hcf, hmu⟩ := hs
  refine ⟨?_, h.le, ?_, h.ipLe, cf_merge h.cf hcf⟩
  · have := h.conns; have k := hmu allA
    simp only [mu_append, mu_nil, mu_reverse] at this k ⊢; omega
  · intro a; have := h.ip a; have k := hmu (isA a)
    by_cases hg : s.cfg.perIp = 0 ∨ a = 0
    · simp only [hg, if_true] at this ⊢; exact this
    · simp only [hg, if_false, tot, mu_append, mu_nil, mu_reverse] at this k ⊢; omega

theorem stopTail_inv (s : St) (h : Inv s) : Inv (stopTail s).1 := by
  unfold stopTail
  exact cleanupAll_inv _ (closeActive_inv _ (forceResume_inv _ _ (markUpgraded_inv s h)))

theorem stop_inv (s : St) (h : Inv s) : Inv (stop s).1 := by
  unfold stop
  have h1 : Inv (closeNewList { s with shutdown := true, newL := [] } s.newL.reverse).1 := by
    apply closeNewList_inv
    refine ⟨?_, h.le, ?_, h.ipLe, h.cf⟩
    · have := h.conns; simpa using this
    · intro a; have := h.ip a
      by_cases hg : s.cfg.perIp = 0 ∨ a = 0
      · simp only [hg, if_true] at this ⊢; exact this
      · simp only [hg, if_false, tot, mu_append, mu_nil, mu_reverse] at this ⊢; omega
  have h2 := forceResume_inv (closeNewList { s with shutdown := true, newL := [] } s.newL.reverse).1.cfg.allowSuspend _ h1
  simp only
  split
  · exact h2.congr rfl rfl rfl rfl rfl rfl rfl (by simp [CountFaultFree])
  · exact stopTail_inv _ h2

/-! ### arrivals -/

theorem admitConn_inv (s : St) (c a : Nat) (v ext : Bool) (h : Inv s) : Inv (admitConn s c a v ext).1 := by
  unfold admitConn
  have hn := prepare_none s c a v h
  have hs := prepare_some s c a v h
  generalize prepare s c a v = p at hn hs ⊢
  obtain ⟨s1, oc, e1⟩ := p
  simp only at hn hs ⊢
  cases oc with
  | none => exact hn rfl
  | some cn =>
    simp only
    have h1 := (hs cn rfl).1
    split
    · refine ⟨?_, h1.le, ?_, h1.ipLe, h1.cf⟩
      · have := h1.conns; simpa using this
      · intro x; have := h1.ip x
        by_cases hg : s1.cfg.perIp = 0 ∨ x = 0
        · simp only [hg, if_true] at this ⊢; exact this
        · simp only [hg, if_false, tot, mu_cons, mu_nil] at this ⊢; omega
    · exact process_inv s1 cn [] h1

theorem arrive_inv (s : St) (a : Nat) (v ext : Bool) (h : Inv s) : Inv (arrive s a v ext).1 := by
  unfold arrive
  simp only
  apply admitConn_inv
  split
  · exact cleanupAll_inv _ (h.congr rfl rfl rfl rfl rfl rfl rfl h.cf)
  · exact h.congr rfl rfl rfl rfl rfl rfl rfl h.cf

/-! ### every operation -/

theorem setReq_addr (b : Beh) (c : Conn) : (setReq b c).addr = c.addr := rfl
theorem setClientClosed_addr (c : Conn) : (setClientClosed c).addr = c.addr := rfl
theorem setNodrain_addr (v : Bool) (c : Conn) : (setNodrain v c).addr = c.addr := rfl
theorem setResuming_addr (c : Conn) : (setResuming c).addr = c.addr := rfl

theorem mapAll_inv (s : St) (id : Nat) (f : Conn → Conn) (hf : ∀ c, (f c).addr = c.addr) (h : Inv s) :
    Inv (mapAll s (updConn id f)) := by
  unfold mapAll
  refine ⟨?_, h.le, ?_, h.ipLe, h.cf⟩
  · have := h.conns; simp only [mu_updConn _ id f hf] at this ⊢; exact this
  · intro a; have := h.ip a; simp only [tot, mu_updConn _ id f hf] at this ⊢; exact this

theorem suspUpd_inv (s : St) (id : Nat) (f : Conn → Conn) (hf : ∀ c, (f c).addr = c.addr) (h : Inv s) :
    Inv { s with susp := updConn id f s.susp, resuming := true } := by
  refine ⟨?_, h.le, ?_, h.ipLe, h.cf⟩
  · have := h.conns; simp only [mu_updConn _ id f hf] at this ⊢; exact this
  · intro a; have := h.ip a; simp only [tot, mu_updConn _ id f hf] at this ⊢; exact this

theorem setQueued_addr (r : Nat) (c : Conn) : (setQueued r c).addr = c.addr := rfl

theorem mu_queueFirst (p) (id r : Nat) (l : List Conn) : mu p (queueFirst id r l) = mu p l := by
  induction l with
  | nil => rfl
  | cons x l ih =>
    unfold queueFirst
    split
    · simp only [mu_cons, setQueued_addr]; rfl
    · simp [ih]

theorem extQueue_inv (s : St) (c r : Nat) (h : Inv s) : Inv (extQueue s c r).1 := by
  unfold extQueue
  split
  · exact h
  · split
    · exact h
    · refine ⟨?_, h.le, ?_, h.ipLe, h.cf⟩
      · have := h.conns; simp only [mu_queueFirst] at this ⊢; exact this
      · intro a; have := h.ip a; simp only [tot, mu_queueFirst] at this ⊢; exact this

theorem step_inv (s : St) (o : Op) (h : Inv s) : Inv (step s o).1 := by
  unfold step
  split
  · exact h
  · cases o with
    | arrive a v ext => exact arrive_inv s a v ext h
    | armFail site => exact h.congr rfl rfl rfl rfl rfl rfl rfl h.cf
    | disarm => exact h.congr rfl rfl rfl rfl rfl rfl rfl h.cf
    | req c b => exact mapAll_inv s c _ (setReq_addr b) h
    | clientClose c => exact mapAll_inv s c _ setClientClosed_addr h
    | hold c => exact mapAll_inv s c _ (setNodrain_addr true) h
    | drain c => exact mapAll_inv s c _ (setNodrain_addr false) h
    | resume c => exact suspUpd_inv s c _ setResuming_addr h
    | upClose c => exact suspUpd_inv s c _ markAppClosed_addr h
    | round => exact round_inv s h
    | query =>
      simp only
      split
      · exact h
      · exact cleanupAll_inv s h
    | stop => exact stop_inv s h
    | respCreate r big hasCb upg => exact h.congr rfl rfl rfl rfl rfl rfl rfl h.cf
    | respDrop r =>
      simp only
      split
      · exact h
      · refine h.congr rfl rfl rfl rfl rfl rfl rfl ?_
        exact release_cf _ _ cf_none
    | extQueue c r => exact extQueue_inv s c r h
    | acceptFail => exact h

theorem init_inv (cfg : Cfg) : Inv (St.init cfg) := by
  refine ⟨rfl, Nat.zero_le _, ?_, fun _ => Nat.zero_le _, cf_none⟩
  intro a; simp [St.init, tot]; by_cases hg : cfg.perIp = 0 ∨ a = 0 <;> simp [hg]

theorem run_inv (ops : List Op) : ∀ (s : St), Inv s → Inv (run s ops).1 := by
  induction ops with
  | nil => intro s h; exact h
  | cons o os ih =>
    intro s h
    unfold run
    exact ih _ (step_inv s o h)

end Mhd.Limits
