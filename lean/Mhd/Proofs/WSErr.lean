/-
  C19 helper lemmas, part 5: each RFC 6455 violation class is answered with the prescribed
  status and invalidates the stream (theorem (iii) of C19).
-/
import Mhd.Proofs.WSSafe
namespace Mhd.WS

/-- what `errRet` returns: the given status and read length, a state that is invalid from
    now on, and the generated close frame (or NULL) -/
theorem errRet_spec (ws : WS) (code : Nat) (st : Int) (adv : Nat) :
    ∃ ws' pl plen, errRet ws code st adv = .ret ws' st adv pl plen ∧ ws'.validity = 0 ∧
      (ws.genCloseFlag = false → pl = none ∧ plen = 0) ∧
      (ws.genCloseFlag = true → pl = (encodeClose { ws with validity := 0 } code []).frame) := by
  refine ⟨_, _, _, rfl, ?_, ?_, ?_⟩
  · rw [genClose_validity]
  · intro hf
    unfold genClose
    have : ({ ws with validity := 0 } : WS).genCloseFlag = false := hf
    simp [this]
  · intro hf
    unfold genClose
    have : ({ ws with validity := 0 } : WS).genCloseFlag = true := hf
    simp [this]

theorem decode_of_iter_ret {ws ws' : WS} {b : UInt8} {rest : List UInt8} {st : Int} {k : Nat}
    {pl : Option (List UInt8)} {plen : Nat} (hv : ws.validity ≠ 0)
    (hi : iter false ws (b :: rest) = .ret ws' st k pl plen) :
    decode false ws (b :: rest) = .ret ws' st k pl plen := by
  unfold decode
  rw [if_neg hv]
  have : 3 * (b :: rest).length + 4 = (3 * (b :: rest).length + 3) + 1 := by omega
  rw [this]
  unfold loop
  rw [if_neg (by simp), hi]
  simp

theorem iter_step0 (ws : WS) (b : UInt8) (rest : List UInt8) (hs : ws.step = 0) :
    iter false ws (b :: rest) = stepStart ws b := by
  unfold iter; simp only [hs]

theorem iter_step1 (ws : WS) (b : UInt8) (rest : List UInt8) (hs : ws.step = 1) :
    iter false ws (b :: rest) = stepLen1 ws b := by
  unfold iter; simp only [hs]

/-- reserved bits -/
theorem err_rsv (ws : WS) (b : UInt8) (rest : List UInt8) (hv : ws.validity ≠ 0) (hs : ws.step = 0)
    (hb : rsvBits b ≠ 0) : decode false ws (b :: rest) = errRet ws 1002 (-1) 0 := by
  have : iter false ws (b :: rest) = errRet ws 1002 (-1) 0 := by
    rw [iter_step0 _ _ _ hs]; unfold stepStart; simp only [hv, ne_eq, not_false_eq_true, if_true, hb]
  exact decode_of_iter_ret hv this


/-- an opcode outside {0,1,2,8,9,10} -/
theorem err_opcode (ws : WS) (b : UInt8) (rest : List UInt8) (hv : ws.validity ≠ 0) (hs : ws.step = 0)
    (hb : opcodeOf b ≠ 0 ∧ opcodeOf b ≠ 1 ∧ opcodeOf b ≠ 2 ∧ opcodeOf b ≠ 8 ∧ opcodeOf b ≠ 9 ∧ opcodeOf b ≠ 10) :
    decode false ws (b :: rest) = errRet ws 1002 (-1) 0 := by
  have : iter false ws (b :: rest) = errRet ws 1002 (-1) 0 := by
    rw [iter_step0 _ _ _ hs]; unfold stepStart
    simp only [hv, ne_eq, not_false_eq_true, if_true]
    split
    · rfl
    · split <;> first | omega | rfl
  exact decode_of_iter_ret hv this

/-- a control frame without FIN -/
theorem err_ctl_fragmented (ws : WS) (b : UInt8) (rest : List UInt8) (hv : ws.validity ≠ 0) (hs : ws.step = 0)
    (hop : opcodeOf b = 8 ∨ opcodeOf b = 9 ∨ opcodeOf b = 10) (hfin : finBit b = false) :
    decode false ws (b :: rest) = errRet ws 1002 (-1) 0 := by
  have : iter false ws (b :: rest) = errRet ws 1002 (-1) 0 := by
    rw [iter_step0 _ _ _ hs]; unfold stepStart
    simp only [hv, ne_eq, not_false_eq_true, if_true, hfin]
    split
    · rfl
    · rcases hop with h | h | h <;> simp [h]
  exact decode_of_iter_ret hv this

/-- a continuation frame although no message is being assembled; a new text/binary frame
    although one is; any data frame after a close frame -/
theorem err_sequence (ws : WS) (b : UInt8) (rest : List UInt8) (hv : ws.validity ≠ 0) (hs : ws.step = 0)
    (hseq : (opcodeOf b = 0 ∧ (ws.dataType = 0 ∨ ws.validity = 2)) ∨
            ((opcodeOf b = 1 ∨ opcodeOf b = 2) ∧ (ws.dataType ≠ 0 ∨ ws.validity = 2))) :
    decode false ws (b :: rest) = errRet ws 1002 (-1) 0 := by
  have : iter false ws (b :: rest) = errRet ws 1002 (-1) 0 := by
    rw [iter_step0 _ _ _ hs]; unfold stepStart
    simp only [hv, ne_eq, not_false_eq_true, if_true]
    split
    · rfl
    · rcases hseq with ⟨h0, hd⟩ | ⟨h12, hd⟩
      · simp only [h0]
        rcases hd with hd | hd
        · simp [hd]
        · split <;> simp
      · rcases h12 with h | h <;> simp only [h] <;> rcases hd with hd | hd
        · simp [hd]
        · split <;> simp
        · simp [hd]
        · split <;> simp
  exact decode_of_iter_ret hv this

/-- second header byte: MASK bit wrong for the role, control frame longer than 125 bytes,
    close frame with a 1-byte payload -/
theorem err_second_byte (ws : WS) (b h0 : UInt8) (rest : List UInt8) (hv : ws.validity ≠ 0) (hs : ws.step = 1)
    (hh : ws.hdr[0]? = some h0)
    (hbad : finBit b = ws.isClient ∨ (126 ≤ len7 b ∧ ctlBit h0 = true) ∨ (len7 b = 1 ∧ opcodeOf h0 = 8)) :
    decode false ws (b :: rest) = errRet ws 1002 (-1) 0 := by
  have : iter false ws (b :: rest) = errRet ws 1002 (-1) 0 := by
    rw [iter_step1 _ _ _ hs]; unfold stepLen1
    simp only [hh]
    rw [if_pos]
    simp only [hv, ne_eq, not_false_eq_true, true_and, decide_eq_true_eq, Bool.not_eq_true]
    rcases hbad with h | h | h
    · cases hc : ws.isClient <;> simp_all
    · right; right; left; exact h
    · right; right; right; exact h
  exact decode_of_iter_ret hv this


/-- the state after `frame_header[frame_header_size++] = b` -/
def pushed (ws : WS) (b : UInt8) : WS := { ws with hdr := ws.hdr.set ws.hdrSize b, hdrSize := ws.hdrSize + 1 }

/-- the extended payload length field (`k` = 2 or 8 bytes at `frame_header[2]`) once `b` is stored -/
def lenField (ws : WS) (b : UInt8) (k : Nat) : Nat := beVal (((pushed ws b).hdr.drop 2).take k)

theorem iter_step3 (ws : WS) (b : UInt8) (rest : List UInt8) (hs : ws.step = 3) :
    iter false ws (b :: rest) = stepLen2of2 ws b := by
  unfold iter; simp only [hs]

theorem iter_step11 (ws : WS) (b : UInt8) (rest : List UInt8) (hs : ws.step = 11) :
    iter false ws (b :: rest) = stepLen8of8 ws b := by
  unfold iter; simp only [hs]

/-- 7-bit length over the configured maximum -/
theorem err_len7_max (ws : WS) (h : Inv ws) (b h0 : UInt8) (rest : List UInt8) (hv : ws.validity ≠ 0)
    (hs : ws.step = 1) (hh : ws.hdr[0]? = some h0)
    (hgood : finBit b ≠ ws.isClient ∧ (len7 b < 126) ∧ ¬ (len7 b = 1 ∧ opcodeOf h0 = 8))
    (hmax : ws.maxPayload ≠ 0 ∧ ws.maxPayload < len7 b) :
    decode false ws (b :: rest) = errRet (pushed ws b) 1009 (-5) 1 := by
  have : iter false ws (b :: rest) = errRet (pushed ws b) 1009 (-5) 1 := by
    rw [iter_step1 _ _ _ hs]; unfold stepLen1
    simp only [hh, pushHdr_some h]
    rw [if_neg]
    · rw [if_neg (by omega), if_neg (by omega), if_pos hmax]; rfl
    · simp only [hv, ne_eq, not_false_eq_true, true_and, decide_eq_true_eq, Bool.not_eq_true, not_or, not_and]
      obtain ⟨h1, h2, h3⟩ := hgood
      cases hc : ws.isClient <;> cases hf : finBit b <;> simp_all <;> omega
  exact decode_of_iter_ret hv this

theorem hdrBytes_pushed {ws : WS} (h : Inv ws) (b : UInt8) (k : Nat) (hk : 2 + k ≤ 32) :
    hdrBytes (pushed ws b) 2 k = some (((pushed ws b).hdr.drop 2).take k) := by
  unfold hdrBytes
  rw [if_pos]
  show 2 + k ≤ (ws.hdr.set ws.hdrSize b).length
  rw [List.length_set, h.hdrLen]; exact hk

/-- 16-bit length: not minimal (≤ 125) or over the configured maximum -/
theorem err_len16 (ws : WS) (h : Inv ws) (b : UInt8) (rest : List UInt8) (hv : ws.validity ≠ 0)
    (hs : ws.step = 3) :
    (lenField ws b 2 ≤ 125 → decode false ws (b :: rest) = errRet (pushed ws b) 1002 (-1) 1) ∧
    (125 < lenField ws b 2 → ws.maxPayload ≠ 0 ∧ ws.maxPayload < lenField ws b 2 →
      decode false ws (b :: rest) = errRet (pushed ws b) 1009 (-5) 1) := by
  obtain ⟨h1, hh1⟩ := pushed_get1 h b
  have key : iter false ws (b :: rest) =
      (if lenField ws b 2 ≤ 125 then errRet (pushed ws b) 1002 (-1) 1
       else if (pushed ws b).maxPayload ≠ 0 ∧ (pushed ws b).maxPayload < lenField ws b 2 then errRet (pushed ws b) 1009 (-5) 1
       else .cont (afterLength (pushed ws b) (lenField ws b 2) (finBit h1)) 1) := by
    rw [iter_step3 _ _ _ hs]; unfold stepLen2of2
    simp only [pushHdr_some h]
    have := hdrBytes_pushed h b 2 (by omega)
    unfold pushed at this
    simp only [this, hh1]
    rfl
  constructor
  · intro hle
    apply decode_of_iter_ret hv
    rw [key, if_pos hle]; rfl
  · intro hgt hmax
    apply decode_of_iter_ret hv
    rw [key, if_neg (by omega), if_pos (show (pushed ws b).maxPayload ≠ 0 ∧ (pushed ws b).maxPayload < _ from hmax)]; rfl

/-- 64-bit length: most significant bit set, not minimal (≤ 65535), or over the configured maximum -/
theorem err_len64 (ws : WS) (h : Inv ws) (b : UInt8) (rest : List UInt8) (hv : ws.validity ≠ 0)
    (hs : ws.step = 11) :
    (0x7fffffffffffffff < lenField ws b 8 →
      decode false ws (b :: rest) = errRet { pushed ws b with step := 99 } 1002 (-1) 1) ∧
    (lenField ws b 8 ≤ 65535 → decode false ws (b :: rest) = errRet (pushed ws b) 1002 (-1) 1) ∧
    (65535 < lenField ws b 8 → lenField ws b 8 ≤ 0x7fffffffffffffff →
      ws.maxPayload ≠ 0 ∧ ws.maxPayload < lenField ws b 8 →
      decode false ws (b :: rest) = errRet (pushed ws b) 1009 (-5) 1) := by
  obtain ⟨h1, hh1⟩ := pushed_get1 h b
  have key : iter false ws (b :: rest) =
      (if 0x7fffffffffffffff < lenField ws b 8 then errRet { pushed ws b with step := 99 } 1002 (-1) 1
       else if lenField ws b 8 ≤ 65535 then errRet (pushed ws b) 1002 (-1) 1
       else if (pushed ws b).maxPayload ≠ 0 ∧ (pushed ws b).maxPayload < lenField ws b 8 then errRet (pushed ws b) 1009 (-5) 1
       else .cont (afterLength (pushed ws b) (lenField ws b 8) (finBit h1)) 1) := by
    rw [iter_step11 _ _ _ hs]; unfold stepLen8of8
    simp only [pushHdr_some h]
    have := hdrBytes_pushed h b 8 (by omega)
    unfold pushed at this
    simp only [this, hh1]
    rfl
  refine ⟨?_, ?_, ?_⟩
  · intro hgt
    apply decode_of_iter_ret hv
    rw [key, if_pos hgt]; rfl
  · intro hle
    apply decode_of_iter_ret hv
    rw [key, if_neg (by omega), if_pos hle]; rfl
  · intro hgt hle hmax
    apply decode_of_iter_ret hv
    rw [key, if_neg (by omega), if_neg (by omega), if_pos (show (pushed ws b).maxPayload ≠ 0 ∧ (pushed ws b).maxPayload < _ from hmax)]; rfl


/-- "the prescribed error status, and the stream is invalid from now on" -/
def Rejected (r : R) (st : Int) : Prop :=
  ∃ ws' adv pl plen, r = .ret ws' st adv pl plen ∧ ws'.validity = 0

theorem rejected_errRet (ws : WS) (code : Nat) (st : Int) (adv : Nat) : Rejected (errRet ws code st adv) st := by
  obtain ⟨ws', pl, plen, he, hv, _⟩ := errRet_spec ws code st adv
  exact ⟨ws', adv, pl, plen, he, hv⟩

theorem decode_nil (ws : WS) (hv : ws.validity ≠ 0) : decode false ws [] = tail false ws 0 := by
  unfold decode
  rw [if_neg hv]
  show loop false (3 * 0 + 3 + 1) ws [] 0 = _
  unfold loop
  simp

/-- continuation frame that makes the message larger than the configured maximum -/
theorem err_cont_max (ws : WS) (h0 : UInt8) (buf : List UInt8) (hv : ws.validity ≠ 0) (hs : ws.step = 16)
    (hh : ws.hdr[0]? = some h0) (hop : opcodeOf h0 = 0)
    (hmax : ws.maxPayload ≠ 0 ∧ ws.maxPayload < (ws.payloadSize + ws.dataSize) % W) :
    decode false ws buf = errRet { ws with step := 99 } 1009 (-5) 0 := by
  have hc : headerComplete false ws = errRet { ws with step := 99 } 1009 (-5) 0 := by
    unfold headerComplete
    simp only [hh, hop, hmax, ne_eq, not_false_eq_true, and_self, if_true]
  cases buf with
  | nil =>
    rw [decode_nil _ hv]
    unfold tail
    rw [if_pos hs, hc]
    rfl
  | cons b rest =>
    apply decode_of_iter_ret hv
    unfold iter
    simp only [hs, hc]
    rfl

theorem writeAt_read (buf : List UInt8) (off : Nat) (bs buf' : List UInt8) (h : writeAt buf off bs = some buf') :
    (buf'.drop off).take bs.length = bs := by
  unfold writeAt at h
  split at h
  · rename_i hle
    injection h with h
    subst h
    have h1 : (buf.take off).length = off := by simp only [List.length_take]; omega
    rw [List.append_assoc, List.drop_append_of_le_length (by omega), List.drop_of_length_le (by omega)]
    simp
  · exact absurd h (by simp)

end Mhd.WS
