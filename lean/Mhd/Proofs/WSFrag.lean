/-
  C19 helper lemmas, part 18: buffers of a message under assembly, decode_header_complete
  for any data frame, decode_payload_complete by case (round trip of fragmented messages).
-/
import Mhd.Proofs.WSRoundCtrl
namespace Mhd.WS

/-! ### buffers of a message under assembly -/

/-- `data_payload` for the bytes `d` already assembled: NULL when there are none -/
def bufOf (d : List UInt8) : Option (List UInt8) := if d = [] then none else some (d ++ [0])

theorem replicate_snoc (n : Nat) : List.replicate n (0 : UInt8) ++ [0] = List.replicate (n + 1) 0 := by
  rw [List.replicate_succ']

theorem set_same (l : List UInt8) (i : Nat) (h : l[i]? = some 0) : l.set i 0 = l := by
  apply List.ext_getElem?
  intro j
  by_cases hj : i = j
  · subst hj
    rw [h]
    have : i < l.length := by
      rcases Nat.lt_or_ge i l.length with hl | hl
      · exact hl
      · rw [List.getElem?_eq_none hl] at h; cases h
    rw [List.getElem?_set_self this]
  · rw [List.getElem?_set_ne hj]

/-- the buffer after `realloc`/`malloc` for `n` more bytes and termination -/
theorem grow_buf (acc : List UInt8) (n : Nat) :
    ((acc ++ List.replicate (n + 1) (0 : UInt8)).set (acc.length + n) 0) = acc ++ List.replicate (n + 1) 0 := by
  apply set_same
  rw [List.getElem?_append_right (by omega)]
  simp

theorem writeAt_acc (acc p : List UInt8) :
    writeAt (acc ++ List.replicate (p.length + 1) (0 : UInt8)) acc.length p = some (acc ++ p ++ [0]) := by
  unfold writeAt
  rw [if_pos (by simp)]
  congr 1
  rw [List.take_left, List.drop_length_add_append]
  congr 1
  rw [List.drop_replicate]
  simp

end Mhd.WS
namespace Mhd.WS

/-- the data buffer after `decode_header_complete` made room for `n` more bytes behind `acc` -/
def grownBuf (acc : List UInt8) (n : Nat) : Option (List UInt8) :=
  if acc.length + n = 0 then none else some (acc ++ List.replicate (n + 1) 0)

/-- `decode_header_complete` for a text/binary frame or a continuation frame, on the state a
    complete header leaves: the data buffer grows by the announced payload size -/
theorem headerComplete_data (ws : WS) (b0 : UInt8) (tl : List UInt8) (n : Nat) (key : List UInt8) (v : Nat)
    (acc : List UInt8) (t' : Nat)
    (hbuf : ws.dataBuf = bufOf acc) (hsz : ws.dataSize = acc.length)
    (hop : (opcodeOf b0 = 0 ∧ t' = ws.dataType) ∨ ((opcodeOf b0 = 1 ∨ opcodeOf b0 = 2) ∧ t' = opcodeOf b0 ∧ acc = []))
    (hn : acc.length + n < 2 ^ 63) (hmax : ws.maxPayload = 0 ∨ acc.length + n ≤ ws.maxPayload)
    (hal : acc.length + n + 1 ≤ ws.allocLimit) :
    headerComplete false (hdrPhase ws (b0 :: tl) 16 n key v) =
      .cont ({ hdrPhase ws (b0 :: tl) 16 n key v with
               dataBuf := grownBuf acc n, dataStart := acc.length, dataSize := acc.length + n, dataType := t',
               step := 17 } : WS) 0 := by
  unfold headerComplete
  rw [phase_hdr0]
  have hps : (hdrPhase ws (b0 :: tl) 16 n key v).payloadSize = n := rfl
  have hds : (hdrPhase ws (b0 :: tl) 16 n key v).dataSize = acc.length := hsz
  have hdb : (hdrPhase ws (b0 :: tl) 16 n key v).dataBuf = bufOf acc := hbuf
  have hmx : (hdrPhase ws (b0 :: tl) 16 n key v).maxPayload = ws.maxPayload := rfl
  have hW : (n + acc.length) % W = n + acc.length := Nat.mod_eq_of_lt (by rw [W_eq]; omega)
  have hW1 : (n + acc.length + 1) % W = n + acc.length + 1 := Nat.mod_eq_of_lt (by rw [W_eq]; omega)
  have hW2 : (n + 1) % W = n + 1 := Nat.mod_eq_of_lt (by rw [W_eq]; omega)
  rcases hop with ⟨h0, ht⟩ | ⟨h12, ht, hacc⟩
  · -- continuation
    subst ht
    simp only [h0, hps, hds, hW, hmx]
    rw [if_neg (by omega)]
    by_cases htot : n + acc.length = 0
    · have hn0 : n = 0 := by omega
      have ha0 : acc = [] := List.length_eq_zero_iff.mp (by omega)
      subst hn0 ha0
      simp [grownBuf]
      rfl
    · rw [if_pos htot, hW1]
      have hre : realloc (hdrPhase ws (b0 :: tl) 16 n key v) (hdrPhase ws (b0 :: tl) 16 n key v).dataBuf
          (n + acc.length + 1) = some (acc ++ List.replicate (n + 1) 0) := by
        unfold realloc
        rw [if_pos (show n + acc.length + 1 ≤ (hdrPhase ws (b0 :: tl) 16 n key v).allocLimit by
          show _ ≤ ws.allocLimit; omega), hdb]
        congr 1
        unfold bufOf
        by_cases ha : acc = []
        · subst ha; simp
        · rw [if_neg ha]
          simp only [Option.getD_some, List.length_append, List.length_cons, List.length_nil]
          rw [List.take_of_length_le (by simp)]
          have : n + acc.length + 1 - (acc.length + (0 + 1)) = n := by omega
          rw [this, List.append_assoc]
          congr 1
      rw [hre]
      simp only []
      have hterm : termAt (acc ++ List.replicate (n + 1) (0 : UInt8)) (n + acc.length) =
          some (acc ++ List.replicate (n + 1) 0) := by
        unfold termAt
        rw [if_pos (by simp; omega)]
        have : n + acc.length = acc.length + n := by omega
        rw [this, grow_buf]
      rw [hterm]
      simp only [grownBuf]
      rw [if_neg (by omega)]
      have e1 : n + acc.length = acc.length + n := by omega
      rw [e1]
      rfl
  · -- first frame of a message
    subst hacc
    have hgrow : grownBuf [] n = if n = 0 then none else some (List.replicate (n + 1) 0) := by
      unfold grownBuf; simp
    have hall : n ≠ 0 → alloc (hdrPhase ws (b0 :: tl) 16 n key v) (n + 1) = some (List.replicate (n + 1) 0) := by
      intro _; unfold alloc
      exact if_pos (show n + 1 ≤ (hdrPhase ws (b0 :: tl) 16 n key v).allocLimit by
        show _ ≤ ws.allocLimit; simp at hal; omega)
    have hterm : termAt (List.replicate (n + 1) (0 : UInt8)) n = some (List.replicate (n + 1) 0) := by
      unfold termAt
      rw [if_pos (by simp)]
      congr 1
      apply set_same
      simp
    subst ht
    rcases h12 with h1 | h1
    all_goals
      simp only [h1, hps, hW2]
      by_cases hn0 : n = 0
      · subst hn0; simp [hgrow]
      · rw [if_pos hn0, hall hn0]
        simp only [hterm, hgrow, if_neg hn0, List.length_nil, Nat.zero_add]

end Mhd.WS
namespace Mhd.WS

/-! ### `decode_payload_complete` on a data frame, by case -/

/-- last frame of a message (FIN): the whole buffer is handed out -/
theorem pc_fin (W : WS) (b0 : UInt8) (h0 : W.hdr[0]? = some b0) (hs : W.step = 17) (hfin : finBit b0 = true)
    (hu : W.dataType = 1 → W.dataUtf8 = 0) :
    payloadComplete false W =
      .ret { W with dataBuf := none, dataStart := 0, dataSize := 0, step := 0, payloadIndex := 0, dataType := 0,
                    hdrSize := 0 }
        (Int.ofNat (if W.wantFragments ∧ opcodeOf b0 = 0 then W.dataType ||| 0x40 else W.dataType)) 0
        W.dataBuf W.dataSize := by
  unfold payloadComplete
  have hc : ¬ (W.dataType = 1 ∧ W.dataUtf8 ≠ 0) := fun hh => hh.2 (hu hh.1)
  simp only [h0, hfin, if_true, hs, Bool.false_eq_true, not_false_eq_true, true_and, hc, if_false]

/-- a frame without FIN when the application wants whole messages: nothing is returned -/
theorem pc_assemble (W : WS) (b0 : UInt8) (h0 : W.hdr[0]? = some b0) (hfin : finBit b0 = false)
    (hw : W.wantFragments = false) :
    payloadComplete false W = .cont { W with step := 0, hdrSize := 0, payloadIndex := 0 } 0 := by
  unfold payloadComplete
  simp only [h0, hfin, hw, Bool.false_eq_true, if_false]

/-- a frame without FIN, fragments wanted, nothing of a character pending: the fragment is handed out -/
theorem pc_frag_whole (W : WS) (b0 : UInt8) (h0 : W.hdr[0]? = some b0) (hfin : finBit b0 = false)
    (hw : W.wantFragments = true) (hu : W.dataType = 1 → W.dataUtf8 = 0) :
    payloadComplete false W =
      .ret { W with dataBuf := none, dataStart := 0, dataSize := 0, step := 0, payloadIndex := 0, hdrSize := 0 }
        (fragMark W.dataType (if opcodeOf b0 = 0 then 0x20 else 0x10)) 0 W.dataBuf W.dataSize := by
  unfold payloadComplete
  have hc : ¬ (W.dataType = 1 ∧ W.dataUtf8 ≠ 0) := fun hh => hh.2 (hu hh.1)
  simp only [h0, hfin, hw, Bool.false_eq_true, if_false, if_true, hc]

/-- a text frame without FIN, fragments wanted, that ends inside a character: the complete
    characters are handed out, the bytes of the unfinished one are kept for the next fragment -/
theorem pc_frag_carry (w : WS) (b0 : UInt8) (d : List UInt8) (h0 : w.hdr[0]? = some b0) (hfin : finBit b0 = false)
    (hw : w.wantFragments = true) (hdt : w.dataType = 1) (hu : w.dataUtf8 ≠ 0) (hu10 : w.dataUtf8 ≤ 10)
    (hbuf : w.dataBuf = some (d ++ [0])) (hsz : w.dataSize = d.length) (hpos : w.dataStart + w.payloadIndex = d.length)
    (hg : givenUtf8 w.dataUtf8 ≤ d.length) (hd63 : d.length < 2 ^ 63) (hal : 4 ≤ w.allocLimit) :
    payloadComplete false w =
      if d.length - givenUtf8 w.dataUtf8 ≠ 0 then
        .ret { w with dataBuf := some (d.drop (d.length - givenUtf8 w.dataUtf8) ++ [0]),
                      dataSize := givenUtf8 w.dataUtf8, step := 0, payloadIndex := 0, hdrSize := 0 }
          (fragMark 1 (if opcodeOf b0 = 0 then 0x20 else 0x10)) 0
          (some ((d ++ [0]).set (d.length - givenUtf8 w.dataUtf8) 0)) (d.length - givenUtf8 w.dataUtf8)
      else
        .ret { w with step := 0, payloadIndex := 0, hdrSize := 0 }
          (fragMark 1 (if opcodeOf b0 = 0 then 0x20 else 0x10)) 0 none 0 := by
  obtain ⟨hg1, hg3⟩ := givenUtf8_bounds w.dataUtf8 hu hu10
  unfold payloadComplete
  have hc : w.dataType = 1 ∧ w.dataUtf8 ≠ 0 := ⟨hdt, hu⟩
  have hnl : (w.dataSize + Mhd.WS.W - givenUtf8 w.dataUtf8) % Mhd.WS.W = d.length - givenUtf8 w.dataUtf8 := by
    rw [hsz, W_eq]; omega
  simp only [h0, hfin, hw, Bool.false_eq_true, if_false, if_true]
  rw [if_pos hc]
  simp only [hnl, hdt]
  by_cases hne : d.length - givenUtf8 w.dataUtf8 ≠ 0
  · rw [if_pos hne, if_pos hne]
    have hall : alloc w (givenUtf8 w.dataUtf8 + 1) = some (List.replicate (givenUtf8 w.dataUtf8 + 1) 0) := by
      unfold alloc; rw [if_pos (by omega)]
    rw [hall, hbuf]
    simp only []
    rw [hpos, if_neg (by simp; omega)]
    have hsl : ((d ++ [0]).drop (d.length - givenUtf8 w.dataUtf8)).take (givenUtf8 w.dataUtf8) =
        d.drop (d.length - givenUtf8 w.dataUtf8) := by
      rw [List.drop_append_of_le_length (by omega), List.take_append_of_le_length (by simp; omega)]
      exact List.take_of_length_le (by simp; omega)
    rw [hsl]
    have hwr : writeAt (List.replicate (givenUtf8 w.dataUtf8 + 1) (0 : UInt8)) 0 (d.drop (d.length - givenUtf8 w.dataUtf8)) =
        some (d.drop (d.length - givenUtf8 w.dataUtf8) ++ [0]) := by
      have hl : (d.drop (d.length - givenUtf8 w.dataUtf8)).length = givenUtf8 w.dataUtf8 := by
        simp only [List.length_drop]; omega
      have := writeAt_acc [] (d.drop (d.length - givenUtf8 w.dataUtf8))
      rw [hl] at this
      simpa using this
    have hterm : termAt (d ++ [0]) (d.length - givenUtf8 w.dataUtf8) =
        some ((d ++ [0]).set (d.length - givenUtf8 w.dataUtf8) 0) := by
      unfold termAt; rw [if_pos (by simp; omega)]
    rw [hwr, hterm]
  · rw [if_neg hne, if_neg hne]

end Mhd.WS
