/-
  C12 proofs: `expectedClass … = ok` in terms of the stages; the link between lengths as sent and
  meanings (`LenSem`).
-/
import Mhd.Proofs.DauthStages
import Mhd.Proofs.AuthInfo
namespace Mhd.Dauth
open Mhd.Auth Mhd.Gen.Auth Mhd.Gen.Dauth

/-- the lengths as sent agree with the meanings about presence and emptiness -/
structure LenSem (c : Cred) (lv : LenView) : Prop where
  none_iff : ∀ k, lv k = none ↔ c.val k = none
  zero_iff : ∀ k, lv k = some 0 ↔ c.val k = some []
  ext : lv kUsernameExt = c.ext.map List.length

theorem paramUnq_nil_iff (p : Param) (h : PQ p) : paramUnq p = [] ↔ p.raw = [] := by
  unfold paramUnq
  cases hq : p.quoted
  · simp
  · obtain ⟨v, hv⟩ := Option.isSome_iff_exists.mp (h hq)
    simp only [if_true, unquote, hv, Option.getD_some]
    constructor
    · intro hv0; subst hv0; exact unquoteLoop_nil_iff _ hv
    · intro hr; rw [hr] at hv; simp [unquoteLoop] at hv; exact hv.symm ▸ rfl

theorem lenSem_semOf (d : DAuth) (hwq : WQ d) : LenSem (semOf d) (lenView d) := by
  refine ⟨fun k => ?_, fun k => ?_, ?_⟩
  · simp [lenView, semOf]
  · simp only [lenView, semOf]
    cases hp : d.slots k with
    | none => simp
    | some p =>
      simp only [Option.map_some, Option.some.injEq, List.length_eq_zero_iff]
      exact (paramUnq_nil_iff p (wq_pq hwq hp)).symm
  · simp [lenView, semOf, Function.comp_def]

theorem noBuffer_false (n : Nat) (h : n ≤ maxParam) : noBuffer n = false := by
  unfold noBuffer; simp; omega

theorem noBuffer_false_iff (n : Nat) : noBuffer n = false ↔ n ≤ maxParam := by
  unfold noBuffer
  have : tmp1Size ≤ maxParam := by decide
  simp; omega

theorem specUsername_iff (a : Algo) (call : Call) (c : Cred)
    (hpres : (c.val kUsername = none ∧ c.ext ≠ none ∧ c.userhash = false) ∨ (c.val kUsername ≠ none ∧ c.ext = none)) :
    specUsername a call c = .ok () ↔
      UserOk a call c ∧ (∀ e, c.ext = some e → c.val kUsername = none → e.length + 1 - extMinLen ≤ maxParam) := by
  unfold specUsername UserOk
  rcases hpres with ⟨hu, he, huh⟩ | ⟨hu, he⟩
  · cases hev : c.ext with
    | none => exact absurd hev he
    | some e =>
      simp only [huh, Bool.not_false, if_true, hu, needV, bind, Except.bind]
      cases hb : noBuffer (e.length + 1 - extMinLen)
      · have hb' := (noBuffer_false_iff _).mp hb
        cases hx : extName e with
        | none => simp [hx]
        | some name =>
          by_cases hn : name = call.username <;> simp [hn, hx] <;> omega
      · have hb' : ¬ e.length + 1 - extMinLen ≤ maxParam := by
          intro h; rw [(noBuffer_false_iff _).mpr h] at hb; cases hb
        simp
        intro _; omega
  · cases huv : c.val kUsername with
    | none => exact absurd huv hu
    | some u =>
      cases huh : c.userhash
      · by_cases hn : u = call.username <;> simp [he, hn]
      · simp only [Bool.not_true, Bool.false_eq_true, if_false, needV, bind, Except.bind, he]
        by_cases hn : eqClS (binToHex (userhash a call.username call.realm)) u = true <;> simp [hn]

theorem lv_of_val {c : Cred} {lv : LenView} (hls : LenSem c lv) {k : Nat} {v : Bytes} (h : c.val k = some v) :
    ∃ l, lv k = some l ∧ (l = 0 ↔ v = []) := by
  cases hl : lv k with
  | none => rw [(hls.none_iff k).mp hl] at h; cases h
  | some l =>
    refine ⟨l, rfl, ?_⟩
    constructor
    · intro h0; subst h0
      have := (hls.zero_iff k).mp hl
      rw [h] at this; injection this
    · intro hv; subst hv
      have := (hls.zero_iff k).mpr h
      rw [hl] at this; injection this

theorem val_of_lv {c : Cred} {lv : LenView} (hls : LenSem c lv) {k l : Nat} (h : lv k = some l) :
    ∃ v, c.val k = some v ∧ (l = 0 ↔ v = []) := by
  cases hv : c.val k with
  | none => rw [(hls.none_iff k).mpr hv] at h; cases h
  | some v =>
    obtain ⟨l', hl', hz⟩ := lv_of_val hls hv
    rw [h] at hl'; injection hl' with hl'; subst hl'
    exact ⟨v, rfl, hz⟩


theorem specPre_ok_iff (now timeout maxNc : Nat) (call : Call) (c : Cred) (lv : LenView) (a : Algo) (nci : Nat) (n : Bytes) (t : Nat) :
    specPre now timeout maxNc call c lv = .ok (a, nci, n, t) ↔
    stageAlgoN call c.algo3 = .ok a ∧ stageQopN call c.qop = .ok () ∧ presenceV a call lv c.qop c.userhash = .ok () ∧
    specRealm call c = .ok () ∧ specUsername a call c = .ok () ∧ specNc maxNc c = .ok nci ∧
    specNonce a now timeout c = .ok (n, t) := by
  constructor
  · exact specPre_ok _ _ _ _ _ _ _ _ _ _
  · rintro ⟨h1, h2, h3, h4, h5, h6, h7⟩
    unfold specPre
    simp [bind, Except.bind, h1, h2, h3, h4, h5, h6, h7]

theorem specPost_ok_iff (cfg : Cfg) (r : Req) (call : Call) (c : Cred) (lv : LenView) (a : Algo) (t : Nat) :
    specPost cfg r call c lv a t = .ok ↔
      ∃ uri, specUri cfg r c lv = .ok uri ∧ specResponse a r call c uri = .ok () ∧ specBind cfg a r call c t = .ok () := by
  unfold specPost
  cases h1 : specUri cfg r c lv with
  | error e => simp [bind, Except.bind]; exact specUri_nook cfg r c lv e h1
  | ok uri =>
    cases h2 : specResponse a r call c uri with
    | error e => simp [bind, Except.bind, h2]; exact specResponse_nook a r call c uri e h2
    | ok u =>
      cases h3 : specBind cfg a r call c t with
      | error e => simp [bind, Except.bind, h2, h3]; exact specBind_nook cfg a r call c t e h3
      | ok u2 => simp [bind, Except.bind, h2, h3]

theorem ofNc_ok_iff (x : Mhd.Nonce.NcRes) : ofNc x = .ok ↔ x = .ok := by cases x <;> simp [ofNc]

theorem expected_ok_stages (cfg : Cfg) (tbl : Mhd.Nonce.Table) (now : Nat) (r : Req) (call : Call) (timeout maxNc : Nat)
    (c : Cred) (lv : LenView) :
    (expectedClass cfg tbl now r call timeout maxNc c lv).2 = .ok ↔
      ∃ a nci n t, specPre now timeout maxNc call c lv = .ok (a, nci, n, t) ∧
        (Mhd.Nonce.checkNonceNc tbl n t nci).2 = .ok ∧ specPost cfg r call c lv a t = .ok := by
  unfold expectedClass
  cases hS : specPre now timeout maxNc call c lv with
  | error e => simp; exact specPre_nook _ _ _ _ _ _ e hS
  | ok x =>
    obtain ⟨a, nci, n, t⟩ := x
    simp only [Except.ok.injEq, Prod.mk.injEq]
    cases hN : (Mhd.Nonce.checkNonceNc tbl n t nci).2 with
    | ok =>
      simp only
      constructor
      · intro h; exact ⟨a, nci, n, t, ⟨rfl, rfl, rfl, rfl⟩, hN, h⟩
      · rintro ⟨a', nci', n', t', ⟨rfl, rfl, rfl, rfl⟩, _, h⟩; exact h
    | stale =>
      simp only [ofNc]
      constructor
      · intro h; cases h
      · rintro ⟨a', nci', n', t', ⟨rfl, rfl, rfl, rfl⟩, h, _⟩; rw [hN] at h; cases h
    | wrong =>
      simp only [ofNc]
      constructor
      · intro h; cases h
      · rintro ⟨a', nci', n', t', ⟨rfl, rfl, rfl, rfl⟩, h, _⟩; rw [hN] at h; cases h
    | fault =>
      simp only [ofNc]
      constructor
      · intro h; cases h
      · rintro ⟨a', nci', n', t', ⟨rfl, rfl, rfl, rfl⟩, h, _⟩; rw [hN] at h; cases h

end Mhd.Dauth
