/-
  Generic composition: whatever request-line round trip produced the record `r` (canonical,
  non-canonical, whitespace blocks), the outer `get_request_line` then hands the application
  the decoded path and arguments of the rendering `R` of the target.
-/
import Mhd.Proofs.ReqTargetRT
set_option linter.unusedSimpArgs false
namespace Mhd.Req
namespace TGT
open RLP (BufIs)

theorem target_after_line (F : RLFlags) (strict : Bool) (pool : Nat) (r : ReqLine) (R : TargetR) (m v : List UInt8)
    (hR : R.ok = true) (hnum : r.numWs = 0) (vT : BufIs r.buf r.tgt (R.render ++ [0])) (hlen : r.tgtLen = R.render.length)
    (hq : r.qmark = (RLP.firstQ R.render).map (r.tgt + ·)) (vM : BufIs r.buf r.method (m ++ [0]))
    (vV : BufIs r.buf r.version (v ++ [0])) (hmt : r.method + m.length < r.tgt)
    (htv : r.tgt + R.render.length < r.version) :
    ∃ T, getRequestLineOuter F strict pool (.done (.ok r)) = .ok T ∧
      T.rawTarget = R.render ∧
      sliceBytes T.buf ⟨0, T.url, T.urlLen⟩ = R.semPath ∧
      T.elems.map (HSP.elemView T.buf) = R.semArgs.map (fun kv => (Gen.Http.kindGetArgument, kv.1, kv.2)) ∧
      BufIs T.buf T.method (m ++ [0]) ∧ T.methodLen = r.methodLen ∧ T.mthd = r.mthd ∧
      BufIs T.buf T.version (v ++ [0]) ∧ T.httpVer = r.httpVer ∧ T.rb = r.rb := by
  obtain ⟨_, ht⟩ := TargetR.render_bytes hR
  have wf : TargetWF r R.render := by
    refine ⟨vT, fun x hx => rplain_ne0 (ht x hx), hlen, ?_⟩
    rw [hq, firstQ_eq]
  obtain ⟨T, hT, h1, h2, h3, _, h5, _, _, h8, h9, h10, h11, h12, h13, h14, _⟩ := processRequestTarget_spec strict r R.render wf
  obtain ⟨d1, d2⟩ := target_decode_render strict R hR
  refine ⟨T, ?_, h1, by rw [h3, d1], by rw [h5, d2], ?_, h13, h14, ?_, h12, h9⟩
  · unfold getRequestLineOuter lineWspCheck
    simp only [hnum, ne_eq, not_true_eq_false, ↓reduceIte, hT]
  · rw [h10]
    refine BufIs_congr vM (fun i hi => h8 _ (Or.inl ?_))
    simp at hi; omega
  · rw [h11]
    refine BufIs_congr vV (fun i hi => h8 _ (Or.inr ?_))
    omega

end TGT
end Mhd.Req
