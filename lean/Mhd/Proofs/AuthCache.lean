/-
  C14 helper lemmas: the per-request cache of Authorization parameters.
-/
import Mhd.Model.AuthCache
import Mhd.Proofs.AuthLay
namespace Mhd.Auth
open Mhd.Gen.Auth

theorem basicOf_bauthParams (hs : List Hdr) : basicOf (bauthParams hs) = basicApiH hs := by
  unfold bauthParams basicApiH basicInfo
  cases findAuthHeader true basicBase hs with
  | none => rfl
  | some x =>
    obtain ⟨a, b, av⟩ := x
    simp only
    cases parseBasic av with
    | ok o => cases o with
      | none => rfl
      | some p => rfl
    | reject => rfl
    | fault e => rfl

theorem init_consistent (hs : List Hdr) : RqAuth.init.consistent hs := by
  constructor <;> intro h <;> simp [RqAuth.init] at h

/-- `MHD_get_rq_bauth_params_`: answer and cache after the call -/
theorem getBauth_spec (st : Bool) (hs : List Hdr) (c : RqAuth) (hc : c.consistent hs) :
    (getBauth st hs c).1 = (if st || c.bTried then bauthParams hs else none) ∧
    (getBauth st hs c).2.consistent hs ∧
    (c.bTried = false → st = false → (getBauth st hs c).2 = c) ∧
    ((getBauth st hs c).2.bTried = (st || c.bTried)) := by
  unfold getBauth
  by_cases ht : c.bTried = true
  · simp [ht, hc.1 ht, hc]
  · have ht' : c.bTried = false := by simpa using ht
    cases st with
    | false => simp [ht', hc]
    | true =>
      simp only [ht', Bool.false_eq_true, if_false, Bool.not_true, Bool.or_false, if_true]
      refine ⟨trivial, ⟨fun _ => rfl, fun h => hc.2 h⟩, fun _ h => by simp at h, trivial⟩

/-- `MHD_get_rq_dauth_params_` -/
theorem getDauth_spec (st : Bool) (hs : List Hdr) (c : RqAuth) (hc : c.consistent hs) :
    getDauth st hs c =
      (if c.dTried then .ok (c.d, c)
       else if st then (dauthParams hs).map fun o => (o, { c with dTried := true, d := o })
       else .ok (none, c)) ∧
    (c.dTried = true → Res.ok c.d = dauthParams hs) ∧
    (∀ x, getDauth st hs c = .ok x → x.2.consistent hs ∧ x.2.dTried = (st || c.dTried) ∧
      Res.ok x.1 = (if st || c.dTried then dauthParams hs else .ok none)) := by
  refine ⟨?_, hc.2, ?_⟩
  · unfold getDauth
    cases c.dTried <;> cases st <;> simp
  · intro x hx
    unfold getDauth at hx
    by_cases ht : c.dTried = true
    · simp only [ht, if_true, Res.ok.injEq] at hx
      subst hx
      simp [ht, hc.2 ht, hc]
    · have ht' : c.dTried = false := by simpa using ht
      cases st with
      | false =>
        simp only [ht', Bool.false_eq_true, if_false, Bool.not_false, if_true, Res.ok.injEq] at hx
        subst hx; simp [ht', hc]
      | true =>
        simp only [ht', Bool.false_eq_true, if_false, Bool.not_true] at hx
        cases hd : dauthParams hs with
        | ok o =>
          simp only [hd, Res.map_ok, Res.ok.injEq] at hx
          subst hx
          exact ⟨⟨fun h => hc.1 h, fun _ => by simp [hd]⟩, by simp, by simp⟩
        | reject => simp [hd] at hx
        | fault e => simp [hd] at hx

end Mhd.Auth
