/-
  C19 helper lemmas, part 2: the representation invariant of the decoder state and the
  per-step lemmas "no fault, invariant kept, progress made" for the header part of the
  state machine and decode_header_complete.
-/
import Mhd.Proofs.WSBase
namespace Mhd.WS

def OkOp (b : UInt8) : Prop :=
  (opcodeOf b = 0 ∨ opcodeOf b = 1 ∨ opcodeOf b = 2 ∨ opcodeOf b = 8 ∨ opcodeOf b = 9 ∨ opcodeOf b = 10) ∧
  (8 ≤ opcodeOf b → finBit b = true)

/-- representation invariant of the decoder state (code after F7/F7c) -/
structure Inv (ws : WS) : Prop where
  allocLt : ws.allocLimit < 2 ^ 63
  hdrLen : ws.hdr.length = 32
  stepOk : ws.step ≤ 18 ∨ ws.step = 99
  hsU : ws.hdrSize ≤ 16
  hsS : ws.step ≤ 15 → ws.hdrSize ≤ ws.step
  hsL : 12 ≤ ws.step → ws.step ≤ 15 → ws.step ≤ ws.hdrSize + 10
  hs1 : 1 ≤ ws.step → ws.step ≤ 15 → 1 ≤ ws.hdrSize
  h0 : 1 ≤ ws.step → ws.step ≤ 18 → ∃ b, ws.hdr[0]? = some b ∧ OkOp b
  h0c : ws.step = 18 → ∀ b, ws.hdr[0]? = some b → 8 ≤ opcodeOf b
  h0n : 1 ≤ ws.step → ws.step ≤ 16 → ∀ b, ws.hdr[0]? = some b → (opcodeOf b = 1 ∨ opcodeOf b = 2) → ws.dataType = 0
  psz : ws.payloadSize < 2 ^ 63
  idx : ws.payloadIndex ≤ ws.payloadSize
  idx0 : ws.step ≤ 16 → ws.payloadIndex = 0
  dsz : ws.dataSize < 2 ^ 63
  dbuf : match ws.dataBuf with
         | none => ws.dataSize = 0
         | some b => b.length = ws.dataSize + 1
  dst : ws.step = 17 → ws.dataStart + ws.payloadSize = ws.dataSize
  cbuf : ws.step = 18 → match ws.ctrlBuf with
         | none => ws.payloadSize = 0
         | some b => b.length = ws.payloadSize + 1
  u8a : ws.dataType ≠ 1 → ws.dataUtf8 = 0
  u8b : ws.dataUtf8 ≤ 10
  carry : ws.dataType = 1 →
    givenUtf8 ws.dataUtf8 ≤ (if ws.step = 17 then ws.dataStart + ws.payloadIndex else ws.dataSize)

def R.Good (P : WS → Prop) : R → Prop
  | .cont ws _ => P ws
  | .ret ws _ _ _ _ => P ws
  | .fault _ => False

theorem Inv.rng {ws : WS} (h : Inv ws) (r : List UInt8) : Inv { ws with rng := r } := by
  cases h; constructor <;> assumption

theorem Inv.same {a b : WS} (h : Inv a) (s : SameButRng a b) : Inv b := by
  obtain ⟨r, rfl⟩ := s; exact h.rng r

theorem Inv.validity {ws : WS} (h : Inv ws) (v : Nat) : Inv { ws with validity := v } := by
  cases h; constructor <;> assumption

theorem errRet_good {ws : WS} (h : Inv ws) (code : Nat) (st : Int) (adv : Nat) :
    (errRet ws code st adv).Good Inv := by
  unfold errRet
  exact (h.validity 0).same (genClose_ws _ _)

end Mhd.WS
namespace Mhd.WS

theorem pushHdr_some {ws : WS} (h : Inv ws) (b : UInt8) :
    pushHdr ws b = some { ws with hdr := ws.hdr.set ws.hdrSize b, hdrSize := ws.hdrSize + 1 } := by
  unfold pushHdr
  have := h.hsU; have := h.hdrLen
  rw [if_pos (by omega)]

theorem start_push_inv {ws : WS} (h : Inv ws) (hs : ws.step = 0) (b : UInt8) (hb : OkOp b)
    (hn : (opcodeOf b = 1 ∨ opcodeOf b = 2) → ws.dataType = 0) :
    Inv { ws with hdr := ws.hdr.set ws.hdrSize b, hdrSize := ws.hdrSize + 1, step := 1 } := by
  have hz : ws.hdrSize = 0 := by have := h.hsS (by omega); omega
  have hl := h.hdrLen
  have hget : (ws.hdr.set ws.hdrSize b)[0]? = some b := by
    rw [hz]; exact List.getElem?_set_self (by omega)
  have hi0 := h.idx0 (by omega)
  have hc := h.carry
  simp only [hs] at hc
  exact { h with
    hdrLen := by simp only [List.length_set]; exact hl
    stepOk := by simp
    hsU := by simp only []; omega
    hsS := by intro _; simp only []; omega
    hsL := by intro h1 h2; simp only [] at h1 h2; omega
    hs1 := by intro _ _; simp only []; omega
    h0 := fun _ _ => ⟨b, hget, hb⟩
    h0c := by intro h1; simp only [] at h1; omega
    h0n := by intro _ _ b' hb'; rw [hget] at hb'; injection hb' with hb'; subst hb'; exact hn
    idx0 := fun _ => hi0
    dst := by intro h1; simp only [] at h1; omega
    cbuf := by intro h1; simp only [] at h1; omega
    carry := by intro hd; have := hc hd; simpa using this }

end Mhd.WS
namespace Mhd.WS

/-- a payload handed to the application: `NULL` with length 0, or an allocation that
    contains the payload and its terminator byte -/
def PlOK (pl : Option (List UInt8)) (plen : Nat) : Prop :=
  match pl with
  | none => plen = 0
  | some b => plen < b.length

theorem encodeFrame_plok (ws : WS) (b0 : UInt8) (n : Nat) (body : List UInt8 → List UInt8) :
    PlOK (encodeFrame ws b0 n body).frame (encodeFrame ws b0 n body).len := by
  unfold encodeFrame
  simp only []
  split
  · rfl
  · split
    · rename_i hlen
      show _ < (_ ++ [0]).length
      simp only [List.length_append, List.length_cons, List.length_nil]
      omega
    · rfl

theorem genClose_plok (ws : WS) (c : Nat) : PlOK (genClose ws c).2.1 (genClose ws c).2.2 := by
  unfold genClose
  split
  · unfold encodeClose
    repeat' split
    all_goals first | rfl | exact encodeFrame_plok _ _ _ _
  · rfl

/-- number of loop trips that can follow without consuming input -/
def sil (ws : WS) : Nat :=
  if ws.step = 16 then 2
  else if (ws.step = 17 ∨ ws.step = 18) ∧ ws.payloadSize = ws.payloadIndex then 1 else 0

theorem sil_le (ws : WS) : sil ws ≤ 2 := by unfold sil; split <;> (try split) <;> omega

/-- a loop trip on `n` remaining bytes is fine: no fault, invariant kept, progress made,
    never more consumed than offered -/
def R.OK (ws : WS) (n : Nat) : R → Prop
  | .cont ws' k => Inv ws' ∧ ws'.validity ≠ 0 ∧ k ≤ n ∧ 3 * (n - k) + sil ws' < 3 * n + sil ws
  | .ret ws' st k pl plen => (ws'.validity ≠ 0 → Inv ws') ∧ k ≤ n ∧ PlOK pl plen ∧
      (0 ≤ st → sil ws' = 0 ∧ ws'.validity ≠ 0 ∧ (sil ws = 0 → 1 ≤ k))
  | .fault _ => False

theorem OK_cont1 {ws ws' : WS} {n : Nat} (h : Inv ws') (hv : ws'.validity ≠ 0) (hn : 1 ≤ n) :
    R.OK ws n (.cont ws' 1) := by
  refine ⟨h, hv, hn, ?_⟩
  have := sil_le ws'; omega

theorem genClose_validity (ws : WS) (c : Nat) : (genClose ws c).1.validity = ws.validity := by
  obtain ⟨r, hr⟩ := genClose_ws ws c
  rw [hr]

theorem OK_err {ws : WS} (ws' : WS) {n : Nat} (code : Nat) (st : Int) (adv : Nat) (ha : adv ≤ n)
    (hst : st < 0 := by omega) : R.OK ws n (errRet ws' code st adv) := by
  unfold errRet
  refine ⟨fun hv => absurd ?_ hv, ha, genClose_plok _ _, fun h => by omega⟩
  rw [genClose_validity]

theorem stepStart_ok {ws : WS} (h : Inv ws) (hv : ws.validity ≠ 0) (hs : ws.step = 0) (b : UInt8) {n : Nat}
    (hn : 1 ≤ n) : R.OK ws n (stepStart ws b) := by
  unfold stepStart
  simp only [pushHdr_some h, pushHdr_some (h.validity 2), hv, ne_eq, not_false_eq_true, if_true]
  split
  · exact OK_err _ _ _ _ (by omega)
  · split
    all_goals (repeat' split)
    all_goals first
      | exact OK_err _ _ _ _ (by omega)
      | exact OK_cont1 (start_push_inv h hs b ⟨by omega, by omega⟩ (by intro _; omega)) hv hn
      | exact OK_cont1 (start_push_inv (h.validity 2) hs b ⟨by omega, by intro _; simp_all⟩ (by intro _; omega)) (by simp) hn
      | exact OK_cont1 (start_push_inv h hs b ⟨by omega, by intro _; simp_all⟩ (by intro _; omega)) hv hn
end Mhd.WS
namespace Mhd.WS

theorem push_get0 {ws : WS} (h : Inv ws) (h1 : 1 ≤ ws.step) (h15 : ws.step ≤ 15) (b : UInt8) :
    (ws.hdr.set ws.hdrSize b)[0]? = ws.hdr[0]? := by
  have := h.hs1 h1 h15
  rw [List.getElem?_set_ne (by omega)]

theorem push_inv {ws : WS} (h : Inv ws) (h1 : 1 ≤ ws.step) (h15 : ws.step ≤ 15) (b : UInt8) (s' psz : Nat)
    (mk : List UInt8) (hsa : ws.hdrSize + 1 ≤ s') (hsb : s' ≤ 16)
    (hL : 12 ≤ s' → s' ≤ 15 → s' ≤ ws.hdrSize + 11) (hp : psz < 2 ^ 63) :
    Inv { ws with hdr := ws.hdr.set ws.hdrSize b, hdrSize := ws.hdrSize + 1, step := s', payloadSize := psz,
                  maskKey := mk } := by
  have hl := h.hdrLen
  have hg := push_get0 h h1 h15 b
  have hi0 := h.idx0 (by omega)
  have hss := h.hsS h15
  have hs1 := h.hs1 h1 h15
  have hc := h.carry
  have h17 : ¬ ws.step = 17 := by omega
  simp only [h17, if_false] at hc
  exact { h with
    hdrLen := by simp only [List.length_set]; exact hl
    stepOk := by simp only []; omega
    hsU := by simp only []; omega
    hsS := by intro _; simp only []; omega
    hsL := by intro h1 h2; simp only [] at h1 h2 ⊢; omega
    hs1 := by intro _ _; simp only []; omega
    h0 := by intro _ _; simp only [hg]; exact h.h0 h1 (by omega)
    h0c := by intro h1; simp only [] at h1; omega
    h0n := by intro _ _; simp only [hg]; exact h.h0n h1 (by omega)
    psz := hp
    idx := by simp only [hi0]; omega
    idx0 := fun _ => hi0
    dst := by intro h1; simp only [] at h1; omega
    cbuf := by intro h1; simp only [] at h1; omega
    carry := by
      intro hd; have := hc hd
      have h17' : ¬ s' = 17 := by omega
      simp only [h17', if_false]; exact this }

theorem afterLength_inv {ws : WS} (h : Inv ws) (h1 : 1 ≤ ws.step) (h11 : ws.step ≤ 11) (b : UInt8)
    (size : Nat) (hsz : size < 2 ^ 63) (masked : Bool) :
    Inv (afterLength { ws with hdr := ws.hdr.set ws.hdrSize b, hdrSize := ws.hdrSize + 1 } size masked) := by
  have hss := h.hsS (by omega)
  have hs1 := h.hs1 h1 (by omega)
  unfold afterLength
  split
  · exact push_inv h h1 (by omega) b 12 size ws.maskKey (by omega) (by omega) (by omega) hsz
  · exact push_inv h h1 (by omega) b 16 size [0, 0, 0, 0] (by omega) (by omega) (by omega) hsz

theorem afterLength_validity (ws : WS) (size : Nat) (masked : Bool) :
    (afterLength ws size masked).validity = ws.validity := by
  unfold afterLength; split <;> rfl

theorem stepLen1_ok {ws : WS} (h : Inv ws) (hv : ws.validity ≠ 0) (hs : ws.step = 1) (b : UInt8) {n : Nat}
    (hn : 1 ≤ n) : R.OK ws n (stepLen1 ws b) := by
  unfold stepLen1
  obtain ⟨h0, hh0, _⟩ := h.h0 (by omega) (by omega)
  have hss := h.hsS (by omega)
  simp only [hh0, pushHdr_some h]
  split
  · exact OK_err _ _ _ _ (by omega)
  · split
    · exact OK_cont1 (push_inv h (by omega) (by omega) b 2 ws.payloadSize ws.maskKey (by omega) (by omega) (by omega) h.psz) hv hn
    · split
      · exact OK_cont1 (push_inv h (by omega) (by omega) b 4 ws.payloadSize ws.maskKey (by omega) (by omega) (by omega) h.psz) hv hn
      · split
        · exact OK_err _ _ _ _ (by omega)
        · refine OK_cont1 (afterLength_inv h (by omega) (by omega) b _ ?_ _) (by rw [afterLength_validity]; exact hv) hn
          have : len7 b < 128 := by unfold len7; omega
          omega

theorem stepStore_ok {ws : WS} (h : Inv ws) (hv : ws.validity ≠ 0)
    (hs : ws.step = 2 ∨ (4 ≤ ws.step ∧ ws.step ≤ 10) ∨ (12 ≤ ws.step ∧ ws.step ≤ 14)) (b : UInt8) {n : Nat}
    (hn : 1 ≤ n) : R.OK ws n (stepStore ws b) := by
  unfold stepStore
  have hss := h.hsS (by omega)
  have hsl := h.hsL
  simp only [pushHdr_some h]
  exact OK_cont1 (push_inv h (by omega) (by omega) b (ws.step + 1) ws.payloadSize ws.maskKey (by omega) (by omega) (by omega) h.psz) hv hn

theorem beVal_lt (bs : List UInt8) : beVal bs < 256 ^ bs.length := by
  unfold beVal
  suffices ∀ (a : Nat) (bs : List UInt8), bs.foldl (fun a b => a * 256 + b.toNat) a < (a + 1) * 256 ^ bs.length by
    simpa using this 0 bs
  intro a bs
  induction bs generalizing a with
  | nil => simp
  | cons c cs ih =>
    simp only [List.foldl_cons, List.length_cons]
    have := ih (a * 256 + c.toNat)
    have hc : c.toNat < 256 := c.toNat_lt
    calc _ < (a * 256 + c.toNat + 1) * 256 ^ cs.length := this
      _ ≤ ((a + 1) * 256) * 256 ^ cs.length := Nat.mul_le_mul_right _ (by omega)
      _ = (a + 1) * 256 ^ (cs.length + 1) := by rw [Nat.pow_succ]; ac_rfl

theorem hdrBytes_some {ws : WS} (hl : ws.hdr.length = 32) (off k : Nat) (hk : off + k ≤ 32) :
    ∃ bs, hdrBytes ws off k = some bs ∧ bs.length = k := by
  unfold hdrBytes
  rw [if_pos (by omega)]
  refine ⟨_, rfl, ?_⟩
  simp only [List.length_take, List.length_drop]; omega

end Mhd.WS
namespace Mhd.WS

theorem pushed_get1 {ws : WS} (h : Inv ws) (b : UInt8) :
    ∃ h1, (ws.hdr.set ws.hdrSize b)[1]? = some h1 := by
  have hl := h.hdrLen
  have : 1 < (ws.hdr.set ws.hdrSize b).length := by simp only [List.length_set]; omega
  exact ⟨_, List.getElem?_eq_getElem this⟩

theorem stepLen2of2_ok {ws : WS} (h : Inv ws) (hv : ws.validity ≠ 0) (hs : ws.step = 3) (b : UInt8) {n : Nat}
    (hn : 1 ≤ n) : R.OK ws n (stepLen2of2 ws b) := by
  unfold stepLen2of2
  simp only [pushHdr_some h]
  obtain ⟨bs, hbs, hbl⟩ := hdrBytes_some (ws := { ws with hdr := ws.hdr.set ws.hdrSize b, hdrSize := ws.hdrSize + 1 })
    (by simp only [List.length_set]; exact h.hdrLen) 2 2 (by omega)
  obtain ⟨h1, hh1⟩ := pushed_get1 h b
  simp only [hbs, hh1]
  have hlt := beVal_lt bs
  rw [hbl] at hlt
  split
  · exact OK_err _ _ _ _ (by omega)
  · split
    · exact OK_err _ _ _ _ (by omega)
    · exact OK_cont1 (afterLength_inv h (by omega) (by omega) b _ (by omega) _)
        (by rw [afterLength_validity]; exact hv) hn

theorem stepLen8of8_ok {ws : WS} (h : Inv ws) (hv : ws.validity ≠ 0) (hs : ws.step = 11) (b : UInt8) {n : Nat}
    (hn : 1 ≤ n) : R.OK ws n (stepLen8of8 ws b) := by
  unfold stepLen8of8
  simp only [pushHdr_some h]
  obtain ⟨bs, hbs, hbl⟩ := hdrBytes_some (ws := { ws with hdr := ws.hdr.set ws.hdrSize b, hdrSize := ws.hdrSize + 1 })
    (by simp only [List.length_set]; exact h.hdrLen) 2 8 (by omega)
  obtain ⟨h1, hh1⟩ := pushed_get1 h b
  simp only [hbs, hh1]
  split
  · exact OK_err _ _ _ _ (by omega)
  · split
    · exact OK_err _ _ _ _ (by omega)
    · split
      · exact OK_err _ _ _ _ (by omega)
      · exact OK_cont1 (afterLength_inv h (by omega) (by omega) b _ (by omega) _)
          (by rw [afterLength_validity]; exact hv) hn

theorem stepMask4_ok {ws : WS} (h : Inv ws) (hv : ws.validity ≠ 0) (hs : ws.step = 15) (b : UInt8) {n : Nat}
    (hn : 1 ≤ n) : R.OK ws n (stepMask4 ws b) := by
  unfold stepMask4
  have hss := h.hsS (by omega)
  have hsl := h.hsL (by omega) (by omega)
  simp only [pushHdr_some h]
  rw [if_neg (by omega)]
  obtain ⟨bs, hbs, hbl⟩ := hdrBytes_some (ws := { ws with hdr := ws.hdr.set ws.hdrSize b, hdrSize := ws.hdrSize + 1 })
    (by simp only [List.length_set]; exact h.hdrLen) (ws.hdrSize + 1 - 4) 4 (by omega)
  simp only [hbs]
  exact OK_cont1 (push_inv h (by omega) (by omega) b 16 ws.payloadSize bs (by omega) (by omega) (by omega) h.psz) hv hn

end Mhd.WS
namespace Mhd.WS

/-- outcome of `decode_header_complete` / `decode_payload_complete` from a good state -/
def R.HC (P : WS → Prop) : R → Prop
  | .cont ws' _ => Inv ws' ∧ ws'.validity ≠ 0 ∧ P ws'
  | .ret ws' st k pl plen => (ws'.validity ≠ 0 → Inv ws') ∧ k = 0 ∧ PlOK pl plen ∧
      (0 ≤ st → ws'.step = 0 ∧ ws'.validity ≠ 0)
  | .fault _ => False

theorem HC_err (P : WS → Prop) (ws' : WS) (code : Nat) (st : Int) (hst : st < 0 := by omega) :
    R.HC P (errRet ws' code st 0) := by
  unfold errRet
  refine ⟨fun hv => absurd ?_ hv, rfl, genClose_plok _ _, fun h => by omega⟩
  rw [genClose_validity]

theorem W_eq : W = 18446744073709551616 := by unfold W; rfl

theorem Inv.toData {ws : WS} (h : Inv ws) (hs : ws.step = 16) (buf : Option (List UInt8))
    (dstart dsize dtype : Nat)
    (hb : match buf with
          | none => dsize = 0
          | some b => b.length = dsize + 1)
    (hd : dstart + ws.payloadSize = dsize) (hds : dsize < 2 ^ 63)
    (hu : dtype ≠ 1 → ws.dataUtf8 = 0) (hc : dtype = 1 → givenUtf8 ws.dataUtf8 ≤ dstart) :
    Inv { ws with dataBuf := buf, dataStart := dstart, dataSize := dsize, dataType := dtype, step := 17 } := by
  have hi0 := h.idx0 (by omega)
  exact { h with
    stepOk := by simp
    hsS := by intro h1; simp only [] at h1; omega
    hsL := by intro h1 h2; simp only [] at h1 h2; omega
    hs1 := by intro h1 h2; simp only [] at h1 h2; omega
    h0 := fun _ _ => h.h0 (by omega) (by omega)
    h0c := by intro h1; simp only [] at h1; omega
    h0n := by intro h1 h2; simp only [] at h1 h2; omega
    idx := by simp only [hi0]; omega
    idx0 := by intro h1; simp only [] at h1; omega
    dsz := hds
    dbuf := hb
    dst := fun _ => hd
    cbuf := by intro h1; simp only [] at h1; omega
    u8a := hu
    carry := by intro hd; have := hc hd; simp only [if_true, hi0]; omega }

theorem Inv.toCtrl {ws : WS} (h : Inv ws) (hs : ws.step = 16) (buf : Option (List UInt8)) (cu : Nat)
    (hb : match buf with
          | none => ws.payloadSize = 0
          | some b => b.length = ws.payloadSize + 1)
    (hop : ∀ b, ws.hdr[0]? = some b → 8 ≤ opcodeOf b) :
    Inv { ws with ctrlBuf := buf, ctrlUtf8 := cu, step := 18 } := by
  have hi0 := h.idx0 (by omega)
  have hc := h.carry
  have h17 : ¬ ws.step = 17 := by omega
  simp only [h17, if_false] at hc
  exact { h with
    stepOk := by simp
    hsS := by intro h1; simp only [] at h1; omega
    hsL := by intro h1 h2; simp only [] at h1 h2; omega
    hs1 := by intro h1 h2; simp only [] at h1 h2; omega
    h0 := fun _ _ => h.h0 (by omega) (by omega)
    h0c := fun _ => hop
    h0n := by intro h1 h2; simp only [] at h1 h2; omega
    idx := by simp only [hi0]; omega
    idx0 := by intro h1; simp only [] at h1; omega
    dst := by intro h1; simp only [] at h1; omega
    cbuf := fun _ => hb
    carry := by intro hd; have := hc hd; simpa using this }

theorem headerComplete_ok {ws : WS} (h : Inv ws) (hv : ws.validity ≠ 0) (hs : ws.step = 16) :
    R.HC (fun ws' => ws'.step = 17 ∨ ws'.step = 18) (headerComplete false ws) := by
  unfold headerComplete
  obtain ⟨h0, hh0, hok⟩ := h.h0 (by omega) (by omega)
  have hn := h.h0n (by omega) (by omega) h0 hh0
  have hpsz := h.psz
  have hdsz := h.dsz
  have hal := h.allocLt
  have hc := h.carry
  have h17 : ¬ ws.step = 17 := by omega
  simp only [h17, if_false] at hc
  simp only [hh0]
  have ht : (ws.payloadSize + ws.dataSize) % W = ws.payloadSize + ws.dataSize :=
    Nat.mod_eq_of_lt (by rw [W_eq]; omega)
  have ht1 : (ws.payloadSize + 1) % W = ws.payloadSize + 1 := Nat.mod_eq_of_lt (by rw [W_eq]; omega)
  have hctl : ∀ (buf : Option (List UInt8)), 8 ≤ opcodeOf h0 →
      (match buf with
       | none => ws.payloadSize = 0
       | some b => b.length = ws.payloadSize + 1) →
      R.HC (fun ws' => ws'.step = 17 ∨ ws'.step = 18) (.cont { ws with ctrlBuf := buf, ctrlUtf8 := 0, step := 18 } 0) := by
    intro buf h8 hb
    refine ⟨h.toCtrl hs buf 0 hb ?_, hv, Or.inr rfl⟩
    intro b hb'; rw [hh0] at hb'; injection hb' with hb'; subst hb'; exact h8
  have hdat : (opcodeOf h0 = 1 ∨ opcodeOf h0 = 2) → ∀ (buf : Option (List UInt8)),
      (match buf with
       | none => ws.payloadSize = 0
       | some b => b.length = ws.payloadSize + 1) →
      R.HC (fun ws' => ws'.step = 17 ∨ ws'.step = 18)
        (.cont { ws with dataBuf := buf, dataStart := 0, dataSize := ws.payloadSize, dataType := opcodeOf h0, step := 17 } 0) := by
    intro hop buf hb
    have hdt : ws.dataType = 0 := hn hop
    have hu0 : ws.dataUtf8 = 0 := h.u8a (by omega)
    refine ⟨h.toData hs buf 0 ws.payloadSize (opcodeOf h0) hb (by omega) hpsz (fun _ => hu0) ?_, hv, Or.inl rfl⟩
    intro _; simp [hu0, givenUtf8]
  have hmem : R.HC (fun ws' => ws'.step = 17 ∨ ws'.step = 18) (.ret ws (-3) 0 none 0) := ⟨fun _ => h, rfl, rfl, fun h => by omega⟩
  have halloc : ∀ nb, alloc ws (ws.payloadSize + 1) = some nb →
      ∃ nb', termAt nb ws.payloadSize = some nb' ∧ nb'.length = ws.payloadSize + 1 := by
    intro nb hnb
    obtain ⟨hl, _⟩ := alloc_length _ _ _ hnb
    obtain ⟨nb', hnb'⟩ := termAt_some nb ws.payloadSize (by omega)
    exact ⟨nb', hnb', by rw [termAt_length _ _ _ hnb']; exact hl⟩
  split
  · -- continuation
    simp only [ht]
    split
    · exact HC_err _ _ _ _
    · split
      · rename_i htot
        have ht2 : (ws.payloadSize + ws.dataSize + 1) % W = ws.payloadSize + ws.dataSize + 1 :=
          Nat.mod_eq_of_lt (by rw [W_eq]; omega)
        simp only [ht2]
        split
        · exact hmem
        · rename_i nb hnb
          obtain ⟨hl, hlim⟩ := realloc_length _ _ _ _ hnb
          obtain ⟨nb', hnb'⟩ := termAt_some nb (ws.payloadSize + ws.dataSize) (by omega)
          have hl' := termAt_length _ _ _ hnb'
          simp only [hnb']
          exact ⟨h.toData hs (some nb') ws.dataSize (ws.payloadSize + ws.dataSize) ws.dataType (by simp only []; omega)
            (by omega) (by omega) h.u8a hc, hv, Or.inl rfl⟩
      · rename_i htot
        exact ⟨h.toData hs none 0 (ws.payloadSize + ws.dataSize) ws.dataType (by simp only []; omega)
            (by omega) (by omega) h.u8a (by intro hd; have := hc hd; omega), hv, Or.inl rfl⟩
  · rename_i hop
    simp only [ht1, hop]
    split
    · split
      · exact hmem
      · rename_i nb hnb
        obtain ⟨nb', hnb', hl'⟩ := halloc nb hnb
        simp only [hnb']
        have := hdat (Or.inl hop) (some nb') hl'
        rwa [hop] at this
    · have := hdat (Or.inl hop) none (by simp only []; omega)
      rwa [hop] at this
  · rename_i hop
    simp only [ht1, hop]
    split
    · split
      · exact hmem
      · rename_i nb hnb
        obtain ⟨nb', hnb', hl'⟩ := halloc nb hnb
        simp only [hnb']
        have := hdat (Or.inr hop) (some nb') hl'
        rwa [hop] at this
    · have := hdat (Or.inr hop) none (by simp only []; omega)
      rwa [hop] at this
  · rename_i hop
    simp only [ht1, Bool.false_eq_true, if_false]
    split
    · split
      · exact hmem
      · rename_i nb hnb
        obtain ⟨nb', hnb', hl'⟩ := halloc nb hnb
        simp only [hnb']
        exact hctl (some nb') (by omega) hl'
    · exact hctl none (by omega) (by simp only []; omega)
  · rename_i hop
    simp only [ht1, Bool.false_eq_true, if_false]
    split
    · split
      · exact hmem
      · rename_i nb hnb
        obtain ⟨nb', hnb', hl'⟩ := halloc nb hnb
        simp only [hnb']
        exact hctl (some nb') (by omega) hl'
    · exact hctl none (by omega) (by simp only []; omega)
  · rename_i hop
    simp only [ht1, Bool.false_eq_true, if_false]
    split
    · split
      · exact hmem
      · rename_i nb hnb
        obtain ⟨nb', hnb', hl'⟩ := halloc nb hnb
        simp only [hnb']
        exact hctl (some nb') (by omega) hl'
    · exact hctl none (by omega) (by simp only []; omega)
  · rename_i hx0 hx1 hx2 hx8 hx9 hx10
    rcases hok.1 with h | h | h | h | h | h
    · exact absurd h hx0
    · exact absurd h hx1
    · exact absurd h hx2
    · exact absurd h hx8
    · exact absurd h hx9
    · exact absurd h hx10
end Mhd.WS
