/-
  C14 helper lemmas, part 2: unfolding lemmas of the scanners, whitespace skipping,
  quoted-string and token scanning of rendered values.
-/
import Mhd.Proofs.AuthStr
namespace Mhd.Auth
open Mhd.Gen.Auth

/-! unfolding lemmas -/
theorem unquoteLoop_nil : unquoteLoop [] = some [] := by rw [unquoteLoop.eq_def]
theorem unquoteLoop_esc (c2 : UInt8) (r2 : Bytes) :
    unquoteLoop (92 :: c2 :: r2) = (unquoteLoop r2).map (c2 :: ·) := by rw [unquoteLoop.eq_def]; simp
theorem unquoteLoop_plain (c : UInt8) (r : Bytes) (h : c ≠ 92) :
    unquoteLoop (c :: r) = (unquoteLoop r).map (c :: ·) := by rw [unquoteLoop.eq_def]; simp [h]
theorem unquoteLoop_bs : unquoteLoop [92] = none := by rw [unquoteLoop.eq_def]; simp

theorem scanQ_nil (t : Option UInt8) : scanQ t [] = .reject := by rw [scanQ.eq_def]
theorem scanQ_quote (t : Option UInt8) (r : Bytes) : scanQ t (34 :: r) = .ok ([], false, r) := by
  rw [scanQ.eq_def]; simp
theorem scanQ_esc (t : Option UInt8) (c2 : UInt8) (r2 : Bytes) (h : c2 ≠ 0) :
    scanQ t (92 :: c2 :: r2) = (scanQ t r2).map fun x => (92 :: c2 :: x.1, true, x.2.2) := by
  rw [scanQ.eq_def]; simp [h]
theorem scanQ_esc0 (t : Option UInt8) (r2 : Bytes) : scanQ t (92 :: 0 :: r2) = .reject := by
  rw [scanQ.eq_def]; simp
theorem scanQ_bs_end_some (t : UInt8) : scanQ (some t) [92] = .reject := by
  rw [scanQ.eq_def]; simp
theorem scanQ_bs_end_none : scanQ none [92] = .fault .quotedBackslashEnd := by
  rw [scanQ.eq_def]; simp
theorem scanQ_plain (t : Option UInt8) (c : UInt8) (r : Bytes) (h34 : c ≠ 34) (h92 : c ≠ 92) (h0 : c ≠ 0) :
    scanQ t (c :: r) = (scanQ t r).map fun x => (c :: x.1, x.2.1, x.2.2) := by
  rw [scanQ.eq_def]; simp [h34, h92, h0]
theorem scanQ_zero (t : Option UInt8) (r : Bytes) : scanQ t (0 :: r) = .reject := by
  rw [scanQ.eq_def]; simp

theorem scanTok_nil_some (t : UInt8) : scanTok (some t) [] = if t = 59 then .reject else .ok ([], []) := by
  rw [scanTok.eq_def]
theorem scanTok_nil_none : scanTok none [] = .fault .tokenEnd := by
  rw [scanTok.eq_def]
theorem scanTok_cons (t : Option UInt8) (c : UInt8) (r : Bytes) :
    scanTok t (c :: r) = if c = 44 ∨ c = 32 ∨ c = 9 then .ok ([], c :: r) else if c = 59 then .reject
      else if c = 0 then .reject else if c = 34 then .reject else (scanTok t r).map fun x => (c :: x.1, x.2) := by
  rw [scanTok.eq_def]

theorem isWs_iff (c : UInt8) : isWs c = true ↔ c = 32 ∨ c = 9 := by simp [isWs]

theorem skipWs_nil : skipWs [] = [] := by rw [skipWs.eq_def]
theorem skipWs_cons (c : UInt8) (r : Bytes) : skipWs (c :: r) = if isWs c then skipWs r else c :: r := by
  rw [skipWs.eq_def]

theorem skipWs_append (w rest : Bytes) (hw : allWs w = true) : skipWs (w ++ rest) = skipWs rest := by
  induction w with
  | nil => rfl
  | cons c r ih =>
    simp only [allWs, List.all_cons, Bool.and_eq_true] at hw
    simp only [List.cons_append, skipWs_cons, hw.1, if_true]
    exact ih (by simpa [allWs] using hw.2)

theorem skipWs_stop (rest : Bytes) (h : rest = [] ∨ ∃ c r, rest = c :: r ∧ isWs c = false) : skipWs rest = rest := by
  rcases h with h | ⟨c, r, h, hc⟩
  · subst h; exact skipWs_nil
  · subst h; simp [skipWs_cons, hc]

theorem unquoteLoop_escRender (esc : List Bool) (v : Bytes) : unquoteLoop (escRender esc v) = some v := by
  induction v generalizing esc with
  | nil => cases esc <;> simp [escRender, unquoteLoop_nil]
  | cons c r ih =>
    cases esc with
    | nil =>
      simp only [escRender]
      split
      · simp [unquoteLoop_esc, ih]
      · rename_i h
        have h92 : c ≠ 92 := fun h' => h (Or.inr h')
        simp [unquoteLoop_plain _ _ h92, ih]
    | cons b bs =>
      simp only [escRender]
      split
      · simp [unquoteLoop_esc, ih]
      · rename_i h
        have h92 : c ≠ 92 := fun h' => h (Or.inr (Or.inl h'))
        simp [unquoteLoop_plain _ _ h92, ih]

theorem escRender_of_anyEsc_false (esc : List Bool) (v : Bytes) (h : anyEsc esc v = false) : escRender esc v = v := by
  induction v generalizing esc with
  | nil => cases esc <;> simp [escRender]
  | cons c r ih =>
    cases esc with
    | nil =>
      simp only [anyEsc, Bool.or_eq_false_iff, decide_eq_false_iff_not] at h
      simp [escRender, h.1, ih [] h.2]
    | cons b bs =>
      simp only [anyEsc, Bool.or_eq_false_iff, decide_eq_false_iff_not] at h
      simp [escRender, h.1, ih bs h.2]

theorem scanQ_escRender (term : Option UInt8) (esc : List Bool) (v rest : Bytes) (hv : ∀ c ∈ v, c ≠ 0) :
    scanQ term (escRender esc v ++ 34 :: rest) = .ok (escRender esc v, anyEsc esc v, rest) := by
  induction v generalizing esc with
  | nil => cases esc <;> simp [escRender, anyEsc, scanQ_quote]
  | cons c r ih =>
    have hc : c ≠ 0 := hv c (by simp)
    have hr : ∀ c ∈ r, c ≠ 0 := fun x hx => hv x (by simp [hx])
    cases esc with
    | nil =>
      simp only [escRender, anyEsc]
      by_cases h : c = 34 ∨ c = 92
      · simp [h, scanQ_esc _ _ _ hc, ih [] hr]
      · have h34 : c ≠ 34 := fun h' => h (Or.inl h')
        have h92 : c ≠ 92 := fun h' => h (Or.inr h')
        simp [h, scanQ_plain _ _ _ h34 h92 hc, ih [] hr]
    | cons b bs =>
      simp only [escRender, anyEsc]
      by_cases h : c = 34 ∨ c = 92 ∨ b = true
      · simp [h, scanQ_esc _ _ _ hc, ih bs hr]
      · have h34 : c ≠ 34 := fun h' => h (Or.inl h')
        have h92 : c ≠ 92 := fun h' => h (Or.inr (Or.inl h'))
        simp [h, scanQ_plain _ _ _ h34 h92 hc, ih bs hr]

/-- an unquoted value is delivered as is, up to the first SP / HT / ',' or the end -/
theorem scanTok_token (t : UInt8) (ht : t ≠ 59) (v rest : Bytes) (hv : v.all tokByte = true)
    (hrest : rest = [] ∨ ∃ c r, rest = c :: r ∧ (c = 44 ∨ c = 32 ∨ c = 9)) :
    scanTok (some t) (v ++ rest) = .ok (v, rest) := by
  induction v with
  | nil =>
    rcases hrest with h | ⟨c, r, h, hc⟩
    · subst h; simp [scanTok_nil_some, ht]
    · subst h; simp [scanTok_cons, hc]
  | cons c r ih =>
    simp only [List.all_cons, Bool.and_eq_true] at hv
    have hc := hv.1
    simp only [tokByte, Bool.and_eq_true, bne_iff_ne, ne_eq, decide_eq_true_eq] at hc
    obtain ⟨⟨⟨⟨⟨h34, h0⟩, h32⟩, h9⟩, h44⟩, h59⟩ := hc
    simp [scanTok_cons, h34, h0, h32, h9, h44, h59, ih hv.2]

end Mhd.Auth
