/-
  C12 proofs: the public entry points on a request that carries a rendered credential; replay.
-/
import Mhd.Proofs.DauthRender
import Mhd.Proofs.AuthHdr
import Mhd.Proofs.NonceInv
namespace Mhd.Dauth
open Mhd.Auth Mhd.Gen.Auth Mhd.Gen.Dauth

/-- the request carries `Authorization: Digest <rendering of es>` (field name and scheme in any letter case, SP or HT
    after the scheme) and no earlier field is a Digest Authorization field -/
def CarriesDigest (r : Req) (lead : Bytes) (es : List Elem) : Prop :=
  ∃ pre post nm sch sp, r.hdrs = pre ++ ⟨headerKind, nm, sch ++ sp :: render lead es⟩ :: post ∧
    (∀ x ∈ pre, hdrMatch digestBase x = none) ∧ nm.map toLowerB = authHeader.map toLowerB ∧
    sch.map toLowerB = digestBase.map toLowerB ∧ (sp = 32 ∨ sp = 9)

theorem findAuth_carries (r : Req) (lead : Bytes) (es : List Elem) (h : CarriesDigest r lead es) :
    ∃ i off, findAuthHeader true digestBase r.hdrs = some (i, off, render lead es) := by
  obtain ⟨pre, post, nm, sch, sp, hh, hpre, hnm, hs, hsp⟩ := h
  have hlen : sch.length = digestBase.length := by simpa using congrArg List.length hs
  have hm : hdrMatch digestBase ⟨headerKind, nm, sch ++ sp :: render lead es⟩ = some (digestBase.length + 1, render lead es) := by
    rw [hdrMatch_exact]
    have hc : ((⟨headerKind, nm, sch ++ sp :: render lead es⟩ : Hdr).kind = headerKind ∧
        (⟨headerKind, nm, sch ++ sp :: render lead es⟩ : Hdr).name.map toLowerB = authHeader.map toLowerB ∧
        digestBase.length ≤ (⟨headerKind, nm, sch ++ sp :: render lead es⟩ : Hdr).value.length ∧
        ((⟨headerKind, nm, sch ++ sp :: render lead es⟩ : Hdr).value.take digestBase.length).map toLowerB = digestBase.map toLowerB) := by
      refine ⟨rfl, hnm, by simp; omega, ?_⟩
      simp only [← hlen, List.take_left', hs]
    rw [if_pos hc]
    simp only [← hlen, List.drop_left', hsp, if_true]
  refine ⟨0 + pre.length, digestBase.length + 1, ?_⟩
  rw [hh]
  simp only [findAuthHeader, Bool.not_true, Bool.false_eq_true, if_false]
  exact findHdrLoop_first digestBase pre _ post 0 _ _ hpre hm

/-- `MHD_get_rq_dauth_params_` on such a request: the parsed parameters, with their guaranteed properties -/
theorem getParams_rendered (r : Req) (lead : Bytes) (es : List Elem) (hc : CarriesDigest r lead es)
    (hwf : WF lead es = true) (hext : ExtPlain es) :
    ∃ d, getParams r = .ok (some d) ∧ WQ d ∧ QopParsed d ∧ QopRange (semOf d) ∧ semOf d = Cred.ofView (view es) ∧
      lenView d = rawLenView es := by
  obtain ⟨i, off, hf⟩ := findAuth_carries r lead es hc
  obtain ⟨d, hp, h1, h2, h3, h4, h5⟩ := parsed_rendered lead es 0 (by decide) hwf hext
  exact ⟨d, by simp [getParams, hf, hp], h1, h2, h3, h4, h5⟩

/-- the effective `nonce_timeout` / `max_nc` (zero = the daemon's default) -/
def effTimeout (cfg : Cfg) (call : Call) : Nat := if call.nonceTimeout = 0 then cfg.defTimeout else call.nonceTimeout
def effMaxNc (cfg : Cfg) (call : Call) : Nat := if call.maxNc = 0 then cfg.defMaxNc else call.maxNc

/-- the application respects the API: `MHD_digest_auth_check3` with a password, or
    `MHD_digest_auth_check_digest3` with exactly one base algorithm and a digest of that algorithm's size -/
def CallOk (call : Call) : Prop :=
  match call.secret with
  | .password _ => True
  | .userdigest dg =>
    bit call.malgo3 baseMd5 + bit call.malgo3 baseSha256 + bit call.malgo3 baseSha512 = 1 ∧ hashSizeOf call.malgo3 = dg.length

theorem digestCheck_eq (cfg : Cfg) (tbl : Mhd.Nonce.Table) (now : Nat) (r : Req) (call : Call) (hc : CallOk call)
    (p : Option DAuth) (hp : getParams r = .ok p) :
    digestCheck cfg tbl now r call = checkInner cfg tbl now r call (effTimeout cfg call) (effMaxNc cfg call) p := by
  unfold digestCheck CallOk at *
  cases hs : call.secret with
  | password pw => simp [checkAll, hp, effTimeout, effMaxNc]
  | userdigest dg =>
    rw [hs] at hc
    simp only at hc
    simp [checkAll, hp, effTimeout, effMaxNc, hc.1, hc.2]

/-- a count accepted once is not accepted again (for any reachable nonce table) -/
theorem replay_refused (size : Nat) (tbl : Mhd.Nonce.Table) (h : List Mhd.Nonce.Ev) (hr : Mhd.Nonce.TblRel size tbl h)
    (n : Bytes) (t t' c : Nat) (hok : (Mhd.Nonce.checkNonceNc tbl n t c).2 = .ok) :
    (Mhd.Nonce.checkNonceNc (Mhd.Nonce.checkNonceNc tbl n t c).1 n t' c).2 ≠ .ok := by
  intro h2
  have hstep : Mhd.Nonce.step tbl (.check n t c) = ((Mhd.Nonce.checkNonceNc tbl n t c).1, .ok) := by
    simp [Mhd.Nonce.step, hok, Mhd.Nonce.Out.ofNc]
  have hr' := Mhd.Nonce.tblRel_step size tbl h (.check n t c) hr trivial
  rw [hstep] at hr'
  have hstep2 : (Mhd.Nonce.step (Mhd.Nonce.checkNonceNc tbl n t c).1 (.check n t' c)).2 = .ok := by
    simp [Mhd.Nonce.step, h2, Mhd.Nonce.Out.ofNc]
  have hf := Mhd.Nonce.ok_facts size _ _ (.check n t' c) hr' rfl hstep2
  have hu := (Mhd.Nonce.hist_ok size ⟨.check n t c, .ok⟩ h (Mhd.Nonce.slotIdx size n) rfl rfl).2
  apply hf.2.2.1
  simp only [Mhd.Nonce.Op.nonce, Mhd.Nonce.Op.count] at hu ⊢
  rw [hu]
  simp

end Mhd.Dauth
