/-
  C05 — one pass of the state switch of MHD_connection_handle_idle preserves the refinement relation.
-/
import Mhd.Proofs.ConnSMBody
namespace Mhd.ConnSM
open Mhd.Gen.ConnState Mhd.Protocol

/-- a state change among the low states (≤ HEADERS_PROCESSED) keeps the invariant -/
theorem Inv.restate {σ} {c c2 : Conn σ} (h : Inv c)
    (e3 : c2.inCleanup = c.inCleanup) (e5 : c2.clientAware = c.clientAware) (e6 : c2.ctx = c.ctx)
    (e7 : c2.upOff = c.upOff) (e8 : c2.response = c.response) (e9 : c2.stopWithError = c.stopWithError)
    (e10 : c2.discard = c.discard)
    (hlow : c.state.toNat ≤ 5) (hlow2 : c2.state.toNat ≤ 5)
    (hnew : c2.state.toNat ≤ 1 → c.clientAware = false) : Inv c2 := by
  have hne2 : c2.state ≠ .closed := by intro e; rw [e] at hlow2; simp at hlow2
  simp only [Inv, e3, e5, e6, e7, e8, e9, e10] at h ⊢
  obtain ⟨b1, b2, b3, b4, b5, b6, b7, b8, b9, b10⟩ := h
  refine ⟨?_, ?_, b3, ?_, ?_, ?_, ?_, hnew, b9, b10⟩
  · intro hr; have := b1 hr; omega
  · intro hr; have := b2 hr; omega
  · intro e; exact absurd e hne2
  · intro ha _; exact b5 ha hlow
  · intro hi; have := (b6 hi).1; omega
  · intro x y; omega

/-- a state change that only concerns the connection state, checked against the relation -/
theorem Rel.restate {σ} {c c2 : Conn σ} {p : PSt} (h : Rel c p)
    (e1 : c2.started = c.started) (e2 : c2.cleaned = c.cleaned) (e3 : c2.inCleanup = c.inCleanup)
    (e5 : c2.clientAware = c.clientAware) (e6 : c2.ctx = c.ctx)
    (e7 : c2.upOff = c.upOff) (e8 : c2.response = c.response) (e9 : c2.stopWithError = c.stopWithError)
    (e10 : c2.discard = c.discard)
    (hlow : c.state.toNat ≤ 5) (hlow2 : c2.state.toNat ≤ 5)
    (hnew : c2.state.toNat ≤ 1 → c.clientAware = false) : Rel c2 p := by
  have hrou : respOrUpg c2 = respOrUpg c := by
    have h1 : c.state.toNat ≠ 23 := by omega
    have h2 : c2.state.toNat ≠ 23 := by omega
    simp [respOrUpg, e8, h1, h2]
  have hss : stateSite c2.state = stateSite c.state := by
    have : c.state.toNat ≤ 6 := by omega
    have : c2.state.toNat ≤ 6 := by omega
    simp_all [stateSite]
  cases p with
  | fresh =>
    simp only [Rel, e1, e2, e5] at h ⊢
    exact ⟨h.1, h.2.1, h.2.2.1, h.2.2.2.restate e3 e5 e6 e7 e8 e9 e10 hlow hlow2 hnew⟩
  | closed => simp only [Rel, e1, e2] at h ⊢; exact h
  | bad => exact h
  | idle =>
    simp only [Rel, e1, e2, e5] at h ⊢
    exact ⟨h.1, h.2.1, h.2.2.1, h.2.2.2.restate e3 e5 e6 e7 e8 e9 e10 hlow hlow2 hnew⟩
  | req q =>
    simp only [Rel, e1, e2, e5, e6, e7, hrou, hss] at h ⊢
    obtain ⟨a1, a2, a3, hi, d1, d2, d3, d4, d5, d6, d7⟩ := h
    have h23 : decide (c.state.toNat = 23) = false := decide_eq_false (by omega)
    have h23' : decide (c2.state.toNat = 23) = false := decide_eq_false (by omega)
    exact ⟨a1, a2, a3, hi.restate e3 e5 e6 e7 e8 e9 e10 hlow hlow2 hnew, d1, d2, d3, d4, d5, fun _ => Or.inl hlow2,
      by rw [h23']; rw [h23] at d7; exact d7⟩

theorem closeConn_frame {σ} (c : Conn σ) (code : Nat) :
    (closeConn c code).1.started = c.started ∧ (closeConn c code).1.cleaned = c.cleaned := by
  unfold closeConn notify dropResp
  cases c.response <;> cases c.clientAware <;> simp

theorem cleanupConnection_frame {σ} (c : Conn σ) :
    (cleanupConnection c).1.started = c.started ∧ (cleanupConnection c).1.cleaned = c.cleaned := by
  unfold cleanupConnection dropResp
  cases c.response <;> cases c.inCleanup <;> simp

theorem connectionReset_frame {σ} (c : Conn σ) (reuse : Bool) :
    (connectionReset c reuse).1.started = c.started ∧ (connectionReset c reuse).1.cleaned = c.cleaned := by
  unfold connectionReset
  cases reuse
  · simp [(closeConn_frame c _).1, (closeConn_frame c _).2]
  · unfold notify dropResp clearRq
    cases c.response <;> cases c.clientAware <;> simp

/-- closes goals of the form `Rel {c with state := …, …} p` once `c.state` is a known constructor -/
macro "rel_fin" : tactic =>
  `(tactic| first
    | (cases ‹PSt› <;> simp_all [Rel, Inv, respOrUpg, stateSite]; done)
    | (cases ‹PSt› <;> simp_all [Rel, Inv, respOrUpg, stateSite] <;> grind))

theorem idleCase_eq {σ} (cfg : Cfg) (app : App σ) (env : IdleEnv) (hok : EnvOk cfg env)
    (c : Conn σ) (p : PSt) (h : Rel c p) (hs : c.started = true) (hc : c.cleaned = false)
    (c' : Conn σ) (l : List LEv) (f : Flow) (heq : idleCase cfg app env c = (c', l, f)) :
    Post p c' l := by
  have hte : ∀ (c0 : Conn σ), Rel c0 p → c0.state.toNat ≤ 10 → c0.started = true → c0.cleaned = false →
      ∀ (c' : Conn σ) (l : List LEv), transmitError cfg env c0 = (c', l) → Post p c' l := by
    intro c0 h0 hst0 hs0 hc0 c' l he
    have := transmitError_eq cfg env c0 p h0 hok hst0 hs0 hc0 c' l he
    exact ⟨this.1, this.2.2.1, this.2.2.2⟩
  unfold idleCase at heq
  cases hst : c.state
  case reqLineReceived =>
    simp only [hst] at heq
    obtain ⟨rfl, rfl, rfl⟩ := heq
    refine ⟨?_, hs, hc⟩
    exact h.restate rfl rfl rfl rfl rfl rfl rfl rfl rfl (by simp [hst]) (by simp) (by simp)
  case footersReceived =>
    clear hte
    simp only [hst] at heq
    obtain ⟨rfl, rfl, rfl⟩ := heq
    refine ⟨?_, hs, hc⟩
    simp only [run_nil]
    rel_fin
  case headersSending =>
    simp only [hst] at heq
    obtain ⟨rfl, rfl, rfl⟩ := heq
    exact ⟨h, hs, hc⟩
  case normalBodyReady =>
    simp only [hst] at heq
    obtain ⟨rfl, rfl, rfl⟩ := heq
    exact ⟨h, hs, hc⟩
  case chunkedBodyReady =>
    simp only [hst] at heq
    obtain ⟨rfl, rfl, rfl⟩ := heq
    exact ⟨h, hs, hc⟩
  case footersSending =>
    simp only [hst] at heq
    obtain ⟨rfl, rfl, rfl⟩ := heq
    exact ⟨h, hs, hc⟩
  case upgrade =>
    simp only [hst] at heq
    obtain ⟨rfl, rfl, rfl⟩ := heq
    exact ⟨h, hs, hc⟩
  case continueSending =>
    clear hte
    simp only [hst] at heq
    split at heq <;> (obtain ⟨rfl, rfl, rfl⟩ := heq; refine ⟨?_, hs, hc⟩; simp only [run_nil]; rel_fin)
  case bodyReceived =>
    clear hte
    simp only [hst] at heq
    by_cases hch : c.haveChunked = true <;> simp only [hch] at heq <;>
    (split at heq <;> (obtain ⟨rfl, rfl, rfl⟩ := heq; refine ⟨?_, hs, hc⟩; simp only [run_nil]; rel_fin))
  case headersSent =>
    clear hte
    simp only [hst] at heq
    cases hr : c.response with
    | none =>
      simp only [hr] at heq
      obtain ⟨rfl, rfl, rfl⟩ := heq
      refine ⟨?_, hs, hc⟩
      simp only [run_nil]
      rel_fin
    | some r =>
      simp only [hr] at heq
      have hinv : Inv c := by cases p <;> simp_all [Rel, respOrUpg]
      split at heq
      · -- upgrade response
        rename_i hup
        have haw : c.clientAware = true := by
          simp only [Inv] at hinv
          cases hh : c.clientAware
          · rcases hinv.2.2.2.2.2.2.2.2.2 hh with h0 | h0
            · simp [hr] at h0
            · rw [hr] at h0; simp [errResp] at h0; subst h0; simp at hup
          · rfl
        split at heq
        · generalize hce : closeError _ = rr at heq
          obtain ⟨c2, l2⟩ := rr
          have := closeError_eq (p := p) hce (by cases p <;> simp_all [Rel, Open, respOrUpg])
          obtain ⟨rfl, rfl, rfl⟩ := heq
          obtain ⟨t1, t2, t3, t4⟩ := this
          refine ⟨?_, t2.1, t2.2.1⟩
          rw [t1]; exact t2
        · simp only [dropResp] at heq
          obtain ⟨rfl, rfl, rfl⟩ := heq
          refine ⟨?_, hs, hc⟩
          cases p with
          | req q =>
            by_cases hf : r.freeCb = true <;>
              simp_all [Rel, Inv, respOrUpg, stateSite, Site.rank_le_two]
          | _ => simp_all [Rel, respOrUpg]
      · obtain ⟨rfl, rfl, rfl⟩ := heq
        refine ⟨?_, hs, hc⟩
        simp only [run_nil]
        by_cases hb : r.body = true <;> by_cases hcb : r.chunkedBody = true <;> simp only [hb, hcb] <;> rel_fin
  case startReply =>
    clear hte
    simp only [hst] at heq
    cases hr : c.response with
    | none =>
      simp only [hr] at heq
      obtain ⟨rfl, rfl, rfl⟩ := heq
      refine ⟨?_, hs, hc⟩
      simp only [run_nil]
      rel_fin
    | some r =>
      simp only [hr] at heq
      split at heq
      · generalize hce : closeError c = rr at heq
        obtain ⟨c2, l2⟩ := rr
        have := closeError_eq hce (h.toOpen hs hc)
        obtain ⟨rfl, rfl, rfl⟩ := heq
        obtain ⟨t1, t2, t3, t4⟩ := this
        refine ⟨?_, t2.1, t2.2.1⟩
        rw [t1]; exact t2
      · obtain ⟨rfl, rfl, rfl⟩ := heq
        refine ⟨?_, hs, hc⟩
        simp only [run_nil]
        rel_fin
  case normalBodyUnready =>
    clear hte
    simp only [hst] at heq
    cases hr : c.response with
    | none =>
      simp only [hr] at heq
      obtain ⟨rfl, rfl, rfl⟩ := heq
      refine ⟨?_, hs, hc⟩
      simp only [run_nil]
      rel_fin
    | some r =>
      simp only [hr] at heq
      split at heq
      · obtain ⟨rfl, rfl, rfl⟩ := heq
        refine ⟨?_, hs, hc⟩
        simp only [run_nil]
        rel_fin
      · split at heq
        · generalize hce : closeError c = rr at heq
          obtain ⟨c2, l2⟩ := rr
          have := closeError_eq hce (h.toOpen hs hc)
          obtain ⟨rfl, rfl, rfl⟩ := heq
          obtain ⟨t1, t2, t3, t4⟩ := this
          refine ⟨?_, t2.1, t2.2.1⟩
          rw [t1]; exact t2
        · split at heq
          · obtain ⟨rfl, rfl, rfl⟩ := heq
            refine ⟨?_, hs, hc⟩
            simp only [run_nil]
            rel_fin
          · obtain ⟨rfl, rfl, rfl⟩ := heq
            exact ⟨h, hs, hc⟩
  case chunkedBodyUnready =>
    clear hte
    simp only [hst] at heq
    cases hr : c.response with
    | none =>
      simp only [hr] at heq
      obtain ⟨rfl, rfl, rfl⟩ := heq
      refine ⟨?_, hs, hc⟩
      simp only [run_nil]
      rel_fin
    | some r =>
      simp only [hr] at heq
      split at heq
      · obtain ⟨rfl, rfl, rfl⟩ := heq
        refine ⟨?_, hs, hc⟩
        simp only [run_nil]
        rel_fin
      · split at heq
        · generalize hce : closeError c = rr at heq
          obtain ⟨c2, l2⟩ := rr
          have := closeError_eq hce (h.toOpen hs hc)
          obtain ⟨rfl, rfl, rfl⟩ := heq
          obtain ⟨t1, t2, t3, t4⟩ := this
          refine ⟨?_, t2.1, t2.2.1⟩
          rw [t1]; exact t2
        · split at heq
          · obtain ⟨rfl, rfl, rfl⟩ := heq
            refine ⟨?_, hs, hc⟩
            simp only [run_nil]
            by_cases hbl : env.bodyLast = true <;> simp only [hbl] <;> rel_fin
          · obtain ⟨rfl, rfl, rfl⟩ := heq
            exact ⟨h, hs, hc⟩
  case chunkedBodySent =>
    clear hte
    simp only [hst] at heq
    split at heq
    · generalize hce : closeError c = rr at heq
      obtain ⟨c2, l2⟩ := rr
      have := closeError_eq hce (h.toOpen hs hc)
      obtain ⟨rfl, rfl, rfl⟩ := heq
      obtain ⟨t1, t2, t3, t4⟩ := this
      refine ⟨?_, t2.1, t2.2.1⟩
      rw [t1]; exact t2
    · obtain ⟨rfl, rfl, rfl⟩ := heq
      refine ⟨?_, hs, hc⟩
      simp only [run_nil]
      rel_fin
  case headersReceived =>
    simp only [hst] at heq
    split at heq
    · generalize hce : transmitError cfg env c = rr at heq
      obtain ⟨c2, l2⟩ := rr
      have := hte c h (by simp [hst]) hs hc c2 l2 hce
      obtain ⟨rfl, rfl, rfl⟩ := heq
      exact this
    all_goals
      clear hte
      obtain ⟨rfl, rfl, rfl⟩ := heq
      refine ⟨?_, hs, hc⟩
      simp only [run_nil]
      exact h.restate rfl rfl rfl rfl rfl rfl rfl rfl rfl (by simp [hst]) (by simp) (by simp)
  case init =>
    simp only [hst] at heq
    have hinv : Inv c := by cases p <;> simp_all [Rel, respOrUpg]
    simp only [Inv] at hinv
    have haw : c.clientAware = false := hinv.2.2.2.2.2.2.2.1 (by simp [hst])
    have hp : p = .idle := by cases p <;> simp_all [Rel, respOrUpg]
    subst hp
    have hctx := hinv.2.2.2.2.1 haw (by simp [hst])
    split at heq
    · obtain ⟨rfl, rfl, rfl⟩ := heq
      refine ⟨?_, hs, hc⟩
      simp only [run_nil]
      by_cases hb : c.buf.isEmpty = true
      · simp only [hb, if_true]; exact h.congr rfl rfl rfl (by simp [hst]) rfl rfl rfl rfl rfl rfl
      · simp only [hb, Bool.false_eq_true, if_false]
        exact h.restate rfl rfl rfl rfl rfl rfl rfl rfl rfl (by simp [hst]) (by simp) (fun _ => haw)
    · split at heq
      · obtain ⟨rfl, rfl, rfl⟩ := heq
        refine ⟨?_, hs, hc⟩
        simp only [run_cons, run_nil, step_idle_uri]
        clear hte
        simp_all [Rel, Inv, respOrUpg, stateSite]
      · obtain ⟨rfl, rfl, rfl⟩ := heq
        refine ⟨?_, hs, hc⟩
        simp only [run_nil]
        exact h.restate rfl rfl rfl rfl rfl rfl rfl rfl rfl (by simp [hst]) (by simp) (by simp)
    · split at heq
      · generalize hce : transmitError cfg env _ = rr at heq
        obtain ⟨c2, l2⟩ := rr
        obtain ⟨t1, t2, t3, t4⟩ := transmitError_eq cfg env _
          (.req { handlerSeen := false, site := .first, ctx := (app.uriLog c.app).2, nextOff := 0, replied := false, failed := false })
          (by clear hte hce heq; simp_all [Rel, Inv, respOrUpg, stateSite]) hok (by simp) (by simpa using hs) (by simpa using hc) c2 l2 hce
        obtain ⟨rfl, rfl, rfl⟩ := heq
        refine ⟨?_, t3, t4⟩
        simp only [List.singleton_append, run_cons, step_idle_uri]
        exact t1
      · generalize hce : transmitError cfg env _ = rr at heq
        obtain ⟨c2, l2⟩ := rr
        have := hte _ (by exact h.restate rfl rfl rfl rfl rfl rfl rfl rfl rfl (by simp [hst]) (by simp) (fun _ => haw))
          (by simp) (by simpa using hs) (by simpa using hc) c2 l2 hce
        obtain ⟨rfl, rfl, rfl⟩ := heq
        exact this
    · generalize hce : transmitError cfg env _ = rr at heq
      obtain ⟨c2, l2⟩ := rr
      have := hte _ (by exact h.restate rfl rfl rfl rfl rfl rfl rfl rfl rfl (by simp [hst]) (by simp) (fun _ => haw))
        (by simp) (by simpa using hs) (by simpa using hc) c2 l2 hce
      obtain ⟨rfl, rfl, rfl⟩ := heq
      exact this
  case reqLineReceiving =>
    simp only [hst] at heq
    have hinv : Inv c := by cases p <;> simp_all [Rel, respOrUpg]
    simp only [Inv] at hinv
    have haw : c.clientAware = false := hinv.2.2.2.2.2.2.2.1 (by simp [hst])
    have hp : p = .idle := by cases p <;> simp_all [Rel, respOrUpg]
    subst hp
    have hctx := hinv.2.2.2.2.1 haw (by simp [hst])
    split at heq
    · obtain ⟨rfl, rfl, rfl⟩ := heq
      refine ⟨?_, hs, hc⟩
      simp only [run_nil]
      by_cases hb : c.buf.isEmpty = true
      · simp only [hb, if_true]; exact h.congr rfl rfl rfl (by simp [hst]) rfl rfl rfl rfl rfl rfl
      · simp only [hb, Bool.false_eq_true, if_false]
        exact h.restate rfl rfl rfl rfl rfl rfl rfl rfl rfl (by simp [hst]) (by simp) (fun _ => haw)
    · split at heq
      · obtain ⟨rfl, rfl, rfl⟩ := heq
        refine ⟨?_, hs, hc⟩
        simp only [run_cons, run_nil, step_idle_uri]
        clear hte
        simp_all [Rel, Inv, respOrUpg, stateSite]
      · obtain ⟨rfl, rfl, rfl⟩ := heq
        refine ⟨?_, hs, hc⟩
        simp only [run_nil]
        exact h.restate rfl rfl rfl rfl rfl rfl rfl rfl rfl (by simp [hst]) (by simp) (by simp)
    · split at heq
      · generalize hce : transmitError cfg env _ = rr at heq
        obtain ⟨c2, l2⟩ := rr
        obtain ⟨t1, t2, t3, t4⟩ := transmitError_eq cfg env _
          (.req { handlerSeen := false, site := .first, ctx := (app.uriLog c.app).2, nextOff := 0, replied := false, failed := false })
          (by clear hte hce heq; simp_all [Rel, Inv, respOrUpg, stateSite]) hok (by simp) (by simpa using hs) (by simpa using hc) c2 l2 hce
        obtain ⟨rfl, rfl, rfl⟩ := heq
        refine ⟨?_, t3, t4⟩
        simp only [List.singleton_append, run_cons, step_idle_uri]
        exact t1
      · generalize hce : transmitError cfg env _ = rr at heq
        obtain ⟨c2, l2⟩ := rr
        have := hte _ (by exact h.restate rfl rfl rfl rfl rfl rfl rfl rfl rfl (by simp [hst]) (by simp) (fun _ => haw))
          (by simp) (by simpa using hs) (by simpa using hc) c2 l2 hce
        obtain ⟨rfl, rfl, rfl⟩ := heq
        exact this
    · generalize hce : transmitError cfg env _ = rr at heq
      obtain ⟨c2, l2⟩ := rr
      have := hte _ (by exact h.restate rfl rfl rfl rfl rfl rfl rfl rfl rfl (by simp [hst]) (by simp) (fun _ => haw))
        (by simp) (by simpa using hs) (by simpa using hc) c2 l2 hce
      obtain ⟨rfl, rfl, rfl⟩ := heq
      exact this
  case reqHeadersReceiving =>
    simp only [hst] at heq
    split at heq
    · obtain ⟨rfl, rfl, rfl⟩ := heq
      exact ⟨h, hs, hc⟩
    · obtain ⟨rfl, rfl, rfl⟩ := heq
      refine ⟨?_, hs, hc⟩
      simp only [run_nil]
      exact h.restate rfl rfl rfl rfl rfl rfl rfl rfl rfl (by simp [hst]) (by simp) (by simp)
    · generalize hce : transmitError cfg env _ = rr at heq
      obtain ⟨c2, l2⟩ := rr
      have := hte _ (by exact h.congr rfl rfl rfl (by simp [hst]) rfl rfl rfl rfl rfl rfl)
        (by simp [hst]) (by simpa using hs) (by simpa using hc) c2 l2 hce
      obtain ⟨rfl, rfl, rfl⟩ := heq
      exact this
  case footersReceiving =>
    simp only [hst] at heq
    split at heq
    · obtain ⟨rfl, rfl, rfl⟩ := heq
      exact ⟨h, hs, hc⟩
    · obtain ⟨rfl, rfl, rfl⟩ := heq
      refine ⟨?_, hs, hc⟩
      simp only [run_nil]
      clear hte
      rel_fin
    · generalize hce : transmitError cfg env _ = rr at heq
      obtain ⟨c2, l2⟩ := rr
      have := hte _ (by exact h.congr rfl rfl rfl (by simp [hst]) rfl rfl rfl rfl rfl rfl)
        (by simp [hst]) (by simpa using hs) (by simpa using hc) c2 l2 hce
      obtain ⟨rfl, rfl, rfl⟩ := heq
      exact this
  case closed =>
    clear hte
    simp only [hst] at heq
    have := cleanupConnection_rel c p h hst hs hc
    have hf := cleanupConnection_frame c
    obtain ⟨rfl, rfl, rfl⟩ := heq
    exact ⟨this.1, by rw [hf.1]; exact hs, by rw [hf.2]; exact hc⟩
  case fullReplySent =>
    clear hte
    simp only [hst] at heq
    split at heq
    · -- interim (102) reply sent: back to HEADERS_PROCESSED
      rename_i hint
      have hinv : Inv c := by cases p <;> simp_all [Rel, respOrUpg]
      simp only [Inv] at hinv
      cases hr : c.response with
      | none => simp [interimPending, hr] at hint
      | some r =>
        simp only [interimPending, hr] at hint
        have haw : c.clientAware = true := by
          cases hh : c.clientAware
          · rcases hinv.2.2.2.2.2.2.2.2.2 hh with h0 | h0
            · simp [hr] at h0
            · rw [hr] at h0; simp [errResp] at h0; subst h0; simp at hint
          · rfl
        have hsw : c.stopWithError = false := by
          cases hh : c.stopWithError
          · rfl
          · rcases hinv.2.2.2.2.2.2.2.2.1 hh with h0 | h0
            · simp [hr] at h0
            · rw [hr] at h0; simp [errResp] at h0; subst h0; simp at hint
        simp only [dropResp, hr] at heq
        obtain ⟨rfl, rfl, rfl⟩ := heq
        refine ⟨?_, hs, hc⟩
        cases p with
        | req q =>
          by_cases hf : r.freeCb = true <;>
            simp_all [Rel, Inv, respOrUpg, stateSite]
        | _ => simp_all [Rel, respOrUpg]
    · have hf := connectionReset_frame c (decide (c.keepalive = KA.use ∧ ¬c.readClosed = true ∧ ¬c.discard = true))
      have := connectionReset_rel c p (decide (c.keepalive = KA.use ∧ ¬c.readClosed = true ∧ ¬c.discard = true)) h hst hs hc
        (by intro hh; simp at hh; simp [hh.2.2])
      obtain ⟨rfl, rfl, rfl⟩ := heq
      exact ⟨this, by rw [hf.1]; exact hs, by rw [hf.2]; exact hc⟩
  case fullReqReceived =>
    clear hte
    simp only [hst] at heq
    generalize hce : callConnectionHandler cfg app env c .final = rr at heq
    obtain ⟨c1, l1⟩ := rr
    obtain ⟨t1, t2, t3, t4, t5⟩ := callConnectionHandler_eq cfg app env c p .final h hs hc (Or.inr ⟨rfl, hst⟩) c1 l1 hce
    simp only at heq
    generalize hp1 : Protocol.run p l1 = p1 at t1 t5
    split at heq
    · obtain ⟨rfl, rfl, rfl⟩ := heq
      exact ⟨by rw [hp1]; exact t1, t2, t3⟩
    · rename_i hst1
      simp only [ne_eq, Decidable.not_not] at hst1
      split at heq
      · obtain ⟨rfl, rfl, rfl⟩ := heq
        exact ⟨by rw [hp1]; exact t1, t2, t3⟩
      · rename_i hrs
        obtain ⟨rfl, rfl, rfl⟩ := heq
        refine ⟨?_, t2, t3⟩
        rw [hp1]
        clear t4 t5 hce
        clear h
        cases p1 <;> simp_all [Rel, Inv, respOrUpg, stateSite] <;> grind
  case bodyReceiving =>
    clear hte
    simp only [hst] at heq
    split at heq
    · generalize hce : processBody cfg app env _ _ c = rr at heq
      obtain ⟨c1, l1⟩ := rr
      obtain ⟨⟨t1, t2, t3⟩, t4⟩ := processBody_eq cfg app env hok _ _ c p h hs hc hst c1 l1 hce
      simp only at heq
      generalize hp1 : Protocol.run p l1 = p1 at t1
      split at heq
      · obtain ⟨rfl, rfl, rfl⟩ := heq
        exact ⟨by rw [hp1]; exact t1, t2, t3⟩
      · rename_i hst1
        simp only [ne_eq, Decidable.not_not] at hst1
        split at heq
        · obtain ⟨rfl, rfl, rfl⟩ := heq
          refine ⟨?_, t2, t3⟩
          rw [hp1]
          clear t4 hce
          clear h
          cases p1 <;> simp_all [Rel, Inv, respOrUpg, stateSite] <;> grind
        · obtain ⟨rfl, rfl, rfl⟩ := heq
          exact ⟨by rw [hp1]; exact t1, t2, t3⟩
    · split at heq
      · obtain ⟨rfl, rfl, rfl⟩ := heq
        refine ⟨?_, hs, hc⟩
        simp only [run_nil]
        rel_fin
      · obtain ⟨rfl, rfl, rfl⟩ := heq
        exact ⟨h, hs, hc⟩
  case headersProcessed =>
    clear hte
    simp only [hst] at heq
    have hinv : Inv c := by cases p <;> simp_all [Rel, respOrUpg]
    have hr0 : c.response = none := by
      simp only [Inv] at hinv
      cases hq : c.response <;> simp_all
    generalize hce : callConnectionHandler cfg app env c .first = rr at heq
    obtain ⟨c1, l1⟩ := rr
    obtain ⟨t1, t2, t3, t4, t5⟩ := callConnectionHandler_eq cfg app env c p .first h hs hc (Or.inl ⟨rfl, hst⟩) c1 l1 hce
    simp only at heq
    generalize hp1 : Protocol.run p l1 = p1 at t1 t5
    split at heq
    · obtain ⟨rfl, rfl, rfl⟩ := heq
      exact ⟨by rw [hp1]; exact t1, t2, t3⟩
    · rename_i hst1
      simp only [ne_eq, Decidable.not_not] at hst1
      obtain ⟨t6, q, hq, hq1⟩ := t5 (by rw [hst1, hst]) hr0
      subst hq
      have hinv1 : Inv c1 := t1.2.2.2.1
      have hr1 : c1.response = none := by
        simp only [Inv] at hinv1
        cases hq : c1.response <;> simp_all
      split at heq
      · obtain ⟨rfl, rfl, rfl⟩ := heq
        exact ⟨by rw [hp1]; exact t1, t2, t3⟩
      · split at heq
        · obtain ⟨rfl, rfl, rfl⟩ := heq
          refine ⟨?_, t2, t3⟩
          rw [hp1]
          clear t4 hce
          simp_all [Rel, Inv, respOrUpg, stateSite]
        · obtain ⟨rfl, rfl, rfl⟩ := heq
          refine ⟨?_, ?_, ?_⟩
          · rw [hp1]
            clear t4 hce
            simp only [hr1, Option.isSome_none, Bool.false_eq_true, false_and, if_false]
            by_cases hrem : c1.remaining = 0 <;> simp only [hrem, if_true, if_false] <;>
              simp_all [Rel, Inv, respOrUpg, stateSite]
          · simp only [hr1, Option.isSome_none, Bool.false_eq_true, false_and, if_false]; exact t2
          · simp only [hr1, Option.isSome_none, Bool.false_eq_true, false_and, if_false]; exact t3

end Mhd.ConnSM
