/-
  C17 proofs: `MHD_str_has_token_caseless_` = membership in the reference token
  list (split on ',', trim SP/HT, caseless), for every z-terminated string and
  every permitted token.
-/
import Mhd.Proofs.StrTokSpec

namespace Mhd.Str

/-! ### `while (p (*str)) str++` -/

def skipZStep (s : Bytes) (p : UInt8 → Bool) : Nat → M (Nat ⊕ Nat) := fun i => do
  let c ← rd s i
  if p c then return .inl (i + 1) else return .inr i

theorem skipZ_unfold (s : Bytes) (p : UInt8 → Bool) (i : Nat) :
    skipZ s p i = iter (skipZStep s p) (s.length + 1) i := rfl

theorem skipZ_go (c tail : Bytes) (p : UInt8 → Bool) (hp0 : p 0 = false) :
    ∀ (r : Bytes) (i n : Nat), i ≤ c.length → c.drop i = r → r.length < n →
      iter (skipZStep (c ++ 0 :: tail) p) n i = .ok (i + (r.takeWhile p).length) := by
  intro r
  induction r with
  | nil =>
    intro i n hi hr hn
    obtain ⟨n', rfl⟩ : ∃ n', n = n' + 1 := ⟨n - 1, by omega⟩
    have hd := drop_z c tail i hi
    rw [hr, List.nil_append] at hd
    obtain ⟨h0, _, _⟩ := getElem?_of_drop_eq_cons hd
    simp [iter, skipZStep, rd_some h0, hp0]
  | cons x t ih =>
    intro i n hi hr hn
    obtain ⟨n', rfl⟩ : ∃ n', n = n' + 1 := ⟨n - 1, by omega⟩
    have hd := drop_z c tail i hi
    rw [hr, List.cons_append] at hd
    obtain ⟨h0, _, _⟩ := getElem?_of_drop_eq_cons hd
    have hil : i < c.length := by
      by_cases h : i < c.length
      · exact h
      · rw [List.drop_eq_nil_of_le (by omega)] at hr; simp at hr
    have hr1 : c.drop (i + 1) = t := by
      have := List.drop_eq_getElem_cons hil
      rw [this] at hr; injection hr
    by_cases hx : p x = true
    · have := ih (i + 1) n' (by omega) hr1 (by simp at hn; omega)
      simp only [iter, skipZStep, rd_some h0, bind_ok', hx, if_true, pure_eq_ok]
      rw [this]; simp [List.takeWhile, hx]; omega
    · simp only [Bool.not_eq_true] at hx
      simp [iter, skipZStep, rd_some h0, hx, List.takeWhile]

theorem drop_takeWhile_length (p : UInt8 → Bool) (l : Bytes) : l.drop (l.takeWhile p).length = l.dropWhile p := by
  induction l with
  | nil => rfl
  | cons x t ih =>
    by_cases hx : p x = true
    · simp [List.takeWhile, List.dropWhile, hx, ih]
    · simp only [Bool.not_eq_true] at hx
      simp [List.takeWhile, List.dropWhile, hx]

theorem takeWhile_length_le (p : UInt8 → Bool) (l : Bytes) : (l.takeWhile p).length ≤ l.length := by
  induction l with
  | nil => simp
  | cons x t ih =>
    by_cases hx : p x = true
    · simp [List.takeWhile, hx]; exact ih
    · simp only [Bool.not_eq_true] at hx
      simp [List.takeWhile, hx]

theorem takeWhile_all_mem (p : UInt8 → Bool) (l : Bytes) : ∀ x ∈ l.takeWhile p, p x = true := by
  induction l with
  | nil => intro x hx; simp at hx
  | cons a t ih =>
    intro x hx
    by_cases ha : p a = true
    · simp only [List.takeWhile, ha] at hx
      rcases List.mem_cons.mp hx with h | h
      · rw [h]; exact ha
      · exact ih x h
    · simp only [Bool.not_eq_true] at ha
      simp [List.takeWhile, ha] at hx

/-- on a z-terminated string `skipZ` stops after the maximal run of characters
    satisfying `p` (the NUL does not satisfy `p`) and never reads past the NUL -/
theorem skipZ_spec (c tail : Bytes) (p : UInt8 → Bool) (hp0 : p 0 = false) (i : Nat) (hi : i ≤ c.length) :
    skipZ (c ++ 0 :: tail) p i = .ok (i + ((c.drop i).takeWhile p).length) ∧
    c.drop (i + ((c.drop i).takeWhile p).length) = (c.drop i).dropWhile p ∧
    i + ((c.drop i).takeWhile p).length ≤ c.length := by
  refine ⟨?_, ?_, ?_⟩
  · rw [skipZ_unfold]
    exact skipZ_go c tail p hp0 (c.drop i) i _ hi rfl (by simp; omega)
  · rw [← List.drop_drop]; exact drop_takeWhile_length p _
  · have h1 := takeWhile_length_le p (c.drop i)
    simp at h1; omega

/-! ### the matching loop -/

theorem ceq_comma_left : ∀ n : Fin 256,
    charsEqualCaseless 0x2c (UInt8.ofNat n.val) = true → UInt8.ofNat n.val = 0x2c := by
  decide +kernel

theorem ceq_comma (y : UInt8) (h : charsEqualCaseless 0x2c y = true) : y = 0x2c := by
  have := ceq_comma_left ⟨y.toNat, y.toNat_lt⟩
  simp only [ofNat_toNat_u8] at this
  exact this h

theorem takeWhile_append_all (p : UInt8 → Bool) (a b : Bytes) (ha : ∀ x ∈ a, p x = true)
    (hb : b = [] ∨ ∃ z b', b = z :: b' ∧ p z = false) : (a ++ b).takeWhile p = a := by
  induction a with
  | nil =>
    rcases hb with rfl | ⟨z, b', rfl, hz⟩
    · rfl
    · simp [List.takeWhile, hz]
  | cons x t ih =>
    have hx := ha x List.mem_cons_self
    simp only [List.cons_append, List.takeWhile, hx]
    rw [ih (fun y hy => ha y (List.mem_cons_of_mem _ hy))]

theorem dropWhile_head (p : UInt8 → Bool) (l : Bytes) :
    l.dropWhile p = [] ∨ ∃ z b', l.dropWhile p = z :: b' ∧ p z = false := by
  induction l with
  | nil => left; rfl
  | cons x t ih =>
    by_cases hx : p x = true
    · simp only [List.dropWhile, hx]; exact ih
    · simp only [Bool.not_eq_true] at hx
      right; exact ⟨x, t, by simp [List.dropWhile, hx], hx⟩

theorem isWs_notComma (x : UInt8) (h : isWs x = true) : notComma x = true := by
  have := isWs_ne_comma h
  simp [notComma, this]

/-- head element of `w ++ d` when `w` is whitespace -/
theorem headElem_ws_append (w d : Bytes) (hw : ∀ x ∈ w, isWs x = true) : headElem (w ++ d) = w ++ headElem d := by
  induction w with
  | nil => rfl
  | cons x t ih =>
    have hx := hw x List.mem_cons_self
    rw [List.cons_append, headElem_cons _ _ (isWs_ne_comma hx), ih (fun y hy => hw y (List.mem_cons_of_mem _ hy))]
    rfl

def MatchRel (r t : Bytes) (p : Nat) : TokRes → Prop
  | .ret b => b = elemIs r t ∧ (b = false → restElems r = [])
  | .brk p2 => elemIs r t = false ∧ p ≤ p2 ∧ p2 ≤ p + (headElem r).length

theorem isWs_zero : isWs 0 = false := by decide
theorem isWsComma_zero : isWsComma 0 = false := by decide

theorem matchLoop_spec (c tail tok : Bytes) (hz : ∀ x ∈ c, x ≠ 0)
    (htok : ∀ x ∈ tok, x ≠ 0 ∧ x ≠ 0x20 ∧ x ≠ 0x09 ∧ x ≠ 0x2c) :
    ∀ (t r : Bytes) (p i n : Nat), t ≠ [] → tok.drop i = t → c.drop p = r → p ≤ c.length → r.length < n →
      ∃ res, iter (hasTokenMatchStep (c ++ 0 :: tail) tok) n (p, i) = .ok res ∧ MatchRel r t p res := by
  intro t
  induction t with
  | nil => intro r p i n h; exact absurd rfl h
  | cons y t' ih =>
    intro r p i n _ ht hr hp hn
    obtain ⟨n', rfl⟩ : ∃ n', n = n' + 1 := ⟨n - 1, by omega⟩
    obtain ⟨hty, ht1, hil⟩ := getElem?_of_drop_eq_cons ht
    have hymem : y ∈ tok := List.mem_of_mem_drop (ht ▸ List.mem_cons_self)
    have hy := htok y hymem
    have hd := drop_z c tail p hp
    cases r with
    | nil =>
      rw [hr, List.nil_append] at hd
      obtain ⟨h0, _, _⟩ := getElem?_of_drop_eq_cons hd
      refine ⟨.ret false, ?_, ?_, ?_⟩
      · simp [iter, hasTokenMatchStep, rd_some h0, rd_some hty]
      · simp [elemIs]
      · intro _; rfl
    | cons x r' =>
      rw [hr, List.cons_append] at hd
      obtain ⟨h0, hd1, _⟩ := getElem?_of_drop_eq_cons hd
      have hx0 : x ≠ 0 := hz x (mem_of_drop_eq_cons hr)
      have hpl : p < c.length := by
        by_cases h : p < c.length
        · exact h
        · rw [List.drop_eq_nil_of_le (by omega)] at hr; simp at hr
      have hr1 : c.drop (p + 1) = r' := by
        have := List.drop_eq_getElem_cons hpl
        rw [this] at hr; injection hr
      by_cases hceq : charsEqualCaseless x y = true
      · -- the characters match
        have hxc : x ≠ 0x2c := by
          intro h; subst h; exact hy.2.2.2 (ceq_comma y hceq)
        have helem : elemIs (x :: r') (y :: t') = elemIs r' t' := by
          rw [elemIs.eq_def]; simp [hxc, hceq]
        by_cases hlast : i + 1 ≥ tok.length
        · -- whole token matched: only spaces/tabs may follow up to the next comma / the end
          have ht'nil : t' = [] := by
            rw [← ht1]; exact List.drop_eq_nil_of_le hlast
          subst ht'nil
          obtain ⟨hs1, hs2, hs3⟩ := skipZ_spec c tail isWs isWs_zero (p + 1) (by omega)
          rw [hr1] at hs1 hs2 hs3
          have hw : ∀ z ∈ r'.takeWhile isWs, isWs z = true := takeWhile_all_mem _ _
          have hsplit : r' = r'.takeWhile isWs ++ r'.dropWhile isWs := (List.takeWhile_append_dropWhile).symm
          have hd2 := drop_z c tail (p + 1 + (r'.takeWhile isWs).length) hs3
          rw [hs2] at hd2
          have hel : elemIs r' [] = (headElem r').all isWs := by rw [elemIs.eq_def]
          rcases dropWhile_head isWs r' with hnil | ⟨zc, b', hcons, hzc⟩
          · -- only whitespace up to the NUL
            rw [hnil, List.nil_append] at hd2
            obtain ⟨h2, _, _⟩ := getElem?_of_drop_eq_cons hd2
            refine ⟨.ret true, ?_, ?_, ?_⟩
            · simp [iter, hasTokenMatchStep, rd_some h0, rd_some hty, hx0, hceq, hlast, hs1, rd_some h2]
            · rw [helem, hel]
              have : headElem r' = r'.takeWhile isWs := by
                conv => lhs; rw [hsplit, hnil, List.append_nil]
                have := headElem_ws_append (r'.takeWhile isWs) [] hw
                simpa [headElem] using this
              rw [this]; exact (List.all_eq_true.mpr hw).symm
            · intro h; simp at h
          · rw [hcons, List.cons_append] at hd2
            obtain ⟨h2, _, _⟩ := getElem?_of_drop_eq_cons hd2
            have hzc0 : zc ≠ 0 := by
              apply hz zc
              have : zc ∈ r'.dropWhile isWs := by rw [hcons]; exact List.mem_cons_self
              have : zc ∈ r' := (List.dropWhile_sublist isWs).subset this
              exact List.mem_of_mem_drop (hr1 ▸ this)
            by_cases hcomma : zc = 0x2c
            · subst hcomma
              refine ⟨.ret true, ?_, ?_, ?_⟩
              · simp [iter, hasTokenMatchStep, rd_some h0, rd_some hty, hx0, hceq, hlast, hs1, rd_some h2]
              · rw [helem, hel]
                have : headElem r' = r'.takeWhile isWs := by
                  conv => lhs; rw [hsplit, hcons]
                  rw [headElem_ws_append _ _ hw]
                  simp [headElem, notComma]
                rw [this]; exact (List.all_eq_true.mpr hw).symm
              · intro h; simp at h
            · refine ⟨.brk (p + 1 + (r'.takeWhile isWs).length), ?_, ?_, by omega, ?_⟩
              · simp [iter, hasTokenMatchStep, rd_some h0, rd_some hty, hx0, hceq, hlast, hs1, rd_some h2, hzc0, hcomma]
              · rw [helem, hel]
                have hhe : headElem r' = r'.takeWhile isWs ++ zc :: headElem b' := by
                  conv => lhs; rw [hsplit, hcons]
                  rw [headElem_ws_append _ _ hw, headElem_cons _ _ hcomma]
                rw [hhe]
                simp [hzc]
              · have hhe : headElem r' = r'.takeWhile isWs ++ zc :: headElem b' := by
                  conv => lhs; rw [hsplit, hcons]
                  rw [headElem_ws_append _ _ hw, headElem_cons _ _ hcomma]
                rw [headElem_cons _ _ hxc, hhe]
                simp; omega
        · -- more token characters to match
          have ht'ne : t' ≠ [] := by
            intro h
            have : (tok.drop (i + 1)).length = tok.length - (i + 1) := List.length_drop
            rw [ht1, h] at this; simp at this; omega
          obtain ⟨res, hres, hrel⟩ := ih r' (p + 1) (i + 1) n' ht'ne ht1 hr1 (by omega) (by simp at hn; omega)
          refine ⟨res, ?_, ?_⟩
          · simp only [iter, hasTokenMatchStep, rd_some h0, rd_some hty, bind_ok', hx0, if_false, hceq,
              Bool.not_true, Bool.false_eq_true, hlast, pure_eq_ok]
            exact hres
          · cases res with
            | ret b =>
              obtain ⟨hb1, hb2⟩ := hrel
              exact ⟨by rw [helem]; exact hb1, fun h => by rw [restElems_cons _ _ hxc]; exact hb2 h⟩
            | brk p2 =>
              obtain ⟨hb1, hb2, hb3⟩ := hrel
              refine ⟨by rw [helem]; exact hb1, by omega, ?_⟩
              rw [headElem_cons _ _ hxc]; simp; omega
      · -- mismatch
        simp only [Bool.not_eq_true] at hceq
        have helem : elemIs (x :: r') (y :: t') = false := by
          rw [elemIs.eq_def]; simp [hceq]
        by_cases hxc : x = 0x2c
        · subst hxc
          refine ⟨.brk p, ?_, helem, Nat.le_refl _, by omega⟩
          simp [iter, hasTokenMatchStep, rd_some h0, rd_some hty, hceq]
        · refine ⟨.brk (p + 1), ?_, helem, by omega, ?_⟩
          · simp [iter, hasTokenMatchStep, rd_some h0, rd_some hty, hx0, hceq, hxc]
          · rw [headElem_cons _ _ hxc]; simp

/-! ### the outer loop -/

def notNulComma (c : UInt8) : Bool := c != 0 && c != 0x2c

theorem takeWhile_notNulComma (l : Bytes) (h : ∀ x ∈ l, x ≠ 0) : l.takeWhile notNulComma = l.takeWhile notComma := by
  induction l with
  | nil => rfl
  | cons x t ih =>
    have hx := h x List.mem_cons_self
    have : notNulComma x = notComma x := by simp [notNulComma, notComma, hx]
    simp only [List.takeWhile, this]
    rw [ih (fun y hy => h y (List.mem_cons_of_mem _ hy))]

theorem headElem_append_restElems (r : Bytes) : r = headElem r ++ restElems r :=
  (List.takeWhile_append_dropWhile).symm

theorem trimWs_of_head_not_ws (e : Bytes) (h : e = [] ∨ ∃ x t, e = x :: t ∧ isWs x = false) : trimWs e = trimR e := by
  rcases h with rfl | ⟨x, t, rfl, hx⟩
  · rfl
  · simp [trimWs, List.dropWhile, hx]

theorem isWsComma_of_isWs {x : UInt8} (h : isWsComma x = false) : isWs x = false ∧ x ≠ 0x2c := by
  simp only [isWsComma, Bool.or_eq_false_iff, beq_eq_false_iff_ne] at h
  exact ⟨by simp [isWs, h.1.1, h.1.2], h.2⟩

theorem hasToken_step (c tail tok : Bytes) (hz : ∀ x ∈ c, x ≠ 0) (htok : TokenOk tok) (p : Nat)
    (hi : p ≤ c.length ∧ hasTokenSpec c tok = anyTok tok (c.drop p)) :
    (∃ p', hasTokenStep (c ++ 0 :: tail) tok p = .ok (.inl p') ∧
        (p' ≤ c.length ∧ hasTokenSpec c tok = anyTok tok (c.drop p')) ∧ c.length - p' < c.length - p) ∨
    (∃ b, hasTokenStep (c ++ 0 :: tail) tok p = .ok (.inr b) ∧ b = hasTokenSpec c tok) := by
  obtain ⟨hp, hg⟩ := hi
  obtain ⟨hne, htk⟩ := htok
  unfold hasTokenStep
  have hd := drop_z c tail p hp
  cases hr : c.drop p with
  | nil =>
    right
    rw [hr, List.nil_append] at hd
    obtain ⟨h0, _, _⟩ := getElem?_of_drop_eq_cons hd
    simp only [rd_some h0, bind_ok', ne_eq, not_true_eq_false, if_false, pure_eq_ok]
    exact ⟨false, rfl, by rw [hg, hr, anyTok_nil tok hne]⟩
  | cons x r0 =>
    rw [hr, List.cons_append] at hd
    obtain ⟨h0, _, _⟩ := getElem?_of_drop_eq_cons hd
    have hx0 : x ≠ 0 := hz x (mem_of_drop_eq_cons hr)
    have hpl : p < c.length := by
      by_cases h : p < c.length
      · exact h
      · rw [List.drop_eq_nil_of_le (by omega)] at hr; simp at hr
    obtain ⟨hs1, hs2, hs3⟩ := skipZ_spec c tail isWsComma isWsComma_zero p hp
    simp only [rd_some h0, bind_ok', ne_eq, hx0, not_false_eq_true, if_true, hs1]
    -- p1 / r1: position and text after the skipped spaces, tabs and commas
    have hg1 : hasTokenSpec c tok = anyTok tok ((c.drop p).dropWhile isWsComma) := by
      rw [hg]; exact anyTok_skip tok hne _
    rw [← hs2] at hg1
    have hp1le : p ≤ p + ((c.drop p).takeWhile isWsComma).length := by omega
    have hskip0 : ((c.drop p).takeWhile isWsComma).length = 0 → isWsComma x = false := by
      intro hsk
      have : (c.drop p).takeWhile isWsComma = [] := List.eq_nil_of_length_eq_zero hsk
      rw [hr] at this
      by_cases hxx : isWsComma x = true
      · simp [List.takeWhile, hxx] at this
      · simpa using hxx
    have hskip0' : ((c.drop p).takeWhile isWsComma).length = 0 → c.drop (p + ((c.drop p).takeWhile isWsComma).length) = x :: r0 := by
      intro hsk; rw [hsk]; exact hr
    have hhead0 : (c.drop (p + ((c.drop p).takeWhile isWsComma).length) = [] ∨
        ∃ zc b', c.drop (p + ((c.drop p).takeWhile isWsComma).length) = zc :: b' ∧ isWsComma zc = false) := by
      rw [hs2]; exact dropWhile_head isWsComma (c.drop p)
    generalize hp1 : p + ((c.drop p).takeWhile isWsComma).length = p1 at *
    generalize hr1 : c.drop p1 = r1 at *
    obtain ⟨res, hres, hrel⟩ := matchLoop_spec c tail tok hz htk tok r1 p1 0 ((c ++ 0 :: tail).length + 1) hne rfl hr1 hs3
      (by have := congrArg List.length hr1; simp at this ⊢; omega)
    rw [hres]
    -- the head element of r1 does not start with whitespace
    have hhead : trimWs (headElem r1) = trimR (headElem r1) := by
      apply trimWs_of_head_not_ws
      rcases hhead0 with hnil | ⟨zc, b', hcons, hzc⟩
      · left; rw [hnil]; rfl
      · obtain ⟨hw, hcm⟩ := isWsComma_of_isWs hzc
        right; rw [hcons, headElem_cons _ _ hcm]; exact ⟨zc, _, rfl, hw⟩
    cases res with
    | ret b =>
      right
      obtain ⟨hb1, hb2⟩ := hrel
      refine ⟨b, rfl, ?_⟩
      rw [hg1, anyTok_rest tok _ hne, hhead, ← elemIs_eq _ _ (fun y hy => (htk y hy).2), ← hb1]
      cases b with
      | true => rfl
      | false => rw [hb2 rfl, anyTok_nil tok hne]; rfl
    | brk p2 =>
      left
      obtain ⟨hb1, hb2, hb3⟩ := hrel
      -- skip to the end of the current element
      have hlen1 : p1 + r1.length = c.length := by
        have := congrArg List.length hr1; simp at this; omega
      have hhl : (headElem r1).length ≤ r1.length := takeWhile_length_le notComma r1
      have hp2 : p2 ≤ c.length := by omega
      obtain ⟨hq1, hq2, hq3⟩ := skipZ_spec c tail (fun c => c != 0 && c != 0x2c) (by decide) p2 hp2
      simp only [hq1, bind_ok', pure_eq_ok]
      have hk : p2 - p1 ≤ (headElem r1).length := by omega
      have hdrop2 : c.drop p2 = (headElem r1).drop (p2 - p1) ++ restElems r1 := by
        have h1 : c.drop p2 = r1.drop (p2 - p1) := by
          rw [← hr1, List.drop_drop]; congr 1; omega
        rw [h1, ← List.drop_append_of_le_length hk, ← headElem_append_restElems r1]
      have hrun : (c.drop p2).takeWhile (fun c => c != 0 && c != 0x2c) = (headElem r1).drop (p2 - p1) := by
        have : (fun c : UInt8 => c != 0 && c != 0x2c) = notNulComma := rfl
        rw [this, takeWhile_notNulComma _ (fun x hx => hz x (List.mem_of_mem_drop hx)), hdrop2]
        apply takeWhile_append_all
        · intro x hx
          exact takeWhile_all_mem notComma r1 x (List.mem_of_mem_drop hx)
        · rcases restElems_eq r1 with h | ⟨r', h⟩
          · left; exact h
          · right; exact ⟨0x2c, r', h, by decide⟩
      have hlen : p2 + ((c.drop p2).takeWhile (fun c => c != 0 && c != 0x2c)).length = p1 + (headElem r1).length := by
        rw [hrun, List.length_drop]; omega
      have hfinal : c.drop (p1 + (headElem r1).length) = restElems r1 := by
        rw [← List.drop_drop, hr1]; exact drop_takeWhile_length notComma r1
      refine ⟨_, rfl, ⟨by rw [hlen] at hq3 ⊢; exact hq3, ?_⟩, ?_⟩
      · rw [hlen, hfinal, hg1, anyTok_rest tok _ hne, hhead, ← elemIs_eq _ _ (fun y hy => (htk y hy).2), hb1]
        rfl
      · rw [hlen]
        -- progress: either something was skipped or the head element is non-empty
        by_cases hsk : p1 = p
        · have hsk' : ((c.drop p).takeWhile isWsComma).length = 0 := by omega
          have hxw := hskip0 hsk'
          have hr1' : r1 = x :: r0 := hskip0' hsk'
          have : 0 < (headElem r1).length := by
            rw [hr1', headElem_cons _ _ (isWsComma_of_isWs hxw).2]; simp
          omega
        · omega

/-- `MHD_str_has_token_caseless_ (str, token, token_len)` on a z-terminated string
    `c ++ NUL :: tail` and a permitted token: true exactly when some element of
    the comma list, trimmed of spaces and tabs, equals the token caselessly. -/
theorem hasTokenCaseless_spec (c tail tok : Bytes) (hz : ∀ x ∈ c, x ≠ 0) (htok : TokenOk tok) :
    hasTokenCaseless (c ++ 0 :: tail) tok = .ok (hasTokenSpec c tok) := by
  unfold hasTokenCaseless
  have hne : tok.length ≠ 0 := by
    intro h; exact htok.1 (List.eq_nil_of_length_eq_zero h)
  simp only [hne, if_false]
  obtain ⟨b, hb, hp⟩ := iter_spec (hasTokenStep (c ++ 0 :: tail) tok)
    (fun p => p ≤ c.length ∧ hasTokenSpec c tok = anyTok tok (c.drop p)) (fun p => c.length - p)
    (fun b => b = hasTokenSpec c tok) (hasToken_step c tail tok hz htok)
    ((c ++ 0 :: tail).length + 1) 0 ⟨by omega, by simp [anyTok]⟩ (by simp; omega)
  rw [hb, hp]

/-- an empty token is never found -/
theorem hasTokenCaseless_empty (s : Bytes) : hasTokenCaseless s [] = .ok false := by
  simp [hasTokenCaseless]

end Mhd.Str
