/-
  Round trip of the multipart machine (form fields and nested multipart/mixed) for EVERY split of the body:
  quiescence (`quiescent_*`), one loop iteration (`mpIter_rt`), the loop (`mpLoop_rt`), one call
  (`postProcessMultipart_rt`, `feed_rt`), all calls (`feedAll_rt`) and the complete life of a post
  processor (`multipart_items_roundtrip`; `multipart_roundtrip` for the reference encoder).
-/
import Mhd.Proofs.PPMxStep
namespace Mhd.PP

/-- which phases can be quiescent, and what the rest of the stream looks like there -/
theorem quiescent_cases {c : Cfg} (hc : CfgOk c) {pp : PP} {R : Bytes} (hb : MBase c pp) (hI : MInv c pp R)
    (hq : Quiescent pp) :
    pp.buf = [] ∨
    (∃ Bd : Bytes, Bd.length + 4 < c.size ∧ pp.buf.length < 2 + Bd.length ∧ 2 + Bd.length ≤ R.length) ∨
    (∃ lines Z, lineEnd pp.buf = pp.buf.length ∧ (∀ ln ∈ lines, LineOk c.size ln) ∧ R = linesEnc lines ++ cCR :: Z) ∨
    (∃ Bd v off tl, 1 ≤ Bd.length ∧ Bd.length + 4 < c.size ∧ FreshFor Bd v ∧ off ≤ v.length ∧
      scanBoundary pp.buf Bd c.size 0 = .partialAt 0 ∧ R = v.drop off ++ sCRLFDashDash ++ (Bd ++ tl)) := by
  rcases hq with h | ⟨hrn, hq⟩
  · exact Or.inl h
  · cases hI with
    | main X hr hm =>
      have hX := rnok_inactive hr hrn
      subst hX
      cases hm with
      | bnd0 pre hs he hm hX2 hpre =>
        rcases hq with ⟨h | h, x⟩ | ⟨h | h, x⟩ | ⟨h, x⟩ | ⟨h, x⟩ | ⟨h, x⟩
        all_goals first | (rw [hs] at h; cases h; done) | skip
        exact Or.inr (Or.inl ⟨c.B, hc.bs, by rw [← hb.bnd]; exact x, by rw [hX2]; simp [sDashDash]; omega⟩)
      | hdr done it rest lines hsp hd hs hl hX2 =>
        rcases hq with ⟨h | h, x⟩ | ⟨h | h, x⟩ | ⟨h, x⟩ | ⟨h, x⟩ | ⟨h, x⟩
        all_goals first | (rcases hs with ⟨hs, _⟩ | ⟨hs, _⟩ <;> (rw [hs] at h; cases h; done)) | skip
        exact Or.inr (Or.inr (Or.inl ⟨lines, _, x, hl, hX2⟩))
      | chk done it rest hsp hd hs hm hi hX2 =>
        rcases hq with ⟨h | h, x⟩ | ⟨h | h, x⟩ | ⟨h, x⟩ | ⟨h, x⟩ | ⟨h, x⟩
        all_goals (rw [hs] at h; cases h)
      | val done p rest off evs0 cur hsp hd he hp hi hs hm ho hle hX2 =>
        have hfr : FreshFor c.B p.value := by
          have := hc.items (.field p) (by rw [hsp]; simp)
          cases this with
          | field _ h _ => exact h.fresh
        rcases hq with ⟨h | h, x⟩ | ⟨h | h, x⟩ | ⟨h, x⟩ | ⟨h, x⟩ | ⟨h, x⟩
        all_goals first | (rw [hs] at h; cases h; done) | skip
        exact Or.inr (Or.inr (Or.inr ⟨c.B, p.value, off, _, hc.b1, hc.bs, hfr, hle, by rw [← hb.bnd, ← hb.size]; exact x, hX2⟩))
      | ninit done ls name ct nb inner rest hsp hd hs hn hm hX2 =>
        have ns : nb.length + 4 < c.size := by
          have hok := hc.items (Item.mixed ls name ct nb inner) (by rw [hsp]; simp)
          cases hok with
          | mixed _ _ _ _ _ _ _ _ _ _ ns _ => exact ns
        rcases hq with ⟨h | h, x⟩ | ⟨h | h, x⟩ | ⟨h, x⟩ | ⟨h, x⟩ | ⟨h, x⟩
        all_goals first | (rw [hs] at h; cases h; done) | skip
        obtain ⟨nb', hn', hlt⟩ := x
        rw [hn] at hn'; cases hn'
        exact Or.inr (Or.inl ⟨nb, ns, hlt, by rw [hX2]; simp [sDashDash]; omega⟩)
      | nhdr done ls name ct nb inner rest idone q qs lines hsp hin hd hn hs hl hX2 =>
        rcases hq with ⟨h | h, x⟩ | ⟨h | h, x⟩ | ⟨h, x⟩ | ⟨h, x⟩ | ⟨h, x⟩
        all_goals first | (rcases hs with ⟨hs, _⟩ | ⟨hs, _⟩ | ⟨hs, _⟩ <;> (rw [hs] at h; cases h; done)) | skip
        exact Or.inr (Or.inr (Or.inl ⟨lines, _, x, hl, hX2⟩))
      | nval done ls name ct nb inner rest idone q qs off evs0 cur hsp hin hd he hp hi hs hn hmk hm ho hle hX2 =>
        obtain ⟨n1, ns, hfr⟩ : 1 ≤ nb.length ∧ nb.length + 4 < c.size ∧ FreshFor nb q.value := by
          have hok := hc.items (Item.mixed ls name ct nb inner) (by rw [hsp]; simp)
          cases hok with
          | mixed _ _ _ _ _ _ _ _ _ n1 ns hin' => exact ⟨n1, ns, (hin' q (by rw [hin]; simp)).fresh⟩
        rcases hq with ⟨h | h, x⟩ | ⟨h | h, x⟩ | ⟨h, x⟩ | ⟨h, x⟩ | ⟨h, x⟩
        all_goals first | (rw [hs] at h; cases h; done) | skip
        obtain ⟨nb', hn', hsc⟩ := x
        rw [hn] at hn'; cases hn'
        exact Or.inr (Or.inr (Or.inr ⟨nb, q.value, off, _, n1, ns, hfr, hle, by rw [← hb.size]; exact hsc, hX2⟩))
      | nnext done rest hsp hd hs hX2 =>
        rcases hq with ⟨h | h, x⟩ | ⟨h | h, x⟩ | ⟨h, x⟩ | ⟨h, x⟩ | ⟨h, x⟩
        all_goals first | (rw [hs] at h; cases h; done) | skip
        exact Or.inr (Or.inl ⟨c.B, hc.bs, by rw [← hb.bnd]; exact x, by rw [hX2]; simp [sDashDash]; omega⟩)
    | fin0 hd hr hds hR => rw [hr] at hrn; cases hrn
    | fin1 hd hr hds hR => rw [hr] at hrn; cases hrn
    | fin2 hd hs hr =>
      rcases hq with ⟨h | h, x⟩ | ⟨h | h, x⟩ | ⟨h, x⟩ | ⟨h, x⟩ | ⟨h, x⟩
      all_goals (rw [hs] at h; cases h)
    | nfin0 done rest hsp hd hr hds hR => rw [hr] at hrn; cases hrn
    | nfin1 done rest hsp hd hr hds hR => rw [hr] at hrn; cases hrn

theorem quiescent_not_full {c : Cfg} (hc : CfgOk c) {pp : PP} {pend : Bytes} (hb : MBase c pp)
    (hI : MInv c pp (pp.buf ++ pend)) (hq : Quiescent pp) : pp.buf.length < c.size := by
  have hbs := hc.bs
  rcases quiescent_cases hc hb hI hq with h | ⟨Bd, h1, h2, _⟩ | ⟨lines, Z, hle, hl, hR⟩ | ⟨Bd, v, off, tl, _, h2, _, _, hs, _⟩
  · rw [h]; simp; omega
  · omega
  · cases lines with
    | nil =>
      simp only [linesEnc, List.nil_append] at hR
      cases hpb : pp.buf with
      | nil => simp; omega
      | cons a t =>
        rw [hpb] at hR hle
        simp only [List.cons_append, List.cons.injEq] at hR
        rw [hR.1] at hle
        simp [lineEnd] at hle
    | cons ln lrest =>
      have hlo := hl ln (by simp)
      simp only [linesEnc, List.append_assoc, List.cons_append] at hR
      rcases List.append_eq_append_iff.mp hR with ⟨as, h1, _⟩ | ⟨bs, h1, h2⟩
      · have := congrArg List.length h1
        simp only [List.length_append] at this
        have := hlo.2.2; omega
      · cases bs with
        | nil =>
          have := congrArg List.length h1
          simp only [List.length_append, List.length_nil] at this
          have := hlo.2.2; omega
        | cons b0 b'' =>
          simp only [List.cons_append, List.cons.injEq] at h2
          rw [h1, ← h2.1, lineEnd_app ln b'' hlo.2.1] at hle
          simp at hle
  · have := scanBoundary_partial_zero _ _ _ _ hs
    omega

theorem afterB_ne_nil (B : Bytes) (ps : List Item) : afterB B ps ≠ [] := by
  cases ps with
  | nil => simp [afterB]
  | cons it r => rw [afterB_cons]; simp

/-- when the whole stream has been received and the machine is quiescent, it is in `PP_Done` and has
    delivered every field -/
theorem quiescent_final {c : Cfg} (hc : CfgOk c) {pp : PP} (hb : MBase c pp) (hI : MInv c pp (pp.buf ++ []))
    (hq : Quiescent pp) : pp.state = .done ∧ Delivers pp.evs (flat c.items) := by
  rcases quiescent_cases hc hb hI hq with h | ⟨Bd, _, h, hR⟩ | ⟨lines, Z, hle, hl, hR⟩ |
      ⟨Bd, v, off, tl, hB1, hBs, hocc, hoff, hs, hR⟩
  · rw [h] at hI
    cases hI with
    | main X hr hm =>
      have hX : X = [] := by
        rcases hr with ⟨_, h⟩ | ⟨_, h⟩ | ⟨_, h⟩
        · exact h.symm
        · cases h
        · cases h
      subst hX
      cases hm with
      | bnd0 pre hs he hm hX2 hpre => have := congrArg List.length hX2; simp [sDashDash] at this
      | hdr done it rest lines hsp hd hs hl hX2 => have := congrArg List.length hX2; simp at this
      | chk done it rest hsp hd hs hm hi hX2 =>
        cases it <;> (have := congrArg List.length hX2; simp [itemBody, sCRLFDashDash, sDashDash] at this)
      | val done p rest off evs0 cur hsp hd he hp hi hs hm ho hle hX2 =>
        have := congrArg List.length hX2; simp [sCRLFDashDash] at this
      | ninit done ls name ct nb inner rest hsp hd hs hn hm hX2 =>
        have := congrArg List.length hX2; simp [sDashDash] at this
      | nhdr done ls name ct nb inner rest idone q qs lines hsp hin hd hn hs hl hX2 =>
        have := congrArg List.length hX2; simp at this
      | nval done ls name ct nb inner rest idone q qs off evs0 cur hsp hin hd he hp hi hs hn hmk hm ho hle hX2 =>
        have := congrArg List.length hX2; simp [sCRLFDashDash] at this
      | nnext done rest hsp hd hs hX2 => have := congrArg List.length hX2; simp [sDashDash] at this
    | fin0 hd hr hds hR => cases hR
    | fin1 hd hr hds hR => cases hR
    | fin2 hd hs hr => exact ⟨hs, hd⟩
    | nfin0 done rest hsp hd hr hds hR => cases hR
    | nfin1 done rest hsp hd hr hds hR => cases hR
  · exfalso
    simp only [List.append_nil] at hR
    omega
  · exfalso
    rw [List.append_nil] at hR
    cases lines with
    | nil =>
      simp only [linesEnc, List.nil_append] at hR
      rw [hR] at hle
      simp [lineEnd] at hle
    | cons ln lrest =>
      have hlo := hl ln (by simp)
      simp only [linesEnc, List.append_assoc, List.cons_append] at hR
      rw [hR, lineEnd_app ln _ hlo.2.1] at hle
      simp at hle
  · exfalso
    have hfr : ∀ k, k < (v.drop off).length →
        slice (pp.buf ++ []) k (k + 4 + Bd.length) ≠ sCRLFDashDash ++ Bd := by
      intro k hk; rw [hR]; exact fresh_drop Bd v _ off k hocc hoff hk
    obtain ⟨sf, _⟩ := scanBoundary_fresh Bd (v.drop off) tl pp.buf [] c.size hB1 hR hfr
      (by omega) 0 (Nat.zero_le _) (Nat.zero_le _)
    have hlen : (v.drop off).length + 4 + Bd.length ≤ pp.buf.length := by
      have := congrArg List.length hR
      simp only [List.append_nil, List.length_append, sCRLFDashDash, List.length_cons, List.length_nil] at this
      omega
    rw [sf hlen] at hs
    cases hs

theorem slice_drop_app (d : Bytes) (a mx : Nat) : slice d a (a + mx) ++ d.drop (a + mx) = d.drop a := by
  unfold slice
  rw [Nat.add_sub_cancel_left, ← List.drop_drop, List.take_append_drop]

/-- one iteration of the loop of `post_process_multipart` on a well-formed stream -/
theorem mpIter_rt (c : Cfg) (hc : CfgOk c) (d future : Bytes) (pp : PP) (l : ML) (T : Bytes) (hM : MPend pp T 0)
    (hb : MBase c pp) (hio : l.ioff = 0) (hpo : l.poff ≤ d.length)
    (hI : MInv c pp (pp.buf ++ (d.drop l.poff ++ future))) (hq : l.stateChanged = false → Quiescent pp)
    (hcond : l.poff < d.length ∨ (pp.buf.length > 0 ∧ l.stateChanged = true)) :
    (mpIter d pp l).2.2 ≠ .ret ∧ MBase c (mpIter d pp l).1 ∧ (mpIter d pp l).2.1.ioff = 0 ∧
    MInv c (mpIter d pp l).1 ((mpIter d pp l).1.buf ++ (d.drop (mpIter d pp l).2.1.poff ++ future)) ∧
    (((mpIter d pp l).2.2 = .gotoEnd ∨ (mpIter d pp l).2.1.stateChanged = false) → Quiescent (mpIter d pp l).1) ∧
    ((mpIter d pp l).2.2 = .gotoEnd → (mpIter d pp l).2.1.poff = d.length) := by
  have hsize := hM.size
  have hbs := hc.bs
  rw [hb.size] at hsize
  have hg : ¬ pp.buf.length > pp.bufferSize := by rw [hb.size]; omega
  rw [mpIter_eq]
  simp only [hg, if_false]
  generalize hmax : min (pp.bufferSize - pp.buf.length) (d.length - l.poff) = mx
  rw [hb.size] at hmax
  have hmx1 : mx ≤ c.size - pp.buf.length := by rw [← hmax]; exact Nat.min_le_left _ _
  have hmx2 : mx ≤ d.length - l.poff := by rw [← hmax]; exact Nat.min_le_right _ _
  have hsl : (slice d l.poff (l.poff + mx)).length = mx := by
    rw [slice_length d l.poff (l.poff + mx) (by omega)]; omega
  have hoom : ¬ (mx = 0 ∧ l.stateChanged = false ∧ l.poff + mx < d.length) := by
    intro ⟨h0, hsc, hlt⟩
    have := quiescent_not_full hc hb hI (hq hsc)
    have : 0 < mx := by rw [← hmax]; omega
    omega
  rw [if_neg hoom]
  have hb1 : MBase c { pp with buf := pp.buf ++ slice d l.poff (l.poff + mx) } := ⟨hb.size, hb.bnd, hb.xbuf, hb.fault⟩
  have hI1 : MInv c { pp with buf := pp.buf ++ slice d l.poff (l.poff + mx) }
      (({ pp with buf := pp.buf ++ slice d l.poff (l.poff + mx) } : PP).buf ++ (d.drop (l.poff + mx) ++ future)) := by
    show MInv c _ (pp.buf ++ slice d l.poff (l.poff + mx) ++ (d.drop (l.poff + mx) ++ future))
    rw [List.append_assoc, ← List.append_assoc (slice _ _ _), slice_drop_app]
    exact hI.congr ⟨rfl, rfl, rfl, rfl, rfl, rfl, rfl, rfl, rfl, rfl, rfl⟩ rfl
  have hne1 : ({ pp with buf := pp.buf ++ slice d l.poff (l.poff + mx) } : PP).buf ≠ [] := by
    intro h
    have := congrArg List.length h
    simp only [List.length_append, hsl, List.length_nil] at this
    rcases hcond with h1 | ⟨h1, _⟩
    · have : 0 < mx ∨ 0 < pp.buf.length := by
        by_cases hz : pp.buf.length = 0
        · left; rw [← hmax]; omega
        · right; omega
      omega
    · omega
  obtain ⟨a1, a2, a3, a4, a5, a6, a7⟩ := act_spec c hc { pp with buf := pp.buf ++ slice d l.poff (l.poff + mx) }
    { l with poff := l.poff + mx, stateChanged := false } (d.drop (l.poff + mx) ++ future) hb1 hI1 hne1 hio
  refine ⟨a1, a2, a4, ?_, a6, fun h => ?_⟩
  · rw [a5]; exact a3
  · rw [a5]
    have hq' := a6 (Or.inl h)
    have := quiescent_not_full hc a2 a3 hq'
    rw [a7 h] at this
    simp only [List.length_append, hsl] at this
    show l.poff + mx = d.length
    have : mx = d.length - l.poff := by rw [← hmax]; omega
    omega

theorem mpLoop_rt (c : Cfg) (hc : CfgOk c) (d future : Bytes) : ∀ (fuel : Nat) (pp : PP) (l : ML) (T : Bytes),
    MPend pp T 0 → MBase c pp → l.ioff = 0 → l.poff ≤ d.length →
    MInv c pp (pp.buf ++ (d.drop l.poff ++ future)) → (l.stateChanged = false → Quiescent pp) → phi d pp l < fuel →
    (mpLoop fuel d pp l).2.2 ≠ .ret ∧ (mpLoop fuel d pp l).2.1.ioff = 0 ∧ (mpLoop fuel d pp l).2.1.poff = d.length ∧
    MBase c (mpLoop fuel d pp l).1 ∧ MInv c (mpLoop fuel d pp l).1 ((mpLoop fuel d pp l).1.buf ++ future) ∧
    Quiescent (mpLoop fuel d pp l).1 := by
  intro fuel
  induction fuel with
  | zero => intro pp l T _ _ _ _ _ _ h; omega
  | succ n ih =>
    intro pp l T hM hb hio hpo hI hq hphi
    rw [mpLoop]
    by_cases hcond : l.poff < d.length ∨ (pp.buf.length > 0 ∧ l.stateChanged = true)
    · rw [if_pos hcond]
      obtain ⟨i1, i2, i3, i4, i5, i6⟩ := mpIter_spec d pp l T hM hio hpo hcond
      obtain ⟨r1, r2, r3, r4, r5, r6⟩ := mpIter_rt c hc d future pp l T hM hb hio hpo hI hq hcond
      generalize hit : mpIter d pp l = r at i1 i2 i3 i4 i5 i6 r1 r2 r3 r4 r5 r6
      obtain ⟨pp1, l1, fl⟩ := r
      simp only at i1 i2 i3 i4 i5 i6 r1 r2 r3 r4 r5 r6
      cases fl with
      | again =>
        simp only
        rw [r3] at i3
        exact ih pp1 l1 _ i3 r2 r3 i1 r4 (fun h => r5 (Or.inr h)) (by have := i6 rfl; omega)
      | gotoEnd =>
        simp only
        have hp := r6 rfl
        refine ⟨by simp, r3, hp, r2, ?_, r5 (Or.inl rfl)⟩
        rw [hp, List.drop_length, List.nil_append] at r4
        exact r4
      | ret => exact absurd rfl r1
    · rw [if_neg hcond]
      have hp : l.poff = d.length := by omega
      refine ⟨by simp, hio, hp, hb, ?_, ?_⟩
      · rw [hp, List.drop_length, List.nil_append] at hI
        exact hI
      · by_cases hbz : pp.buf = []
        · exact Or.inl hbz
        · apply hq
          have : 0 < pp.buf.length := List.length_pos_iff.mpr hbz
          cases hsc : l.stateChanged with
          | false => rfl
          | true => exact absurd (Or.inr ⟨this, hsc⟩) hcond

/-- one `MHD_post_process` call in multipart mode on the next piece of a well-formed stream -/
theorem postProcessMultipart_rt (c : Cfg) (hc : CfgOk c) (d future : Bytes) (pp : PP) (T : Bytes) (hM : MPend pp T 0)
    (hb : MBase c pp) (hI : MInv c pp (pp.buf ++ (d ++ future))) :
    (postProcessMultipart pp d).2 = true ∧ MBase c (postProcessMultipart pp d).1 ∧
    MInv c (postProcessMultipart pp d).1 ((postProcessMultipart pp d).1.buf ++ future) ∧
    Quiescent (postProcessMultipart pp d).1 := by
  unfold postProcessMultipart
  obtain ⟨k1, k2, k3, k4, k5, k6⟩ := mpLoop_rt c hc d future (16 * (d.length + pp.buf.length) + 16) pp {} T hM hb rfl
    (Nat.zero_le _) (by simpa using hI) (by intro h; cases h) (phi_init_lt d pp)
  generalize mpLoop (16 * (d.length + pp.buf.length) + 16) d pp {} = r at k1 k2 k3 k4 k5 k6
  obtain ⟨pp1, l1, fl⟩ := r
  simp only at k1 k2 k3 k4 k5 k6
  have h1 : ¬ l1.ioff > pp1.buf.length := by omega
  have h2 : ¬ l1.ioff ≠ 0 := by omega
  have h3 : ¬ l1.poff < d.length := by omega
  cases fl with
  | ret => exact absurd rfl k1
  | again => simp only [h1, h2, h3, if_false]; exact ⟨trivial, k4, k5, k6⟩
  | gotoEnd => simp only [h1, h2, h3, if_false]; exact ⟨trivial, k4, k5, k6⟩

/-- between two calls: the invariant against the not yet received rest of the stream, and quiescence -/
def GoodRt (c : Cfg) (pp : PP) (future : Bytes) : Prop :=
  (∃ T, MPend pp T 0) ∧ MBase c pp ∧ MInv c pp (pp.buf ++ future) ∧ Quiescent pp

theorem feed_rt (c : Cfg) (hc : CfgOk c) (d future : Bytes) (pp : PP) (h : GoodRt c pp (d ++ future)) :
    (feed pp d).2 = true ∧ GoodRt c (feed pp d).1 future := by
  obtain ⟨⟨T, hM⟩, hb, hI, hq⟩ := h
  have hfs : pp.fault.isSome = false := by rw [hb.fault]; rfl
  by_cases hd : d.length = 0
  · have : d = [] := List.length_eq_zero_iff.mp hd
    subst this
    simp only [feed, hfs, Bool.false_eq_true, if_false, List.length_nil, if_true]
    exact ⟨trivial, ⟨T, hM⟩, hb, by simpa using hI, hq⟩
  · have hu : pp.isUrl = false := hM.ctl.url
    have hfeed : feed pp d = postProcessMultipart pp d := by simp [feed, hfs, hd, hu]
    rw [hfeed]
    obtain ⟨a1, a2, a3, a4⟩ := postProcessMultipart_rt c hc d future pp T hM hb hI
    obtain ⟨p, _, hM', _⟩ := postProcessMultipart_spec pp d T hM
    exact ⟨a1, ⟨_, hM'⟩, a2, a3, a4⟩

theorem feedAll_rt (c : Cfg) (hc : CfgOk c) : ∀ (chunks : List Bytes) (pp : PP) (future : Bytes),
    GoodRt c pp (chunks.flatten ++ future) →
    GoodRt c (feedAll pp chunks) future ∧
      ∀ pre ch post, chunks = pre ++ ch :: post → (feed (feedAll pp pre) ch).2 = true := by
  intro chunks
  induction chunks with
  | nil =>
    intro pp future h
    refine ⟨by simpa [feedAll] using h, ?_⟩
    intro pre ch post he
    cases pre <;> cases he
  | cons ch0 cs ih =>
    intro pp future h
    rw [List.flatten_cons, List.append_assoc] at h
    obtain ⟨f1, f2⟩ := feed_rt c hc ch0 _ pp h
    obtain ⟨g1, g2⟩ := ih _ _ f2
    refine ⟨by simpa [feedAll] using g1, ?_⟩
    intro pre ch post he
    cases pre with
    | nil =>
      simp only [List.nil_append, List.cons.injEq] at he
      rw [← he.1]; exact f1
    | cons p0 pre' =>
      simp only [List.cons_append, List.cons.injEq] at he
      obtain ⟨rfl, he⟩ := he
      have := g2 pre' ch post he
      simpa [feedAll] using this

theorem create_mp_facts (n : Nat) (ctype : Bytes) (pp0 : PP) (hc : create n ctype = some pp0) (hu : pp0.isUrl = false) :
    pp0.bufferSize = n + 4 ∧ pp0.boundary.length + 4 < n + 4 ∧ pp0.state = .init ∧ pp0.skipRn = .inactive ∧
    pp0.evs = [] ∧ pp0.buf = [] ∧ pp0.xbuf = [] ∧ pp0.fault = none ∧ pp0.metaOf = ⟨none, none, none, none⟩ := by
  unfold create at hc
  simp only at hc
  split at hc
  · cases hc; cases hu
  · split at hc
    · cases hc
    · split at hc
      · cases hc
      · rename_i r hr
        split at hc
        · cases hc
        · rename_i hlen
          cases hc
          refine ⟨by show n + Mhd.Gen.PP.bufferSlack = n + 4; rfl, ?_, rfl, rfl, rfl, rfl, rfl, rfl, rfl⟩
          show (if _ then _ else _ : Bytes).length + 4 < n + 4
          generalize List.drop sBoundaryEq.length r = b at hlen ⊢
          split
          · simp only [List.length_take, List.length_drop]; omega
          · omega


/-- the round trip with a preamble `pre` before the first delimiter in which `"--" ++ B` does not start -/
theorem multipart_items_roundtrip_gen (n : Nat) (ctype : Bytes) (pp0 : PP) (items : List Item) (chunks : List Bytes)
    (pre : Bytes) (hc : create n ctype = some pp0) (hu : pp0.isUrl = false) (hB : 1 ≤ pp0.boundary.length)
    (hit : ∀ it ∈ items, ItemOk (n + 4) pp0.boundary it)
    (hpre : ∀ k, k < pre.length → slice (pre ++ (sDashDash ++ pp0.boundary ++ afterB pp0.boundary items)) k
      (k + (2 + pp0.boundary.length)) ≠ sDashDash ++ pp0.boundary)
    (hch : chunks.flatten = pre ++ encodeItems pp0.boundary items) :
    ∃ pp, run n ctype chunks = some (pp, true) ∧ pp.fault = none ∧ Delivers pp.evs (flat items) ∧
      ∀ pre ch post, chunks = pre ++ ch :: post → (feed (feedAll pp0 pre) ch).2 = true := by
  obtain ⟨c1, c2, c3, c4, c5, c6, c7, c8, c9⟩ := create_mp_facts n ctype pp0 hc hu
  have hcfg : CfgOk ⟨pp0.boundary, n + 4, items⟩ := ⟨hB, c2, hit⟩
  have hb0 : MBase ⟨pp0.boundary, n + 4, items⟩ pp0 := ⟨c1, rfl, c7, c8⟩
  have hgood : GoodRt ⟨pp0.boundary, n + 4, items⟩ pp0 (chunks.flatten ++ []) := by
    refine ⟨⟨[], create_multipart_mpend n ctype pp0 hc hu⟩, hb0, ?_, Or.inl c6⟩
    rw [c6, List.nil_append, List.append_nil, hch]
    exact .main _ (Or.inl ⟨c4, rfl⟩) (.bnd0 pre c3 c5 c9 rfl hpre)
  obtain ⟨⟨_, hb, hI, hq⟩, hyes⟩ := feedAll_rt _ hcfg chunks pp0 [] hgood
  obtain ⟨hdone, hdel⟩ := quiescent_final hcfg hb hI hq
  refine ⟨feedAll pp0 chunks, ?_, hb.fault, hdel, hyes⟩
  have hfs : (feedAll pp0 chunks).fault.isSome = false := by rw [hb.fault]; rfl
  simp [run, hc, destroy, hfs, hdone, hb.xbuf]

/-- **Round trip for rendered bodies — form fields and nested multipart/mixed containers, every split.** -/
theorem multipart_items_roundtrip (n : Nat) (ctype : Bytes) (pp0 : PP) (items : List Item) (chunks : List Bytes)
    (hc : create n ctype = some pp0) (hu : pp0.isUrl = false) (hB : 1 ≤ pp0.boundary.length)
    (hit : ∀ it ∈ items, ItemOk (n + 4) pp0.boundary it)
    (hch : chunks.flatten = encodeItems pp0.boundary items) :
    ∃ pp, run n ctype chunks = some (pp, true) ∧ pp.fault = none ∧ Delivers pp.evs (flat items) ∧
      ∀ pre ch post, chunks = pre ++ ch :: post → (feed (feedAll pp0 pre) ch).2 = true :=
  multipart_items_roundtrip_gen n ctype pp0 items chunks [] hc hu hB hit (by intro k hk; cases hk) (by simpa using hch)

/-- the preamble condition: `"--" ++ B` does not start inside the preamble (RFC 2046 §5.1.1: the preamble
    is ignored; it normally ends with CRLF) -/
def PreOk (B pre : Bytes) : Prop :=
  occursIn (sDashDash ++ B) (pre ++ (sDashDash ++ B).take ((sDashDash ++ B).length - 1)) = false

/-- **… with an arbitrary preamble before the first delimiter.** -/
theorem multipart_items_roundtrip_pre (n : Nat) (ctype : Bytes) (pp0 : PP) (items : List Item) (chunks : List Bytes)
    (pre : Bytes) (hc : create n ctype = some pp0) (hu : pp0.isUrl = false) (hB : 1 ≤ pp0.boundary.length)
    (hit : ∀ it ∈ items, ItemOk (n + 4) pp0.boundary it) (hpre : PreOk pp0.boundary pre)
    (hch : chunks.flatten = pre ++ encodeItems pp0.boundary items) :
    ∃ pp, run n ctype chunks = some (pp, true) ∧ pp.fault = none ∧ Delivers pp.evs (flat items) ∧
      ∀ pre ch post, chunks = pre ++ ch :: post → (feed (feedAll pp0 pre) ch).2 = true := by
  refine multipart_items_roundtrip_gen n ctype pp0 items chunks pre hc hu hB hit ?_ hch
  intro k hk
  have hl : (sDashDash ++ pp0.boundary).length = 2 + pp0.boundary.length := by simp [sDashDash]; omega
  have := noocc_slice (sDashDash ++ pp0.boundary) pre (afterB pp0.boundary items) (by omega) hpre k hk
  rwa [hl] at this

/-! ### the reference encoder `encodeMultipart` as a rendering -/

def dispLine (p : Part) : Bytes :=
  ofStr "Content-Disposition: form-data; name=\"" ++ p.name ++ [cQuote]
  ++ (match p.filename with | some f => ofStr "; filename=\"" ++ f ++ [cQuote] | none => [])

/-- the header lines of a part as `encPartHeaders` writes them, without their CRLF -/
def hdrLines (p : Part) : List Bytes :=
  dispLine p :: ((match p.ctype with | some t => [ofStr "Content-Type: " ++ t] | none => []) ++
    (match p.enc with | some e => [ofStr "Content-Transfer-Encoding: " ++ e] | none => []))

theorem encPartHeaders_eq (p : Part) : encPartHeaders p = linesEnc (hdrLines p) ++ [cCR, cLF] := by
  unfold encPartHeaders hdrLines dispLine
  cases p.filename <;> cases p.ctype <;> cases p.enc <;> simp [linesEnc, sCRLF]

def metaP (p : Part) : Meta := ⟨some p.name, p.filename, p.ctype, p.enc⟩
def fieldOf (p : Part) : Meta × Bytes := (metaP p, p.value)
def toItem (p : Part) : Item := .field ⟨hdrLines p, metaP p, p.value⟩

theorem afterB_toItem (B : Bytes) : ∀ ps : List Part, sDashDash ++ B ++ afterB B (ps.map toItem) = encodeMultipart B ps
  | [] => by simp [encodeMultipart, afterB, sDashDash, sCRLF]
  | p :: rest => by
    have ih := afterB_toItem B rest
    simp only [List.map_cons, toItem, afterB, encodeMultipart, encPartHeaders_eq] at ih ⊢
    rw [← ih]
    simp [sDashDash, sCRLF, sCRLFDashDash]

theorem flat_toItem : ∀ ps : List Part, flat (ps.map toItem) = ps.map fieldOf
  | [] => rfl
  | p :: rest => by simp [toItem, flat, rfield, fieldOf, flat_toItem rest]

/-- side conditions on one part of the reference encoding -/
structure PartOk (size : Nat) (p : Part) : Prop where
  lines : ∀ ln ∈ hdrLines p, LineOk size ln
  hdr : (hdrLines p).foldl hdrM none4 = metaP p
  notMixed : ∀ ct, p.ctype = some ct → eqCaselessN ct sMixed sMixed.length = false

/-- **Round trip, single-level multipart/form-data in the reference encoding, every split.** -/
theorem multipart_roundtrip (n : Nat) (ctype : Bytes) (pp0 : PP) (parts : List Part) (chunks : List Bytes)
    (hc : create n ctype = some pp0) (hu : pp0.isUrl = false) (hB : 1 ≤ pp0.boundary.length)
    (hfresh : boundaryFresh pp0.boundary parts = true) (hp : ∀ p ∈ parts, PartOk (n + 4) p)
    (hch : chunks.flatten = encodeMultipart pp0.boundary parts) :
    ∃ pp, run n ctype chunks = some (pp, true) ∧ pp.fault = none ∧ Delivers pp.evs (parts.map fieldOf) ∧
      ∀ pre ch post, chunks = pre ++ ch :: post → (feed (feedAll pp0 pre) ch).2 = true := by
  have hit : ∀ it ∈ parts.map toItem, ItemOk (n + 4) pp0.boundary it := by
    intro it hit
    simp only [List.mem_map] at hit
    obtain ⟨p, hpm, rfl⟩ := hit
    have hpo := hp p hpm
    have hfr : FreshFor pp0.boundary p.value := by
      unfold boundaryFresh at hfresh
      rw [List.all_eq_true] at hfresh
      simpa [FreshFor] using hfresh p hpm
    exact .field _ ⟨hpo.lines, hpo.hdr, hfr⟩ hpo.notMixed
  have := multipart_items_roundtrip n ctype pp0 (parts.map toItem) chunks hc hu hB hit
    (by rw [hch]; exact (afterB_toItem _ _).symm)
  rwa [flat_toItem] at this

end Mhd.PP
