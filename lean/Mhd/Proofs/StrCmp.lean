/-
  C17 proofs: caseless comparison — `charsequalcaseless`,
  `MHD_str_equal_caseless_`, `MHD_str_equal_caseless_n_`,
  `MHD_str_equal_caseless_bin_n_`.
-/
import Mhd.Proofs.StrQuote
import Mhd.Proofs.StrCeq

namespace Mhd.Str

/-- caseless equality of two byte strings of equal length -/
abbrev ceqBytes : Bytes → Bytes → Bool := listEq charsEqualCaseless

/-- caseless equality of the first `n` characters (`strncasecmp (…) == 0`) -/
def ceqN : Nat → Bytes → Bytes → Bool
  | 0, _, _ => true
  | _ + 1, [], [] => true
  | n + 1, x :: s, y :: t => charsEqualCaseless x y && ceqN n s t
  | _ + 1, _, _ => false

theorem drop_z (c tail : Bytes) (i : Nat) (h : i ≤ c.length) :
    (c ++ 0 :: tail).drop i = c.drop i ++ 0 :: tail := by
  rw [List.drop_append_of_le_length h]

/-! ### MHD_str_equal_caseless_bin_n_ -/

theorem equalCaselessBinN_spec (a b : Bytes) (h : a.length = b.length) :
    equalCaselessBinN a b a.length = .ok (ceqBytes a b) := by
  unfold equalCaselessBinN equalCaselessBinAt
  obtain ⟨r, hr, hp⟩ := iter_spec (equalCaselessBinStep a 0 b 0 a.length)
    (fun i => i ≤ a.length ∧ ceqBytes a b = ceqBytes (a.drop i) (b.drop i))
    (fun i => a.length - i) (fun r => r = ceqBytes a b)
    (by
      intro i ⟨hi, hg⟩
      unfold equalCaselessBinStep
      by_cases hlt : i < a.length
      · have hlb : i < b.length := by omega
        simp only [hlt, if_true, Nat.zero_add, rd_lt hlt, rd_lt hlb, bind_ok']
        have hda := List.drop_eq_getElem_cons hlt
        have hdb := List.drop_eq_getElem_cons hlb
        by_cases he : charsEqualCaseless a[i] b[i] = true
        · left
          simp only [he, if_true, pure_eq_ok]
          refine ⟨_, rfl, ⟨by omega, ?_⟩, by omega⟩
          rw [hg, hda, hdb]; simp only [listEq, he, Bool.true_and]
        · right
          simp only [he, if_false, pure_eq_ok, Bool.false_eq_true]
          refine ⟨_, rfl, ?_⟩
          simp only [Bool.not_eq_true] at he
          rw [hg, hda, hdb]; simp only [listEq, he, Bool.false_and]
      · right
        simp only [hlt, if_false, pure_eq_ok]
        refine ⟨_, rfl, ?_⟩
        rw [hg, List.drop_eq_nil_of_le (by omega), List.drop_eq_nil_of_le (by omega)]; rfl)
    (a.length + 1) 0 ⟨by omega, by simp⟩ (by simp)
  rw [hr, hp]

/-! ### MHD_str_equal_caseless_ (both z-terminated) -/

theorem equalCaseless_spec (ca ta cb tb : Bytes) (hza : ∀ x ∈ ca, x ≠ 0) (hzb : ∀ x ∈ cb, x ≠ 0) :
    equalCaseless (ca ++ 0 :: ta) (cb ++ 0 :: tb) = .ok (ceqBytes ca cb) := by
  unfold equalCaseless
  obtain ⟨r, hr, hp⟩ := iter_spec (equalCaselessStep (ca ++ 0 :: ta) (cb ++ 0 :: tb))
    (fun i => i ≤ ca.length ∧ i ≤ cb.length ∧ ceqBytes ca cb = ceqBytes (ca.drop i) (cb.drop i))
    (fun i => ca.length - i) (fun r => r = ceqBytes ca cb)
    (by
      intro i ⟨hia, hib, hg⟩
      unfold equalCaselessStep
      have hda := drop_z ca ta i hia
      have hdb := drop_z cb tb i hib
      cases hca : ca.drop i with
      | nil =>
        right
        rw [hca, List.nil_append] at hda
        obtain ⟨h1, _, _⟩ := getElem?_of_drop_eq_cons hda
        cases hcb : cb.drop i with
        | nil =>
          rw [hcb, List.nil_append] at hdb
          obtain ⟨h2, _, _⟩ := getElem?_of_drop_eq_cons hdb
          simp only [rd_some h1, rd_some h2, bind_ok', ne_eq, not_true_eq_false, if_false, pure_eq_ok]
          exact ⟨_, rfl, by rw [hg, hca, hcb]; rfl⟩
        | cons y t' =>
          rw [hcb, List.cons_append] at hdb
          obtain ⟨h2, _, _⟩ := getElem?_of_drop_eq_cons hdb
          have hy : y ≠ 0 := hzb y (mem_of_drop_eq_cons hcb)
          simp only [rd_some h1, rd_some h2, bind_ok', ne_eq, not_true_eq_false, if_false, pure_eq_ok]
          refine ⟨_, rfl, ?_⟩
          rw [hg, hca, hcb]; simp [listEq, hy]
      | cons x t =>
        rw [hca, List.cons_append] at hda
        obtain ⟨h1, _, _⟩ := getElem?_of_drop_eq_cons hda
        have hx : x ≠ 0 := hza x (mem_of_drop_eq_cons hca)
        have hil : i < ca.length := by
          by_cases h : i < ca.length
          · exact h
          · rw [List.drop_eq_nil_of_le (by omega)] at hca; simp at hca
        have hca1 : ca.drop (i + 1) = t := by
          have := List.drop_eq_getElem_cons hil
          rw [this] at hca; injection hca
        cases hcb : cb.drop i with
        | nil =>
          right
          rw [hcb, List.nil_append] at hdb
          obtain ⟨h2, _, _⟩ := getElem?_of_drop_eq_cons hdb
          simp only [rd_some h1, rd_some h2, bind_ok', ne_eq, hx, not_false_eq_true, if_true,
            ceq_zero_right x hx, Bool.false_eq_true, if_false, pure_eq_ok]
          refine ⟨_, rfl, ?_⟩
          rw [hg, hca, hcb]; simp [listEq]
        | cons y t' =>
          rw [hcb, List.cons_append] at hdb
          obtain ⟨h2, _, _⟩ := getElem?_of_drop_eq_cons hdb
          have hib' : i < cb.length := by
            by_cases h : i < cb.length
            · exact h
            · rw [List.drop_eq_nil_of_le (by omega)] at hcb; simp at hcb
          have hcb1 : cb.drop (i + 1) = t' := by
            have := List.drop_eq_getElem_cons hib'
            rw [this] at hcb; injection hcb
          simp only [rd_some h1, rd_some h2, bind_ok', ne_eq, hx, not_false_eq_true, if_true]
          by_cases he : charsEqualCaseless x y = true
          · left
            simp only [he, if_true, pure_eq_ok]
            refine ⟨_, rfl, ⟨by omega, by omega, ?_⟩, by omega⟩
            rw [hg, hca, hcb, hca1, hcb1]; simp [listEq, he]
          · right
            simp only [he, if_false, pure_eq_ok, Bool.false_eq_true]
            simp only [Bool.not_eq_true] at he
            refine ⟨_, rfl, ?_⟩
            rw [hg, hca, hcb]; simp [listEq, he])
    ((ca ++ 0 :: ta).length + 1) 0 ⟨by omega, by omega, by simp⟩ (by simp; omega)
  rw [hr, hp]

/-! ### MHD_str_equal_caseless_n_ (both z-terminated, at most `maxlen` characters) -/

theorem ceq_zero_left (y : UInt8) (h : y ≠ 0) : charsEqualCaseless 0 y = false := by
  rw [charsEqualCaseless_iff]
  have : ∀ n : Fin 256, n.val ≠ 0 → (toLower 0 == toLower (UInt8.ofNat n.val)) = false := by decide +kernel
  have h2 := this ⟨y.toNat, y.toNat_lt⟩ (by
    intro h0; apply h; rw [← ofNat_toNat_u8 y]; simp only at h0; rw [h0]; rfl)
  simpa using h2

theorem equalCaselessN_spec (ca ta cb tb : Bytes) (maxlen : Nat)
    (hza : ∀ x ∈ ca, x ≠ 0) (hzb : ∀ x ∈ cb, x ≠ 0) :
    equalCaselessN (ca ++ 0 :: ta) (cb ++ 0 :: tb) maxlen = .ok (ceqN maxlen ca cb) := by
  unfold equalCaselessN
  obtain ⟨r, hr, hp⟩ := iter_spec (equalCaselessNStep (ca ++ 0 :: ta) (cb ++ 0 :: tb) maxlen)
    (fun i => i ≤ maxlen ∧ i ≤ ca.length ∧ i ≤ cb.length ∧ ceqN maxlen ca cb = ceqN (maxlen - i) (ca.drop i) (cb.drop i))
    (fun i => ca.length - i) (fun r => r = ceqN maxlen ca cb)
    (by
      intro i ⟨him, hia, hib, hg⟩
      unfold equalCaselessNStep
      by_cases hlt : i < maxlen
      · obtain ⟨k, hk⟩ : ∃ k, maxlen - i = k + 1 := ⟨maxlen - i - 1, by omega⟩
        have hk' : maxlen - (i + 1) = k := by omega
        have hda := drop_z ca ta i hia
        have hdb := drop_z cb tb i hib
        simp only [hlt, if_true]
        cases hca : ca.drop i with
        | nil =>
          right
          rw [hca, List.nil_append] at hda
          obtain ⟨h1, _, _⟩ := getElem?_of_drop_eq_cons hda
          cases hcb : cb.drop i with
          | nil =>
            rw [hcb, List.nil_append] at hdb
            obtain ⟨h2, _, _⟩ := getElem?_of_drop_eq_cons hdb
            simp only [rd_some h1, rd_some h2, bind_ok', if_true, pure_eq_ok]
            exact ⟨_, rfl, by rw [hg, hca, hcb, hk]; rfl⟩
          | cons y t' =>
            rw [hcb, List.cons_append] at hdb
            obtain ⟨h2, _, _⟩ := getElem?_of_drop_eq_cons hdb
            have hy : y ≠ 0 := hzb y (mem_of_drop_eq_cons hcb)
            simp only [rd_some h1, rd_some h2, bind_ok', hy, if_false, ceq_zero_left y hy, Bool.false_eq_true,
              pure_eq_ok]
            exact ⟨_, rfl, by rw [hg, hca, hcb, hk]; rfl⟩
        | cons x t =>
          rw [hca, List.cons_append] at hda
          obtain ⟨h1, _, _⟩ := getElem?_of_drop_eq_cons hda
          have hx : x ≠ 0 := hza x (mem_of_drop_eq_cons hca)
          have hil : i < ca.length := by
            by_cases h : i < ca.length
            · exact h
            · rw [List.drop_eq_nil_of_le (by omega)] at hca; simp at hca
          have hca1 : ca.drop (i + 1) = t := by
            have := List.drop_eq_getElem_cons hil
            rw [this] at hca; injection hca
          cases hcb : cb.drop i with
          | nil =>
            right
            rw [hcb, List.nil_append] at hdb
            obtain ⟨h2, _, _⟩ := getElem?_of_drop_eq_cons hdb
            simp only [rd_some h1, rd_some h2, bind_ok', if_true, pure_eq_ok]
            refine ⟨_, rfl, ?_⟩
            rw [hg, hca, hcb, hk]; simp [ceqN, hx]
          | cons y t' =>
            rw [hcb, List.cons_append] at hdb
            obtain ⟨h2, _, _⟩ := getElem?_of_drop_eq_cons hdb
            have hy : y ≠ 0 := hzb y (mem_of_drop_eq_cons hcb)
            have hib' : i < cb.length := by
              by_cases h : i < cb.length
              · exact h
              · rw [List.drop_eq_nil_of_le (by omega)] at hcb; simp at hcb
            have hcb1 : cb.drop (i + 1) = t' := by
              have := List.drop_eq_getElem_cons hib'
              rw [this] at hcb; injection hcb
            simp only [rd_some h1, rd_some h2, bind_ok', hy, if_false]
            by_cases he : charsEqualCaseless x y = true
            · left
              simp only [he, if_true, pure_eq_ok]
              refine ⟨_, rfl, ⟨by omega, by omega, by omega, ?_⟩, by omega⟩
              rw [hg, hca, hcb, hk, hca1, hcb1, hk']; simp [ceqN, he]
            · right
              simp only [he, if_false, pure_eq_ok, Bool.false_eq_true]
              simp only [Bool.not_eq_true] at he
              refine ⟨_, rfl, ?_⟩
              rw [hg, hca, hcb, hk]; simp [ceqN, he]
      · right
        simp only [hlt, if_false, pure_eq_ok]
        refine ⟨_, rfl, ?_⟩
        have : maxlen - i = 0 := by omega
        rw [hg, this]; rfl)
    ((ca ++ 0 :: ta).length + 2) 0 ⟨by omega, by omega, by omega, by simp⟩ (by simp; omega)
  rw [hr, hp]

/-- `ceqN n a b` is caseless equality of the first `n` characters -/
theorem ceqN_eq (n : Nat) (a b : Bytes) : ceqN n a b = ceqBytes (a.take n) (b.take n) := by
  induction n generalizing a b with
  | zero => simp [ceqN, listEq]
  | succ n ih =>
    cases a with
    | nil => cases b <;> simp [ceqN, listEq]
    | cons x s => cases b with
      | nil => simp [ceqN, listEq]
      | cons y t => simp [ceqN, listEq, ih]

end Mhd.Str
