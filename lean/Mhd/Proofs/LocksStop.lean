/-
  C18 — proofs about the shutdown state machine `Mhd.Stop`.
-/
import Mhd.Model.LocksStop

namespace Mhd.Stop

/-! ## connections -/

def GoodC (c : Conn) : Prop :=
  (c.st = .active ∧ c.notified = 0) ∨ (c.st ≠ .active ∧ c.notified = 1)

theorem goodC_close {c : Conn} (h : GoodC c) : GoodC c.close := by
  unfold Conn.close
  by_cases ha : c.st = .active
  · rw [if_pos ha]
    rcases h with ⟨_, hn⟩ | ⟨hna, _⟩
    · right; simp [hn]
    · exact absurd ha hna
  · rw [if_neg ha]; exact h

theorem close_not_active (c : Conn) : c.close.st ≠ .active := by
  unfold Conn.close
  by_cases ha : c.st = .active
  · rw [if_pos ha]; simp
  · rw [if_neg ha]; exact ha

theorem goodC_closeSel : ∀ (cs : List Conn) (m : List Bool),
    (∀ c ∈ cs, GoodC c) → ∀ c ∈ closeSel cs m, GoodC c
  | [], _, _ => by intro c hc; simp [closeSel] at hc
  | c :: cs, [], h => by simpa [closeSel] using h
  | c :: cs, b :: bs, h => by
    intro x hx
    simp only [closeSel, List.mem_cons] at hx
    rcases hx with rfl | hx
    · cases b
      · simpa using h c (by simp)
      · simpa using goodC_close (h c (by simp))
    · exact goodC_closeSel cs bs (fun y hy => h y (List.mem_cons_of_mem _ hy)) x hx

theorem goodC_closeFirst : ∀ (cs : List Conn), (∀ c ∈ cs, GoodC c) → ∀ c ∈ closeFirst cs, GoodC c
  | [], _ => by intro c hc; simp [closeFirst] at hc
  | c :: cs, h => by
    intro x hx
    unfold closeFirst at hx
    by_cases ha : c.st = .active
    · rw [if_pos ha] at hx
      rcases List.mem_cons.mp hx with rfl | hx
      · exact goodC_close (h c (by simp))
      · exact h x (List.mem_cons_of_mem _ hx)
    · rw [if_neg ha] at hx
      rcases List.mem_cons.mp hx with rfl | hx
      · exact h _ (by simp)
      · exact goodC_closeFirst cs (fun y hy => h y (List.mem_cons_of_mem _ hy)) x hx

theorem goodC_freeAll (cs : List Conn) (h : ∀ c ∈ cs, GoodC c) : ∀ c ∈ freeAll cs, GoodC c := by
  intro x hx
  simp only [freeAll, List.mem_map] at hx
  obtain ⟨c, hc, rfl⟩ := hx
  have hg := h c hc
  by_cases hcl : c.st = .cleanup
  · rw [if_pos hcl]
    rcases hg with ⟨ha, _⟩ | ⟨_, hn⟩
    · rw [hcl] at ha; cases ha
    · right; exact ⟨by simp, hn⟩
  · rw [if_neg hcl]; exact hg

theorem nActive_freeAll (cs : List Conn) : nActive (freeAll cs) = nActive cs := by
  induction cs with
  | nil => rfl
  | cons c cs ih =>
    simp only [nActive, freeAll, List.map_cons, List.countP_cons] at ih ⊢
    rw [ih]
    by_cases hcl : c.st = .cleanup
    · simp [hcl]
    · simp [hcl]

theorem nActive_close_le (c : Conn) :
    (if c.close.st = CSt.active then 1 else 0) ≤ (if c.st = CSt.active then 1 else 0) := by
  have := close_not_active c
  simp [this]

theorem nActive_closeSel_le : ∀ (cs : List Conn) (m : List Bool), nActive (closeSel cs m) ≤ nActive cs
  | [], _ => by simp [closeSel, nActive]
  | c :: cs, [] => by simp [closeSel]
  | c :: cs, b :: bs => by
    have ih := nActive_closeSel_le cs bs
    simp only [nActive, closeSel, List.countP_cons] at ih ⊢
    cases b
    · simp only [Bool.false_eq_true, if_false]; omega
    · have := close_not_active c
      simp only [if_true, decide_eq_true_eq, this, if_false]
      omega

theorem nActive_closeFirst : ∀ (cs : List Conn), nActive cs ≠ 0 → nActive (closeFirst cs) + 1 = nActive cs
  | [], h => by simp [nActive] at h
  | c :: cs, h => by
    unfold closeFirst
    by_cases ha : c.st = .active
    · rw [if_pos ha]
      have := close_not_active c
      simp [nActive, ha, this]
    · rw [if_neg ha]
      have h' : nActive cs ≠ 0 := by
        simpa [nActive, List.countP_cons, ha] using h
      have ih := nActive_closeFirst cs h'
      simp only [nActive, List.countP_cons, ha, decide_false, Bool.false_eq_true, if_false, Nat.add_zero] at ih ⊢
      exact ih

theorem freeAll_all_freed (cs : List Conn) (_hg : ∀ c ∈ cs, GoodC c) (h0 : nActive cs = 0) :
    ∀ c ∈ freeAll cs, c.st = .freed := by
  intro x hx
  simp only [freeAll, List.mem_map] at hx
  obtain ⟨c, hc, rfl⟩ := hx
  have hna : c.st ≠ .active := by
    intro ha
    have : 0 < nActive cs := by
      unfold nActive
      exact List.countP_pos_iff.mpr ⟨c, hc, by simp [ha]⟩
    omega
  by_cases hcl : c.st = .cleanup
  · rw [if_pos hcl]
  · rw [if_neg hcl]
    cases hst : c.st with
    | active => exact absurd hst hna
    | cleanup => exact absurd hst hcl
    | freed => rfl

/-! ## one worker -/

structure GoodW (w : Worker) : Prop where
  conns : ∀ c ∈ w.conns, GoodC c
  run_sd : w.stage = .running → w.shutdown = false
  flg_sd : w.stage ≠ .running → w.shutdown = true
  sig_itc : (w.stage = .signalled ∨ w.stage = .joined) → w.pc = .polling → w.itc = true
  late_sd : (w.pc = .closing ∨ w.pc = .finalCleanup ∨ w.pc = .exited) → w.shutdown = true
  fin_noact : w.pc = .finalCleanup → nActive w.conns = 0
  ex_freed : w.pc = .exited → ∀ c ∈ w.conns, c.st = .freed
  joined_ex : w.stage = .joined → w.pc = .exited

theorem goodW_of_init {w : Worker} (h : InitW w) : GoodW w := by
  obtain ⟨hs, hsd, hpc, hc⟩ := h
  refine ⟨hc, fun _ => hsd, fun hne => absurd hs hne, ?_, ?_, ?_, ?_, ?_⟩
  · intro h; rcases h with h | h <;> rw [hs] at h <;> cases h
  · intro h; rcases hpc with p | p | p <;> rcases h with q | q | q <;> rw [p] at q <;> cases q
  · intro h; rcases hpc with p | p | p <;> rw [p] at h <;> cases h
  · intro h; rcases hpc with p | p | p <;> rw [p] at h <;> cases h
  · intro h; rw [hs] at h; cases h

theorem goodW_step {w w' : Worker} {a : Act} (g : GoodW w) (h : wstep w a = some w') : GoodW w' := by
  cases a with
  | stop =>
    simp only [wstep] at h
    cases hst : w.stage <;> rw [hst] at h
    · -- running → flagged
      cases h
      exact ⟨g.conns, by simp, by simp, by simp, by simp, g.fin_noact, g.ex_freed, by simp⟩
    · -- flagged → signalled
      cases h
      exact ⟨g.conns, by simp, fun _ => g.flg_sd (by rw [hst]; simp), by simp, g.late_sd,
             g.fin_noact, g.ex_freed, by simp⟩
    · -- signalled → joined
      by_cases hex : w.pc = .exited
      · simp only [hex, if_true, Option.some.injEq] at h
        subst h
        have hsd : w.shutdown = true := g.flg_sd (by rw [hst]; simp)
        exact ⟨g.conns, by simp, fun _ => hsd, fun _ hp => by simp at hp, fun _ => hsd,
               fun hp => by simp at hp, fun _ => g.ex_freed hex, fun _ => rfl⟩
      · simp [hex] at h
    · cases h
  | run net sel =>
    simp only [wstep] at h
    cases hpc : w.pc <;> rw [hpc] at h
    · -- loopTest
      cases h
      refine ⟨g.conns, g.run_sd, g.flg_sd, ?_, ?_, ?_, ?_, ?_⟩
      · intro hs hp
        have hsd : w.shutdown = true := g.flg_sd (by rcases hs with hs | hs <;> rw [hs] <;> simp)
        simp [hsd] at hp
      · intro hl
        cases hsd : w.shutdown
        · simp [hsd] at hl
        · rfl
      · intro hp
        cases hsd : w.shutdown <;> simp [hsd] at hp
      · intro hp
        cases hsd : w.shutdown <;> simp [hsd] at hp
      · intro hs
        have := g.joined_ex hs
        rw [hpc] at this; cases this
    · -- polling
      by_cases hen : (w.itc || net) = true
      · simp only [hen, if_true, Option.some.injEq] at h
        subst h
        refine ⟨g.conns, g.run_sd, g.flg_sd, by simp, by simp, by simp, by simp, ?_⟩
        intro hs
        have := g.joined_ex hs
        rw [hpc] at this; cases this
      · simp [hen] at h
    · -- handling
      cases h
      refine ⟨?_, g.run_sd, g.flg_sd, by simp, by simp, by simp, by simp, ?_⟩
      · exact goodC_freeAll _ (goodC_closeSel _ _ g.conns)
      · intro hs
        have := g.joined_ex hs
        rw [hpc] at this; cases this
    · -- closing
      have hsd : w.shutdown = true := g.late_sd (Or.inl hpc)
      by_cases h0 : nActive w.conns = 0
      · simp only [h0, if_true, Option.some.injEq] at h
        subst h
        refine ⟨g.conns, g.run_sd, g.flg_sd, by simp, fun _ => hsd, fun _ => h0, by simp, ?_⟩
        intro hs
        have := g.joined_ex hs
        rw [hpc] at this; cases this
      · simp only [h0, if_false, Option.some.injEq] at h
        subst h
        refine ⟨goodC_closeFirst _ g.conns, g.run_sd, g.flg_sd, ?_, fun _ => hsd, ?_, ?_, ?_⟩
        · intro _ hp; simp at hp
        · intro hp; simp at hp
        · intro hp; simp at hp
        · intro hs
          have := g.joined_ex hs
          rw [hpc] at this; cases this
    · -- finalCleanup
      cases h
      have hsd : w.shutdown = true := g.late_sd (Or.inr (Or.inl hpc))
      refine ⟨goodC_freeAll _ g.conns, g.run_sd, g.flg_sd, by simp, fun _ => hsd, by simp, ?_, fun _ => rfl⟩
      intro _
      exact freeAll_all_freed _ g.conns (g.fin_noact hpc)
    · cases h

/-- non-increase: no step of anybody raises the potential -/
theorem wphi_le {w w' : Worker} {a : Act} (g : GoodW w) (h : wstep w a = some w') : wphi w' ≤ wphi w := by
  cases a with
  | stop =>
    simp only [wstep] at h
    cases hst : w.stage <;> rw [hst] at h
    · cases h
      simp only [wphi, hst, stagePot, pcPot]
      cases w.pc <;> simp <;> omega
    · cases h
      simp only [wphi, hst, stagePot, pcPot]
      cases w.pc <;> simp
    · by_cases hex : w.pc = .exited
      · simp only [hex, if_true, Option.some.injEq] at h
        subst h
        simp [wphi, hst, stagePot, pcPot, hex]
      · simp [hex] at h
    · cases h
  | run net sel =>
    simp only [wstep] at h
    cases hst : w.stage
    · -- running: only the number of active connections matters
      cases hpc : w.pc <;> rw [hpc] at h
      · cases h; simp [wphi, hst]
      · by_cases hen : (w.itc || net) = true
        · simp only [hen, if_true, Option.some.injEq] at h; subst h; simp [wphi, hst]
        · simp [hen] at h
      · cases h
        simp only [wphi, hst, if_true, nActive_freeAll]
        have := nActive_closeSel_le w.conns sel
        omega
      · have := g.run_sd hst
        have := g.late_sd (Or.inl hpc)
        simp_all
      · have := g.run_sd hst
        have := g.late_sd (Or.inr (Or.inl hpc))
        simp_all
      · cases h
    all_goals
      have hne : w.stage ≠ .running := by rw [hst]; simp
      have hsd : w.shutdown = true := g.flg_sd hne
      cases hpc : w.pc <;> rw [hpc] at h
      · cases h; simp [wphi, hst, pcPot, hsd, hpc]
      · by_cases hen : (w.itc || net) = true
        · simp only [hen, if_true, Option.some.injEq] at h; subst h; simp [wphi, hst, pcPot, hpc]
        · simp [hen] at h
      · cases h
        simp only [wphi, hst, pcPot, hpc, nActive_freeAll]
        have := nActive_closeSel_le w.conns sel
        simp; omega
      · by_cases h0 : nActive w.conns = 0
        · simp only [h0, if_true, Option.some.injEq] at h; subst h
          simp [wphi, hst, pcPot, hpc, h0]
        · simp only [h0, if_false, Option.some.injEq] at h; subst h
          have := nActive_closeFirst w.conns h0
          simp [wphi, hst, pcPot, hpc]; omega
      · cases h; simp [wphi, hst, pcPot, hpc]
      · cases h

/-- strict decrease: every protocol step lowers the potential -/
theorem wphi_lt {w w' : Worker} {a : Act} (g : GoodW w) (h : wstep w a = some w')
    (hp : a = .stop ∨ w.stage ≠ .running) : wphi w' < wphi w := by
  cases a with
  | stop =>
    simp only [wstep] at h
    cases hst : w.stage <;> rw [hst] at h
    · cases h
      simp only [wphi, hst, stagePot, pcPot]
      cases w.pc <;> simp <;> omega
    · cases h
      simp only [wphi, hst, stagePot, pcPot]
      cases w.pc <;> simp
    · by_cases hex : w.pc = .exited
      · simp only [hex, if_true, Option.some.injEq] at h
        subst h
        simp [wphi, hst, stagePot, pcPot, hex]
      · simp [hex] at h
    · cases h
  | run net sel =>
    have hne : w.stage ≠ .running := by
      rcases hp with hp | hp
      · cases hp
      · exact hp
    have hsd : w.shutdown = true := g.flg_sd hne
    simp only [wstep] at h
    cases hst : w.stage
    · exact absurd hst hne
    all_goals
      cases hpc : w.pc <;> rw [hpc] at h
      · cases h; simp [wphi, hst, pcPot, hsd, hpc]
      · by_cases hen : (w.itc || net) = true
        · simp only [hen, if_true, Option.some.injEq] at h; subst h; simp [wphi, hst, pcPot, hpc]
        · simp [hen] at h
      · cases h
        simp only [wphi, hst, pcPot, hpc, nActive_freeAll]
        have := nActive_closeSel_le w.conns sel
        simp; omega
      · by_cases h0 : nActive w.conns = 0
        · simp only [h0, if_true, Option.some.injEq] at h; subst h
          simp [wphi, hst, pcPot, hpc, h0]
        · simp only [h0, if_false, Option.some.injEq] at h; subst h
          have := nActive_closeFirst w.conns h0
          simp [wphi, hst, pcPot, hpc]; omega
      · cases h; simp [wphi, hst, pcPot, hpc]
      · cases h

/-- progress for one worker: until it is joined, a protocol step is enabled that does not
    depend on the network (`net = false`): no lost wake-up, no wait for a thread that cannot move -/
theorem worker_progress {w : Worker} (g : GoodW w) (hj : w.stage ≠ .joined) :
    (∃ w', wstep w .stop = some w') ∨
    (w.stage = .signalled ∧ ∃ w', wstep w (.run false []) = some w') := by
  cases hst : w.stage
  · left; simp only [wstep, hst]; exact ⟨_, rfl⟩
  · left; simp only [wstep, hst]; exact ⟨_, rfl⟩
  · by_cases hex : w.pc = .exited
    · left; simp only [wstep, hst, hex, if_true]; exact ⟨_, rfl⟩
    · right
      refine ⟨rfl, ?_⟩
      cases hpc : w.pc
      · simp only [wstep, hpc]; exact ⟨_, rfl⟩
      · have hi := g.sig_itc (Or.inl hst) hpc
        simp only [wstep, hpc, hi, Bool.true_or, if_true]; exact ⟨_, rfl⟩
      · simp only [wstep, hpc]; exact ⟨_, rfl⟩
      · by_cases h0 : nActive w.conns = 0
        · simp only [wstep, hpc, h0, if_true]; exact ⟨_, rfl⟩
        · simp only [wstep, hpc, h0, if_false]; exact ⟨_, rfl⟩
      · simp only [wstep, hpc]; exact ⟨_, rfl⟩
      · exact absurd hpc hex
  · exact absurd hst hj

/-- a joined worker has emptied its lists and notified every connection exactly once -/
theorem joined_final {w : Worker} (g : GoodW w) (hj : w.stage = .joined) :
    w.pc = .exited ∧ ∀ c ∈ w.conns, c.st = .freed ∧ c.notified = 1 := by
  have hex := g.joined_ex hj
  refine ⟨hex, fun c hc => ?_⟩
  have hf := g.ex_freed hex c hc
  refine ⟨hf, ?_⟩
  rcases g.conns c hc with ⟨ha, _⟩ | ⟨_, hn⟩
  · rw [hf] at ha; cases ha
  · exact hn

/-- a connection is notified at most once at any time, and never again once it left the list -/
theorem notified_le_one {w : Worker} (g : GoodW w) : ∀ c ∈ w.conns, c.notified ≤ 1 := by
  intro c hc
  rcases g.conns c hc with ⟨_, hn⟩ | ⟨_, hn⟩ <;> omega

/-! ## all workers -/

def Good (ws : List Worker) : Prop := ∀ w ∈ ws, GoodW w

theorem step_cases {ws ws' : List Worker} {i : Nat} {a : Act} (h : step ws i a = some ws') :
    ∃ w w', ws[i]? = some w ∧ wstep w a = some w' ∧ ws' = ws.set i w' := by
  unfold step at h
  cases hw : ws[i]? with
  | none => simp [hw] at h
  | some w =>
    simp only [hw] at h
    cases hs : wstep w a with
    | none => simp [hs] at h
    | some w' =>
      simp only [hs, Option.some.injEq] at h
      exact ⟨w, w', rfl, hs, h.symm⟩

theorem good_step {ws ws' : List Worker} {i : Nat} {a : Act} (g : Good ws) (h : step ws i a = some ws') :
    Good ws' := by
  obtain ⟨w, w', hw, hs, rfl⟩ := step_cases h
  intro x hx
  rcases List.mem_or_eq_of_mem_set hx with hx | rfl
  · exact g x hx
  · exact goodW_step (g w (List.mem_of_getElem? hw)) hs

theorem good_run : ∀ (sched : List (Nat × Act)) {ws ws' : List Worker},
    Good ws → run ws sched = some ws' → Good ws'
  | [], ws, ws', g, h => by simp [run] at h; subst h; exact g
  | (i, a) :: rest, ws, ws', g, h => by
    simp only [run] at h
    cases hs : step ws i a with
    | none => simp [hs] at h
    | some ws1 =>
      simp only [hs] at h
      exact good_run rest (good_step g hs) h

theorem sum_set_lt : ∀ (l : List Worker) (i : Nat) (w w' : Worker),
    l[i]? = some w → wphi w' < wphi w → ((l.set i w').map wphi).sum < (l.map wphi).sum
  | [], i, _, _, h, _ => by simp at h
  | x :: xs, 0, w, w', h, hlt => by
    simp only [List.getElem?_cons_zero, Option.some.injEq] at h
    subst h
    simp only [List.set_cons_zero, List.map_cons, List.sum_cons]
    omega
  | x :: xs, i + 1, w, w', h, hlt => by
    simp only [List.getElem?_cons_succ] at h
    have := sum_set_lt xs i w w' h hlt
    simp only [List.set_cons_succ, List.map_cons, List.sum_cons]
    omega

theorem sum_set_le : ∀ (l : List Worker) (i : Nat) (w w' : Worker),
    l[i]? = some w → wphi w' ≤ wphi w → ((l.set i w').map wphi).sum ≤ (l.map wphi).sum
  | [], i, _, _, h, _ => by simp at h
  | x :: xs, 0, w, w', h, hle => by
    simp only [List.getElem?_cons_zero, Option.some.injEq] at h
    subst h
    simp only [List.set_cons_zero, List.map_cons, List.sum_cons]
    omega
  | x :: xs, i + 1, w, w', h, hle => by
    simp only [List.getElem?_cons_succ] at h
    have := sum_set_le xs i w w' h hle
    simp only [List.set_cons_succ, List.map_cons, List.sum_cons]
    omega

theorem phi_step_le {ws ws' : List Worker} {i : Nat} {a : Act} (g : Good ws) (h : step ws i a = some ws') :
    phi ws' ≤ phi ws := by
  obtain ⟨w, w', hw, hs, rfl⟩ := step_cases h
  exact sum_set_le ws i w w' hw (wphi_le (g w (List.mem_of_getElem? hw)) hs)

theorem phi_step_lt {ws ws' : List Worker} {i : Nat} {a : Act} (g : Good ws) (h : step ws i a = some ws')
    (hp : isProtocolStep ws i a = true) : phi ws' < phi ws := by
  obtain ⟨w, w', hw, hs, rfl⟩ := step_cases h
  refine sum_set_lt ws i w w' hw (wphi_lt (g w (List.mem_of_getElem? hw)) hs ?_)
  cases a with
  | stop => exact Or.inl rfl
  | run net sel =>
    right
    simp only [isProtocolStep, hw] at hp
    intro hr
    simp [hr] at hp

/-- the number of protocol steps of any run is bounded by the potential of its first state -/
theorem countProtocol_le : ∀ (sched : List (Nat × Act)) (ws : List Worker), Good ws →
    ∀ ws', run ws sched = some ws' → countProtocol ws sched + phi ws' ≤ phi ws
  | [], ws, _, ws', h => by simp [run] at h; subst h; simp [countProtocol]
  | (i, a) :: rest, ws, g, ws', h => by
    simp only [run] at h
    cases hs : step ws i a with
    | none => simp [hs] at h
    | some ws1 =>
      simp only [hs] at h
      have ih := countProtocol_le rest ws1 (good_step g hs) ws' h
      simp only [countProtocol, hs]
      by_cases hp : isProtocolStep ws i a = true
      · have := phi_step_lt g hs hp
        simp only [hp, if_true]
        omega
      · have := phi_step_le g hs
        have hp' : isProtocolStep ws i a = false := by
          cases hb : isProtocolStep ws i a
          · rfl
          · exact absurd hb hp
        simp only [hp', Bool.false_eq_true, if_false]
        omega

end Mhd.Stop

namespace Mhd.StopTpc

theorem one_fixed (c : TC) (early : Bool) (h : InitC c) :
    let r := phase3 true (daemonResume (phase1 true (c, early)), early)
    r.place = .cleanup ∧ r.notified = 1 ∧ r.exited = true := by
  obtain ⟨hp, hn, _⟩ := h
  cases early <;> rcases hp with hp | hp <;>
    simp [phase1, phase3, threadExit, daemonResume, hp, hn]

theorem stop_fixed (cs : List (TC × Bool)) (h : ∀ p ∈ cs, InitC p.1) :
    ∃ r, stopTpc true cs = some r ∧ r.length = cs.length ∧
      ∀ c ∈ r, c.place = .freed ∧ c.notified = 1 ∧ c.exited = true := by
  have key : ∀ c ∈ settle true cs, c.place = .cleanup ∧ c.notified = 1 ∧ c.exited = true := by
    intro c hc
    simp only [settle, List.mem_map] at hc
    obtain ⟨p, hp, rfl⟩ := hc
    exact one_fixed p.1 p.2 (h p hp)
  refine ⟨(settle true cs).map freeC, ?_, by simp [settle], ?_⟩
  · unfold stopTpc
    rw [if_pos]
    simp only [List.all_eq_true]
    intro c hc
    simp [(key c hc).1]
  · intro c hc
    simp only [List.mem_map] at hc
    obtain ⟨b, hb, rfl⟩ := hc
    obtain ⟨h1, h2, h3⟩ := key b hb
    simp [freeC, h1, h2, h3]

theorem stop_unfixed_spins : stopTpc false [(⟨.susp, 0, false⟩, true)] = none := by decide

end Mhd.StopTpc
