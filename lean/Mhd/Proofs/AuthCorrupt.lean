/-
  C14 helper lemmas: single-byte corruptions of a rendered Digest credential string.

  The rendering of `pre ++ e :: post` is split as
      valPrefix lead pre e ++ (renderValue e.item.value e.r.form ++ valSuffix e post)
  and the byte at offset `j` of the value region is replaced.  Three outcomes are proved:
  * the region still is a value of the same form (`QBody` / token bytes): the string is the
    rendering of the list with that one value replaced, so only that parameter changes;
  * the replacement byte is NUL (quoted form) or NUL / ';' (token form): rejected.
-/
import Mhd.Proofs.AuthSem
namespace Mhd.Auth
open Mhd.Gen.Auth

/-! ### bodies of quoted-strings the scanner delivers -/

/-- body of a quoted-string as the scanner of parse_dauth_params accepts it: no NUL, no bare DQUOTE,
    every backslash followed by a byte other than NUL -/
def QBody : Bytes → Bool
  | [] => true
  | c :: r =>
    if c = 34 then false
    else if c = 92 then
      match r with
      | [] => false
      | c2 :: r2 => c2 ≠ 0 && QBody r2
    else c ≠ 0 && QBody r

theorem QBody_nil : QBody [] = true := by rw [QBody.eq_def]
theorem QBody_quote (r : Bytes) : QBody (34 :: r) = false := by rw [QBody.eq_def]; simp
theorem QBody_bs_end : QBody [92] = false := by rw [QBody.eq_def]; simp
theorem QBody_esc (c2 : UInt8) (r2 : Bytes) : QBody (92 :: c2 :: r2) = (c2 ≠ 0 && QBody r2) := by
  rw [QBody.eq_def]; simp
theorem QBody_plain (c : UInt8) (r : Bytes) (h34 : c ≠ 34) (h92 : c ≠ 92) : QBody (c :: r) = (c ≠ 0 && QBody r) := by
  rw [QBody.eq_def]; simp [h34, h92]

/-- every such body is the `escRender` of its meaning under some escape mask -/
theorem qbody_decomp : ∀ (n : Nat) (q : Bytes), q.length ≤ n → QBody q = true →
    ∃ esc v, q = escRender esc v ∧ (∀ c ∈ v, c ≠ 0) := by
  intro n
  induction n with
  | zero =>
    intro q hl _
    have : q = [] := List.length_eq_zero_iff.mp (by omega)
    subst this
    exact ⟨[], [], by simp [escRender], by simp⟩
  | succ n ih =>
    intro q hl hq
    cases q with
    | nil => exact ⟨[], [], by simp [escRender], by simp⟩
    | cons c r =>
      by_cases h34 : c = 34
      · subst h34; rw [QBody_quote] at hq; simp at hq
      by_cases h92 : c = 92
      · subst h92
        cases r with
        | nil => rw [QBody_bs_end] at hq; simp at hq
        | cons c2 r2 =>
          rw [QBody_esc] at hq
          simp only [Bool.and_eq_true, decide_eq_true_eq, ne_eq] at hq
          obtain ⟨esc, v, he, hv⟩ := ih r2 (by simp at hl; omega) hq.2
          refine ⟨true :: esc, c2 :: v, by simp [escRender, he], ?_⟩
          intro x hx
          rcases List.mem_cons.mp hx with h | h
          · rw [h]; exact hq.1
          · exact hv x h
      · rw [QBody_plain c r h34 h92] at hq
        simp only [Bool.and_eq_true, decide_eq_true_eq, ne_eq] at hq
        obtain ⟨esc, v, he, hv⟩ := ih r (by simp at hl; omega) hq.2
        refine ⟨false :: esc, c :: v, by simp [escRender, h34, h92, he], ?_⟩
        intro x hx
        rcases List.mem_cons.mp hx with h | h
        · rw [h]; exact hq.1
        · exact hv x h

/-- a rendered body is such a body -/
theorem QBody_escRender (esc : List Bool) (v : Bytes) (hv : ∀ c ∈ v, c ≠ 0) : QBody (escRender esc v) = true := by
  induction v generalizing esc with
  | nil => cases esc <;> simp [escRender, QBody_nil]
  | cons c r ih =>
    have hc : c ≠ 0 := hv c (by simp)
    have hr : ∀ x ∈ r, x ≠ 0 := fun x hx => hv x (by simp [hx])
    cases esc with
    | nil =>
      simp only [escRender]
      by_cases h : c = 34 ∨ c = 92
      · simp [h, QBody_esc, hc, ih [] hr]
      · have h34 : c ≠ 34 := fun h' => h (Or.inl h')
        have h92 : c ≠ 92 := fun h' => h (Or.inr h')
        simp [h, QBody_plain c _ h34 h92, hc, ih [] hr]
    | cons b bs =>
      simp only [escRender]
      by_cases h : c = 34 ∨ c = 92 ∨ b = true
      · simp [h, QBody_esc, hc, ih bs hr]
      · have h34 : c ≠ 34 := fun h' => h (Or.inl h')
        have h92 : c ≠ 92 := fun h' => h (Or.inr (Or.inl h'))
        simp [h, QBody_plain c _ h34 h92, hc, ih bs hr]

/-- a NUL written anywhere into such a body makes the quoted-value scanner return `false` -/
theorem scanQ_nul (t : UInt8) : ∀ (n : Nat) (q : Bytes) (j : Nat) (rest : Bytes), q.length ≤ n → QBody q = true →
    j < q.length → scanQ (some t) (q.set j 0 ++ rest) = .reject := by
  intro n
  induction n with
  | zero => intro q j rest hl _ hj; omega
  | succ n ih =>
    intro q j rest hl hq hj
    cases q with
    | nil => simp at hj
    | cons c r =>
      by_cases h34 : c = 34
      · subst h34; rw [QBody_quote] at hq; simp at hq
      by_cases h92 : c = 92
      · subst h92
        cases r with
        | nil => rw [QBody_bs_end] at hq; simp at hq
        | cons c2 r2 =>
          rw [QBody_esc] at hq
          simp only [Bool.and_eq_true, decide_eq_true_eq, ne_eq] at hq
          match j with
          | 0 => simp [scanQ_zero]
          | 1 => simp [scanQ_esc0]
          | j + 2 =>
            simp only [List.set_cons_succ, List.cons_append]
            rw [scanQ_esc _ _ _ hq.1, ih r2 j rest (by simp at hl; omega) hq.2 (by simp at hj; omega)]
            rfl
      · rw [QBody_plain c r h34 h92] at hq
        simp only [Bool.and_eq_true, decide_eq_true_eq, ne_eq] at hq
        match j with
        | 0 => simp [scanQ_zero]
        | j + 1 =>
          simp only [List.set_cons_succ, List.cons_append]
          rw [scanQ_plain _ _ _ h34 h92 hq.1, ih r j rest (by simp at hl; omega) hq.2 (by simp at hj; omega)]
          rfl

/-- NUL, ';' or DQUOTE written anywhere into an unquoted value makes the token scanner return `false` -/
theorem scanTok_bad (t : UInt8) (b : UInt8) (hb : b = 0 ∨ b = 59 ∨ b = 34) : ∀ (v : Bytes) (j : Nat) (rest : Bytes),
    v.all tokByte = true → j < v.length → scanTok (some t) (v.set j b ++ rest) = .reject := by
  intro v
  induction v with
  | nil => intro j rest _ hj; simp at hj
  | cons c r ih =>
    intro j rest hv hj
    simp only [List.all_cons, Bool.and_eq_true] at hv
    match j with
    | 0 =>
      rcases hb with h | h | h <;> subst h <;> simp [scanTok_cons]
    | j + 1 =>
      have hc := hv.1
      simp only [tokByte, Bool.and_eq_true, ne_eq, decide_eq_true_eq] at hc
      obtain ⟨⟨⟨⟨⟨h34, h0⟩, h32⟩, h9⟩, h44⟩, h59⟩ := hc
      simp only [List.set_cons_succ, List.cons_append]
      rw [scanTok_cons, ih j rest hv.2 (by simp at hj; omega)]
      simp [h34, h0, h32, h9, h44, h59]

/-! ### the split of a rendering around one value -/

/-- the parameters before the one looked at, each with its separating comma -/
def sepList : List Elem → Bytes
  | [] => []
  | p :: ps => renderElem p ++ 44 :: (p.r.ws4 ++ sepList ps)

/-- name, BWS "=" BWS of a parameter: what stands between the previous separator and the value -/
def nameEq (e : Elem) : Bytes := caseRender e.r.upper (nameOf e.item.slot) ++ (e.r.ws1 ++ 61 :: e.r.ws2)

/-- everything before the value of `e` in `render lead (pre ++ e :: post)` -/
def valPrefix (lead : Bytes) (pre : List Elem) (e : Elem) : Bytes := lead ++ (sepList pre ++ nameEq e)

/-- everything after the value of `e` in `render lead (pre ++ e :: post)` -/
def valSuffix (e : Elem) (post : List Elem) : Bytes :=
  e.r.ws3 ++ (match post with
    | [] => []
    | p :: ps => 44 :: (e.r.ws4 ++ renderList (p :: ps)))

theorem renderList_cons_ne (p : Elem) (l : List Elem) (h : l ≠ []) :
    renderList (p :: l) = renderElem p ++ 44 :: (p.r.ws4 ++ renderList l) := by
  cases l with
  | nil => exact absurd rfl h
  | cons a b => rfl

theorem renderList_split (pre : List Elem) (e : Elem) (post : List Elem) :
    renderList (pre ++ e :: post) =
      sepList pre ++ (nameEq e ++ (renderValue e.item.value e.r.form ++ valSuffix e post)) := by
  induction pre with
  | nil =>
    cases post with
    | nil => simp [renderList, sepList, nameEq, valSuffix, renderElem, List.append_assoc]
    | cons p ps => simp [renderList, sepList, nameEq, valSuffix, renderElem, List.append_assoc]
  | cons p ps ih =>
    rw [List.cons_append, renderList_cons_ne p _ (by simp), ih]
    simp [sepList, List.append_assoc]

theorem render_split (lead : Bytes) (pre : List Elem) (e : Elem) (post : List Elem) :
    render lead (pre ++ e :: post) =
      valPrefix lead pre e ++ (renderValue e.item.value e.r.form ++ valSuffix e post) := by
  simp [render, valPrefix, renderList_split, List.append_assoc]

/-- the same parameter with another value / form; name, case and white space kept -/
def Elem.withValue (e : Elem) (v : Bytes) (f : Form) : Elem :=
  ⟨⟨e.item.slot, v⟩, ⟨e.r.upper, e.r.ws1, e.r.ws2, f, e.r.ws3, e.r.ws4⟩⟩

theorem valPrefix_withValue (lead : Bytes) (pre : List Elem) (e : Elem) (v : Bytes) (f : Form) :
    valPrefix lead pre (e.withValue v f) = valPrefix lead pre e := rfl
theorem valSuffix_withValue (e : Elem) (post : List Elem) (v : Bytes) (f : Form) :
    valSuffix (e.withValue v f) post = valSuffix e post := rfl

/-- replacing the value region by another well-formed value: the string is the rendering of the list with
    that one value replaced -/
theorem parse_replaced (lead : Bytes) (pre : List Elem) (e : Elem) (post : List Elem) (t : UInt8) (ht : t ≠ 59)
    (hwf : WF lead (pre ++ e :: post) = true) (v' : Bytes) (f' : Form) (hwf' : (e.withValue v' f').wf = true) :
    ∃ d, parseDigest (valPrefix lead pre e ++ (renderValue v' f' ++ valSuffix e post)) (some t) = .ok d ∧
      (∀ k, (d.slots k).map paramUnq = view (pre ++ e.withValue v' f' :: post) k) ∧
      d.algo3 = algoSem (view (pre ++ e.withValue v' f' :: post) kAlgorithm) ∧
      d.qop = qopSem (view (pre ++ e.withValue v' f' :: post) kQop) ∧
      d.userhash = userhashSem (view (pre ++ e.withValue v' f' :: post) kUserhash) := by
  have hw : WF lead (pre ++ e.withValue v' f' :: post) = true := by
    simp only [WF, Bool.and_eq_true, List.all_append, List.all_cons] at hwf ⊢
    exact ⟨hwf.1, hwf.2.1, hwf', hwf.2.2.2⟩
  have := parseDigest_render lead (pre ++ e.withValue v' f' :: post) t ht hw
  rw [render_split] at this
  exact this

/-- parameters other than the replaced one keep their meaning -/
theorem view_withValue (pre : List Elem) (e : Elem) (post : List Elem) (v' : Bytes) (f' : Form) (k : Nat)
    (hk : k ≠ e.item.slot) : view (pre ++ e.withValue v' f' :: post) k = view (pre ++ e :: post) k := by
  have hne : ¬ e.item.slot = k := fun h => hk h.symm
  simp [view, List.foldl_append, Elem.withValue, hne]

theorem set_in_value (P V S : Bytes) (j : Nat) (b : UInt8) (hj : j < V.length) :
    (P ++ (V ++ S)).set (P.length + j) b = P ++ (V.set j b ++ S) := by
  rw [List.set_append_right _ _ (by omega)]
  simp only [Nat.add_sub_cancel_left]
  rw [List.set_append_left _ _ hj]

/-! ### walking to the value of `e` -/

theorem sepList_length (pre : List Elem) : pre.length ≤ (sepList pre).length := by
  induction pre with
  | nil => simp [sepList]
  | cons p ps ih => simp only [sepList, List.length_append, List.length_cons]; omega

theorem nameEq_head (e : Elem) (hwf : e.wf = true) (X : Bytes) :
    ∃ c r, nameEq e ++ X = c :: r ∧ isWs c = false := by
  obtain ⟨hslot, _⟩ := e.wf_ws hwf
  obtain ⟨c, r, hhead, _, hws⟩ := caseRender_head e.item.slot hslot e.r.upper
  exact ⟨c, r ++ (e.r.ws1 ++ 61 :: e.r.ws2) ++ X, by simp [nameEq, hhead], hws⟩

theorem sepList_head (pre : List Elem) (hwf : pre.all Elem.wf = true) (Y : Bytes)
    (hY : ∃ c r, Y = c :: r ∧ isWs c = false) : ∃ c r, sepList pre ++ Y = c :: r ∧ isWs c = false := by
  cases pre with
  | nil => simpa [sepList] using hY
  | cons p ps =>
    simp only [List.all_cons, Bool.and_eq_true] at hwf
    obtain ⟨hslot, _⟩ := p.wf_ws hwf.1
    obtain ⟨c, r, hhead, _, hws⟩ := caseRender_head p.item.slot hslot p.r.upper
    exact ⟨c, _, by simp only [sepList, renderElem, hhead, List.append_assoc, List.cons_append]; rfl, hws⟩

/-- the loop walks over the parameters in front and arrives at `Y` -/
theorem paramLoop_sepList (t : UInt8) (ht : t ≠ 59) (n : Nat) (pre : List Elem) :
    ∀ (fuel : Nat) (st : Slots) (Y : Bytes), pre.all Elem.wf = true → (∃ c r, Y = c :: r ∧ isWs c = false) →
      ∃ st', paramLoop (some t) n (fuel + pre.length) st (sepList pre ++ Y) = paramLoop (some t) n fuel st' Y := by
  induction pre with
  | nil => intro fuel st Y _ _; exact ⟨st, by simp [sepList]⟩
  | cons p ps ih =>
    intro fuel st Y hwf hY
    simp only [List.all_cons, Bool.and_eq_true] at hwf
    obtain ⟨_, _, _, _, hw4⟩ := p.wf_ws hwf.1
    have htl : TailOK (44 :: (p.r.ws4 ++ (sepList ps ++ Y))) := Or.inr ⟨_, rfl⟩
    obtain ⟨off, hit⟩ := paramLoop_elem t ht n (fuel + ps.length) st p _ hwf.1 htl
    obtain ⟨c, r, hhd, hcws⟩ := sepList_head ps hwf.2 Y hY
    have hnext : nextParam (44 :: (p.r.ws4 ++ (sepList ps ++ Y))) = sepList ps ++ Y := by
      simp only [nextParam]
      rw [skipWs_append _ _ hw4]
      exact skipWs_stop _ (Or.inr ⟨c, r, hhd, hcws⟩)
    obtain ⟨st', hrun⟩ := ih fuel (st.set p.item.slot ⟨off, rawOf p, quotedOf p⟩) Y hwf.2 hY
    refine ⟨st', ?_⟩
    have hsh : sepList (p :: ps) ++ Y = renderElem p ++ 44 :: (p.r.ws4 ++ (sepList ps ++ Y)) := by
      simp [sepList, List.append_assoc]
    rw [hsh, List.length_cons, ← Nat.add_assoc, hit, hnext, hrun]

/-- the name of `e`, "=", and a value region on which the value scanner fails: the loop returns `false` -/
theorem paramLoop_value_reject (t : UInt8) (n fuel : Nat) (st : Slots) (e : Elem) (hwf : e.wf = true) (V : Bytes)
    (hV : ∃ c r, V = c :: r ∧ isWs c = false) (hrej : valueAt (some t) V = .reject) :
    paramLoop (some t) n (fuel + 1) st (nameEq e ++ V) = .reject := by
  obtain ⟨hslot, hw1, hw2, _, _⟩ := e.wf_ws hwf
  obtain ⟨c, r, hhead, hc61, _⟩ := caseRender_head e.item.slot hslot e.r.upper
  obtain ⟨d, rest, hd, hdd⟩ := ws_eq_head e.r.ws1 (e.r.ws2 ++ V) hw1
  have hshape : nameEq e ++ V = caseRender e.r.upper (nameOf e.item.slot) ++ (e.r.ws1 ++ 61 :: (e.r.ws2 ++ V)) := by
    simp [nameEq, List.append_assoc]
  have hfind := findName_rendered e.item.slot hslot e.r.upper d hdd rest
  rw [← hd, ← hshape] at hfind
  have hdrop : List.drop (nameOf e.item.slot).length (nameEq e ++ V) = e.r.ws1 ++ 61 :: (e.r.ws2 ++ V) := by
    rw [hshape, ← caseRender_length e.r.upper (nameOf e.item.slot), List.drop_left]
  have hcons : nameEq e ++ V = c :: (r ++ (e.r.ws1 ++ 61 :: (e.r.ws2 ++ V))) := by
    rw [hshape, hhead]; rfl
  have hkv : knownValue (some t) (e.r.ws1 ++ 61 :: (e.r.ws2 ++ V)) = .reject := by
    unfold knownValue
    rw [skipWs_append _ _ hw1, skipWs_cons]
    simp only [show isWs 61 = false by decide, Bool.false_eq_true, if_false, ne_eq, not_true_eq_false]
    rw [skipWs_append _ _ hw2, skipWs_stop V (Or.inr hV), hrej]
    rfl
  rw [hcons, paramLoop.eq_3, ← hcons]
  simp only [hc61, if_false, hfind, hdrop, hkv, Res.bind_reject]

/-- … seen from `parse_dauth_params`: a value region on which the value scanner fails ⇒ `false` -/
theorem parse_value_reject (lead : Bytes) (pre : List Elem) (e : Elem) (post : List Elem) (t : UInt8) (ht : t ≠ 59)
    (hwf : WF lead (pre ++ e :: post) = true) (V : Bytes) (hV : ∃ c r, V = c :: r ∧ isWs c = false)
    (hrej : valueAt (some t) V = .reject) :
    parseDigest (valPrefix lead pre e ++ V) (some t) = .reject := by
  simp only [WF, Bool.and_eq_true, List.all_append, List.all_cons] at hwf
  obtain ⟨hlead, hpre, he, _⟩ := hwf
  obtain ⟨c0, r0, h0, h0ws⟩ := nameEq_head e he V
  obtain ⟨c1, r1, h1, h1ws⟩ := sepList_head pre hpre (nameEq e ++ V) ⟨c0, r0, h0, h0ws⟩
  have hs : valPrefix lead pre e ++ V = lead ++ (sepList pre ++ (nameEq e ++ V)) := by
    simp [valPrefix, List.append_assoc]
  have hskip : skipWs (valPrefix lead pre e ++ V) = sepList pre ++ (nameEq e ++ V) := by
    rw [hs, skipWs_append _ _ hlead]
    exact skipWs_stop _ (Or.inr ⟨c1, r1, h1, h1ws⟩)
  have hlen : pre.length + 1 ≤ (valPrefix lead pre e ++ V).length := by
    have := sepList_length pre
    rw [hs, h0]
    simp only [List.length_append, List.length_cons]; omega
  obtain ⟨f, hf⟩ : ∃ f, (valPrefix lead pre e ++ V).length + 1 = (f + 1) + pre.length := ⟨(valPrefix lead pre e ++ V).length - pre.length, by omega⟩
  obtain ⟨st', hrun⟩ := paramLoop_sepList t ht (valPrefix lead pre e ++ V).length pre (f + 1) Slots.empty (nameEq e ++ V) hpre ⟨c0, r0, h0, h0ws⟩
  unfold parseDigest
  rw [hskip, hf, hrun, paramLoop_value_reject t _ f st' e he V hV hrej]
  rfl

end Mhd.Auth
