import Mhd.Proofs.ReplyMain
set_option linter.unusedSimpArgs false
set_option linter.unusedVariables false
namespace Mhd.Reply
open Mhd.ReplyStr Mhd.Resp
open Mhd.Http (FieldOK NameOK NoCRLF normField ciEq lower isOWS)

/-! ### user headers: verbatim, once, in insertion order -/

def managed (n : Bytes) : Bool :=
  nameIs n sConnection || nameIs n sTransferEncoding || nameIs n sContentLength || nameIs n sDate

theorem lower_sDate : sDate.map lower = Mhd.Http.nDate := by decide

theorem managed_bridge (n : Bytes) : Mhd.Http.managedName n = managed n := by
  unfold Mhd.Http.managedName managed
  rw [Mhd.Bridge.nameIs_iff n _ _ lower_sConn, Mhd.Bridge.nameIs_iff n _ _ lower_sTE,
      Mhd.Bridge.nameIs_iff n _ _ lower_sCL, Mhd.Bridge.nameIs_iff n _ _ lower_sDate]

def userHdrs (hs : List Hdr) : List Field :=
  (hs.filter fun h => h.kind == .header && ! managed h.name).map fun h => ⟨h.name, h.value⟩

theorem userLoop_unmanaged : ∀ (hs : List Hdr) (st : UH), st.addClose = false → st.addKA = false →
    (userFieldsLoop false hs st).filter (fun f => ! managed f.name) = userHdrs hs
  | [], st, _, _ => by simp [userFieldsLoop, userHdrs]
  | h :: rest, st, ha, hb => by
    simp only [userFieldsLoop]
    by_cases hk : (h.kind != Kind.header) = true
    · have hk' : (h.kind == Kind.header) = false := by cases hx : h.kind <;> simp_all
      simp only [hk, if_true]
      rw [userLoop_unmanaged rest st ha hb]
      simp [userHdrs, List.filter_cons, hk']
    · have hk' : (h.kind == Kind.header) = true := by cases hx : h.kind <;> simp_all
      simp only [hk, Bool.false_eq_true, if_false]
      by_cases h1 : (st.filterTE && nameIs h.name sTransferEncoding) = true
      · rw [Bool.and_eq_true] at h1
        simp only [h1.1, h1.2, Bool.and_self, if_true]
        rw [userLoop_unmanaged rest { st with filterTE := false } ha hb]
        simp [userHdrs, List.filter_cons, hk', managed, h1.2]
      · simp only [h1, Bool.false_eq_true, if_false]
        by_cases h2 : (st.filterCL && nameIs h.name sContentLength) = true
        · rw [Bool.and_eq_true] at h2
          simp only [h2.1, h2.2, Bool.and_self, if_true]
          rw [userLoop_unmanaged rest { st with filterCL := !false } ha hb]
          simp [userHdrs, List.filter_cons, hk', managed, h2.2]
        · simp only [h2, Bool.false_eq_true, if_false, ha, hb, List.nil_append]
          rw [List.filter_cons]
          rw [userLoop_unmanaged rest _ rfl rfl]
          simp only [userHdrs, List.filter_cons, hk', Bool.true_and]
          by_cases hm : managed h.name = true
          · simp [hm]
          · have : managed h.name = false := by simpa using hm
            simp [this]

theorem managed_conn : managed sConnection = true := by decide
theorem managed_te : managed sTransferEncoding = true := by decide
theorem managed_cl : managed sContentLength = true := by decide
theorem managed_date : managed sDate = true := by decide

theorem allFields_unmanaged (c : Conn) (r : Resp) (date : Option Bytes) (ka : KA) (props : Props) (hinv : Inv r) :
    (allFields c r date ka props).filter (fun f => ! managed f.name) = userHdrs r.hdrs := by
  unfold allFields
  simp only [List.filter_append]
  have hd : (dateFields c r date).filter (fun f => ! managed f.name) = [] := by
    unfold dateFields
    split
    · cases date <;> simp [managed_date]
    · rfl
  have hc : (connFields c r ka).filter (fun f => ! managed f.name) = [] := by
    unfold connFields
    split
    · split
      · simp [managed_conn]
      · split <;> simp [managed_conn]
    · rfl
  have hb : (bodyFields r props).filter (fun f => ! managed f.name) = [] := by
    unfold bodyFields
    split
    · split
      · split <;> simp [managed_te]
      · split
        · split <;> simp [managed_cl]
        · rfl
    · rfl
  rw [hd, hc, hb]
  simp only [List.nil_append, List.append_nil]
  obtain ⟨h1, h2⟩ := userFields_unfold c r ka props hinv
  by_cases hcn : r.fa.connHdr = true
  · obtain ⟨v, rest, st, hh, hu, ha, hb'⟩ := h1 hcn
    rw [hu, List.filter_cons]
    simp only [managed_conn, Bool.not_true, Bool.false_eq_true, if_false]
    rw [userLoop_unmanaged rest st ha hb', hh]
    simp [userHdrs, List.filter_cons, managed_conn]
  · have hcn' : r.fa.connHdr = false := by simpa using hcn
    obtain ⟨st, hu, ha, hb'⟩ := h2 hcn'
    rw [hu, userLoop_unmanaged r.hdrs st ha hb']

/-- in the grammar's terms -/
theorem parsed_unmanaged (F : List Field) :
    (((F.map toHttp).map normField).filter fun f => ! Mhd.Http.managedName f.name) =
      ((F.filter fun f => ! managed f.name).map toHttp).map normField := by
  induction F with
  | nil => rfl
  | cons f t ih =>
    have e : Mhd.Http.managedName (normField (toHttp f)).name = managed f.name := managed_bridge f.name
    simp only [List.map_cons, List.filter_cons, e]
    split
    · simp only [List.map_cons, ih]
    · exact ih

/-! ### when the daemon closes -/

theorem ka_cases (c : Conn) (r : Resp) (code : Nat) (hu : r.upgrade = false) :
    (setupReplyProperties c r code).1 = .mustClose ∨
    ((setupReplyProperties c r code).1 = .useKeepalive ∧ c.readClosed = false ∧ c.discardRequest = false ∧
      r.fa.connClose = false) := by
  have hk : keepalivePossible c r = .mustClose ∨
      (keepalivePossible c r = .useKeepalive ∧ c.readClosed = false ∧ c.discardRequest = false ∧ r.fa.connClose = false) := by
    unfold keepalivePossible
    simp only [hu, Bool.false_eq_true, if_false]
    split
    · left; rfl
    · split
      · left; rfl
      · rename_i hrd
        simp at hrd
        split
        · left; rfl
        · split
          · left; rfl
          · rename_i hcc
            have hcc' : r.fa.connClose = false := by simpa using hcc
            split
            · left; rfl
            · split
              · left; rfl
              · split
                · split
                  · right; exact ⟨rfl, hrd.1, hrd.2, hcc'⟩
                  · left; rfl
                · split
                  · right; exact ⟨rfl, hrd.1, hrd.2, hcc'⟩
                  · left; rfl
  unfold setupReplyProperties
  simp only
  by_cases hb : (isReplyBodyNeeded c.mthd code != BodyUse.none) = true
  · simp only [hb, if_true]
    generalize (r.totalSize == Mhd.Gen.Reply.sizeUnknown &&
      !(if (r.totalSize == Mhd.Gen.Reply.sizeUnknown || r.fa.transEnc) = true then
          if (!ver11Compat c.ver) = true then false
          else if (r.flags.http10Strict || r.flags.http10Server) = true then false else true
        else false)) = X
    cases X
    · simpa using hk
    · left; rfl
  · simp only [hb, Bool.false_eq_true, if_false]
    exact hk


theorem closesAfter_iff (c : Conn) (r : Resp) (code : Nat) (hu : r.upgrade = false) :
    closesAfter c (setupReplyProperties c r code).1 = true ↔ (setupReplyProperties c r code).1 = .mustClose := by
  unfold closesAfter
  rcases ka_cases c r code hu with h | ⟨h1, h2, h3, _⟩
  · simp [h]
  · simp [h1, h2, h3]
end Mhd.Reply
