/-
  Header-section parser: shape of the result with respect to the buffer positions
  (needed by the composition `Mhd.ConnRead`; C02's own theorems speak about the strings).
-/
import Mhd.Proofs.ReqStable
import Mhd.Proofs.ReqTargetRT
import Mhd.Model.ConnRead
namespace Mhd.Req
namespace HSP
open Mhd.Gen

/-- the only way `get_req_header` reports the end of the header section: an empty line of
    `lineLen` (1 or 2) bytes at the read position, inside the received data -/
theorem handleFieldEol_done (F : FLFlags) (s : HS) (chr : UInt8) (fs : Nat) (hi : Inv s)
    (hle : s.rb + (s.p + (if chr == cCR then 2 else 1)) ≤ s.buf.size)
    (hlt : s.p ≠ 0 → s.rb + (s.p + (if chr == cCR then 2 else 1)) < s.buf.size)
    (hd : Headers) (hdd : handleFieldEol F s chr fs = .done (.ok hd)) :
    ∃ lineLen, 1 ≤ lineLen ∧ s.rb + lineLen ≤ s.buf.size ∧ finishHeaders (s.consume lineLen) fs = .done (.ok hd) := by
  unfold handleFieldEol at hdd
  dsimp only at hdd
  generalize hL : s.p + (if (chr == cCR) = true then 2 else 1) = lineLen at hle hlt hdd
  have hpl : s.p < lineLen := by rw [← hL]; split <;> omega
  by_cases hp0 : (s.p == 0) = true
  · simp only [hp0, ↓reduceIte] at hdd
    exact ⟨lineLen, by omega, hle, hdd⟩
  · exfalso
    simp only [hp0, ↓reduceIte, Bool.false_eq_true] at hdd
    simp only [beq_iff_eq] at hp0
    have hl := hlt hp0
    cases hn : s.buf[s.rb + lineLen]? with
    | none => rw [Array.getElem?_eq_none_iff] at hn; omega
    | some nxt =>
      rw [hn] at hdd
      dsimp only at hdd
      split at hdd
      · split at hdd
        · simp only [HS.err] at hdd; cases hdd
        · have hib : s.rb + s.p < s.buf.size := by omega
          rw [wr_in hib] at hdd
          split at hdd
          next hcr =>
            have hi2 : s.rb + s.p + 1 < (s.buf.setIfInBounds (s.rb + s.p) cSP).size := by
              simp only [Array.size_setIfInBounds]; rw [← hL, if_pos hcr] at hl; omega
            rw [wr_in hi2] at hdd
            exact onFieldWsp_notdone F _ hd hdd
          next => exact onFieldWsp_notdone F _ hd hdd
      · unfold onLineEnd at hdd
        have hws := hi.hws
        repeat' split at hdd
        all_goals first
          | (cases hdd; done)
          | (simp only [HS.err] at hdd; cases hdd; done)
          | (unfold wr at hdd; split at hdd <;> cases hdd)

theorem hsStep_done (F : FLFlags) (fs : Nat) (s : HS) (hi : Inv s) (hd : Headers)
    (hdd : hsStep F fs s = .done (.ok hd)) :
    ∃ lineLen, 1 ≤ lineLen ∧ s.rb + lineLen ≤ s.buf.size ∧ finishHeaders (s.consume lineLen) fs = .done (.ok hd) := by
  unfold hsStep at hdd
  cases hc : s.buf[s.rb + s.p]? with
  | none => rw [hc] at hdd; cases hdd
  | some chr =>
    rw [hc] at hdd
    have hb := fill_gt hc
    dsimp only at hdd
    by_cases hcr : (chr == cCR) = true
    · simp only [hcr, ↓reduceIte] at hdd
      by_cases hnm : ((s.p != 0 && decide (s.p + 2 ≥ s.fill)) || (s.p == 0 && decide (s.p + 2 > s.fill))) = true
      · simp only [hnm, ↓reduceIte] at hdd; cases hdd
      · simp only [hnm, ↓reduceIte, Bool.false_eq_true] at hdd
        simp only [HS.fill, Bool.or_eq_true, Bool.and_eq_true, bne_iff_ne, ne_eq, decide_eq_true_eq, beq_iff_eq, not_or,
          not_and] at hnm
        have hle : s.rb + (s.p + (if (chr == cCR) = true then 2 else 1)) ≤ s.buf.size := by
          rw [if_pos hcr]; by_cases hp : s.p = 0
          · have := hnm.2 hp; simp at this; omega
          · have := hnm.1 hp; simp at this; omega
        have hlt : s.p ≠ 0 → s.rb + (s.p + (if (chr == cCR) = true then 2 else 1)) < s.buf.size := by
          intro hp; rw [if_pos hcr]; have := hnm.1 hp; simp at this; omega
        have hi1 : s.rb + s.p + 1 < s.buf.size := by rw [if_pos hcr] at hle; omega
        cases hn : s.buf[s.rb + s.p + 1]? with
        | none => rw [Array.getElem?_eq_none_iff] at hn; omega
        | some nxt =>
          rw [hn] at hdd
          dsimp only at hdd
          split at hdd
          · exact handleFieldEol_done F s chr fs hi hle hlt hd hdd
          · split at hdd
            · rw [wr_in hb] at hdd; exact absurd hdd (onFieldWsp_notdone F _ hd)
            · split at hdd
              · simp only [HS.err] at hdd; cases hdd
              · exact absurd hdd (onFieldChar_notdone F s chr hd)
    · simp only [hcr, ↓reduceIte, Bool.false_eq_true] at hdd
      by_cases hlf : (chr == cLF) = true
      · simp only [hlf, ↓reduceIte] at hdd
        split at hdd
        · by_cases hnm : (s.p != 0 && decide (s.p + 1 ≥ s.fill)) = true
          · simp only [hnm, ↓reduceIte] at hdd; cases hdd
          · simp only [hnm, ↓reduceIte, Bool.false_eq_true] at hdd
            simp only [HS.fill, Bool.and_eq_true, bne_iff_ne, ne_eq, decide_eq_true_eq, not_and] at hnm
            exact handleFieldEol_done F s chr fs hi (by rw [if_neg hcr]; omega)
              (by intro hp; rw [if_neg hcr]; have := hnm hp; simp at this; omega) hd hdd
        · simp only [HS.err] at hdd; cases hdd
      · simp only [hlf, ↓reduceIte, Bool.false_eq_true] at hdd
        split at hdd
        · exact absurd hdd (onFieldWsp_notdone F _ hd)
        · split at hdd
          · split at hdd
            · simp only [HS.err] at hdd; cases hdd
            · rw [wr_in hb] at hdd; exact absurd hdd (onFieldWsp_notdone F _ hd)
          · exact absurd hdd (onFieldChar_notdone F s chr hd)

/-- shape of the finished header section with respect to the buffer positions -/
theorem hsStep_done_shape (F : FLFlags) (fs : Nat) (s : HS) (hi : Inv s) (hd : Headers)
    (hdd : hsStep F fs s = .done (.ok hd)) :
    hd.buf.size + hd.shifted = s.buf.size ∧ s.rb ≤ hd.rb + hd.shifted ∧ hd.rb + hd.shifted ≤ s.buf.size ∧
      hd.rb ≤ hd.buf.size := by
  obtain ⟨lineLen, h1, h2, hf⟩ := hsStep_done F fs s hi hd hdd
  have hrb := hi.hrb
  have hle : lastElemEnd (s.consume lineLen) + 1 ≤ (s.consume lineLen).rb := by
    rw [lastElemEnd_consume]; have := lastEnd_le s hi.hver hi.helems; show _ ≤ s.rb + lineLen; omega
  have hi2 : (s.consume lineLen).rb - 2 < (s.consume lineLen).buf.size := by
    show s.rb + lineLen - 2 < s.buf.size; omega
  cases hb : (s.consume lineLen).buf[(s.consume lineLen).rb - 2]? with
  | none => rw [Array.getElem?_eq_none_iff] at hb; omega
  | some b2 =>
    rw [finishHeaders_eq (s.consume lineLen) fs b2 (by show 2 ≤ s.rb + lineLen; omega) hb hle] at hf
    have e1 : (s.consume lineLen).rb = s.rb + lineLen := rfl
    have e2 : (s.consume lineLen).buf = s.buf := rfl
    split at hf
    · simp only [Step.done.injEq, HDone.ok.injEq] at hf
      subst hf
      simp only [e1, e2] at hle ⊢
      simp only [Array.size_append, Array.size_extract]
      omega
    · simp only [Step.done.injEq, HDone.ok.injEq] at hf
      subst hf
      simp only [e1, e2]
      omega
end HSP
end Mhd.Req
