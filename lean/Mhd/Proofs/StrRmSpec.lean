/-
  C17 reference for the token *editors* (`MHD_str_remove_token_caseless_`,
  `MHD_str_remove_tokens_caseless_`), stated against the tokenizer
  `tokensOf : Bytes → List Bytes` of `Mhd.Proofs.StrTokSpec` (split on ',', trim
  SP/HT), plus the pure list lemmas the proofs about the model need.
-/
import Mhd.Proofs.StrTokSpec

namespace Mhd.Str

/-! ### reference -/

def notWsB (c : UInt8) : Bool := !isWs c

/-- the words of an element: maximal runs of characters other than SP/HT -/
def wordsAux : Bytes → Bytes → List Bytes
  | acc, [] => if acc = [] then [] else [acc.reverse]
  | acc, x :: t =>
    if isWs x then (if acc = [] then wordsAux [] t else acc.reverse :: wordsAux [] t)
    else wordsAux (x :: acc) t

def wordsOf (e : Bytes) : List Bytes := wordsAux [] e

/-- `sep.intercalate` -/
def joinWith (sep : Bytes) : List Bytes → Bytes
  | [] => []
  | [e] => e
  | e :: e' :: es => e ++ sep ++ joinWith sep (e' :: es)

/-- an element with every run of spaces/tabs replaced by one space (and none at the ends) -/
def normElem (e : Bytes) : Bytes := joinWith [0x20] (wordsOf e)

/-- the elements that survive the removal of `tok`: non-empty and not caselessly equal to it -/
def keptElems (s tok : Bytes) : List Bytes :=
  (tokensOf s).filter (fun e => !e.isEmpty && !ceqBytes e tok)

/-- reference output of `MHD_str_remove_token_caseless_` -/
def removeTokenOut (s tok : Bytes) : Bytes := joinWith [0x2c, 0x20] ((keptElems s tok).map normElem)

theorem joinWith_eq_intercalate (sep : Bytes) (l : List Bytes) : joinWith sep l = sep.intercalate l := by
  induction l with
  | nil => simp [joinWith, List.intercalate]
  | cons e t ih =>
    cases t with
    | nil => simp [joinWith, List.intercalate]
    | cons e' es =>
      rw [joinWith, ih]
      simp [List.intercalate, List.intersperse]

/-! ### emitting a list of elements after some have been written -/

/-- what is still to be written for the elements `ks`; `first` = nothing written yet -/
def emitCS (first : Bool) : List Bytes → Bytes
  | [] => []
  | k :: ks => (if first then [] else [0x2c, 0x20]) ++ k ++ emitCS false ks

theorem joinWith_cons (sep : Bytes) (k : Bytes) (ks : List Bytes) :
    joinWith sep (k :: ks) = k ++ (if ks = [] then [] else sep ++ joinWith sep ks) := by
  cases ks with
  | nil => simp [joinWith]
  | cons e es => simp [joinWith]

theorem emitCS_false (ks : List Bytes) :
    emitCS false ks = if ks = [] then [] else [0x2c, 0x20] ++ joinWith [0x2c, 0x20] ks := by
  induction ks with
  | nil => rfl
  | cons k t ih =>
    rw [emitCS, ih, joinWith_cons]
    cases t <;> simp

theorem joinWith_eq_emit (ks : List Bytes) : joinWith [0x2c, 0x20] ks = emitCS true ks := by
  cases ks with
  | nil => rfl
  | cons k t => rw [emitCS, emitCS_false, joinWith_cons]; simp

/-! ### words -/

theorem wordsAux_ws_run (acc w : Bytes) (hw : ∀ x ∈ w, isWs x = true) :
    wordsAux acc w = if acc = [] then [] else [acc.reverse] := by
  induction w generalizing acc with
  | nil => rfl
  | cons x t ih =>
    have hx := hw x List.mem_cons_self
    have ht := ih [] (fun y hy => hw y (List.mem_cons_of_mem _ hy))
    simp only [if_true] at ht
    rw [wordsAux]
    by_cases ha : acc = [] <;> simp [hx, ha, ht]

/-- a word prefix moves into the accumulator -/
theorem wordsAux_word_prefix (acc p u : Bytes) (hp : ∀ x ∈ p, isWs x = false) :
    wordsAux acc (p ++ u) = wordsAux (p.reverse ++ acc) u := by
  induction p generalizing acc with
  | nil => rfl
  | cons x t ih =>
    have hx := hp x List.mem_cons_self
    rw [List.cons_append, wordsAux]
    simp only [hx, Bool.false_eq_true, if_false]
    rw [ih (x :: acc) (fun y hy => hp y (List.mem_cons_of_mem _ hy))]
    simp

/-- leading whitespace contributes no word (empty accumulator) -/
theorem wordsOf_ws_prefix (w u : Bytes) (hw : ∀ x ∈ w, isWs x = true) : wordsOf (w ++ u) = wordsOf u := by
  induction w with
  | nil => rfl
  | cons x t ih =>
    have hx := hw x List.mem_cons_self
    unfold wordsOf at ih ⊢
    rw [List.cons_append, wordsAux]
    simp only [hx, if_true]
    exact ih (fun y hy => hw y (List.mem_cons_of_mem _ hy))

/-- whitespace after a non-empty accumulator closes the word -/
theorem wordsAux_ws_then (acc w u : Bytes) (ha : acc ≠ []) (hw : ∀ x ∈ w, isWs x = true) (hne : w ≠ []) :
    wordsAux acc (w ++ u) = acc.reverse :: wordsOf u := by
  cases w with
  | nil => exact absurd rfl hne
  | cons x t =>
    have hx := hw x List.mem_cons_self
    rw [List.cons_append, wordsAux]
    simp only [hx, if_true, ha, if_false]
    congr 1
    exact wordsOf_ws_prefix t u (fun y hy => hw y (List.mem_cons_of_mem _ hy))

theorem notWsB_false_iff (x : UInt8) : notWsB x = false ↔ isWs x = true := by simp [notWsB]
theorem notWsB_true_iff (x : UInt8) : notWsB x = true ↔ isWs x = false := by simp [notWsB]

theorem split_word_ws (u : Bytes) :
    u = u.takeWhile notWsB ++ ((u.dropWhile notWsB).takeWhile isWs ++ (u.dropWhile notWsB).dropWhile isWs) := by
  rw [List.takeWhile_append_dropWhile, List.takeWhile_append_dropWhile]

theorem takeWhile_mem (p : UInt8 → Bool) (l : Bytes) : ∀ x ∈ l.takeWhile p, p x = true := by
  induction l with
  | nil => intro x hx; simp at hx
  | cons a t ih =>
    intro x hx
    by_cases ha : p a = true
    · simp only [List.takeWhile, ha] at hx
      rcases List.mem_cons.mp hx with h | h
      · rw [h]; exact ha
      · exact ih x h
    · simp only [Bool.not_eq_true] at ha
      simp [List.takeWhile, ha] at hx

theorem dropWhile_head_not (p : UInt8 → Bool) (l : Bytes) :
    l.dropWhile p = [] ∨ ∃ z b', l.dropWhile p = z :: b' ∧ p z = false := by
  induction l with
  | nil => left; rfl
  | cons x t ih =>
    by_cases hx : p x = true
    · simp only [List.dropWhile, hx]; exact ih
    · simp only [Bool.not_eq_true] at hx
      right; exact ⟨x, t, by simp [List.dropWhile, hx], hx⟩

/-- the central decomposition: first word (joined to the accumulator), then the words of
    what follows the whitespace after it -/
theorem wordsAux_split (acc u : Bytes) :
    wordsAux acc u =
      (if acc.reverse ++ u.takeWhile notWsB = [] then [] else [acc.reverse ++ u.takeWhile notWsB]) ++
        wordsOf ((u.dropWhile notWsB).dropWhile isWs) := by
  have hwd : ∀ x ∈ u.takeWhile notWsB, isWs x = false := by
    intro x hx; exact (notWsB_true_iff x).mp (takeWhile_mem notWsB u x hx)
  have hws : ∀ x ∈ (u.dropWhile notWsB).takeWhile isWs, isWs x = true := takeWhile_mem isWs _
  conv => lhs; rw [split_word_ws u]
  rw [wordsAux_word_prefix acc _ _ hwd]
  by_cases hrun : (u.dropWhile notWsB).takeWhile isWs = []
  · -- no whitespace follows: the input ends with the word
    have hend : (u.dropWhile notWsB).dropWhile isWs = [] := by
      rcases dropWhile_head_not notWsB u with h | ⟨z, b', h, hz⟩
      · rw [h]; rfl
      · rw [h] at hrun
        have : isWs z = true := (notWsB_false_iff z).mp hz
        simp [List.takeWhile, this] at hrun
    rw [hrun, hend, List.nil_append]
    simp only [wordsAux, wordsOf]
    by_cases h : (u.takeWhile notWsB).reverse ++ acc = []
    · have h' : acc.reverse ++ u.takeWhile notWsB = [] := by
        simp only [List.append_eq_nil_iff, List.reverse_eq_nil_iff] at h ⊢; exact ⟨h.2, h.1⟩
      simp [h, h']
    · have h' : ¬ acc.reverse ++ u.takeWhile notWsB = [] := by
        intro hh; apply h
        simp only [List.append_eq_nil_iff, List.reverse_eq_nil_iff] at hh ⊢; exact ⟨hh.2, hh.1⟩
      simp [h, h']
  · by_cases h : (u.takeWhile notWsB).reverse ++ acc = []
    · have h' : acc.reverse ++ u.takeWhile notWsB = [] := by
        simp only [List.append_eq_nil_iff, List.reverse_eq_nil_iff] at h ⊢; exact ⟨h.2, h.1⟩
      rw [h, h']
      simp only [if_true, List.nil_append]
      exact wordsOf_ws_prefix _ _ hws
    · have h' : ¬ acc.reverse ++ u.takeWhile notWsB = [] := by
        intro hh; apply h
        simp only [List.append_eq_nil_iff, List.reverse_eq_nil_iff] at hh ⊢; exact ⟨hh.2, hh.1⟩
      rw [wordsAux_ws_then _ _ _ h hws hrun]
      simp [h']

theorem wordsOf_split (u : Bytes) :
    wordsOf u = (if u.takeWhile notWsB = [] then [] else [u.takeWhile notWsB]) ++
      wordsOf ((u.dropWhile notWsB).dropWhile isWs) := by
  show wordsAux [] u = _
  rw [wordsAux_split]; rfl

/-- trailing whitespace contributes no word -/
theorem wordsAux_ws_suffix (acc e w : Bytes) (hw : ∀ x ∈ w, isWs x = true) : wordsAux acc (e ++ w) = wordsAux acc e := by
  induction e generalizing acc with
  | nil => rw [List.nil_append, wordsAux_ws_run acc w hw]; rfl
  | cons x t ih =>
    rw [List.cons_append, wordsAux, wordsAux]
    by_cases hx : isWs x = true
    · by_cases ha : acc = [] <;> simp [hx, ha, ih]
    · simp only [Bool.not_eq_true] at hx
      simp [hx, ih]

theorem trimR_append (e : Bytes) : ∃ w, e = trimR e ++ w ∧ ∀ x ∈ w, isWs x = true := by
  refine ⟨(e.reverse.takeWhile isWs).reverse, ?_, ?_⟩
  · unfold trimR
    rw [← List.reverse_append, List.takeWhile_append_dropWhile, List.reverse_reverse]
  · intro x hx
    exact takeWhile_mem isWs _ x (List.mem_reverse.mp hx)

theorem wordsOf_trimR (e : Bytes) : wordsOf (trimR e) = wordsOf e := by
  obtain ⟨w, he, hw⟩ := trimR_append e
  conv => rhs; rw [he]
  exact (wordsAux_ws_suffix [] _ w hw).symm

theorem wordsOf_trimWs (e : Bytes) : wordsOf (trimWs e) = wordsOf e := by
  unfold trimWs
  rw [wordsOf_trimR]
  have h := List.takeWhile_append_dropWhile (p := isWs) (l := e)
  conv => rhs; rw [← h]
  exact (wordsOf_ws_prefix _ _ (takeWhile_mem isWs e)).symm

theorem normElem_trimWs (e : Bytes) : normElem (trimWs e) = normElem e := by
  unfold normElem; rw [wordsOf_trimWs]

/-! ### what the "copy the rest of the element" loop writes -/

/-- the first word of `E`, then — if more words follow — a space and the remaining words joined -/
def restOutput (E : Bytes) : Bytes :=
  E.takeWhile notWsB ++
    (if wordsOf ((E.dropWhile notWsB).dropWhile isWs) = [] then []
     else 0x20 :: joinWith [0x20] (wordsOf ((E.dropWhile notWsB).dropWhile isWs)))

theorem wordsOf_ne_nil_of_head (E : Bytes) (x : UInt8) (t : Bytes) (h : E = x :: t) (hx : isWs x = false) :
    wordsOf E ≠ [] := by
  rw [wordsOf_split, h]
  have : notWsB x = true := (notWsB_true_iff x).mpr hx
  simp [List.takeWhile, this]

/-- for `E` empty or starting with a non-space, `restOutput E` is the normalised `E` -/
theorem restOutput_eq_norm (E : Bytes) (h : E = [] ∨ ∃ x t, E = x :: t ∧ isWs x = false) :
    restOutput E = joinWith [0x20] (wordsOf E) := by
  rcases h with rfl | ⟨x, t, rfl, hx⟩
  · simp [restOutput, wordsOf, wordsAux, joinWith]
  · have hnw : notWsB x = true := (notWsB_true_iff x).mpr hx
    have hne : (x :: t).takeWhile notWsB ≠ [] := by simp [List.takeWhile, hnw]
    rw [wordsOf_split (x :: t)]
    simp only [hne, if_false]
    unfold restOutput
    rw [List.singleton_append, joinWith_cons]
    rfl

/-- a word prefix `p` already copied, the rest loop then writes `restOutput u` -/
theorem norm_prefix (p u : Bytes) (hp : ∀ x ∈ p, isWs x = false) (hne : p ≠ []) :
    joinWith [0x20] (wordsOf (p ++ u)) = p ++ restOutput u := by
  unfold wordsOf
  rw [wordsAux_word_prefix [] p u hp, List.append_nil, wordsAux_split]
  have : ¬ p ++ u.takeWhile notWsB = [] := by simp [hne]
  simp only [List.reverse_reverse, this, if_false]
  rw [List.singleton_append, joinWith_cons]
  unfold restOutput
  simp [List.append_assoc]

/-! ### kept elements of a suffix -/

def keptOut (tok r : Bytes) : List Bytes := (keptElems r tok).map normElem

theorem keptOut_eq (tok r : Bytes) :
    keptOut tok r =
      (if !(trimWs (headElem r)).isEmpty && !ceqBytes (trimWs (headElem r)) tok
        then [normElem (trimWs (headElem r))] else []) ++
      (match restElems r with
       | [] => []
       | _ :: r' => keptOut tok r') := by
  unfold keptOut keptElems tokensOf
  rw [splitComma_eq]
  cases restElems r <;> (simp only [List.map_cons, List.filter_cons]; split <;> simp)

theorem keptOut_nil (tok : Bytes) : keptOut tok [] = [] := by
  rw [keptOut_eq]; simp [headElem, restElems, trimWs, trimR]

theorem keptOut_comma (tok r' : Bytes) : keptOut tok (0x2c :: r') = keptOut tok r' := by
  rw [keptOut_eq]; simp [headElem, restElems, notComma, trimWs, trimR]

theorem keptOut_rest (tok r : Bytes) :
    keptOut tok r =
      (if !(trimWs (headElem r)).isEmpty && !ceqBytes (trimWs (headElem r)) tok
        then [normElem (trimWs (headElem r))] else []) ++ keptOut tok (restElems r) := by
  rw [keptOut_eq]
  rcases restElems_eq r with h0 | ⟨r', h1⟩
  · rw [h0, keptOut_nil]
  · rw [h1, keptOut_comma]

theorem keptOut_skip (tok r : Bytes) : keptOut tok r = keptOut tok (r.dropWhile isWsComma) := by
  induction r with
  | nil => rfl
  | cons x t ih =>
    by_cases hx : isWsComma x = true
    · simp only [List.dropWhile, hx]
      rw [← ih]
      by_cases hc : x = 0x2c
      · subst hc; exact keptOut_comma tok t
      · have hws : isWs x = true := by
          simp only [isWsComma, Bool.or_eq_true, beq_iff_eq] at hx
          simp only [isWs, Bool.or_eq_true, beq_iff_eq]
          rcases hx with (h1 | h1) | h1
          · exact Or.inl h1
          · exact Or.inr h1
          · exact absurd h1 hc
        rw [keptOut_eq tok (x :: t), keptOut_eq tok t, headElem_cons x t hc, restElems_cons x t hc,
          trimWs_cons_ws x _ hws]
    · simp only [Bool.not_eq_true] at hx
      simp [List.dropWhile, hx]

end Mhd.Str
