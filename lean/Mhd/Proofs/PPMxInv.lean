/-
  Round trip of the multipart machine: rendered bodies (`Item`: a form field, or a nested
  `multipart/mixed` container with its files), the encoding re-bracketed the way the machine consumes
  it (`afterB`, `afterN`), the side conditions (`ItemOk`), and the invariant `MInv` that relates the
  state of the post processor to the rest of a well-formed `multipart/form-data` stream.
-/
import Mhd.Proofs.PPMpScan
namespace Mhd.PP

/-! ### rendered bodies -/

/-- one body part as it is rendered: its header lines (without CRLF, any spelling), the metadata the
    application must see, and the value -/
structure RPart where
  lines : List Bytes
  md : Meta
  value : Bytes

inductive Item
  /-- a top-level form field -/
  | field (p : RPart)
  /-- a nested `multipart/mixed` container: its own header lines, the field name, the complete
      Content-Type value `ct` (it ends with `boundary=nb`), the nested boundary, the files -/
  | mixed (lines : List Bytes) (name ct nb : Bytes) (inner : List RPart)

def rfield (p : RPart) : Meta × Bytes := (p.md, p.value)

/-- the fields the application must see, in order -/
def flat : List Item → List (Meta × Bytes)
  | [] => []
  | .field p :: r => rfield p :: flat r
  | .mixed _ _ _ _ inner :: r => inner.map rfield ++ flat r

theorem flat_append : ∀ (a b : List Item), flat (a ++ b) = flat a ++ flat b
  | [], b => rfl
  | .field p :: r, b => by simp [flat, flat_append r b]
  | .mixed _ _ _ _ inner :: r, b => by simp [flat, flat_append r b]

def linesEnc : List Bytes → Bytes
  | [] => []
  | ln :: rest => ln ++ (cCR :: cLF :: linesEnc rest)

def Item.lines : Item → List Bytes
  | .field p => p.lines
  | .mixed ls _ _ _ _ => ls

/-- the metadata strings after the headers of the item have been read -/
def Item.md : Item → Meta
  | .field p => p.md
  | .mixed _ name ct _ _ => ⟨some name, none, some ct, none⟩

/-- what follows `"--" ++ N` inside a nested container; `tl` = what follows its closing delimiter line -/
def afterN (N tl : Bytes) : List RPart → Bytes
  | [] => cDash :: cDash :: cCR :: cLF :: tl
  | q :: qs => cCR :: cLF :: (linesEnc q.lines ++ (cCR :: cLF :: (q.value ++ sCRLFDashDash ++ (N ++ afterN N tl qs))))

/-- what follows `"--" ++ B` at the top level -/
def afterB (B : Bytes) : List Item → Bytes
  | [] => [cDash, cDash, cCR, cLF]
  | .field p :: rest =>
    cCR :: cLF :: (linesEnc p.lines ++ (cCR :: cLF :: (p.value ++ sCRLFDashDash ++ (B ++ afterB B rest))))
  | .mixed ls _ _ nb inner :: rest =>
    cCR :: cLF :: (linesEnc ls ++ (cCR :: cLF :: (sDashDash ++ nb ++ afterN nb (sDashDash ++ B ++ afterB B rest) inner)))

/-- what follows the blank line after the headers of an item -/
def itemBody (B : Bytes) (it : Item) (rest : List Item) : Bytes :=
  match it with
  | .field p => p.value ++ sCRLFDashDash ++ (B ++ afterB B rest)
  | .mixed _ _ _ nb inner => sDashDash ++ nb ++ afterN nb (sDashDash ++ B ++ afterB B rest) inner

theorem afterB_cons (B : Bytes) (it : Item) (rest : List Item) :
    afterB B (it :: rest) = cCR :: cLF :: (linesEnc it.lines ++ (cCR :: cLF :: itemBody B it rest)) := by
  cases it <;> rfl

/-- the complete body: `--B CRLF headers CRLF CRLF body CRLF … --B-- CRLF` -/
def encodeItems (B : Bytes) (items : List Item) : Bytes := sDashDash ++ B ++ afterB B items

/-! ### header lines → metadata -/

def PP.metaOf (pp : PP) : Meta := ⟨pp.cname, pp.cfile, pp.ctype, pp.cenc⟩

/-- what `process_multipart_headers` does to the four metadata strings for one header line -/
def hdrM (m : Meta) (line0 : Bytes) : Meta :=
  let line := cstr line0
  if eqCaselessN hdrDisposition line hdrDisposition.length then
    let rest := line.drop hdrDisposition.length
    { m with key := tryGetValue rest sName m.key, filename := tryGetValue rest sFilename m.filename }
  else
    { m with ctype := tryMatchHeader hdrType line m.ctype, enc := tryMatchHeader hdrEncoding line m.enc }

def none4 : Meta := ⟨none, none, none, none⟩

def LineOk (size : Nat) (ln : Bytes) : Prop := ln ≠ [] ∧ (∀ c ∈ ln, c ≠ cCR ∧ c ≠ cLF) ∧ ln.length < size

/-- the delimiter `CRLF--Bd` does not occur in `v` (nor across the end of `v` and the delimiter after it) -/
def FreshFor (Bd v : Bytes) : Prop :=
  occursIn (sCRLFDashDash ++ Bd) (v ++ (sCRLFDashDash ++ Bd).take ((sCRLFDashDash ++ Bd).length - 1)) = false

/-- side conditions on one rendered part: its header lines fit the buffer and contain no CR/LF, the line
    parser of `process_multipart_headers`, started with the strings `start`, reads the intended metadata
    from them, and the delimiter does not occur in the value -/
structure RPartOk (size : Nat) (start : Meta) (Bd : Bytes) (p : RPart) : Prop where
  lines : ∀ ln ∈ p.lines, LineOk size ln
  hdr : p.lines.foldl hdrM start = p.md
  fresh : FreshFor Bd p.value

inductive ItemOk (size : Nat) (B : Bytes) : Item → Prop
  | field (p : RPart) (h : RPartOk size none4 B p)
      (nm : ∀ ct, p.md.ctype = some ct → eqCaselessN ct sMixed sMixed.length = false) : ItemOk size B (.field p)
  | mixed (ls : List Bytes) (name ct nb : Bytes) (inner : List RPart) (hl : ∀ ln ∈ ls, LineOk size ln)
      (hh : ls.foldl hdrM none4 = ⟨some name, none, some ct, none⟩)
      (hm : eqCaselessN ct sMixed sMixed.length = true)
      (hb : (strstr sBoundaryEq ct).map (fun r => r.drop sBoundaryEq.length) = some nb)
      (n1 : 1 ≤ nb.length) (ns : nb.length + 4 < size)
      (hin : ∀ q ∈ inner, RPartOk size ⟨some name, none, none, none⟩ nb q) : ItemOk size B (.mixed ls name ct nb inner)

theorem ItemOk.lines_ok {size : Nat} {B : Bytes} {it : Item} (h : ItemOk size B it) :
    (∀ ln ∈ it.lines, LineOk size ln) ∧ it.lines.foldl hdrM none4 = it.md := by
  cases h with
  | field p h nm => exact ⟨h.lines, h.hdr⟩
  | mixed ls name ct nb inner hl hh _ _ _ _ _ => exact ⟨hl, hh⟩

structure Cfg where
  B : Bytes
  size : Nat
  items : List Item

structure CfgOk (c : Cfg) : Prop where
  b1 : 1 ≤ c.B.length
  bs : c.B.length + 4 < c.size
  items : ∀ it ∈ c.items, ItemOk c.size c.B it

/-! ### the invariant -/

def RnOk (rn : RN) (R X : Bytes) : Prop :=
  (rn = .inactive ∧ R = X) ∨ (rn = .optN ∧ R = cLF :: X) ∨ ((rn = .full ∨ rn = .dash) ∧ R = cCR :: cLF :: X)

/-- the `have` marks inside a nested container whose outer headers gave only the name -/
def Marks (pp : PP) (name : Bytes) : Prop :=
  pp.haveName = true ∧ pp.haveType = false ∧ pp.haveFile = false ∧ pp.haveEnc = false ∧ pp.cname = some name

/-- the main state against the rest `X` of the stream (after what `skip_rn` still has to eat) -/
inductive MMain (c : Cfg) (pp : PP) (X : Bytes) : Prop
  | bnd0 (pre : Bytes) (hs : pp.state = .init) (he : pp.evs = []) (hm : pp.metaOf = none4)
      (hX : X = pre ++ (sDashDash ++ c.B ++ afterB c.B c.items))
      (hpre : ∀ k, k < pre.length →
        slice (pre ++ (sDashDash ++ c.B ++ afterB c.B c.items)) k (k + (2 + c.B.length)) ≠ sDashDash ++ c.B)
  | hdr (done : List Item) (it : Item) (rest : List Item) (lines : List Bytes)
      (hsp : c.items = done ++ it :: rest) (hd : Delivers pp.evs (flat done))
      (hs : (pp.state = .processEntryHeaders ∧ lines.foldl hdrM pp.metaOf = it.md) ∨
            (pp.state = .performCleanup ∧ lines = it.lines))
      (hl : ∀ ln ∈ lines, LineOk c.size ln)
      (hX : X = linesEnc lines ++ (cCR :: cLF :: itemBody c.B it rest))
  | chk (done : List Item) (it : Item) (rest : List Item)
      (hsp : c.items = done ++ it :: rest) (hd : Delivers pp.evs (flat done))
      (hs : pp.state = .performCheckMultipart) (hm : pp.metaOf = it.md) (hi : pp.mustIkvi = true)
      (hX : X = itemBody c.B it rest)
  | val (done : List Item) (p : RPart) (rest : List Item) (off : Nat) (evs0 cur : List Event)
      (hsp : c.items = done ++ .field p :: rest) (hd : Delivers evs0 (flat done))
      (he : pp.evs = evs0 ++ cur) (hp : Pieces p.md 0 (p.value.take off) cur)
      (hi : cur ≠ [] ∨ pp.mustIkvi = true)
      (hs : pp.state = .processValueToBoundary) (hm : pp.metaOf = p.md) (ho : pp.valueOffset = off)
      (hle : off ≤ p.value.length)
      (hX : X = p.value.drop off ++ sCRLFDashDash ++ (c.B ++ afterB c.B rest))
  | ninit (done : List Item) (ls : List Bytes) (name ct nb : Bytes) (inner : List RPart) (rest : List Item)
      (hsp : c.items = done ++ .mixed ls name ct nb inner :: rest) (hd : Delivers pp.evs (flat done))
      (hs : pp.state = .nestedInit) (hn : pp.nested = some nb) (hm : pp.metaOf = ⟨some name, none, none, none⟩)
      (hX : X = sDashDash ++ nb ++ afterN nb (sDashDash ++ c.B ++ afterB c.B rest) inner)
  | nhdr (done : List Item) (ls : List Bytes) (name ct nb : Bytes) (inner : List RPart) (rest : List Item)
      (idone : List RPart) (q : RPart) (qs : List RPart) (lines : List Bytes)
      (hsp : c.items = done ++ .mixed ls name ct nb inner :: rest) (hin : inner = idone ++ q :: qs)
      (hd : Delivers pp.evs (flat done ++ idone.map rfield)) (hn : pp.nested = some nb)
      (hs : (pp.state = .nestedPerformMarking ∧ pp.metaOf = ⟨some name, none, none, none⟩ ∧ lines = q.lines) ∨
            (pp.state = .nestedPerformCleanup ∧ Marks pp name ∧ lines = q.lines) ∨
            (pp.state = .nestedProcessEntryHeaders ∧ Marks pp name ∧ lines.foldl hdrM pp.metaOf = q.md))
      (hl : ∀ ln ∈ lines, LineOk c.size ln)
      (hX : X = linesEnc lines ++ (cCR :: cLF :: (q.value ++ sCRLFDashDash ++
        (nb ++ afterN nb (sDashDash ++ c.B ++ afterB c.B rest) qs))))
  | nval (done : List Item) (ls : List Bytes) (name ct nb : Bytes) (inner : List RPart) (rest : List Item)
      (idone : List RPart) (q : RPart) (qs : List RPart) (off : Nat) (evs0 cur : List Event)
      (hsp : c.items = done ++ .mixed ls name ct nb inner :: rest) (hin : inner = idone ++ q :: qs)
      (hd : Delivers evs0 (flat done ++ idone.map rfield))
      (he : pp.evs = evs0 ++ cur) (hp : Pieces q.md 0 (q.value.take off) cur)
      (hi : cur ≠ [] ∨ pp.mustIkvi = true)
      (hs : pp.state = .nestedProcessValueToBoundary) (hn : pp.nested = some nb) (hmk : Marks pp name)
      (hm : pp.metaOf = q.md) (ho : pp.valueOffset = off) (hle : off ≤ q.value.length)
      (hX : X = q.value.drop off ++ sCRLFDashDash ++ (nb ++ afterN nb (sDashDash ++ c.B ++ afterB c.B rest) qs))
  | nnext (done rest : List Item) (hsp : c.items = done ++ rest) (hd : Delivers pp.evs (flat done))
      (hs : pp.state = .nextBoundary) (hX : X = sDashDash ++ c.B ++ afterB c.B rest)

inductive MInv (c : Cfg) (pp : PP) (R : Bytes) : Prop
  | main (X : Bytes) (hr : RnOk pp.skipRn R X) (hm : MMain c pp X)
  | fin0 (hd : Delivers pp.evs (flat c.items)) (hr : pp.skipRn = .dash) (hds : pp.dashState = .done)
      (hR : R = [cDash, cDash, cCR, cLF])
  | fin1 (hd : Delivers pp.evs (flat c.items)) (hr : pp.skipRn = .dash2) (hds : pp.dashState = .done)
      (hR : R = [cDash, cCR, cLF])
  | fin2 (hd : Delivers pp.evs (flat c.items)) (hs : pp.state = .done) (hr : RnOk pp.skipRn R [])
  | nfin0 (done rest : List Item) (hsp : c.items = done ++ rest) (hd : Delivers pp.evs (flat done))
      (hr : pp.skipRn = .dash) (hds : pp.dashState = .nextBoundary)
      (hR : R = cDash :: cDash :: cCR :: cLF :: (sDashDash ++ c.B ++ afterB c.B rest))
  | nfin1 (done rest : List Item) (hsp : c.items = done ++ rest) (hd : Delivers pp.evs (flat done))
      (hr : pp.skipRn = .dash2) (hds : pp.dashState = .nextBoundary)
      (hR : R = cDash :: cCR :: cLF :: (sDashDash ++ c.B ++ afterB c.B rest))

/-- fields that never change in multipart mode -/
structure MBase (c : Cfg) (pp : PP) : Prop where
  size : pp.bufferSize = c.size
  bnd : pp.boundary = c.B
  xbuf : pp.xbuf = []
  fault : pp.fault = none

/-- `pp'` agrees with `pp` on everything the invariant looks at -/
structure Same (pp pp' : PP) : Prop where
  st : pp'.state = pp.state
  evs : pp'.evs = pp.evs
  mt : pp'.metaOf = pp.metaOf
  mi : pp'.mustIkvi = pp.mustIkvi
  vo : pp'.valueOffset = pp.valueOffset
  ds : pp'.dashState = pp.dashState
  ne : pp'.nested = pp.nested
  h1 : pp'.haveName = pp.haveName
  h2 : pp'.haveType = pp.haveType
  h3 : pp'.haveFile = pp.haveFile
  h4 : pp'.haveEnc = pp.haveEnc

theorem Marks.congr {pp pp' : PP} {name : Bytes} (h : Marks pp name) (s : Same pp pp') : Marks pp' name := by
  obtain ⟨a, b, c, d, e⟩ := h
  have hc : pp'.cname = pp.cname := congrArg Meta.key s.mt
  exact ⟨s.h1 ▸ a, s.h2 ▸ b, s.h3 ▸ c, s.h4 ▸ d, hc ▸ e⟩

theorem MMain.congr {c : Cfg} {pp pp' : PP} {X : Bytes} (h : MMain c pp X) (s : Same pp pp') : MMain c pp' X := by
  cases h with
  | bnd0 pre hs he hm hX hpre => exact .bnd0 pre (s.st ▸ hs) (s.evs ▸ he) (s.mt ▸ hm) hX hpre
  | hdr done it rest lines hsp hd hs hl hX =>
    exact .hdr done it rest lines hsp (s.evs ▸ hd) (by rw [s.st, s.mt]; exact hs) hl hX
  | chk done it rest hsp hd hs hm hi hX => exact .chk done it rest hsp (s.evs ▸ hd) (s.st ▸ hs) (s.mt ▸ hm) (s.mi ▸ hi) hX
  | val done p rest off evs0 cur hsp hd he hp hi hs hm ho hle hX =>
    exact .val done p rest off evs0 cur hsp hd (s.evs ▸ he) hp (s.mi ▸ hi) (s.st ▸ hs) (s.mt ▸ hm) (s.vo ▸ ho) hle hX
  | ninit done ls name ct nb inner rest hsp hd hs hn hm hX =>
    exact .ninit done ls name ct nb inner rest hsp (s.evs ▸ hd) (s.st ▸ hs) (s.ne ▸ hn) (s.mt ▸ hm) hX
  | nhdr done ls name ct nb inner rest idone q qs lines hsp hin hd hn hs hl hX =>
    refine .nhdr done ls name ct nb inner rest idone q qs lines hsp hin (s.evs ▸ hd) (s.ne ▸ hn) ?_ hl hX
    rw [s.st, s.mt]
    rcases hs with ⟨a, b⟩ | ⟨a, b, d⟩ | ⟨a, b, d⟩
    · exact Or.inl ⟨a, b⟩
    · exact Or.inr (Or.inl ⟨a, b.congr s, d⟩)
    · exact Or.inr (Or.inr ⟨a, b.congr s, d⟩)
  | nval done ls name ct nb inner rest idone q qs off evs0 cur hsp hin hd he hp hi hs hn hmk hm ho hle hX =>
    exact .nval done ls name ct nb inner rest idone q qs off evs0 cur hsp hin hd (s.evs ▸ he) hp (s.mi ▸ hi) (s.st ▸ hs)
      (s.ne ▸ hn) (hmk.congr s) (s.mt ▸ hm) (s.vo ▸ ho) hle hX
  | nnext done rest hsp hd hs hX => exact .nnext done rest hsp (s.evs ▸ hd) (s.st ▸ hs) hX

theorem MInv.congr {c : Cfg} {pp pp' : PP} {R : Bytes} (h : MInv c pp R) (s : Same pp pp') (h0 : pp'.skipRn = pp.skipRn) : MInv c pp' R := by
  cases h with
  | main X hr hm => exact .main X (h0 ▸ hr) (hm.congr s)
  | fin0 hd hr hds hR => exact .fin0 (s.evs ▸ hd) (h0 ▸ hr) (s.ds ▸ hds) hR
  | fin1 hd hr hds hR => exact .fin1 (s.evs ▸ hd) (h0 ▸ hr) (s.ds ▸ hds) hR
  | fin2 hd hs hr => exact .fin2 (s.evs ▸ hd) (s.st ▸ hs) (h0 ▸ hr)
  | nfin0 done rest hsp hd hr hds hR => exact .nfin0 done rest hsp (s.evs ▸ hd) (h0 ▸ hr) (s.ds ▸ hds) hR
  | nfin1 done rest hsp hd hr hds hR => exact .nfin1 done rest hsp (s.evs ▸ hd) (h0 ▸ hr) (s.ds ▸ hds) hR

/-- the machine cannot do anything with the window it has -/
def Quiescent (pp : PP) : Prop :=
  pp.buf = [] ∨ (pp.skipRn = .inactive ∧
    (((pp.state = .init ∨ pp.state = .nextBoundary) ∧ pp.buf.length < 2 + pp.boundary.length) ∨
     ((pp.state = .processEntryHeaders ∨ pp.state = .nestedProcessEntryHeaders) ∧ lineEnd pp.buf = pp.buf.length) ∨
     (pp.state = .processValueToBoundary ∧ scanBoundary pp.buf pp.boundary pp.bufferSize 0 = .partialAt 0) ∨
     (pp.state = .nestedInit ∧ ∃ nb, pp.nested = some nb ∧ pp.buf.length < 2 + nb.length) ∨
     (pp.state = .nestedProcessValueToBoundary ∧ ∃ nb, pp.nested = some nb ∧
        scanBoundary pp.buf nb pp.bufferSize 0 = .partialAt 0)))

/-! ### freshness of the boundary, in the form the scan lemma wants -/

theorem occursIn_false (needle : Bytes) : ∀ (hay : Bytes), occursIn needle hay = false →
    ∀ k, k + needle.length ≤ hay.length → slice hay k (k + needle.length) ≠ needle
  | [], h, k, hk => by
    have : needle = [] := List.length_eq_zero_iff.mp (by have : ([] : Bytes).length = 0 := rfl; omega)
    subst this; simp [occursIn] at h
  | c :: t, h, k, hk => by
    simp only [occursIn, Bool.or_eq_false_iff] at h
    cases k with
    | zero =>
      intro he
      have hp : needle <+: (c :: t) := by
        rw [← he]; simp only [slice, List.drop_zero, Nat.zero_add, Nat.sub_zero]; exact List.take_prefix _ _
      have := List.isPrefixOf_iff_prefix.mpr hp
      rw [this] at h; cases h.1
    | succ k =>
      have := occursIn_false needle t h.2 k (by simp at hk; omega)
      intro he; apply this
      rw [← he]; simp [slice]

theorem slice_drop (v z : Bytes) (off k e : Nat) (h : off ≤ v.length) :
    slice (v.drop off ++ z) k e = slice (v ++ z) (off + k) (off + e) := by
  unfold slice
  rw [← List.drop_append_of_le_length h, List.drop_drop]
  congr 1; omega

theorem fresh_drop (B v tl : Bytes) (off k : Nat)
    (hocc : occursIn (sCRLFDashDash ++ B) (v ++ (sCRLFDashDash ++ B).take ((sCRLFDashDash ++ B).length - 1)) = false)
    (hoff : off ≤ v.length) (hk : k < (v.drop off).length) :
    slice (v.drop off ++ sCRLFDashDash ++ (B ++ tl)) k (k + 4 + B.length) ≠ sCRLFDashDash ++ B := by
  have hdl : (sCRLFDashDash ++ B).length = 4 + B.length := by simp [sCRLFDashDash]; omega
  rw [List.append_assoc, slice_drop v _ off k _ hoff]
  have hsplit : v ++ (sCRLFDashDash ++ (B ++ tl)) =
      (v ++ (sCRLFDashDash ++ B).take ((sCRLFDashDash ++ B).length - 1)) ++
        ((sCRLFDashDash ++ B).drop ((sCRLFDashDash ++ B).length - 1) ++ tl) := by
    rw [List.append_assoc, ← List.append_assoc ((sCRLFDashDash ++ B).take _), List.take_append_drop]
    simp
  rw [hsplit]
  simp only [List.length_drop] at hk
  rw [slice_app _ _ _ _ (by simp only [List.length_append, List.length_take, hdl]; omega)]
  have := occursIn_false _ _ hocc (off + k) (by simp only [List.length_append, List.length_take, hdl]; omega)
  have e : off + (k + 4 + B.length) = off + k + (4 + B.length) := by omega
  rw [e, ← hdl]; exact this

/-- `d` does not occur at a position inside `v` of `v ++ d ++ tl` -/
theorem noocc_slice (d v tl : Bytes) (hd : 0 < d.length) (hocc : occursIn d (v ++ d.take (d.length - 1)) = false)
    (k : Nat) (hk : k < v.length) : slice (v ++ (d ++ tl)) k (k + d.length) ≠ d := by
  have hsplit : v ++ (d ++ tl) = (v ++ d.take (d.length - 1)) ++ (d.drop (d.length - 1) ++ tl) := by
    rw [List.append_assoc, ← List.append_assoc (d.take _), List.take_append_drop]
  rw [hsplit, slice_app _ _ _ _ (by simp only [List.length_append, List.length_take]; omega)]
  exact occursIn_false _ _ hocc k (by simp only [List.length_append, List.length_take]; omega)

end Mhd.PP
