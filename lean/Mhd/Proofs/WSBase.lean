/-
  C19 helper lemmas, part 1: bytes, UTF-8 validator, payload copy, allocation,
  "the encoders only touch the rng script".
-/
import Mhd.Model.WSDecode

namespace Mhd.WS

/-! ### states that differ only in the rng script -/

/-- two states that differ at most in the rng script -/
def SameButRng (a b : WS) : Prop := ∃ r, b = { a with rng := r }

theorem SameButRng.refl (a : WS) : SameButRng a a := ⟨a.rng, rfl⟩

theorem maskFor_ws (ws : WS) : SameButRng ws (maskFor ws).1 := by
  unfold maskFor genMask
  split
  · exact ⟨_, rfl⟩
  · exact SameButRng.refl _

theorem encodeFrame_ws (ws : WS) (b0 : UInt8) (n : Nat) (body : List UInt8 → List UInt8) :
    SameButRng ws (encodeFrame ws b0 n body).ws := by
  unfold encodeFrame
  simp only []
  repeat' split
  all_goals exact maskFor_ws ws

theorem encodeClose_ws (ws : WS) (c : Nat) (r : List UInt8) : SameButRng ws (encodeClose ws c r).ws := by
  unfold encodeClose
  split
  · exact SameButRng.refl _
  · split
    · exact SameButRng.refl _
    · split
      · exact SameButRng.refl _
      · exact encodeFrame_ws _ _ _ _

theorem genClose_ws (ws : WS) (c : Nat) : SameButRng ws (genClose ws c).1 := by
  unfold genClose
  split
  · exact encodeClose_ws _ _ _
  · exact SameButRng.refl _

/-! ### the UTF-8 validator -/

theorem utf8Next_le (s : Nat) (c : UInt8) (s' : Nat) (h : utf8Next s c = some s') : s' ≤ 10 := by
  unfold utf8Next at h
  simp only [] at h
  split at h
  all_goals (repeat' split at h)
  all_goals first | (injection h with h; omega) | (exact absurd h (by simp))

theorem checkUtf8_le (bs : List UInt8) (s i s' : Nat) (hs : s ≤ 10) (h : checkUtf8 bs s i = .ok s') : s' ≤ 10 := by
  induction bs generalizing s i with
  | nil => simp only [checkUtf8] at h; injection h with h; omega
  | cons c cs ih =>
    simp only [checkUtf8] at h
    split at h
    · exact absurd h (by simp)
    · rename_i s1 hs1
      exact ih s1 (i + 1) (utf8Next_le _ _ _ hs1) h

/-- the validator is incremental: checking `a ++ b` is checking `a`, then `b` from the state reached -/
theorem checkUtf8_append (a b : List UInt8) (s i : Nat) :
    checkUtf8 (a ++ b) s i =
      match checkUtf8 a s i with
      | .invalid o => .invalid o
      | .ok s' => checkUtf8 b s' (i + a.length) := by
  induction a generalizing s i with
  | nil => simp [checkUtf8]
  | cons c cs ih =>
    simp only [List.cons_append, checkUtf8]
    split
    · rfl
    · rename_i s1 _
      rw [ih s1 (i + 1)]
      simp only [List.length_cons]
      have : i + 1 + cs.length = i + (cs.length + 1) := by omega
      rw [this]

/-- the reported offset of the offending byte lies inside the checked bytes -/
theorem checkUtf8_invalid_lt (bs : List UInt8) (s i o : Nat) (h : checkUtf8 bs s i = .invalid o) :
    i ≤ o ∧ o < i + bs.length := by
  induction bs generalizing s i with
  | nil => simp [checkUtf8] at h
  | cons c cs ih =>
    simp only [checkUtf8] at h
    split at h
    · injection h with h; simp only [List.length_cons]; omega
    · rename_i s1 _
      have := ih s1 (i + 1) h
      simp only [List.length_cons]; omega

/-- shifting the first index shifts the reported offset -/
theorem checkUtf8_shift' (bs : List UInt8) (s i k : Nat) :
    checkUtf8 bs s (i + k) = match checkUtf8 bs s i with
      | .invalid o => .invalid (o + k)
      | .ok s' => .ok s' := by
  induction bs generalizing s i with
  | nil => simp [checkUtf8]
  | cons c cs ih =>
    simp only [checkUtf8]
    split
    · rfl
    · rename_i s1 _
      have : i + k + 1 = (i + 1) + k := by omega
      rw [this, ih s1 (i + 1)]

theorem checkUtf8_shift (bs : List UInt8) (s i : Nat) :
    checkUtf8 bs s i = match checkUtf8 bs s 0 with
      | .invalid o => .invalid (o + i)
      | .ok s' => .ok s' := by
  have := checkUtf8_shift' bs s 0 i
  simpa using this

theorem utf8Next_given (s : Nat) (c : UInt8) (s' : Nat) (h : utf8Next s c = some s') :
    givenUtf8 s' ≤ givenUtf8 s + 1 := by
  unfold utf8Next at h
  simp only [] at h
  split at h
  all_goals (repeat' split at h)
  all_goals first | (injection h with h; subst h; simp [givenUtf8]) | (exact absurd h (by simp))

/-- an unfinished character never has more bytes than were checked since the last complete one -/
theorem checkUtf8_given (bs : List UInt8) (s i s' : Nat) (h : checkUtf8 bs s i = .ok s') :
    givenUtf8 s' ≤ givenUtf8 s + bs.length := by
  induction bs generalizing s i with
  | nil => simp only [checkUtf8] at h; injection h with h; subst h; simp
  | cons c cs ih =>
    simp only [checkUtf8] at h
    split at h
    · exact absurd h (by simp)
    · rename_i s1 hs1
      have h1 := ih s1 (i + 1) h
      have h2 := utf8Next_given _ _ _ hs1
      simp only [List.length_cons]; omega

/-! ### payload copy -/

theorem xorMask_length (mask : List UInt8) (off : Nat) (src : List UInt8) :
    (xorMask mask off src).length = src.length := by
  simp [xorMask]

theorem copyPayload_length (src mask : List UInt8) (off : Nat) :
    (copyPayload src mask off).length = src.length := by
  unfold copyPayload
  split
  · rfl
  · exact xorMask_length _ _ _

/-! ### buffers -/

theorem writeAt_length (buf : List UInt8) (off : Nat) (bs b' : List UInt8) (h : writeAt buf off bs = some b') :
    b'.length = buf.length := by
  unfold writeAt at h
  split at h
  · injection h with h; subst h
    simp only [List.length_append, List.length_take, List.length_drop]; omega
  · exact absurd h (by simp)

theorem writeAt_some (buf : List UInt8) (off : Nat) (bs : List UInt8) (h : off + bs.length ≤ buf.length) :
    ∃ b', writeAt buf off bs = some b' := by
  unfold writeAt
  rw [if_pos h]
  exact ⟨_, rfl⟩

theorem termAt_length (buf : List UInt8) (n : Nat) (b' : List UInt8) (h : termAt buf n = some b') :
    b'.length = buf.length := by
  unfold termAt at h
  split at h
  · injection h with h; subst h; simp
  · exact absurd h (by simp)

theorem termAt_some (buf : List UInt8) (n : Nat) (h : n < buf.length) : ∃ b', termAt buf n = some b' := by
  unfold termAt
  rw [if_pos h]
  exact ⟨_, rfl⟩

theorem alloc_length (ws : WS) (n : Nat) (b : List UInt8) (h : alloc ws n = some b) :
    b.length = n ∧ n ≤ ws.allocLimit := by
  unfold alloc at h
  split at h
  · injection h with h; subst h; simp; assumption
  · exact absurd h (by simp)

theorem realloc_length (ws : WS) (old : Option (List UInt8)) (n : Nat) (b : List UInt8)
    (h : realloc ws old n = some b) : b.length = n ∧ n ≤ ws.allocLimit := by
  unfold realloc at h
  split at h
  · injection h with h; subst h
    refine ⟨?_, by assumption⟩
    simp only [List.length_append, List.length_take, List.length_replicate]; omega
  · exact absurd h (by simp)

end Mhd.WS
