import Mhd.Model.ReplyIov
namespace Mhd.Iov
open Mhd.ReplyStr

/-- what the documentation asks of the caller: every non-empty element points to `iov_len` readable bytes -/
def Legal (l : List IoVec) : Prop := ∀ e ∈ l, e.len ≠ 0 → e.len < 2 ^ 64 ∧ ∃ m, e.base = some m ∧ e.len ≤ m.length

/-- what the application supplied: the elements' bytes one after the other -/
def concat (l : List IoVec) : Bytes := l.flatMap elemBytes

theorem elemBytes_zero (e : IoVec) (h : e.len = 0) : elemBytes e = [] := by simp [elemBytes, h]

theorem concat_compact : ∀ l : List IoVec, concat (iovCompact l) = concat l
  | [] => rfl
  | e :: rest => by
    unfold iovCompact
    by_cases h : e.len = 0
    · simp only [h, beq_self_eq_true, if_true]
      rw [concat_compact rest]; simp [concat, elemBytes_zero e h]
    · have : (e.len == 0) = false := by simpa using h
      simp only [this, Bool.false_eq_true, if_false]
      have := concat_compact rest
      simp only [concat, List.flatMap_cons] at this ⊢
      rw [this]

/-- invariant of the counting loop -/
theorem iovCount_spec : ∀ (l : List IoVec) (st st' : CountSt), Legal l → st.total < 2 ^ 64 →
    iovCount l st = some st' →
    st'.total = st.total + (concat l).length ∧ st'.total < 2 ^ 64 ∧
    st'.icp = st.icp + (iovCompact l).length ∧
    ((iovCompact l) = [] → st'.last = st.last) ∧
    (∀ e, iovCompact l = [e] → ∃ m, st'.last = some m ∧ e.base = some m)
  | [], st, st', _, hb, h => by
    simp only [iovCount, Option.some.injEq] at h; subst h
    exact ⟨by simp [concat], hb, by simp [iovCompact], fun _ => rfl, fun e he => by simp [iovCompact] at he⟩
  | e :: rest, st, st', hl, hb, h => by
    have hlr : Legal rest := fun x hx => hl x (by simp [hx])
    unfold iovCount at h
    by_cases hz : e.len = 0
    · simp only [hz, beq_self_eq_true, if_true] at h
      obtain ⟨a, b, c, d, f⟩ := iovCount_spec rest st st' hlr hb h
      have hc : iovCompact (e :: rest) = iovCompact rest := by simp [iovCompact, hz]
      refine ⟨?_, b, by rw [hc]; exact c, by rw [hc]; exact d, by rw [hc]; exact f⟩
      rw [a]; simp [concat, elemBytes_zero e hz]
    · have hzb : (e.len == 0) = false := by simpa using hz
      simp only [hzb, Bool.false_eq_true, if_false] at h
      obtain ⟨hlt, m, hm, hml⟩ := hl e (by simp) hz
      rw [hm] at h
      simp only at h
      by_cases hov : (st.total > (st.total + e.len) % 2 ^ 64 || st.icp == intMax || ssizeMax < (st.total + e.len) % 2 ^ 64) = true
      · rw [if_pos hov] at h; cases h
      · rw [if_neg hov] at h
        simp only [Bool.or_eq_true, decide_eq_true_eq, not_or, Nat.not_lt] at hov
        have hnw : (st.total + e.len) % 2 ^ 64 = st.total + e.len := by
          by_cases hs : st.total + e.len < 2 ^ 64
          · exact Nat.mod_eq_of_lt hs
          · exfalso
            have h1 : (st.total + e.len) % 2 ^ 64 = st.total + e.len - 2 ^ 64 := by
              rw [Nat.mod_eq_sub_mod (by omega), Nat.mod_eq_of_lt (by omega)]
            have := hov.1.1
            omega
        have hb2 : (st.total + e.len) % 2 ^ 64 < 2 ^ 64 := Nat.mod_lt _ (by decide)
        obtain ⟨a, b, c, d, f⟩ := iovCount_spec rest _ st' hlr hb2 h
        have hc : iovCompact (e :: rest) = e :: iovCompact rest := by simp [iovCompact, hzb]
        have hel : (elemBytes e).length = e.len := by simp [elemBytes, hm]; omega
        refine ⟨?_, b, ?_, ?_, ?_⟩
        · rw [a]; simp only [hnw, concat, List.flatMap_cons, List.length_append, hel]; omega
        · rw [c, hc]; simp; omega
        · rw [hc]; intro hh; cases hh
        · rw [hc]; intro e' he'
          simp only [List.cons.injEq] at he'
          obtain ⟨rfl, hr⟩ := he'
          exact ⟨m, by rw [d hr], hm⟩

/-- MAIN: whatever array the application passes — zero-length elements anywhere, one or many non-empty
    elements, elements sharing memory — a response that is created has as its size the sum of the element
    lengths and as its body exactly the elements' bytes one after the other. -/
theorem body_is_concatenation (l : List IoVec) (cnt : Nat) (r : IovResp) (hl : Legal l)
    (h : createFromIovec (some l) cnt = some r) :
    iovBody r.data = concat l ∧ r.totalSize = (concat l).length := by
  unfold createFromIovec at h
  simp only at h
  cases hc : iovCount l {} with
  | none => rw [hc] at h; cases h
  | some st =>
    rw [hc] at h
    simp only at h
    obtain ⟨a, _, c, d, f⟩ := iovCount_spec l {} st hl (by decide) hc
    have a' : st.total = (concat l).length := by simpa using a
    have c' : st.icp = (iovCompact l).length := by simpa using c
    by_cases h0 : st.icp = 0
    · simp only [h0, beq_self_eq_true, if_true, Option.some.injEq] at h
      subst h
      have : iovCompact l = [] := List.length_eq_zero_iff.1 (by omega)
      refine ⟨?_, a'⟩
      simp only [iovBody]
      rw [← concat_compact l, this]; rfl
    · have h0b : (st.icp == 0) = false := by simpa using h0
      simp only [h0b, Bool.false_eq_true, if_false] at h
      by_cases h1 : st.icp = 1
      · simp only [h1, beq_self_eq_true, if_true] at h
        obtain ⟨e, he⟩ : ∃ e, iovCompact l = [e] := List.length_eq_one_iff.1 (by omega)
        obtain ⟨m, hm1, hm2⟩ := f e he
        rw [hm1] at h
        simp only [Option.some.injEq] at h
        subst h
        refine ⟨?_, a'⟩
        simp only [iovBody]
        rw [← concat_compact l, he]
        simp only [concat, List.flatMap_cons, List.flatMap_nil, List.append_nil, elemBytes, hm2, Option.getD_some]
        -- data_size = total_size = the length of the only non-empty element
        have : (concat l).length = (m.take e.len).length := by
          rw [← concat_compact l, he]; simp [concat, elemBytes, hm2]
        have hmem : e ∈ l := by
          have : ∀ (l : List IoVec) (x : IoVec), x ∈ iovCompact l → x ∈ l ∧ x.len ≠ 0 := by
            intro l
            induction l with
            | nil => intro x hx; simp [iovCompact] at hx
            | cons y t ih =>
              intro x hx
              unfold iovCompact at hx
              by_cases hy : y.len = 0
              · simp only [hy, beq_self_eq_true, if_true] at hx
                exact ⟨by simp [(ih x hx).1], (ih x hx).2⟩
              · have : (y.len == 0) = false := by simpa using hy
                simp only [this, Bool.false_eq_true, if_false, List.mem_cons] at hx
                rcases hx with rfl | hx
                · exact ⟨by simp, hy⟩
                · exact ⟨by simp [(ih x hx).1], (ih x hx).2⟩
          exact (this l e (by rw [he]; simp)).1
        rw [a', this]
        simp
      · have h1b : (st.icp == 1) = false := by simpa using h1
        simp only [h1b, Bool.false_eq_true, if_false, Option.some.injEq] at h
        subst h
        exact ⟨by simp only [iovBody]; exact concat_compact l, a'⟩
end Mhd.Iov
