/-
  C12 proofs: replay — a (nonce, count) pair authenticates at most once, at the level of whole credentials.
-/
import Mhd.Proofs.DauthSafe
namespace Mhd.Dauth
open Mhd.Auth Mhd.Gen.Auth Mhd.Gen.Dauth

/-- an accepted credential: the witnesses of its validity and the table afterwards -/
theorem expected_ok_table (cfg : Cfg) (tbl : Mhd.Nonce.Table) (now : Nat) (r : Req) (call : Call) (timeout maxNc : Nat)
    (c : Cred) (lv : LenView) (h : (expectedClass cfg tbl now r call timeout maxNc c lv).2 = .ok) :
    ∃ a nci n t, specPre now timeout maxNc call c lv = .ok (a, nci, n, t) ∧
      (Mhd.Nonce.checkNonceNc tbl n t nci).2 = .ok ∧
      (expectedClass cfg tbl now r call timeout maxNc c lv).1 = (Mhd.Nonce.checkNonceNc tbl n t nci).1 := by
  obtain ⟨a, nci, n, t, hpre, hfresh, _⟩ := (expected_ok_stages _ _ _ _ _ _ _ _ _).mp h
  refine ⟨a, nci, n, t, hpre, hfresh, ?_⟩
  unfold expectedClass
  rw [hpre]
  simp only [hfresh]

/-- the count a credential presents: 1 without qop, else the value of its `nc` text -/
theorem specPre_count (now timeout maxNc : Nat) (call : Call) (c : Cred) (lv : LenView) (a : Algo) (nci : Nat) (n : Bytes) (t : Nat)
    (h : specPre now timeout maxNc call c lv = .ok (a, nci, n, t)) :
    c.val kNonce = some n ∧
    ((c.qop = qopNone ∧ nci = 1) ∨ (c.qop ≠ qopNone ∧ ∃ txt, c.val kNc = some txt ∧ Mhd.Nonce.parseNc txt = some nci)) := by
  rw [specPre_ok_iff] at h
  obtain ⟨_, _, _, _, _, hNc, hNo⟩ := h
  rw [specNonce_iff] at hNo
  rw [specNc_iff] at hNc
  refine ⟨hNo.1, ?_⟩
  rcases hNc with h | ⟨hq, txt, h1, _, h3, _⟩
  · exact Or.inl h
  · exact Or.inr ⟨hq, txt, h1, h3⟩

/-- Replay: after a credential has been accepted, no credential that presents the same nonce and the same
    count text (same qop class) is accepted — whatever the request, the clock, the application's arguments -/
theorem replay_rejected_sem (size : Nat) (hist : List Mhd.Nonce.Ev) (cfg cfg' : Cfg) (tbl : Mhd.Nonce.Table)
    (hr : Mhd.Nonce.TblRel size tbl hist)
    (now now' : Nat) (r r' : Req) (call call' : Call) (timeout timeout' maxNc maxNc' : Nat) (c c' : Cred) (lv lv' : LenView)
    (hok : (expectedClass cfg tbl now r call timeout maxNc c lv).2 = .ok)
    (hn : c'.val kNonce = c.val kNonce) (hnc : c'.val kNc = c.val kNc) (hq : c'.qop = c.qop) :
    (expectedClass cfg' (expectedClass cfg tbl now r call timeout maxNc c lv).1 now' r' call' timeout' maxNc' c' lv').2 ≠ .ok := by
  intro hok'
  obtain ⟨a, nci, n, t, hpre, hfresh, htbl⟩ := expected_ok_table _ _ _ _ _ _ _ _ _ hok
  obtain ⟨a', nci', n', t', hpre', hfresh', _⟩ := expected_ok_table _ _ _ _ _ _ _ _ _ hok'
  obtain ⟨e1, e2⟩ := specPre_count _ _ _ _ _ _ _ _ _ _ hpre
  obtain ⟨e1', e2'⟩ := specPre_count _ _ _ _ _ _ _ _ _ _ hpre'
  rw [hn, e1] at e1'
  injection e1' with e1'
  subst e1'
  have hc : nci' = nci := by
    rcases e2 with ⟨q0, c0⟩ | ⟨q1, txt, h1, h2⟩
    · rcases e2' with ⟨_, c0'⟩ | ⟨q1', _⟩
      · rw [c0, c0']
      · rw [hq] at q1'; exact absurd q0 q1'
    · rcases e2' with ⟨q0', _⟩ | ⟨_, txt', h1', h2'⟩
      · rw [hq] at q0'; exact absurd q0' q1
      · rw [hnc, h1] at h1'; injection h1' with h1'; subst h1'
        rw [h2] at h2'; injection h2' with h2'; exact h2'.symm
  subst hc
  rw [htbl] at hfresh'
  exact replay_refused size tbl hist hr n t t' nci' hfresh hfresh'

end Mhd.Dauth
