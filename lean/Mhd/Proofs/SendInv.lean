import Mhd.Proofs.SendLemmas
namespace Mhd.Send
open Mhd.Gen.Send

/-- well-formed reply descriptions (what MHD_queue_response / build_header_response establish) -/
structure WF (r : Resp) : Prop where
  hdr_ne : r.hdr ≠ []
  footer_ne : r.footer ≠ []
  iov_body : r.kind = .iovec → r.iov.flatten = r.body
  cb_max : r.kind ≠ .callback → r.cbMax = 0
  size : r.body.length < sizeUnknown
  known : (r.kind = .buffer ∨ r.kind = .iovec) → r.sizeKnown = true
  sf_kind : r.sendfile = true → r.kind = .file
  iov_ne : ∀ e ∈ r.iov, e ≠ []

/-- `response->total_size` is the content length, or still "unknown", or (after end of
    stream) the position reached -/
def TotOk (r : Resp) (c : Conn) : Prop :=
  if r.sizeKnown then c.tot = r.body.length
  else (c.tot = sizeUnknown ∨ (c.tot = r.body.length ∧ c.rp = r.body.length))

/-- the part of the invariant that does not talk about the state, the write buffer or `out` -/
structure Core (r : Resp) (c : Conn) : Prop where
  rpLe : r.sendBody = true → c.rp ≤ r.body.length
  win : if r.kind = .buffer then c.ds = 0 ∧ c.dz = r.body.length else c.ds + c.dz ≤ r.body.length
  iovOk : r.kind = .iovec → r.sendBody = true →
          (if c.iovSet then c.irest.flatten = r.body.drop c.rp else c.rp = 0)
  tot : TotOk r c
  sfOk : c.sf = true → r.sendfile = true
  winChunk : r.chunked = true → r.kind ≠ .buffer → c.dz = 0
  iovNe : ∀ e ∈ c.irest, e ≠ []
  sfWin : c.sf = true → c.dz = 0

theorem Core.congr {r : Resp} {c c' : Conn} (h : Core r c) (h2 : c'.rp = c.rp)
    (h3 : c'.ds = c.ds) (h4 : c'.dz = c.dz) (h5 : c'.iovSet = c.iovSet) (h6 : c'.irest = c.irest)
    (h7 : c'.tot = c.tot) (h8 : c'.sf = true → c.sf = true := by exact fun x => x) : Core r c' := by
  refine ⟨by rw [h2]; exact h.rpLe, by rw [h3, h4]; exact h.win,
          by rw [h5, h6, h2]; exact h.iovOk, ?_, fun x => h.sfOk (h8 x), by rw [h4]; exact h.winChunk, by rw [h6]; exact h.iovNe, fun x => by rw [h4]; exact h.sfWin (h8 x)⟩
  have := h.tot
  unfold TotOk at this ⊢
  rw [h7, h2]; exact this

def isWbState (s : St) : Prop := s = .headersSending ∨ s = .chunkedBodyReady ∨ s = .footersSending

structure Inv (r : Resp) (c : Conn) : Prop where
  nofault : c.fault = false
  core : c.st ≠ .closed → Core r c
  eqn : c.st ≠ .closed → c.out ++ pending r c = stream r
  pfx : c.out <+: stream r
  wbuf : isWbState c.st → c.so < c.ao ∧ c.ao ≤ c.wb.length
  stBody : (c.st = .normalBodyUnready ∨ c.st = .normalBodyReady) → r.sendBody = true ∧ r.chunked = false
  stChunk : (c.st = .chunkedBodyUnready ∨ c.st = .chunkedBodyReady ∨ c.st = .chunkedBodySent ∨ c.st = .footersSending) →
          r.sendBody = true ∧ r.chunked = true

/-- the close-path bookkeeping is invisible to the stream invariant -/
theorem Inv.setBk {r : Resp} {c : Conn} (h : Inv r c) (b : Bk) : Inv r { c with bk := b } :=
  ⟨h.nofault, fun hne => (h.core hne).congr rfl rfl rfl rfl rfl rfl, h.eqn, h.pfx, h.wbuf, h.stBody, h.stChunk⟩

theorem idleClosed_inv {r : Resp} {c : Conn} (h : Inv r c) : Inv r (idleClosed c) := by
  unfold idleClosed
  split
  · exact h.setBk _
  · exact h

theorem prefix_append_of_prefix {a w rest s : List α} (h : a ++ rest = s) (hw : w <+: rest) : a ++ w <+: s := by
  obtain ⟨t, ht⟩ := hw
  exact ⟨t, by rw [List.append_assoc, ht, h]⟩

/-- a closed connection only has to have delivered a prefix -/
theorem Inv.closed {r : Resp} {c : Conn} (hf : c.fault = false) (hst : c.st = .closed) (hp : c.out <+: stream r) : Inv r c := by
  refine ⟨hf, ?_, ?_, hp, ?_, ?_, ?_⟩
  · intro hne; exact absurd hst hne
  · intro hne; exact absurd hst hne
  · intro hs; rw [hst] at hs; rcases hs with h | h | h <;> cases h
  · intro hs; rw [hst] at hs; rcases hs with h | h <;> cases h
  · intro hs; rw [hst] at hs; rcases hs with h | h | h | h <;> cases h

theorem wbPending_some {r : Resp} {c : Conn} (h : Inv r c) (hs : isWbState c.st) :
    wbPending c = some (slice c.wb c.so (c.ao - c.so)) ∧ (slice c.wb c.so (c.ao - c.so)).length = c.ao - c.so := by
  obtain ⟨h1, h2⟩ := h.wbuf hs
  constructor
  · simp only [wbPending]; rw [if_pos ⟨by omega, h2⟩]
  · simp only [slice, List.length_take, List.length_drop]; omega

/-- accounting `n` bytes sent from the write buffer, then `check_write_done` -/
theorem wb_ok_step {r : Resp} {c : Conn} (h : Inv r c) (hs : isWbState c.st) (after : Bytes) (next : St)
    (wire : Bytes) (n : Nat)
    (hsame : ∀ so' out', pending r { c with so := so', out := out' } = slice c.wb so' (c.ao - so') ++ after)
    (hnext : ∀ out', pending r { c with so := 0, ao := 0, st := next, out := out' } = after)
    (hn1 : ¬ isWbState next ∧ next ≠ .closed)
    (hn2 : (next = .normalBodyUnready ∨ next = .normalBodyReady) → r.sendBody = true ∧ r.chunked = false)
    (hn3 : (next = .chunkedBodyUnready ∨ next = .chunkedBodyReady ∨ next = .chunkedBodySent ∨ next = .footersSending) →
          r.sendBody = true ∧ r.chunked = true)
    (hn : n ≤ c.ao - c.so) (hw : wire = (slice c.wb c.so (c.ao - c.so)).take n) :
    Inv r (checkWriteDone { c with out := c.out ++ wire, so := c.so + n } next) := by
  obtain ⟨hlt, hle⟩ := h.wbuf hs
  have hstne : c.st ≠ .closed := by
    intro e; rw [e] at hs; rcases hs with x | x | x <;> cases x
  have heq := h.eqn hstne
  have hpend : pending r c = slice c.wb c.so (c.ao - c.so) ++ after := hsame c.so c.out
  rw [hpend] at heq
  have hlen := (wbPending_some h hs).2
  simp only [checkWriteDone]
  by_cases hd : c.ao ≠ c.so + n
  · rw [if_pos hd]
    refine ⟨h.nofault, fun _ => (h.core hstne).congr rfl rfl rfl rfl rfl rfl, ?_, ?_, ?_, h.stBody, h.stChunk⟩
    · intro _
      show (c.out ++ wire) ++ pending r { c with so := c.so + n, out := c.out ++ wire } = stream r
      rw [hsame, hw, ← heq]
      simp only [slice, List.append_assoc]
      congr 1
      rw [← List.append_assoc]
      congr 1
      have := slice_split c.wb c.so (c.ao - c.so) n
      have e : c.ao - c.so - n = c.ao - (c.so + n) := by omega
      rw [e] at this
      exact this
    · rw [hw, ← heq]
      exact prefix_append_of_prefix rfl (List.IsPrefix.trans (List.take_prefix _ _) (List.prefix_append _ _))
    · intro _
      exact ⟨by show c.so + n < c.ao; omega, hle⟩
  · rw [if_neg hd]
    have hnn : n = c.ao - c.so := by omega
    have hwire : wire = slice c.wb c.so (c.ao - c.so) := by
      rw [hw, hnn]; exact List.take_of_length_le (by rw [hlen]; exact Nat.le_refl _)
    refine ⟨h.nofault, fun _ => (h.core hstne).congr rfl rfl rfl rfl rfl rfl, ?_, ?_, ?_, hn2, hn3⟩
    · intro _
      show (c.out ++ wire) ++ pending r { c with so := 0, ao := 0, st := next, out := c.out ++ wire } = stream r
      have := hnext (c.out ++ wire)
      rw [this, hwire, List.append_assoc]; exact heq
    · rw [hwire]; exact ⟨after, by rw [List.append_assoc]; exact heq⟩
    · intro hx; exact absurd hx hn1.1

/-- a send from a write-buffer state that ends in an error: the connection is closed -/
theorem wb_err_step {r : Resp} {c : Conn} (h : Inv r c) (hs : isWbState c.st) (after : Bytes) (wire : Bytes)
    (hpend : pending r c = slice c.wb c.so (c.ao - c.so) ++ after)
    (hw : wire <+: slice c.wb c.so (c.ao - c.so) ++ after) :
    Inv r (closeErr { c with out := c.out ++ wire }) := by
  have hstne : c.st ≠ .closed := by
    intro e; rw [e] at hs; rcases hs with x | x | x <;> cases x
  have heq := h.eqn hstne
  rw [hpend] at heq
  exact Inv.closed h.nofault rfl (prefix_append_of_prefix heq hw)

/-- Sending from the write buffer (`part` = the bytes between the two offsets, `after` = the rest
    of the reply), accounting `ret` and `check_write_done`. -/
theorem wbAccount_inv {r : Resp} {c : Conn} (h : Inv r c) (hs : isWbState c.st) (after : Bytes) (o : SendOut) (next : St)
    (hspec : SendSpec o (slice c.wb c.so (c.ao - c.so)))
    (hsame : ∀ so' out', pending r { c with so := so', out := out' } = slice c.wb so' (c.ao - so') ++ after)
    (hnext : ∀ out', pending r { c with so := 0, ao := 0, st := next, out := out' } = after)
    (hn1 : ¬ isWbState next ∧ next ≠ .closed)
    (hn2 : (next = .normalBodyUnready ∨ next = .normalBodyReady) → r.sendBody = true ∧ r.chunked = false)
    (hn3 : (next = .chunkedBodyUnready ∨ next = .chunkedBodyReady ∨ next = .chunkedBodySent ∨ next = .footersSending) →
          r.sendBody = true ∧ r.chunked = true) :
    Inv r (wbAccount c o next) := by
  have hlen := (wbPending_some h hs).2
  unfold wbAccount
  simp only []
  cases hr : o.ret with
  | error e =>
    have hpre := List.IsPrefix.trans (hspec.err e hr) (List.prefix_append _ after)
    cases e
    case again =>
      have hw : o.wire = [] := hspec.again hr
      simp only [hw, List.append_nil]
      exact h
    all_goals
      exact wb_err_step h hs after o.wire (hsame c.so c.out) hpre
  | ok n =>
    obtain ⟨hn, hw⟩ := hspec.ok n hr
    rw [hlen] at hn
    exact wb_ok_step h hs after next o.wire n hsame hnext hn1 hn2 hn3 hn hw

end Mhd.Send
