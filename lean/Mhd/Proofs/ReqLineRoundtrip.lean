/-
  Round trip of the request line (C02 clause b, request line) for the levels at which
  whitespace blocks are not merged (`wsp_blocks = false`, i.e. level ≥ 0), in both regimes
  of `get_request_line_inner`: URI end decided at the first space (`wsp_in_uri = false`,
  levels ≥ 1) or at the end of the line (`wsp_in_uri = true`, level 0).

  Symbolic-execution lemmas per character class (`step_*`), lifted to runs (`run_plain`,
  `run_target`), `head_part` (method, space, target), `tail_strict` / `tail_lenient`
  (space, version, CRLF), `reqline_roundtrip`, and `LineOK.views`: the three strings read
  back as the tokens sent, each NUL-terminated.
-/
import Mhd.Proofs.ReqLine
set_option linter.unusedSimpArgs false
namespace Mhd.Req
namespace RLP
open Mhd.Gen

/-- a request-line character that is no line end, no whitespace of any level, not NUL -/
def rplain (c : UInt8) : Prop := c ≠ cCR ∧ c ≠ cLF ∧ c ≠ cSP ∧ c ≠ cHT ∧ c ≠ cVT ∧ c ≠ cFF ∧ c ≠ 0

theorem rplain_beq {c : UInt8} (h : rplain c) :
    (c == cCR) = false ∧ (c == cLF) = false ∧ (c == cSP) = false ∧ (c == cHT) = false ∧ (c == cVT) = false ∧
      (c == cFF) = false ∧ (c == 0) = false := by
  obtain ⟨h1, h2, h3, h4, h5, h6, h7⟩ := h
  refine ⟨?_, ?_, ?_, ?_, ?_, ?_, ?_⟩ <;> simp [*]

theorem rlStep_eq_charStep (F : RLFlags) (s : RL) (c : UInt8) (hc : s.buf[s.rb + s.p]? = some c)
    (h1 : c ≠ cCR) (h2 : c ≠ cLF) : rlStep F s = charStep F s := by
  unfold rlStep
  split
  next hp =>
    simp only [Bool.and_eq_true, beq_iff_eq] at hp
    have hc0 : s.buf[s.rb]? = some c := by rw [← hc, hp.1, Nat.add_zero]
    have : skipStep F s = none := by
      unfold skipStep
      rw [hc0]
      have b1 : (c == cCR) = false := by simp [h1]
      have b2 : (c == cLF) = false := by simp [h2]
      simp only [b1, b2, Bool.false_eq_true, ↓reduceIte, Bool.false_and]
    rw [this]
  next => rfl

theorem charStep_plain (F : RLFlags) (s : RL) (c : UInt8) (hc : s.buf[s.rb + s.p]? = some c)
    (h1 : c ≠ cCR) (h2 : c ≠ cLF) : charStep F s = processChar F s c := by
  unfold charStep
  rw [hc]
  have b1 : (c == cCR) = false := by simp [h1]
  have b2 : (c == cLF) = false := by simp [h2]
  simp only [b1, b2, Bool.false_eq_true, ↓reduceIte]

theorem notWsp (F : RLFlags) {c : UInt8} (h : rplain c) : rlIsWsp F c = false := by
  obtain ⟨_, _, b3, b4, b5, b6, _⟩ := rplain_beq h
  simp [rlIsWsp, b3, b4, b5, b6]

/-- R1: a plain character (not '?') while no whitespace block is pending -/
theorem step_plain (F : RLFlags) (s : RL) (c : UInt8) (hc : s.buf[s.rb + s.p]? = some c) (hp : rplain c)
    (hq : c ≠ 63) (hw : s.wsEnd = 0) :
    rlStep F s = .advance { s with p := s.p + 1 } := by
  rw [rlStep_eq_charStep F s c hc hp.1 hp.2.1, charStep_plain F s c hc hp.1 hp.2.1]
  obtain ⟨_, _, _, _, b5, b6, b7⟩ := rplain_beq hp
  have bq : (c == 63) = false := by simp [hq]
  unfold processChar
  have e1 : endOfWspStrict F s = s := by
    unfold endOfWspStrict; simp [hw]
  rw [e1, notWsp F hp]
  simp only [Bool.false_eq_true, ↓reduceIte]
  unfold onOther
  have e2 : endOfWspBlock F s = s := by
    unfold endOfWspBlock; simp [hw]
  rw [e2]
  simp only [bq, b5, b6, b7, Bool.false_eq_true, ↓reduceIte, Bool.or_self]


/-- how a non-whitespace character updates the '?' memo -/
def qUpd (s : RL) (c : UInt8) : Option Nat :=
  if c == 63 && s.qmark.isNone && s.tgt.isSome then some s.p else s.qmark

/-- R1': any plain character (possibly '?') while no whitespace block is pending -/
theorem step_tchar (F : RLFlags) (s : RL) (c : UInt8) (hc : s.buf[s.rb + s.p]? = some c) (hp : rplain c)
    (hw : s.wsEnd = 0) :
    rlStep F s = .advance { s with qmark := qUpd s c, p := s.p + 1 } := by
  rw [rlStep_eq_charStep F s c hc hp.1 hp.2.1, charStep_plain F s c hc hp.1 hp.2.1]
  obtain ⟨_, _, _, _, b5, b6, b7⟩ := rplain_beq hp
  unfold processChar
  have e1 : endOfWspStrict F s = s := by
    unfold endOfWspStrict; simp [hw]
  rw [e1, notWsp F hp]
  simp only [Bool.false_eq_true, ↓reduceIte]
  unfold onOther
  have e2 : endOfWspBlock F s = s := by
    unfold endOfWspBlock; simp [hw]
  rw [e2]
  unfold qUpd
  by_cases bq : (c == 63) = true
  · simp only [bq, ↓reduceIte, Bool.true_and]
    by_cases h2 : (s.qmark.isNone && s.tgt.isSome) = true
    · simp only [h2, ↓reduceIte]
    · simp only [h2, ↓reduceIte, Bool.false_eq_true]
  · simp only [bq, b5, b6, b7, Bool.false_eq_true, ↓reduceIte, Bool.or_self, Bool.false_and]

/-- R2: the space that ends the method -/
theorem step_methodEnd (F : RLFlags) (s : RL) (hc : s.buf[s.rb + s.p]? = some cSP)
    (hm : s.hasMethod = false) (hp0 : s.p ≠ 0) (hw : s.wsEnd = 0) :
    rlStep F s = .advance { s with buf := s.buf.setIfInBounds (s.rb + s.p) 0, hasMethod := true, methodLen := s.p,
                                   mthd := stdMethodOf ((s.buf.setIfInBounds (s.rb + s.p) 0).extract s.rb (s.rb + s.p)).toList,
                                   wsStart := s.p, wsEnd := s.p + 1, p := s.p + 1 } := by
  have hb := fill_gt hc
  rw [rlStep_eq_charStep F s cSP hc (by decide) (by decide), charStep_plain F s cSP hc (by decide) (by decide)]
  unfold processChar
  have e1 : endOfWspStrict F s = s := by
    unfold endOfWspStrict; simp [hw]
  have hws : rlIsWsp F cSP = true := by simp [rlIsWsp]
  rw [e1, hws]
  simp only [↓reduceIte]
  unfold onWsp
  have hz : (s.p == 0) = false := by simp [hp0]
  simp only [hw, beq_self_eq_true, Bool.true_or, ↓reduceIte, hm, Bool.not_false, hz, Bool.false_eq_true]
  rw [wr_in hb]
  have hr : rdRange (s.buf.setIfInBounds (s.rb + s.p) 0) s.rb s.p
      = some ((s.buf.setIfInBounds (s.rb + s.p) 0).extract s.rb (s.rb + s.p)).toList := by
    unfold rdRange; rw [if_pos (by simp only [Array.size_setIfInBounds]; omega)]
  rw [hr]


theorem endStrict_id (F : RLFlags) (s : RL) (h : s.wsEnd = 0 ∨ s.p ≠ s.wsEnd) : endOfWspStrict F s = s := by
  unfold endOfWspStrict
  cases h with
  | inl h => simp [h]
  | inr h => simp [h]

theorem endBlock_id (F : RLFlags) (s : RL) (h : s.wsEnd = 0 ∨ s.p ≠ s.wsEnd ∨ F.wspBlocks = false) : endOfWspBlock F s = s := by
  unfold endOfWspBlock
  rcases h with h | h | h <;> simp [h]

/-- R1'': a plain character that is not '?', not directly after a whitespace block -/
theorem step_plain' (F : RLFlags) (s : RL) (c : UInt8) (hc : s.buf[s.rb + s.p]? = some c) (hp : rplain c)
    (hq : c ≠ 63) (hw : s.wsEnd = 0 ∨ s.p ≠ s.wsEnd) :
    rlStep F s = .advance { s with p := s.p + 1 } := by
  rw [rlStep_eq_charStep F s c hc hp.1 hp.2.1, charStep_plain F s c hc hp.1 hp.2.1]
  obtain ⟨_, _, _, _, b5, b6, b7⟩ := rplain_beq hp
  have bq : (c == 63) = false := by simp [hq]
  unfold processChar
  rw [endStrict_id F s hw, notWsp F hp]
  simp only [Bool.false_eq_true, ↓reduceIte]
  unfold onOther
  rw [endBlock_id F s (by rcases hw with h | h; exact Or.inl h; exact Or.inr (Or.inl h))]
  simp only [bq, b5, b6, b7, Bool.false_eq_true, ↓reduceIte, Bool.or_self]

/-- R3: the first character of the target, directly after the single space (no whitespace blocks) -/
theorem step_targetStart (F : RLFlags) (s : RL) (c : UInt8) (hc : s.buf[s.rb + s.p]? = some c) (hp : rplain c)
    (hB : F.wspBlocks = false) (hpe : s.p = s.wsEnd) (hne : s.wsEnd ≠ 0) (ht : s.tgt = none) :
    rlStep F s = .advance { s with tgt := some s.p, wsStart := 0, wsEnd := 0,
                                   qmark := if (c == 63 && s.qmark.isNone) = true then some s.p else s.qmark,
                                   p := s.p + 1 } := by
  rw [rlStep_eq_charStep F s c hc hp.1 hp.2.1, charStep_plain F s c hc hp.1 hp.2.1]
  obtain ⟨_, _, _, _, b5, b6, b7⟩ := rplain_beq hp
  unfold processChar
  have e1 : endOfWspStrict F s = { s with tgt := some s.p, wsStart := 0, wsEnd := 0 } := by
    unfold endOfWspStrict
    have : (!F.wspBlocks && s.p == s.wsEnd && s.wsEnd != 0) = true := by simp [hB, hpe, hne]
    simp only [this, ↓reduceIte, ht]
  rw [e1, notWsp F hp]
  simp only [Bool.false_eq_true, ↓reduceIte]
  unfold onOther
  rw [endBlock_id F _ (Or.inl rfl)]
  by_cases bq : (c == 63) = true
  · simp only [bq, ↓reduceIte, Bool.true_and, Option.isSome_some, Bool.and_true]
    by_cases h2 : s.qmark.isNone = true
    · simp only [h2, ↓reduceIte]
    · simp only [h2, ↓reduceIte, Bool.false_eq_true]
  · simp only [bq, b5, b6, b7, Bool.false_eq_true, ↓reduceIte, Bool.or_self, Bool.false_and]

/-- R4 (strict): the space that ends the target when whitespace in the URI is not parsed -/
theorem step_targetEnd_strict (F : RLFlags) (s : RL) (t0 : Nat) (hc : s.buf[s.rb + s.p]? = some cSP)
    (hU : F.wspInUri = false) (hm : s.hasMethod = true) (ht : s.tgt = some t0) (hv : s.version = none)
    (hw : s.wsEnd = 0) :
    rlStep F s = .advance { s with buf := s.buf.setIfInBounds (s.rb + s.p) 0, tgtLen := s.p - t0,
                                   wsStart := s.p, wsEnd := s.p + 1, p := s.p + 1 } := by
  have hb := fill_gt hc
  rw [rlStep_eq_charStep F s cSP hc (by decide) (by decide), charStep_plain F s cSP hc (by decide) (by decide)]
  unfold processChar
  have hws : rlIsWsp F cSP = true := by simp [rlIsWsp]
  rw [endStrict_id F s (Or.inl hw), hws]
  simp only [↓reduceIte]
  unfold onWsp
  simp only [hw, beq_self_eq_true, Bool.true_or, ↓reduceIte, hm, Bool.not_true, Bool.false_eq_true, hU, Bool.not_false, hv, ht]
  rw [wr_in hb]

/-- R4 (lenient): the same space when whitespace in the URI is parsed (resolved at the line end) -/
theorem step_targetEnd_lenient (F : RLFlags) (s : RL) (hc : s.buf[s.rb + s.p]? = some cSP)
    (hU : F.wspInUri = true) (hm : s.hasMethod = true) (hw : s.wsEnd = 0) :
    rlStep F s = .advance { s with wsStart := s.p, wsEnd := s.p + 1, p := s.p + 1 } := by
  rw [rlStep_eq_charStep F s cSP hc (by decide) (by decide), charStep_plain F s cSP hc (by decide) (by decide)]
  unfold processChar
  have hws : rlIsWsp F cSP = true := by simp [rlIsWsp]
  rw [endStrict_id F s (Or.inl hw), hws]
  simp only [↓reduceIte]
  unfold onWsp
  simp only [hw, beq_self_eq_true, Bool.true_or, ↓reduceIte, hm, Bool.not_true, Bool.false_eq_true, hU, bne_self_eq_false]

/-- R5 (strict): the first character of the version -/
theorem step_versionStart_strict (F : RLFlags) (s : RL) (c : UInt8) (t0 : Nat) (hc : s.buf[s.rb + s.p]? = some c)
    (hp : rplain c) (hq : c ≠ 63) (hB : F.wspBlocks = false) (hU : F.wspInUri = false) (hpe : s.p = s.wsEnd)
    (hne : s.wsEnd ≠ 0) (ht : s.tgt = some t0) :
    rlStep F s = .advance { s with version := some s.p, wsStart := 0, wsEnd := 0, p := s.p + 1 } := by
  rw [rlStep_eq_charStep F s c hc hp.1 hp.2.1, charStep_plain F s c hc hp.1 hp.2.1]
  obtain ⟨_, _, _, _, b5, b6, b7⟩ := rplain_beq hp
  have bq : (c == 63) = false := by simp [hq]
  unfold processChar
  have e1 : endOfWspStrict F s = { s with version := some s.p, wsStart := 0, wsEnd := 0 } := by
    unfold endOfWspStrict
    have : (!F.wspBlocks && s.p == s.wsEnd && s.wsEnd != 0) = true := by simp [hB, hpe, hne]
    simp only [this, ↓reduceIte, ht, hU, Bool.not_false]
  rw [e1, notWsp F hp]
  simp only [Bool.false_eq_true, ↓reduceIte]
  unfold onOther
  rw [endBlock_id F _ (Or.inl rfl)]
  simp only [bq, b5, b6, b7, Bool.false_eq_true, ↓reduceIte, Bool.or_self]

/-- R5 (lenient): the first character after the space: nothing is decided yet -/
theorem step_versionStart_lenient (F : RLFlags) (s : RL) (c : UInt8) (t0 : Nat) (hc : s.buf[s.rb + s.p]? = some c)
    (hp : rplain c) (hq : c ≠ 63) (hB : F.wspBlocks = false) (hU : F.wspInUri = true) (ht : s.tgt = some t0) :
    rlStep F s = .advance { s with p := s.p + 1 } := by
  rw [rlStep_eq_charStep F s c hc hp.1 hp.2.1, charStep_plain F s c hc hp.1 hp.2.1]
  obtain ⟨_, _, _, _, b5, b6, b7⟩ := rplain_beq hp
  have bq : (c == 63) = false := by simp [hq]
  unfold processChar
  have e1 : endOfWspStrict F s = s := by
    unfold endOfWspStrict
    split
    · simp only [ht, hU, Bool.not_true, Bool.false_eq_true, ↓reduceIte]
    · rfl
  rw [e1, notWsp F hp]
  simp only [Bool.false_eq_true, ↓reduceIte]
  unfold onOther
  rw [endBlock_id F s (Or.inr (Or.inr hB))]
  simp only [bq, b5, b6, b7, Bool.false_eq_true, ↓reduceIte, Bool.or_self]


theorem charStep_crlf (F : RLFlags) (s : RL) (hc : s.buf[s.rb + s.p]? = some cCR)
    (hn : s.buf[s.rb + s.p + 1]? = some cLF) : charStep F s = handleEol F s cCR := by
  have hb1 : s.rb + s.p + 1 < s.buf.size := by
    by_cases hlt : s.rb + s.p + 1 < s.buf.size
    · exact hlt
    · rw [Array.getElem?_eq_none (by omega)] at hn; cases hn
  unfold charStep
  rw [hc]
  have hf : (s.p + 1 == s.fill) = false := by simp [RL.fill]; omega
  simp only [beq_self_eq_true, ↓reduceIte, hf, Bool.false_eq_true, hn]

theorem rlStep_crlf (F : RLFlags) (s : RL) (hc : s.buf[s.rb + s.p]? = some cCR)
    (hn : s.buf[s.rb + s.p + 1]? = some cLF) (hp0 : s.p ≠ 0) : rlStep F s = handleEol F s cCR := by
  unfold rlStep
  have : (s.p == 0 && F.skipEmpty) = false := by simp [hp0]
  simp only [this, Bool.false_eq_true, ↓reduceIte]
  exact charStep_crlf F s hc hn

/-- R6 (strict) -/
theorem step_eol_strict (F : RLFlags) (s : RL) (t0 v0 : Nat) (hc : s.buf[s.rb + s.p]? = some cCR)
    (hn : s.buf[s.rb + s.p + 1]? = some cLF) (hp0 : s.p ≠ 0) (hU : F.wspInUri = false) (hm : s.hasMethod = true)
    (ht : s.tgt = some t0) (hv : s.version = some v0) :
    rlStep F s = finishLine s cCR t0 v0 := by
  rw [rlStep_crlf F s hc hn hp0]
  unfold handleEol
  simp only [hm, ↓reduceIte, hU, Bool.false_eq_true]
  unfold eolResolveStrict
  simp only [hv, ht]
  unfold eolFinish
  simp only [hv, ht]

/-- R6 (lenient): URI end and version start are determined now -/
theorem step_eol_lenient (F : RLFlags) (s : RL) (t0 : Nat) (hc : s.buf[s.rb + s.p]? = some cCR)
    (hn : s.buf[s.rb + s.p + 1]? = some cLF) (hp0 : s.p ≠ 0) (hU : F.wspInUri = true) (hm : s.hasMethod = true)
    (ht : s.tgt = some t0) (hne : s.wsEnd ≠ 0) (hws : s.rb + s.wsStart < s.buf.size) :
    rlStep F s = finishLine { s with buf := s.buf.setIfInBounds (s.rb + s.wsStart) 0, tgtLen := s.wsStart - t0,
                                     version := some s.wsEnd } cCR t0 s.wsEnd := by
  rw [rlStep_crlf F s hc hn hp0]
  unfold handleEol
  simp only [hm, ↓reduceIte, hU]
  unfold eolResolveWspInUri
  simp only [ne_eq, hne, not_false_eq_true, ↓reduceIte, ht]
  rw [wr_in hws]
  unfold eolFinish
  simp only [ht, hm]

/-- the line is consumed and the request line handed out -/
theorem finishLine_ok (s : RL) (t v : Nat) (vs : List UInt8) (hv : Int)
    (hr : rdRange s.buf (s.rb + v) (s.p - v) = some vs) (hpv : parseHttpVersion vs = .ok hv)
    (hb : s.rb + s.p < s.buf.size) :
    finishLine s cCR t v = .done (.ok {
        buf := s.buf.setIfInBounds (s.rb + s.p) 0, rb := s.rb + (s.p + 2), method := s.rb,
        methodLen := s.methodLen, mthd := s.mthd, tgt := s.rb + t, tgtLen := s.tgtLen, qmark := s.qmark.map (s.rb + ·),
        version := s.rb + v, httpVer := hv, numWs := s.numWs, crSp := s.crSp, skipped := s.skipped }) := by
  unfold finishLine
  rw [hr]
  simp only [hpv]
  rw [wr_in hb]
  simp


/-! ### running over a canonical request line -/

theorem run_step (F : RLFlags) (s s' : RL) (hi : RLInv s) (hs : rlStep F s = .advance s') :
    (rlScanner F).run s = (rlScanner F).run s' ∧ RLInv s' :=
  ⟨Scanner.run_advance (rlLaws F) s s' hi hs, ((rlStep_ok F s hi).adv s' hs).1⟩

/-- the bytes `w` are in the buffer at absolute offset `off` -/
def BufIs (buf : Bytes) (off : Nat) (w : List UInt8) : Prop := ∀ i, i < w.length → buf[off + i]? = w[i]?

theorem BufIs.left {buf : Bytes} {off : Nat} {a b : List UInt8} (h : BufIs buf off (a ++ b)) : BufIs buf off a := by
  intro i hi
  have := h i (by simp; omega)
  rw [this, List.getElem?_append_left hi]

theorem BufIs.right {buf : Bytes} {off : Nat} {a b : List UInt8} (h : BufIs buf off (a ++ b)) :
    BufIs buf (off + a.length) b := by
  intro i hi
  have := h (a.length + i) (by simp; omega)
  rw [Nat.add_assoc, this, List.getElem?_append_right (by omega)]
  congr 1; omega

theorem BufIs.head {buf : Bytes} {off : Nat} {c : UInt8} {w : List UInt8} (h : BufIs buf off (c :: w)) :
    buf[off]? = some c := by
  have := h 0 (by simp); simpa using this

theorem BufIs.tail {buf : Bytes} {off : Nat} {c : UInt8} {w : List UInt8} (h : BufIs buf off (c :: w)) :
    BufIs buf (off + 1) w := by
  intro i hi
  have := h (i + 1) (by simp; omega)
  rw [Nat.add_assoc, Nat.add_comm 1 i]; simpa using this

theorem BufIs.set {buf : Bytes} {off : Nat} {w : List UInt8} (h : BufIs buf off w) (j : Nat) (v : UInt8)
    (hj : j < off ∨ off + w.length ≤ j) : BufIs (buf.setIfInBounds j v) off w := by
  intro i hi
  rw [Array.getElem?_setIfInBounds, if_neg (by omega)]
  exact h i hi

/-- plain characters without '?' (method, version), not directly after a whitespace block -/
theorem run_plain (F : RLFlags) (w : List UInt8) :
    ∀ (s : RL), RLInv s → BufIs s.buf (s.rb + s.p) w → (∀ c ∈ w, rplain c ∧ c ≠ 63) →
      (s.wsEnd = 0 ∨ s.wsEnd < s.p) →
      (rlScanner F).run s = (rlScanner F).run { s with p := s.p + w.length } ∧ RLInv { s with p := s.p + w.length } := by
  induction w with
  | nil => intro s hi _ _ _; exact ⟨rfl, hi⟩
  | cons c w ih =>
    intro s hi hb hw hws
    have hc := hw c (by simp)
    have st := step_plain' F s c hb.head hc.1 hc.2 (by rcases hws with h | h; exact Or.inl h; exact Or.inr (by omega))
    have r1 := run_step F s _ hi st
    have := ih { s with p := s.p + 1 } r1.2 (by have := hb.tail; rwa [Nat.add_assoc] at this)
      (fun c' hc' => hw c' (by simp [hc']))
      (by rcases hws with h | h; exact Or.inl h; exact Or.inr (by show s.wsEnd < s.p + 1; omega))
    have e : s.p + 1 + w.length = s.p + (c :: w).length := by simp only [List.length_cons]; omega
    have this' : (rlScanner F).run { s with p := s.p + 1 } = (rlScanner F).run { s with p := s.p + 1 + w.length } ∧
        RLInv { s with p := s.p + 1 + w.length } := this
    rw [e] at this'
    exact ⟨r1.1.trans this'.1, this'.2⟩

/-- position of the first '?' -/
def firstQ : List UInt8 → Option Nat
  | [] => none
  | c :: cs => if c == 63 then some 0 else (firstQ cs).map (· + 1)

/-- the '?' memo after the target characters `w` starting at position `p` -/
def qAfter (q : Option Nat) (p : Nat) (w : List UInt8) : Option Nat :=
  match q with
  | some x => some x
  | none => (firstQ w).map (p + ·)

/-- target characters (plain, '?' allowed) after the first one -/
theorem run_target (F : RLFlags) (w : List UInt8) :
    ∀ (s : RL), RLInv s → BufIs s.buf (s.rb + s.p) w → (∀ c ∈ w, rplain c) → s.wsEnd = 0 → s.tgt.isSome = true →
      (rlScanner F).run s = (rlScanner F).run { s with qmark := qAfter s.qmark s.p w, p := s.p + w.length } ∧
        RLInv { s with qmark := qAfter s.qmark s.p w, p := s.p + w.length } := by
  induction w with
  | nil =>
    intro s hi _ _ _ _
    have : qAfter s.qmark s.p [] = s.qmark := by
      unfold qAfter; cases s.qmark <;> simp [firstQ]
    rw [this]; exact ⟨rfl, hi⟩
  | cons c w ih =>
    intro s hi hb hw hws ht
    have st := step_tchar F s c hb.head (hw c (by simp)) hws
    have r1 := run_step F s _ hi st
    have := ih { s with qmark := qUpd s c, p := s.p + 1 } r1.2 (by have := hb.tail; rwa [Nat.add_assoc] at this)
      (fun c' hc' => hw c' (by simp [hc'])) hws ht
    have e : s.p + 1 + w.length = s.p + (c :: w).length := by simp only [List.length_cons]; omega
    have eq : qAfter (qUpd s c) (s.p + 1) w = qAfter s.qmark s.p (c :: w) := by
      unfold qUpd qAfter
      cases hq : s.qmark with
      | some x => simp
      | none =>
        by_cases bq : (c == 63) = true
        · simp [bq, ht, firstQ]
        · simp only [bq, Bool.false_and, Bool.false_eq_true, ↓reduceIte, firstQ]
          cases firstQ w with
          | none => simp
          | some k => simp; omega
    have this' : (rlScanner F).run { s with qmark := qUpd s c, p := s.p + 1 } =
        (rlScanner F).run { s with qmark := qAfter (qUpd s c) (s.p + 1) w, p := s.p + 1 + w.length } ∧
        RLInv { s with qmark := qAfter (qUpd s c) (s.p + 1) w, p := s.p + 1 + w.length } := this
    rw [e, eq] at this'
    exact ⟨r1.1.trans this'.1, this'.2⟩


theorem extract_eq (buf : Bytes) (off : Nat) (w : List UInt8) (h : BufIs buf off w) :
    (buf.extract off (off + w.length)).toList = w := by
  apply List.ext_getElem?
  intro i
  simp only [Array.getElem?_toList, Array.getElem?_extract]
  by_cases hi : i < w.length
  · have hb : off + i < buf.size := by
      by_cases hlt : off + i < buf.size
      · exact hlt
      · have := h i hi
        rw [Array.getElem?_eq_none (by omega), List.getElem?_eq_getElem hi] at this; cases this
    rw [if_pos (by omega)]; exact h i hi
  · rw [if_neg (by omega), List.getElem?_eq_none (by omega)]

theorem rdRange_eq (buf : Bytes) (off : Nat) (w : List UInt8) (h : BufIs buf off w) (hs : off + w.length ≤ buf.size) :
    rdRange buf off w.length = some w := by
  unfold rdRange
  rw [if_pos hs, extract_eq buf off w h]

/-- the state reached after method, space and target; from here the two regimes differ -/
structure AfterTarget (s : RL) (buf0 : Bytes) (rb a b : Nat) (m t : List UInt8) : Prop where
  inv : RLInv s
  e_rb : s.rb = rb
  e_p : s.p = a + 1 + b
  e_buf : s.buf = buf0.setIfInBounds (rb + a) 0
  e_hm : s.hasMethod = true
  e_ml : s.methodLen = a
  e_mt : s.mthd = stdMethodOf m
  e_tgt : s.tgt = some (a + 1)
  e_q : s.qmark = (firstQ t).map (a + 1 + ·)
  e_ver : s.version = none
  e_we : s.wsEnd = 0
  e_nw : s.numWs = 0

/-- what the finished request line looks like (same in both regimes) -/
structure LineOK (r : ReqLine) (buf0 : Bytes) (rb a b : Nat) (m t v : List UInt8) (hv : Int) : Prop where
  e_rb : r.rb = rb + (a + b + 12)
  e_method : r.method = rb
  e_ml : r.methodLen = a
  e_mt : r.mthd = stdMethodOf m
  e_tgt : r.tgt = rb + (a + 1)
  e_tl : r.tgtLen = b
  e_q : r.qmark = (firstQ t).map (rb + (a + 1) + ·)
  e_ver : r.version = rb + (a + b + 2)
  e_hv : r.httpVer = hv
  e_nw : r.numWs = 0
  e_buf : r.buf = ((buf0.setIfInBounds (rb + a) 0).setIfInBounds (rb + (a + 1 + b)) 0).setIfInBounds (rb + (a + b + 10)) 0

theorem qmap_shift (q : Option Nat) (rb : Nat) (k : Nat) :
    (q.map (k + ·)).map (rb + ·) = q.map (rb + k + ·) := by
  cases q <;> simp [Nat.add_assoc]


/-- common facts about the tail `SP version CR LF` in the original buffer -/
structure TailBytes (buf0 : Bytes) (rb a b : Nat) (v : List UInt8) : Prop where
  sp : buf0[rb + (a + 1 + b)]? = some cSP
  ver : BufIs buf0 (rb + (a + b + 2)) v
  cr : buf0[rb + (a + b + 10)]? = some cCR
  lf : buf0[rb + (a + b + 11)]? = some cLF
  len : v.length = 8
  chars : ∀ c ∈ v, rplain c ∧ c ≠ 63

theorem tail_strict (F : RLFlags) (hB : F.wspBlocks = false) (hU : F.wspInUri = false) (s : RL) (buf0 : Bytes)
    (rb a b : Nat) (m t v : List UInt8) (hv : Int) (h : AfterTarget s buf0 rb a b m t) (tb : TailBytes buf0 rb a b v)
    (hpv : parseHttpVersion v = .ok hv) :
    ∃ r, (rlScanner F).run s = .done (.ok r) ∧ LineOK r buf0 rb a b m t v hv := by
  have get_s : ∀ j, j ≠ rb + a → s.buf[j]? = buf0[j]? := by
    intro j hj; rw [h.e_buf, Array.getElem?_setIfInBounds, if_neg (by omega)]
  -- the space after the target
  have hsp : s.buf[s.rb + s.p]? = some cSP := by rw [h.e_rb, h.e_p, get_s _ (by omega)]; exact tb.sp
  have st5 := step_targetEnd_strict F s (a + 1) hsp hU h.e_hm h.e_tgt h.e_ver h.e_we
  have r5 := run_step F s _ h.inv st5
  generalize hs5 : ({ s with buf := s.buf.setIfInBounds (s.rb + s.p) 0, tgtLen := s.p - (a + 1), wsStart := s.p, wsEnd := s.p + 1, p := s.p + 1 } : RL) = s5 at r5
  have b5 : s5.buf = (buf0.setIfInBounds (rb + a) 0).setIfInBounds (rb + (a + 1 + b)) 0 := by
    rw [← hs5]; show s.buf.setIfInBounds (s.rb + s.p) 0 = _; rw [h.e_buf, h.e_rb, h.e_p]
  have get5 : ∀ j, j ≠ rb + a → j ≠ rb + (a + 1 + b) → s5.buf[j]? = buf0[j]? := by
    intro j h1 h2
    rw [b5, Array.getElem?_setIfInBounds, if_neg (by omega), Array.getElem?_setIfInBounds, if_neg (by omega)]
  have p5 : s5.p = a + b + 2 := by rw [← hs5]; show s.p + 1 = _; rw [h.e_p]; omega
  have rb5 : s5.rb = rb := by rw [← hs5]; exact h.e_rb
  have we5 : s5.wsEnd = a + b + 2 := by rw [← hs5]; show s.p + 1 = _; rw [h.e_p]; omega
  have tg5 : s5.tgt = some (a + 1) := by rw [← hs5]; exact h.e_tgt
  -- the version
  obtain ⟨h0, v', hvv⟩ : ∃ h0 v', v = h0 :: v' := by
    cases v with
    | nil => have := tb.len; simp at this
    | cons h0 v' => exact ⟨h0, v', rfl⟩
  have hh0 := tb.chars h0 (by rw [hvv]; simp)
  have hver0 : s5.buf[s5.rb + s5.p]? = some h0 := by
    rw [rb5, p5, get5 _ (by omega) (by omega)]
    have := tb.ver 0 (by rw [hvv]; simp); rw [hvv] at this; simpa using this
  have st6 := step_versionStart_strict F s5 h0 (a + 1) hver0 hh0.1 hh0.2 hB hU (by rw [p5, we5]) (by rw [we5]; omega) tg5
  have r6 := run_step F s5 _ r5.2 st6
  generalize hs6 : ({ s5 with version := some s5.p, wsStart := 0, wsEnd := 0, p := s5.p + 1 } : RL) = s6 at r6
  have b6 : s6.buf = s5.buf := by rw [← hs6]
  have p6 : s6.p = a + b + 3 := by rw [← hs6]; show s5.p + 1 = _; rw [p5]
  have rb6 : s6.rb = rb := by rw [← hs6]; exact rb5
  have hv' : BufIs s6.buf (s6.rb + s6.p) v' := by
    intro i hi'
    rw [b6, rb6, p6, get5 _ (by omega) (by omega)]
    have := tb.ver (i + 1) (by rw [hvv]; simp; omega)
    rw [hvv] at this
    simp only [List.getElem?_cons_succ] at this
    rw [← this]; congr 1; omega
  have r7 := run_plain F v' s6 r6.2 hv' (fun c hc => tb.chars c (by rw [hvv]; simp [hc])) (Or.inl (by rw [← hs6]))
  generalize hs7 : ({ s6 with p := s6.p + v'.length } : RL) = s7 at r7
  have lv' : v'.length = 7 := by have := tb.len; rw [hvv] at this; simpa using this
  have b7 : s7.buf = s5.buf := by rw [← hs7]; exact b6
  have p7 : s7.p = a + b + 10 := by rw [← hs7]; show s6.p + v'.length = _; rw [p6, lv']
  have rb7 : s7.rb = rb := by rw [← hs7]; exact rb6
  have hm7 : s7.hasMethod = true := by rw [← hs7, ← hs6, ← hs5]; exact h.e_hm
  have tg7 : s7.tgt = some (a + 1) := by rw [← hs7, ← hs6]; exact tg5
  have ve7 : s7.version = some (a + b + 2) := by rw [← hs7, ← hs6]; show some s5.p = _; rw [p5]
  have hcr : s7.buf[s7.rb + s7.p]? = some cCR := by rw [b7, rb7, p7, get5 _ (by omega) (by omega)]; exact tb.cr
  have hlf : s7.buf[s7.rb + s7.p + 1]? = some cLF := by
    rw [b7, rb7, p7, get5 _ (by omega) (by omega)]; have := tb.lf; rwa [show rb + (a + b + 11) = rb + (a + b + 10) + 1 by omega] at this
  have st8 := step_eol_strict F s7 (a + 1) (a + b + 2) hcr hlf (by rw [p7]; omega) hU hm7 tg7 ve7
  have hrd : rdRange s7.buf (s7.rb + (a + b + 2)) (s7.p - (a + b + 2)) = some v := by
    have e8 : s7.p - (a + b + 2) = v.length := by rw [p7, tb.len]; omega
    rw [e8]
    apply rdRange_eq
    · intro i hi'
      rw [b7, rb7, get5 _ (by rw [tb.len] at hi'; omega) (by rw [tb.len] at hi'; omega)]; exact tb.ver i hi'
    · have := fill_gt hcr; rw [rb7, p7] at this; rw [rb7, tb.len]; omega
  have fin := finishLine_ok s7 (a + 1) (a + b + 2) v hv hrd hpv (fill_gt hcr)
  refine ⟨_, r5.1.trans (r6.1.trans (r7.1.trans (Scanner.run_done s7 _ (by show rlStep F s7 = _; rw [st8, fin])))), ?_⟩
  refine ⟨?_, ?_, ?_, ?_, ?_, ?_, ?_, ?_, rfl, ?_, ?_⟩
  · show s7.rb + (s7.p + 2) = _; rw [rb7, p7]
  · exact rb7
  · show s7.methodLen = a; rw [← hs7, ← hs6, ← hs5]; exact h.e_ml
  · show s7.mthd = _; rw [← hs7, ← hs6, ← hs5]; exact h.e_mt
  · show s7.rb + (a + 1) = _; rw [rb7]
  · show s7.tgtLen = b; rw [← hs7, ← hs6, ← hs5]; show s.p - (a + 1) = b; rw [h.e_p]; omega
  · show s7.qmark.map (s7.rb + ·) = _
    have : s7.qmark = (firstQ t).map (a + 1 + ·) := by rw [← hs7, ← hs6, ← hs5]; exact h.e_q
    rw [this, rb7, qmap_shift]
  · show s7.rb + (a + b + 2) = _; rw [rb7]
  · show s7.numWs = 0; rw [← hs7, ← hs6, ← hs5]; exact h.e_nw
  · show s7.buf.setIfInBounds (s7.rb + s7.p) 0 = _; rw [b7, b5, rb7, p7]


theorem tail_lenient (F : RLFlags) (hB : F.wspBlocks = false) (hU : F.wspInUri = true) (s : RL) (buf0 : Bytes)
    (rb a b : Nat) (m t v : List UInt8) (hv : Int) (h : AfterTarget s buf0 rb a b m t) (tb : TailBytes buf0 rb a b v)
    (hpv : parseHttpVersion v = .ok hv) :
    ∃ r, (rlScanner F).run s = .done (.ok r) ∧ LineOK r buf0 rb a b m t v hv := by
  have get_s : ∀ j, j ≠ rb + a → s.buf[j]? = buf0[j]? := by
    intro j hj; rw [h.e_buf, Array.getElem?_setIfInBounds, if_neg (by omega)]
  have hsp : s.buf[s.rb + s.p]? = some cSP := by rw [h.e_rb, h.e_p, get_s _ (by omega)]; exact tb.sp
  have st5 := step_targetEnd_lenient F s hsp hU h.e_hm h.e_we
  have r5 := run_step F s _ h.inv st5
  generalize hs5 : ({ s with wsStart := s.p, wsEnd := s.p + 1, p := s.p + 1 } : RL) = s5 at r5
  have b5 : s5.buf = s.buf := by rw [← hs5]
  have p5 : s5.p = a + b + 2 := by rw [← hs5]; show s.p + 1 = _; rw [h.e_p]; omega
  have rb5 : s5.rb = rb := by rw [← hs5]; exact h.e_rb
  have we5 : s5.wsEnd = a + b + 2 := by rw [← hs5]; show s.p + 1 = _; rw [h.e_p]; omega
  have ws5 : s5.wsStart = a + 1 + b := by rw [← hs5]; exact h.e_p
  have tg5 : s5.tgt = some (a + 1) := by rw [← hs5]; exact h.e_tgt
  obtain ⟨h0, v', hvv⟩ : ∃ h0 v', v = h0 :: v' := by
    cases v with
    | nil => have := tb.len; simp at this
    | cons h0 v' => exact ⟨h0, v', rfl⟩
  have hh0 := tb.chars h0 (by rw [hvv]; simp)
  have hver0 : s5.buf[s5.rb + s5.p]? = some h0 := by
    rw [b5, rb5, p5, get_s _ (by omega)]
    have := tb.ver 0 (by rw [hvv]; simp); rw [hvv] at this; simpa using this
  have st6 := step_versionStart_lenient F s5 h0 (a + 1) hver0 hh0.1 hh0.2 hB hU tg5
  have r6 := run_step F s5 _ r5.2 st6
  generalize hs6 : ({ s5 with p := s5.p + 1 } : RL) = s6 at r6
  have b6 : s6.buf = s.buf := by rw [← hs6]; exact b5
  have p6 : s6.p = a + b + 3 := by rw [← hs6]; show s5.p + 1 = _; rw [p5]
  have rb6 : s6.rb = rb := by rw [← hs6]; exact rb5
  have we6 : s6.wsEnd = a + b + 2 := by rw [← hs6]; exact we5
  have hv' : BufIs s6.buf (s6.rb + s6.p) v' := by
    intro i hi'
    rw [b6, rb6, p6, get_s _ (by omega)]
    have := tb.ver (i + 1) (by rw [hvv]; simp; omega)
    rw [hvv] at this
    simp only [List.getElem?_cons_succ] at this
    rw [← this]; congr 1; omega
  have r7 := run_plain F v' s6 r6.2 hv' (fun c hc => tb.chars c (by rw [hvv]; simp [hc])) (Or.inr (by rw [we6, p6]; omega))
  generalize hs7 : ({ s6 with p := s6.p + v'.length } : RL) = s7 at r7
  have lv' : v'.length = 7 := by have := tb.len; rw [hvv] at this; simpa using this
  have b7 : s7.buf = s.buf := by rw [← hs7]; exact b6
  have p7 : s7.p = a + b + 10 := by rw [← hs7]; show s6.p + v'.length = _; rw [p6, lv']
  have rb7 : s7.rb = rb := by rw [← hs7]; exact rb6
  have we7 : s7.wsEnd = a + b + 2 := by rw [← hs7]; exact we6
  have ws7 : s7.wsStart = a + 1 + b := by rw [← hs7, ← hs6]; exact ws5
  have hm7 : s7.hasMethod = true := by rw [← hs7, ← hs6, ← hs5]; exact h.e_hm
  have tg7 : s7.tgt = some (a + 1) := by rw [← hs7, ← hs6]; exact tg5
  have hcr : s7.buf[s7.rb + s7.p]? = some cCR := by rw [b7, rb7, p7, get_s _ (by omega)]; exact tb.cr
  have hlf : s7.buf[s7.rb + s7.p + 1]? = some cLF := by
    rw [b7, rb7, p7, get_s _ (by omega)]; have := tb.lf; rwa [show rb + (a + b + 11) = rb + (a + b + 10) + 1 by omega] at this
  have hsz := fill_gt hcr
  have st8 := step_eol_lenient F s7 (a + 1) hcr hlf (by rw [p7]; omega) hU hm7 tg7 (by rw [we7]; omega)
    (by rw [rb7, ws7]; rw [rb7, p7] at hsz; omega)
  generalize hs8 : ({ s7 with buf := s7.buf.setIfInBounds (s7.rb + s7.wsStart) 0, tgtLen := s7.wsStart - (a + 1), version := some s7.wsEnd } : RL) = s8 at st8
  have b8 : s8.buf = (buf0.setIfInBounds (rb + a) 0).setIfInBounds (rb + (a + 1 + b)) 0 := by
    rw [← hs8]; show s7.buf.setIfInBounds (s7.rb + s7.wsStart) 0 = _; rw [b7, h.e_buf, rb7, ws7]
  have get8 : ∀ j, j ≠ rb + a → j ≠ rb + (a + 1 + b) → s8.buf[j]? = buf0[j]? := by
    intro j h1 h2
    rw [b8, Array.getElem?_setIfInBounds, if_neg (by omega), Array.getElem?_setIfInBounds, if_neg (by omega)]
  have p8 : s8.p = a + b + 10 := by rw [← hs8]; exact p7
  have rb8 : s8.rb = rb := by rw [← hs8]; exact rb7
  have hsz8 : s8.rb + s8.p < s8.buf.size := by rw [b8, rb8, p8]; simp only [Array.size_setIfInBounds]; rw [b7, h.e_buf, rb7, p7] at hsz; simpa using hsz
  have hrd : rdRange s8.buf (s8.rb + s7.wsEnd) (s8.p - s7.wsEnd) = some v := by
    have e8 : s8.p - s7.wsEnd = v.length := by rw [p8, we7, tb.len]; omega
    rw [e8, we7]
    apply rdRange_eq
    · intro i hi'
      rw [rb8, get8 _ (by rw [tb.len] at hi'; omega) (by rw [tb.len] at hi'; omega)]; exact tb.ver i hi'
    · rw [rb8, p8] at hsz8; rw [rb8, tb.len]; omega
  have fin := finishLine_ok s8 (a + 1) s7.wsEnd v hv hrd hpv hsz8
  refine ⟨_, r5.1.trans (r6.1.trans (r7.1.trans (Scanner.run_done s7 _ (by show rlStep F s7 = _; rw [st8, fin])))), ?_⟩
  refine ⟨?_, ?_, ?_, ?_, ?_, ?_, ?_, ?_, rfl, ?_, ?_⟩
  · show s8.rb + (s8.p + 2) = _; rw [rb8, p8]
  · exact rb8
  · show s8.methodLen = a; rw [← hs8, ← hs7, ← hs6, ← hs5]; exact h.e_ml
  · show s8.mthd = _; rw [← hs8, ← hs7, ← hs6, ← hs5]; exact h.e_mt
  · show s8.rb + (a + 1) = _; rw [rb8]
  · show s8.tgtLen = b; rw [← hs8]; show s7.wsStart - (a + 1) = b; rw [ws7]; omega
  · show s8.qmark.map (s8.rb + ·) = _
    have : s8.qmark = (firstQ t).map (a + 1 + ·) := by rw [← hs8, ← hs7, ← hs6, ← hs5]; exact h.e_q
    rw [this, rb8, qmap_shift]
  · show s8.rb + s7.wsEnd = _; rw [rb8, we7]
  · show s8.numWs = 0; rw [← hs8, ← hs7, ← hs6, ← hs5]; exact h.e_nw
  · show s8.buf.setIfInBounds (s8.rb + s8.p) 0 = _; rw [b8, rb8, p8]


theorem firstQ_cons (c : UInt8) (w : List UInt8) (k : Nat) :
    (match (if (c == 63 && (none : Option Nat).isNone) = true then some k else none) with
      | some x => some x
      | none => (firstQ w).map (k + 1 + ·)) = (firstQ (c :: w)).map (k + ·) := by
  by_cases bq : (c == 63) = true
  · simp [bq, firstQ]
  · simp only [bq, Bool.false_and, Bool.false_eq_true, ↓reduceIte, firstQ]
    cases firstQ w with
    | none => simp
    | some j => simp; omega

/-- method, space, target: the state in which the two regimes start to differ -/
theorem head_part (F : RLFlags) (hB : F.wspBlocks = false) (buf0 : Bytes) (rb : Nat) (m t rest : List UInt8)
    (hrb : rb ≤ buf0.size) (hm0 : m ≠ []) (ht0 : t ≠ []) (hm : ∀ c ∈ m, rplain c ∧ c ≠ 63) (ht : ∀ c ∈ t, rplain c)
    (hbuf : BufIs buf0 rb (m ++ [cSP] ++ t ++ rest)) :
    ∃ s, (rlScanner F).run (RL.init buf0 rb) = (rlScanner F).run s ∧ AfterTarget s buf0 rb m.length t.length m t := by
  have hbm : BufIs buf0 rb m := hbuf.left.left.left
  have hbs : buf0[rb + m.length]? = some cSP := by
    have := hbuf.left.left.right 0 (by simp); simpa using this
  have hbt : BufIs buf0 (rb + (m.length + 1)) t := by
    have := hbuf.left.right; simpa [Nat.add_assoc] using this
  have a1 : 1 ≤ m.length := by
    cases m with
    | nil => exact absurd rfl hm0
    | cons _ _ => simp
  -- 1. the method
  have i0 := RLInv.init buf0 rb hrb
  have r1 := run_plain F m (RL.init buf0 rb) i0 (by show BufIs buf0 (rb + 0) m; rw [Nat.add_zero]; exact hbm) hm (Or.inl rfl)
  generalize hs1 : ({ RL.init buf0 rb with p := (RL.init buf0 rb).p + m.length } : RL) = s1 at r1
  have p1 : s1.p = m.length := by rw [← hs1]; show 0 + m.length = _; omega
  have rb1 : s1.rb = rb := by rw [← hs1]; rfl
  have b1 : s1.buf = buf0 := by rw [← hs1]; rfl
  -- 2. the space
  have hsp : s1.buf[s1.rb + s1.p]? = some cSP := by rw [b1, rb1, p1]; exact hbs
  have st2 := step_methodEnd F s1 hsp (by rw [← hs1]; rfl) (by rw [p1]; omega) (by rw [← hs1]; rfl)
  have r2 := run_step F s1 _ r1.2 st2
  generalize hs2 : ({ s1 with buf := s1.buf.setIfInBounds (s1.rb + s1.p) 0, hasMethod := true, methodLen := s1.p, mthd := stdMethodOf ((s1.buf.setIfInBounds (s1.rb + s1.p) 0).extract s1.rb (s1.rb + s1.p)).toList, wsStart := s1.p, wsEnd := s1.p + 1, p := s1.p + 1 } : RL) = s2 at r2
  have b2 : s2.buf = buf0.setIfInBounds (rb + m.length) 0 := by
    rw [← hs2]; show s1.buf.setIfInBounds (s1.rb + s1.p) 0 = _; rw [b1, rb1, p1]
  have p2 : s2.p = m.length + 1 := by rw [← hs2]; show s1.p + 1 = _; rw [p1]
  have rb2 : s2.rb = rb := by rw [← hs2]; exact rb1
  have we2 : s2.wsEnd = m.length + 1 := by rw [← hs2]; show s1.p + 1 = _; rw [p1]
  have mt2 : s2.mthd = stdMethodOf m := by
    rw [← hs2]
    show stdMethodOf ((s1.buf.setIfInBounds (s1.rb + s1.p) 0).extract s1.rb (s1.rb + s1.p)).toList = _
    rw [b1, rb1, p1, extract_eq _ rb m (hbm.set _ _ (Or.inr (Nat.le_refl _)))]
  have get2 : ∀ j, j ≠ rb + m.length → s2.buf[j]? = buf0[j]? := by
    intro j hj; rw [b2, Array.getElem?_setIfInBounds, if_neg (by omega)]
  -- 3. the first character of the target
  obtain ⟨c0, t', htt⟩ : ∃ c0 t', t = c0 :: t' := by
    cases t with
    | nil => exact absurd rfl ht0
    | cons c0 t' => exact ⟨c0, t', rfl⟩
  have hc0 : s2.buf[s2.rb + s2.p]? = some c0 := by
    rw [rb2, p2, get2 _ (by omega)]
    have := hbt 0 (by rw [htt]; simp); rw [htt] at this; simpa using this
  have st3 := step_targetStart F s2 c0 hc0 (ht c0 (by rw [htt]; simp)) hB (by rw [p2, we2]) (by rw [we2]; omega)
    (by rw [← hs2, ← hs1]; rfl)
  have r3 := run_step F s2 _ r2.2 st3
  generalize hs3 : ({ s2 with tgt := some s2.p, wsStart := 0, wsEnd := 0, qmark := if (c0 == 63 && s2.qmark.isNone) = true then some s2.p else s2.qmark, p := s2.p + 1 } : RL) = s3 at r3
  have b3 : s3.buf = s2.buf := by rw [← hs3]
  have p3 : s3.p = m.length + 2 := by rw [← hs3]; show s2.p + 1 = _; rw [p2]
  have rb3 : s3.rb = rb := by rw [← hs3]; exact rb2
  have q2 : s2.qmark = none := by rw [← hs2, ← hs1]; rfl
  have q3 : s3.qmark = if (c0 == 63 && (none : Option Nat).isNone) = true then some (m.length + 1) else none := by
    rw [← hs3]; show (if (c0 == 63 && s2.qmark.isNone) = true then some s2.p else s2.qmark) = _; rw [q2, p2]
  -- 4. the rest of the target
  have hbt' : BufIs s3.buf (s3.rb + s3.p) t' := by
    intro i hi'
    rw [b3, rb3, p3, get2 _ (by omega)]
    have := hbt (i + 1) (by rw [htt]; simp; omega)
    rw [htt] at this
    simp only [List.getElem?_cons_succ] at this
    rw [← this]; congr 1; omega
  have r4 := run_target F t' s3 r3.2 hbt' (fun c hc => ht c (by rw [htt]; simp [hc])) (by rw [← hs3]) (by rw [← hs3]; rfl)
  refine ⟨_, r1.1.trans (r2.1.trans (r3.1.trans r4.1)), ?_⟩
  have lt : t.length = t'.length + 1 := by rw [htt]; simp
  refine ⟨r4.2, rb3, ?_, ?_, ?_, ?_, ?_, ?_, ?_, ?_, ?_, ?_⟩
  · show s3.p + t'.length = _; rw [p3, lt]; omega
  · show s3.buf = _; rw [b3, b2]
  · show s3.hasMethod = true; rw [← hs3, ← hs2]
  · show s3.methodLen = _; rw [← hs3, ← hs2]; exact p1
  · show s3.mthd = _; rw [← hs3]; exact mt2
  · show s3.tgt = _; rw [← hs3]; show some s2.p = _; rw [p2]
  · show qAfter s3.qmark s3.p t' = _
    rw [q3, p3, htt]
    have := firstQ_cons c0 t' (m.length + 1)
    unfold qAfter
    rw [show m.length + 2 = m.length + 1 + 1 by omega]
    exact this
  · show s3.version = none; rw [← hs3, ← hs2, ← hs1]; rfl
  · show s3.wsEnd = 0; rw [← hs3]
  · show s3.numWs = 0; rw [← hs3, ← hs2, ← hs1]; rfl


/-- **Round trip of the canonical request line** `method SP target SP version CRLF` when
    whitespace blocks are not merged (levels ≥ 0), in both regimes (URI end decided at the
    first space — levels ≥ 1 — or at the line end — level 0): the parser hands out exactly
    the three tokens, remembers the first '?' of the target, recognises the method and the
    version, consumes exactly the line; the buffer is the input with the three delimiters
    replaced by NUL. -/
theorem reqline_roundtrip (F : RLFlags) (hB : F.wspBlocks = false) (buf0 : Bytes) (rb : Nat) (m t v : List UInt8)
    (hv : Int) (hrb : rb ≤ buf0.size) (hm0 : m ≠ []) (ht0 : t ≠ []) (hm : ∀ c ∈ m, rplain c ∧ c ≠ 63)
    (ht : ∀ c ∈ t, rplain c) (hvl : v.length = 8) (hvc : ∀ c ∈ v, rplain c ∧ c ≠ 63)
    (hpv : parseHttpVersion v = .ok hv)
    (hbuf : BufIs buf0 rb (m ++ [cSP] ++ t ++ ([cSP] ++ v ++ [cCR, cLF]))) :
    ∃ r, (rlScanner F).run (RL.init buf0 rb) = .done (.ok r) ∧ LineOK r buf0 rb m.length t.length m t v hv := by
  obtain ⟨s, r1, at1⟩ := head_part F hB buf0 rb m t _ hrb hm0 ht0 hm ht hbuf
  have hrest : BufIs buf0 (rb + (m.length + 1 + t.length)) ([cSP] ++ v ++ [cCR, cLF]) := by
    intro i hi'
    have := hbuf.right i hi'
    rw [← this]; congr 1; simp; omega
  have tb : TailBytes buf0 rb m.length t.length v := by
    refine ⟨?_, ?_, ?_, ?_, hvl, hvc⟩
    · have := hrest.left.left 0 (by simp); simpa using this
    · have := hrest.left.right
      intro i hi'
      have h2 := this i hi'
      rw [← h2]; congr 1; simp; omega
    · have := hrest.right 0 (by simp)
      simp only [List.length_append, List.length_cons, List.length_nil, hvl] at this
      rw [← show rb + (m.length + 1 + t.length) + (0 + 1 + 8) + 0 = rb + (m.length + t.length + 10) by omega]
      simpa using this
    · have := hrest.right 1 (by simp)
      simp only [List.length_append, List.length_cons, List.length_nil, hvl] at this
      rw [← show rb + (m.length + 1 + t.length) + (0 + 1 + 8) + 1 = rb + (m.length + t.length + 11) by omega]
      simpa using this
  cases hU : F.wspInUri with
  | false =>
    obtain ⟨r, r2, ok⟩ := tail_strict F hB hU s buf0 rb m.length t.length m t v hv at1 tb hpv
    exact ⟨r, r1.trans r2, ok⟩
  | true =>
    obtain ⟨r, r2, ok⟩ := tail_lenient F hB hU s buf0 rb m.length t.length m t v hv at1 tb hpv
    exact ⟨r, r1.trans r2, ok⟩

/-- what the three strings of a finished line read back as: the tokens sent, each followed by NUL -/
theorem LineOK.views {r : ReqLine} {buf0 : Bytes} {rb a b : Nat} {m t v : List UInt8} {hv : Int}
    (h : LineOK r buf0 rb a b m t v hv) (ha : m.length = a) (hb : t.length = b) (hvl : v.length = 8)
    (hbuf : BufIs buf0 rb (m ++ [cSP] ++ t ++ ([cSP] ++ v ++ [cCR, cLF]))) :
    BufIs r.buf r.method (m ++ [0]) ∧ BufIs r.buf r.tgt (t ++ [0]) ∧ BufIs r.buf r.version (v ++ [0]) := by
  have hrest : BufIs buf0 (rb + (a + 1 + b)) ([cSP] ++ v ++ [cCR, cLF]) := by
    intro i hi'
    have := hbuf.right i hi'
    rw [← this]; congr 1; simp [ha, hb]; omega
  have hbm : BufIs buf0 rb m := hbuf.left.left.left
  have hbt : BufIs buf0 (rb + (a + 1)) t := by
    have := hbuf.left.right; simpa [Nat.add_assoc, ha] using this
  have hbv : BufIs buf0 (rb + (a + b + 2)) v := by
    intro i hi'
    have := hrest.left.right i hi'
    rw [← this]; congr 1; simp; omega
  have hsz : rb + (a + b + 10) < buf0.size := by
    have := hrest.right 0 (by simp)
    simp only [List.length_append, List.length_cons, List.length_nil, hvl] at this
    by_cases hlt : rb + (a + b + 10) < buf0.size
    · exact hlt
    · rw [Array.getElem?_eq_none (by omega)] at this; simp at this
  have hsz1 : rb + a < buf0.size := by omega
  have hsz2 : rb + (a + 1 + b) < buf0.size := by omega
  have getO : ∀ j, j ≠ rb + a → j ≠ rb + (a + 1 + b) → j ≠ rb + (a + b + 10) → r.buf[j]? = buf0[j]? := by
    intro j h1 h2 h3
    rw [h.e_buf]
    simp only [Array.getElem?_setIfInBounds]
    rw [if_neg (by omega), if_neg (by omega), if_neg (by omega)]
  have get1 : r.buf[rb + a]? = some 0 := by
    rw [h.e_buf]
    simp only [Array.getElem?_setIfInBounds, Array.size_setIfInBounds]
    rw [if_neg (by omega), if_neg (by omega)]; simp [hsz1]
  have get2 : r.buf[rb + (a + 1 + b)]? = some 0 := by
    rw [h.e_buf]
    simp only [Array.getElem?_setIfInBounds, Array.size_setIfInBounds]
    rw [if_neg (by omega)]; simp [hsz2]
  have get3 : r.buf[rb + (a + b + 10)]? = some 0 := by
    rw [h.e_buf]
    simp only [Array.getElem?_setIfInBounds, Array.size_setIfInBounds]
    simp [hsz]
  refine ⟨?_, ?_, ?_⟩
  · rw [h.e_method]
    intro i hi'
    simp only [List.length_append, List.length_cons, List.length_nil, ha] at hi'
    by_cases hia : i = a
    · subst hia
      rw [get1, List.getElem?_append_right (by omega)]
      simp [ha]
    · rw [getO _ (by omega) (by omega) (by omega), List.getElem?_append_left (by omega)]
      exact hbm i (by omega)
  · rw [h.e_tgt]
    intro i hi'
    simp only [List.length_append, List.length_cons, List.length_nil, hb] at hi'
    by_cases hib : i = b
    · subst hib
      rw [show rb + (a + 1) + i = rb + (a + 1 + i) by omega, get2, List.getElem?_append_right (by omega)]
      simp [hb]
    · rw [getO _ (by omega) (by omega) (by omega), List.getElem?_append_left (by omega)]
      exact hbt i (by omega)
  · rw [h.e_ver]
    intro i hi'
    simp only [List.length_append, List.length_cons, List.length_nil, hvl] at hi'
    by_cases hi8 : i = 8
    · subst hi8
      rw [show rb + (a + b + 2) + 8 = rb + (a + b + 10) by omega, get3, List.getElem?_append_right (by omega)]
      simp [hvl]
    · rw [getO _ (by omega) (by omega) (by omega), List.getElem?_append_left (by omega)]
      exact hbv i (by omega)

end RLP
end Mhd.Req
