/-
  C17 proofs: every output of `MHD_str_remove_token_caseless_` satisfies the precondition
  (`isCsList`) of `MHD_str_remove_tokens_caseless_`, and its elements are the kept elements.
-/
import Mhd.Proofs.StrRtMain

namespace Mhd.Str

theorem splitComma_commafree (k : Bytes) (hk : ∀ x ∈ k, x ≠ 0x2c) : splitComma k = [k] := by
  rw [splitComma_eq]
  have hall : ∀ x ∈ k, notComma x = true := fun x hx => by simp [notComma, hk x hx]
  have h1 : headElem k = k := by
    have := takeWhile_append_all notComma k [] hall (Or.inl rfl)
    simpa [headElem] using this
  have h2 : restElems k = [] := by
    have := restElems_append_word k [] hall
    simpa [restElems] using this
  rw [h1, h2]

theorem splitComma_sp (Y : Bytes) : splitComma (0x20 :: Y) =
    match splitComma Y with
    | [] => [[0x20]]
    | h :: t => (0x20 :: h) :: t := by
  rw [splitComma_eq (0x20 :: Y), splitComma_eq Y, headElem_cons _ _ (by decide), restElems_cons _ _ (by decide)]

theorem splitComma_join (k : Bytes) (ks : List Bytes) (hok : ∀ x ∈ k :: ks, elemOk x = true) :
    splitComma (joinWith sepCS (k :: ks)) = k :: ks.map (fun e => 0x20 :: e) := by
  induction ks generalizing k with
  | nil =>
    simp only [joinWith, List.map_nil]
    exact splitComma_commafree k ((elemOk_iff k).mp (hok k (by simp))).2
  | cons k' ks' ih =>
    have hk := ((elemOk_iff k).mp (hok k (by simp))).2
    have hall : ∀ x ∈ k, notComma x = true := fun x hx => by simp [notComma, hk x hx]
    have hj : joinWith sepCS (k :: k' :: ks') = k ++ 0x2c :: (0x20 :: joinWith sepCS (k' :: ks')) := by
      rw [joinWith_cons_cons]; rfl
    rw [hj, splitComma_eq]
    have h1 : headElem (k ++ 0x2c :: (0x20 :: joinWith sepCS (k' :: ks'))) = k :=
      takeWhile_append_all notComma k _ hall (Or.inr ⟨0x2c, _, rfl, by decide⟩)
    have h2 : restElems (k ++ 0x2c :: (0x20 :: joinWith sepCS (k' :: ks'))) = 0x2c :: (0x20 :: joinWith sepCS (k' :: ks')) := by
      rw [restElems_append_word _ _ hall]; simp [restElems, notComma]
    rw [h1, h2]
    simp only
    rw [splitComma_sp, ih k' (fun x hx => hok x (List.mem_cons_of_mem _ hx))]
    simp

theorem csElems_join (ks : List Bytes) (hok : ∀ x ∈ ks, elemOk x = true) : csElems (joinWith sepCS ks) = ks := by
  cases ks with
  | nil => rfl
  | cons k t =>
    have hne : joinWith sepCS (k :: t) ≠ [] := joinWith_ne_nil _ _ _ ((elemOk_iff k).mp (hok k (by simp))).1
    unfold csElems
    rw [if_neg hne, splitComma_join k t hok]
    simp only [List.map_map, List.cons.injEq, true_and]
    conv => rhs; rw [← List.map_id t]
    apply List.map_congr_left
    intro a _; rfl

theorem isCsList_join (ks : List Bytes) (hok : ∀ x ∈ ks, elemOk x = true) : isCsList (joinWith sepCS ks) = true := by
  unfold isCsList
  rw [csElems_join ks hok]
  simp only [Bool.and_eq_true, List.all_eq_true, beq_self_eq_true, and_true]
  exact hok

/-! ### the kept, normalised elements are non-empty and comma-free -/

theorem wordsAux_mem (acc e : Bytes) : ∀ w ∈ wordsAux acc e, w ≠ [] ∧ ∀ x ∈ w, x ∈ acc ∨ x ∈ e := by
  induction e generalizing acc with
  | nil =>
    intro w hw
    by_cases ha : acc = []
    · simp [wordsAux, ha] at hw
    · simp only [wordsAux, ha, if_false, List.mem_singleton] at hw
      subst hw
      exact ⟨by simpa using ha, fun x hx => Or.inl (List.mem_reverse.mp hx)⟩
  | cons c t ih =>
    intro w hw
    rw [wordsAux] at hw
    by_cases hc : isWs c = true
    · simp only [hc, if_true] at hw
      by_cases ha : acc = []
      · simp only [ha, if_true] at hw
        obtain ⟨h1, h2⟩ := ih [] w hw
        exact ⟨h1, fun x hx => by rcases h2 x hx with h | h; · simp at h
                                  · exact Or.inr (List.mem_cons_of_mem _ h)⟩
      · simp only [ha, if_false, List.mem_cons] at hw
        rcases hw with hw | hw
        · subst hw
          exact ⟨by simpa using ha, fun x hx => Or.inl (List.mem_reverse.mp hx)⟩
        · obtain ⟨h1, h2⟩ := ih [] w hw
          exact ⟨h1, fun x hx => by rcases h2 x hx with h | h; · simp at h
                                    · exact Or.inr (List.mem_cons_of_mem _ h)⟩
    · simp only [hc, Bool.false_eq_true, if_false] at hw
      obtain ⟨h1, h2⟩ := ih (c :: acc) w hw
      refine ⟨h1, fun x hx => ?_⟩
      rcases h2 x hx with h | h
      · rcases List.mem_cons.mp h with h | h
        · right; rw [h]; simp
        · left; exact h
      · exact Or.inr (List.mem_cons_of_mem _ h)

theorem joinWith_mem (sep : Bytes) (l : List Bytes) : ∀ x ∈ joinWith sep l, x ∈ sep ∨ ∃ w ∈ l, x ∈ w := by
  induction l with
  | nil => intro x hx; simp [joinWith] at hx
  | cons a t ih =>
    intro x hx
    rw [joinWith_cons] at hx
    rcases List.mem_append.mp hx with h | h
    · exact Or.inr ⟨a, by simp, h⟩
    · by_cases ht : t = []
      · simp [ht] at h
      · simp only [ht, if_false] at h
        rcases List.mem_append.mp h with h | h
        · exact Or.inl h
        · rcases ih x h with h | ⟨w, hw, hxw⟩
          · exact Or.inl h
          · exact Or.inr ⟨w, List.mem_cons_of_mem _ hw, hxw⟩

theorem splitAux_commafree (acc r : Bytes) (hacc : ∀ x ∈ acc, x ≠ 0x2c) : ∀ p ∈ splitAux acc r, ∀ x ∈ p, x ≠ 0x2c := by
  induction r generalizing acc with
  | nil =>
    intro p hp x hx
    simp only [splitAux, List.mem_singleton] at hp
    subst hp; exact hacc x (List.mem_reverse.mp hx)
  | cons c t ih =>
    intro p hp
    rw [splitAux] at hp
    by_cases hc : c = 0x2c
    · simp only [hc, if_true, List.mem_cons] at hp
      rcases hp with hp | hp
      · subst hp; intro x hx; exact hacc x (List.mem_reverse.mp hx)
      · exact ih [] (by simp) p hp
    · simp only [hc, if_false] at hp
      exact ih (c :: acc) (fun x hx => by
        rcases List.mem_cons.mp hx with h | h
        · rw [h]; exact hc
        · exact hacc x h) p hp

theorem trimWs_subset (e : Bytes) : ∀ x ∈ trimWs e, x ∈ e := by
  intro x hx
  unfold trimWs trimR at hx
  exact mem_dropWhile _ _ x (mem_dropWhile _ _ x (List.mem_reverse.mp hx) |> List.mem_reverse.mp)

theorem trimWs_head_nonws (e : Bytes) (x : UInt8) (t : Bytes) (h : trimWs e = x :: t) : isWs x = false := by
  unfold trimWs at h
  rcases dropWhile_head_not isWs e with h0 | ⟨z, b', h1, hz⟩
  · rw [h0] at h; simp [trimR] at h
  · rw [h1, trimR_cons] at h
    by_cases hc : trimR b' = [] ∧ isWs z = true
    · simp [hc] at h
    · simp only [hc, if_false] at h
      injection h with e1 _; rw [← e1]; exact hz

theorem keptOut_elemOk (tok s : Bytes) : ∀ k ∈ keptOut tok s, elemOk k = true := by
  intro k hk
  unfold keptOut keptElems at hk
  obtain ⟨e, he, rfl⟩ := List.mem_map.mp hk
  obtain ⟨hmem, hcond⟩ := List.mem_filter.mp he
  simp only [Bool.and_eq_true, Bool.not_eq_true', List.isEmpty_eq_false_iff] at hcond
  have hene := hcond.1
  -- `e` is comma-free
  have hec : ∀ x ∈ e, x ≠ 0x2c := by
    unfold tokensOf at hmem
    obtain ⟨p, hp, rfl⟩ := List.mem_map.mp hmem
    intro x hx
    exact splitAux_commafree [] s (by simp) p hp x (trimWs_subset p x hx)
  obtain ⟨c, t, hct⟩ : ∃ c t, e = c :: t := by
    cases e with
    | nil => exact absurd rfl hene
    | cons c t => exact ⟨c, t, rfl⟩
  have hcw : isWs c = false := by
    unfold tokensOf at hmem
    obtain ⟨p, _, hp⟩ := List.mem_map.mp hmem
    exact trimWs_head_nonws p c t (by rw [hp, hct])
  rw [elemOk_iff]
  unfold normElem
  have hwne : wordsOf e ≠ [] := wordsOf_ne_nil_of_head e c t hct hcw
  constructor
  · cases hw : wordsOf e with
    | nil => exact absurd hw hwne
    | cons w ws =>
      have := (wordsAux_mem [] e w (by show w ∈ wordsOf e; rw [hw]; simp)).1
      exact joinWith_ne_nil _ _ _ this
  · intro x hx
    rcases joinWith_mem _ _ x hx with h | ⟨w, hw, hxw⟩
    · simp at h; rw [h]; decide
    · rcases (wordsAux_mem [] e w hw).2 x hxw with h | h
      · simp at h
      · exact hec x h

/-- the output of `MHD_str_remove_token_caseless_` is a legal input of `MHD_str_remove_tokens_caseless_`,
    and its elements are exactly the kept (normalised) elements -/
theorem removeTokenOut_isCsList (s tok : Bytes) :
    isCsList (removeTokenOut s tok) = true ∧ csElems (removeTokenOut s tok) = keptOut tok s :=
  ⟨isCsList_join _ (keptOut_elemOk tok s), csElems_join _ (keptOut_elemOk tok s)⟩

end Mhd.Str
