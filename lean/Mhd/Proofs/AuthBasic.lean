/-
  C14 helper lemmas, part 7: base64 round trip, split at the first colon, exactness of parse_bauth_params.
-/
import Mhd.Proofs.AuthScan
import Mhd.Model.AuthInfo
namespace Mhd.Auth
open Mhd.Gen.Auth

/-! ### base64 -/

theorem b64Val_char : ∀ v : Fin 64, b64Val (b64Char v.val) = .val v.val := by decide

theorem b64Val_char' (v : Nat) (h : v < 64) : b64Val (b64Char v) = .val v := b64Val_char ⟨v, h⟩

theorem b64Val_pad : b64Val 61 = .pad := by decide

theorem ofNat_eq_of (a : UInt8) (k : Nat) (h : k % 256 = a.toNat) : UInt8.ofNat k = a := by
  apply UInt8.toNat_inj.mp
  rw [UInt8.toNat_ofNat']
  exact h

theorem b64Blocks_enc : ∀ (n : Nat) (bs : Bytes), bs.length ≤ n → bs ≠ [] → b64Blocks (b64Enc bs) = some bs := by
  intro n
  induction n with
  | zero => intro bs h hne; cases bs <;> simp_all
  | succ n ih =>
    intro bs h hne
    match bs, h, hne with
    | [a], _, _ =>
      have ha := UInt8.toNat_lt a
      simp only [b64Enc, b64Blocks, b64Last]
      rw [b64Val_char' _ (by omega), b64Val_char' _ (by omega), b64Val_pad]
      have h1 : (a.toNat % 4 * 16 * 16) % 256 = 0 := by omega
      simp [h1]
      apply ofNat_eq_of; omega
    | [a, b], _, _ =>
      have ha := UInt8.toNat_lt a
      have hb := UInt8.toNat_lt b
      simp only [b64Enc, b64Blocks, b64Last]
      rw [b64Val_char' _ (by omega), b64Val_char' _ (by omega), b64Val_char' _ (by omega), b64Val_pad]
      have h1 : (b.toNat % 16 * 4 * 64) % 256 = 0 := by omega
      simp [h1]
      constructor <;> (apply ofNat_eq_of; omega)
    | [a, b, c], _, _ =>
      have ha := UInt8.toNat_lt a
      have hb := UInt8.toNat_lt b
      have hc := UInt8.toNat_lt c
      simp only [b64Enc, b64Blocks, b64Last]
      rw [b64Val_char' _ (by omega), b64Val_char' _ (by omega), b64Val_char' _ (by omega), b64Val_char' _ (by omega)]
      simp
      refine ⟨?_, ?_, ?_⟩ <;> (apply ofNat_eq_of; omega)
    | a :: b :: c :: d :: r, h, _ =>
      have ha := UInt8.toNat_lt a
      have hb := UInt8.toNat_lt b
      have hc := UInt8.toNat_lt c
      have hr := ih (d :: r) (by simp at h ⊢; omega) (by simp)
      have hne : ∃ x y z w rest, b64Enc (d :: r) = x :: y :: z :: w :: rest := by
        match r with
        | [] => exact ⟨_, _, _, _, _, rfl⟩
        | [_] => exact ⟨_, _, _, _, _, rfl⟩
        | _ :: _ :: _ => exact ⟨_, _, _, _, _, rfl⟩
      obtain ⟨x, y, z, w, rest, hx⟩ := hne
      rw [b64Enc, hx, b64Blocks]
      · rw [b64Val_char' _ (by omega), b64Val_char' _ (by omega), b64Val_char' _ (by omega), b64Val_char' _ (by omega)]
        rw [← hx, hr]
        simp
        refine ⟨?_, ?_, ?_⟩ <;> (apply ofNat_eq_of; omega)
      · simp

theorem b64Enc_length : ∀ (n : Nat) (bs : Bytes), bs.length ≤ n →
    (b64Enc bs).length % 4 = 0 ∧ (bs ≠ [] → 0 < (b64Enc bs).length) := by
  intro n
  induction n with
  | zero => intro bs h; cases bs <;> simp_all [b64Enc]
  | succ n ih =>
    intro bs h
    match bs, h with
    | [], _ => simp [b64Enc]
    | [a], _ => simp [b64Enc]
    | [a, b], _ => simp [b64Enc]
    | a :: b :: c :: r, h =>
      have := (ih r (by simp at h ⊢; omega)).1
      simp only [b64Enc, List.length_cons]
      constructor
      · omega
      · intro _; omega

/-- decoding inverts encoding (RFC 4648 alphabet, with padding) -/
theorem b64Dec_enc (bs : Bytes) (hne : bs ≠ []) : b64Dec (b64Enc bs) = some bs := by
  obtain ⟨h4, hpos⟩ := b64Enc_length bs.length bs (Nat.le_refl _)
  have hp := hpos hne
  unfold b64Dec
  rw [if_neg (by omega), if_neg (by omega)]
  exact b64Blocks_enc bs.length bs (Nat.le_refl _) hne

theorem splitColon_append (u pw : Bytes) (hu : ∀ c ∈ u, c ≠ 58) : splitColon (u ++ 58 :: pw) = (u, some pw) := by
  induction u with
  | nil => simp [splitColon]
  | cons c r ih =>
    have hc : c ≠ 58 := hu c (by simp)
    simp [splitColon, hc, ih (fun x hx => hu x (by simp [hx]))]

theorem splitColon_none (u : Bytes) (hu : ∀ c ∈ u, c ≠ 58) : splitColon u = (u, none) := by
  induction u with
  | nil => simp [splitColon]
  | cons c r ih =>
    have hc : c ≠ 58 := hu c (by simp)
    simp [splitColon, hc, ih (fun x hx => hu x (by simp [hx]))]

/-- Basic credentials: user-id and password come back exactly, split at the first colon -/
theorem basicDecode_enc (u pw : Bytes) (hu : ∀ c ∈ u, c ≠ 58) :
    basicDecode (b64Enc (u ++ 58 :: pw)) = some (u, some pw) := by
  unfold basicDecode
  rw [b64Dec_enc _ (by simp)]
  simp [splitColon_append u pw hu]

/-- no colon: the whole text is the user name and the password is absent -/
theorem basicDecode_enc_nocolon (u : Bytes) (hne : u ≠ []) (hu : ∀ c ∈ u, c ≠ 58) :
    basicDecode (b64Enc u) = some (u, none) := by
  unfold basicDecode
  rw [b64Dec_enc _ hne]
  have : u.length ≠ 0 := by simpa using hne
  simp [splitColon_none u hu, this]

/-! ### parse_bauth_params -/

/-- bytes a token68 may consist of as far as `parse_bauth_params` is concerned -/
def tok68Byte (c : UInt8) : Bool := c ≠ 32 && c ≠ 9 && c ≠ 0 && c ≠ 44 && c ≠ 59

theorem scanTok68_nil : scanTok68 [] = some ([], []) := by rw [scanTok68.eq_def]
theorem scanTok68_cons (c : UInt8) (r : Bytes) :
    scanTok68 (c :: r) = if c = 32 ∨ c = 9 then some ([], c :: r) else if c = 0 then none
      else if c = 44 ∨ c = 59 then none else (scanTok68 r).map fun (t, rest) => (c :: t, rest) := by
  rw [scanTok68.eq_def]

theorem scanTok68_ok (tok rest : Bytes) (ht : tok.all tok68Byte = true)
    (hr : rest = [] ∨ ∃ c r, rest = c :: r ∧ isWs c = true) : scanTok68 (tok ++ rest) = some (tok, rest) := by
  induction tok with
  | nil =>
    rcases hr with h | ⟨c, r, h, hc⟩
    · subst h; simp [scanTok68_nil]
    · subst h; rw [isWs_iff] at hc; simp [scanTok68_cons, hc]
  | cons c r ih =>
    simp only [List.all_cons, Bool.and_eq_true] at ht
    have hc := ht.1
    simp only [tok68Byte, Bool.and_eq_true, bne_iff_ne, ne_eq, decide_eq_true_eq] at hc
    obtain ⟨⟨⟨⟨h32, h9⟩, h0⟩, h44⟩, h59⟩ := hc
    simp [scanTok68_cons, h32, h9, h0, h44, h59, ih ht.2]

theorem scanTok68_sound (s tok rest : Bytes) (h : scanTok68 s = some (tok, rest)) :
    s = tok ++ rest ∧ tok.all tok68Byte = true ∧ (rest = [] ∨ ∃ c r, rest = c :: r ∧ isWs c = true) := by
  induction s generalizing tok rest with
  | nil => simp [scanTok68_nil] at h; obtain ⟨rfl, rfl⟩ := h; simp
  | cons c r ih =>
    rw [scanTok68_cons] at h
    split at h
    · rename_i hc
      simp at h; obtain ⟨rfl, rfl⟩ := h
      exact ⟨rfl, rfl, Or.inr ⟨c, r, rfl, (isWs_iff c).mpr hc⟩⟩
    · rename_i hws
      split at h
      · simp at h
      · rename_i h0
        split at h
        · simp at h
        · rename_i hcs
          simp only [Option.map_eq_some_iff] at h
          obtain ⟨⟨t', rest'⟩, hrec, heq⟩ := h
          simp at heq; obtain ⟨rfl, rfl⟩ := heq
          obtain ⟨h1, h2, h3⟩ := ih t' rest' hrec
          refine ⟨by rw [h1]; rfl, ?_, h3⟩
          simp only [List.all_cons, h2, Bool.and_true, tok68Byte, Bool.and_eq_true, bne_iff_ne, ne_eq, decide_eq_true_eq]
          exact ⟨⟨⟨⟨fun h => hws (Or.inl h), fun h => hws (Or.inr h)⟩, h0⟩, fun h => hcs (Or.inl h)⟩, fun h => hcs (Or.inr h)⟩

theorem skipWs_split (s : Bytes) : ∃ w, s = w ++ skipWs s ∧ allWs w = true ∧
    (skipWs s = [] ∨ ∃ c r, skipWs s = c :: r ∧ isWs c = false) := by
  induction s with
  | nil => exact ⟨[], by simp [skipWs_nil], rfl, Or.inl skipWs_nil⟩
  | cons c r ih =>
    rw [skipWs_cons]
    cases hc : isWs c
    · exact ⟨[], by simp, rfl, Or.inr ⟨c, r, by simp, hc⟩⟩
    · obtain ⟨w, h1, h2, h3⟩ := ih
      refine ⟨c :: w, by simp only [if_true, List.cons_append]; rw [← h1], ?_, by simpa using h3⟩
      simp only [allWs, List.all_cons, hc, Bool.true_and]; exact h2

/-- exactly `OWS token68 OWS` is accepted, and the token68 slice is the token -/
theorem parseBasic_ok (w1 tok w2 : Bytes) (h1 : allWs w1 = true) (h2 : allWs w2 = true) (hne : tok ≠ [])
    (ht : tok.all tok68Byte = true) : parseBasic (w1 ++ tok ++ w2) = .ok (some (w1.length, tok)) := by
  obtain ⟨c, r, rfl⟩ := List.exists_cons_of_ne_nil hne
  have hc : isWs c = false := by
    simp only [List.all_cons, Bool.and_eq_true, tok68Byte, bne_iff_ne, ne_eq, decide_eq_true_eq] at ht
    simp [isWs, ht.1.1.1.1.1, ht.1.1.1.1.2]
  have hskip : skipWs (w1 ++ (c :: r) ++ w2) = c :: (r ++ w2) := by
    rw [List.append_assoc, skipWs_append _ _ h1]
    exact skipWs_stop _ (Or.inr ⟨c, r ++ w2, rfl, hc⟩)
  have hw2 : w2 = [] ∨ ∃ c r, w2 = c :: r ∧ isWs c = true := by
    cases w2 with
    | nil => exact Or.inl rfl
    | cons x xs => simp only [allWs, List.all_cons, Bool.and_eq_true] at h2; exact Or.inr ⟨x, xs, rfl, h2.1⟩
  have hscan := scanTok68_ok (c :: r) w2 ht hw2
  have hsk2 : skipWs w2 = [] := by
    have := skipWs_append w2 [] h2
    simpa [skipWs_nil] using this
  unfold parseBasic
  rw [hskip]
  simp only [List.cons_append] at hscan
  simp only [hscan, hsk2]
  simp

/-- anything accepted has that shape: in particular a second token or other garbage after the
    token68, and NUL , ; inside it, are rejected -/
theorem parseBasic_sound (s : Bytes) (off : Nat) (tok : Bytes) (h : parseBasic s = .ok (some (off, tok))) :
    ∃ w1 w2, s = w1 ++ tok ++ w2 ∧ allWs w1 = true ∧ allWs w2 = true ∧ off = w1.length ∧ tok ≠ [] ∧
      tok.all tok68Byte = true := by
  obtain ⟨w1, hs, hw1, hhead⟩ := skipWs_split s
  unfold parseBasic at h
  rcases hhead with h0 | ⟨c, r, hcr, hc⟩
  · rw [h0] at h; simp at h
  · rw [hcr] at h hs
    simp only at h
    cases hscan : scanTok68 (c :: r) with
    | none => rw [hscan] at h; simp at h
    | some p =>
      obtain ⟨tok', r1⟩ := p
      rw [hscan] at h
      simp only at h
      obtain ⟨w2, hr1, hw2, hh2⟩ := skipWs_split r1
      obtain ⟨hsplit, htok, _⟩ := scanTok68_sound _ _ _ hscan
      rcases hh2 with h20 | ⟨c2, r2, h2, _⟩
      · rw [h20] at h hr1
        simp at h
        obtain ⟨rfl, rfl⟩ := h
        refine ⟨w1, w2, ?_, hw1, hw2, ?_, ?_, htok⟩
        · rw [hs, hsplit, hr1]; simp
        · rw [hs]; simp
        · intro he
          rw [he] at hsplit
          simp only [List.nil_append] at hsplit
          rw [← hsplit] at hr1
          have : allWs (c :: r) = true := by rw [hr1]; simpa using hw2
          simp [allWs, hc] at this
      · rw [h2] at h; simp at h

end Mhd.Auth
