/-
  Round trip of the header section for the NON-canonical renderings of field lines that the
  strictness levels accept (C02 clause b): whitespace before the colon, optional whitespace
  around the value, obs-folds inside the value, NUL bytes and bare CRs inside the value (replaced
  by a space, or — bare CR — kept, as the flags say), bare LF as a line end — for every record of
  flags `F : FLFlags`, with the side conditions (`FieldR.ok`) saying which choices `F` accepts.

  `fields_roundtrip_nc`: the rendering of any list of fields followed by the empty line is
  parsed into exactly one element per field whose name reads back as sent and whose value
  reads back as `FieldR.semValue` (surrounding whitespace trimmed, each byte of a fold's line
  end replaced by a space, NUL and replaced bare CR read as a space).

  Proof: more single-step lemmas (`step_nameWsp`, `step_colonWs`, `step_foldCRLF`,
  `step_foldLF`, `step_lf`, `step_emptyLineLF`, `onLineEnd_trailing`), a run over the tokens of
  the value part (`run_tok`, `run_toks`, invariant `VRun`), a list lemma relating the scanner's
  bookkeeping `vsFold` to `trimWs` (`vsFold_trim`), then `run_line_nc`, `run_fields_nc` and the
  final block as in `Mhd.Proofs.ReqRoundtrip`.
-/
import Mhd.Proofs.ReqRoundtrip
set_option linter.unusedSimpArgs false
namespace Mhd.Req
namespace HSP
open Mhd.Gen

instance (c : UInt8) : Decidable (plain c) := by unfold plain; infer_instance

/-- line end: CRLF, or a bare LF where the level treats it as CRLF -/
def FEol (F : FLFlags) (e : List UInt8) : Prop := e = [cCR, cLF] ∨ (e = [cLF] ∧ F.bareLfAsCrlf = true)

instance (F : FLFlags) (e : List UInt8) : Decidable (FEol F e) := by unfold FEol; infer_instance

/-- one unit of the value part (everything between ':' and the final line end) -/
inductive VTok where
  | ch (c : UInt8)
  | ws (w : UInt8)
  | fold (eol : List UInt8) (w : UInt8)
  /-- a NUL byte, replaced by a space where `nulAsSp` -/
  | nul
  /-- a bare CR (not followed by LF), replaced by a space where `bareCrAsSp` -/
  | crSp
  /-- a bare CR (not followed by LF), kept as a value byte where `bareCrKeep` (and not `bareCrAsSp`) -/
  | crKeep
  deriving Repr, DecidableEq

/-- the bytes sent -/
def VTok.flat : VTok → List UInt8
  | .ch c => [c]
  | .ws w => [w]
  | .fold eol w => eol ++ [w]
  | .nul => [0]
  | .crSp => [cCR]
  | .crKeep => [cCR]

/-- what the code leaves in the buffer: each byte of the line end of an obs-fold is replaced by a
    space, a NUL and (at the levels that do so) a bare CR too; a kept bare CR stays -/
def VTok.seen : VTok → List UInt8
  | .ch c => [c]
  | .ws w => [w]
  | .fold eol w => List.replicate eol.length cSP ++ [w]
  | .nul => [cSP]
  | .crSp => [cSP]
  | .crKeep => [cCR]

def VTok.ok (F : FLFlags) : VTok → Prop
  | .ch c => plain c
  | .ws w => w = cSP ∨ w = cHT
  | .fold eol w => F.allowFolded = true ∧ FEol F eol ∧ (w = cSP ∨ w = cHT)
  | .nul => F.nulAsSp = true
  | .crSp => F.bareCrAsSp = true
  | .crKeep => F.bareCrAsSp = false ∧ F.bareCrKeep = true

instance (F : FLFlags) (t : VTok) : Decidable (t.ok F) := by
  cases t <;> (unfold VTok.ok; infer_instance)

def VTok.isFold : VTok → Bool
  | .fold _ _ => true
  | _ => false

def VTok.isCr : VTok → Bool
  | .crSp => true
  | .crKeep => true
  | _ => false

/-- context condition of the bare-CR tokens: in `flatMap flat toks ++ tail` no bare CR is directly
    followed by LF (that would be a line end, not a bare CR) -/
def crOK : List VTok → List UInt8 → Bool
  | [], _ => true
  | t :: ts, tail => (!t.isCr || (ts.flatMap VTok.flat ++ tail).head? != some cLF) && crOK ts tail

def isWs (b : UInt8) : Bool := b == cSP || b == cHT

def trimWs (w : List UInt8) : List UInt8 := ((w.dropWhile isWs).reverse.dropWhile isWs).reverse

structure FieldR where
  name : List UInt8
  preColon : List UInt8
  value : List VTok
  eol : List UInt8
  deriving Repr, DecidableEq

def FieldR.render (f : FieldR) : List UInt8 := f.name ++ f.preColon ++ [58] ++ f.value.flatMap VTok.flat ++ f.eol

def FieldR.semValue (f : FieldR) : List UInt8 := trimWs (f.value.flatMap VTok.seen)

def FieldR.ok (F : FLFlags) (f : FieldR) : Prop :=
  f.name ≠ [] ∧ (∀ c ∈ f.name, plain c ∧ c ≠ 58) ∧ (∀ w ∈ f.preColon, w = cSP ∨ w = cHT) ∧
  (f.preColon ≠ [] → F.allowWspBeforeColon = true) ∧ (∀ t ∈ f.value, t.ok F) ∧ FEol F f.eol ∧
  crOK f.value f.eol = true

instance (F : FLFlags) (f : FieldR) : Decidable (f.ok F) := by unfold FieldR.ok; infer_instance

def renderFieldsR : List FieldR → List UInt8
  | [] => []
  | f :: fs => f.render ++ renderFieldsR fs

/-! ### more single steps -/

theorem get_lt {buf : Bytes} {i : Nat} {c : UInt8} (h : buf[i]? = some c) : i < buf.size := by
  by_cases hlt : i < buf.size
  · exact hlt
  · rw [Array.getElem?_eq_none (by omega)] at h; cases h

theorem ws_beq {c : UInt8} (hw : c = cSP ∨ c = cHT) :
    (c == cCR) = false ∧ (c == cLF) = false ∧ (c == cSP || c == cHT) = true := by
  cases hw <;> (subst_vars; decide)

/-- whitespace between the name and the colon -/
theorem step_nameWsp (F : FLFlags) (fs : Nat) (s : HS) (c : UInt8) (hc : s.buf[s.rb + s.p]? = some c)
    (hw : c = cSP ∨ c = cHT) (h1 : s.nameEndFound = false) (h2 : s.startsWithWs = false) (hp0 : s.p ≠ 0)
    (hF : F.allowWspBeforeColon = true) :
    hsStep F fs s = .advance { s with wsStart := if (s.wsStart == 0) = true then s.p else s.wsStart, p := s.p + 1 } := by
  obtain ⟨b1, b2, b3⟩ := ws_beq hw
  unfold hsStep
  rw [hc]
  simp only [b1, b2, b3, Bool.false_eq_true, ↓reduceIte]
  unfold onFieldWsp
  have hz : (s.p == 0) = false := by simp [hp0]
  simp only [hz, h1, h2, hF, Bool.false_eq_true, ↓reduceIte, Bool.not_false, Bool.and_self, Bool.or_true]

/-- the colon after whitespace -/
theorem step_colonWs (F : FLFlags) (fs : Nat) (s : HS) (hc : s.buf[s.rb + s.p]? = some 58)
    (h1 : s.nameEndFound = false) (h2 : s.startsWithWs = false) (h3 : s.wsStart ≠ 0) (hle : s.wsStart ≤ s.p)
    (hF : F.allowWspBeforeColon = true) :
    hsStep F fs s = .advance { s with buf := s.buf.setIfInBounds (s.rb + s.wsStart) 0, nameLen := s.wsStart,
                                      wsStart := 0, nameEndFound := true, p := s.p + 1 } := by
  have hb := fill_gt hc
  unfold hsStep
  rw [hc]
  have e1 : ((58 : UInt8) == cCR) = false := by decide
  have e2 : ((58 : UInt8) == cLF) = false := by decide
  have e3 : ((58 : UInt8) == cSP) = false := by decide
  have e4 : ((58 : UInt8) == cHT) = false := by decide
  have e5 : ((58 : UInt8) == 0) = false := by decide
  simp only [e1, e2, e3, e4, e5, Bool.false_eq_true, ↓reduceIte, Bool.or_self]
  unfold onFieldChar
  have hz : (s.wsStart == 0) = false := by simp [h3]
  simp only [h1, h2, hz, hF, Bool.not_false, Bool.and_self, ↓reduceIte, beq_self_eq_true, Bool.false_and,
    Bool.false_eq_true, Bool.not_true]
  rw [wr_in (by show s.rb + s.wsStart < s.buf.size; omega)]

/-- CRLF followed by whitespace inside the value: an obs-fold -/
theorem step_foldCRLF (F : FLFlags) (fs : Nat) (s : HS) (w : UInt8)
    (hc : s.buf[s.rb + s.p]? = some cCR) (hn : s.buf[s.rb + s.p + 1]? = some cLF)
    (hd : s.buf[s.rb + s.p + 2]? = some w) (hw : w = cSP ∨ w = cHT) (hp0 : s.p ≠ 0)
    (h1 : s.nameEndFound = true) (hF : F.allowFolded = true) :
    hsStep F fs s = .advance { s with buf := (s.buf.setIfInBounds (s.rb + s.p) cSP).setIfInBounds (s.rb + s.p + 1) cSP,
                                      wsStart := if (s.wsStart == 0) = true then s.p else s.wsStart, p := s.p + 1 } := by
  have hb2 : s.rb + s.p + 2 < s.buf.size := get_lt hd
  unfold hsStep
  rw [hc]
  have hz : (s.p == 0) = false := by simp [hp0]
  have hz2 : (s.p != 0) = true := by simp [hp0]
  have hf : decide (s.p + 2 ≥ s.fill) = false := by simp [HS.fill]; omega
  simp only [beq_self_eq_true, ↓reduceIte, hz, hz2, hf, Bool.and_false, Bool.false_and, Bool.or_self, Bool.false_eq_true, hn]
  unfold handleFieldEol
  have hd' : s.buf[s.rb + (s.p + 2)]? = some w := by rw [← Nat.add_assoc]; exact hd
  have b1 : (w == cSP || w == cHT) = true := (ws_beq hw).2.2
  simp only [beq_self_eq_true, ↓reduceIte, hz, Bool.false_eq_true, hd', b1, hF, Bool.not_true]
  rw [wr_in (by omega), wr_in (by simp only [Array.size_setIfInBounds]; omega)]
  unfold onFieldWsp
  simp only [hz, h1, Bool.false_eq_true, ↓reduceIte, Bool.not_true, Bool.false_and]

/-- bare LF followed by whitespace inside the value: an obs-fold -/
theorem step_foldLF (F : FLFlags) (fs : Nat) (s : HS) (w : UInt8)
    (hc : s.buf[s.rb + s.p]? = some cLF)
    (hd : s.buf[s.rb + s.p + 1]? = some w) (hw : w = cSP ∨ w = cHT) (hp0 : s.p ≠ 0)
    (h1 : s.nameEndFound = true) (hF : F.allowFolded = true) (hL : F.bareLfAsCrlf = true) :
    hsStep F fs s = .advance { s with buf := s.buf.setIfInBounds (s.rb + s.p) cSP,
                                      wsStart := if (s.wsStart == 0) = true then s.p else s.wsStart, p := s.p + 1 } := by
  have hb2 : s.rb + s.p + 1 < s.buf.size := get_lt hd
  unfold hsStep
  rw [hc]
  have hz : (s.p == 0) = false := by simp [hp0]
  have hz2 : (s.p != 0) = true := by simp [hp0]
  have hf : decide (s.p + 1 ≥ s.fill) = false := by simp [HS.fill]; omega
  have e1 : (cLF == cCR) = false := by decide
  simp only [e1, beq_self_eq_true, ↓reduceIte, hz, hz2, hf, Bool.and_false, Bool.false_and, Bool.or_self, Bool.false_eq_true, hL]
  unfold handleFieldEol
  have hd' : s.buf[s.rb + (s.p + 1)]? = some w := by rw [← Nat.add_assoc]; exact hd
  have b1 : (w == cSP || w == cHT) = true := (ws_beq hw).2.2
  simp only [e1, beq_self_eq_true, ↓reduceIte, hz, Bool.false_eq_true, hd', b1, hF, Bool.not_true]
  rw [wr_in (by omega)]
  unfold onFieldWsp
  simp only [hz, h1, Bool.false_eq_true, ↓reduceIte, Bool.not_true, Bool.false_and]

/-- a bare LF ending a non-empty line that is not folded -/
theorem step_lf (F : FLFlags) (fs : Nat) (s : HS) (d : UInt8)
    (hc : s.buf[s.rb + s.p]? = some cLF)
    (hd : s.buf[s.rb + s.p + 1]? = some d) (hd1 : d ≠ cSP) (hd2 : d ≠ cHT) (hp0 : s.p ≠ 0)
    (hL : F.bareLfAsCrlf = true) :
    hsStep F fs s = onLineEnd F s (s.p + 1) := by
  have hb2 : s.rb + s.p + 1 < s.buf.size := get_lt hd
  unfold hsStep
  rw [hc]
  have hz : (s.p == 0) = false := by simp [hp0]
  have hz2 : (s.p != 0) = true := by simp [hp0]
  have hf : decide (s.p + 1 ≥ s.fill) = false := by simp [HS.fill]; omega
  have e1 : (cLF == cCR) = false := by decide
  simp only [e1, beq_self_eq_true, ↓reduceIte, hz, hz2, hf, Bool.and_false, Bool.false_and, Bool.or_self, Bool.false_eq_true, hL]
  unfold handleFieldEol
  have hd' : s.buf[s.rb + (s.p + 1)]? = some d := by rw [← Nat.add_assoc]; exact hd
  have b1 : (d == cSP || d == cHT) = false := by simp [hd1, hd2]
  simp only [e1, beq_self_eq_true, ↓reduceIte, hz, Bool.false_eq_true, hd', b1]

/-- the empty line as a bare LF -/
theorem step_emptyLineLF (F : FLFlags) (fs : Nat) (s : HS)
    (hc : s.buf[s.rb]? = some cLF) (hp0 : s.p = 0) (hL : F.bareLfAsCrlf = true) :
    hsStep F fs s = finishHeaders (s.consume 1) fs := by
  unfold hsStep
  rw [hp0, Nat.add_zero, hc]
  have e1 : (cLF == cCR) = false := by decide
  simp only [e1, beq_self_eq_true, ↓reduceIte, bne_self_eq_false, Bool.false_and, Bool.false_eq_true, hL]
  unfold handleFieldEol
  simp only [e1, hp0, beq_self_eq_true, ↓reduceIte, Nat.zero_add, Bool.false_eq_true]

/-- a NUL in the value part, replaced by a space -/
theorem step_valueNul (F : FLFlags) (fs : Nat) (s : HS) (hc : s.buf[s.rb + s.p]? = some 0)
    (h1 : s.nameEndFound = true) (hp0 : s.p ≠ 0) (hF : F.nulAsSp = true) :
    hsStep F fs s = .advance { s with buf := s.buf.setIfInBounds (s.rb + s.p) cSP,
                                      wsStart := if (s.wsStart == 0) = true then s.p else s.wsStart, p := s.p + 1 } := by
  have hb := fill_gt hc
  unfold hsStep
  rw [hc]
  have e1 : ((0 : UInt8) == cCR) = false := by decide
  have e2 : ((0 : UInt8) == cLF) = false := by decide
  have e3 : ((0 : UInt8) == cSP) = false := by decide
  have e4 : ((0 : UInt8) == cHT) = false := by decide
  simp only [e1, e2, e3, e4, hF, beq_self_eq_true, Bool.false_eq_true, ↓reduceIte, Bool.or_self, Bool.not_true]
  rw [wr_in (by show s.rb + s.p < s.buf.size; exact hb)]
  unfold onFieldWsp
  have hz : (s.p == 0) = false := by simp [hp0]
  simp only [hz, h1, Bool.false_eq_true, ↓reduceIte, Bool.not_true, Bool.false_and]

/-- a bare CR in the value part, replaced by a space -/
theorem step_valueCrSp (F : FLFlags) (fs : Nat) (s : HS) (d : UInt8)
    (hc : s.buf[s.rb + s.p]? = some cCR) (hn : s.buf[s.rb + s.p + 1]? = some d) (hd : d ≠ cLF)
    (hsz : s.rb + s.p + 2 < s.buf.size) (h1 : s.nameEndFound = true) (hp0 : s.p ≠ 0) (hF : F.bareCrAsSp = true) :
    hsStep F fs s = .advance { s with buf := s.buf.setIfInBounds (s.rb + s.p) cSP, crSp := s.crSp + 1,
                                      wsStart := if (s.wsStart == 0) = true then s.p else s.wsStart, p := s.p + 1 } := by
  unfold hsStep
  rw [hc]
  have hz : (s.p == 0) = false := by simp [hp0]
  have hz2 : (s.p != 0) = true := by simp [hp0]
  have hf : decide (s.p + 2 ≥ s.fill) = false := by simp [HS.fill]; omega
  have b1 : (d == cLF) = false := by simp [hd]
  simp only [beq_self_eq_true, ↓reduceIte, hz, hz2, hf, Bool.and_false, Bool.false_and, Bool.or_self, Bool.false_eq_true, hn,
    b1, hF]
  rw [wr_in (by show s.rb + s.p < s.buf.size; omega)]
  unfold onFieldWsp
  simp only [hz, h1, Bool.false_eq_true, ↓reduceIte, Bool.not_true, Bool.false_and]

/-- a bare CR in the value part, kept as a value byte -/
theorem step_valueCrKeep (F : FLFlags) (fs : Nat) (s : HS) (d : UInt8)
    (hc : s.buf[s.rb + s.p]? = some cCR) (hn : s.buf[s.rb + s.p + 1]? = some d) (hd : d ≠ cLF)
    (hsz : s.rb + s.p + 2 < s.buf.size) (h1 : s.nameEndFound = true) (hp0 : s.p ≠ 0)
    (hF : F.bareCrAsSp = false) (hK : F.bareCrKeep = true) :
    hsStep F fs s = .advance { s with valueStart := if (s.valueStart == 0) = true then s.p else s.valueStart,
                                      wsStart := 0, p := s.p + 1 } := by
  unfold hsStep
  rw [hc]
  have hz : (s.p == 0) = false := by simp [hp0]
  have hz2 : (s.p != 0) = true := by simp [hp0]
  have hf : decide (s.p + 2 ≥ s.fill) = false := by simp [HS.fill]; omega
  have b1 : (d == cLF) = false := by simp [hd]
  simp only [beq_self_eq_true, ↓reduceIte, hz, hz2, hf, Bool.and_false, Bool.false_and, Bool.or_self, Bool.false_eq_true, hn,
    b1, hF, hK, Bool.not_true]
  unfold onFieldChar
  simp only [h1, Bool.not_true, Bool.false_and, Bool.false_eq_true, ↓reduceIte]

/-- the end of a line whose value has trailing whitespace -/
theorem onLineEnd_trailing (F : FLFlags) (s : HS) (lineLen : Nat) (h1 : s.nameEndFound = true) (h2 : s.startsWithWs = false)
    (hv : s.valueStart ≠ 0) (hw : s.wsStart ≠ 0) (hb : s.rb + s.wsStart < s.buf.size) :
    onLineEnd F s lineLen =
      .advance ({ ({ s with buf := s.buf.setIfInBounds (s.rb + s.wsStart) 0 }.consume lineLen).resetLine with
        elems := s.elems ++ [⟨Http.kindHeader, ⟨0, s.rb, s.nameLen⟩,
                              some ⟨0, s.rb + s.valueStart, s.wsStart - s.valueStart⟩⟩] }) := by
  unfold onLineEnd
  have hvz : (s.valueStart == 0) = false := by simp [hv]
  have hwz : (s.wsStart != 0) = true := by simp [hw]
  simp only [h1, h2, hwz, hvz, Bool.false_eq_true, ↓reduceIte, Bool.not_true]
  rw [wr_in hb]
/-! ### list facts: `vsFold` against `trimWs` -/

theorem isWs_iff (c : UInt8) : isWs c = true ↔ (c = cSP ∨ c = cHT) := by simp [isWs]

theorem vsFold_append (a b : List UInt8) : ∀ (vs ws p : Nat),
    vsFold vs ws p (a ++ b) = vsFold (vsFold vs ws p a).1 (vsFold vs ws p a).2 (p + a.length) b := by
  induction a with
  | nil => intro vs ws p; rfl
  | cons c a ih =>
    intro vs ws p
    simp only [List.cons_append, vsFold, List.length_cons]
    have e : p + (a.length + 1) = p + 1 + a.length := by omega
    split <;> (rw [ih, e])

theorem vsFold_allws (w : List UInt8) : ∀ (vs ws p : Nat), p ≠ 0 → (∀ c ∈ w, isWs c = true) →
    vsFold vs ws p w = (vs, if w = [] then ws else if ws = 0 then p else ws) := by
  induction w with
  | nil => intro vs ws p _ _; rfl
  | cons c w ih =>
    intro vs ws p hp hw
    have hc := (isWs_iff c).mp (hw c (by simp))
    simp only [vsFold, hc, ↓reduceIte]
    rw [ih _ _ _ (by omega) (fun c' hc' => hw c' (by simp [hc']))]
    by_cases hz : ws = 0
    · subst hz; simp; intro _; omega
    · simp [hz]

theorem mem_takeWhile_ws (l : List UInt8) : ∀ c ∈ l.takeWhile isWs, isWs c = true := by
  induction l with
  | nil => intro c hc; simp at hc
  | cons a l ih =>
    intro c hc
    rw [List.takeWhile_cons] at hc
    split at hc
    · rw [List.mem_cons] at hc
      cases hc with
      | inl h => subst h; assumption
      | inr h => exact ih c h
    · simp at hc

theorem trim_decomp (W : List UInt8) : ∃ l m r, W = l ++ (m ++ r) ∧ trimWs W = m ∧
    (∀ c ∈ l, isWs c = true) ∧ (∀ c ∈ r, isWs c = true) ∧
    (∀ hne : m ≠ [], isWs (m.head hne) = false) ∧ (∀ hne : m ≠ [], isWs (m.getLast hne) = false) := by
  refine ⟨W.takeWhile isWs, ((W.dropWhile isWs).reverse.dropWhile isWs).reverse,
    ((W.dropWhile isWs).reverse.takeWhile isWs).reverse, ?_, rfl, ?_, ?_, ?_, ?_⟩
  · rw [← List.reverse_append, List.takeWhile_append_dropWhile, List.reverse_reverse, List.takeWhile_append_dropWhile]
  · intro c hc; exact mem_takeWhile_ws _ c hc
  · intro c hc; rw [List.mem_reverse] at hc; exact mem_takeWhile_ws _ c hc
  · intro hne
    generalize hR : W.dropWhile isWs = R at hne ⊢
    have hsplit : R = ((R.reverse.dropWhile isWs).reverse) ++ ((R.reverse.takeWhile isWs).reverse) := by
      rw [← List.reverse_append, List.takeWhile_append_dropWhile, List.reverse_reverse]
    have hRne : R ≠ [] := by
      intro h; subst h; simp at hne
    have h1 : R.head hRne = ((R.reverse.dropWhile isWs).reverse).head hne := by
      conv => lhs; arg 1; rw [hsplit]
      rw [List.head_append_of_ne_nil]
    rw [← h1]
    subst hR
    simpa using List.head_dropWhile_not isWs hRne
  · intro hne
    have hne' : (W.dropWhile isWs).reverse.dropWhile isWs ≠ [] := by
      intro h; rw [h] at hne; simp at hne
    rw [List.getLast_reverse]
    simpa using List.head_dropWhile_not isWs hne'

theorem vsFold_core (m : List UInt8) (hne : m ≠ []) (p ws : Nat) (hp : p ≠ 0)
    (hh : isWs (m.head hne) = false) (hl : isWs (m.getLast hne) = false) :
    vsFold 0 ws p m = (p, 0) := by
  cases m with
  | nil => exact absurd rfl hne
  | cons c m' =>
    simp only [List.head_cons] at hh
    have hcw : ¬ (c = cSP ∨ c = cHT) := by rw [← isWs_iff, hh]; simp
    simp only [vsFold, hcw, ↓reduceIte, beq_self_eq_true]
    apply Prod.ext
    · exact vsFold_vs _ _ _ _ hp
    · cases m' with
      | nil => rfl
      | cons c2 m2 =>
        apply vsFold_ws _ _ _ _ (by simp)
        rw [List.getLast_cons (by simp)] at hl
        rw [← isWs_iff, hl]; simp

/-- what the scanner's bookkeeping computes on the bytes of the value part: `trimWs` -/
theorem vsFold_trim (W : List UInt8) (p0 : Nat) (hp : p0 ≠ 0) :
    ∃ l m r, W = l ++ (m ++ r) ∧ trimWs W = m ∧
      (m = [] → (vsFold 0 0 p0 W).1 = 0) ∧
      (m ≠ [] → (vsFold 0 0 p0 W).1 = p0 + l.length ∧
                (vsFold 0 0 p0 W).2 = if r = [] then 0 else p0 + l.length + m.length) := by
  obtain ⟨l, m, r, hW, ht, hl, hr, hh, hla⟩ := trim_decomp W
  refine ⟨l, m, r, hW, ht, ?_, ?_⟩
  · intro hm
    subst hm
    rw [hW, List.nil_append, vsFold_append, vsFold_allws l _ _ _ hp hl, vsFold_allws r _ _ _ (by omega) hr]
  · intro hm
    rw [hW, vsFold_append, vsFold_allws l _ _ _ hp hl, vsFold_append]
    simp only
    rw [vsFold_core m hm _ _ (by omega) (hh hm) (hla hm), vsFold_allws r _ _ _ (by omega) hr]
    simp

/-! ### runs over the parts of a non-canonical line -/

theorem afterValue_append (s : HS) (a b : List UInt8) : afterValue (afterValue s a) b = afterValue s (a ++ b) := by
  simp only [afterValue, vsFold_append, List.length_append, Nat.add_assoc]

/-- whitespace between the name and the colon -/
theorem run_pre (F : FLFlags) (fs : Nat) (w : List UInt8) :
    ∀ (s : HS), Good s → At s w → (∀ c ∈ w, c = cSP ∨ c = cHT) →
      s.nameEndFound = false → s.startsWithWs = false → s.p ≠ 0 → (w ≠ [] → F.allowWspBeforeColon = true) →
      (hsScanner F fs).run s = (hsScanner F fs).run (afterValue s w) ∧ Good (afterValue s w) := by
  induction w with
  | nil => intro s hi _ _ _ _ _ _; exact ⟨rfl, hi⟩
  | cons c w ih =>
    intro s hi hat hw h1 h2 hp0 hF
    have hws := hw c (by simp)
    have hF' := hF (by simp)
    have st := step_nameWsp F fs s c hat.head hws h1 h2 hp0 hF'
    have r1 := run_step F fs s _ hi st
    have := ih _ r1.2 (hat.tail _ rfl rfl rfl) (fun c' hc' => hw c' (by simp [hc'])) h1 h2
      (by show s.p + 1 ≠ 0; omega) (fun _ => hF')
    have e : afterValue { s with wsStart := if (s.wsStart == 0) = true then s.p else s.wsStart, p := s.p + 1 } w
        = afterValue s (c :: w) := by
      simp only [afterValue, vsFold, hws, ↓reduceIte, List.length_cons]
      congr 1; omega
    rw [e] at this
    exact ⟨r1.1.trans this.1, this.2⟩

/-- the effect of the value phase on the bytes `W` (as the scanner sees them, i.e. after the
    line ends of folds have been overwritten) -/
def VRun (s s' : HS) (W : List UInt8) : Prop :=
  ∃ buf' n, s' = afterValue { s with buf := buf', crSp := n } W ∧ buf'.size = s.buf.size ∧
    (∀ j, j < s.rb + s.p ∨ s.rb + s.p + W.length ≤ j → buf'[j]? = s.buf[j]?) ∧ BufIs buf' (s.rb + s.p) W

theorem BufIs.append {buf : Bytes} {off : Nat} {a b : List UInt8} (h1 : BufIs buf off a)
    (h2 : BufIs buf (off + a.length) b) : BufIs buf off (a ++ b) := by
  intro i hi
  by_cases hlt : i < a.length
  · rw [List.getElem?_append_left hlt]; exact h1 i hlt
  · rw [List.getElem?_append_right (by omega)]
    have := h2 (i - a.length) (by simp at hi; omega)
    rw [← this]; congr 1; omega

theorem VRun.trans {s s1 s2 : HS} {A B : List UInt8} (h1 : VRun s s1 A) (h2 : VRun s1 s2 B) : VRun s s2 (A ++ B) := by
  obtain ⟨b1, n1, e1, z1, o1, i1⟩ := h1
  obtain ⟨b2, n2, e2, z2, o2, i2⟩ := h2
  have hrb : s1.rb = s.rb := by rw [e1]; rfl
  have hp : s1.p = s.p + A.length := by rw [e1]; rfl
  have hb : s1.buf = b1 := by rw [e1]; rfl
  rw [hrb, hp, hb] at o2
  rw [hrb, hp] at i2
  rw [hb] at z2
  refine ⟨b2, n2, ?_, by omega, ?_, ?_⟩
  · rw [e2, e1, ← afterValue_append]; rfl
  · intro j hj
    rw [o2 j (by simp only [List.length_append] at hj; omega), o1 j (by simp only [List.length_append] at hj; omega)]
  · apply BufIs.append
    · intro i hi
      rw [o2 _ (by omega)]; exact i1 i hi
    · rw [Nat.add_assoc]; exact i2

theorem flat_len (t : VTok) : t.flat.length = t.seen.length := by
  cases t <;> simp [VTok.flat, VTok.seen]

/-- one token of the value part -/
theorem run_tok (F : FLFlags) (fs : Nat) (t : VTok) (s : HS) (hi : Good s) (hat : At s t.flat) (hok : t.ok F)
    (h1 : s.nameEndFound = true) (hp0 : s.p ≠ 0)
    (hnext : t.isCr = true → ∃ d, s.buf[s.rb + s.p + 1]? = some d ∧ d ≠ cLF ∧ s.rb + s.p + 2 < s.buf.size) :
    ∃ s', (hsScanner F fs).run s = (hsScanner F fs).run s' ∧ Good s' ∧ VRun s s' t.seen := by
  cases t with
  | ch c =>
    have hpl : plain c := hok
    have hcw : ¬ (c = cSP ∨ c = cHT) := by
      intro h; cases h with
      | inl h => exact hpl.2.2.1 h
      | inr h => exact hpl.2.2.2.1 h
    have st := step_valueChar F fs s c (At.head (w := []) hat) hpl h1
    have r1 := run_step F fs s _ hi st
    refine ⟨_, r1.1, r1.2, s.buf, s.crSp, ?_, rfl, fun _ _ => rfl, ?_⟩
    · simp only [afterValue, VTok.seen, vsFold, hcw, ↓reduceIte, List.length_cons, List.length_nil]
    · exact hat
  | ws c =>
    have hws : c = cSP ∨ c = cHT := hok
    have st := step_valueWsp F fs s c (At.head (w := []) hat) hws h1 hp0
    have r1 := run_step F fs s _ hi st
    refine ⟨_, r1.1, r1.2, s.buf, s.crSp, ?_, rfl, fun _ _ => rfl, ?_⟩
    · simp only [afterValue, VTok.seen, vsFold, hws, ↓reduceIte, List.length_cons, List.length_nil]
    · exact hat
  | fold eol w =>
    obtain ⟨hF, he, hw⟩ : F.allowFolded = true ∧ FEol F eol ∧ (w = cSP ∨ w = cHT) := hok
    cases he with
    | inl he =>
      subst he
      have c0 := hat 0 (by simp [VTok.flat]); have c1 := hat 1 (by simp [VTok.flat]); have c2 := hat 2 (by simp [VTok.flat])
      simp only [VTok.flat, List.cons_append, List.nil_append, List.getElem?_cons_zero, List.getElem?_cons_succ,
        Nat.add_zero] at c0 c1 c2
      have hb2 := get_lt c2
      have st := step_foldCRLF F fs s w c0 c1 c2 hw hp0 h1 hF
      have r1 := run_step F fs s _ hi st
      let b2 := (s.buf.setIfInBounds (s.rb + s.p) cSP).setIfInBounds (s.rb + s.p + 1) cSP
      have g1 : b2[s.rb + s.p]? = some cSP := by
        show ((s.buf.setIfInBounds (s.rb + s.p) cSP).setIfInBounds (s.rb + s.p + 1) cSP)[s.rb + s.p]? = _
        rw [Array.getElem?_setIfInBounds, if_neg (by omega), Array.getElem?_setIfInBounds, if_pos rfl, if_pos (by omega)]
      have g2 : b2[s.rb + s.p + 1]? = some cSP := by
        show ((s.buf.setIfInBounds (s.rb + s.p) cSP).setIfInBounds (s.rb + s.p + 1) cSP)[s.rb + s.p + 1]? = _
        rw [Array.getElem?_setIfInBounds, if_pos rfl, if_pos (by simp only [Array.size_setIfInBounds]; omega)]
      have g3 : ∀ j, j ≠ s.rb + s.p → j ≠ s.rb + s.p + 1 → b2[j]? = s.buf[j]? := by
        intro j h1 h2
        show ((s.buf.setIfInBounds (s.rb + s.p) cSP).setIfInBounds (s.rb + s.p + 1) cSP)[j]? = _
        rw [Array.getElem?_setIfInBounds, if_neg (by omega), Array.getElem?_setIfInBounds, if_neg (by omega)]
      have hat2 : At { s with buf := b2, wsStart := if (s.wsStart == 0) = true then s.p else s.wsStart, p := s.p + 1 } [cSP, w] := by
        intro i hi'
        show b2[s.rb + (s.p + 1) + i]? = _
        cases i with
        | zero => rw [Nat.add_zero, ← Nat.add_assoc, g2]; rfl
        | succ i =>
          cases i with
          | zero =>
            rw [g3 _ (by omega) (by omega)]
            have e : s.rb + (s.p + 1) + (0 + 1) = s.rb + s.p + 2 := by omega
            rw [e, c2]; rfl
          | succ i => simp only [List.length_cons, List.length_nil] at hi'; omega
      have r2 := run_value F fs [cSP, w] _ r1.2 hat2
        (by intro c hc; simp at hc; cases hc with
            | inl h => exact Or.inr (Or.inl h)
            | inr h => subst h; exact Or.inr hw) h1 (by show s.p + 1 ≠ 0; omega)
      refine ⟨_, r1.1.trans r2.1, r2.2, b2, s.crSp, ?_, by simp [b2], ?_, ?_⟩
      · simp only [afterValue, VTok.seen, vsFold, hw, ↓reduceIte, List.length_cons, List.length_nil, true_or,
          List.replicate, List.cons_append, List.nil_append]
        congr 1
      · intro j hj
        simp [VTok.seen] at hj
        exact g3 j (by omega) (by omega)
      · intro i hi'
        simp [VTok.seen] at hi'
        show b2[s.rb + s.p + i]? = _
        match i, hi' with
        | 0, _ => rw [Nat.add_zero, g1]; rfl
        | 1, _ => rw [g2]; rfl
        | 2, _ => rw [g3 _ (by omega) (by omega), c2]; rfl
    | inr he =>
      obtain ⟨he, hL⟩ := he
      subst he
      have c0 := hat 0 (by simp [VTok.flat]); have c1 := hat 1 (by simp [VTok.flat])
      simp only [VTok.flat, List.cons_append, List.nil_append, List.getElem?_cons_zero, List.getElem?_cons_succ,
        Nat.add_zero] at c0 c1
      have hb2 := get_lt c1
      have st := step_foldLF F fs s w c0 c1 hw hp0 h1 hF hL
      have r1 := run_step F fs s _ hi st
      let b2 := s.buf.setIfInBounds (s.rb + s.p) cSP
      have g1 : b2[s.rb + s.p]? = some cSP := by
        show (s.buf.setIfInBounds (s.rb + s.p) cSP)[s.rb + s.p]? = _
        rw [Array.getElem?_setIfInBounds, if_pos rfl, if_pos (by omega)]
      have g3 : ∀ j, j ≠ s.rb + s.p → b2[j]? = s.buf[j]? := by
        intro j h1
        show (s.buf.setIfInBounds (s.rb + s.p) cSP)[j]? = _
        rw [Array.getElem?_setIfInBounds, if_neg (by omega)]
      have hat2 : At { s with buf := b2, wsStart := if (s.wsStart == 0) = true then s.p else s.wsStart, p := s.p + 1 } [w] := by
        intro i hi'
        show b2[s.rb + (s.p + 1) + i]? = _
        cases i with
        | zero =>
          rw [g3 _ (by omega)]
          have e : s.rb + (s.p + 1) + 0 = s.rb + s.p + 1 := by omega
          rw [e, c1]; rfl
        | succ i => simp only [List.length_cons, List.length_nil] at hi'; omega
      have r2 := run_value F fs [w] _ r1.2 hat2
        (by intro c hc; simp at hc; subst hc; exact Or.inr hw) h1 (by show s.p + 1 ≠ 0; omega)
      refine ⟨_, r1.1.trans r2.1, r2.2, b2, s.crSp, ?_, by simp [b2], ?_, ?_⟩
      · simp only [afterValue, VTok.seen, vsFold, hw, ↓reduceIte, List.length_cons, List.length_nil, true_or,
          List.replicate, List.cons_append, List.nil_append]
        congr 1
      · intro j hj
        simp [VTok.seen] at hj
        exact g3 j (by omega)
      · intro i hi'
        simp [VTok.seen] at hi'
        show b2[s.rb + s.p + i]? = _
        match i, hi' with
        | 0, _ => rw [Nat.add_zero, g1]; rfl
        | 1, _ => rw [g3 _ (by omega), c1]; rfl

  | nul =>
    have hF : F.nulAsSp = true := hok
    have c0 : s.buf[s.rb + s.p]? = some 0 := At.head (w := []) hat
    have hb := get_lt c0
    have st := step_valueNul F fs s c0 h1 hp0 hF
    have r1 := run_step F fs s _ hi st
    refine ⟨_, r1.1, r1.2, s.buf.setIfInBounds (s.rb + s.p) cSP, s.crSp, ?_, by simp, ?_, ?_⟩
    · simp only [afterValue, VTok.seen, vsFold, true_or, ↓reduceIte, List.length_cons, List.length_nil]
    · intro j hj
      simp [VTok.seen] at hj
      rw [Array.getElem?_setIfInBounds, if_neg (by omega)]
    · intro i hi'
      simp [VTok.seen] at hi'
      subst hi'
      rw [Nat.add_zero, Array.getElem?_setIfInBounds, if_pos rfl, if_pos hb]; rfl
  | crSp =>
    have hF : F.bareCrAsSp = true := hok
    obtain ⟨d, hn, hd, hsz⟩ := hnext rfl
    have c0 : s.buf[s.rb + s.p]? = some cCR := At.head (w := []) hat
    have hb := get_lt c0
    have st := step_valueCrSp F fs s d c0 hn hd hsz h1 hp0 hF
    have r1 := run_step F fs s _ hi st
    refine ⟨_, r1.1, r1.2, s.buf.setIfInBounds (s.rb + s.p) cSP, s.crSp + 1, ?_, by simp, ?_, ?_⟩
    · simp only [afterValue, VTok.seen, vsFold, true_or, ↓reduceIte, List.length_cons, List.length_nil]
    · intro j hj
      simp [VTok.seen] at hj
      rw [Array.getElem?_setIfInBounds, if_neg (by omega)]
    · intro i hi'
      simp [VTok.seen] at hi'
      subst hi'
      rw [Nat.add_zero, Array.getElem?_setIfInBounds, if_pos rfl, if_pos hb]; rfl
  | crKeep =>
    obtain ⟨hF, hK⟩ : F.bareCrAsSp = false ∧ F.bareCrKeep = true := hok
    obtain ⟨d, hn, hd, hsz⟩ := hnext rfl
    have c0 : s.buf[s.rb + s.p]? = some cCR := At.head (w := []) hat
    have st := step_valueCrKeep F fs s d c0 hn hd hsz h1 hp0 hF hK
    have r1 := run_step F fs s _ hi st
    have hcw : ¬ (cCR = cSP ∨ cCR = cHT) := by decide
    refine ⟨_, r1.1, r1.2, s.buf, s.crSp, ?_, rfl, fun _ _ => rfl, ?_⟩
    · simp only [afterValue, VTok.seen, vsFold, hcw, ↓reduceIte, List.length_cons, List.length_nil]
    · exact hat

/-- the byte behind a bare CR -/
theorem next_of_cr (buf : Bytes) (off : Nat) (R : List UInt8) (h : BufIs buf (off + 1) R) (h2 : 2 ≤ R.length)
    (hh : (R.head? != some cLF) = true) : ∃ d, buf[off + 1]? = some d ∧ d ≠ cLF ∧ off + 2 < buf.size := by
  match R, h2 with
  | d :: d2 :: R', _ =>
    have r0 := h 0 (by simp); have r1 := h 1 (by simp)
    simp only [List.getElem?_cons_zero, List.getElem?_cons_succ, Nat.add_zero] at r0 r1
    refine ⟨d, r0, ?_, get_lt r1⟩
    intro hd; subst hd; simp at hh

theorem crOK_tail (toks : List VTok) (eol x : List UInt8) (he : eol ≠ []) (h : crOK toks eol = true) :
    crOK toks (eol ++ x) = true := by
  induction toks with
  | nil => rfl
  | cons t ts ih =>
    simp only [crOK, Bool.and_eq_true] at h ⊢
    refine ⟨?_, ih h.2⟩
    have : (ts.flatMap VTok.flat ++ (eol ++ x)).head? = (ts.flatMap VTok.flat ++ eol).head? := by
      have key : ∀ (A : List UInt8), A ≠ [] → (A ++ x).head? = A.head? := by
        intro A hA
        cases A with
        | nil => exact absurd rfl hA
        | cons a A' => rfl
      rw [← List.append_assoc, key _ (by simp [he])]
    rw [this]; exact h.1

theorem flatMap_len (toks : List VTok) : (toks.flatMap VTok.flat).length = (toks.flatMap VTok.seen).length := by
  induction toks with
  | nil => rfl
  | cons t ts ih => simp only [List.flatMap_cons, List.length_append, ih, flat_len]

theorem VRun.refl (s : HS) : VRun s s [] :=
  ⟨s.buf, s.crSp, rfl, rfl, fun _ _ => rfl, fun i hi => by simp at hi⟩

/-- the whole value part; `tail` = the bytes behind it (the line end and one more byte) -/
theorem run_toks (F : FLFlags) (fs : Nat) (toks : List VTok) (tail : List UInt8) (ht : 2 ≤ tail.length) :
    ∀ (s : HS), Good s → At s (toks.flatMap VTok.flat ++ tail) → (∀ t ∈ toks, t.ok F) → crOK toks tail = true →
      s.nameEndFound = true → s.p ≠ 0 →
      ∃ s', (hsScanner F fs).run s = (hsScanner F fs).run s' ∧ Good s' ∧ VRun s s' (toks.flatMap VTok.seen) := by
  induction toks with
  | nil => intro s hi _ _ _ _ _; exact ⟨s, rfl, hi, VRun.refl s⟩
  | cons t ts ih =>
    intro s hi hat hok hcr h1 hp0
    simp only [List.flatMap_cons, List.append_assoc] at hat ⊢
    have hat' : BufIs s.buf (s.rb + s.p) (t.flat ++ (ts.flatMap VTok.flat ++ tail)) := hat
    simp only [crOK, Bool.and_eq_true] at hcr
    have hnext : t.isCr = true → ∃ d, s.buf[s.rb + s.p + 1]? = some d ∧ d ≠ cLF ∧ s.rb + s.p + 2 < s.buf.size := by
      intro hc
      have hfl : t.flat.length = 1 := by cases t <;> simp [VTok.isCr] at hc <;> rfl
      have hR := hat'.right
      rw [hfl] at hR
      have hh := hcr.1
      rw [hc] at hh
      exact next_of_cr s.buf (s.rb + s.p) _ hR (by simp only [List.length_append]; omega) (by simpa using hh)
    obtain ⟨s1, r1, g1, v1⟩ := run_tok F fs t s hi hat'.left (hok t (by simp)) h1 hp0 hnext
    obtain ⟨b1, n1, e1, z1, o1, i1⟩ := v1
    have hrb : s1.rb = s.rb := by rw [e1]; rfl
    have hp : s1.p = s.p + t.seen.length := by rw [e1]; rfl
    have hb : s1.buf = b1 := by rw [e1]; rfl
    have hn : s1.nameEndFound = true := by rw [e1]; exact h1
    have hat1 : At s1 (ts.flatMap VTok.flat ++ tail) := by
      intro i hi'
      rw [hb, hrb, hp, o1 _ (by omega), ← flat_len, ← Nat.add_assoc]
      exact hat'.right i hi'
    obtain ⟨s2, r2, g2, v2⟩ := ih s1 g1 hat1 (fun t' ht' => hok t' (by simp [ht'])) hcr.2 hn (by omega)
    exact ⟨s2, r1.trans r2, g2, VRun.trans ⟨b1, n1, e1, z1, o1, i1⟩ v2⟩

/-- the three ways a valid field line ends, in one statement -/
theorem onLineEnd_any (F : FLFlags) (s : HS) (lineLen : Nat) (h1 : s.nameEndFound = true) (h2 : s.startsWithWs = false)
    (hw : s.wsStart ≤ s.p) (hb : s.rb + s.p < s.buf.size) :
    ∃ z vstart vlen, onLineEnd F s lineLen =
      .advance ({ ({ s with buf := s.buf.setIfInBounds (s.rb + z) 0 }.consume lineLen).resetLine with
        elems := s.elems ++ [⟨Http.kindHeader, ⟨0, s.rb, s.nameLen⟩, some ⟨0, s.rb + vstart, vlen⟩⟩] }) ∧
      ((s.valueStart = 0 ∧ z = s.p ∧ vstart = s.p ∧ vlen = 0) ∨
       (s.valueStart ≠ 0 ∧ s.wsStart ≠ 0 ∧ z = s.wsStart ∧ vstart = s.valueStart ∧ vlen = s.wsStart - s.valueStart) ∨
       (s.valueStart ≠ 0 ∧ s.wsStart = 0 ∧ z = s.p ∧ vstart = s.valueStart ∧ vlen = s.p - s.valueStart)) := by
  by_cases hv : s.valueStart = 0
  · exact ⟨s.p, s.p, 0, onLineEnd_emptyValue F s lineLen h1 h2 hv hb, Or.inl ⟨hv, rfl, rfl, rfl⟩⟩
  · by_cases hz : s.wsStart = 0
    · exact ⟨s.p, s.valueStart, _, onLineEnd_valid F s lineLen h1 h2 hv hz hb, Or.inr (Or.inr ⟨hv, hz, rfl, rfl, rfl⟩)⟩
    · exact ⟨s.wsStart, s.valueStart, _, onLineEnd_trailing F s lineLen h1 h2 hv hz (by omega),
        Or.inr (Or.inl ⟨hv, hz, rfl, rfl, rfl⟩)⟩

/-- name, optional whitespace, colon -/
theorem run_head (F : FLFlags) (fs : Nat) (s : HS) (name pre : List UInt8) (hi : Good s) (hf : Fresh s)
    (hn0 : name ≠ []) (hname : ∀ c ∈ name, plain c ∧ c ≠ 58) (hpre : ∀ w ∈ pre, w = cSP ∨ w = cHT)
    (hF : pre ≠ [] → F.allowWspBeforeColon = true) (hbuf : BufIs s.buf s.rb (name ++ pre ++ [58])) :
    ∃ s2 : HS, (hsScanner F fs).run s = (hsScanner F fs).run s2 ∧ Good s2 ∧
      s2.buf = s.buf.setIfInBounds (s.rb + name.length) 0 ∧ s2.rb = s.rb ∧ s2.p = name.length + pre.length + 1 ∧
      s2.nameLen = name.length ∧ s2.nameEndFound = true ∧ s2.startsWithWs = false ∧ s2.wsStart = 0 ∧
      s2.valueStart = 0 ∧ s2.elems = s.elems ∧ s2.version = s.version ∧ s2.method = s.method := by
  have n1 : 1 ≤ name.length := by
    cases name with
    | nil => exact absurd rfl hn0
    | cons _ _ => simp
  have hp := hf.p; have f1 := hf.f1; have f2 := hf.f2; have f3 := hf.f3; have f4 := hf.f4
  have hb1 : BufIs s.buf s.rb name := hbuf.left.left
  have hb2 : BufIs s.buf (s.rb + name.length) pre := hbuf.left.right
  have hb3 : s.buf[s.rb + name.length + pre.length]? = some 58 := by
    have := hbuf.right 0 (by simp)
    simpa [Nat.add_assoc] using this
  have r1 := run_name F fs name s hi (by intro i hi'; rw [hp, Nat.add_zero]; exact hb1 i hi') hname f1 f2 f3
  have hisws : ∀ c ∈ pre, isWs c = true := fun c hc => (isWs_iff c).mpr (hpre c hc)
  have r2 := run_pre F fs pre { s with p := s.p + name.length } r1.2
    (by intro i hi'; show s.buf[s.rb + (s.p + name.length) + i]? = _; rw [hp, Nat.zero_add]; exact hb2 i hi')
    hpre f1 f2 (by show s.p + name.length ≠ 0; omega) hF
  have hchain := r1.1.trans r2.1
  generalize hs1 : afterValue { s with p := s.p + name.length } pre = s1 at r2 hchain
  have e_vs : vsFold s.valueStart s.wsStart (s.p + name.length) pre
      = (0, if pre = [] then 0 else name.length) := by
    rw [vsFold_allws pre _ _ _ (by omega) hisws, f3, f4, hp]; simp
  have e_buf : s1.buf = s.buf := by rw [← hs1]; rfl
  have e_rb : s1.rb = s.rb := by rw [← hs1]; rfl
  have e_p : s1.p = name.length + pre.length := by rw [← hs1]; show s.p + name.length + pre.length = _; omega
  have e_nf : s1.nameEndFound = false := by rw [← hs1]; exact f1
  have e_sw : s1.startsWithWs = false := by rw [← hs1]; exact f2
  have e_el : s1.elems = s.elems := by rw [← hs1]; rfl
  have e_ver : s1.version = s.version := by rw [← hs1]; rfl
  have e_me : s1.method = s.method := by rw [← hs1]; rfl
  have e_v : s1.valueStart = 0 := by
    rw [← hs1]; show (vsFold s.valueStart s.wsStart (s.p + name.length) pre).1 = 0; rw [e_vs]
  have e_w : s1.wsStart = if pre = [] then 0 else name.length := by
    rw [← hs1]; show (vsFold s.valueStart s.wsStart (s.p + name.length) pre).2 = _; rw [e_vs]
  have hcol : s1.buf[s1.rb + s1.p]? = some 58 := by
    rw [e_buf, e_rb, e_p, ← Nat.add_assoc]; exact hb3
  by_cases hpe : pre = []
  · rw [if_pos hpe] at e_w
    have st := step_colon F fs s1 hcol e_nf e_sw e_w (by omega)
    have r3 := run_step F fs _ _ r2.2 st
    refine ⟨_, hchain.trans r3.1, r3.2, ?_, e_rb, ?_, ?_, rfl, e_sw, e_w, e_v, e_el, e_ver, e_me⟩
    · show s1.buf.setIfInBounds (s1.rb + s1.p) 0 = _
      rw [e_buf, e_rb, e_p, hpe]; simp
    · show s1.p + 1 = _; rw [e_p]
    · show s1.p = _; rw [e_p, hpe]; simp
  · rw [if_neg hpe] at e_w
    have st := step_colonWs F fs s1 hcol e_nf e_sw (by omega) (by omega) (hF hpe)
    have r3 := run_step F fs _ _ r2.2 st
    refine ⟨_, hchain.trans r3.1, r3.2, ?_, e_rb, ?_, ?_, rfl, e_sw, rfl, e_v, e_el, e_ver, e_me⟩
    · show s1.buf.setIfInBounds (s1.rb + s1.wsStart) 0 = _
      rw [e_buf, e_rb, e_w]
    · show s1.p + 1 = _; rw [e_p]
    · show s1.wsStart = _; exact e_w

theorem BufIs.cast {buf : Bytes} {off off' : Nat} {w : List UInt8} (h : BufIs buf off w) (e : off = off') :
    BufIs buf off' w := e ▸ h

/-- **one field line in any accepted rendering**.  The parser is at the start of a line; the
    buffer holds the rendering of `f` followed by a byte that does not start a folded
    continuation.  Then the run continues from a state at the start of the next line in which
    exactly one element has been appended whose name and value, read back from the buffer,
    are `f.name` and `f.semValue`. -/
theorem run_line_nc (F : FLFlags) (fs : Nat) (s : HS) (f : FieldR) (d : UInt8)
    (hi : Good s) (hf : Fresh s) (hok : f.ok F)
    (hbuf : BufIs s.buf s.rb (f.render ++ [d])) (hd1 : d ≠ cSP) (hd2 : d ≠ cHT) :
    ∃ s' : HS, (hsScanner F fs).run s = (hsScanner F fs).run s' ∧ Good s' ∧
      s'.rb = s.rb + f.render.length ∧ Fresh s' ∧ s'.buf.size = s.buf.size ∧
      (∀ i, i < s.rb ∨ s'.rb ≤ i → s'.buf[i]? = s.buf[i]?) ∧ s'.version = s.version ∧ s'.method = s.method ∧
      ∃ k v, s'.elems = s.elems ++ [⟨Http.kindHeader, k, some v⟩] ∧ k.region = 0 ∧ v.region = 0 ∧
        sliceBytes s'.buf k = f.name ∧ sliceBytes s'.buf v = f.semValue ∧
        s.rb ≤ k.off ∧ k.off + k.len ≤ s'.rb ∧ s.rb ≤ v.off ∧ v.off + v.len ≤ s'.rb := by
  obtain ⟨name, pre, value, eol⟩ := f
  obtain ⟨hn0, hname, hpre, hF, hval, heol, hcr⟩ := hok
  simp only at hn0 hname hpre hF hval heol hcr
  simp only [FieldR.render, FieldR.semValue] at hbuf ⊢
  have n1 : 1 ≤ name.length := by
    cases name with
    | nil => exact absurd rfl hn0
    | cons _ _ => simp
  generalize hFL : value.flatMap VTok.flat = FL at hbuf ⊢
  generalize hW : value.flatMap VTok.seen = W
  have hLW : FL.length = W.length := by rw [← hFL, ← hW]; exact flatMap_len value
  -- pieces of the buffer
  have hb1 : BufIs s.buf s.rb (name ++ pre ++ [58]) := hbuf.left.left.left
  have hbn : BufIs s.buf s.rb name := hb1.left.left
  have hb2 : BufIs s.buf (s.rb + (name.length + pre.length + 1)) FL := by
    exact (hbuf.left.left.right).cast (by simp only [List.length_append, List.length_cons, List.length_nil])
  have hb3 : BufIs s.buf (s.rb + (name.length + pre.length + 1 + W.length)) (eol ++ [d]) := by
    have : name ++ pre ++ [58] ++ FL ++ eol ++ [d] = (name ++ pre ++ [58] ++ FL) ++ (eol ++ [d]) := by simp
    rw [this] at hbuf
    exact hbuf.right.cast (by simp only [List.length_append, List.length_cons, List.length_nil, hLW])
  -- 1. name, whitespace, colon
  obtain ⟨s2, r2, g2, e2_buf, e2_rb, e2_p, e2_nl, e2_nf, e2_sw, e2_ws, e2_vs, e2_el, e2_ver, e2_me⟩ :=
    run_head F fs s name pre hi hf hn0 hname hpre hF hb1
  have get2 : ∀ j, j ≠ s.rb + name.length → s2.buf[j]? = s.buf[j]? := by
    intro j hj; rw [e2_buf, Array.getElem?_setIfInBounds, if_neg (by omega)]
  -- 2. the value part
  have he1 : 1 ≤ eol.length := by
    cases heol with
    | inl he => subst he; simp
    | inr he => rw [he.1]; simp
  have hb23 : BufIs s.buf (s.rb + (name.length + pre.length + 1)) (FL ++ (eol ++ [d])) :=
    BufIs.append hb2 (hb3.cast (by rw [hLW]; omega))
  have hat2 : At s2 (value.flatMap VTok.flat ++ (eol ++ [d])) := by
    intro i hi'
    rw [hFL] at hi' ⊢
    rw [e2_rb, e2_p, get2 _ (by omega)]; exact hb23 i hi'
  obtain ⟨s3, r3, g3, b3, n3, e3, z3, o3, i3⟩ := run_toks F fs value (eol ++ [d])
    (by simp only [List.length_append, List.length_cons, List.length_nil]; omega) s2 g2 hat2 hval
    (crOK_tail value eol [d] (by intro h; rw [h] at he1; simp at he1) hcr) e2_nf (by omega)
  rw [hW] at e3 o3 i3
  rw [e2_rb, e2_p] at o3 i3
  have e_buf : s3.buf = b3 := by rw [e3]; rfl
  have e_rb : s3.rb = s.rb := by rw [e3]; exact e2_rb
  have e_p : s3.p = name.length + pre.length + 1 + W.length := by rw [e3]; show s2.p + W.length = _; rw [e2_p]
  have e_nl : s3.nameLen = name.length := by rw [e3]; exact e2_nl
  have e_nf : s3.nameEndFound = true := by rw [e3]; exact e2_nf
  have e_sw : s3.startsWithWs = false := by rw [e3]; exact e2_sw
  have e_el : s3.elems = s.elems := by rw [e3]; exact e2_el
  have e_ver : s3.version = s.version := by rw [e3]; exact e2_ver
  have e_me : s3.method = s.method := by rw [e3]; exact e2_me
  have e_vs : s3.valueStart = (vsFold 0 0 (name.length + pre.length + 1) W).1 := by
    rw [e3]; show (vsFold s2.valueStart s2.wsStart s2.p W).1 = _; rw [e2_vs, e2_ws, e2_p]
  have e_ws : s3.wsStart = (vsFold 0 0 (name.length + pre.length + 1) W).2 := by
    rw [e3]; show (vsFold s2.valueStart s2.wsStart s2.p W).2 = _; rw [e2_vs, e2_ws, e2_p]
  have hsz : s3.buf.size = s.buf.size := by rw [e_buf, z3, e2_buf]; simp
  -- the buffer as the scanner left it
  have get3 : ∀ j, j ≠ s.rb + name.length →
      (j < s.rb + (name.length + pre.length + 1) ∨ s.rb + (name.length + pre.length + 1) + W.length ≤ j) →
      s3.buf[j]? = s.buf[j]? := by
    intro j h1 h2; rw [e_buf, o3 j h2, get2 j h1]
  -- 3. the line end
  have hstep : hsStep F fs s3 = onLineEnd F s3 (s3.p + eol.length) := by
    cases heol with
    | inl he =>
      subst he
      have c0 := hb3 0 (by simp); have c1 := hb3 1 (by simp); have c2 := hb3 2 (by simp)
      simp only [List.cons_append, List.nil_append, List.getElem?_cons_zero, List.getElem?_cons_succ, Nat.add_zero] at c0 c1 c2
      have hcr : s3.buf[s3.rb + s3.p]? = some cCR := by
        rw [e_rb, e_p, get3 _ (by omega) (by omega), ← c0]
      have hlf : s3.buf[s3.rb + s3.p + 1]? = some cLF := by
        rw [e_rb, e_p, get3 _ (by omega) (by omega), ← c1]
      have hdd : s3.buf[s3.rb + s3.p + 2]? = some d := by
        rw [e_rb, e_p, get3 _ (by omega) (by omega), ← c2]
      exact step_crlf F fs s3 d hcr hlf hdd hd1 hd2 (by rw [e_p]; omega)
    | inr he =>
      obtain ⟨he, hL⟩ := he
      subst he
      have c0 := hb3 0 (by simp); have c1 := hb3 1 (by simp)
      simp only [List.cons_append, List.nil_append, List.getElem?_cons_zero, List.getElem?_cons_succ, Nat.add_zero] at c0 c1
      have hlf : s3.buf[s3.rb + s3.p]? = some cLF := by
        rw [e_rb, e_p, get3 _ (by omega) (by omega), ← c0]
      have hdd : s3.buf[s3.rb + s3.p + 1]? = some d := by
        rw [e_rb, e_p, get3 _ (by omega) (by omega), ← c1]
      exact step_lf F fs s3 d hlf hdd hd1 hd2 (by rw [e_p]; omega) hL
  have hb3' : s3.rb + s3.p < s3.buf.size := by
    have := hb3 0 (by simp)
    have h0 : (eol ++ [d])[0]? ≠ none := by
      cases eol with
      | nil => simp at he1
      | cons a t => simp
    have hlt : s.rb + (name.length + pre.length + 1 + W.length) + 0 < s.buf.size := by
      by_cases hlt : s.rb + (name.length + pre.length + 1 + W.length) + 0 < s.buf.size
      · exact hlt
      · rw [Array.getElem?_eq_none (by omega)] at this; exact absurd this.symm h0
    rw [hsz, e_rb, e_p]; omega
  obtain ⟨z, vstart, vlen, hle, hcases⟩ := onLineEnd_any F s3 (s3.p + eol.length) e_nf e_sw g3.i1.hws hb3'
  rw [← hstep] at hle
  have r4 := run_step F fs _ _ g3 hle
  -- 4. what was appended
  obtain ⟨l, m, r, hWd, htrim, hm0, hm1⟩ := vsFold_trim W (name.length + pre.length + 1) (by omega)
  have hWlen : W.length = l.length + (m.length + r.length) := by rw [hWd]; simp
  have hfacts : vlen = m.length ∧ name.length + pre.length + 1 ≤ vstart ∧ vstart + m.length ≤ z ∧ z ≤ s3.p ∧
      (m ≠ [] → vstart = name.length + pre.length + 1 + l.length) := by
    by_cases hme : m = []
    · have hv0 : s3.valueStart = 0 := by rw [e_vs]; exact hm0 hme
      rcases hcases with ⟨_, h2, h3, h4⟩ | ⟨h1, _⟩ | ⟨h1, _⟩
      · subst hme
        refine ⟨by rw [h4]; rfl, by rw [h3, e_p]; omega, by rw [h2, h3]; simp, by rw [h2]; omega, fun h => absurd rfl h⟩
      · exact absurd hv0 h1
      · exact absurd hv0 h1
    · have hv := (hm1 hme).1
      have hw := (hm1 hme).2
      rw [← e_vs] at hv; rw [← e_ws] at hw
      have hmlen : 1 ≤ m.length := by
        cases m with
        | nil => exact absurd rfl hme
        | cons _ _ => simp
      rcases hcases with ⟨h1, _⟩ | ⟨_, h2, h3, h4, h5⟩ | ⟨_, h2, h3, h4, h5⟩
      · omega
      · by_cases hr : r = []
        · rw [if_pos hr] at hw; omega
        · rw [if_neg hr] at hw
          refine ⟨by omega, by omega, by omega, by rw [e_p]; omega, fun _ => by omega⟩
      · by_cases hr : r = []
        · subst hr
          simp only [List.length_nil, Nat.add_zero] at hWlen
          refine ⟨by rw [e_p] at h5; omega, by omega, by rw [e_p] at h3; omega, by omega, fun _ => by omega⟩
        · rw [if_neg hr] at hw; omega
  obtain ⟨hvl, hvs1, hvs2, hz, hvs3⟩ := hfacts
  subst hvl
  rw [e_p] at hz
  have hbm : BufIs b3 (s.rb + (name.length + pre.length + 1) + l.length) m := by
    rw [hWd] at i3; exact i3.right.left
  -- the final buffer
  have final_buf : ∀ j, j ≠ s.rb + z → (s3.buf.setIfInBounds (s3.rb + z) 0)[j]? = s3.buf[j]? := by
    intro j h1
    rw [Array.getElem?_setIfInBounds, if_neg (by rw [e_rb]; omega)]
  have hrl : (name ++ pre ++ [58] ++ FL ++ eol).length = name.length + pre.length + 1 + W.length + eol.length := by
    simp only [List.length_append, List.length_cons, List.length_nil, hLW]
  refine ⟨_, (r2.trans r3).trans r4.1, r4.2, ?_, ⟨rfl, rfl, rfl, rfl, rfl⟩, ?_, ?_, e_ver, e_me,
    ⟨0, s3.rb, s3.nameLen⟩, ⟨0, s3.rb + vstart, m.length⟩, ?_, rfl, rfl, ?_, ?_, ?_, ?_, ?_, ?_⟩
  · show s3.rb + (s3.p + eol.length) = _; rw [e_rb, e_p, hrl]
  · show (s3.buf.setIfInBounds (s3.rb + z) 0).size = _; simp [hsz]
  · intro i hi'
    show (s3.buf.setIfInBounds (s3.rb + z) 0)[i]? = _
    have hi2 : i < s.rb ∨ s.rb + (name.length + pre.length + 1 + W.length + eol.length) ≤ i := by
      cases hi' with
      | inl h => exact Or.inl h
      | inr h =>
        have h' : s3.rb + (s3.p + eol.length) ≤ i := h
        rw [e_rb, e_p] at h'; right; omega
    rw [final_buf i (by omega), get3 i (by omega) (by omega)]
  · show s3.elems ++ _ = _; rw [e_el]
  · show sliceBytes (s3.buf.setIfInBounds (s3.rb + z) 0) ⟨0, s3.rb, s3.nameLen⟩ = name
    have hk : (⟨0, s3.rb, s3.nameLen⟩ : Slice) = ⟨0, s.rb, name.length⟩ := by rw [e_rb, e_nl]
    rw [hk]
    apply sliceBytes_eq
    intro i hi'
    rw [final_buf _ (by omega), get3 _ (by omega) (by omega)]; exact hbn i hi'
  · show sliceBytes (s3.buf.setIfInBounds (s3.rb + z) 0) ⟨0, s3.rb + vstart, m.length⟩ = trimWs W
    have hk : (⟨0, s3.rb + vstart, m.length⟩ : Slice) = ⟨0, s.rb + vstart, m.length⟩ := by rw [e_rb]
    rw [htrim, hk]
    apply sliceBytes_eq
    intro i hi'
    have hme : m ≠ [] := by intro h; subst h; simp at hi'
    have hv3 := hvs3 hme
    rw [hv3, final_buf _ (by omega), e_buf]
    have := hbm i hi'
    rw [← this]; congr 1; omega
  · show s.rb ≤ s3.rb; omega
  · show s3.rb + s3.nameLen ≤ s3.rb + (s3.p + eol.length); rw [e_nl, e_p]; omega
  · show s.rb ≤ s3.rb + vstart; omega
  · show s3.rb + vstart + m.length ≤ s3.rb + (s3.p + eol.length); rw [e_p]; omega

/-! ### a whole header section in any accepted rendering -/

theorem render_head (F : FLFlags) (f : FieldR) (h : f.ok F) (rest : List UInt8) :
    ∃ c t, f.render ++ rest = c :: t ∧ c ≠ cSP ∧ c ≠ cHT := by
  obtain ⟨name, pre, value, eol⟩ := f
  obtain ⟨hn0, hname, _⟩ := h
  simp only at hn0 hname
  cases name with
  | nil => exact absurd rfl hn0
  | cons c t =>
    have := (hname c (by simp)).1
    exact ⟨c, _, by simp only [FieldR.render, List.cons_append]; rfl, this.2.2.1, this.2.2.2.1⟩

theorem feol_head (F : FLFlags) (e : List UInt8) (h : FEol F e) : ∃ c t, e = c :: t ∧ c ≠ cSP ∧ c ≠ cHT := by
  cases h with
  | inl h => exact ⟨cCR, [cLF], h, by decide, by decide⟩
  | inr h => exact ⟨cLF, [], h.1, by decide, by decide⟩

/-- **all field lines of a header section**, each in any rendering the flags accept: one element
    per line, in order, reading back the names and the values (`semValue`) -/
theorem run_fields_nc (F : FLFlags) (fs : Nat) (fields : List FieldR) (endEol : List UInt8) (hend : FEol F endEol) :
    ∀ (s : HS), Good s → Fresh s → (∀ f ∈ fields, f.ok F) →
      BufIs s.buf s.rb (renderFieldsR fields ++ endEol) →
      ∃ s' : HS, (hsScanner F fs).run s = (hsScanner F fs).run s' ∧ Good s' ∧ Fresh s' ∧
        s'.rb = s.rb + (renderFieldsR fields).length ∧ s'.buf.size = s.buf.size ∧
        (∀ i, i < s.rb ∨ s'.rb ≤ i → s'.buf[i]? = s.buf[i]?) ∧ s'.version = s.version ∧ s'.method = s.method ∧
        ∃ els, s'.elems = s.elems ++ els ∧
          els.map (elemView s'.buf) = fields.map (fun f => (Http.kindHeader, f.name, some f.semValue)) ∧
          ∀ el ∈ els, ElemIn el s.rb s'.rb := by
  induction fields with
  | nil =>
    intro s hg hf _ _
    exact ⟨s, rfl, hg, hf, by simp [renderFieldsR], rfl, fun _ _ => rfl, rfl, rfl, [], by simp, rfl, by simp⟩
  | cons f rest ih =>
    intro s hg hf hwf hbuf
    have hw := hwf f (by simp)
    -- the byte after this line
    obtain ⟨d, t, hdt, hd1, hd2⟩ : ∃ d t, renderFieldsR rest ++ endEol = d :: t ∧ d ≠ cSP ∧ d ≠ cHT := by
      cases rest with
      | nil => simpa [renderFieldsR] using feol_head F endEol hend
      | cons f2 r2 =>
        obtain ⟨c, t, h1, h2, h3⟩ := render_head F f2 (hwf f2 (by simp)) (renderFieldsR r2 ++ endEol)
        exact ⟨c, t, by simp only [renderFieldsR, List.append_assoc] at h1 ⊢; exact h1, h2, h3⟩
    have hsplit : renderFieldsR (f :: rest) ++ endEol = (f.render ++ [d]) ++ t := by
      simp only [renderFieldsR, List.append_assoc]
      rw [hdt]; simp
    have hb1 : BufIs s.buf s.rb (f.render ++ [d]) := by
      rw [hsplit] at hbuf; exact hbuf.left
    obtain ⟨s1, r1, g1, e_rb, fr1, e_sz, e_same, e_ver, e_me, k, v, e_el, kr, vr, vk, vv, k1, k2, v1, v2⟩ :=
      run_line_nc F fs s f d hg hf hw hb1 hd1 hd2
    have hb2 : BufIs s1.buf s1.rb (renderFieldsR rest ++ endEol) := by
      have h2 : BufIs s.buf (s.rb + f.render.length) (renderFieldsR rest ++ endEol) := by
        have : renderFieldsR (f :: rest) ++ endEol = f.render ++ (renderFieldsR rest ++ endEol) := by
          simp [renderFieldsR]
        rw [this] at hbuf; exact hbuf.right
      intro i hi'
      rw [e_same _ (Or.inr (by omega)), e_rb]; exact h2 i hi'
    obtain ⟨s2, r2, g2, fr2, e_rb2, e_sz2, e_same2, e_ver2, e_me2, els, e_el2, views, hin⟩ :=
      ih s1 g1 fr1 (fun f' hf' => hwf f' (by simp [hf'])) hb2
    have hrb12 : s1.rb ≤ s2.rb := by omega
    refine ⟨s2, r1.trans r2, g2, fr2, ?_, by omega, ?_, by rw [e_ver2, e_ver], by rw [e_me2, e_me],
      ⟨Http.kindHeader, k, some v⟩ :: els, ?_, ?_, ?_⟩
    · simp only [renderFieldsR, List.length_append]; rw [e_rb2, e_rb]; omega
    · intro i hi'
      cases hi' with
      | inl h => rw [e_same2 i (Or.inl (by omega)), e_same i (Or.inl h)]
      | inr h => rw [e_same2 i (Or.inr h), e_same i (Or.inr (by omega))]
    · rw [e_el2, e_el]; simp
    · simp only [List.map_cons]
      congr 1
      · have hin0 : ElemIn ⟨Http.kindHeader, k, some v⟩ s.rb s1.rb :=
          ⟨k1, k2, fun v' hv' => by simp at hv'; subst hv'; exact ⟨v1, v2⟩, kr, fun v' hv' => by simp at hv'; subst hv'; exact vr⟩
        rw [elemView_congr s2.buf s1.buf _ s.rb s1.rb hin0 (fun i _ h2 => e_same2 i (Or.inl h2))]
        simp [elemView, vk, vv]
    · intro el hel
      simp only [List.mem_cons] at hel
      cases hel with
      | inl h =>
        subst h
        exact ⟨k1, by show k.off + k.len ≤ s2.rb; omega, fun v' hv' => by simp at hv'; subst hv'; exact ⟨v1, by omega⟩,
          kr, fun v' hv' => by simp at hv'; subst hv'; exact vr⟩
      | inr h =>
        have := hin el h
        exact ⟨by have := this.1; omega, this.2.1, fun v' hv' => by have := this.2.2.1 v' hv'; exact ⟨by omega, this.2⟩,
          this.2.2.2.1, this.2.2.2.2⟩

/-- the block after the last line, for an empty line of `k` bytes -/
theorem finish_nc (fs : Nat) (s1 : HS) (k : Nat) (hk : 1 ≤ k) (g1 : Good s1) (hsz : s1.rb + k ≤ s1.buf.size) :
    ∃ h, finishHeaders (s1.consume k) fs = .done (.ok h) ∧ Below h s1.version ∧
      (∀ i, i < h.rb → h.buf[i]? = s1.buf[i]?) ∧ h.elems = s1.elems ∧
      h.headerSize = s1.rb + k - s1.method ∧ (∀ j, h.buf[h.rb + j]? = s1.buf[s1.rb + k + j]?) := by
  have hrb := g1.i1.hrb
  have hle : lastElemEnd (s1.consume k) + 1 ≤ (s1.consume k).rb := by
    rw [lastElemEnd_consume]; have := lastEnd_le s1 g1.i1.hver g1.i1.helems; show _ ≤ s1.rb + k; omega
  have h2 : 2 ≤ (s1.consume k).rb := by show 2 ≤ s1.rb + k; omega
  have hsz' : (s1.consume k).rb ≤ (s1.consume k).buf.size := hsz
  have hi2 : (s1.consume k).rb - 2 < (s1.consume k).buf.size := by omega
  cases hb : (s1.consume k).buf[(s1.consume k).rb - 2]? with
  | none => rw [Array.getElem?_eq_none_iff] at hb; omega
  | some b2 =>
    have heq := finishHeaders_eq (s1.consume k) fs b2 h2 hb hle
    obtain ⟨h, hh⟩ : ∃ h, finishHeaders (s1.consume k) fs = .done (.ok h) := by
      rw [heq]; split <;> exact ⟨_, rfl⟩
    have below := finishHeaders_below (s1.consume k) fs h2 hsz' hle g1.i2.hLver g1.i2.hmax h hh
    have hsize : h.headerSize = s1.rb + k - s1.method ∧ (∀ j, h.buf[h.rb + j]? = s1.buf[s1.rb + k + j]?) := by
      rw [heq] at hh
      split at hh
      · simp only [Step.done.injEq, HDone.ok.injEq] at hh
        subst hh
        refine ⟨rfl, fun j => ?_⟩
        have hr : (s1.consume k).rb - ((s1.consume k).rb - (lastElemEnd (s1.consume k) + 1)) = lastElemEnd (s1.consume k) + 1 := by omega
        show (Array.extract (s1.consume k).buf 0 _ ++ Array.extract (s1.consume k).buf (s1.consume k).rb (s1.consume k).buf.size)[_ + j]? = _
        rw [hr, Array.getElem?_append_right (by simp only [Array.size_extract]; omega)]
        simp only [Array.size_extract, Array.getElem?_extract]
        have hm : min (lastElemEnd (s1.consume k) + 1) (s1.consume k).buf.size - 0 = lastElemEnd (s1.consume k) + 1 := by omega
        rw [hm, Nat.add_sub_cancel_left, Nat.min_self]
        show (if j < s1.buf.size - (s1.rb + k) then s1.buf[s1.rb + k + j]? else none) = _
        split
        · rfl
        · rw [Array.getElem?_eq_none (by omega)]
      · simp only [Step.done.injEq, HDone.ok.injEq] at hh
        subst hh
        exact ⟨rfl, fun j => rfl⟩
    exact ⟨h, hh, below.1, below.2.1, below.2.2.1, hsize.1, hsize.2⟩

/-- **Round trip of a header section in any accepted rendering** (every combination of
    strictness flags, any number of fields — also none —, any following bytes).  Each field
    line may have whitespace before the colon (where the flags allow it), any optional
    whitespace around the value, obs-folds inside the value (where allowed), NUL bytes and bare
    CRs inside the value (where the flags replace them by a space, or keep the CR) and may end with
    CRLF or — where the flags treat it as CRLF — a bare LF; the same holds for the empty line
    ending the section.  The parser finishes and appends exactly one element per field, in
    order and with multiplicity, whose name and value read back from the final buffer are the
    name sent and the value with the surrounding whitespace trimmed and every fold's line end
    replaced by spaces, every NUL / replaced bare CR read as a space (`FieldR.semValue`). -/
theorem fields_roundtrip_nc (F : FLFlags) (fs : Nat) (fields : List FieldR) (endEol : List UInt8) (s : HS)
    (hg : Good s) (hf : Fresh s) (hok : ∀ f ∈ fields, f.ok F) (hend : FEol F endEol)
    (hbuf : BufIs s.buf s.rb (renderFieldsR fields ++ endEol)) :
    ∃ h : Headers, (hsScanner F fs).run s = .done (.ok h) ∧ Below h s.version ∧
      (∃ els, h.elems = s.elems ++ els ∧
        els.map (elemView h.buf) = fields.map (fun f => (Http.kindHeader, f.name, some f.semValue))) ∧
      h.headerSize = s.rb + (renderFieldsR fields).length + endEol.length - s.method ∧
      (∀ j, h.buf[h.rb + j]? = s.buf[s.rb + (renderFieldsR fields).length + endEol.length + j]?) := by
  obtain ⟨s1, r1, g1, fr1, e_rb, e_sz, e_same, e_ver, e_me, els, e_el, views, hin⟩ :=
    run_fields_nc F fs fields endEol hend s hg hf hok hbuf
  have hbe : BufIs s1.buf s1.rb endEol := by
    intro i hi'
    rw [e_same _ (Or.inr (by omega)), e_rb]; exact hbuf.right i hi'
  have hk1 : 1 ≤ endEol.length := by
    cases hend with
    | inl he => subst he; simp
    | inr he => rw [he.1]; simp
  have hszk : s1.rb + endEol.length ≤ s1.buf.size := by
    have hlast := hbe (endEol.length - 1) (by omega)
    rw [List.getElem?_eq_getElem (by omega)] at hlast
    have := get_lt hlast; omega
  have st : hsStep F fs s1 = finishHeaders (s1.consume endEol.length) fs := by
    cases hend with
    | inl he =>
      subst he
      have c0 := hbe 0 (by simp); have c1 := hbe 1 (by simp)
      simp only [List.getElem?_cons_zero, List.getElem?_cons_succ, Nat.add_zero] at c0 c1
      exact step_emptyLine F fs s1 c0 c1 fr1.p
    | inr he =>
      obtain ⟨he, hL⟩ := he
      subst he
      have c0 := hbe 0 (by simp)
      simp only [List.getElem?_cons_zero, Nat.add_zero] at c0
      exact step_emptyLineLF F fs s1 c0 fr1.p hL
  obtain ⟨h, hh, below, hsame, hel, hhs, hrest⟩ := finish_nc fs s1 endEol.length hk1 g1 hszk
  have hrun : (hsScanner F fs).run s = .done (.ok h) := by
    rw [r1]; exact Scanner.run_done s1 _ (by show hsStep F fs s1 = _; rw [st, hh])
  refine ⟨h, hrun, by rw [← e_ver]; exact below, ⟨els, by rw [hel]; exact e_el, ?_⟩, ?_, ?_⟩
  · rw [← views]
    apply List.map_congr_left
    intro el hel'
    have hi' := hin el hel'
    have hmem : el ∈ h.elems := by rw [hel, e_el]; simp [hel']
    have hkey := below.2 el hmem el.key (by simp [Elem.slices]) hi'.2.2.2.1
    have hin2 : ElemIn el s.rb h.rb := by
      refine ⟨hi'.1, by omega, fun v hv => ?_, hi'.2.2.2.1, hi'.2.2.2.2⟩
      have := below.2 el hmem v (by simp [Elem.slices, hv]) (hi'.2.2.2.2 v hv)
      exact ⟨(hi'.2.2.1 v hv).1, by omega⟩
    exact elemView_congr h.buf s1.buf el s.rb h.rb hin2 (fun i _ h2' => hsame i h2')
  · rw [hhs, e_rb, e_me]
  · intro j
    rw [hrest j, e_same _ (Or.inr (by omega)), e_rb]

/-! ### examples (tests on samples, and non-vacuity of the theorem) -/

/-- `X-A:` HT `va` CRLF SP `l` SP SP LF — optional whitespace after the colon, one obs-fold,
    trailing whitespace, bare LF as the line end -/
def exFieldR : FieldR :=
  ⟨[88, 45, 65], [], [.ws 9, .ch 118, .ch 97, .fold [13, 10] 32, .ch 108, .ws 32, .ws 32], [10]⟩

/-- accepted at the default level 0 -/
example : exFieldR.ok (FLFlags.ofLevel 0) := by decide
example : FEol (FLFlags.ofLevel 0) [10] := by decide
/-- … but not at level 1 (no folds, no bare LF) -/
example : ¬ exFieldR.ok (FLFlags.ofLevel 1) := by decide
example : exFieldR.render = [88, 45, 65, 58, 9, 118, 97, 13, 10, 32, 108, 32, 32, 10] := by decide
/-- the application sees `va   l`: CRLF → two spaces, the continuation's own space kept, the rest trimmed -/
example : exFieldR.semValue = [118, 97, 32, 32, 32, 108] := by decide
/-- whitespace before the colon needs level ≤ -3 -/
example : (⟨[65], [32], [.ch 98], [13, 10]⟩ : FieldR).ok (FLFlags.ofLevel (-3)) ∧
    ¬ (⟨[65], [32], [.ch 98], [13, 10]⟩ : FieldR).ok (FLFlags.ofLevel (-2)) := by decide

/-- the state after the request line `GET /?a HTTP/1.0`, the read buffer holding
    `exFieldR.render`, a second canonical field `B: c` CRLF, the empty line as a bare LF, then `XY` -/
def exStartNC : HS :=
  { buf := #[71, 69, 84, 0, 47, 0, 97, 0, 72, 84, 84, 80, 47, 49, 46, 48, 0, 10,
             88, 45, 65, 58, 9, 118, 97, 13, 10, 32, 108, 32, 32, 10, 66, 58, 32, 99, 13, 10, 10, 88, 89],
    rb := 18, rbSize := 30, elems := [⟨8, ⟨0, 6, 1⟩, none⟩], method := 0, version := 8 }

def exFieldsNC : List FieldR := [exFieldR, ⟨[66], [], [.ws 32, .ch 99], [13, 10]⟩]

theorem exStartNC_good : Good exStartNC := by
  refine ⟨⟨by decide, by decide, by decide, by decide, by decide, by decide, ?_⟩,
    ⟨fun _ => rfl, fun _ _ => rfl, fun h => absurd rfl h, by decide, ?_⟩⟩
  · intro el hm hk
    simp [exStartNC] at hm; subst hm; exact absurd hk (by decide)
  · intro el hm sl hsl _
    simp [exStartNC] at hm; subst hm; simp [Elem.slices] at hsl; subst hsl; decide

/-- non-vacuity of `fields_roundtrip_nc`: its hypotheses hold for this input at level 0 -/
example : ∃ h : Headers, (hsScanner (FLFlags.ofLevel 0) 18).run exStartNC = .done (.ok h) ∧ Below h exStartNC.version ∧
    (∃ els, h.elems = exStartNC.elems ++ els ∧
      els.map (elemView h.buf) = [(Http.kindHeader, [88, 45, 65], some [118, 97, 32, 32, 32, 108]),
                                  (Http.kindHeader, [66], some [99])]) := by
  obtain ⟨h, h1, h2, h3, _⟩ := fields_roundtrip_nc (FLFlags.ofLevel 0) 18 exFieldsNC [10] exStartNC exStartNC_good
    ⟨rfl, rfl, rfl, rfl, rfl⟩ (by decide) (by decide) (by unfold BufIs; decide)
  exact ⟨h, h1, h2, h3⟩

/-- the same input evaluated (a test on one sample): two elements are appended, the value of the
    first one reads `va   l`; `read_buffer` ends behind the NUL of the last value (37, moved
    back by 2), `header_size` = 39 -/
example :
    (match (hsScanner (FLFlags.ofLevel 0) 18).run exStartNC with
     | .done (.ok h) => (h.rb, h.shifted, h.headerSize) == (37, 2, 39) &&
                        (h.elems.map (elemView h.buf)).drop 1 ==
                          [(1, [88, 45, 65], some [118, 97, 32, 32, 32, 108]), (1, [66], some [99])] &&
                        h.buf.toList.drop h.rb == [88, 89]
     | _ => false) = true := by decide +kernel

/-- `A:b` NUL `c` CR `d` CRLF with the CR replaced by a space: accepted at level -1 (not at 0, and
    not at -3 where a bare CR is kept), the application sees `b c d` -/
def exFieldCr : FieldR := ⟨[65], [], [.ch 98, .nul, .ch 99, .crSp, .ch 100], [13, 10]⟩
example : exFieldCr.ok (FLFlags.ofLevel (-1)) ∧ ¬ exFieldCr.ok (FLFlags.ofLevel 0) ∧
    ¬ exFieldCr.ok (FLFlags.ofLevel (-3)) := by decide
example : exFieldCr.render = [65, 58, 98, 0, 99, 13, 100, 13, 10] ∧ exFieldCr.semValue = [98, 32, 99, 32, 100] := by decide
/-- the same bytes at level -3: the bare CR is kept as a value byte -/
def exFieldCrKeep : FieldR := ⟨[65], [], [.ch 98, .nul, .ch 99, .crKeep, .ch 100], [13, 10]⟩
example : exFieldCrKeep.ok (FLFlags.ofLevel (-3)) ∧ ¬ exFieldCrKeep.ok (FLFlags.ofLevel (-2)) := by decide
example : exFieldCrKeep.render = exFieldCr.render ∧ exFieldCrKeep.semValue = [98, 32, 99, 13, 100] := by decide
/-- the context condition: a CR directly before a bare-LF line end (or before a fold with a bare
    LF) is a CRLF, not a bare CR; before CRLF it is one -/
example : ¬ (⟨[65], [], [.ch 98, .crSp], [10]⟩ : FieldR).ok (FLFlags.ofLevel (-1)) ∧
    ¬ (⟨[65], [], [.ch 98, .crSp, .fold [10] 32, .ch 99], [13, 10]⟩ : FieldR).ok (FLFlags.ofLevel (-1)) ∧
    (⟨[65], [], [.ch 98, .crSp], [13, 10]⟩ : FieldR).ok (FLFlags.ofLevel (-1)) := by decide

/-- the state after `GET /?a HTTP/1.0`, the read buffer holding `exFieldCr.render`, CRLF, `X` -/
def exStartCr : HS :=
  { buf := #[71, 69, 84, 0, 47, 0, 97, 0, 72, 84, 84, 80, 47, 49, 46, 48, 0, 10,
             65, 58, 98, 0, 99, 13, 100, 13, 10, 13, 10, 88],
    rb := 18, rbSize := 30, elems := [⟨8, ⟨0, 6, 1⟩, none⟩], method := 0, version := 8 }

theorem exStartCr_good : Good exStartCr := by
  refine ⟨⟨by decide, by decide, by decide, by decide, by decide, by decide, ?_⟩,
    ⟨fun _ => rfl, fun _ _ => rfl, fun h => absurd rfl h, by decide, ?_⟩⟩
  · intro el hm hk
    simp [exStartCr] at hm; subst hm; exact absurd hk (by decide)
  · intro el hm sl hsl _
    simp [exStartCr] at hm; subst hm; simp [Elem.slices] at hsl; subst hsl; decide

/-- non-vacuity with the replacement tokens: the hypotheses of `fields_roundtrip_nc` hold at level -1
    (CR → space) and at level -3 (CR kept) for the same bytes -/
example : (∃ h : Headers, (hsScanner (FLFlags.ofLevel (-1)) 18).run exStartCr = .done (.ok h) ∧
      ∃ els, h.elems = exStartCr.elems ++ els ∧
        els.map (elemView h.buf) = [(Http.kindHeader, [65], some [98, 32, 99, 32, 100])]) ∧
    (∃ h : Headers, (hsScanner (FLFlags.ofLevel (-3)) 18).run exStartCr = .done (.ok h) ∧
      ∃ els, h.elems = exStartCr.elems ++ els ∧
        els.map (elemView h.buf) = [(Http.kindHeader, [65], some [98, 32, 99, 13, 100])]) := by
  constructor
  · obtain ⟨h, h1, _, h3, _⟩ := fields_roundtrip_nc (FLFlags.ofLevel (-1)) 18 [exFieldCr] [13, 10] exStartCr exStartCr_good
      ⟨rfl, rfl, rfl, rfl, rfl⟩ (by decide) (by decide) (by unfold BufIs; decide)
    exact ⟨h, h1, h3⟩
  · obtain ⟨h, h1, _, h3, _⟩ := fields_roundtrip_nc (FLFlags.ofLevel (-3)) 18 [exFieldCrKeep] [13, 10] exStartCr exStartCr_good
      ⟨rfl, rfl, rfl, rfl, rfl⟩ (by decide) (by decide) (by unfold BufIs; decide)
    exact ⟨h, h1, h3⟩

/-- the same input evaluated at levels -1 and -3 (a test on one sample): the value reads `b c d`
    with one CR replaced (`crSp` = 1), resp. `b c` CR `d` with none replaced -/
example :
    (match (hsScanner (FLFlags.ofLevel (-1)) 18).run exStartCr, (hsScanner (FLFlags.ofLevel (-3)) 18).run exStartCr with
     | .done (.ok h), .done (.ok k) =>
        (h.elems.map (elemView h.buf)).drop 1 == [(1, [65], some [98, 32, 99, 32, 100])] && h.crSp == 1 &&
        (k.elems.map (elemView k.buf)).drop 1 == [(1, [65], some [98, 32, 99, 13, 100])] && k.crSp == 0 &&
        h.headerSize == 29 && h.buf.toList.drop h.rb == [88]
     | _, _ => false) = true := by decide +kernel

end HSP
end Mhd.Req
