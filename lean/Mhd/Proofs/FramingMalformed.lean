/-
  C03 helper lemmas, part 9: malformed chunk syntax yields an error reply (which taints the
  connection), never a silent resynchronisation.
-/
import Mhd.Proofs.FramingPipeline
namespace Mhd.Framing
open Mhd.Gen.Framing Framer


/-! ### malformed chunk syntax is an error, never a resynchronisation -/

theorem chunkAct_nonhex (lvl : Int) (c : UInt8) (rest : Bytes) (hc : isHex c = false) :
    chunkAct lvl 0 0 (c :: rest) = .err httpBadRequest := by
  have hv : hexVal c = none := by simpa [isHex] using hc
  unfold chunkAct
  simp only [ne_eq, not_true_eq_false, and_false, if_false]
  unfold sizeLineAct
  have hs : strx (c :: rest) = (0, 0) := by simp [strx, strxAux, hv]
  simp only [hs, List.length_cons]
  have : ¬ (0 = rest.length + 1) := by omega
  simp [this, hc]

theorem strxAux_overflow (ds x : Bytes) (res i : Nat) (hd : ∀ d ∈ ds, isHex d = true)
    (hr : res ≤ uint64Max) (hv : uint64Max < hexFrom res ds) : strxAux (ds ++ x) res i = (0, 0) := by
  induction ds generalizing res i with
  | nil => simp only [hexFrom, List.foldl_nil] at hv; omega
  | cons c t ih =>
    have hc := hd c List.mem_cons_self
    simp only [isHex, Option.isSome_iff_exists] at hc
    obtain ⟨d, hd'⟩ := hc
    simp only [List.cons_append]
    unfold strxAux
    simp only [hd']
    have hstep : hexFrom res (c :: t) = hexFrom (res * 16 + d) t := by simp [hexFrom, hd']
    rw [hstep] at hv
    cases ho : mulOvf 16 res d
    · simp only [Bool.false_eq_true, if_false]
      have h1 := mulOvf16 res d (hexVal_le c d hd')
      rw [ho] at h1
      have : ¬ (res * 16 + d > uint64Max) := fun h => by simpa using h1.mpr h
      exact ih _ _ (fun d hd'' => hd d (List.mem_cons_of_mem _ hd'')) (by omega) hv
    · simp

/-- a chunk size that does not fit 64 bits is refused (413), whatever follows -/
theorem chunkAct_overflow (lvl : Int) (ds x : Bytes) (hne : ds ≠ []) (hd : ∀ d ∈ ds, isHex d = true)
    (hv : uint64Max < hexValue ds) : chunkAct lvl 0 0 (ds ++ x) = .err httpContentTooLarge := by
  cases hds : ds with
  | nil => exact absurd hds hne
  | cons c t =>
    have hs : strx (ds ++ x) = (0, 0) := strxAux_overflow ds x 0 0 hd (by simp [uint64Max]) (by rw [← hexValue_eq]; exact hv)
    rw [hds] at hs hd
    have hc := hd c List.mem_cons_self
    unfold chunkAct
    simp only [List.cons_append, ne_eq, not_true_eq_false, and_false, if_false]
    unfold sizeLineAct
    simp only [List.cons_append] at hs
    simp only [hs, List.length_cons]
    have : ¬ (0 = (t ++ x).length + 1) := by omega
    simp [this, hc]

/-- chunk data that is not followed by CRLF (or by a bare LF where the level allows it) is refused -/
theorem chunkAct_missing_crlf (lvl : Int) (n : Nat) (hn : n ≠ 0) (c d : UInt8) (r : Bytes)
    (h1 : ¬ (c = CR ∧ d = LF)) (h2 : ¬ (lvl ≤ bareLfMaxLvl ∧ c = LF)) :
    chunkAct lvl n n (c :: d :: r) = .err httpBadRequest := by
  unfold chunkAct
  simp only [true_and]
  rw [if_pos hn]
  have a1 : (c == CR && d == LF) = false := by
    cases h : (c == CR && d == LF)
    · rfl
    · simp only [Bool.and_eq_true, beq_iff_eq] at h; exact absurd h h1
  have a2 : (decide (lvl ≤ bareLfMaxLvl) && c == LF) = false := by
    cases h : (decide (lvl ≤ bareLfMaxLvl) && c == LF)
    · rfl
    · simp only [Bool.and_eq_true, decide_eq_true_eq, beq_iff_eq] at h; exact absurd h h2
  simp [a1, a2]

/-- junk between the chunk size and the end of the line is refused -/
theorem chunkAct_junk_after_size (lvl : Int) (ds : Bytes) (c d : UInt8) (r : Bytes)
    (hne : ds ≠ []) (hd : ∀ x ∈ ds, isHex x = true) (hv : hexValue ds ≤ uint64Max)
    (hc : isHex c = false) (h0 : c ≠ SEMI) (h1 : ¬ (bwsAboveLvl < lvl ∧ (c = SP ∨ c = HT)))
    (h2 : ¬ (c = CR ∧ d = LF)) (h3 : ¬ (lvl ≤ bareLfMaxLvl ∧ c = LF)) :
    chunkAct lvl 0 0 (ds ++ c :: d :: r) = .err httpBadRequest := by
  have hsx := strx_digits ds (c :: d :: r) hd (by intro a b hab; cases hab; exact hc) hv
  have hdl : 0 < ds.length := by cases h : ds with | nil => exact absurd h hne | cons _ _ => simp
  unfold chunkAct
  cases hb : ds ++ c :: d :: r with
  | nil => cases ds <;> simp at hb
  | cons a t =>
    simp only [ne_eq, not_true_eq_false, and_false, if_false]
    rw [← hb]
    unfold sizeLineAct
    simp only [hsx]
    have k1 : ¬ ds.length = (ds ++ c :: d :: r).length := by simp only [List.length_append, List.length_cons]; omega
    have k0 : ¬ ds.length = 0 := by omega
    rw [if_neg k1, if_neg k0, List.drop_left]
    simp only
    have a0 : (c == SEMI || decide (bwsAboveLvl < lvl) && (c == SP || c == HT)) = false := by
      cases h : (c == SEMI || decide (bwsAboveLvl < lvl) && (c == SP || c == HT))
      · rfl
      · simp only [Bool.or_eq_true, Bool.and_eq_true, decide_eq_true_eq, beq_iff_eq] at h
        cases h with
        | inl h => exact absurd h h0
        | inr h => exact absurd h h1
    have a1 : (c == CR && d == LF) = false := by
      cases h : (c == CR && d == LF)
      · rfl
      · simp only [Bool.and_eq_true, beq_iff_eq] at h; exact absurd h h2
    have a2 : (decide (lvl ≤ bareLfMaxLvl) && c == LF) = false := by
      cases h : (decide (lvl ≤ bareLfMaxLvl) && c == LF)
      · rfl
      · simp only [Bool.and_eq_true, decide_eq_true_eq, beq_iff_eq] at h; exact absurd h h3
    simp [a0, a1, a2]

/-- a decoder error taints the connection: by `reach_noReparse` nothing is ever parsed as a request again -/
theorem bodyStep_err_noReparse [HeadParser] (lvl : Int) (s : St) (st : Nat) (hc : s.chunked = true) (wf : FlagsWF s)
    (ha : chunkAct lvl s.cur s.off s.buf = .err st) :
    bodyStep lvl s = some (errorReply s st) ∧ NoReparse (errorReply s st) ∧ (errorReply s st).buf = [] := by
  refine ⟨bodyStep_err lvl s st hc ha, errorReply_props s st wf, ?_⟩
  unfold errorReply; split <;> rfl
end Mhd.Framing
